(* Model of the position bookkeeping of bgzf::io::Reader (noodles-bgzf/src/io/reader.rs,
   io/block.rs, io/block/data.rs, reader/frame.rs::{parse_block, parse_block_into_buf}) as a
   state machine over an ALREADY PARSED, well-formed file: a list of frames, each with its
   compressed size (BSIZE+1) and inflated data.  Framing, inflate and CRC are C01's business.

   What is mirrored statement by statement:
     Reader { inner (cursor = the frames still ahead), position, block }
     Block  { pos, size, data: Data { buf: [u8; 65536], pos, len } }
     Block::virtual_position, Data::{has_remaining, consume, as_ref}
     read_nonempty_block_with (skipping empty blocks), read_block, read_block_into_buf
     Read::read (incl. the direct path for buffers >= 65536), Read::read_exact (fast path +
     default_read_exact), std's default read_exact (what IndexedReader uses),
     BufRead::{fill_buf, consume}, Reader::seek, Reader::seek_by_uncompressed_position,
     and the caller-side read-to-end loop (read with an n-byte buffer until a call returns 0). *)
From Coq Require Import List NArith Bool.
From NV Require Import Bgzf.Vpos Bgzf.Gzi.
Import ListNotations.
Open Scope N_scope.

Definition len {A : Type} (l : list A) : N := N.of_nat (length l).

Record frame := mkFrame { csize : N; fdata : list N }.
Definition file := list frame.

Definition flen (b : frame) : N := len (fdata b).

Record state := mkState {
  rest : list frame;   (* the frames the inner stream has not delivered yet *)
  position : N;        (* Reader::position *)
  bpos : N;            (* Block::pos *)
  bsize : N;           (* Block::size *)
  blen : N;            (* Data::len *)
  cur : N;             (* Data::pos *)
  buf : list N         (* Data::buf, trailing zeros implicit *)
}.

Definition init (f : file) : state :=
  mkState f 0 0 0 0 0 [].

(* &buf[from..to] of the zero-initialised 65536-byte array *)
Definition buf_slice (b : list N) (from to : N) : list N :=
  let n := N.to_nat (to - from) in
  firstn n (skipn (N.to_nat from) b ++ repeat 0 n).

(* inflate into buf[0..|d|] *)
Definition buf_write (b : list N) (d : list N) : list N := d ++ skipn (length d) b.

Definition has_remaining (st : state) : bool := cur st <? blen st.

(* Data::as_ref = &buf[pos..len]; panics when pos > len *)
Definition as_ref (st : state) : res (list N) :=
  if cur st <=? blen st then Ok (buf_slice (buf st) (cur st) (blen st)) else Panic.

(* Block::virtual_position, with its asserts *)
Definition virtual_position (st : state) : res N :=
  if has_remaining st then
    if (bpos st <=? MAX_COMPRESSED_POSITION) && (cur st <=? MAX_UNCOMPRESSED_POSITION)
    then Ok (pack (bpos st) (cur st)) else Panic
  else
    if bpos st + bsize st <=? MAX_COMPRESSED_POSITION
    then Ok (pack (bpos st + bsize st) 0) else Panic.

(* The loop of read_nonempty_block_with: frames are taken from the stream until one with data
   is found; the block ends up being the LAST frame taken.  Result: that frame, its offset, the
   frames still ahead and the new stream position; None when no frame could be read at all. *)
Fixpoint next_nonempty (fs : list frame) (pos : N) : option (frame * N * list frame * N) :=
  match fs with
  | [] => None
  | b :: r =>
      if 0 <? flen b then Some (b, pos, r, pos + csize b)
      else match next_nonempty r (pos + csize b) with
           | None => Some (b, pos, r, pos + csize b)
           | s => s
           end
  end.

Inductive rmode := Parse | IntoBuf.

(* ---- BEHAVIOUR SWITCH ---------------------------------------------------------------------
   Every function below that depends on it takes [fx : bool]:
     fx = false : the reader as pinned (two known defects: seek-eof-stale-block,
                  direct-read-at-eof-stale-len);
     fx = true  : the reader after the repair
                  (a) read_nonempty_block_with returns 0 when no non-empty block was read,
                  (b) seek turns the block into an empty block at [position] when read_block read
                      no non-empty block,
                  (c) Data::set_position clamps to the data length.
   [pinned_tree_repaired] says which of the two the tree under /repo currently is; it is the only
   line to change when the repair is committed (the driver runs the model with it). *)
Definition pinned_tree_repaired : bool := true.

Definition read_nonempty_block (m : rmode) (st : state) : state * option frame :=
  match next_nonempty (rest st) (position st) with
  | None => (st, None)
  | Some (b, p, r, np) =>
      (mkState r np p (csize b) (flen b)
         (match m with Parse => 0 | IntoBuf => flen b end)
         (match m with Parse => buf_write (buf st) (fdata b) | IntoBuf => buf st end),
       Some b)
  end.

Definition consume (st : state) (n : N) : state :=
  mkState (rest st) (position st) (bpos st) (bsize st) (blen st)
          (N.min (cur st + n) (blen st)) (buf st).

Definition fill_buf (st : state) : state * res (list N) :=
  let st1 := if has_remaining st then st else fst (read_nonempty_block Parse st) in
  (st1, as_ref st1).

(* the caller's buffer is pre-filled with this byte by the harness; it is what a `read` that
   reports more bytes than it wrote leaves visible *)
Definition SENTINEL : N := 170.

(* Read::read with a buffer of n bytes; result = buf[..amt] *)
Definition read (fx : bool) (st : state) (n : N) : state * res (list N) :=
  if negb (has_remaining st) && (65536 <=? n) then
    match read_nonempty_block IntoBuf st with
    | (st', Some b) => (st', Ok (fdata b))
    | (st', None) => (st', Ok (repeat SENTINEL (N.to_nat (if fx then 0 else blen st'))))
    end
  else
    match fill_buf st with
    | (st1, Ok src) =>
        let out := firstn (N.to_nat n) src in
        (consume st1 (len out), Ok out)
    | (st1, Err e) => (st1, Err e)
    | (st1, Panic) => (st1, Panic)
    | (st1, OutOfFuel) => (st1, OutOfFuel)
    | (st1, Unmodelled) => (st1, Unmodelled)
    end.

(* default_read_exact (reader.rs) = std::io::default_read_exact on a reader that never
   returns Interrupted: read until the buffer is full or a read returns 0 *)
Fixpoint default_read_exact (fx : bool) (fuel : nat) (st : state) (remaining : N) (acc : list N)
  : state * res (list N) :=
  match fuel with
  | O => (st, OutOfFuel)
  | S k =>
      if remaining =? 0 then (st, Ok acc)
      else match read fx st remaining with
           | (st', Ok bs) =>
               if len bs =? 0 then (st', Err UnexpectedEof)
               else default_read_exact fx k st' (remaining - len bs) (acc ++ bs)
           | (st', Err e) => (st', Err e)
           | (st', Panic) => (st', Panic)
           | (st', OutOfFuel) => (st', OutOfFuel)
           | (st', Unmodelled) => (st', Unmodelled)
           end
  end.

Definition read_exact_std (fx : bool) (st : state) (n : N) : state * res (list N) :=
  default_read_exact fx (S (N.to_nat n)) st n [].

(* Reader's own read_exact: copy from the block when it holds enough *)
Definition read_exact (fx : bool) (st : state) (n : N) : state * res (list N) :=
  match as_ref st with
  | Ok src =>
      if n <=? len src then (consume st n, Ok (firstn (N.to_nat n) src))
      else read_exact_std fx st n
  | Err e => (st, Err e)
  | Panic => (st, Panic)
  | OutOfFuel => (st, OutOfFuel)
  | Unmodelled => (st, Unmodelled)
  end.

(* The read-to-end loop of a caller with an n-byte buffer:
     loop { let k = r.read(&mut buf[..n])?; if k == 0 { break } out.extend(&buf[..k]) }
   Every productive iteration hands out at least one of the bytes still ahead of the cursor
   (the rest of the block buffer and the data of the frames not yet delivered), so
   [data_ahead] + 1 iterations suffice; OutOfFuel is proved unreachable for the repaired reader. *)
Fixpoint read_all_loop (fx : bool) (fuel : nat) (st : state) (n : N) (acc : list N)
  : state * res (list N) :=
  match fuel with
  | O => (st, OutOfFuel)
  | S k =>
      match read fx st n with
      | (st', Ok bs) =>
          if len bs =? 0 then (st', Ok acc)
          else read_all_loop fx k st' n (acc ++ bs)
      | (st', Err e) => (st', Err e)
      | (st', Panic) => (st', Panic)
      | (st', OutOfFuel) => (st', OutOfFuel)
      | (st', Unmodelled) => (st', Unmodelled)
      end
  end.

Definition data_ahead (st : state) : nat :=
  (N.to_nat (blen st) + length (concat (map fdata (rest st))))%nat.

Definition read_all (fx : bool) (st : state) (n : N) : state * res (list N) :=
  read_all_loop fx (S (data_ahead st)) st n [].

(* inner.seek(SeekFrom::Start(cpos)) on the parsed file: the frames from offset cpos on;
   None when cpos falls inside a frame (outside the model) *)
Fixpoint drop_to (fs : list frame) (at_ : N) (cpos : N) : option (list frame) :=
  match fs with
  | [] => Some []
  | b :: r =>
      if cpos =? at_ then Some fs
      else if cpos <? at_ + csize b then None
      else drop_to r (at_ + csize b) cpos
  end.

Definition seek (fx : bool) (f : file) (st : state) (v : N) : state * res N :=
  let c := vcomp v in
  let u := vuncomp v in
  match drop_to f 0 c with
  | None => (st, Unmodelled)
  | Some r =>
      let st1 := mkState r c (bpos st) (bsize st) (blen st) (cur st) (buf st) in
      let '(st2, ld) := read_nonempty_block Parse st1 in
      let none_read := match ld with Some b => flen b =? 0 | None => true end in
      let st3 := if fx && none_read
                 then mkState (rest st2) (position st2) (position st2) 0 0 0 (buf st2)
                 else st2 in
      (mkState (rest st3) (position st3) (bpos st3) (bsize st3) (blen st3)
               (if fx then N.min u (blen st3) else u) (buf st3), Ok v)
  end.

Definition seek_by_uncompressed_position (fx : bool) (f : file) (idx : gzi_index) (st : state) (pos : N)
  : state * res N :=
  match gzi_query idx pos with
  | Ok v => match seek fx f st v with
            | (st', Ok _) => (st', Ok pos)
            | r => r
            end
  | Err e => (st, Err e)
  | Panic => (st, Panic)
  | OutOfFuel => (st, OutOfFuel)
  | Unmodelled => (st, Unmodelled)
  end.

Inductive op :=
| Read (n : N) | ReadExact (n : N) | ReadExactStd (n : N)
| FillBuf | Consume (n : N) | Seek (v : N) | SeekU (pos : N)
| ReadAll (n : N).

Inductive out :=
| OBytes (r : res (list N))
| OUnit
| OPos (r : res N).

Definition step (fx : bool) (f : file) (idx : gzi_index) (st : state) (o : op) : state * out :=
  match o with
  | Read n => let '(s, r) := read fx st n in (s, OBytes r)
  | ReadExact n => let '(s, r) := read_exact fx st n in (s, OBytes r)
  | ReadExactStd n => let '(s, r) := read_exact_std fx st n in (s, OBytes r)
  | FillBuf => let '(s, r) := fill_buf st in (s, OBytes r)
  | Consume n => (consume st n, OUnit)
  | Seek v => let '(s, r) := seek fx f st v in (s, OPos r)
  | SeekU p => let '(s, r) := seek_by_uncompressed_position fx f idx st p in (s, OPos r)
  | ReadAll n => let '(s, r) := read_all fx st n in (s, OBytes r)
  end.

(* a history: after every op, its result and the virtual position then reported *)
Fixpoint run (fx : bool) (f : file) (idx : gzi_index) (st : state) (ops : list op)
  : list (out * res N) :=
  match ops with
  | [] => []
  | o :: r =>
      let '(st', x) := step fx f idx st o in
      (x, virtual_position st') :: run fx f idx st' r
  end.

Fixpoint run_state (fx : bool) (f : file) (idx : gzi_index) (st : state) (ops : list op) : state :=
  match ops with
  | [] => st
  | o :: r => run_state fx f idx (fst (step fx f idx st o)) r
  end.

(* the gzi index of a file: one entry (compressed offset, uncompressed offset) per frame
   except the first *)
Fixpoint gzi_entries (fs : list frame) (c d : N) : gzi_index :=
  match fs with
  | [] => []
  | b :: r => (c, d) :: gzi_entries r (c + csize b) (d + flen b)
  end.

Definition gzi_of (f : file) : gzi_index :=
  match f with
  | [] => []
  | b :: r => gzi_entries r (csize b) (flen b)
  end.
