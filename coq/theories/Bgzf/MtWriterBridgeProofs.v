(* Proofs about NV.Bgzf.MtWriterBridge: C03's MtWriter and C14's Sinks.Mt run in lock step. *)
From Coq Require Import List NArith Arith Bool Lia.
From NV Require Import Io.Sched Io.SchedProofs Bgzf.MtWriter Sinks.Sink Sinks.Mt.
From NV Require Import Bgzf.MtReaderBridge Bgzf.MtReaderBridgeProofs Bgzf.MtWriterBridge.
Import ListNotations.
Close Scope N_scope.

(* ---- the pipeline under a map that respects the consumer only on items satisfying Q -------- *)
Section SchedMapQ.
  Variables (A B C D RA RB : Type) (g : A -> B) (h : C -> D) (fA : A -> RA) (fB : B -> RB).
  Variables (readyA : A -> bool) (readyB : B -> bool).
  Variables (stepA : C -> RA -> C) (stepB : D -> RB -> D).
  Variables (stopA : C -> bool) (stopB : D -> bool).
  Variables (can : nat -> bool -> bool) (pool : nat).
  Variable Q : A -> Prop.
  Hypothesis Hready : forall x, readyB (g x) = readyA x.
  Hypothesis Hstep : forall c x, Q x -> stepB (h c) (fB (g x)) = h (stepA c (fA x)).
  Hypothesis Hstop : forall c, stopB (h c) = stopA c.

  Definition sQ (s : Sched.st A C) : Prop :=
    Forall Q (todo s) /\ Forall (fun q => Q (snd q)) (chan s) /\
    match hold s with Some q => Q (snd q) | None => True end.

  Lemma mapq_step : forall s a, sQ s ->
    Sched.step fB readyB stepB stopB can pool (map_st g h s) a
    = map_st g h (Sched.step fA readyA stepA stopA can pool s a).
  Proof.
    intros s a HQ. unfold Sched.step. rewrite (map_enabled A B C D g h stopA stopB can pool Hstop).
    destruct (Sched.enabled stopA can pool s a); [|reflexivity].
    destruct s as [td n ch hd p r d co c]. unfold map_st. destruct HQ as (Q1 & Q2 & Q3).
    cbn [todo chan hold] in Q1, Q2, Q3.
    destruct a as [| |t| |]; cbn [todo next chan hold pending running done Sched.cons cs].
    - destruct td as [|x xs]; cbn [map]; [reflexivity|]. rewrite Hready.
      destruct (readyA x); cbn [todo next chan hold pending running done Sched.cons cs];
        rewrite map_app; reflexivity.
    - destruct p; reflexivity.
    - reflexivity.
    - destruct ch as [|q ch]; reflexivity.
    - destruct hd as [[t x]|]; cbn [option_map map_tk fst snd]; [|reflexivity].
      cbn [todo next chan hold pending running done Sched.cons cs].
      cbn [snd] in Q3. rewrite map_app, (Hstep c x Q3). reflexivity.
  Qed.

  Lemma step_sQ : forall s a, sQ s -> sQ (Sched.step fA readyA stepA stopA can pool s a).
  Proof.
    intros s a HQ. unfold Sched.step. destruct (Sched.enabled stopA can pool s a); [|exact HQ].
    destruct s as [td n ch hd p r d co c]. destruct HQ as (Q1 & Q2 & Q3). unfold sQ.
    cbn [todo chan hold] in *.
    destruct a as [| |t| |]; cbn [todo next chan hold pending running done Sched.cons cs].
    - destruct td as [|x xs]; [repeat split; assumption|].
      inversion Q1 as [|? ? Qx Qxs]; subst.
      destruct (readyA x); cbn [todo chan hold]; (split; [exact Qxs|]); (split; [|exact Q3]);
        apply Forall_app; (split; [exact Q2|]); constructor; [exact Qx|constructor|exact Qx|constructor].
    - destruct p; cbn [todo chan hold]; repeat split; assumption.
    - repeat split; assumption.
    - destruct ch as [|q ch]; cbn [todo chan hold]; [repeat split; assumption|].
      inversion Q2; subst. repeat split; assumption.
    - destruct hd as [[t x]|]; cbn [todo chan hold]; repeat split; assumption.
  Qed.

  Lemma mapq_fold : forall seg s, sQ s ->
    fold_left (Sched.step fB readyB stepB stopB can pool) seg (map_st g h s)
    = map_st g h (fold_left (Sched.step fA readyA stepA stopA can pool) seg s).
  Proof.
    induction seg as [|a seg IH]; intros s HQ; cbn [fold_left]; [reflexivity|].
    rewrite (mapq_step s a HQ). apply IH. apply step_sQ. exact HQ.
  Qed.
End SchedMapQ.

(* ---- the sink embedding --------------------------------------------------------------------- *)

Lemma write_all_nil : forall s, write_all [] s = (Ok, s).
Proof. intros s. reflexivity. Qed.

Lemma run_calls_filter : forall ps s,
  run_calls (map CWrite ps) s = run_calls (map CWrite (filter nonempty ps)) s.
Proof.
  induction ps as [|p ps IH]; intros s; [reflexivity|]. cbn [map filter].
  destruct p as [|b p]; cbn [nonempty].
  - cbn [run_calls run_call]. rewrite write_all_nil. apply IH.
  - cbn [map run_calls]. destruct (run_call (CWrite (b :: p)) s) as [r s1]. destruct r; try reflexivity. apply IH.
Qed.

Section EmbProofs.
  Variable e : errk.
  Hypothesis He : N.eqb e e_interrupted = false.
  Variable fa : option nat.

  Notation emb := (emb_sink e fa).
  Notation swrite := (@MtWriter.sink_write (list byte) fa).

  Lemma eta_mtc : forall c, mkMtc (mt_sink c) (mt_res c) = c.
  Proof. intros [s r]. reflexivity. Qed.

  Lemma stopped_emb : forall k, mtc_stopped (emb k) = serr k.
  Proof. intros k. unfold emb_sink, mtc_stopped. destruct (serr k); reflexivity. Qed.

  Lemma res_emb : forall k, mt_res (emb k) = if serr k then Err e else Ok.
  Proof. intros k. unfold emb_sink. destruct (serr k); reflexivity. Qed.

  Lemma accept_full : forall bytes rest c b p,
    write_all (b :: p) (mkSink bytes (Full :: rest) c) = (Ok, mkSink (bytes ++ b :: p) rest (S c)).
  Proof.
    intros. unfold write_all. cbn [sscript length write_all_fuel].
    unfold Sink.sink_write, next_event. cbn [sscript sbytes scalls length].
    change (skipn (S (length p)) (b :: p)) with (skipn (length p) p). rewrite skipn_all.
    destruct (length rest); reflexivity.
  Qed.

  Lemma accept_empty : forall bytes c b p,
    write_all (b :: p) (mkSink bytes [] c) = (Ok, mkSink (bytes ++ b :: p) [] (S c)).
  Proof.
    intros. unfold write_all. cbn [sscript length write_all_fuel].
    unfold Sink.sink_write, next_event. cbn [sscript sbytes scalls length].
    change (skipn (S (length p)) (b :: p)) with (skipn (length p) p). rewrite skipn_all. reflexivity.
  Qed.

  Lemma reject_fail : forall bytes rest c b p,
    write_all (b :: p) (mkSink bytes (Fail e :: rest) c) = (Err e, mkSink bytes rest (S c)).
  Proof.
    intros. unfold write_all. cbn [sscript length write_all_fuel].
    unfold Sink.sink_write, next_event. cbn [sscript sbytes scalls]. rewrite He. reflexivity.
  Qed.

  Lemma concat_snoc : forall (a : list (list byte)) p, concat (a ++ [p]) = concat a ++ p.
  Proof. intros. rewrite concat_app. cbn [concat]. rewrite app_nil_r. reflexivity. Qed.

  (* one write_all call of write_frame, in both models *)
  Lemma piece : forall k p, serr k = false -> nonempty p = true ->
    write_all p (mt_sink (emb k)) = (mt_res (emb (swrite k p)), mt_sink (emb (swrite k p))).
  Proof.
    intros k p Hs Hp. destruct p as [|b p]; [discriminate|].
    unfold emb_sink at 1. rewrite Hs. cbn [mt_sink]. unfold MtWriter.sink_write. rewrite Hs.
    unfold script_from. destruct fa as [j|].
    - destruct (j <? calls k) eqn:Ej.
      + apply Nat.ltb_lt in Ej. destruct (Nat.eqb_spec j (calls k)) as [Eq|Eq]; [lia|].
        rewrite accept_empty. unfold emb_sink. cbn [serr acc calls mt_res mt_sink].
        unfold script_from. destruct (Nat.ltb_spec j (S (calls k))); [|lia]. rewrite concat_snoc. reflexivity.
      + apply Nat.ltb_ge in Ej. destruct (Nat.eqb_spec j (calls k)) as [Eq|Eq].
        * subst j. rewrite Nat.sub_diag. cbn [repeat app]. rewrite reject_fail.
          unfold emb_sink. cbn [serr acc calls mt_res mt_sink]. reflexivity.
        * assert (Ed : j - calls k = S (j - S (calls k))) by lia. rewrite Ed. cbn [repeat app].
          rewrite accept_full. unfold emb_sink. cbn [serr acc calls mt_res mt_sink].
          unfold script_from. destruct (Nat.ltb_spec j (S (calls k))); [lia|]. rewrite concat_snoc. reflexivity.
    - rewrite accept_empty. unfold emb_sink. cbn [serr acc calls mt_res mt_sink].
      unfold script_from. rewrite concat_snoc. reflexivity.
  Qed.

  Lemma erred_fold : forall (ps : list (list byte)) (k : MtWriter.sink (list byte)), serr k = true -> fold_left swrite ps k = k.
  Proof.
    induction ps as [|p ps IH]; intros k Hk; [reflexivity|]. cbn [fold_left].
    assert (E : swrite k p = k) by (unfold MtWriter.sink_write; rewrite Hk; reflexivity).
    rewrite E. apply IH. exact Hk.
  Qed.

  Lemma calls_run : forall ps k, serr k = false -> Forall (fun p => nonempty p = true) ps ->
    run_calls (map CWrite ps) (mt_sink (emb k))
    = (mt_res (emb (fold_left swrite ps k)), mt_sink (emb (fold_left swrite ps k))).
  Proof.
    induction ps as [|p ps IH]; intros k Hs Hf.
    - cbn [map run_calls fold_left]. rewrite res_emb, Hs. reflexivity.
    - inversion Hf as [|? ? Hp Hps]; subst. cbn [map run_calls run_call fold_left].
      rewrite (piece k p Hs Hp). rewrite res_emb. destruct (serr (swrite k p)) eqn:E1.
      + rewrite (erred_fold ps _ E1). rewrite res_emb, E1. reflexivity.
      + apply IH; assumption.
  Qed.

  Lemma pieces_nonempty : forall f, Forall (fun p => nonempty p = true) (pieces f).
  Proof. intros f. unfold pieces. apply Forall_forall. intros p Hp. apply filter_In in Hp. apply Hp. Qed.

  (* write_frame of one block, in both models *)
  Lemma frame_sim : forall k f, mtc_step (emb k) f = emb (write_frame fa k (pieces f)).
  Proof.
    intros k f. unfold mtc_step. rewrite stopped_emb. unfold write_frame.
    destruct (serr k) eqn:Hs.
    - rewrite (erred_fold _ _ Hs). reflexivity.
    - unfold emit_frame. rewrite run_calls_filter. fold (pieces f).
      rewrite (calls_run (pieces f) k Hs (pieces_nonempty f)). apply eta_mtc.
  Qed.

  (* the EOF marker after the loop *)
  Lemma finish_sim : forall k, mtc_finish (emb k) = emb (finish_sink (list byte) BGZF_EOF fa k).
  Proof.
    intros k. unfold mtc_finish, finish_sink. rewrite stopped_emb. destruct (serr k) eqn:Hs; [reflexivity|].
    rewrite (piece k BGZF_EOF Hs eq_refl). apply eta_mtc.
  Qed.
End EmbProofs.

(* ---- the two pipelines in lock step ---------------------------------------------------------- *)

Lemma map_snd_ix : forall (bs : list blk) s, map snd (combine (seq s (length bs)) bs) = bs.
Proof.
  induction bs as [|b bs IH]; intros s; [reflexivity|]. cbn [length seq combine map snd]. rewrite IH. reflexivity.
Qed.

Lemma map_fst_ix : forall (bs : list blk) s, map fst (combine (seq s (length bs)) bs) = seq s (length bs).
Proof.
  induction bs as [|b bs IH]; intros s; [reflexivity|]. cbn [length seq combine map fst]. rewrite IH. reflexivity.
Qed.

Lemma ix_frames : forall (fr : blk -> list byte) bs pre,
  Forall (fun x => nth (fst x) (map fr (pre ++ bs)) [] = fr (snd x))
         (combine (seq (length pre) (length bs)) bs).
Proof.
  intros fr. induction bs as [|b bs IH]; intros pre; [constructor|].
  cbn [length seq combine]. constructor.
  - cbn [fst snd]. rewrite map_app, app_nth2; rewrite map_length; [|lia]. rewrite Nat.sub_diag. reflexivity.
  - specialize (IH (pre ++ [b])). rewrite <- app_assoc in IH. cbn [app] in IH.
    rewrite app_length in IH. cbn [length] in IH. rewrite Nat.add_1_r in IH. exact IH.
Qed.

Section LockStep.
  Variable e : errk.
  Hypothesis He : N.eqb e e_interrupted = false.
  Variable fr : blk -> list byte.          (* the frame the compressor produces for a block *)
  Variable fa : option nat.
  Variable P : nat.

  Definition ix_step (bs : list blk) : Sched.st (nat * blk) (MtWriter.sink (list byte)) -> act -> _ :=
    Sched.step (fun x : nat * blk => pieces (fr (snd x))) (fun _ => false)
               (write_frame fa) serr (w_can_submit P) P.

  Definition ix_run (bs : list blk) (sched : list act) :=
    fold_left (ix_step bs) sched (Sched.init sink0 (ix_items bs)).

  (* THEOREM: under EVERY schedule, C03's writer pipeline and C14's are images of one and the same
     pipeline state: same channel, same tickets, same pool, and the writer thread's sink / result
     correspond through the embedding *)
  Theorem writer_models_lockstep : forall maxbuf (ops : list op) (mops : list mop) (sched : list act),
    mt_nblocks maxbuf mops = length (stage ops) ->
    w_run (list byte) (fun b => pieces (fr b)) fa P ops sched
      = map_st snd (fun k => k) (ix_run (stage ops) sched) /\
    mt_state P maxbuf (map fr (stage ops)) mops sched (mkSink [] (script_from e fa 0) 0)
      = map_st fst (emb_sink e fa) (ix_run (stage ops) sched).
  Proof.
    intros maxbuf ops mops sched Hn. set (bs := stage ops) in *.
    assert (HQ : sQ (nat * blk) (MtWriter.sink (list byte))
                    (fun x => nth (fst x) (map fr bs) [] = fr (snd x)) (Sched.init sink0 (ix_items bs))).
    { unfold sQ, Sched.init. cbn [todo chan hold]. split; [|split; [constructor|exact I]].
      exact (ix_frames fr bs []). }
    split.
    - unfold w_run, Sched.run, ix_run, ix_step.
      rewrite <- (mapq_fold _ _ _ _ _ _ snd (fun k => k) (fun x : nat * blk => pieces (fr (snd x)))
                    (fun b => pieces (fr b)) (fun _ => false) w_ready (write_frame fa) (write_frame fa)
                    serr serr (w_can_submit P) P (fun _ => True));
        [|intros x; reflexivity|intros c x _; reflexivity|intros c; reflexivity|].
      + f_equal. unfold map_st, Sched.init, ix_items. cbn [todo next chan hold pending running done Sched.cons cs map option_map].
        rewrite map_snd_ix. reflexivity.
      + unfold sQ, Sched.init. cbn [todo chan hold]. split; [|split; [constructor|exact I]].
        apply Forall_forall. intros x _. exact I.
    - unfold mt_state, mt_step, ix_run, ix_step.
      rewrite <- (mapq_fold _ _ _ _ _ _ fst (emb_sink e fa) (fun x : nat * blk => pieces (fr (snd x)))
                    (frame_at (map fr bs)) (fun _ => false) mt_ready (write_frame fa) mtc_step
                    serr mtc_stopped (w_can_submit P) P
                    (fun x => nth (fst x) (map fr bs) [] = fr (snd x)));
        [|intros x; reflexivity| |intros c; apply stopped_emb|exact HQ].
      + f_equal. unfold mt_init, map_st, Sched.init, ix_items. rewrite Hn.
        cbn [todo next chan hold pending running done Sched.cons cs map option_map].
        rewrite map_fst_ix. reflexivity.
      + intros c x Hx. unfold frame_at. rewrite Hx. apply (frame_sim e He fa).
  Qed.

  (* COROLLARY: what finish() (or the call that notices the dead writer thread) returns, and the
     sink, are the same in both models under the same schedule *)
  Corollary writer_models_same_result : forall maxbuf ops mops sched,
    mt_nblocks maxbuf mops = length (stage ops) ->
    let k := mt_writer (list byte) (fun b => pieces (fr b)) BGZF_EOF fa P ops sched in
    mt_result (mt_state P maxbuf (map fr (stage ops)) mops sched (mkSink [] (script_from e fa 0) 0))
    = (mt_res (emb_sink e fa k), mt_sink (emb_sink e fa k)).
  Proof.
    intros maxbuf ops mops sched Hn. cbn zeta.
    destruct (writer_models_lockstep maxbuf ops mops sched Hn) as [E1 E2].
    unfold mt_result, mt_writer. rewrite E1, E2.
    assert (Ec : forall s : Sched.st (nat * blk) (MtWriter.sink (list byte)),
               cs (map_st fst (emb_sink e fa) s) = emb_sink e fa (cs (map_st snd (fun k => k) s)))
      by (intros [td n ch hd p r d co c]; reflexivity).
    rewrite Ec. rewrite (finish_sim e He fa). reflexivity.
  Qed.

  (* and the two notions of "final" (finish can return) coincide *)
  Corollary writer_models_same_final : forall maxbuf ops mops sched,
    mt_nblocks maxbuf mops = length (stage ops) ->
    mt_final (mt_state P maxbuf (map fr (stage ops)) mops sched (mkSink [] (script_from e fa 0) 0))
    = w_final (list byte) (w_run (list byte) (fun b => pieces (fr b)) fa P ops sched).
  Proof.
    intros maxbuf ops mops sched Hn.
    destruct (writer_models_lockstep maxbuf ops mops sched Hn) as [E1 E2].
    unfold mt_final, w_final. rewrite E1, E2.
    rewrite (map_final _ _ _ _ fst (emb_sink e fa) serr mtc_stopped (fun c => stopped_emb e fa c)).
    rewrite (map_final _ _ _ _ snd (fun k : MtWriter.sink (list byte) => k) serr serr (fun c => eq_refl)).
    reflexivity.
  Qed.
End LockStep.
