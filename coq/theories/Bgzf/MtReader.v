(* Model of noodles-bgzf MultithreadedReader (src/io/multithreaded_reader.rs) for one run segment
   (from resume() to the end of the file, the application reading sequentially to the end), as an
   instance of the ticket pipeline NV.Io.Sched, next to the single-threaded bgzf::io::Reader.

   Producer  = spawn_reader: takes a recycled buffer, read_frame_into, spawns the inflate task,
               sends the ticket.  A frame-level error (short frame, BSIZE < 25) is sent as an
               already answered ticket (buffer, Err) -- no pool task -- and ends the thread
               (behaviour after the repair of `mtr-frame-error-discarded-by-pause`).
   Pool task = parse_block: header check, inflate, CRC check -> Ok(block) | Err.
   Consumer  = the application thread in read_block(): takes tickets in order; an Err ticket is
               returned from read after its buffer has been recycled (the caller stops); Ok: block.position := position,
               position += block.size, the block becomes current; empty blocks are skipped.
   Buffers   = worker_count + 2 recycled buffers bound the number of outstanding tickets.

   A frame is described by (index, frame size, ISIZE, status). *)
From Coq Require Import List Arith Lia Bool NArith.
From NV Require Import Io.Sched.
Import ListNotations.

Inductive fstatus := Good | BadBlock (* parse_block fails *) | BadFrame (* read_frame_into fails *).
Record frame := mk_frame { fidx : N; fsize : N; flen : N; fstat : fstatus }.

(* application state while reading to the end *)
Record app := mk_app {
  apos : N;                 (* MultithreadedReader::position / Reader::position *)
  bpos : N; bsize : N;      (* current block: position and size *)
  got : list (N * N);       (* (index, length) of the non-empty blocks delivered, in order *)
  rerr : bool               (* a read call returned Err *)
}.
Definition app0 : app := mk_app 0 0 0 [] false.

Definition is_bad (s : fstatus) : bool := match s with Good => false | _ => true end.

(* what the consumer does with one ticket result *)
Definition app_step (a : app) (fr : frame) : app :=
  if is_bad (fstat fr) then mk_app (apos a) (bpos a) (bsize a) (got a) true
  else mk_app (apos a + fsize fr)%N (apos a) (fsize fr)
              (if (flen fr =? 0)%N then got a else got a ++ [(fidx fr, flen fr)]) false.

(* the tickets the reader thread sends: one per frame up to and including the first frame-level
   error, whose ticket carries the error *)
Fixpoint submitted (frames : list frame) : list frame :=
  match frames with
  | [] => []
  | fr :: rest => match fstat fr with BadFrame => [fr] | _ => fr :: submitted rest end
  end.
(* a frame-level error ticket is answered by the reader thread itself *)
Definition r_ready (fr : frame) : bool := match fstat fr with BadFrame => true | _ => false end.
Definition frame_error (frames : list frame) : bool :=
  existsb (fun fr => match fstat fr with BadFrame => true | _ => false end) frames.

(* single-threaded Reader reading to the end: read_nonempty_block_with, frame after frame;
   it returns the first error (of either kind) from read *)
Fixpoint st_reader (a : app) (frames : list frame) : app :=
  match frames with
  | [] => a
  | fr :: rest =>
    if rerr a then a else
    match fstat fr with
    | BadFrame => mk_app (apos a) (bpos a) (bsize a) (got a) true
    | _ => st_reader (app_step a fr) rest
    end
  end.

Section Reader.
  Variable P : nat.    (* rayon::current_num_threads() at resume() *)
  (* a ticket needs a buffer: worker_count + 2 buffers circulate besides the application's own *)
  Definition r_can_submit (n : nat) (h : bool) : bool := n + (if h then 1 else 0) <? P + 2.

  Definition r_run (frames : list frame) (sched : list act) : st frame app :=
    run (fun fr => fr) r_ready app_step rerr r_can_submit P app0 (submitted frames) sched.
  Definition r_final (s : st frame app) : bool := final rerr s.
End Reader.

(* observation: delivered blocks, virtual position at the end (coffset, uoffset = 0 because the
   current block is exhausted), read error?, finish() error? (never: the reader thread's result
   carries no error any more) *)
Definition robs (frames : list frame) (a : app) : list (N * N) * N * bool * bool :=
  (got a, (bpos a + bsize a)%N, rerr a, false).

Definition c03_reader_model (P : nat) (frames : list frame) (rel : list nat)
  : option (list (N * N) * N * bool * bool) :=
  let xs := submitted frames in
  let '(s, _) := drive (fun fr => fr) r_ready app_step rerr (r_can_submit P) P
                       (5 * length xs + 1) (init app0 xs) rel in
  if final rerr s then Some (robs frames (cs s)) else None.
