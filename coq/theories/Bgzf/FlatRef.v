(* The flat-array reference model for C02.  The stream is D = concat chunks; the reference
   state is an offset into D and a window (how many bytes of the current chunk are still
   buffered ahead).  It knows nothing about compressed offsets, frame sizes, virtual positions
   or block buffers: chunks only determine how much a single read / fill_buf call hands out.

   [denote] maps a virtual position to the flat offset it names, using the frame table. *)
From Coq Require Import List NArith Bool.
From NV Require Import Bgzf.Vpos Bgzf.Gzi Bgzf.ReaderOps.
Import ListNotations.
Open Scope N_scope.

Record fstate := mkF { off : N; win : N }.

(* distance from flat offset i to the end of the chunk containing byte i (0 at end of data);
   at a chunk boundary this is the length of the next non-empty chunk *)
Fixpoint win_at (cs : list (list N)) (i : N) : N :=
  match cs with
  | [] => 0
  | c :: r => if i <? len c then len c - i else win_at r (i - len c)
  end.

Definition slice (D : list N) (from n : N) : list N :=
  firstn (N.to_nat n) (skipn (N.to_nat from) D).

Section Flat.
  Variable cs : list (list N).
  Let D := concat cs.

  Definition refill (s : fstate) : fstate :=
    if 0 <? win s then s else mkF (off s) (win_at cs (off s)).

  Definition f_fill (s : fstate) : fstate * res (list N) :=
    let s1 := refill s in (s1, Ok (slice D (off s1) (win s1))).

  Definition f_advance (s : fstate) (k : N) : fstate := mkF (off s + k) (win s - k).

  Definition f_consume (s : fstate) (n : N) : fstate := f_advance s (N.min n (win s)).

  Definition f_read (s : fstate) (n : N) : fstate * res (list N) :=
    let s1 := refill s in
    let k := N.min n (win s1) in
    (f_advance s1 k, Ok (slice D (off s1) k)).

  Fixpoint f_read_loop (fuel : nat) (s : fstate) (remaining : N) (acc : list N)
    : fstate * res (list N) :=
    match fuel with
    | O => (s, OutOfFuel)
    | S k =>
        if remaining =? 0 then (s, Ok acc)
        else match f_read s remaining with
             | (s', Ok bs) =>
                 if len bs =? 0 then (s', Err UnexpectedEof)
                 else f_read_loop k s' (remaining - len bs) (acc ++ bs)
             | (s', e) => (s', e)
             end
    end.

  Definition f_read_exact_std (s : fstate) (n : N) : fstate * res (list N) :=
    f_read_loop (S (N.to_nat n)) s n [].

  Definition f_read_exact (s : fstate) (n : N) : fstate * res (list N) :=
    if n <=? win s then (f_advance s n, Ok (slice D (off s) n))
    else f_read_exact_std s n.

  (* read to the end with an n-byte buffer, as a closed form: everything from the current offset
     on, leaving the offset at the end of the data (a 0-byte buffer reads nothing) *)
  Definition f_read_all (s : fstate) (n : N) : fstate * res (list N) :=
    if n =? 0 then (fst (f_read s 0), Ok [])
    else (mkF (N.max (off s) (len D)) 0, Ok (skipn (N.to_nat (off s)) D)).

  (* seek to in-frame offset u of the frame whose data starts at flat offset s0 *)
  Definition f_seek (s0 u : N) : fstate := mkF (s0 + u) (win_at cs s0 - u).

  (* seek to flat offset p (through an index) *)
  Definition f_seek_flat (p : N) : fstate := mkF p (win_at cs p).
End Flat.

(* ---- naming of bytes by virtual positions --------------------------------------------- *)

(* flat start offset of the frame at compressed offset c, with that frame's data length;
   (total data length, 0) for c = end of file *)
Fixpoint frame_start (fs : list frame) (cacc dacc c : N) : option (N * N) :=
  match fs with
  | [] => if c =? cacc then Some (dacc, 0) else None
  | b :: r =>
      if c =? cacc then Some (dacc, flen b)
      else frame_start r (cacc + csize b) (dacc + flen b) c
  end.

(* the flat offset named by virtual position v: (coff of a frame, u <= its data length) or
   (end of file, 0) *)
Definition denote (f : file) (v : N) : option N :=
  match frame_start f 0 0 (vcomp v) with
  | Some (s0, l) => if vuncomp v <=? l then Some (s0 + vuncomp v) else None
  | None => None
  end.

Definition chunks (f : file) : list (list N) := map fdata f.
Definition total_csize (f : file) : N := fold_right (fun b a => csize b + a) 0 f.
Definition total_dlen (f : file) : N := fold_right (fun b a => flen b + a) 0 f.

(* reader ops translated to the flat reference (None: the op is not a valid one) *)
Inductive fout := FBytes (r : res (list N)) | FUnit | FPos (r : res N).

Definition fstep (f : file) (s : fstate) (o : op) : option (fstate * fout) :=
  let cs := chunks f in
  match o with
  | Read n => let '(s', r) := f_read cs s n in Some (s', FBytes r)
  | ReadExact n => let '(s', r) := f_read_exact cs s n in Some (s', FBytes r)
  | ReadExactStd n => let '(s', r) := f_read_exact_std cs s n in Some (s', FBytes r)
  | FillBuf => let '(s', r) := f_fill cs s in Some (s', FBytes r)
  | Consume n => Some (f_consume s n, FUnit)
  | Seek v =>
      match frame_start f 0 0 (vcomp v) with
      | Some (s0, l) =>
          if vuncomp v <=? l then Some (f_seek cs s0 (vuncomp v), FPos (Ok v)) else None
      | None => None
      end
  | SeekU p =>
      if p <=? total_dlen f then Some (f_seek_flat cs p, FPos (Ok p)) else None
  | ReadAll n => let '(s', r) := f_read_all cs s n in Some (s', FBytes r)
  end.

Definition out_eq (x : out) (y : fout) : Prop :=
  match x, y with
  | OBytes a, FBytes b => a = b
  | OUnit, FUnit => True
  | OPos a, FPos b => a = b
  | _, _ => False
  end.
