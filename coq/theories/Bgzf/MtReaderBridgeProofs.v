(* Proofs about NV.Bgzf.MtReaderBridge.

   PART A  the generic ticket pipeline NV.Io.Sched commutes with a map of its items and of its
           consumer state (enabledness, every step, the canonical strategy, any schedule).
   PART C  OutOfFuel is unreachable in the error model NV.Bgzf.MtReaderErr: for every pool >= 1,
           every schedule, EVERY file (no well-formedness needed), every history (get_mut and
           finish included) no observation of the MultithreadedReader model is OutOfFuel; the fuel
           of the read-to-end loop and of default_read_exact is never exhausted, and more fuel
           changes nothing.
   PART B  the embedding of NV.Bgzf.MtReaderOps into NV.Bgzf.MtReaderErr commutes with every
           operation: on an all-good file the error model IS the older model, state by state,
           under every schedule -- so there is one reader model and MtReaderOps' theorems are
           corollaries of MtReaderErr's. *)
From Coq Require Import List NArith PeanoNat Lia Bool ZifyBool ZifyNat ZifyN.
From NV Require Import Bgzf.Vpos Bgzf.Gzi Bgzf.ReaderOps.
From NV Require Import Io.Sched Io.SchedProofs Bgzf.MtReaderOps Bgzf.MtReaderOpsProofs Bgzf.MtReaderErr
  Bgzf.MtReaderErrProofs Bgzf.MtReaderBridge.
Import ListNotations.
Open Scope N_scope.
Arguments N.add : simpl never.
Arguments N.sub : simpl never.
Arguments N.mul : simpl never.
Arguments N.min : simpl never.
Arguments N.ltb : simpl never.
Arguments N.leb : simpl never.
Arguments N.eqb : simpl never.
Arguments N.to_nat : simpl never.
Arguments N.of_nat : simpl never.
Arguments firstn : simpl never.
Arguments skipn : simpl never.
Arguments pack : simpl never.

(* ============================ PART A: the pipeline under a map ============================ *)

Section SchedMap.
  Variables (A B C D : Type) (g : A -> B) (h : C -> D).
  Variables (readyA : A -> bool) (readyB : B -> bool).
  Variables (stepA : C -> A -> C) (stepB : D -> B -> D).
  Variables (stopA : C -> bool) (stopB : D -> bool).
  Variables (can : nat -> bool -> bool) (pool : nat).
  Hypothesis Hready : forall x, readyB (g x) = readyA x.
  Hypothesis Hstep : forall c x, stepB (h c) (g x) = h (stepA c x).
  Hypothesis Hstop : forall c, stopB (h c) = stopA c.

  Notation ms := (map_st g h).

  Lemma map_enabled : forall s a, Sched.enabled stopB can pool (ms s) a = Sched.enabled stopA can pool s a.
  Proof.
    intros [td n ch hd p r d co c] a. unfold map_st. destruct a as [| |t| |];
      cbn [Sched.enabled todo chan hold pending running done cs].
    - destruct td as [|x xs]; cbn [map]; [reflexivity|]. rewrite map_length, Hstop.
      destruct hd; reflexivity.
    - reflexivity.
    - reflexivity.
    - destruct hd as [q|]; cbn [option_map]; [reflexivity|].
      destruct ch as [|q ch]; cbn [map]; [reflexivity|]. rewrite Hstop. reflexivity.
    - destruct hd as [[t x]|]; cbn [option_map map_tk fst snd]; [|reflexivity]. rewrite Hstop. reflexivity.
  Qed.

  Lemma map_step : forall s a,
    Sched.step (fun x : B => x) readyB stepB stopB can pool (ms s) a
    = ms (Sched.step (fun x : A => x) readyA stepA stopA can pool s a).
  Proof.
    intros s a. unfold Sched.step. rewrite map_enabled.
    destruct (Sched.enabled stopA can pool s a); [|reflexivity].
    destruct s as [td n ch hd p r d co c]. unfold map_st.
    destruct a as [| |t| |]; cbn [todo next chan hold pending running done Sched.cons cs].
    - destruct td as [|x xs]; cbn [map]; [reflexivity|]. rewrite Hready.
      destruct (readyA x); cbn [todo next chan hold pending running done Sched.cons cs];
        rewrite map_app; reflexivity.
    - destruct p; reflexivity.
    - reflexivity.
    - destruct ch as [|q ch]; reflexivity.
    - destruct hd as [[t x]|]; cbn [option_map map_tk fst snd]; [|reflexivity].
      cbn [todo next chan hold pending running done Sched.cons cs].
      rewrite map_app, Hstep. reflexivity.
  Qed.

  Lemma map_final : forall s, Sched.final stopB (ms s) = Sched.final stopA s.
  Proof.
    intros [td n ch hd p r d co c]. unfold Sched.final, Sched.drained, map_st.
    cbn [todo chan hold cs]. rewrite Hstop. destruct td, ch, hd; reflexivity.
  Qed.

  Lemma map_measure : forall s, Sched.measure (ms s) = Sched.measure s.
  Proof.
    intros [td n ch hd p r d co c]. unfold Sched.measure, map_st. cbn [todo chan hold pending running].
    rewrite !map_length. destruct hd; reflexivity.
  Qed.

  Lemma map_default_pick : forall s,
    Sched.default_pick stopB can pool (ms s) = Sched.default_pick stopA can pool s.
  Proof.
    intros s. unfold Sched.default_pick, Sched.auto_act. rewrite !map_enabled.
    destruct s as [td n ch hd p r d co c]; reflexivity.
  Qed.

  Lemma map_iter : forall n s,
    Sched.iter (fun x : B => x) readyB stepB stopB can pool (Sched.default_pick stopB can pool) n (ms s)
    = ms (Sched.iter (fun x : A => x) readyA stepA stopA can pool (Sched.default_pick stopA can pool) n s).
  Proof.
    induction n as [|n IH]; intros s; cbn [Sched.iter]; [reflexivity|].
    rewrite map_final. destruct (Sched.final stopA s); [reflexivity|].
    rewrite map_default_pick, map_step. apply IH.
  Qed.

  Lemma map_fold : forall seg s,
    fold_left (Sched.step (fun x : B => x) readyB stepB stopB can pool) seg (ms s)
    = ms (fold_left (Sched.step (fun x : A => x) readyA stepA stopA can pool) seg s).
  Proof.
    induction seg as [|a seg IH]; intros s; cbn [fold_left]; [reflexivity|]. rewrite map_step. apply IH.
  Qed.
End SchedMap.

(* ============================ PART C: OutOfFuel is unreachable ============================ *)

(* unread bytes of the current block; data bytes of the frames ahead (all of them, whatever their
   status: an over-estimate of what can still be delivered) *)
Definition ublk (b : blk) : nat := (length (k_data b) - N.to_nat (k_cur b))%nat.
Definition ahead (fs : list eframe) : nat := fold_right (fun x a => (length (fdata (eb x)) + a)%nat) O fs.
Definition emu (m : emstate) : nat := (ublk (er_blk (em_rd m)) + ahead (em_ahead m))%nat.

Definition em_ok (m : emstate) : Prop :=
  match m with ERunning s => SchedProofs.wf eframe erdr s | _ => True end.

Lemma em_ok_with : forall m c, em_ok m -> em_ok (em_with_rdr m c).
Proof.
  intros [fs c0|s|c0] c H; cbn [em_with_rdr em_ok] in *; [exact I| |exact I].
  intros t Ht. apply (H t). exact Ht.
Qed.

Lemma seq_mu : forall fs c c' rm, seq_run erd_step erd_stopped c fs = (c', rm) ->
  (ublk (er_blk c') + ahead rm <= ublk (er_blk c) + ahead fs)%nat.
Proof.
  induction fs as [|x fs IH]; intros c c' rm H; cbn [seq_run] in H.
  - inversion H; subst. lia.
  - assert (H1 : (ublk (er_blk (erd_step c x)) + ahead fs <= ublk (er_blk c) + ahead (x :: fs))%nat).
    { cbn [ahead fold_right]. fold (ahead fs). unfold erd_step.
      destruct (es x); cbn [er_blk]; unfold ublk; cbn [k_data k_cur]; lia. }
    destruct (erd_stopped (erd_step c x)).
    + inversion H; subst. exact H1.
    + pose proof (IH _ _ _ H). lia.
Qed.

Lemma ahead_le_bytes : forall fs, (ahead fs <= e_bytes_ahead fs)%nat.
Proof.
  induction fs as [|x fs IH]; cbn [ahead e_bytes_ahead fold_right]; [lia|].
  fold (ahead fs). fold (e_bytes_ahead fs). lia.
Qed.

Lemma eremaining_init : forall c fs, eremaining (Sched.init c fs) = fs.
Proof. intros. reflexivity. Qed.

Definition not_fuel {A : Type} (r : res A) : Prop := r <> OutOfFuel.

Section NoFuel.
  Variables (P : nat) (sch : nat -> list act).
  Hypothesis HP : (0 < P)%nat.

  Lemma read_block_ok : forall m m1 r, em_ok m -> em_read_block P sch m = (m1, r) ->
    em_ok m1 /\ not_fuel r /\ (emu m1 <= emu m)%nat.
  Proof.
    intros m m1 r Hok H. unfold em_read_block in H.
    destruct (eresume m) as [s|] eqn:Er.
    - assert (Hs : SchedProofs.wf eframe erdr s /\ eremaining s = em_ahead m /\ cs s = em_rd m).
      { destruct m as [fs c|s0|c]; cbn [eresume] in Er; inversion Er; subst.
        - split; [apply init_wf|]. split; reflexivity.
        - split; [exact Hok|]. split; reflexivity. }
      destruct Hs as (Hw & Hrem & Hcs).
      pose proof (epull_spec P HP (sch (epulls (cs s))) s Hw) as HS. cbn zeta in HS.
      fold (epull P sch s) in HS. destruct HS as [Hw1 HS].
      inversion H; subst m1 r. clear H. split; [exact Hw1|]. split.
      + unfold not_fuel. destruct (er_err (cs (epull P sch s))); discriminate.
      + symmetry in HS. apply seq_mu in HS. cbn [er_blk] in HS.
        unfold emu. cbn [em_rd em_ahead]. rewrite <- Hrem, <- Hcs. exact HS.
    - inversion H; subst. split; [exact Hok|]. split; [discriminate|]. apply Nat.le_refl.
  Qed.

  Lemma as_ref_length : forall c, length (ea_as_ref c) = ublk (er_blk c).
  Proof. intros c. unfold ea_as_ref, ublk. apply skipn_length. Qed.

  Lemma fill_ok : forall m m1 r, em_ok m -> em_fill_buf P sch m = (m1, r) ->
    em_ok m1 /\ not_fuel r /\ (emu m1 <= emu m)%nat /\
    match r with Ok src => length src = ublk (er_blk (em_rd m1)) | _ => True end.
  Proof.
    intros m m1 r Hok H. unfold em_fill_buf in H.
    destruct (ea_has_remaining (em_rd m)).
    - inversion H; subst. split; [exact Hok|]. split; [discriminate|]. split; [apply Nat.le_refl|].
      apply as_ref_length.
    - destruct (em_read_block P sch m) as [m2 r2] eqn:E.
      destruct (read_block_ok m m2 r2 Hok E) as (K1 & K2 & K3).
      destruct r2 as [u|e| | |]; inversion H; subst; clear H.
      + split; [exact K1|]. split; [discriminate|]. split; [exact K3|]. apply as_ref_length.
      + split; [exact K1|]. split; [discriminate|]. split; [exact K3|exact I].
      + split; [exact K1|]. split; [discriminate|]. split; [exact K3|exact I].
      + exfalso. apply K2. reflexivity.
      + split; [exact K1|]. split; [discriminate|]. split; [exact K3|exact I].
  Qed.

  Lemma emu_consume : forall m n, (N.to_nat n <= ublk (er_blk (em_rd m)))%nat ->
    (emu (em_consume m n) + N.to_nat n = emu m)%nat.
  Proof.
    intros m n H. unfold emu, em_consume. rewrite em_rd_with, em_ahead_with.
    cbn [er_blk]. unfold ublk in *. cbn [k_data k_cur]. unfold len. lia.
  Qed.

  Lemma read_ok : forall m n m1 r, em_ok m -> em_read P sch m n = (m1, r) ->
    em_ok m1 /\ not_fuel r /\
    match r with Ok bs => (emu m1 + length bs <= emu m)%nat | _ => (emu m1 <= emu m)%nat end.
  Proof.
    intros m n m1 r Hok H. unfold em_read in H.
    destruct (em_fill_buf P sch m) as [m2 r2] eqn:E.
    destruct (fill_ok m m2 r2 Hok E) as (K1 & K2 & K3 & K4).
    destruct r2 as [src|e| | |]; inversion H; subst; clear H;
      try (split; [exact K1|]; split; [exact K2|exact K3]).
    split; [apply em_ok_with; exact K1|]. split; [discriminate|].
    assert (Hl : (length (firstn (N.to_nat n) src) <= length src)%nat) by (rewrite firstn_length; lia).
    set (out := firstn (N.to_nat n) src) in *.
    assert (Hn : N.to_nat (len out) = length out) by (unfold len; apply Nnat.Nat2N.id).
    pose proof (emu_consume m2 (len out)) as Hc. rewrite Hn in Hc.
    assert (Hle : (length out <= ublk (er_blk (em_rd m2)))%nat) by (rewrite <- K4; exact Hl).
    specialize (Hc Hle). lia.
  Qed.

  Lemma all_loop_ok : forall fuel m n acc m1 r, em_ok m -> (emu m < fuel)%nat ->
    em_read_all_loop P sch fuel m n acc = (m1, r) -> em_ok m1 /\ not_fuel r.
  Proof.
    induction fuel as [|k IH]; intros m n acc m1 r Hok Hf H; [lia|]. cbn [em_read_all_loop] in H.
    destruct (em_read P sch m n) as [m2 r2] eqn:E.
    destruct (read_ok m n m2 r2 Hok E) as (K1 & K2 & K3).
    destruct r2 as [bs|e| | |]; try (inversion H; subst; split; [exact K1|exact K2]).
    destruct (N.eqb_spec (len bs) 0) as [Hz|Hz].
    - inversion H; subst. split; [exact K1|discriminate].
    - apply (IH m2 n (acc ++ bs) m1 r K1); [|exact H]. unfold len in Hz. lia.
  Qed.

  Lemma exact_loop_ok : forall fuel m rem acc m1 r, em_ok m -> (N.to_nat rem < fuel)%nat ->
    em_read_exact_loop P sch fuel m rem acc = (m1, r) -> em_ok m1 /\ not_fuel r.
  Proof.
    induction fuel as [|k IH]; intros m rem acc m1 r Hok Hf H; [lia|]. cbn [em_read_exact_loop] in H.
    destruct (N.eqb_spec rem 0) as [Hr|Hr]; [inversion H; subst; split; [exact Hok|discriminate]|].
    destruct (em_read P sch m rem) as [m2 r2] eqn:E.
    destruct (read_ok m rem m2 r2 Hok E) as (K1 & K2 & K3).
    destruct r2 as [bs|e| | |]; try (inversion H; subst; split; [exact K1|exact K2]).
    destruct (N.eqb_spec (len bs) 0) as [Hz|Hz].
    - inversion H; subst. split; [exact K1|discriminate].
    - apply (IH m2 (rem - len bs) (acc ++ bs) m1 r K1); [|exact H]. lia.
  Qed.

  Lemma read_all_ok : forall m n m1 r, em_ok m -> em_read_all P sch m n = (m1, r) -> em_ok m1 /\ not_fuel r.
  Proof.
    intros m n m1 r Hok H. unfold em_read_all in H. eapply all_loop_ok; [exact Hok| |exact H].
    unfold emu. pose proof (ahead_le_bytes (em_ahead m)). unfold ublk, len. lia.
  Qed.

  Lemma read_exact_std_ok : forall m n m1 r, em_ok m -> em_read_exact_std P sch m n = (m1, r) ->
    em_ok m1 /\ not_fuel r.
  Proof. intros m n m1 r Hok H. unfold em_read_exact_std in H. eapply exact_loop_ok; [exact Hok| |exact H]. lia. Qed.

  Lemma epause_ok : forall m inner c, epause P m = Some (inner, c) -> c = em_rd m.
  Proof. intros [fs c0|s|c0] inner c H; cbn [epause] in H; inversion H; reflexivity. Qed.

  Lemma seek_ok : forall f m v m1 r, em_ok m -> em_seek P sch f m v = (m1, r) -> em_ok m1 /\ not_fuel r.
  Proof.
    intros f m v m1 r Hok H. unfold em_seek in H.
    destruct (epause P m) as [[inner c0]|]; [|inversion H; subst; split; [exact Hok|discriminate]].
    destruct (e_drop_to f 0 (vcomp v)) as [rr|]; [|inversion H; subst; split; [exact Hok|discriminate]].
    match type of H with context [em_read_block P sch ?m0] =>
      destruct (em_read_block P sch m0) as [m2 r2] eqn:E;
      destruct (read_block_ok m0 m2 r2 I E) as (K1 & K2 & _) end.
    destruct r2 as [u|e| | |]; inversion H; subst; clear H.
    - split; [apply em_ok_with; exact K1|discriminate].
    - split; [exact K1|discriminate].
    - split; [exact K1|discriminate].
    - exfalso. apply K2. reflexivity.
    - split; [exact K1|discriminate].
  Qed.

  Definition out_ok (x : out) : Prop :=
    match x with OBytes OutOfFuel => False | OPos OutOfFuel => False | _ => True end.

  Lemma out_ok_bytes : forall r : res (list N), not_fuel r -> out_ok (OBytes r).
  Proof. intros [a|e| | |] H; try exact I. apply H. reflexivity. Qed.

  Lemma out_ok_pos : forall r : res N, not_fuel r -> out_ok (OPos r).
  Proof. intros [a|e| | |] H; try exact I. apply H. reflexivity. Qed.

  Lemma step_ok : forall f idx m o m1 x, em_ok m -> em_step P sch f idx m o = (m1, x) ->
    em_ok m1 /\ out_ok x.
  Proof.
    intros f idx m o m1 x Hok H. destruct o as [o| |]; [destruct o as [n|n|n| |n|v|p|n]|..]; cbn [em_step] in H.
    - destruct (em_read P sch m n) as [m2 r] eqn:E. inversion H; subst.
      destruct (read_ok m n m1 r Hok E) as (K1 & K2 & _). split; [exact K1|apply out_ok_bytes; exact K2].
    - unfold em_read_exact in H. destruct (n <=? len (ea_as_ref (em_rd m))).
      + inversion H; subst. split; [apply em_ok_with; exact Hok|exact I].
      + destruct (em_read_exact_std P sch m n) as [m2 r] eqn:E. inversion H; subst.
        destruct (read_exact_std_ok m n m1 r Hok E) as (K1 & K2). split; [exact K1|apply out_ok_bytes; exact K2].
    - destruct (em_read_exact_std P sch m n) as [m2 r] eqn:E. inversion H; subst.
      destruct (read_exact_std_ok m n m1 r Hok E) as (K1 & K2). split; [exact K1|apply out_ok_bytes; exact K2].
    - destruct (em_fill_buf P sch m) as [m2 r] eqn:E. inversion H; subst.
      destruct (fill_ok m m1 r Hok E) as (K1 & K2 & _). split; [exact K1|apply out_ok_bytes; exact K2].
    - inversion H; subst. split; [apply em_ok_with; exact Hok|exact I].
    - destruct (em_seek P sch f m v) as [m2 r] eqn:E. inversion H; subst.
      destruct (seek_ok f m v m1 r Hok E) as (K1 & K2). split; [exact K1|apply out_ok_pos; exact K2].
    - unfold em_seek_with_index in H.
      destruct (gzi_query idx p) as [v|e| | |] eqn:Eq;
        try (inversion H; subst; split; [exact Hok|exact I]).
      + destruct (em_seek P sch f m v) as [m2 r] eqn:E.
        destruct (seek_ok f m v m2 r Hok E) as (K1 & K2).
        destruct r; inversion H; subst; split; try exact K1; try exact I. apply K2. reflexivity.
      + unfold gzi_query in Eq. destruct (gzi_entry idx p) as [c u].
        destruct (65536 <=? p - u); [discriminate|]. destruct (vpos_try_from c (p - u)); discriminate.
    - destruct (em_read_all P sch m n) as [m2 r] eqn:E. inversion H; subst.
      destruct (read_all_ok m n m1 r Hok E) as (K1 & K2). split; [exact K1|apply out_ok_bytes; exact K2].
    - unfold em_get_mut in H. destruct (epause P m) as [[inner c]|]; inversion H; subst; split; try exact I. exact Hok.
    - unfold em_finish in H. destruct (epause P m) as [[inner c]|]; inversion H; subst; split; try exact I. exact Hok.
  Qed.

  Lemma vpos_not_fuel : forall c, em_virtual_position c <> OutOfFuel.
  Proof.
    intros c. unfold em_virtual_position. destruct (ea_has_remaining c).
    - destruct ((k_pos (er_blk c) <=? MAX_COMPRESSED_POSITION) && (k_cur (er_blk c) <=? MAX_UNCOMPRESSED_POSITION)); discriminate.
    - destruct (k_pos (er_blk c) + k_size (er_blk c) <=? MAX_COMPRESSED_POSITION); discriminate.
  Qed.

  Lemma run_ok : forall f idx ops m, em_ok m -> Forall fuel_free (em_run P sch f idx m ops).
  Proof.
    intros f idx. induction ops as [|o ops IH]; intros m Hok; cbn [em_run]; [constructor|].
    destruct (em_step P sch f idx m o) as [m1 x] eqn:E.
    destruct (step_ok f idx m o m1 x Hok E) as (K1 & K2).
    constructor; [|apply IH; exact K1].
    unfold fuel_free. cbn [fst snd]. split; [|apply vpos_not_fuel].
    destruct x as [[a|e| | |]| |[a|e| | |]]; try exact I; exact K2.
  Qed.

  (* THEOREM (target 3): OutOfFuel is never observed, whatever the file, the index, the history *)
  Theorem em_run_fuel_free : forall (f : efile) idx ops, Forall fuel_free (em_run P sch f idx (em_init f) ops).
  Proof. intros f idx ops. apply run_ok. exact I. Qed.
End NoFuel.

(* more fuel changes nothing once the loop has ended without exhausting it *)
Lemma all_loop_S : forall P sch k m n acc,
  em_read_all_loop P sch (S k) m n acc
  = match em_read P sch m n with
    | (m', Ok bs) => if len bs =? 0 then (m', Ok acc) else em_read_all_loop P sch k m' n (acc ++ bs)
    | (m', r) => (m', r)
    end.
Proof. reflexivity. Qed.

Lemma all_loop_mono : forall P sch k m n acc,
  snd (em_read_all_loop P sch k m n acc) <> OutOfFuel ->
  em_read_all_loop P sch (S k) m n acc = em_read_all_loop P sch k m n acc.
Proof.
  intros P sch. induction k as [|k IH]; intros m n acc H.
  - cbn [em_read_all_loop snd] in H. contradiction H. reflexivity.
  - rewrite (all_loop_S P sch (S k)). rewrite (all_loop_S P sch k) in H |- *.
    destruct (em_read P sch m n) as [m' [bs|e| | |]]; try reflexivity.
    destruct (len bs =? 0); [reflexivity|]. apply IH. exact H.
Qed.

Lemma exact_loop_S : forall P sch k m rem acc,
  em_read_exact_loop P sch (S k) m rem acc
  = if rem =? 0 then (m, Ok acc)
    else match em_read P sch m rem with
         | (m', Ok bs) => if len bs =? 0 then (m', Err UnexpectedEof)
                          else em_read_exact_loop P sch k m' (rem - len bs) (acc ++ bs)
         | (m', r) => (m', r)
         end.
Proof. reflexivity. Qed.

Lemma exact_loop_mono : forall P sch k m rem acc,
  snd (em_read_exact_loop P sch k m rem acc) <> OutOfFuel ->
  em_read_exact_loop P sch (S k) m rem acc = em_read_exact_loop P sch k m rem acc.
Proof.
  intros P sch. induction k as [|k IH]; intros m rem acc H.
  - cbn [em_read_exact_loop snd] in H. contradiction H. reflexivity.
  - rewrite (exact_loop_S P sch (S k)). rewrite (exact_loop_S P sch k) in H |- *.
    destruct (rem =? 0); [reflexivity|].
    destruct (em_read P sch m rem) as [m' [bs|e| | |]]; try reflexivity.
    destruct (len bs =? 0); [reflexivity|]. apply IH. exact H.
Qed.

(* ============================ PART B: MtReaderOps inside MtReaderErr ====================== *)

Definition lift {X : Type} (p : mstate * X) : emstate * X := (emb (fst p), snd p).

Lemma em_rd_emb : forall m, em_rd (emb m) = emb_rdr (m_rd m).
Proof. intros [fs c|[td n ch hd p r d co c]|c]; reflexivity. Qed.

Lemma emb_with : forall m c, em_with_rdr (emb m) (emb_rdr c) = emb (m_with_rdr m c).
Proof. intros [fs c0|[td n ch hd p r d co c0]|c0] c; reflexivity. Qed.

Lemma goods_app : forall a b, goods (a ++ b) = goods a ++ goods b.
Proof. intros. unfold goods. apply map_app. Qed.

Lemma eremaining_emb : forall s, eremaining (emb_pst s) = goods (remaining s).
Proof.
  intros [td n ch hd p r d co c]. unfold eremaining, remaining, emb_pst, map_st.
  cbn [hold chan todo]. rewrite !goods_app. f_equal; [|f_equal].
  - destruct hd as [[t x]|]; reflexivity.
  - unfold goods. rewrite !map_map. reflexivity.
Qed.

Lemma em_ahead_emb : forall m, em_ahead (emb m) = goods (m_ahead m).
Proof. intros [fs c|s|c]; cbn [emb em_ahead m_ahead]; [reflexivity|apply eremaining_emb|reflexivity]. Qed.

Lemma bytes_ahead_goods : forall fs, e_bytes_ahead (goods fs) = length (concat (map fdata fs)).
Proof.
  induction fs as [|b fs IH]; [reflexivity|].
  cbn [goods map concat e_bytes_ahead fold_right good eb es]. rewrite app_length.
  unfold goods, e_bytes_ahead in IH. rewrite IH. lia.
Qed.

Lemma ahead_goods : forall fs, ahead (goods fs) = length (concat (map fdata fs)).
Proof.
  induction fs as [|b fs IH]; [reflexivity|].
  cbn [goods map concat ahead fold_right good eb]. rewrite app_length.
  unfold goods, ahead in IH. rewrite IH. reflexivity.
Qed.

Lemma ecsum_goods : forall fs, ecsum (goods fs) = csum fs.
Proof.
  induction fs as [|b fs IH]; [reflexivity|].
  cbn [goods map ecsum csum fold_right good eb]. unfold goods, ecsum, csum in IH. rewrite IH. reflexivity.
Qed.

Lemma drop_to_goods : forall fs a c, e_drop_to (goods fs) a c = option_map goods (drop_to fs a c).
Proof.
  induction fs as [|b fs IH]; intros a c; [reflexivity|].
  cbn [goods map e_drop_to drop_to good eb]. destruct (c =? a); [reflexivity|].
  destruct (c <? a + csize b); [reflexivity|]. apply IH.
Qed.

Section Bridge.
  Variables (P : nat) (sch : nat -> list act).
  Hypothesis HP : (0 < P)%nat.

  Lemma emb_pstep : forall s a, epstep P (emb_pst s) a = emb_pst (pstep P s a).
  Proof.
    intros s a. unfold epstep, pstep, emb_pst.
    apply map_step; [intros x; reflexivity|intros c x; reflexivity|intros c; reflexivity].
  Qed.

  Lemma emb_penabled : forall s a, epenabled P (emb_pst s) a = penabled P s a.
  Proof. intros s a. unfold epenabled, penabled, emb_pst. apply map_enabled. intros c; reflexivity. Qed.

  Lemma emb_pcomplete : forall s, epcomplete P (emb_pst s) = emb_pst (pcomplete P s).
  Proof.
    intros s. unfold epcomplete, pcomplete, emb_pst. rewrite map_measure.
    apply map_iter; [intros x; reflexivity|intros c x; reflexivity|intros c; reflexivity].
  Qed.

  Lemma emb_start_pull : forall s, estart_pull (emb_pst s) = emb_pst (start_pull s).
  Proof. intros [td n ch hd p r d co c]. reflexivity. Qed.

  Lemma emb_pull : forall s, epull P sch (emb_pst s) = emb_pst (pull P sch s).
  Proof.
    intros s. unfold epull, pull, epull_with, pull_with.
    assert (E : epulls (cs (emb_pst s)) = pulls (cs s)) by (destruct s; reflexivity).
    rewrite E, emb_start_pull. unfold epstep, pstep, emb_pst.
    rewrite (map_fold _ _ _ _ good emb_rdr (fun _ => false) e_ready rd_step erd_step rd_stopped erd_stopped);
      [|intros x; reflexivity|intros c x; reflexivity|intros c; reflexivity].
    apply emb_pcomplete.
  Qed.

  Lemma emb_read_block : forall m, em_read_block P sch (emb m) = lift (m_read_block P sch m).
  Proof.
    intros m. unfold em_read_block, m_read_block, lift.
    destruct m as [fs c|s|c]; cbn [emb eresume resume fst snd].
    - change (Sched.init (emb_rdr c) (goods fs)) with (emb_pst (Sched.init c fs)).
      rewrite emb_pull. destruct (pull P sch (Sched.init c fs)); reflexivity.
    - rewrite emb_pull. destruct (pull P sch s); reflexivity.
    - reflexivity.
  Qed.

  Lemma emb_fill : forall m, em_fill_buf P sch (emb m) = lift (m_fill_buf P sch m).
  Proof.
    intros m. unfold em_fill_buf, m_fill_buf, lift. rewrite em_rd_emb.
    change (ea_has_remaining (emb_rdr (m_rd m))) with (a_has_remaining (m_rd m)).
    destruct (a_has_remaining (m_rd m)); [reflexivity|].
    rewrite emb_read_block. unfold lift.
    destruct (m_read_block P sch m) as [m1 [u|e| | |]]; cbn [fst snd]; try reflexivity.
    rewrite em_rd_emb. reflexivity.
  Qed.

  Lemma emb_consume : forall m n, em_consume (emb m) n = emb (m_consume m n).
  Proof.
    intros m n. unfold em_consume, m_consume. rewrite em_rd_emb. rewrite <- emb_with. reflexivity.
  Qed.

  Lemma emb_read : forall m n, em_read P sch (emb m) n = lift (m_read P sch m n).
  Proof.
    intros m n. unfold em_read, m_read, lift. rewrite emb_fill. unfold lift.
    destruct (m_fill_buf P sch m) as [m1 [src|e| | |]]; cbn [fst snd]; try reflexivity.
    rewrite emb_consume. reflexivity.
  Qed.

  Lemma emb_exact_loop : forall fuel m rem acc,
    em_read_exact_loop P sch fuel (emb m) rem acc = lift (m_read_exact_loop P sch fuel m rem acc).
  Proof.
    induction fuel as [|k IH]; intros m rem acc; cbn [em_read_exact_loop m_read_exact_loop]; [reflexivity|].
    destruct (rem =? 0); [reflexivity|]. rewrite emb_read. unfold lift at 1.
    destruct (m_read P sch m rem) as [m1 [bs|e| | |]]; cbn [fst snd]; try reflexivity.
    destruct (len bs =? 0); [reflexivity|]. apply IH.
  Qed.

  Lemma emb_all_loop : forall fuel m n acc,
    em_read_all_loop P sch fuel (emb m) n acc = lift (m_read_all_loop P sch fuel m n acc).
  Proof.
    induction fuel as [|k IH]; intros m n acc; cbn [em_read_all_loop m_read_all_loop]; [reflexivity|].
    rewrite emb_read. unfold lift at 1.
    destruct (m_read P sch m n) as [m1 [bs|e| | |]]; cbn [fst snd]; try reflexivity.
    destruct (len bs =? 0); [reflexivity|]. apply IH.
  Qed.

  Lemma emb_read_exact : forall m n, em_read_exact P sch (emb m) n = lift (m_read_exact P sch m n).
  Proof.
    intros m n. unfold em_read_exact, m_read_exact. rewrite em_rd_emb.
    change (ea_as_ref (emb_rdr (m_rd m))) with (a_as_ref (m_rd m)).
    destruct (n <=? len (a_as_ref (m_rd m))).
    - unfold lift. cbn [fst snd]. rewrite emb_consume. reflexivity.
    - apply emb_exact_loop.
  Qed.

  (* the read-to-end loop: the error model gives itself one unit of fuel more (a late-failing block
     can leave bytes behind); neither model ever uses its last unit *)
  Lemma emb_read_all : forall m n, em_ok (emb m) ->
    em_read_all P sch (emb m) n = lift (m_read_all P sch m n).
  Proof.
    intros m n Hok. unfold em_read_all, m_read_all, m_data_ahead.
    rewrite em_rd_emb, em_ahead_emb, bytes_ahead_goods.
    change (k_data (er_blk (emb_rdr (m_rd m)))) with (k_data (r_blk (m_rd m))).
    set (K := S (N.to_nat (len (k_data (r_blk (m_rd m)))) + length (concat (map fdata (m_ahead m))))).
    rewrite all_loop_mono; [apply emb_all_loop|].
    destruct (em_read_all_loop P sch K (emb m) n []) as [m1 r] eqn:E. cbn [snd].
    refine (proj2 (all_loop_ok P sch HP K (emb m) n [] m1 r Hok _ E)).
    unfold emu. rewrite em_rd_emb, em_ahead_emb, ahead_goods. unfold ublk, K, len.
    change (k_data (er_blk (emb_rdr (m_rd m)))) with (k_data (r_blk (m_rd m))). lia.
  Qed.

  Lemma emb_drain : forall k s, edrain P k (emb_pst s) = emb_pst (drain P k s).
  Proof.
    induction k as [|k IH]; intros s; cbn [edrain drain]; [reflexivity|].
    rewrite emb_penabled. destruct (penabled P s Submit); [|reflexivity].
    rewrite emb_pstep. apply IH.
  Qed.

  Lemma emb_pause : forall m,
    epause P (emb m) = option_map (fun p => (goods (fst p), emb_rdr (snd p))) (pause P m).
  Proof.
    intros [fs c|s|c]; cbn [emb epause pause option_map fst snd]; try reflexivity.
    assert (E : ewith_rdr (emb_pst s) (mkER true (er_position (cs (emb_pst s))) (er_blk (cs (emb_pst s)))
                                           (epulls (cs (emb_pst s))) None)
                = emb_pst (with_rdr s (mkRdr true (r_position (cs s)) (r_blk (cs s)) (pulls (cs s)))))
      by (destruct s; reflexivity).
    rewrite E.
    assert (El : length (todo (emb_pst s)) = length (todo s)) by (destruct s; apply map_length).
    rewrite El, emb_drain.
    generalize (drain P (length (todo s)) (with_rdr s (mkRdr true (r_position (cs s)) (r_blk (cs s)) (pulls (cs s))))).
    intros X. destruct X, s; reflexivity.
  Qed.

  Lemma emb_seek : forall f m v, em_seek P sch (goods f) (emb m) v = lift (m_seek P sch f m v).
  Proof.
    intros f m v. unfold em_seek, m_seek. rewrite emb_pause.
    destruct (pause P m) as [[inner c0]|]; cbn [option_map fst snd]; [|reflexivity].
    rewrite drop_to_goods. destruct (drop_to f 0 (vcomp v)) as [r|]; cbn [option_map]; [|reflexivity].
    change (EPaused (goods r) (mkER false (vcomp v) (er_blk (emb_rdr c0)) (epulls (emb_rdr c0)) None))
      with (emb (MPaused r (mkRdr false (vcomp v) (r_blk c0) (pulls c0)))).
    rewrite emb_read_block. unfold lift at 1.
    destruct (m_read_block P sch (MPaused r (mkRdr false (vcomp v) (r_blk c0) (pulls c0)))) as [m2 [u|e| | |]];
      cbn [fst snd]; try reflexivity.
    rewrite em_rd_emb. unfold lift. cbn [fst snd]. f_equal.
    rewrite <- emb_with. reflexivity.
  Qed.

  Lemma emb_seek_u : forall f idx m p,
    em_seek_with_index P sch (goods f) idx (emb m) p = lift (m_seek_with_index P sch f idx m p).
  Proof.
    intros f idx m p. unfold em_seek_with_index, m_seek_with_index.
    destruct (gzi_query idx p) as [v|e| | |]; try reflexivity.
    rewrite emb_seek. unfold lift at 1.
    destruct (m_seek P sch f m v) as [m1 [x|e| | |]]; reflexivity.
  Qed.

  Lemma emb_step : forall f idx m o, em_ok (emb m) ->
    em_step P sch (goods f) idx (emb m) o = lift (m_step P sch f idx m o).
  Proof.
    intros f idx m o Hok. destruct o as [o| |]; [destruct o as [n|n|n| |n|v|p|n]|..]; cbn [em_step m_step].
    - rewrite emb_read. unfold lift. destruct (m_read P sch m n). reflexivity.
    - rewrite emb_read_exact. unfold lift. destruct (m_read_exact P sch m n). reflexivity.
    - unfold em_read_exact_std, m_read_exact_std. rewrite emb_exact_loop. unfold lift.
      destruct (m_read_exact_loop P sch (S (N.to_nat n)) m n []). reflexivity.
    - rewrite emb_fill. unfold lift. destruct (m_fill_buf P sch m). reflexivity.
    - rewrite emb_consume. reflexivity.
    - rewrite emb_seek. unfold lift. destruct (m_seek P sch f m v). reflexivity.
    - rewrite emb_seek_u. unfold lift. destruct (m_seek_with_index P sch f idx m p). reflexivity.
    - rewrite (emb_read_all m n Hok). unfold lift. destruct (m_read_all P sch m n). reflexivity.
    - unfold em_get_mut, m_get_mut. rewrite emb_pause.
      destruct (pause P m) as [[inner c]|]; cbn [option_map fst snd]; [|reflexivity].
      rewrite !ecsum_goods. reflexivity.
    - unfold em_finish, m_finish. rewrite emb_pause.
      destruct (pause P m) as [[inner c]|]; cbn [option_map fst snd]; [|reflexivity].
      rewrite !ecsum_goods. reflexivity.
  Qed.

  Lemma emb_run : forall f idx ops m, em_ok (emb m) ->
    em_run P sch (goods f) idx (emb m) ops = m_run P sch f idx m ops.
  Proof.
    intros f idx. induction ops as [|o ops IH]; intros m Hok; cbn [em_run m_run]; [reflexivity|].
    pose proof (emb_step f idx m o Hok) as E.
    destruct (em_step P sch (goods f) idx (emb m) o) as [m1 x] eqn:E1.
    destruct (step_ok P sch HP (goods f) idx (emb m) o m1 x Hok E1) as [Hok1 _].
    destruct (m_step P sch f idx m o) as [m2 y]. unfold lift in E. cbn [fst snd] in E.
    inversion E; subst. rewrite em_rd_emb.
    change (em_virtual_position (emb_rdr (m_rd m2))) with (m_virtual_position (m_rd m2)).
    f_equal. apply IH. exact Hok1.
  Qed.

  (* THEOREM (target 1): on a well-formed file (all frames good) the error model and the
     op-level model produce the same history -- every op incl. get_mut / finish, every schedule;
     no hypothesis on the file at all *)
  Theorem err_model_restricts_to_ops_model : forall (f : file) idx (ops : list mop),
    em_run P sch (goods f) idx (em_init (goods f)) ops = m_run P sch f idx (m_init f) ops.
  Proof. intros f idx ops. apply (emb_run f idx ops (m_init f)). exact I. Qed.
End Bridge.

(* ---- the older model's main theorem as a corollary of the error model's --------------------- *)

Lemma ewf_goods : forall f, Forall (fun b => 0 < csize b /\ flen b <= 65536) f -> ewf (goods f).
Proof.
  intros f H. unfold ewf, goods. apply Forall_map. eapply Forall_impl; [|exact H].
  intros b Hb. exact Hb.
Qed.

Lemma no_late_goods : forall f, no_late (goods f).
Proof. intros f. unfold no_late, goods. apply Forall_map. apply Forall_forall. intros b _. exact I. Qed.

(* MT (older model) = ST error-path reader of the tree as it is ([fxe] = false as well as true),
   obtained THROUGH the error model *)
Corollary ops_model_equals_err_st : forall P sch (f : file) idx (ops : list op) fxe,
  (0 < P)%nat -> Forall (fun b => 0 < csize b /\ flen b <= 65536) f ->
  m_run P sch f idx (m_init f) (map MOp ops) = e_run fxe (goods f) idx (e_init (goods f)) ops.
Proof.
  intros P sch f idx ops fxe HP Hf.
  rewrite <- (err_model_restricts_to_ops_model P sch HP).
  rewrite (mt_err_equals_st_pinned P sch (goods f) idx ops HP (ewf_goods f Hf) (no_late_goods f)).
  destruct fxe; [|reflexivity].
  apply st_pinned_is_repaired; apply no_late_goods.
Qed.

(* the two single-threaded models agree on well-formed files (C02's ReaderOps.run, fx = true, and
   the error-path reader), for every history: both equal the multithreaded model *)
Corollary st_models_agree : forall (f : file) idx (ops : list op) fxe,
  Forall (fun b => 0 < csize b /\ flen b <= 65536) f ->
  e_run fxe (goods f) idx (e_init (goods f)) ops = ReaderOps.run true f idx (ReaderOps.init f) ops.
Proof.
  intros f idx ops fxe Hf.
  rewrite <- (ops_model_equals_err_st 1%nat (fun _ => []) f idx ops fxe (Nat.lt_0_1) Hf).
  apply (mt_reader_equals_st 1%nat (fun _ => []) Nat.lt_0_1 f idx ops Hf).
Qed.

(* no observation of the older model is OutOfFuel either *)
Corollary ops_model_fuel_free : forall P sch (f : file) idx (ops : list mop), (0 < P)%nat ->
  Forall fuel_free (m_run P sch f idx (m_init f) ops).
Proof.
  intros P sch f idx ops HP. rewrite <- (err_model_restricts_to_ops_model P sch HP).
  apply em_run_fuel_free. exact HP.
Qed.

(* ============================ PART D: position over a failing frame ======================= *)
(* Neither reader advances its `position` over a frame that fails to be read, parsed or inflated
   (`?` leaves read_nonempty_block_with before `self.position += size`; read_block returns the Err
   ticket before `self.position += size`): after the call, position = position before + the sizes
   of the GOOD frames taken -- in both readers, so the virtual positions of all later blocks lag
   by the size of the failed frames in both, equally. *)

Lemma gsum_app : forall a b, gsum (a ++ b) = gsum a + gsum b.
Proof.
  induction a as [|x a IH]; intros b; [reflexivity|]. cbn [app gsum fold_right].
  fold (gsum (a ++ b)). fold (gsum a). rewrite IH. destruct (es x); lia.
Qed.

Lemma mt_position_good_only : forall fs c c' rm, seq_run erd_step erd_stopped c fs = (c', rm) ->
  exists pre, fs = pre ++ rm /\ er_position c' = er_position c + gsum pre.
Proof.
  induction fs as [|x fs IH]; intros c c' rm H; cbn [seq_run] in H.
  - inversion H; subst. exists []. split; [reflexivity|]. cbn [gsum fold_right]. lia.
  - assert (Hp : er_position (erd_step c x) = er_position c + gsum [x]).
    { unfold erd_step. cbn [gsum fold_right]. destruct (es x); cbn [er_position]; lia. }
    destruct (erd_stopped (erd_step c x)).
    + inversion H; subst. exists [x]. split; [reflexivity|exact Hp].
    + destruct (IH _ _ _ H) as (pre & E1 & E2). exists (x :: pre). split; [rewrite E1; reflexivity|].
      rewrite E2, Hp. change (x :: pre) with ([x] ++ pre). rewrite gsum_app. lia.
Qed.

Lemma st_position_good_only : forall fxe m fs st st' r, e_loop fxe m fs st = (st', r) ->
  exists pre, fs = pre ++ e_rest st' /\ e_position st' = e_position st + gsum pre.
Proof.
  intros fxe m. induction fs as [|x fs IH]; intros st st' r H; cbn [e_loop] in H.
  - inversion H; subst. exists []. split; [reflexivity|]. cbn [e_position gsum fold_right]. lia.
  - destruct (es x) as [| |isz g|e] eqn:Es.
    + destruct (0 <? flen (eb x)).
      * inversion H; subst. exists [x]. split; [reflexivity|].
        cbn [e_position gsum fold_right]. rewrite Es. lia.
      * destruct (IH _ _ _ H) as (pre & E1 & E2). exists (x :: pre). split; [rewrite E1; reflexivity|].
        rewrite E2. cbn [e_position]. change (x :: pre) with ([x] ++ pre). rewrite gsum_app.
        cbn [gsum fold_right]. rewrite Es. lia.
    + inversion H; subst. exists [x]. split; [reflexivity|]. cbn [e_position gsum fold_right]. rewrite Es. lia.
    + destruct fxe; inversion H; subst; exists [x]; (split; [reflexivity|]);
        cbn [e_position gsum fold_right]; rewrite Es; lia.
    + inversion H; subst. exists [x]. split; [reflexivity|]. cbn [e_position gsum fold_right]. rewrite Es. lia.
Qed.

(* one wait of the multithreaded reader, under every schedule *)
Theorem mt_pull_position_good_only : forall P, (0 < P)%nat -> forall seg (s : epst),
  SchedProofs.wf eframe erdr s ->
  exists pre, eremaining s = pre ++ eremaining (epull_with P seg s) /\
    er_position (cs (epull_with P seg s)) = er_position (cs s) + gsum pre.
Proof.
  intros P HP seg s Hw. destruct (epull_spec P HP seg s Hw) as [_ HS]. symmetry in HS.
  destruct (mt_position_good_only _ _ _ _ HS) as (pre & E1 & E2). exists pre. split; [exact E1|exact E2].
Qed.
