(* C03 -- op histories of noodles-bgzf MultithreadedReader (src/io/multithreaded_reader.rs):
   read, read_exact, fill_buf/consume, read to the end, seek_to_virtual_position, seek_with_index
   (gzi), virtual_position, get_mut, finish -- with the reader thread / inflate pool / ticket
   channel as an instance of the generic ticket pipeline NV.Io.Sched, next to the single-threaded
   reader model NV.Bgzf.ReaderOps of property C02 (the reader after its repair).

   Like ReaderOps the model works on an ALREADY PARSED well-formed file: a list of frames, each
   with its compressed size and inflated data (framing, inflate and CRC are C01's business; error
   blocks are covered at block granularity by NV.Bgzf.MtReader).  What is mirrored:

     State::{Paused(inner), Running{..}, Done}
                             [MPaused fs c]: the inner reader is with the caller, [fs] = the
                             frames ahead of its cursor; [MRunning s]: it is with the reader
                             thread, [s] = the pipeline; [MDone c]: after finish()
     resume()                Paused -> Running: worker_count + 2 buffers, a fresh ticket channel
                             and a fresh reader thread over the inner reader (= Sched.init);
                             Running -> unchanged; Done -> panic!("invalid state")
     spawn_reader            takes a recycled buffer, read_frame_into, rayon::spawn(parse_block),
                             read_tx.send(ticket)                               = Submit
                             (window: a ticket needs one of the worker_count + 2 buffers, which
                             come back when the application has taken the block)
     rayon pool              tasks start FIFO on at most P threads               = Start
                             and finish in ANY order                             = Complete t
     read_block()            resume(); then `while let Some(..) = recv_buffer(read_rx)`:
                             read_rx.recv() = Take, buffered_rx.recv() = Emit;
                             block.set_position(position); position += block.size(); the buffer
                             becomes current, the previous one is recycled; stop at the first
                             block with data (empty blocks are skipped) or when the channel is
                             closed and empty (end of the file)                  = consumer [rd_step]
     BufRead::fill_buf / consume, Read::read (always through fill_buf: there is no direct path),
     Read::read_exact (copy from the block when it holds enough, else reader::default_read_exact
     = read until the buffer is full, 0 bytes -> UnexpectedEof), Block::virtual_position
     pause()                 drops recycle_tx and joins the reader thread: the thread keeps
                             reading one more frame for every buffer still in the recycle channel
                             and returns the inner reader when that channel is empty (or the file
                             ends) = [drain]; the tickets and inflate tasks in flight are dropped
                             with the channels (their results are never looked at)
     get_mut()               pause(), &mut inner          (observed: the inner stream position)
     finish()                Paused -> inner; Running -> drop recycle_tx, join = [drain]; -> Done
     seek_to_virtual_position   get_mut().seek(Start(cpos)); position = cpos; read_block(); when
                             position is still cpos (no frame at all was read) an empty block is
                             left at cpos; Data::set_position clamps to the data length
     seek_with_index         gzi query + seek_to_virtual_position

   SCHEDULES (as in NV.Async.Reader).  Every time the application needs a block ("pull") the
   scheduler plays an arbitrary list of pipeline actions [sch k] (k = number of the pull; disabled
   actions are no-ops) and then the canonical strategy Sched.default_pick until the pull is over.
   Any complete schedule is of this form with an empty canonical part
   (MtReaderOpsProofs.pull_complete_schedule), so quantifying over [sch] quantifies over all
   completion orders and interleavings.  The application thread observes the pipeline only during
   a pull, so a Submit/Start/Complete that happens while it is computing is the same step played
   at the beginning of the next pull's segment; the read-ahead that is observable without a pull
   (the inner stream position after get_mut / finish) is produced by [drain]. *)
From Coq Require Import List NArith Bool Arith.
From NV Require Import Bgzf.Vpos Bgzf.Gzi Bgzf.ReaderOps Io.Sched.
Import ListNotations.
Open Scope N_scope.

(* Buffer.block: Block { pos, size, data: Data { buf[..len], pos } }.  Only buf[..len] is kept:
   Data::as_ref is &buf[pos..len] and pos <= len always (consume and set_position clamp), so the
   bytes of an older block beyond len in a recycled buffer are never exposed. *)
Record blk := mkBlk { k_pos : N; k_size : N; k_data : list N; k_cur : N }.

(* the application side: MultithreadedReader { position, buffer }, whether it is currently inside
   read_block's loop, and a ghost counter of the pulls made so far (selects the schedule segment) *)
Record rdr := mkRdr { want : bool; r_position : N; r_blk : blk; pulls : nat }.

Definition blk0 : blk := mkBlk 0 0 [] 0.

(* read_block's loop body for one received (buffer, Ok) *)
Definition rd_step (c : rdr) (b : frame) : rdr :=
  mkRdr (flen b =? 0) (r_position c + csize b)
        (mkBlk (r_position c) (csize b) (fdata b) 0) (pulls c).

Definition rd_stopped (c : rdr) : bool := negb (want c).

Definition pst := Sched.st frame rdr.

Inductive mstate :=
| MPaused (inner : list frame) (c : rdr)
| MRunning (s : pst)
| MDone (c : rdr).

Definition act_of_nat (n : nat) : act :=
  match n with
  | O => Submit | 1%nat => Start | 2%nat => Take | 3%nat => Emit
  | S (S (S (S t))) => Complete t
  end.

(* frames not yet delivered to the application: in flight, then not yet read by the thread *)
Definition remaining (s : pst) : list frame :=
  map snd (olist (hold s)) ++ map snd (chan s) ++ todo s.

Definition csum (fs : list frame) : N := fold_right (fun b a => csize b + a) 0 fs.

(* the ops of ReaderOps plus the two calls that hand the inner reader out *)
Inductive mop := MOp (o : op) | GetMut | Finish.

Definition m_rd (m : mstate) : rdr :=
  match m with MPaused _ c => c | MRunning s => cs s | MDone c => c end.

Section MtReader.
  Variable P : nat.                    (* rayon::current_num_threads() *)
  Variable sch : nat -> list act.      (* scheduler: the actions played during pull number k *)

  (* NON_WORKER_COUNT = 2 *)
  Definition can_sub (n : nat) (h : bool) : bool := (n + (if h then 1 else 0) <? P + 2)%nat.

  Definition pstep : pst -> act -> pst :=
    Sched.step (fun b : frame => b) (fun _ => false) rd_step rd_stopped can_sub P.
  Definition penabled : pst -> act -> bool := Sched.enabled rd_stopped can_sub P.
  Definition pfinal : pst -> bool := Sched.final rd_stopped.
  Definition pcomplete (s : pst) : pst :=
    Sched.iter (fun b : frame => b) (fun _ => false) rd_step rd_stopped can_sub P
               (Sched.default_pick rd_stopped can_sub P) (Sched.measure s) s.

  Definition with_rdr (s : pst) (c : rdr) : pst :=
    Sched.mk (todo s) (next s) (chan s) (hold s) (pending s) (running s) (done s) (Sched.cons s) c.

  Definition m_with_rdr (m : mstate) (c : rdr) : mstate :=
    match m with
    | MPaused fs _ => MPaused fs c
    | MRunning s => MRunning (with_rdr s c)
    | MDone _ => MDone c
    end.

  (* the application enters read_block's loop (the ghost list of consumed items restarts) *)
  Definition start_pull (s : pst) : pst :=
    Sched.mk (todo s) (next s) (chan s) (hold s) (pending s) (running s) (done s) []
             (mkRdr true (r_position (cs s)) (r_blk (cs s)) (S (pulls (cs s)))).

  (* one pull under an explicit schedule segment, completed canonically *)
  Definition pull_with (seg : list act) (s : pst) : pst :=
    pcomplete (fold_left pstep seg (start_pull s)).

  Definition pull (s : pst) : pst := pull_with (sch (pulls (cs s))) s.

  (* resume(): None = panic!("invalid state") *)
  Definition resume (m : mstate) : option pst :=
    match m with
    | MPaused inner c => Some (Sched.init c inner)
    | MRunning s => Some s
    | MDone _ => None
    end.

  Definition m_read_block (m : mstate) : mstate * res unit :=
    match resume m with
    | Some s => (MRunning (pull s), Ok tt)
    | None => (m, Panic)
    end.

  (* the reader thread after recycle_tx has been dropped: one more frame per buffer left *)
  Fixpoint drain (fuel : nat) (s : pst) : pst :=
    match fuel with
    | O => s
    | S k => if penabled s Submit then drain k (pstep s Submit) else s
    end.

  (* pause(): None = panic!("invalid state") *)
  Definition pause (m : mstate) : option (list frame * rdr) :=
    match m with
    | MPaused inner c => Some (inner, c)
    | MRunning s =>
        let c := cs s in
        let s1 := drain (length (todo s))
                        (with_rdr s (mkRdr true (r_position c) (r_blk c) (pulls c))) in
        Some (todo s1, c)
    | MDone _ => None
    end.

  Definition a_has_remaining (c : rdr) : bool := k_cur (r_blk c) <? len (k_data (r_blk c)).

  (* Data::as_ref *)
  Definition a_as_ref (c : rdr) : list N := skipn (N.to_nat (k_cur (r_blk c))) (k_data (r_blk c)).

  Definition m_fill_buf (m : mstate) : mstate * res (list N) :=
    if a_has_remaining (m_rd m) then (m, Ok (a_as_ref (m_rd m)))
    else match m_read_block m with
         | (m1, Ok _) => (m1, Ok (a_as_ref (m_rd m1)))
         | (m1, Err e) => (m1, Err e)
         | (m1, Panic) => (m1, Panic)
         | (m1, OutOfFuel) => (m1, OutOfFuel)
         | (m1, Unmodelled) => (m1, Unmodelled)
         end.

  Definition m_consume (m : mstate) (n : N) : mstate :=
    let c := m_rd m in
    let b := r_blk c in
    m_with_rdr m (mkRdr (want c) (r_position c)
                        (mkBlk (k_pos b) (k_size b) (k_data b) (N.min (k_cur b + n) (len (k_data b))))
                        (pulls c)).

  (* Read::read with a buffer of n bytes *)
  Definition m_read (m : mstate) (n : N) : mstate * res (list N) :=
    match m_fill_buf m with
    | (m1, Ok src) => let out := firstn (N.to_nat n) src in (m_consume m1 (len out), Ok out)
    | (m1, r) => (m1, r)
    end.

  (* reader::default_read_exact over Read::read *)
  Fixpoint m_read_exact_loop (fuel : nat) (m : mstate) (rem : N) (acc : list N)
    : mstate * res (list N) :=
    match fuel with
    | O => (m, OutOfFuel)
    | S k =>
        if rem =? 0 then (m, Ok acc)
        else match m_read m rem with
             | (m', Ok bs) =>
                 if len bs =? 0 then (m', Err UnexpectedEof)
                 else m_read_exact_loop k m' (rem - len bs) (acc ++ bs)
             | (m', r) => (m', r)
             end
    end.

  Definition m_read_exact_std (m : mstate) (n : N) : mstate * res (list N) :=
    m_read_exact_loop (S (N.to_nat n)) m n [].

  (* MultithreadedReader's own read_exact: copy from the block when it holds enough *)
  Definition m_read_exact (m : mstate) (n : N) : mstate * res (list N) :=
    let src := a_as_ref (m_rd m) in
    if n <=? len src then (m_consume m n, Ok (firstn (N.to_nat n) src))
    else m_read_exact_std m n.

  (* the caller-side read-to-end loop with an n-byte buffer (cf. ReaderOps.read_all) *)
  Fixpoint m_read_all_loop (fuel : nat) (m : mstate) (n : N) (acc : list N) : mstate * res (list N) :=
    match fuel with
    | O => (m, OutOfFuel)
    | S k =>
        match m_read m n with
        | (m', Ok bs) =>
            if len bs =? 0 then (m', Ok acc) else m_read_all_loop k m' n (acc ++ bs)
        | (m', r) => (m', r)
        end
    end.

  Definition m_ahead (m : mstate) : list frame :=
    match m with MPaused fs _ => fs | MRunning s => remaining s | MDone _ => [] end.

  Definition m_data_ahead (m : mstate) : nat :=
    (N.to_nat (len (k_data (r_blk (m_rd m)))) + length (concat (map fdata (m_ahead m))))%nat.

  Definition m_read_all (m : mstate) (n : N) : mstate * res (list N) :=
    m_read_all_loop (S (m_data_ahead m)) m n [].

  (* A target inside a frame is outside the model (as in ReaderOps.seek): the state is returned
     untouched and the history means nothing from there on. *)
  Definition m_seek (f : file) (m : mstate) (v : N) : mstate * res N :=
    let c := vcomp v in
    let u := vuncomp v in
    match pause m with
    | None => (m, Panic)
    | Some (_, c0) =>
        match drop_to f 0 c with
        | None => (m, Unmodelled)
        | Some r =>
            (* inner.seek(Start(cpos)); self.position = cpos; read_block() *)
            match m_read_block (MPaused r (mkRdr false c (r_blk c0) (pulls c0))) with
            | (m2, Ok _) =>
                let c2 := m_rd m2 in
                (* no block was read at this position: leave an empty block here *)
                let b := if r_position c2 =? c then mkBlk c 0 [] 0 else r_blk c2 in
                let b' := mkBlk (k_pos b) (k_size b) (k_data b) (N.min u (len (k_data b))) in
                (m_with_rdr m2 (mkRdr false (r_position c2) b' (pulls c2)), Ok v)
            | (m2, Err e) => (m2, Err e)
            | (m2, Panic) => (m2, Panic)
            | (m2, OutOfFuel) => (m2, OutOfFuel)
            | (m2, Unmodelled) => (m2, Unmodelled)
            end
        end
    end.

  Definition m_seek_with_index (f : file) (idx : gzi_index) (m : mstate) (pos : N)
    : mstate * res N :=
    match gzi_query idx pos with
    | Ok v => match m_seek f m v with
              | (m', Ok _) => (m', Ok pos)
              | r => r
              end
    | Err e => (m, Err e)
    | Panic => (m, Panic)
    | OutOfFuel => (m, OutOfFuel)
    | Unmodelled => (m, Unmodelled)
    end.

  (* Block::virtual_position with its asserts *)
  Definition m_virtual_position (c : rdr) : res N :=
    let b := r_blk c in
    if a_has_remaining c then
      if (k_pos b <=? MAX_COMPRESSED_POSITION) && (k_cur b <=? MAX_UNCOMPRESSED_POSITION)
      then Ok (pack (k_pos b) (k_cur b)) else Panic
    else
      if k_pos b + k_size b <=? MAX_COMPRESSED_POSITION
      then Ok (pack (k_pos b + k_size b) 0) else Panic.

  (* get_mut(): the observation is inner.stream_position() *)
  Definition m_get_mut (f : file) (m : mstate) : mstate * res N :=
    match pause m with
    | Some (inner, c) => (MPaused inner c, Ok (csum f - csum inner))
    | None => (m, Panic)
    end.

  Definition m_finish (f : file) (m : mstate) : mstate * res N :=
    match pause m with
    | Some (inner, c) => (MDone c, Ok (csum f - csum inner))
    | None => (m, Panic)
    end.

  Definition m_step (f : file) (idx : gzi_index) (m : mstate) (o : mop) : mstate * out :=
    match o with
    | MOp (Read n) => let '(m', r) := m_read m n in (m', OBytes r)
    | MOp (ReadExact n) => let '(m', r) := m_read_exact m n in (m', OBytes r)
    | MOp (ReadExactStd n) => let '(m', r) := m_read_exact_std m n in (m', OBytes r)
    | MOp FillBuf => let '(m', r) := m_fill_buf m in (m', OBytes r)
    | MOp (Consume n) => (m_consume m n, OUnit)
    | MOp (Seek v) => let '(m', r) := m_seek f m v in (m', OPos r)
    | MOp (SeekU p) => let '(m', r) := m_seek_with_index f idx m p in (m', OPos r)
    | MOp (ReadAll n) => let '(m', r) := m_read_all m n in (m', OBytes r)
    | GetMut => let '(m', r) := m_get_mut f m in (m', OPos r)
    | Finish => let '(m', r) := m_finish f m in (m', OPos r)
    end.

  Fixpoint m_run (f : file) (idx : gzi_index) (m : mstate) (ops : list mop) : list (out * res N) :=
    match ops with
    | [] => []
    | o :: r =>
        let '(m', x) := m_step f idx m o in
        (x, m_virtual_position (m_rd m')) :: m_run f idx m' r
    end.

  Definition m_init (f : file) : mstate := MPaused f (mkRdr false 0 blk0 0).
End MtReader.

(* ---- entry point of the correspondence driver ------------------------------------------- *)

Definition sch_of (segs : list (list nat)) : nat -> list act :=
  fun k => map act_of_nat (nth k segs []).

Definition c03_mt_reader_case (P : nat) (segs : list (list nat)) (f : file) (idx : gzi_index)
  (ops : list mop) : list (out * res N) :=
  m_run P (sch_of segs) f idx (m_init f) ops.

(* the single-threaded reference the same histories are compared with (C02's model) *)
Definition c03_st_reader_case (f : file) (idx : gzi_index) (ops : list op) : list (out * res N) :=
  ReaderOps.run true f idx (ReaderOps.init f) ops.
