(* Read::read of bgzf::io::Reader call by call over RAW source bytes (noodles-bgzf/src/io/reader.rs
   Read::read, fill_buf, consume, read_nonempty_block_with, read_block, read_block_into_buf;
   reader/frame.rs read_frame_into, parse_block, parse_block_into_buf, block_initialize,
   block_invalidate; block/data.rs), INCLUDING frames that fail to parse / inflate / verify and
   what the reader state is after such an error.

   The block's data buffer is only ever looked at through Data::as_ref = &buf[pos..len]; the model
   keeps that window ([win]) together with the numbers pos ([cur]) and len ([blen]).

   [read_gen fp]: fp = true is Read::read as written (a buffer of >= 65536 bytes offered when the
   block is exhausted inflates straight into the caller's buffer: parse_block_into_buf);
   fp = false is the same reader without that branch (always fill_buf + copy + consume). *)
From Coq Require Import List Arith NArith Bool Lia.
From NV Require Import Base.LE Bgzf.Crc32 Bgzf.Frame Bgzf.Reader.
Import ListNotations.
Open Scope N_scope.

Record rstate := mkR {
  rsrc : list N;      (* bytes the inner stream has not delivered yet *)
  rposition : N;      (* Reader::position *)
  rbpos : N;          (* Block::pos *)
  rbsize : N;         (* Block::size *)
  rblen : N;          (* Data::len *)
  rcur : N;           (* Data::pos *)
  rwin : list N       (* Data::as_ref() = buf[pos..len] *)
}.

Definition rinit (src : list N) : rstate := mkR src 0 0 0 0 0 [].

Definition r_has_remaining (st : rstate) : bool := rcur st <? rblen st.

Definition set_src (st : rstate) (s : list N) : rstate :=
  mkR s (rposition st) (rbpos st) (rbsize st) (rblen st) (rcur st) (rwin st).

Section Calls.
  Variable inflate : list N -> N -> option (list N).

  (* parse_block (into = false) / parse_block_into_buf (into = true) on one frame: new block
     fields and the inflated bytes.  parse_frame fails before the block is touched; a failing
     inflate / CRC goes through block_invalidate (size and len of the previous block, pos = len). *)
  Definition parse_step (into : bool) (frame : list N) (st : rstate) : rstate * res (list N) :=
    match parse_frame frame with
    | Err e => (st, Err e)
    | Panic => (st, Panic)
    | Ok (bs, cdata, crc, isize) =>
        let ok d := (mkR (rsrc st) (rposition st) (rbpos st) bs isize
                         (if into then isize else 0) (if into then [] else d), Ok d) in
        let bad := (mkR (rsrc st) (rposition st) (rbpos st) (rbsize st) (rblen st) (rblen st) [],
                    Err InvalidData) in
        match inflate cdata isize with
        | None => bad
        | Some d => if crc32 d =? crc then ok d else bad
        end
    end.

  (* read_nonempty_block_with.  What the inner stream (a slice / Cursor) has consumed after an
     error: a failing read_exact leaves it at its end; "invalid frame size" has read 18 bytes. *)
  Fixpoint load (into : bool) (fuel : nat) (st : rstate) : rstate * res (list N) :=
    match fuel with
    | O => (st, Panic)
    | S fuel' =>
        match read_frame (rsrc st) with
        | Ok None => (set_src st [], Ok [])
        | Err InvalidData => (set_src st (skipn 18 (rsrc st)), Err InvalidData)
        | Err e => (set_src st [], Err e)
        | Panic => (st, Panic)
        | Ok (Some (frame, rest)) =>
            match parse_step into frame (set_src st rest) with
            | (st1, Ok d) =>
                let st2 := mkR (rsrc st1) (rposition st1 + rbsize st1) (rposition st1) (rbsize st1)
                               (rblen st1) (rcur st1) (rwin st1) in
                if 0 <? rblen st2 then (st2, Ok d) else load into fuel' st2
            | (st1, r) => (st1, r)
            end
        end
    end.

  Definition r_consume (st : rstate) (amt : N) : rstate :=
    mkR (rsrc st) (rposition st) (rbpos st) (rbsize st) (rblen st)
        (N.min (rcur st + amt) (rblen st)) (skipn (N.to_nat amt) (rwin st)).

  Definition load_fuel (st : rstate) : nat := S (length (rsrc st)).

  (* Read::read with a buffer of n bytes: (state, Ok buf[..amt] | Err kind) *)
  Definition read_gen (fp : bool) (st : rstate) (n : N) : rstate * res (list N) :=
    if fp && negb (r_has_remaining st) && (BGZF_MAX_ISIZE <=? n) then
      load true (load_fuel st) st
    else
      let '(st1, r) := if r_has_remaining st then (st, Ok []) else load false (load_fuel st) st in
      match r with
      | Ok _ => let out := firstn (N.to_nat n) (rwin st1) in (r_consume st1 (lenN out), Ok out)
      | e => (st1, e)
      end.

  Fixpoint run_reads (fp : bool) (st : rstate) (ns : list N) : list (res (list N)) * rstate :=
    match ns with
    | [] => ([], st)
    | n :: ns' =>
        let '(st1, r) := read_gen fp st n in
        let '(rs, st2) := run_reads fp st1 ns' in (r :: rs, st2)
    end.

  (* observers *)
  Definition r_virtual_position (st : rstate) : N * N :=
    if r_has_remaining st then (rbpos st, rcur st) else (rbpos st + rbsize st, 0).
End Calls.
