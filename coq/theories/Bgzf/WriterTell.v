(* C02, writer side: the virtual positions bgzf::io::Writer tells, looked up in the file it
   finally leaves behind.  The writer is C01's model NV.Bgzf.Writer (read-only here); this file
   adds (1) the frame table of the sink ([sink_file]: per frame BSIZE+1 and the next ISIZE bytes of
   the uncompressed stream; framing via C01's read_frame) and (2) the composition the property
   talks about ([wtell_run]): run a script, finish, then for every told position seek a fresh
   reader model (NV.Bgzf.ReaderOps) there and read to the end. *)
From Coq Require Import List NArith Bool.
From NV Require Import Base.LE Bgzf.Vpos Bgzf.Gzi Bgzf.ReaderOps.
From NV Require Bgzf.Frame Bgzf.Writer Bgzf.Reader.
Import ListNotations.
Open Scope N_scope.

Fixpoint sink_file (fuel : nat) (src D : list N) : file :=
  match fuel with
  | O => []
  | S k =>
      match Reader.read_frame src with
      | Frame.Ok (Some (fr, rest)) =>
          let isize := le_dec (skipn (length fr - 4) fr) in
          mkFrame (len fr) (firstn (N.to_nat isize) D)
            :: sink_file k rest (skipn (N.to_nat isize) D)
      | _ => []
      end
  end.

Section WTell.
  Variable deflate : N -> list N -> list N.

  (* how the script ends: finish() (= try_finish: flush + EOF marker) or flush() + into_inner()
     (no marker) *)
  Definition wt_finish (lvl : N) (fin : bool) (st : Writer.wstate) : Writer.wstate :=
    if fin then fst (Writer.try_finish deflate lvl st) else fst (Writer.flush deflate lvl st).

  (* the positions told before the first call and after every call *)
  Definition told (obs : list (Frame.res (option N) * Frame.res N)) : list (Frame.res N) :=
    Writer.virtual_position Writer.w_init :: map snd obs.

  (* per told position: (it, result of seek in the finished file, bytes read to the end with an
     n-byte buffer) *)
  Definition wtell_run (lvl : N) (ops : list Writer.op) (fin : bool) (n : N)
    : list (Frame.res N * res N * res (list N)) :=
    let '(st, obs, _) := Writer.run_ops deflate lvl Writer.w_init ops in
    let stf := wt_finish lvl fin st in
    let D := Writer.accepted ops obs in
    let F := sink_file (S (length (Writer.w_sink stf))) (Writer.w_sink stf) D in
    map (fun t =>
           match t with
           | Frame.Ok v =>
               let '(st1, r) := seek true F (init F) v in (t, r, snd (read_all true st1 n))
           | _ => (t, Unmodelled, Unmodelled)
           end)
        (told obs).
End WTell.
