(* bgzf::io::Writer (with the is_finished flag of fix be585e3) over a sink that accepts every byte: noodles-bgzf/src/io/writer.rs
   (write, flush, flush_block, try_finish, finish, into_inner, Drop, virtual_position) and
   deflate.rs::encode.  DEFLATE is a section variable; CRC-32 is NV.Bgzf.Crc32. *)
From Coq Require Import List Arith NArith Bool.
From NV Require Import Base.LE Bgzf.Crc32 Bgzf.Frame.
Import ListNotations.
Open Scope N_scope.

Definition MAX_BUF_SIZE : N := 65495.            (* 65536 - 18 - 8 - 15 *)
Definition MAX_COMPRESSED_SIZE : N := 65510.     (* MAX_BUF_SIZE + COMPRESSION_LEVEL_0_OVERHEAD *)
Definition MAX_COMPRESSED_POSITION : N := 281474976710655. (* 2^48 - 1 *)

Record wstate := mk_wstate {
  w_pos : N;                 (* position *)
  w_staging : list N;        (* staging_buf *)
  w_sink : list N;           (* everything the inner writer has received *)
  w_inner : bool;            (* inner.is_some() *)
  w_finished : bool          (* is_finished: the last thing written is the EOF block *)
}.

Definition w_init : wstate := mk_wstate 0 [] [] true false.

Inductive op := OWrite (buf : list N) | OWriteAll (buf : list N) | OFlush | OTryFinish.
Inductive ending := EFinish | ETryFinishInto | EDrop | ETryFinishDrop.

Section Writer.
  (* deflate level data = the raw DEFLATE stream zlib-rs produces at that level *)
  Variable deflate : N -> list N -> list N.

  (* deflate.rs encode: (cdata, crc32 of src) *)
  Definition encode (lvl : N) (src : list N) : res (list N * N) :=
    let c := deflate lvl src in
    if lenN c <=? MAX_COMPRESSED_SIZE then Ok (c, crc32 src)
    else
      let c0 := deflate 0 src in
      if lenN c0 <=? MAX_COMPRESSED_SIZE then Ok (c0, crc32 src)
      else Panic. (* unreachable!() *)

  Definition flush_block (lvl : N) (st : wstate) : wstate * res unit :=
    match encode lvl (w_staging st) with
    | Panic => (st, Panic)
    | Err e => (st, Err e)
    | Ok (cdata, crc) =>
        (* is_finished is cleared before the frame is written: a block after the EOF block
           requires a new EOF block *)
        let '(out, r) := write_frame cdata crc (lenN (w_staging st)) in
        let sink' := w_sink st ++ out in
        match r with
        | Ok block_size => (mk_wstate (w_pos st + block_size) [] sink' (w_inner st) false, Ok tt)
        | Err e => (mk_wstate (w_pos st) (w_staging st) sink' (w_inner st) false, Err e)
        | Panic => (mk_wstate (w_pos st) (w_staging st) sink' (w_inner st) false, Panic)
        end
    end.

  Definition flush (lvl : N) (st : wstate) : wstate * res unit :=
    match w_staging st with
    | [] => (st, Ok tt)
    | _ :: _ => flush_block lvl st
    end.

  (* Write::write: remaining() is a usize subtraction (overflow-checked build: panics if the
     staging buffer were ever longer than MAX_BUF_SIZE) *)
  Definition write (lvl : N) (st : wstate) (buf : list N) : wstate * res N :=
    if MAX_BUF_SIZE <? lenN (w_staging st) then (st, Panic)
    else
      let amt := N.min (MAX_BUF_SIZE - lenN (w_staging st)) (lenN buf) in
      let st1 := mk_wstate (w_pos st) (w_staging st ++ firstn (N.to_nat amt) buf) (w_sink st) (w_inner st) (w_finished st) in
      if lenN (w_staging st1) <? MAX_BUF_SIZE then (st1, Ok amt)
      else
        match flush lvl st1 with
        | (st2, Ok _) => (st2, Ok amt)
        | (st2, Err e) => (st2, Err e)
        | (st2, Panic) => (st2, Panic)
        end.

  (* std::io::Write::write_all *)
  Fixpoint write_all (fuel : nat) (lvl : N) (st : wstate) (buf : list N) : wstate * res unit :=
    match buf with
    | [] => (st, Ok tt)
    | _ :: _ =>
        match fuel with
        | O => (st, Panic) (* out of fuel: excluded by the theorems (fuel = S (length buf)) *)
        | S fuel' =>
            match write lvl st buf with
            | (st1, Ok amt) =>
                if amt =? 0 then (st1, Err WriteZero)
                else write_all fuel' lvl st1 (skipn (N.to_nat amt) buf)
            | (st1, Err e) => (st1, Err e)
            | (st1, Panic) => (st1, Panic)
            end
        end
    end.

  Definition virtual_position (st : wstate) : res N :=
    if w_pos st <=? MAX_COMPRESSED_POSITION
    then Ok (w_pos st * 65536 + lenN (w_staging st) mod 65536)
    else Panic.

  Definition try_finish (lvl : N) (st : wstate) : wstate * res unit :=
    match flush lvl st with
    | (st1, Ok _) =>
        if w_finished st1 then (st1, Ok tt)   (* already finished: no second EOF block *)
        else
          (mk_wstate (w_pos st1 + 28) (w_staging st1) (w_sink st1 ++ eof_block) (w_inner st1) true, Ok tt)
    | other => other
    end.

  Definition take_inner (st : wstate) : wstate :=
    mk_wstate (w_pos st) (w_staging st) (w_sink st) false (w_finished st).

  (* Drop::drop *)
  Definition drop (lvl : N) (st : wstate) : wstate :=
    if w_inner st then fst (try_finish lvl st) else st.

  (* one scripted call: the value returned to the caller (amt for write) and the state *)
  Definition step (lvl : N) (st : wstate) (o : op) : wstate * res (option N) :=
    match o with
    | OWrite buf =>
        match write lvl st buf with
        | (st1, Ok amt) => (st1, Ok (Some amt))
        | (st1, Err e) => (st1, Err e)
        | (st1, Panic) => (st1, Panic)
        end
    | OWriteAll buf =>
        match write_all (S (length buf)) lvl st buf with
        | (st1, Ok _) => (st1, Ok None)
        | (st1, Err e) => (st1, Err e)
        | (st1, Panic) => (st1, Panic)
        end
    | OFlush =>
        match flush lvl st with
        | (st1, Ok _) => (st1, Ok None)
        | (st1, Err e) => (st1, Err e)
        | (st1, Panic) => (st1, Panic)
        end
    | OTryFinish =>
        match try_finish lvl st with
        | (st1, Ok _) => (st1, Ok None)
        | (st1, Err e) => (st1, Err e)
        | (st1, Panic) => (st1, Panic)
        end
    end.

  (* run a script; observations = (result, virtual_position after the call) per op; a panic
     ends the script *)
  Fixpoint run_ops (lvl : N) (st : wstate) (ops : list op)
    : wstate * list (res (option N) * res N) * bool :=
    match ops with
    | [] => (st, [], false)
    | o :: rest =>
        let '(st1, r) := step lvl st o in
        match r with
        | Panic => (st1, [(r, Panic)], true)
        | _ =>
            let '(st2, obs, p) := run_ops lvl st1 rest in
            (st2, (r, virtual_position st1) :: obs, p)
        end
    end.

  (* how the writer is disposed of: (final state, result, position() where observable) *)
  Definition run_ending (lvl : N) (e : ending) (st : wstate) : wstate * res unit * option N :=
    match e with
    | EFinish =>
        match try_finish lvl st with
        | (st1, Ok _) => (take_inner st1, Ok tt, None)
        | (st1, Err er) => (drop lvl st1, Err er, None)   (* `?` returns, self is dropped *)
        | (st1, Panic) => (st1, Panic, None)
        end
    | ETryFinishInto =>
        let '(st1, r) := try_finish lvl st in (take_inner st1, r, Some (w_pos st1))
    | EDrop => (drop lvl st, Ok tt, None)
    | ETryFinishDrop =>
        let '(st1, r) := try_finish lvl st in
        match r with
        | Panic => (st1, r, Some (w_pos st1))
        | _ => (drop lvl st1, r, Some (w_pos st1))
        end
    end.

  Record outcome := mk_outcome {
    o_results : list (res (option N) * res N);
    o_end : res unit;
    o_pos : option N;
    o_sink : list N
  }.

  Definition run_script (lvl : N) (ops : list op) (e : ending) : outcome :=
    let '(st, obs, panicked) := run_ops lvl w_init ops in
    if panicked then mk_outcome obs Panic None (w_sink st)
    else
      let '(st1, r, p) := run_ending lvl e st in
      mk_outcome obs r p (w_sink st1).

  (* the bytes a script's calls accepted, given the per-op results *)
  Definition accepted_of (o : op) (r : res (option N)) : list N :=
    match o, r with
    | OWrite buf, Ok (Some amt) => firstn (N.to_nat amt) buf
    | OWriteAll buf, Ok None => buf
    | _, _ => []
    end.

  Fixpoint accepted (ops : list op) (rs : list (res (option N) * res N)) : list N :=
    match ops, rs with
    | o :: ops', (r, _) :: rs' => accepted_of o r ++ accepted ops' rs'
    | _, _ => []
    end.
End Writer.
