(* The staging arithmetic of the two writer models agrees: C03's [stage] (N, offsets, fuel
   n / MAX_BUF + 3) submits exactly as many blocks as C14's [mt_nblocks] (nat, fuel n + 1). *)
From Coq Require Import List NArith ZArith Arith Bool Lia ZifyBool ZifyNat ZifyN.
From NV Require Import Io.Sched Bgzf.MtWriter Sinks.Sink Sinks.SinkProofs Sinks.LayerProofs Sinks.BgzfProofs
  Sinks.Mt Sinks.MtProofs Bgzf.MtWriterBridge.
Import ListNotations.
Close Scope N_scope.
Ltac Zify.zify_post_hook ::= Z.div_mod_to_equations.
Arguments N.to_nat : simpl never.
Arguments N.of_nat : simpl never.
Arguments N.add : simpl never.
Arguments N.sub : simpl never.
Arguments N.min : simpl never.
Arguments N.ltb : simpl never.
Arguments N.eqb : simpl never.
Arguments N.div : simpl never.
Arguments Nat.min : simpl never.
Arguments Nat.ltb : simpl never.
Arguments Nat.sub : simpl never.

Definition M : nat := N.to_nat MAX_BUF.

Lemma M_pos : 0 < M.
Proof. unfold M, MAX_BUF. lia. Qed.

(* ---- C03's write_loop: more fuel changes nothing once buf + n < MAX_BUF * fuel --------------- *)

Lemma wl_S_eq : forall k buf off n,
  write_loop (S k) buf off n
  = if (n =? 0)%N then ((buf, off), []) else
    let amt := N.min (MAX_BUF - buf) n in
    let buf' := (buf + amt)%N in
    if (buf' <? MAX_BUF)%N then write_loop k buf' off (n - amt)
    else let '(s, bs) := write_loop k 0%N (off + buf')%N (n - amt)%N in (s, (off, buf') :: bs).
Proof. reflexivity. Qed.

Lemma wl_zero : forall k buf off, write_loop k buf off 0%N = ((buf, off), []).
Proof. intros [|k] buf off; reflexivity. Qed.

Lemma wl_stable : forall k buf off n, (buf < MAX_BUF)%N -> (buf + n < MAX_BUF * N.of_nat k)%N ->
  write_loop (S k) buf off n = write_loop k buf off n.
Proof.
  induction k as [|k IH]; intros buf off n Hb Hn; [lia|].
  rewrite (wl_S_eq (S k)), (wl_S_eq k).
  destruct (N.eqb_spec n 0) as [Hz|Hz]; [reflexivity|]. cbv zeta.
  set (amt := N.min (MAX_BUF - buf) n). destruct (N.ltb_spec (buf + amt) MAX_BUF) as [Hlt|Hge].
  - assert (E : (n - amt = 0)%N) by (unfold amt in *; lia). rewrite E, !wl_zero. reflexivity.
  - rewrite IH; [reflexivity|unfold MAX_BUF; lia|]. unfold amt in *. unfold MAX_BUF in *. lia.
Qed.

Lemma wl_more : forall d k buf off n, (buf < MAX_BUF)%N -> (buf + n < MAX_BUF * N.of_nat k)%N ->
  write_loop (k + d) buf off n = write_loop k buf off n.
Proof.
  induction d as [|d IH]; intros k buf off n Hb Hn; [rewrite Nat.add_0_r; reflexivity|].
  rewrite Nat.add_succ_r. rewrite wl_stable; [apply IH; assumption|exact Hb|]. unfold MAX_BUF in *. lia.
Qed.

(* ---- C14's wa_spec: more fuel changes nothing once n <= fuel ---------------------------------- *)

Section Stage.
  Variable frames : list (list byte).
  Notation wa := (wa_spec M frames).

  Lemma wa_S_eq : forall k m st,
    wa (S k) (S m) st
    = let amt := Nat.min (M - staged st) (S m) in
      let st1 := mkBw (staged st + amt) (nfl st) (alive st) (fin st) in
      if Nat.ltb (staged st1) M then wa k (S m - amt) st1
      else let (o, st3) := wa k (S m - amt) (mkBw 0 (S (nfl st)) (alive st) false) in
           (frame_at frames (nfl st) ++ o, st3).
  Proof. reflexivity. Qed.

  Lemma wa_zero : forall k st, wa k 0 st = ([], st).
  Proof. intros [|k] st; reflexivity. Qed.

  Lemma wa_stable : forall k n st, staged st < M -> n <= k -> wa (S k) n st = wa k n st.
  Proof.
    induction k as [|k IH]; intros n st Hs Hn.
    - assert (n = 0) by lia. subst n. reflexivity.
    - destruct n as [|m]; [reflexivity|]. rewrite (wa_S_eq (S k)), (wa_S_eq k). cbv zeta. cbn [staged].
      set (amt := Nat.min (M - staged st) (S m)).
      assert (Ha : 1 <= amt) by (unfold amt; lia).
      destruct (Nat.ltb_spec (staged st + amt) M) as [Hlt|Hge].
      + apply IH; [cbn [staged]; exact Hlt|lia].
      + rewrite IH; [reflexivity|cbn [staged]; exact M_pos|lia].
  Qed.

  Lemma wa_more : forall d k n st, staged st < M -> n <= k -> wa (k + d) n st = wa k n st.
  Proof.
    induction d as [|d IH]; intros k n st Hs Hn; [rewrite Nat.add_0_r; reflexivity|].
    rewrite Nat.add_succ_r. rewrite wa_stable; [apply IH; assumption|exact Hs|lia].
  Qed.

  (* ---- the two loops in lock step at the same fuel ------------------------------------------ *)
  Lemma loops_lockstep : forall k buf off n st, staged st = N.to_nat buf -> (buf < MAX_BUF)%N ->
    let r := write_loop k buf off n in
    let st' := snd (wa k (N.to_nat n) st) in
    nfl st' = nfl st + length (snd r) /\ staged st' = N.to_nat (fst (fst r)) /\
    (fst (fst r) < MAX_BUF)%N /\ alive st' = alive st.
  Proof.
    induction k as [|k IH]; intros buf off n st Hs Hb; cbv zeta.
    - cbn [write_loop fst snd length]. destruct (N.to_nat n); cbn [wa_spec snd]; repeat split; try lia; assumption.
    - rewrite wl_S_eq. destruct (N.eqb_spec n 0) as [Hz|Hz].
      + subst n. change (N.to_nat 0) with 0. rewrite wa_zero. cbn [fst snd length]. repeat split; try lia; assumption.
      + destruct (N.to_nat n) as [|m] eqn:En; [lia|]. rewrite wa_S_eq. cbv zeta. cbn [staged].
        set (amt := N.min (MAX_BUF - buf) n).
        set (amt' := Nat.min (M - staged st) (S m)).
        assert (Ea : amt' = N.to_nat amt) by (unfold amt, amt', M; lia).
        assert (En' : S m - amt' = N.to_nat (n - amt)) by lia.
        destruct (N.ltb_spec (buf + amt) MAX_BUF) as [Hlt|Hge];
          destruct (Nat.ltb_spec (staged st + amt') M) as [Hlt'|Hge']; try (unfold M in *; lia).
        * rewrite En'.
          apply (IH (buf + amt)%N off (n - amt)%N (mkBw (staged st + amt') (nfl st) (alive st) (fin st)));
            [cbn [staged]; lia|exact Hlt].
        * rewrite En'.
          specialize (IH 0%N (off + (buf + amt))%N (n - amt)%N (mkBw 0 (S (nfl st)) (alive st) false)).
          cbv zeta in IH. cbn [staged nfl alive] in IH.
          destruct (write_loop k 0%N (off + (buf + amt))%N (n - amt)%N) as [[b1 o1] bs1].
          destruct (wa k (N.to_nat (n - amt)) (mkBw 0 (S (nfl st)) (alive st) false)) as [o st3].
          cbn [fst snd length] in *.
          assert (H0 : (0 < MAX_BUF)%N) by (unfold MAX_BUF; lia).
          destruct (IH eq_refl H0) as (I1 & I2 & I3 & I4).
          repeat split; try assumption. lia.
  Qed.

  (* ---- one operation, all operations ------------------------------------------------------- *)
  Definition Rel (s : N * N) (st : bw) : Prop :=
    staged st = N.to_nat (fst s) /\ (fst s < MAX_BUF)%N /\ alive st = true.

  Lemma op_sim : forall o s st, Rel s st ->
    let r := stage_op s o in
    let st' := sp_next (bop_spec M frames (mop_bop (mop_of o))) st in
    nfl st' = nfl st + length (snd r) /\ Rel (fst r) st'.
  Proof.
    intros o [buf off] st (R1 & R2 & R3). cbn [fst] in R1, R2. destruct o as [n|]; cbv zeta.
    - cbn [mop_of mop_bop bop_spec sp_next stage_op]. rewrite R3. unfold wa_next.
      set (kc := N.to_nat (n / MAX_BUF) + 3). set (ka := S (N.to_nat n)).
      assert (Hkc : (buf + n < MAX_BUF * N.of_nat kc)%N) by (unfold kc, MAX_BUF in *; lia).
      rewrite <- (wl_more ka kc buf off n R2 Hkc).
      rewrite <- (wa_more kc ka (N.to_nat n) st); [|unfold M; lia|unfold ka; lia].
      rewrite (Nat.add_comm ka kc).
      destruct (loops_lockstep (kc + ka) buf off n st R1 R2) as (L1 & L2 & L3 & L4).
      split; [exact L1|]. unfold Rel. split; [exact L2|]. split; [exact L3|]. rewrite L4. exact R3.
    - cbn [mop_of mop_bop bop_spec sp_next stage_op flush_blocks]. rewrite R3. unfold flush_next.
      destruct (N.eqb_spec buf 0) as [Hz|Hz]; destruct (Nat.eqb_spec (staged st) 0) as [Hz'|Hz']; try lia.
      + cbn [fst snd length]. split; [lia|]. unfold Rel. cbn [fst]. repeat split; assumption.
      + cbn [fst snd length nfl]. split; [lia|]. unfold Rel. cbn [fst staged alive].
        split; [reflexivity|]. split; [unfold MAX_BUF; lia|exact R3].
  Qed.

  Lemma ops_sim : forall ops s st, Rel s st ->
    let r := stage_ops s ops in
    let st' := ideal_state (map (bop_spec M frames) (map mop_bop (map mop_of ops))) st in
    nfl st' = nfl st + length (snd r) /\ Rel (fst r) st'.
  Proof.
    induction ops as [|o ops IH]; intros s st HR; cbv zeta.
    - cbn [stage_ops map ideal_state fst snd length]. split; [lia|exact HR].
    - cbn [stage_ops map ideal_state].
      destruct (op_sim o s st HR) as [O1 O2].
      destruct (stage_op s o) as [s1 b1]. cbn [fst snd] in O1, O2.
      destruct (IH s1 _ O2) as [I1 I2].
      destruct (stage_ops s1 ops) as [s2 b2]. cbn [fst snd] in *.
      split; [rewrite app_length; lia|exact I2].
  Qed.
End Stage.

(* THEOREM: both models submit the same number of blocks for the same operations *)
Theorem stage_count_agrees : forall ops : list op,
  mt_nblocks M (map mop_of ops) = length (stage ops).
Proof.
  intros ops. rewrite (mt_nblocks_ideal M M_pos).
  unfold bw_ideal_state. rewrite map_app, ideal_state_app. cbn [map ideal_state].
  assert (R0 : Rel (0%N, 0%N) bw_init).
  { unfold Rel, bw_init. cbn [fst staged alive]. repeat split; try (unfold MAX_BUF; lia). }
  destruct (ops_sim [] ops (0%N, 0%N) bw_init R0) as [H1 H2]. cbv zeta in H1, H2.
  unfold stage. destruct (stage_ops (0%N, 0%N) ops) as [s bs]. cbn [fst snd] in H1, H2.
  destruct (op_sim [] Flush s _ H2) as [F1 _]. cbv zeta in F1.
  cbn [mop_of mop_bop stage_op] in F1. rewrite F1, H1. rewrite app_length. cbn [nfl bw_init]. lia.
Qed.

(* ============================ ONE WRITER MODEL ================================================ *)
From NV Require Import Bgzf.MtReaderBridge Bgzf.MtReaderBridgeProofs Bgzf.MtWriterBridgeProofs.
Close Scope N_scope.

Section One.
  Variable e : errk.
  Hypothesis He : N.eqb e e_interrupted = false.
  Variable fr : blk -> list byte.
  Variable fa : option nat.
  Variable P : nat.

  Notation c14_state ops sched :=
    (mt_state P M (map fr (stage ops)) (map mop_of ops) sched (mkSink [] (script_from e fa 0) 0)).
  Notation c03_state ops sched := (w_run (list byte) (fun b => pieces (fr b)) fa P ops sched).

  (* for EVERY op list, framing, fault position, pool size and schedule: C03's pipeline state and
     C14's are the two images of one pipeline state (no hypothesis left) *)
  Theorem writer_models_one : forall (ops : list op) (sched : list act),
    c03_state ops sched = map_st snd (fun k => k) (ix_run fr fa P (stage ops) sched) /\
    c14_state ops sched = map_st fst (emb_sink e fa) (ix_run fr fa P (stage ops) sched).
  Proof. intros ops sched. apply (writer_models_lockstep e He fr fa P M ops). apply stage_count_agrees. Qed.

  Theorem writer_models_one_result : forall (ops : list op) (sched : list act),
    let k := mt_writer (list byte) (fun b => pieces (fr b)) BGZF_EOF fa P ops sched in
    mt_result (c14_state ops sched) = (mt_res (emb_sink e fa k), mt_sink (emb_sink e fa k)) /\
    mt_final (c14_state ops sched) = w_final (list byte) (c03_state ops sched).
  Proof.
    intros ops sched. split.
    - apply (writer_models_same_result e He fr fa P M ops). apply stage_count_agrees.
    - apply (writer_models_same_final e He fr fa P M ops). apply stage_count_agrees.
  Qed.

  (* C14'S MAIN THEOREM TRANSPORTED TO C03'S MODEL: whatever the schedule, when finish() can return,
     the result and the sink of C03's multithreaded writer are those of the sequential chain of
     write_all calls over the scripted sink *)
  Corollary c03_writer_is_sequential_chain : forall (ops : list op) (sched : list act),
    w_final (list byte) (c03_state ops sched) = true ->
    let k := mt_writer (list byte) (fun b => pieces (fr b)) BGZF_EOF fa P ops sched in
    (mt_res (emb_sink e fa k), mt_sink (emb_sink e fa k))
    = run_calls (mt_calls M (map fr (stage ops)) (map mop_of ops)) (mkSink [] (script_from e fa 0) 0).
  Proof.
    intros ops sched F. cbv zeta.
    destruct (writer_models_one_result ops sched) as [E1 E2]. cbv zeta in E1.
    rewrite <- E1. rewrite <- E2 in F.
    exact (mt_equals_sequential P M (map fr (stage ops)) (map mop_of ops) sched _ F).
  Qed.
End One.
