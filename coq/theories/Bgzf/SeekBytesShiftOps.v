(* C02 wave 10c: the SHIFT theorem after a successful seek for continuations that contain FURTHER
   SEEKS (any history of read and seek calls after the seek), on the byte-level reader
   (SeekBytes.read_b / seek_b / hops_b).

   SeekBytesShift proved: seek(v); read n1; tell; read n2; ... == (read from the start up to v);
   read n1; tell; ...   Here the continuation is any list of bop (reads AND seeks, to any position,
   failing or not):

       seek(v); op1; tell; op2; tell; ...  ==  (history from the start telling v); op1; tell; ...

   (seek_then_ops_as_from_start).  The bisimulation R of SeekBytesShift is closed under seek calls
   too, failing ones included (R_seek: a seek looks at the reader making it only through the block
   it leaves behind when it fails, and R-related blocks stay R-related), so after the FIRST call of
   the continuation everything agrees.  The one exception is real: when v is a block END (in-block
   offset 0) the seeking reader has already loaded the next block while the reader coming from the
   start still holds the exhausted previous one; if the very first call of the continuation is a
   seek that FAILS, that seek returns the same error in both readers (seek_result_any_state) but
   leaves these two different blocks behind (untouched, or invalidated), and the readers may go on
   differently.  Premise: v is inside a block, or the continuation does not start with a failing
   seek. *)
From Coq Require Import List PeanoNat NArith Bool Lia ZifyBool ZifyNat ZifyN.
From NV Require Import Base.LE Bgzf.Vpos Bgzf.VposProofs Bgzf.ReaderOps Bgzf.SeekBytes Bgzf.SeekBytesProofs
  Bgzf.SeekBytesShift Bgzf.SeekBytesReloc.
From NV Require Bgzf.Frame Bgzf.Reader Bgzf.Crc32 Bgzf.Inflate.
Import ListNotations.
Open Scope N_scope.

Section ShiftOps.
  Variable inflate : list N -> N -> option (list N).

  (* a seek (successful or not) keeps the bisimulation *)
  Lemma R_seek : forall fb s t v, R s t ->
    snd (seek_b inflate fb s v) = snd (seek_b inflate fb t v) /\
    R (fst (seek_b inflate fb s v)) (fst (seek_b inflate fb t v)).
  Proof.
    intros fb s t v (_ & _ & Hb). unfold seek_b.
    set (src := bytes_from fb (vcomp v)).
    pose proof (rnbs_two inflate (S (length src)) src (vcomp v) (s_blk s) (s_blk t)) as H2.
    destruct (rnbs inflate (S (length src)) src (vcomp v) (s_blk s)) as [[[s1 p1] b1] r1].
    destruct (rnbs inflate (S (length src)) src (vcomp v) (s_blk t)) as [[[s2 p2] c1] r2].
    destruct H2 as (<- & <- & <- & HRb & Hpos). specialize (HRb Hb).
    destruct r1 as [m| | | |]; cbn [fst snd];
      try (split; [reflexivity|]; repeat split; cbn [s_src s_position s_blk]; auto; left; reflexivity).
    split; [reflexivity|].
    destruct (N.eqb_spec m 0) as [->|Hm]; [apply R_refl|].
    rewrite (Hpos m eq_refl) by lia. apply R_refl.
  Qed.

  Lemma R_step : forall fb s t o, R s t ->
    snd (step_b inflate fb s o) = snd (step_b inflate fb t o) /\
    R (fst (step_b inflate fb s o)) (fst (step_b inflate fb t o)).
  Proof. intros fb s t [n|v] H; cbn [step_b]; [apply R_read|apply R_seek]; exact H. Qed.

  (* bisimilar readers: every history of reads and seeks (errors included) gives the same rows *)
  Theorem R_hops : forall fb ops s t, R s t -> hops_b inflate fb s ops = hops_b inflate fb t ops.
  Proof.
    intros fb. induction ops as [|o ops IH]; intros s t HR; [reflexivity|]. cbn [hops_b].
    destruct (R_step fb s t o HR) as [Hx HR'].
    destruct (step_b inflate fb s o) as [s' x]. destruct (step_b inflate fb t o) as [t' y].
    cbn [fst snd] in *. subst y. destruct HR' as (H1 & H2 & H3).
    rewrite (Rb_vpos _ _ H3). f_equal. apply IH. repeat split; assumption.
  Qed.

  Lemma seek_b_ok_eq : forall fb s w s2 y, seek_b inflate fb s w = (s2, Ok y) -> y = w.
  Proof.
    intros fb s w s2 y H. unfold seek_b in H.
    destruct (rnbs inflate _ _ _ _) as [[[a b] c] r].
    destruct r; injection H as _ H; congruence.
  Qed.

  (* what a seek returns never depends on the state of the reader making it *)
  Lemma seek_result_any_state : forall fb s t w,
    snd (seek_b inflate fb s w) = snd (seek_b inflate fb t w).
  Proof.
    intros fb s t w. unfold seek_b. set (src := bytes_from fb (vcomp w)).
    pose proof (rnbs_two inflate (S (length src)) src (vcomp w) (s_blk s) (s_blk t)) as H2.
    destruct (rnbs inflate (S (length src)) src (vcomp w) (s_blk s)) as [[[s1 p1] b1] r1].
    destruct (rnbs inflate (S (length src)) src (vcomp w) (s_blk t)) as [[[s2 p2] c1] r2].
    destruct H2 as (_ & _ & <- & _). destruct r1; reflexivity.
  Qed.

  (* the continuation does not start with a seek that fails *)
  Definition first_seek_ok (fb : list N) (s1 : bst) (ops : list bop) : Prop :=
    match ops with
    | BSeek w :: _ => exists y, snd (seek_b inflate fb s1 w) = Ok y
    | _ => True
    end.

  (* THE SHIFT THEOREM with further seeks in the continuation *)
  Theorem seek_then_ops_as_from_start : forall fb ops v s s' ops2,
    let s1 := state_b inflate fb (mkBst fb 0 (mkBlk 0 0 0 0)) ops in
    all_ok (hops_b inflate fb (mkBst fb 0 (mkBlk 0 0 0 0)) ops) ->
    blk_vpos (s_blk s1) = Ok v ->
    seek_b inflate fb s v = (s', Ok v) ->
    0 < vuncomp v \/ first_seek_ok fb s1 ops2 ->
    hops_b inflate fb s' ops2 = hops_b inflate fb s1 ops2.
  Proof.
    intros fb ops v s s' ops2 s1 Hok Hv Hk Hf.
    destruct Hf as [Hu|Hf].
    { pose proof (seek_told_inside_block_succeeds inflate fb ops v s Hok Hv Hu) as Hk'.
      fold s1 in Hk'. rewrite Hk' in Hk. injection Hk as <-. reflexivity. }
    assert (HI : Inv inflate fb s1) by (apply Inv_hops; [apply Inv_init|exact Hok]).
    destruct ops2 as [|[n|w] ops2]; [reflexivity| |].
    - cbn [hops_b step_b].
      destruct (seek_told_read inflate fb s1 v s s' n HI Hv Hk) as [Hx HR].
      destruct (read_b inflate s' n) as [t x]. destruct (read_b inflate s1 n) as [t1 y].
      cbn [fst snd] in *. subst y. destruct HR as (H1 & H2 & H3).
      rewrite (Rb_vpos _ _ H3). f_equal. apply R_hops. repeat split; assumption.
    - cbn [first_seek_ok] in Hf. destruct Hf as [y Hy]. cbn [hops_b step_b].
      destruct (seek_b inflate fb s1 w) as [t1 x] eqn:E. cbn [snd] in Hy. subst x.
      pose proof (seek_b_ok_eq _ _ _ _ _ E) as ->.
      rewrite (seek_b_ok_any_state inflate fb s1 s' w t1 E). reflexivity.
  Qed.

  (* without the premise: the first call of the continuation still RETURNS the same *)
  Theorem seek_then_first_call_same_result : forall fb ops v s s' o,
    let s1 := state_b inflate fb (mkBst fb 0 (mkBlk 0 0 0 0)) ops in
    all_ok (hops_b inflate fb (mkBst fb 0 (mkBlk 0 0 0 0)) ops) ->
    blk_vpos (s_blk s1) = Ok v ->
    seek_b inflate fb s v = (s', Ok v) ->
    snd (step_b inflate fb s' o) = snd (step_b inflate fb s1 o).
  Proof.
    intros fb ops v s s' o s1 Hok Hv Hk.
    assert (HI : Inv inflate fb s1) by (apply Inv_hops; [apply Inv_init|exact Hok]).
    destruct o as [n|w]; cbn [step_b].
    - exact (proj1 (seek_told_read inflate fb s1 v s s' n HI Hv Hk)).
    - apply seek_result_any_state.
  Qed.
End ShiftOps.

(* ---- the correspondence-check entry (kind hshifts) ------------------------------------------
   reader A: fresh over fb, the history ops1, the position told there, then the history ops2
   (reads and seeks); reader B: fresh over the same bytes, the history mid (anything), then
   seek(the position A told), then the same history ops2. *)
Definition hshiftops_run (fb : list N) (ops1 mid ops2 : list bop)
  : list (res N * res N) * res N * list (res N * res N)
    * option (res N * res N * list (res N * res N)) :=
  let s0 := mkBst fb 0 (mkBlk 0 0 0 0) in
  let h1 := hops_b Inflate.inflate fb s0 ops1 in
  let s1 := state_b Inflate.inflate fb s0 ops1 in
  let tv := blk_vpos (s_blk s1) in
  let rowsA := hops_b Inflate.inflate fb s1 ops2 in
  match tv with
  | Ok v =>
      let s := state_b Inflate.inflate fb s0 mid in
      let '(s', x) := seek_b Inflate.inflate fb s v in
      (h1, tv, rowsA, Some (x, blk_vpos (s_blk s'), hops_b Inflate.inflate fb s' ops2))
  | _ => (h1, tv, rowsA, None)
  end.

(* the premise as the harness evaluates it on reader A's rows *)
Definition first_row_ok (ops2 : list bop) (rowsA : list (res N * res N)) : Prop :=
  match ops2, rowsA with
  | BSeek _ :: _, (r, _) :: _ => exists y, r = Ok y
  | _, _ => True
  end.

(* what the harness asserts on the REAL readers' rows for every hshifts case *)
Theorem hshiftops_run_shift : forall fb ops1 mid ops2 h1 v rowsA x t rowsB,
  hshiftops_run fb ops1 mid ops2 = (h1, Ok v, rowsA, Some (x, t, rowsB)) ->
  all_ok h1 -> x = Ok v -> 0 < vuncomp v \/ first_row_ok ops2 rowsA -> rowsB = rowsA.
Proof.
  intros fb ops1 mid ops2 h1 v rowsA x t rowsB H Hok Hx Hf. unfold hshiftops_run in H.
  destruct (blk_vpos (s_blk (state_b Inflate.inflate fb (mkBst fb 0 (mkBlk 0 0 0 0)) ops1))) as [v0| | | |] eqn:Ev;
    try (injection H as _ H _ _; discriminate).
  destruct (seek_b Inflate.inflate fb (state_b Inflate.inflate fb (mkBst fb 0 (mkBlk 0 0 0 0)) mid) v0)
    as [s' x0] eqn:Ek.
  injection H as <- <- <- <- _ <-. subst x0.
  apply (seek_then_ops_as_from_start Inflate.inflate fb ops1 v0 _ s' ops2 Hok Ev Ek).
  destruct Hf as [Hu|Hf]; [left; exact Hu|right].
  destruct ops2 as [|[n|w] ops2]; cbn [first_seek_ok]; auto.
  cbn [hops_b step_b first_row_ok] in Hf.
  destruct (seek_b Inflate.inflate fb _ w) as [t1 y]. exact Hf.
Qed.
