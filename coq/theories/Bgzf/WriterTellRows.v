(* C02, writer side, LIST FORM: every row of WriterTell.wtell_run (one per position the writer
   tells: before the first call and after every call) satisfies the property, i.e. the whole
   composed observation the correspondence check compares is characterised, not only the split
   form of WriterTellProofs.writer_tell. *)
From Coq Require Import List Arith NArith Bool Lia ZifyBool ZifyNat ZifyN.
From NV Require Import Base.LE.
From NV Require Bgzf.Vpos Bgzf.Gzi Bgzf.ReaderOps.
From NV Require Import Bgzf.Frame Bgzf.Writer Bgzf.WriterTell Bgzf.WriterTellProofs.
Import ListNotations.
Open Scope N_scope.

Section Rows.
  Variable deflate : N -> list N -> list N.
  Variable lvl : N.
  Hypothesis H_l0 : forall x, lenN x <= MAX_BUF_SIZE -> lenN (deflate 0 x) <= MAX_COMPRESSED_SIZE.

  Lemma run_ops_len : forall ops st st' obs,
    run_ops deflate lvl st ops = (st', obs, false) -> length obs = length ops.
  Proof.
    induction ops as [|o r IH]; intros st st' obs H; cbn [run_ops] in H.
    - injection H as _ H. subst obs. reflexivity.
    - destruct (step deflate lvl st o) as [st1 x].
      destruct x as [a|e|]; [| |discriminate];
        destruct (run_ops deflate lvl st1 r) as [[st2 obs2] p2] eqn:E;
        injection H as _ Ho Hp; subst obs p2; cbn [length]; f_equal; exact (IH _ _ _ E).
  Qed.

  (* a script that does not panic can be cut anywhere: the observations split accordingly and the
     k-th told position is the position of the state reached after k calls *)
  Lemma run_ops_split : forall ops st st' obs,
    run_ops deflate lvl st ops = (st', obs, false) ->
    forall k, (k <= length ops)%nat ->
    exists stk,
      run_ops deflate lvl st (firstn k ops) = (stk, firstn k obs, false) /\
      run_ops deflate lvl stk (skipn k ops) = (st', skipn k obs, false) /\
      nth k (virtual_position st :: map snd obs) Panic = virtual_position stk /\
      accepted ops obs = accepted (firstn k ops) (firstn k obs) ++ accepted (skipn k ops) (skipn k obs).
  Proof.
    induction ops as [|o r IH]; intros st st' obs H k Hk.
    - cbn [length] in Hk. assert (k = 0)%nat by lia. subst k.
      cbn [run_ops] in H. injection H as Hs Ho. subst st' obs.
      exists st. cbn. repeat split; reflexivity.
    - destruct k as [|k].
      + exists st. cbn [firstn skipn nth run_ops accepted app]. repeat split; try reflexivity. exact H.
      + cbn [length] in Hk. cbn [run_ops] in H.
        destruct (step deflate lvl st o) as [st1 x] eqn:Es.
        destruct x as [a|e|]; [| |discriminate];
          destruct (run_ops deflate lvl st1 r) as [[st2 obs2] p2] eqn:E;
          injection H as Hs Ho Hp; subst st2 obs p2;
          destruct (IH st1 st' obs2 E k ltac:(lia)) as (stk & H1 & H2 & H3 & H4);
          exists stk; rewrite !firstn_cons, !skipn_cons; cbn [run_ops accepted]; rewrite Es, H1;
          (split; [reflexivity|]); (split; [exact H2|]); (split; [exact H3|]);
          rewrite H4, app_assoc; reflexivity.
  Qed.

  Theorem writer_tell_rows : forall ops fin n st obs p,
    run_ops deflate lvl w_init ops = (st, obs, p) ->
    let stf := wt_finish deflate lvl fin st in
    lenN (w_sink stf) <= MAX_COMPRESSED_POSITION -> 0 < n ->
    p = false /\
    length (wtell_run deflate lvl ops fin n) = S (length ops) /\
    forall k, (k <= length ops)%nat -> exists v,
      nth k (wtell_run deflate lvl ops fin n) (Panic, Vpos.Unmodelled, Vpos.Unmodelled)
      = (Ok v, Vpos.Ok v,
         Vpos.Ok (skipn (length (accepted (firstn k ops) (firstn k obs))) (accepted ops obs))).
  Proof.
    intros ops fin n st obs p Hr stf Hmax Hn. subst stf.
    assert (Hp : p = false).
    { destruct (writer_tell deflate lvl H_l0 ops [] fin n st obs p st [] false Hr eq_refl) as (Hp & _).
      - exact Hmax.
      - exact Hn.
      - exact Hp. }
    subst p. split; [reflexivity|].
    unfold wtell_run. rewrite Hr.
    split.
    - rewrite map_length. unfold told. cbn [length]. rewrite map_length, (run_ops_len _ _ _ _ Hr). reflexivity.
    - intros k Hk.
      destruct (run_ops_split ops w_init st obs Hr k Hk) as (stk & H1 & H2 & H3 & H4).
      destruct (writer_tell deflate lvl H_l0 (firstn k ops) (skipn k ops) fin n stk (firstn k obs) false
                  st (skipn k obs) false H1 H2) as (_ & _ & v & Hv & Hsk & Hrd).
      + exact Hmax.
      + exact Hn.
      + exists v. rewrite <- H4 in Hsk, Hrd.
        set (F := sink_file (S (length (w_sink (wt_finish deflate lvl fin st)))) (w_sink (wt_finish deflate lvl fin st)) (accepted ops obs)) in *.
        set (g := fun t : res N =>
                    match t with
                    | Ok v0 => let '(st1, r) := ReaderOps.seek true F (ReaderOps.init F) v0 in
                               (t, r, snd (ReaderOps.read_all true st1 n))
                    | _ => (t, Vpos.Unmodelled, Vpos.Unmodelled)
                    end).
        change (Panic, Vpos.Unmodelled, Vpos.Unmodelled) with (g Panic).
        rewrite (map_nth g). unfold told. rewrite H3, Hv. unfold g.
        destruct (ReaderOps.seek true F (ReaderOps.init F) v) as [st1 r] eqn:Es.
        cbn [fst snd] in Hsk, Hrd.
        rewrite Hsk, Hrd. reflexivity.
  Qed.
End Rows.
