(* An executable RFC 1951 INFLATE (stored, fixed-Huffman and dynamic-Huffman blocks) and a concrete
   level-0 DEFLATE ([deflate_stored]: stored blocks of <= 65535 bytes, BFINAL on the last one).

   [inflate cdata n] models noodles-bgzf/src/deflate.rs::decode(src, dst) with |dst| = n followed by
   the reader's use of dst (io/reader/frame.rs::inflate): zlib-rs' Inflate::decompress(src, dst,
   Finish) must report StreamEnd -- the stream is well formed, complete, and does not produce more
   than n bytes; input bytes after the final block are ignored (zlib-rs stops at the end of the
   final block) -- and the n bytes of dst are the inflated data.  A stream that ends after fewer than
   n bytes is mapped to None (the implementation gets to InvalidData through the CRC over the stale
   tail of dst; see NV.Bgzf.Reader).

   Rules for Huffman code descriptions follow zlib's inflate_table (zlib-rs inflate/inftrees.rs):
   an over-subscribed set of lengths is an error; an incomplete one is an error except, for the
   literal/length and distance codes, a single code of length 1 (and the empty distance code);
   code-length codes must be complete; the fixed distance code has 30 of 32 codes (30, 31 invalid).

   Everything is total: loops run on fuel proportional to the input length (every block consumes
   >= 3 bits, every symbol >= 1 bit); running out of fuel is reported as None and cannot happen with
   the fuel [inflate_raw] supplies (NV.Bgzf.InflateFuel.inflate_fuel_sufficient). *)
From Coq Require Import List Arith NArith Bool.
From NV Require Import Base.LE Bgzf.Frame.
Import ListNotations.
Open Scope N_scope.

(* ---- bit reader: LSB-first within each byte (RFC 1951 3.1.1) ---- *)

(* (bits of the current byte not yet consumed, remaining bytes) *)
Definition bitsrc := (list bool * list N)%type.

Fixpoint bits_of (k : nat) (b : N) : list bool :=
  match k with
  | O => []
  | S k' => N.odd b :: bits_of k' (N.div2 b)
  end.

Definition getbit (s : bitsrc) : option (bool * bitsrc) :=
  match fst s with
  | b :: bs => Some (b, (bs, snd s))
  | [] =>
      match snd s with
      | [] => None
      | x :: r => Some (N.odd x, (bits_of 7 (N.div2 x), r))
      end
  end.

(* an n-bit integer, least significant bit first *)
Fixpoint getbits (n : nat) (s : bitsrc) : option (N * bitsrc) :=
  match n with
  | O => Some (0, s)
  | S n' =>
      match getbit s with
      | None => None
      | Some (b, s1) =>
          match getbits n' s1 with
          | None => None
          | Some (v, s2) => Some ((if b then 1 else 0) + 2 * v, s2)
          end
      end
  end.

(* ---- Huffman codes as binary trees (Huffman codes are read MSB-first: 3.1.1) ---- *)

Inductive htree :=
| HEmpty                     (* no code with this prefix *)
| HLeaf (sym : N)
| HNode (zero one : htree).

Fixpoint hdecode (t : htree) (s : bitsrc) : option (N * bitsrc) :=
  match t with
  | HEmpty => None
  | HLeaf x => Some (x, s)
  | HNode l r =>
      match getbit s with
      | None => None
      | Some (b, s1) => if b then hdecode r s1 else hdecode l s1
      end
  end.

(* canonical code (3.2.2): symbols sorted by (length, symbol) fill the leaves of the tree from left
   to right.  Returns the tree and the symbols that did not fit (non-empty = over-subscribed). *)
Fixpoint hbuild (fuel : nat) (d : nat) (l : list (nat * N)) : htree * list (nat * N) :=
  match fuel with
  | O => (HEmpty, l)
  | S f =>
      match l with
      | [] => (HEmpty, [])
      | (len, sym) :: tl =>
          if (len <=? d)%nat then (HLeaf sym, tl)
          else
            let '(a, l1) := hbuild f (S d) l in
            let '(b, l2) := hbuild f (S d) l1 in
            (HNode a b, l2)
      end
  end.

Fixpoint index_from (i : N) (lens : list nat) : list (nat * N) :=
  match lens with
  | [] => []
  | l :: t => (l, i) :: index_from (i + 1) t
  end.

(* symbols with a non-zero length (1..15), sorted by (length, symbol) *)
Definition sorted_syms (lens : list nat) : list (nat * N) :=
  let ix := index_from 0 lens in
  flat_map (fun d => filter (fun p => Nat.eqb (fst p) d) ix) (seq 1 15).

(* lens = code length of symbol 0, 1, 2 ... *)
Definition mk_tree (lens : list nat) : htree * list (nat * N) := hbuild 16 0 (sorted_syms lens).

Fixpoint hcomplete (t : htree) : bool :=
  match t with
  | HEmpty => false
  | HLeaf _ => true
  | HNode l r => hcomplete l && hcomplete r
  end.

(* zlib inflate_table's acceptance rule; strict = the code-length code (CODES) *)
Definition code_ok (strict : bool) (tl : htree * list (nat * N)) : bool :=
  match snd tl with
  | _ :: _ => false                         (* over-subscribed *)
  | [] =>
      if hcomplete (fst tl) then true
      else if strict then false
      else
        match fst tl with
        | HEmpty => true                    (* no symbol at all: an error only when used *)
        | HNode (HLeaf _) HEmpty => true    (* a single code of length 1 *)
        | _ => false
        end
  end.

(* ---- the output: the bytes so far (reversed), their number, and the same bytes in a binary
   trie indexed by position + 1 so that a match copy costs O(log) per byte ---- *)

Inductive ptrie := PE | PN (l : ptrie) (v : N) (r : ptrie).

Fixpoint pget (p : positive) (t : ptrie) : N :=
  match t with
  | PE => 0
  | PN l v r =>
      match p with
      | xH => v
      | xO q => pget q l
      | xI q => pget q r
      end
  end.

Fixpoint pset (p : positive) (x : N) (t : ptrie) : ptrie :=
  match p with
  | xH => match t with PE => PN PE x PE | PN l _ r => PN l x r end
  | xO q => match t with PE => PN (pset q x PE) 0 PE | PN l v r => PN (pset q x l) v r end
  | xI q => match t with PE => PN PE 0 (pset q x PE) | PN l v r => PN l v (pset q x r) end
  end.

Record outbuf := mk_outbuf {
  ob_rev : list N;
  ob_len : N;
  ob_win : ptrie
}.

Definition ob_empty : outbuf := mk_outbuf [] 0 PE.

Definition push (b : N) (o : outbuf) : outbuf :=
  mk_outbuf (b :: ob_rev o) (ob_len o + 1) (pset (N.succ_pos (ob_len o)) b (ob_win o)).

Fixpoint push_list (l : list N) (o : outbuf) : outbuf :=
  match l with
  | [] => o
  | b :: t => push_list t (push b o)
  end.

(* byte at position i (0-based) of the output *)
Definition ob_get (i : N) (o : outbuf) : N := pget (N.succ_pos i) (ob_win o).

(* copy n bytes starting at position src; source and destination may overlap (3.2.3) *)
Fixpoint copy_match (n : nat) (src : N) (o : outbuf) : outbuf :=
  match n with
  | O => o
  | S n' => copy_match n' (src + 1) (push (ob_get src o) o)
  end.

(* ---- length / distance alphabets (3.2.5) ---- *)

Definition len_base : list N :=
  [3; 4; 5; 6; 7; 8; 9; 10; 11; 13; 15; 17; 19; 23; 27; 31; 35; 43; 51; 59; 67; 83; 99; 115; 131;
   163; 195; 227; 258].
Definition len_extra : list nat :=
  [0; 0; 0; 0; 0; 0; 0; 0; 1; 1; 1; 1; 2; 2; 2; 2; 3; 3; 3; 3; 4; 4; 4; 4; 5; 5; 5; 5; 0]%nat.
Definition dist_base : list N :=
  [1; 2; 3; 4; 5; 7; 9; 13; 17; 25; 33; 49; 65; 97; 129; 193; 257; 385; 513; 769; 1025; 1537; 2049;
   3073; 4097; 6145; 8193; 12289; 16385; 24577].
Definition dist_extra : list nat :=
  [0; 0; 0; 0; 1; 1; 2; 2; 3; 3; 4; 4; 5; 5; 6; 6; 7; 7; 8; 8; 9; 9; 10; 10; 11; 11; 12; 12; 13; 13]%nat.

(* ---- one Huffman-coded block body: literals, matches, end-of-block (3.2.3) ---- *)

Fixpoint codes (fuel : nat) (limit : N) (lt dt : htree) (s : bitsrc) (o : outbuf)
  : option (bitsrc * outbuf) :=
  match fuel with
  | O => None
  | S f =>
      match hdecode lt s with
      | None => None
      | Some (sym, s1) =>
          if sym <? 256 then
            if limit <=? ob_len o then None else codes f limit lt dt s1 (push sym o)
          else if sym =? 256 then Some (s1, o)
          else
            let i := N.to_nat (sym - 257) in
            if (29 <=? i)%nat then None                       (* symbols 286, 287 *)
            else
              match getbits (nth i len_extra O) s1 with
              | None => None
              | Some (e, s2) =>
                  let len := nth i len_base 0 + e in
                  match hdecode dt s2 with
                  | None => None
                  | Some (ds, s3) =>
                      let j := N.to_nat ds in
                      if (30 <=? j)%nat then None             (* distance codes 30, 31 *)
                      else
                        match getbits (nth j dist_extra O) s3 with
                        | None => None
                        | Some (e2, s4) =>
                            let dist := nth j dist_base 0 + e2 in
                            if ob_len o <? dist then None     (* too far back *)
                            else if limit <? ob_len o + len then None
                            else codes f limit lt dt s4 (copy_match (N.to_nat len) (ob_len o - dist) o)
                        end
                  end
              end
      end
  end.

(* ---- stored block (3.2.4): the rest of the current byte is skipped ---- *)

Definition stored (limit : N) (s : bitsrc) (o : outbuf) : option (bitsrc * outbuf) :=
  match snd s with
  | l0 :: l1 :: n0 :: n1 :: data =>
      let len := le_dec [l0; l1] in
      let nlen := le_dec [n0; n1] in
      if negb (len + nlen =? 65535) then None
      else if limit <? ob_len o + len then None
      else
        let chunk := firstn (N.to_nat len) data in
        if lenN chunk <? len then None
        else Some (([], skipn (N.to_nat len) data), push_list chunk o)
  | _ => None
  end.

(* ---- fixed codes (3.2.6) ---- *)

Definition fixed_lit_lens : list nat :=
  repeat 8%nat 144 ++ repeat 9%nat 112 ++ repeat 7%nat 24 ++ repeat 8%nat 8.
Definition fixed_lt : htree := fst (mk_tree fixed_lit_lens).
Definition fixed_dt : htree := fst (mk_tree (repeat 5%nat 30)).

(* ---- dynamic codes (3.2.7) ---- *)

Definition cl_order : list nat :=
  [16; 17; 18; 0; 8; 7; 9; 6; 10; 5; 11; 4; 12; 3; 13; 2; 14; 1; 15]%nat.

(* n 3-bit code lengths *)
Fixpoint read_cl (n : nat) (s : bitsrc) : option (list nat * bitsrc) :=
  match n with
  | O => Some ([], s)
  | S n' =>
      match getbits 3 s with
      | None => None
      | Some (v, s1) =>
          match read_cl n' s1 with
          | None => None
          | Some (vs, s2) => Some (N.to_nat v :: vs, s2)
          end
      end
  end.

Fixpoint assoc_nat (k : nat) (l : list (nat * nat)) : nat :=
  match l with
  | [] => O
  | (k', v) :: t => if Nat.eqb k k' then v else assoc_nat k t
  end.

(* the code lengths of symbols 0..18 of the code-length alphabet *)
Definition cl_lens (vals : list nat) : list nat :=
  let a := combine cl_order vals in map (fun sym => assoc_nat sym a) (seq 0 19).

(* the literal/length and distance code lengths, run-length coded; acc is reversed *)
Fixpoint read_lens (fuel : nat) (cl : htree) (need : nat) (acc : list nat) (s : bitsrc)
  : option (list nat * bitsrc) :=
  match need with
  | O => Some (rev acc, s)
  | S _ =>
      match fuel with
      | O => None
      | S f =>
          match hdecode cl s with
          | None => None
          | Some (sym, s1) =>
              if sym <? 16 then read_lens f cl (need - 1) (N.to_nat sym :: acc) s1
              else
                let '(val, nb, base) :=
                  if sym =? 16 then (match acc with p :: _ => Some p | [] => None end, 2%nat, 3%nat)
                  else if sym =? 17 then (Some O, 3%nat, 3%nat)
                  else (Some O, 7%nat, 11%nat) in
                match val with
                | None => None                                  (* repeat without a previous length *)
                | Some v =>
                    match getbits nb s1 with
                    | None => None
                    | Some (e, s2) =>
                        let rep := (base + N.to_nat e)%nat in
                        if (need <? rep)%nat then None
                        else read_lens f cl (need - rep) (repeat v rep ++ acc) s2
                    end
                end
          end
      end
  end.

Definition dynamic (fuel : nat) (limit : N) (s : bitsrc) (o : outbuf) : option (bitsrc * outbuf) :=
  match getbits 5 s with
  | None => None
  | Some (a, s1) =>
      match getbits 5 s1 with
      | None => None
      | Some (b, s2) =>
          match getbits 4 s2 with
          | None => None
          | Some (c, s3) =>
              let nlen := (N.to_nat a + 257)%nat in
              let ndist := (N.to_nat b + 1)%nat in
              let ncode := (N.to_nat c + 4)%nat in
              if (286 <? nlen)%nat || (30 <? ndist)%nat then None
              else
                match read_cl ncode s3 with
                | None => None
                | Some (vals, s4) =>
                    let clt := mk_tree (cl_lens vals) in
                    if negb (code_ok true clt) then None
                    else
                      match read_lens (nlen + ndist) (fst clt) (nlen + ndist) [] s4 with
                      | None => None
                      | Some (lens, s5) =>
                          if Nat.eqb (nth 256 lens O) O then None   (* no end-of-block code *)
                          else
                            let lt := mk_tree (firstn nlen lens) in
                            let dt := mk_tree (skipn nlen lens) in
                            if negb (code_ok false lt) || negb (code_ok false dt) then None
                            else codes fuel limit (fst lt) (fst dt) s5 o
                      end
                end
          end
      end
  end.

(* ---- the block loop ---- *)

Fixpoint blocks (fuel cfuel : nat) (limit : N) (s : bitsrc) (o : outbuf) : option (bitsrc * outbuf) :=
  match fuel with
  | O => None
  | S f =>
      match getbit s with
      | None => None
      | Some (final, s1) =>
          match getbits 2 s1 with
          | None => None
          | Some (ty, s2) =>
              let r :=
                if ty =? 0 then stored limit s2 o
                else if ty =? 1 then codes cfuel limit fixed_lt fixed_dt s2 o
                else if ty =? 2 then dynamic cfuel limit s2 o
                else None in
              match r with
              | None => None
              | Some (s3, o3) => if final then Some (s3, o3) else blocks f cfuel limit s3 o3
              end
          end
      end
  end.

(* inflate one raw DEFLATE stream producing at most limit bytes:
   (output, input bytes after the byte that holds the end of the final block) *)
Definition inflate_raw (limit : N) (src : list N) : option (list N * list N) :=
  let fuel := S (8 * length src) in
  match blocks fuel fuel limit ([], src) ob_empty with
  | None => None
  | Some (s, o) => Some (rev_append (ob_rev o) [], snd s)
  end.

(* deflate.rs::decode into a buffer of n bytes, as the reader uses it *)
Definition inflate (cdata : list N) (n : N) : option (list N) :=
  match inflate_raw n cdata with
  | None => None
  | Some (out, _) => if lenN out =? n then Some out else None
  end.

(* ---- a concrete level-0 DEFLATE: stored blocks only ---- *)

Definition MAX_STORED : N := 65535.

Definition stored_block (final : bool) (chunk : list N) : list N :=
  (if final then 1 else 0) :: le16 (lenN chunk) ++ le16 (MAX_STORED - lenN chunk) ++ chunk.

Fixpoint deflate_stored_aux (fuel : nat) (x : list N) : list N :=
  match fuel with
  | O => []   (* not reached: deflate_stored supplies S (length x) *)
  | S f =>
      if lenN x <=? MAX_STORED then stored_block true x
      else stored_block false (firstn (N.to_nat MAX_STORED) x)
             ++ deflate_stored_aux f (skipn (N.to_nat MAX_STORED) x)
  end.

Definition deflate_stored (x : list N) : list N := deflate_stored_aux (S (length x)) x.

(* the codec the unconditional C01 theorems are instantiated with: stored blocks at every level *)
Definition deflate_l0 (_ : N) (x : list N) : list N := deflate_stored x.
