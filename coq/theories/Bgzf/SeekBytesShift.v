(* C02 wave 10: the SHIFT theorem after a successful seek, on the byte-level reader
   (SeekBytes.read_b / reads_b / seek_b).

   Take a reader over the bytes fb that has read WITHOUT ERROR from the start (any read sizes, any
   successful seeks in between) up to a state s1, where virtual_position() tells v.  Then for a
   reader in ANY state s over the same bytes (after errors, failed seeks, anywhere): if seek(v)
   succeeds, every read call after it returns what the same call returns when the reading from the
   start simply goes on from s1, and every virtual_position() told after those calls is the same:

       seek(v); read n1; tell; read n2; tell; ...  ==  (read from the start up to v); read n1; tell; ...

   (seek_then_reads_as_from_start).  The two readers are in general NOT in the same state after the
   seek (a seek to the end of a block loads the next block at once, the reader that got there by
   reading loads it in its next read call), so the proof is a bisimulation [R]; when v is inside a
   block the seek always succeeds and restores the state s1 exactly (seek_restores_state).
   A seek to a block end can fail although reading got there (the next frame is corrupt): then the
   reader coming from the start fails in its next read call instead; seek success is a premise. *)
From Coq Require Import List PeanoNat NArith Bool Lia ZifyBool ZifyNat ZifyN.
From NV Require Import Base.LE Bgzf.Vpos Bgzf.VposProofs Bgzf.ReaderOps Bgzf.SeekBytes Bgzf.SeekBytesProofs.
From NV Require Bgzf.Frame Bgzf.Reader Bgzf.Crc32 Bgzf.Inflate.
Import ListNotations.
Open Scope N_scope.

(* ---- facts about the frame reader ---------------------------------------------------------- *)

Lemma read_frame_none : forall src, Reader.read_frame src = Frame.Ok None -> Frame.lenN src < 18.
Proof.
  intros src H. unfold Reader.read_frame, Frame.BGZF_HEADER_SIZE in H.
  destruct (Frame.lenN src <? 18) eqn:E; [lia|]. cbv zeta in H.
  destruct (_ <? Frame.MIN_FRAME_SIZE); [discriminate|].
  destruct (Frame.lenN src <? _ + 1); discriminate.
Qed.

Lemma read_frame_short : forall src, Frame.lenN src < 18 -> Reader.read_frame src = Frame.Ok None.
Proof.
  intros src H. unfold Reader.read_frame, Frame.BGZF_HEADER_SIZE.
  destruct (Frame.lenN src <? 18) eqn:E; [reflexivity|lia].
Qed.

Lemma parse_frame_bs : forall fr bs cdata crc isize,
  Frame.parse_frame fr = Frame.Ok (bs, cdata, crc, isize) -> bs = Frame.lenN fr.
Proof.
  intros fr bs cdata crc isize H. unfold Frame.parse_frame in H.
  destruct (Frame.lenN fr <? Frame.MIN_FRAME_SIZE); [discriminate|].
  destruct (negb _); [discriminate|].
  destruct (_ <=? Frame.BGZF_MAX_ISIZE); [|discriminate].
  injection H as Hb _ _ _. symmetry. exact Hb.
Qed.

Lemma skipn_skipn' : forall (A : Type) (x y : nat) (l : list A), skipn x (skipn y l) = skipn (y + x) l.
Proof.
  intros A x y. induction y as [|y IH]; intros l; [reflexivity|].
  destruct l as [|a l]; [rewrite !skipn_nil; reflexivity|]. cbn [skipn Nat.add]. apply IH.
Qed.

(* the bytes behind a frame that was read at offset pos are the bytes at offset pos + its size *)
Lemma bytes_from_rest : forall fb pos fr rest,
  bytes_from fb pos = fr ++ rest -> (0 < length fr)%nat ->
  rest = bytes_from fb (pos + Frame.lenN fr).
Proof.
  intros fb pos fr rest H Hpos. unfold bytes_from, Frame.lenN in *.
  destruct (N.of_nat (length fb) <=? pos) eqn:E.
  - destruct fr; [cbn in Hpos; lia|discriminate].
  - assert (Hr : rest = skipn (length fr) (skipn (N.to_nat pos) fb)).
    { rewrite H. rewrite skipn_app, skipn_all, Nat.sub_diag. reflexivity. }
    rewrite skipn_skipn' in Hr.
    assert (Hl : length (skipn (N.to_nat pos) fb) = (length fr + length rest)%nat)
      by (rewrite H, app_length; reflexivity).
    rewrite skipn_length in Hl.
    destruct (N.of_nat (length fb) <=? pos + N.of_nat (length fr)) eqn:E2.
    + rewrite Hr. apply skipn_all2. lia.
    + rewrite Hr. f_equal. lia.
Qed.

(* ---- sources that the reader cannot tell apart: equal, or both shorter than a header -------- *)

Definition srceq (a b : list N) : Prop := a = b \/ (Frame.lenN a < 18 /\ Frame.lenN b < 18).

Definition exh (b : blk) : Prop := k_len b <= k_cur b.
Definition bend (b : blk) : N := k_pos b + k_size b.

(* blocks that the reader cannot tell apart: equal, or both exhausted with the same end *)
Definition Rb (b c : blk) : Prop := b = c \/ (exh b /\ exh c /\ bend b = bend c).

Section Shift.
  Variable inflate : list N -> N -> option (list N).

  Lemma rnbs_fuel : forall f1 f2 src pos b,
    (length src < f1)%nat -> (length src < f2)%nat ->
    rnbs inflate f1 src pos b = rnbs inflate f2 src pos b.
  Proof.
    induction f1 as [|f1 IH]; intros f2 src pos b H1 H2; [lia|].
    destruct f2 as [|f2]; [lia|]. cbn [rnbs].
    destruct (Reader.read_frame src) as [[[fr rest]|]|e|] eqn:Hr; try reflexivity.
    destruct (Frame.parse_frame fr) as [[[[bs cdata] crc] isize]|e|]; try reflexivity.
    destruct (inflate cdata isize) as [d|]; [|reflexivity].
    destruct (Crc32.crc32 d =? crc); [|reflexivity].
    destruct (0 <? isize); [reflexivity|].
    destruct (read_frame_some _ _ _ Hr) as (_ & Hlt & _). apply IH; lia.
  Qed.

  Lemma rnbs_srceq : forall f1 f2 a a' pos b,
    srceq a a' -> (length a < f1)%nat -> (length a' < f2)%nat ->
    rnbs inflate f1 a pos b = rnbs inflate f2 a' pos b.
  Proof.
    intros f1 f2 a a' pos b [->|[Ha Ha']] H1 H2; [apply rnbs_fuel; assumption|].
    destruct f1 as [|f1]; [lia|]. destruct f2 as [|f2]; [lia|]. cbn [rnbs].
    rewrite (read_frame_short _ Ha), (read_frame_short _ Ha'). reflexivity.
  Qed.

  (* the block the loop starts with matters only when it comes back without a new block *)
  Lemma rnbs_two : forall f src pos b c,
    let '(s1, p1, b1, r1) := rnbs inflate f src pos b in
    let '(s2, p2, c1, r2) := rnbs inflate f src pos c in
    s1 = s2 /\ p1 = p2 /\ r1 = r2 /\ (Rb b c -> Rb b1 c1) /\
    (forall m, r1 = Ok m -> 0 < m -> b1 = c1).
  Proof.
    intros f src pos b c. destruct f as [|f]; cbn [rnbs].
    { repeat split; auto; intros; discriminate. }
    assert (Hinv : Rb b c -> Rb (mkBlk (k_pos b) (k_size b) (k_len b) (k_len b))
                                (mkBlk (k_pos c) (k_size c) (k_len c) (k_len c))).
    { intros [->|(Hb & Hc & He)]; [left; reflexivity|right].
      unfold exh, bend in *. cbn [k_pos k_size k_len k_cur]. lia. }
    destruct (Reader.read_frame src) as [[[fr rest]|]|e|] eqn:Hr.
    - destruct (Frame.parse_frame fr) as [[[[bs cdata] crc] isize]|e|].
      + destruct (inflate cdata isize) as [d|].
        * destruct (Crc32.crc32 d =? crc).
          -- destruct (0 <? isize).
             ++ repeat split; auto. intros _. left. reflexivity.
             ++ destruct (rnbs inflate f rest (pos + bs) (mkBlk pos bs isize 0)) as [[[s1 p1] b1] r1].
                repeat split; auto. intros _. left. reflexivity.
          -- repeat split; auto; intros; discriminate.
        * repeat split; auto; intros; discriminate.
      + repeat split; auto; intros; discriminate.
      + repeat split; auto; intros; discriminate.
    - repeat split; auto. intros m Hm Hlt. injection Hm as <-. lia.
    - destruct e; repeat split; auto; intros; discriminate.
    - repeat split; auto; intros; discriminate.
  Qed.

  (* ---- the bisimulation ------------------------------------------------------------------- *)

  Definition R (s t : bst) : Prop :=
    srceq (s_src s) (s_src t) /\ s_position s = s_position t /\ Rb (s_blk s) (s_blk t).

  Lemma Rb_vpos : forall b c, Rb b c -> blk_vpos b = blk_vpos c.
  Proof.
    intros b c [->|(Hb & Hc & He)]; [reflexivity|]. unfold blk_vpos, exh, bend in *.
    destruct (k_cur b <? k_len b) eqn:E1; [lia|]. destruct (k_cur c <? k_len c) eqn:E2; [lia|].
    rewrite He. reflexivity.
  Qed.

  Lemma R_refl : forall s, R s s.
  Proof. intros s. repeat split; left; reflexivity. Qed.

  Lemma R_read : forall s t n, R s t ->
    snd (read_b inflate s n) = snd (read_b inflate t n) /\
    R (fst (read_b inflate s n)) (fst (read_b inflate t n)).
  Proof.
    intros [ss sp sb] [ts tp tb] n (Hs & Hp & Hb). cbn [s_src s_position s_blk] in *. subst tp.
    unfold read_b. cbn [s_src s_position s_blk].
    assert (Hcase : (sb = tb /\ k_cur sb < k_len sb) \/ (exh sb /\ exh tb /\ Rb sb tb)).
    { destruct Hb as [->|(H1 & H2 & H3)].
      - destruct (N.ltb_spec (k_cur tb) (k_len tb)); [left; split; [reflexivity|assumption]|].
        right. unfold exh. repeat split; try assumption. left. reflexivity.
      - right. repeat split; try assumption. right. repeat split; assumption. }
    destruct Hcase as [[-> Hlt]|(He1 & He2 & Hb')].
    - destruct (N.ltb_spec (k_cur tb) (k_len tb)); [|lia]. cbn [fst snd].
      split; [reflexivity|]. repeat split; cbn [s_src s_position s_blk]; auto. left. reflexivity.
    - unfold exh in He1, He2.
      destruct (N.ltb_spec (k_cur sb) (k_len sb)); [lia|].
      destruct (N.ltb_spec (k_cur tb) (k_len tb)); [lia|].
      rewrite (rnbs_srceq (S (length ss)) (S (length ts)) ss ts sp sb Hs) by lia.
      pose proof (rnbs_two (S (length ts)) ts sp sb tb) as H2.
      destruct (rnbs inflate (S (length ts)) ts sp sb) as [[[s1 p1] b1] r1].
      destruct (rnbs inflate (S (length ts)) ts sp tb) as [[[s2 p2] c1] r2].
      destruct H2 as (-> & -> & -> & HRb & Hpos). specialize (HRb Hb').
      destruct r2 as [m| | | |]; cbn [fst snd];
        try (split; [reflexivity|]; repeat split; cbn [s_src s_position s_blk]; auto; left; reflexivity).
      destruct HRb as [->|(E1 & E2 & E3)].
      + split; [reflexivity|apply R_refl].
      + unfold exh, bend in *.
        replace (k_len b1 - k_cur b1) with 0 by lia. replace (k_len c1 - k_cur c1) with 0 by lia.
        rewrite N.min_0_r, !N.add_0_r. split; [reflexivity|].
        repeat split; cbn [s_src s_position s_blk]; auto; [left; reflexivity|].
        right. unfold exh, bend. cbn [k_pos k_size k_len k_cur]. lia.
  Qed.

  Theorem R_reads : forall ns s t, R s t -> reads_b inflate s ns = reads_b inflate t ns.
  Proof.
    induction ns as [|n ns IH]; intros s t HR; [reflexivity|]. cbn [reads_b].
    destruct (R_read s t n HR) as [Hx HR'].
    destruct (read_b inflate s n) as [s' x]. destruct (read_b inflate t n) as [t' y].
    cbn [fst snd] in *. subst y. destruct HR' as (H1 & H2 & H3).
    rewrite (Rb_vpos _ _ H3). f_equal. apply IH. repeat split; assumption.
  Qed.

  (* ---- the invariant of a reader that has had no error since the start / its last seek ------- *)

  Definition Inv (fb : list N) (s : bst) : Prop :=
    let b := s_blk s in
    srceq (s_src s) (bytes_from fb (s_position s)) /\
    bend b = s_position s /\
    (k_cur b < k_len b ->
     forall b0, rnbs inflate (S (length (bytes_from fb (k_pos b)))) (bytes_from fb (k_pos b)) (k_pos b) b0
                = (s_src s, s_position s, mkBlk (k_pos b) (k_size b) (k_len b) 0, Ok (k_len b))).

  Lemma Inv_init : forall fb, Inv fb (mkBst fb 0 (mkBlk 0 0 0 0)).
  Proof.
    intros fb. unfold Inv, bend. cbn [s_src s_position s_blk k_pos k_size k_len k_cur].
    repeat split; [|intros; lia]. unfold bytes_from, Frame.lenN.
    destruct (N.of_nat (length fb) <=? 0) eqn:E; [|left; reflexivity].
    destruct fb; [left; reflexivity|cbn [length] in E; lia].
  Qed.

  (* what a successful run of the block loop over the bytes at offset pos establishes *)
  Lemma rnbs_ok_inv : forall fb fuel pos b src' pos' b' m,
    rnbs inflate fuel (bytes_from fb pos) pos b = (src', pos', b', Ok m) ->
    srceq src' (bytes_from fb pos') /\
    (bend b = pos -> bend b' = pos') /\
    ((m = 0 /\ src' = [] /\ (b' = b \/ k_len b' = 0)) \/
     (0 < m /\ b' = mkBlk (k_pos b') (k_size b') m 0 /\
      forall b0, rnbs inflate (S (length (bytes_from fb (k_pos b')))) (bytes_from fb (k_pos b')) (k_pos b') b0
                 = (src', pos', b', Ok m))).
  Proof.
    intros fb. induction fuel as [|fuel IH]; intros pos b src' pos' b' m H; cbn [rnbs] in H; [discriminate|].
    destruct (Reader.read_frame (bytes_from fb pos)) as [[[fr rest]|]|e|] eqn:Hr.
    - destruct (Frame.parse_frame fr) as [[[[bs cdata] crc] isize]|e|] eqn:Hp; try discriminate.
      destruct (inflate cdata isize) as [d|] eqn:Hi; [|discriminate].
      destruct (Crc32.crc32 d =? crc) eqn:Hc; [|discriminate].
      pose proof (parse_frame_bs _ _ _ _ _ Hp) as Hbs.
      destruct (read_frame_some _ _ _ Hr) as (Happ & _ & H26).
      assert (Hrest : rest = bytes_from fb (pos + bs)).
      { rewrite Hbs. apply (bytes_from_rest fb pos fr rest Happ). unfold Frame.lenN in H26. lia. }
      destruct (0 <? isize) eqn:Hz.
      + injection H as <- <- <- <-. split; [left; exact Hrest|].
        split; [intros _; reflexivity|]. right. cbn [k_pos k_size].
        split; [lia|]. split; [reflexivity|]. intros b0. cbn [rnbs].
        rewrite Hr, Hp, Hi, Hc, Hz. reflexivity.
      + rewrite Hrest in H. destruct (IH _ _ _ _ _ _ H) as (H1 & H2 & H3).
        split; [exact H1|]. split; [intros _; apply H2; reflexivity|].
        destruct H3 as [(Hm & Hs & Hb)|H3]; [left|right; exact H3].
        split; [exact Hm|]. split; [exact Hs|]. right.
        destruct Hb as [->|Hb]; [cbn [k_len]; lia|exact Hb].
    - injection H as <- <- <- <-. split; [right; split; [cbn; lia|exact (read_frame_none _ Hr)]|].
      split; [auto|]. left. repeat split. left. reflexivity.
    - destruct e; discriminate.
    - discriminate.
  Qed.

  Lemma Inv_read : forall fb s n s' k,
    Inv fb s -> read_b inflate s n = (s', Ok k) -> Inv fb s'.
  Proof.
    intros fb [ss sp sb] n s' k (Hs & He & Hl) H. cbn [s_src s_position s_blk] in *.
    unfold read_b in H. cbn [s_src s_position s_blk] in H.
    destruct (N.ltb_spec (k_cur sb) (k_len sb)) as [Hlt|Hge].
    - injection H as <- _. unfold Inv, bend in *. cbn [s_src s_position s_blk k_pos k_size k_len k_cur].
      repeat split; auto.
    - rewrite (rnbs_srceq (S (length ss)) (S (length (bytes_from fb sp))) ss (bytes_from fb sp) sp sb Hs) in H by lia.
      destruct (rnbs inflate (S (length (bytes_from fb sp))) (bytes_from fb sp) sp sb) as [[[s1 p1] b1] r1] eqn:E.
      destruct r1 as [m| | | |]; try (injection H as _ H; discriminate).
      injection H as <- _.
      destruct (rnbs_ok_inv _ _ _ _ _ _ _ _ E) as (H1 & H2 & H3). specialize (H2 He).
      unfold Inv, bend in *. cbn [s_src s_position s_blk k_pos k_size k_len k_cur].
      split; [exact H1|]. split; [exact H2|].
      destruct H3 as [(Hm & _ & Hb)|(Hm & Hb & Hload)].
      + intros Hc. exfalso. destruct Hb as [->|Hb]; lia.
      + intros _. destruct b1 as [bp bz bl bc]. cbn [k_pos k_size k_len k_cur] in *.
        injection Hb as -> ->. exact Hload.
  Qed.

  Lemma Inv_seek : forall fb s v s' x, seek_b inflate fb s v = (s', Ok x) -> Inv fb s'.
  Proof.
    intros fb s v s' x H. unfold seek_b in H.
    destruct (rnbs inflate (S (length (bytes_from fb (vcomp v)))) (bytes_from fb (vcomp v)) (vcomp v) (s_blk s))
      as [[[s1 p1] b1] r1] eqn:E.
    destruct r1 as [m| | | |]; try (injection H as _ H; discriminate).
    injection H as <- _.
    destruct (rnbs_ok_inv _ _ _ _ _ _ _ _ E) as (H1 & _ & H3).
    unfold Inv, bend. cbn [s_src s_position s_blk].
    destruct H3 as [(-> & _ & _)|(Hm & Hb & Hload)].
    - cbn [N.eqb k_pos k_size k_len k_cur]. rewrite N.min_0_r.
      split; [exact H1|]. split; [lia|]. intros; lia.
    - destruct (N.eqb_spec m 0) as [->|_]; [lia|]. cbn [k_pos k_size k_len k_cur].
      split; [exact H1|].
      assert (He : bend b1 = p1).
      { specialize (Hload (mkBlk (k_pos b1) 0 0 0)).
        destruct (rnbs_ok_inv _ _ _ _ _ _ _ _ Hload) as (_ & H2 & _). apply H2. unfold bend. cbn. lia. }
      split; [exact He|]. intros _. destruct b1 as [bp bz bl bc]. cbn [k_pos k_size k_len k_cur] in *.
      injection Hb as -> ->. exact Hload.
  Qed.

  (* error-free histories of reads and seeks keep the invariant *)
  Definition all_ok (rs : list (res N * res N)) : Prop :=
    Forall (fun p => exists x, fst p = Ok x) rs.

  Lemma Inv_hops : forall fb ops s, Inv fb s -> all_ok (hops_b inflate fb s ops) ->
    Inv fb (state_b inflate fb s ops).
  Proof.
    intros fb. induction ops as [|o ops IH]; intros s Hi Hok; [exact Hi|].
    cbn [hops_b state_b] in *. destruct (step_b inflate fb s o) as [s' x] eqn:E. cbn [fst].
    inversion Hok as [|p l [y Hy] Hrest]; subst. cbn [fst] in Hy. subst x.
    apply IH; [|exact Hrest]. destruct o as [n|v]; cbn [step_b] in E.
    - exact (Inv_read _ _ _ _ _ Hi E).
    - exact (Inv_seek _ _ _ _ _ E).
  Qed.

  (* ---- seek to a position that was told ------------------------------------------------------ *)

  (* inside a block: the seek always succeeds and restores the state exactly *)
  Theorem seek_restores_state : forall fb s1 v s,
    Inv fb s1 -> blk_vpos (s_blk s1) = Ok v -> k_cur (s_blk s1) < k_len (s_blk s1) ->
    seek_b inflate fb s v = (s1, Ok v).
  Proof.
    intros fb [ss sp sb] v s (Hs & He & Hl) Hv Hlt. cbn [s_src s_position s_blk] in *.
    unfold blk_vpos in Hv. destruct (N.ltb_spec (k_cur sb) (k_len sb)); [|lia].
    unfold MAX_UNCOMPRESSED_POSITION in Hv.
    destruct ((k_pos sb <=? MAX_COMPRESSED_POSITION) && (k_cur sb <=? 65535)) eqn:Eb; [|discriminate].
    injection Hv as <-. unfold seek_b.
    rewrite vcomp_pack, vuncomp_pack by lia. rewrite (Hl Hlt (s_blk s)).
    destruct (N.eqb_spec (k_len sb) 0); [lia|]. cbn [k_pos k_size k_len].
    rewrite N.min_l by lia. destruct sb; reflexivity.
  Qed.

  (* anywhere: after a successful seek to a told position, the reader is bisimilar (for read
     calls) to the reader that told it *)
  Lemma seek_told_read : forall fb s1 v s s' n,
    Inv fb s1 -> blk_vpos (s_blk s1) = Ok v -> seek_b inflate fb s v = (s', Ok v) ->
    snd (read_b inflate s' n) = snd (read_b inflate s1 n) /\
    R (fst (read_b inflate s' n)) (fst (read_b inflate s1 n)).
  Proof.
    intros fb s1 v s s' n HI Hv Hk.
    destruct (N.ltb_spec (k_cur (s_blk s1)) (k_len (s_blk s1))) as [Hlt|Hge].
    { rewrite (seek_restores_state fb s1 v s HI Hv Hlt) in Hk. injection Hk as <-.
      split; [reflexivity|apply R_refl]. }
    destruct s1 as [ss sp sb]. destruct HI as (Hs & He & _). cbn [s_src s_position s_blk] in *.
    unfold blk_vpos in Hv. destruct (N.ltb_spec (k_cur sb) (k_len sb)); [lia|].
    destruct (k_pos sb + k_size sb <=? MAX_COMPRESSED_POSITION); [|discriminate].
    injection Hv as <-. unfold bend in He. rewrite He in Hk.
    unfold seek_b in Hk. rewrite vcomp_pack, vuncomp_pack in Hk by lia.
    pose proof (rnbs_two (S (length (bytes_from fb sp))) (bytes_from fb sp) sp (s_blk s) sb) as H2.
    destruct (rnbs inflate (S (length (bytes_from fb sp))) (bytes_from fb sp) sp (s_blk s))
      as [[[s1 p1] b1] r1] eqn:E1.
    destruct (rnbs inflate (S (length (bytes_from fb sp))) (bytes_from fb sp) sp sb)
      as [[[s2 p2] c1] r2] eqn:E2.
    destruct H2 as (<- & <- & <- & _ & Hpos).
    destruct r1 as [m| | | |]; try (injection Hk as _ Hk; discriminate).
    injection Hk as <-.
    unfold read_b at 2 4. cbn [s_src s_position s_blk].
    destruct (N.ltb_spec (k_cur sb) (k_len sb)); [lia|].
    rewrite (rnbs_srceq (S (length ss)) (S (length (bytes_from fb sp))) ss (bytes_from fb sp) sp sb Hs) by lia.
    rewrite E2.
    destruct (rnbs_ok_inv _ _ _ _ _ _ _ _ E1) as (_ & _ & H3).
    destruct (rnbs_ok_inv _ _ _ _ _ _ _ _ E2) as (_ & H4 & H5). specialize (H4 He).
    destruct H3 as [(-> & -> & _)|(Hm & Hb & _)].
    - (* clean end of input *)
      destruct H5 as [(_ & _ & Hc)|(Hbad & _)]; [|lia].
      cbn [N.eqb k_pos k_size k_len k_cur]. rewrite N.min_0_r.
      unfold read_b. cbn [s_src s_position s_blk k_pos k_size k_len k_cur N.ltb N.compare length rnbs].
      rewrite (read_frame_short []) by (cbn; lia).
      cbn [s_src s_position s_blk k_pos k_size k_len k_cur fst snd].
      assert (Hx : k_len c1 - k_cur c1 = 0) by (destruct Hc as [->|Hc]; lia).
      rewrite Hx, N.sub_diag, !N.min_0_r, !N.add_0_r. split; [reflexivity|].
      repeat split; cbn [s_src s_position s_blk]; [left; reflexivity|].
      right. unfold exh, bend in *. cbn [k_pos k_size k_len k_cur]. destruct Hc as [->|Hc]; lia.
    - (* a block with data: both readers have loaded the same block *)
      destruct (N.eqb_spec m 0) as [->|_]; [lia|].
      rewrite <- (Hpos m eq_refl Hm). rewrite Hb. cbn [k_pos k_size k_len k_cur].
      rewrite N.min_0_l. unfold read_b. cbn [s_src s_position s_blk k_pos k_size k_len k_cur].
      destruct (N.ltb_spec 0 m); [|lia]. cbn [fst snd]. split; [reflexivity|apply R_refl].
  Qed.

  (* THE SHIFT THEOREM (byte counts and told positions): s1 is any state reached without error
     from the start of the file; v the position told there *)
  Theorem seek_then_reads_as_from_start : forall fb ops v s s' ns,
    let s1 := state_b inflate fb (mkBst fb 0 (mkBlk 0 0 0 0)) ops in
    all_ok (hops_b inflate fb (mkBst fb 0 (mkBlk 0 0 0 0)) ops) ->
    blk_vpos (s_blk s1) = Ok v ->
    seek_b inflate fb s v = (s', Ok v) ->
    reads_b inflate s' ns = reads_b inflate s1 ns.
  Proof.
    intros fb ops v s s' ns s1 Hok Hv Hk.
    assert (HI : Inv fb s1) by (apply Inv_hops; [apply Inv_init|exact Hok]).
    destruct ns as [|n ns]; [reflexivity|]. cbn [reads_b].
    destruct (seek_told_read fb s1 v s s' n HI Hv Hk) as [Hx HR].
    destruct (read_b inflate s' n) as [t x]. destruct (read_b inflate s1 n) as [t1 y].
    cbn [fst snd] in *. subst y. destruct HR as (H1 & H2 & H3).
    rewrite (Rb_vpos _ _ H3). f_equal. apply R_reads. repeat split; assumption.
  Qed.

  (* inside a block the seek cannot fail *)
  Corollary seek_told_inside_block_succeeds : forall fb ops v s,
    let s1 := state_b inflate fb (mkBst fb 0 (mkBlk 0 0 0 0)) ops in
    all_ok (hops_b inflate fb (mkBst fb 0 (mkBlk 0 0 0 0)) ops) ->
    blk_vpos (s_blk s1) = Ok v -> 0 < vuncomp v ->
    seek_b inflate fb s v = (s1, Ok v).
  Proof.
    intros fb ops v s s1 Hok Hv Hu.
    assert (HI : Inv fb s1) by (apply Inv_hops; [apply Inv_init|exact Hok]).
    apply seek_restores_state; [exact HI|exact Hv|].
    unfold blk_vpos in Hv. destruct (N.ltb_spec (k_cur (s_blk s1)) (k_len (s_blk s1))); [assumption|].
    destruct (_ <=? MAX_COMPRESSED_POSITION); [|discriminate]. injection Hv as <-.
    rewrite vuncomp_pack in Hu by lia. lia.
  Qed.
End Shift.

(* ---- the correspondence-check entry (kind hshift) -------------------------------------------
   reader A: fresh over fb, the history ops1, the position told there, then the reads ns;
   reader B: fresh over the same bytes, the history mid (anything: errors, failed seeks), then
   seek(the position A told), then the same reads ns.
   Result: (rows of ops1, position told, rows of A's reads,
            seek result + position told after it + rows of B's reads) *)
Definition hshift_run (fb : list N) (ops1 mid : list bop) (ns : list N)
  : list (res N * res N) * res N * list (res N * res N)
    * option (res N * res N * list (res N * res N)) :=
  let s0 := mkBst fb 0 (mkBlk 0 0 0 0) in
  let h1 := hops_b Inflate.inflate fb s0 ops1 in
  let s1 := state_b Inflate.inflate fb s0 ops1 in
  let tv := blk_vpos (s_blk s1) in
  let rowsA := reads_b Inflate.inflate s1 ns in
  match tv with
  | Ok v =>
      let s := state_b Inflate.inflate fb s0 mid in
      let '(s', x) := seek_b Inflate.inflate fb s v in
      (h1, tv, rowsA, Some (x, blk_vpos (s_blk s'), reads_b Inflate.inflate s' ns))
  | _ => (h1, tv, rowsA, None)
  end.

(* what the harness asserts on the REAL reader's rows for every hshift case *)
Theorem hshift_run_shift : forall fb ops1 mid ns h1 v rowsA x t rowsB,
  hshift_run fb ops1 mid ns = (h1, Ok v, rowsA, Some (x, t, rowsB)) ->
  all_ok h1 -> x = Ok v -> rowsB = rowsA.
Proof.
  intros fb ops1 mid ns h1 v rowsA x t rowsB H Hok Hx. unfold hshift_run in H.
  destruct (blk_vpos (s_blk (state_b Inflate.inflate fb (mkBst fb 0 (mkBlk 0 0 0 0)) ops1))) as [v0| | | |] eqn:Ev;
    try (injection H as _ H _ _; discriminate).
  destruct (seek_b Inflate.inflate fb (state_b Inflate.inflate fb (mkBst fb 0 (mkBlk 0 0 0 0)) mid) v0)
    as [s' x0] eqn:Ek.
  injection H as <- <- <- <- _ <-. subst x0.
  exact (seek_then_reads_as_from_start Inflate.inflate fb ops1 v0 _ s' ns Hok Ev Ek).
Qed.

(* ... and when the told position is inside a block (in-block offset > 0) the seek succeeds *)
Theorem hshift_run_inside_block : forall fb ops1 mid ns h1 v rowsA x t rowsB,
  hshift_run fb ops1 mid ns = (h1, Ok v, rowsA, Some (x, t, rowsB)) ->
  all_ok h1 -> 0 < vuncomp v -> x = Ok v /\ t = Ok v.
Proof.
  intros fb ops1 mid ns h1 v rowsA x t rowsB H Hok Hu. unfold hshift_run in H.
  destruct (blk_vpos (s_blk (state_b Inflate.inflate fb (mkBst fb 0 (mkBlk 0 0 0 0)) ops1))) as [v0| | | |] eqn:Ev;
    try (injection H as _ H _ _; discriminate).
  destruct (seek_b Inflate.inflate fb (state_b Inflate.inflate fb (mkBst fb 0 (mkBlk 0 0 0 0)) mid) v0)
    as [s' x0] eqn:Ek.
  injection H as <- <- <- <- <- <-.
  rewrite (seek_told_inside_block_succeeds Inflate.inflate fb ops1 v0 _ Hok Ev Hu) in Ek.
  injection Ek as <- <-. split; [reflexivity|exact Ev].
Qed.
