(* Proofs about NV.Bgzf.Inflate: the concrete level-0 codec [deflate_stored] is inverted by the
   executable inflater, its size is |x| + 5 per stored block, and therefore the three DEFLATE
   premises of the C01 theorems (H_l0, H_rt, H_eof) hold for (deflate_l0, inflate) outright.
   Safety of [inflate_raw] on arbitrary input: the output never exceeds the limit, [inflate c n]
   returns exactly n bytes or None. *)
From Coq Require Import List Arith NArith Bool Lia ZifyBool ZifyNat ZifyN.
From NV Require Import Base.LE Bgzf.Frame Bgzf.FrameProofs Bgzf.Inflate.
Import ListNotations.
Open Scope N_scope.

Arguments N.to_nat : simpl never.
Arguments N.of_nat : simpl never.
Arguments N.add : simpl never.
Arguments N.mul : simpl never.
Arguments N.sub : simpl never.
Arguments N.modulo : simpl never.
Arguments N.div : simpl never.
Arguments N.leb : simpl never.
Arguments N.ltb : simpl never.
Arguments N.eqb : simpl never.

(* ---- the output buffer ---- *)

Lemma push_list_rev : forall l o, ob_rev (push_list l o) = rev l ++ ob_rev o.
Proof.
  induction l as [|b t IH]; intros o; cbn [push_list rev app]; [reflexivity|].
  rewrite IH. cbn [push ob_rev]. rewrite <- app_assoc. reflexivity.
Qed.

Lemma push_list_len : forall l o, ob_len (push_list l o) = ob_len o + lenN l.
Proof.
  induction l as [|b t IH]; intros o; cbn [push_list].
  - rewrite lenN_nil. lia.
  - rewrite IH. cbn [push ob_len]. rewrite lenN_cons. lia.
Qed.

Lemma push_list_app : forall a b o, push_list (a ++ b) o = push_list b (push_list a o).
Proof. induction a as [|x a IH]; intros b o; cbn [push_list app]; [reflexivity|apply IH]. Qed.

Lemma copy_match_len : forall n src o, ob_len (copy_match n src o) = ob_len o + N.of_nat n.
Proof.
  induction n as [|n IH]; intros src o; cbn [copy_match]; [lia|].
  rewrite IH. cbn [push ob_len]. lia.
Qed.

Lemma copy_match_rev_len : forall n src o,
  lenN (ob_rev o) = ob_len o -> lenN (ob_rev (copy_match n src o)) = ob_len (copy_match n src o).
Proof.
  induction n as [|n IH]; intros src o Ho; cbn [copy_match]; [exact Ho|].
  apply IH. cbn [push ob_rev ob_len]. rewrite lenN_cons. lia.
Qed.

Lemma push_list_rev_len : forall l o,
  lenN (ob_rev o) = ob_len o -> lenN (ob_rev (push_list l o)) = ob_len (push_list l o).
Proof.
  intros l o Ho. rewrite push_list_rev, push_list_len, lenN_app. unfold lenN at 1.
  rewrite rev_length. fold (lenN l). lia.
Qed.

(* ---- a stored block is read back ---- *)

Lemma le_dec_le16 : forall n, n <= 65535 -> le_dec [n mod 256; (n / 256) mod 256] = n.
Proof.
  intros n Hn. change [n mod 256; (n / 256) mod 256] with (le_bytes 2 n).
  apply le_dec_le_bytes. change (256 ^ N.of_nat 2) with 65536. lia.
Qed.

Lemma stored_ok : forall limit bits chunk tail o,
  lenN chunk <= 65535 -> ob_len o + lenN chunk <= limit ->
  stored limit (bits, le16 (lenN chunk) ++ le16 (MAX_STORED - lenN chunk) ++ chunk ++ tail) o
  = Some (([], tail), push_list chunk o).
Proof.
  intros limit bits chunk tail o Hc Hl. unfold stored, MAX_STORED, le16. cbn [snd le_bytes app].
  rewrite (le_dec_le16 (lenN chunk) Hc).
  rewrite (le_dec_le16 (65535 - lenN chunk)) by lia.
  cbv zeta.
  replace (lenN chunk + (65535 - lenN chunk)) with 65535 by lia.
  rewrite N.eqb_refl. cbn [negb].
  destruct (limit <? ob_len o + lenN chunk) eqn:E1; [lia|].
  rewrite to_nat_lenN.
  rewrite (firstn_app_exact N chunk tail (length chunk) eq_refl).
  rewrite (skipn_app_exact N chunk tail (length chunk) eq_refl).
  destruct (lenN chunk <? lenN chunk) eqn:E2; [lia|]. reflexivity.
Qed.

(* the three header bits of a stored block that starts on a byte boundary *)
Lemma blocks_stored_step : forall bf cf limit (fin : bool) rest o,
  blocks (S bf) cf limit ([], (if fin then 1 else 0) :: rest) o =
  match stored limit (bits_of 5 0, rest) o with
  | None => None
  | Some (s3, o3) => if fin then Some (s3, o3) else blocks bf cf limit s3 o3
  end.
Proof. intros bf cf limit fin rest o. destruct fin; reflexivity. Qed.

Lemma blocks_stored_final : forall bf cf limit rest o,
  blocks (S bf) cf limit ([], 1 :: rest) o =
  match stored limit (bits_of 5 0, rest) o with None => None | Some (s3, o3) => Some (s3, o3) end.
Proof. intros. exact (blocks_stored_step bf cf limit true rest o). Qed.

Lemma blocks_stored_more : forall bf cf limit rest o,
  blocks (S bf) cf limit ([], 0 :: rest) o =
  match stored limit (bits_of 5 0, rest) o with None => None | Some (s3, o3) => blocks bf cf limit s3 o3 end.
Proof. intros. exact (blocks_stored_step bf cf limit false rest o). Qed.

Lemma stored_block_app : forall fin chunk tail,
  stored_block fin chunk ++ tail =
  (if fin then 1 else 0) :: le16 (lenN chunk) ++ le16 (MAX_STORED - lenN chunk) ++ chunk ++ tail.
Proof.
  intros fin chunk tail. unfold stored_block. cbn [app]. rewrite <- !app_assoc. reflexivity.
Qed.

Lemma blocks_stored : forall f x bf cf limit o tail,
  (length x < f)%nat -> (length x < bf)%nat -> ob_len o + lenN x <= limit ->
  blocks bf cf limit ([], deflate_stored_aux f x ++ tail) o = Some (([], tail), push_list x o).
Proof.
  induction f as [|f IH]; intros x bf cf limit o tail Hf Hb Hl; [lia|].
  destruct bf as [|bf]; [lia|].
  cbn [deflate_stored_aux].
  destruct (lenN x <=? MAX_STORED) eqn:E; unfold MAX_STORED in E.
  - rewrite stored_block_app, blocks_stored_final.
    rewrite stored_ok by lia. reflexivity.
  - set (K := N.to_nat MAX_STORED).
    assert (HK : N.of_nat K = 65535) by (unfold K, MAX_STORED; lia).
    assert (Hx : (K < length x)%nat) by (unfold lenN in E; lia).
    assert (Hc : lenN (firstn K x) = 65535).
    { unfold lenN. rewrite firstn_length. lia. }
    assert (Hs : length (skipn K x) = (length x - K)%nat) by apply skipn_length.
    rewrite <- app_assoc, stored_block_app, blocks_stored_more.
    rewrite stored_ok by (unfold lenN in Hl |- *; rewrite firstn_length in *; lia).
    rewrite IH.
    + rewrite <- push_list_app, firstn_skipn. reflexivity.
    + lia.
    + lia.
    + rewrite push_list_len. unfold lenN in *. rewrite Hs. rewrite firstn_length in *. lia.
Qed.

(* ---- size of the level-0 stream: 5 bytes per stored block ---- *)

Lemma stored_block_len : forall fin chunk, lenN (stored_block fin chunk) = 5 + lenN chunk.
Proof.
  intros fin chunk. unfold stored_block, lenN. cbn [length].
  rewrite !app_length, !le16_length. lia.
Qed.

(* number of stored blocks: max 1 (ceil (|x| / 65535)) *)
Definition n_stored_blocks (n : N) : N := N.max 1 ((n + 65534) / 65535).

Lemma deflate_stored_aux_len : forall f x, (length x < f)%nat ->
  lenN (deflate_stored_aux f x) = lenN x + 5 * n_stored_blocks (lenN x).
Proof.
  induction f as [|f IH]; intros x Hf; [lia|].
  cbn [deflate_stored_aux].
  destruct (lenN x <=? MAX_STORED) eqn:E; unfold MAX_STORED in E.
  - rewrite stored_block_len. unfold n_stored_blocks.
    assert (H : (lenN x + 65534) / 65535 <= 1).
    { apply N.lt_succ_r. apply N.div_lt_upper_bound; lia. }
    lia.
  - set (K := N.to_nat MAX_STORED).
    assert (HK : N.of_nat K = 65535) by (unfold K, MAX_STORED; lia).
    assert (Hx : (K < length x)%nat) by (unfold lenN in E; lia).
    assert (Hc : lenN (firstn K x) = 65535).
    { unfold lenN. rewrite firstn_length. lia. }
    assert (Hs : lenN (skipn K x) = lenN x - 65535).
    { unfold lenN. rewrite skipn_length. lia. }
    rewrite lenN_app, stored_block_len, Hc, IH.
    2:{ rewrite skipn_length. lia. }
    rewrite Hs. unfold n_stored_blocks.
    assert (Hd : (lenN x + 65534) / 65535 = 1 + (lenN x - 65535 + 65534) / 65535).
    { replace (lenN x + 65534) with ((lenN x - 65535 + 65534) + 1 * 65535) by lia.
      rewrite N.div_add by discriminate. lia. }
    rewrite Hd.
    assert (H1 : 1 <= (lenN x - 65535 + 65534) / 65535).
    { apply N.div_le_lower_bound; lia. }
    lia.
Qed.

Theorem deflate_stored_length : forall x,
  lenN (deflate_stored x) = lenN x + 5 * n_stored_blocks (lenN x).
Proof. intros x. unfold deflate_stored. apply deflate_stored_aux_len. lia. Qed.

Theorem deflate_stored_empty : deflate_stored [] = [1; 0; 0; 255; 255].
Proof. reflexivity. Qed.

(* a staging buffer (<= 65495 bytes, indeed anything up to 65535) becomes one stored block *)
Theorem deflate_stored_single : forall x, lenN x <= 65535 ->
  deflate_stored x = stored_block true x /\ lenN (deflate_stored x) = lenN x + 5.
Proof.
  intros x Hx. unfold deflate_stored. cbn [deflate_stored_aux].
  destruct (lenN x <=? MAX_STORED) eqn:E; unfold MAX_STORED in E; [|lia].
  split; [reflexivity|]. rewrite stored_block_len. lia.
Qed.

(* ---- inflate inverts deflate_stored, for every x ---- *)

Theorem inflate_raw_stored : forall x limit, lenN x <= limit ->
  inflate_raw limit (deflate_stored x) = Some (x, []).
Proof.
  intros x limit Hl. unfold inflate_raw.
  pose proof (deflate_stored_length x) as Hlen.
  set (c := deflate_stored x) in *.
  assert (Hb : (length x < S (8 * length c))%nat) by (unfold lenN in Hlen; lia).
  assert (E : blocks (S (8 * length c)) (S (8 * length c)) limit ([], c) ob_empty
              = Some (([], []), push_list x ob_empty)).
  { replace c with (deflate_stored_aux (S (length x)) x ++ []) at 3 by (apply app_nil_r).
    apply blocks_stored; [lia|exact Hb|cbn [ob_empty ob_len]; lia]. }
  rewrite E. rewrite push_list_rev. cbn [ob_empty ob_rev snd].
  rewrite app_nil_r, rev_append_rev, app_nil_r, rev_involutive. reflexivity.
Qed.

Theorem inflate_stored_correct : forall x, inflate (deflate_stored x) (lenN x) = Some x.
Proof.
  intros x. unfold inflate. rewrite inflate_raw_stored by lia. rewrite N.eqb_refl. reflexivity.
Qed.

Theorem inflate_eof_cdata : inflate [3; 0] 0 = Some [].
Proof. vm_compute. reflexivity. Qed.

(* ---- safety on arbitrary input: the output respects the limit ---- *)

Definition ob_wf (o : outbuf) : Prop := lenN (ob_rev o) = ob_len o.

Lemma ob_wf_push : forall b o, ob_wf o -> ob_wf (push b o).
Proof. intros b o H. unfold ob_wf in *. cbn [push ob_rev ob_len]. rewrite lenN_cons. lia. Qed.

Lemma codes_bound : forall fuel limit lt dt s o s' o',
  ob_wf o -> ob_len o <= limit ->
  codes fuel limit lt dt s o = Some (s', o') -> ob_wf o' /\ ob_len o' <= limit.
Proof.
  induction fuel as [|f IH]; intros limit lt dt s o s' o' Hw Hl H; cbn [codes] in H; [discriminate|].
  destruct (hdecode lt s) as [[sym s1]|]; [|discriminate].
  destruct (sym <? 256) eqn:E1.
  { destruct (limit <=? ob_len o) eqn:E2; [discriminate|].
    apply IH in H; [exact H|apply ob_wf_push; exact Hw|cbn [push ob_len]; lia]. }
  destruct (sym =? 256) eqn:E2.
  { injection H as H1 H2. subst o'. split; assumption. }
  cbv zeta in H.
  destruct (29 <=? N.to_nat (sym - 257))%nat; [discriminate|].
  destruct (getbits _ s1) as [[e s2]|]; [|discriminate].
  destruct (hdecode dt s2) as [[ds s3]|]; [|discriminate].
  destruct (30 <=? N.to_nat ds)%nat; [discriminate|].
  destruct (getbits _ s3) as [[e2 s4]|]; [|discriminate].
  destruct (ob_len o <? _) eqn:E3; [discriminate|].
  destruct (limit <? _) eqn:E4; [discriminate|].
  apply IH in H; [exact H| |].
  - unfold ob_wf. apply copy_match_rev_len. exact Hw.
  - rewrite copy_match_len. lia.
Qed.

Lemma stored_bound : forall limit s o s' o',
  ob_wf o -> stored limit s o = Some (s', o') -> ob_wf o' /\ ob_len o' <= limit.
Proof.
  intros limit s o s' o' Hw H. unfold stored in H.
  destruct (snd s) as [|l0 [|l1 [|n0 [|n1 data]]]]; try discriminate.
  cbv zeta in H.
  destruct (negb _); [discriminate|].
  destruct (limit <? _) eqn:E1; [discriminate|].
  destruct (lenN _ <? _) eqn:E2; [discriminate|].
  injection H as H1 H2. subst o'. split.
  - unfold ob_wf. apply push_list_rev_len. exact Hw.
  - rewrite push_list_len. unfold lenN in *. rewrite firstn_length in *. cbn [le_dec] in *. lia.
Qed.

Lemma dynamic_bound : forall fuel limit s o s' o',
  ob_wf o -> ob_len o <= limit ->
  dynamic fuel limit s o = Some (s', o') -> ob_wf o' /\ ob_len o' <= limit.
Proof.
  intros fuel limit s o s' o' Hw Hl H. unfold dynamic in H.
  destruct (getbits 5 s) as [[a s1]|]; [|discriminate].
  destruct (getbits 5 s1) as [[b s2]|]; [|discriminate].
  destruct (getbits 4 s2) as [[c s3]|]; [|discriminate].
  cbv zeta in H.
  destruct (_ || _); [discriminate|].
  destruct (read_cl _ s3) as [[vals s4]|]; [|discriminate].
  destruct (negb _); [discriminate|].
  destruct (read_lens _ _ _ _ s4) as [[lens s5]|]; [|discriminate].
  destruct (Nat.eqb _ _); [discriminate|].
  destruct (_ || _); [discriminate|].
  exact (codes_bound _ _ _ _ _ _ _ _ Hw Hl H).
Qed.

Lemma blocks_bound : forall fuel cf limit s o s' o',
  ob_wf o -> ob_len o <= limit ->
  blocks fuel cf limit s o = Some (s', o') -> ob_wf o' /\ ob_len o' <= limit.
Proof.
  induction fuel as [|f IH]; intros cf limit s o s' o' Hw Hl H; cbn [blocks] in H; [discriminate|].
  destruct (getbit s) as [[fin s1]|]; [|discriminate].
  destruct (getbits 2 s1) as [[ty s2]|]; [|discriminate].
  cbv zeta in H.
  assert (Hr : forall r, r = (if ty =? 0 then stored limit s2 o
                              else if ty =? 1 then codes cf limit fixed_lt fixed_dt s2 o
                              else if ty =? 2 then dynamic cf limit s2 o else None) ->
               forall s3 o3, r = Some (s3, o3) -> ob_wf o3 /\ ob_len o3 <= limit).
  { intros r Hr s3 o3 Hs. subst r.
    destruct (ty =? 0); [exact (stored_bound _ _ _ _ _ Hw Hs)|].
    destruct (ty =? 1); [exact (codes_bound _ _ _ _ _ _ _ _ Hw Hl Hs)|].
    destruct (ty =? 2); [exact (dynamic_bound _ _ _ _ _ _ Hw Hl Hs)|discriminate]. }
  specialize (Hr _ eq_refl).
  destruct (if ty =? 0 then _ else _) as [[s3 o3]|]; [|discriminate].
  destruct (Hr s3 o3 eq_refl) as [Hw3 Hl3].
  destruct fin.
  - injection H as H1 H2. subst o'. split; assumption.
  - exact (IH _ _ _ _ _ _ Hw3 Hl3 H).
Qed.

(* the inflater never produces more than the limit it was given ... *)
Theorem inflate_raw_bounded : forall limit src out rest,
  inflate_raw limit src = Some (out, rest) -> lenN out <= limit.
Proof.
  intros limit src out rest H. unfold inflate_raw in H.
  destruct (blocks _ _ limit ([], src) ob_empty) as [[s o]|] eqn:E; [|discriminate].
  injection H as H1 H2. subst out.
  assert (Hw0 : ob_wf ob_empty) by reflexivity.
  assert (Hl0 : ob_len ob_empty <= limit) by (cbn [ob_empty ob_len]; lia).
  destruct (blocks_bound _ _ _ _ _ _ _ Hw0 Hl0 E) as [Hw Hl].
  unfold ob_wf in Hw. unfold lenN in *. rewrite rev_append_rev, app_nil_r, rev_length. lia.
Qed.

(* ... and [inflate c n] (the reader's decode into a buffer of ISIZE bytes) returns exactly n bytes
   or fails: a frame whose CDATA inflate to another length than ISIZE is never accepted *)
Theorem inflate_exact_length : forall c n d, inflate c n = Some d -> lenN d = n.
Proof.
  intros c n d H. unfold inflate in H.
  destruct (inflate_raw n c) as [[out rest]|]; [|discriminate].
  destruct (lenN out =? n) eqn:E; [|discriminate].
  injection H as H. subst d. lia.
Qed.


(* ---- the limit only cuts: with any other limit the inflater gives the same result when the
   output fits and None when it does not ---- *)

Definition relimit (F : N -> outbuf -> option (bitsrc * outbuf)) (o : outbuf) (s' : bitsrc) (o' : outbuf) : Prop :=
  ob_len o <= ob_len o' /\
  forall n, ob_len o <= n -> F n o = if ob_len o' <=? n then Some (s', o') else None.

Lemma codes_relimit : forall f L lt dt s o s' o',
  codes f L lt dt s o = Some (s', o') -> relimit (fun n => codes f n lt dt s) o s' o'.
Proof.
  induction f as [|f IH]; intros L lt dt s o s' o' H; cbn [codes] in H; [discriminate|].
  unfold relimit. cbn [codes].
  destruct (hdecode lt s) as [[sym s1]|]; [|discriminate].
  destruct (sym <? 256) eqn:E1.
  { destruct (L <=? ob_len o) eqn:E2; [discriminate|].
    apply IH in H. destruct H as [Hm Hn]. cbn [push ob_len] in Hm, Hn.
    split; [lia|]. intros n Hn0.
    destruct (n <=? ob_len o) eqn:E3.
    - destruct (ob_len o' <=? n) eqn:E4; [lia|reflexivity].
    - apply Hn. lia. }
  destruct (sym =? 256) eqn:E2.
  { injection H as H1 H2. subst o' s'. split; [lia|]. intros n Hn0.
    destruct (ob_len o <=? n) eqn:E3; [reflexivity|lia]. }
  cbv zeta in H |- *.
  destruct (29 <=? N.to_nat (sym - 257))%nat; [discriminate|].
  destruct (getbits _ s1) as [[e s2]|]; [|discriminate].
  destruct (hdecode dt s2) as [[ds s3]|]; [|discriminate].
  destruct (30 <=? N.to_nat ds)%nat; [discriminate|].
  destruct (getbits _ s3) as [[e2 s4]|]; [|discriminate].
  destruct (ob_len o <? _) eqn:E3; [discriminate|].
  destruct (L <? _) eqn:E4; [discriminate|].
  apply IH in H. destruct H as [Hm Hn]. rewrite copy_match_len in Hm, Hn.
  split; [lia|]. intros n Hn0.
  match goal with |- (if n <? ?a then _ else _) = _ => destruct (n <? a) eqn:E5 end.
  - destruct (ob_len o' <=? n) eqn:E6; [lia|reflexivity].
  - apply Hn. lia.
Qed.

Lemma stored_relimit : forall L s o s' o',
  stored L s o = Some (s', o') -> relimit (fun n => stored n s) o s' o'.
Proof.
  intros L s o s' o' H. unfold relimit, stored in *.
  destruct (snd s) as [|l0 [|l1 [|n0 [|n1 data]]]]; try discriminate.
  cbv zeta in H |- *.
  remember (le_dec [l0; l1]) as len eqn:Hlen. clear Hlen.
  destruct (negb _); [discriminate|].
  destruct (L <? _) eqn:E1; [discriminate|].
  destruct (lenN _ <? _) eqn:E2; [discriminate|].
  injection H as H1 H2. subst o' s'. rewrite push_list_len.
  assert (Hc : lenN (firstn (N.to_nat len) data) = len).
  { unfold lenN in *. rewrite firstn_length in *. lia. }
  rewrite Hc. split; [lia|]. intros n Hn0.
  destruct (n <? ob_len o + len) eqn:E3;
    destruct (ob_len o + len <=? n) eqn:E4; try lia; reflexivity.
Qed.

Lemma dynamic_relimit : forall f L s o s' o',
  dynamic f L s o = Some (s', o') -> relimit (fun n => dynamic f n s) o s' o'.
Proof.
  intros f L s o s' o' H. unfold relimit, dynamic in *.
  destruct (getbits 5 s) as [[a s1]|]; [|discriminate].
  destruct (getbits 5 s1) as [[b s2]|]; [|discriminate].
  destruct (getbits 4 s2) as [[c s3]|]; [|discriminate].
  cbv zeta in H |- *.
  destruct (_ || _); [discriminate|].
  destruct (read_cl _ s3) as [[vals s4]|]; [|discriminate].
  destruct (negb _); [discriminate|].
  destruct (read_lens _ _ _ _ s4) as [[lens s5]|]; [|discriminate].
  destruct (Nat.eqb _ _); [discriminate|].
  destruct (_ || _); [discriminate|].
  exact (codes_relimit _ _ _ _ _ _ _ _ H).
Qed.

Lemma blocks_relimit : forall f cf L s o s' o',
  blocks f cf L s o = Some (s', o') -> relimit (fun n => blocks f cf n s) o s' o'.
Proof.
  induction f as [|f IH]; intros cf L s o s' o' H; cbn [blocks] in H; [discriminate|].
  unfold relimit. cbn [blocks].
  destruct (getbit s) as [[fin s1]|]; [|discriminate].
  destruct (getbits 2 s1) as [[ty s2]|]; [|discriminate].
  cbv zeta in H |- *.
  set (B := fun n o0 => if ty =? 0 then stored n s2 o0
                        else if ty =? 1 then codes cf n fixed_lt fixed_dt s2 o0
                        else if ty =? 2 then dynamic cf n s2 o0 else None) in *.
  change (match B L o with
          | Some (s3, o3) => if fin then Some (s3, o3) else blocks f cf L s3 o3
          | None => None end = Some (s', o')) in H.
  change (ob_len o <= ob_len o' /\
          forall n, ob_len o <= n ->
            match B n o with
            | Some (s3, o3) => if fin then Some (s3, o3) else blocks f cf n s3 o3
            | None => None end = if ob_len o' <=? n then Some (s', o') else None).
  destruct (B L o) as [[s3 o3]|] eqn:EB; [|discriminate].
  assert (HB : relimit B o s3 o3).
  { unfold B in EB |- *.
    destruct (ty =? 0); [exact (stored_relimit _ _ _ _ _ EB)|].
    destruct (ty =? 1); [exact (codes_relimit _ _ _ _ _ _ _ _ EB)|].
    destruct (ty =? 2); [exact (dynamic_relimit _ _ _ _ _ _ EB)|discriminate]. }
  destruct HB as [Hm3 Hn3].
  destruct fin.
  - injection H as H1 H2. subst o' s'. split; [exact Hm3|]. intros n Hn0.
    rewrite (Hn3 n Hn0). destruct (ob_len o3 <=? n); reflexivity.
  - apply IH in H. destruct H as [Hm Hn]. split; [lia|]. intros n Hn0.
    rewrite (Hn3 n Hn0). destruct (ob_len o3 <=? n) eqn:E3.
    + apply Hn. lia.
    + destruct (ob_len o' <=? n) eqn:E4; [lia|reflexivity].
Qed.

(* if the stream inflates to [out] under some limit, then under ANY limit n the result is the same
   output when |out| <= n and failure otherwise *)
Theorem inflate_raw_relimit : forall L c out rest,
  inflate_raw L c = Some (out, rest) ->
  forall n, inflate_raw n c = if lenN out <=? n then Some (out, rest) else None.
Proof.
  intros L c out rest H n. unfold inflate_raw in *.
  destruct (blocks _ _ L ([], c) ob_empty) as [[s o]|] eqn:E; [|discriminate].
  injection H as H1 H2. subst out rest.
  assert (Hw0 : ob_wf ob_empty) by reflexivity.
  assert (Hl0 : ob_len ob_empty <= L) by (cbn [ob_empty ob_len]; lia).
  destruct (blocks_bound _ _ _ _ _ _ _ Hw0 Hl0 E) as [Hw _].
  destruct (blocks_relimit _ _ _ _ _ _ _ E) as [_ Hn].
  rewrite (Hn n) by (cbn [ob_empty ob_len]; lia).
  assert (Hlen : lenN (rev_append (ob_rev o) []) = ob_len o).
  { unfold ob_wf in Hw. unfold lenN in *. rewrite rev_append_rev, app_nil_r, rev_length. exact Hw. }
  rewrite Hlen. destruct (ob_len o <=? n); reflexivity.
Qed.

(* the reader's decode into a buffer of n bytes succeeds exactly when the stream inflates to n bytes *)
Theorem inflate_spec : forall L c out rest,
  inflate_raw L c = Some (out, rest) ->
  forall n, inflate c n = if lenN out =? n then Some out else None.
Proof.
  intros L c out rest H n. unfold inflate. rewrite (inflate_raw_relimit L c out rest H n).
  destruct (lenN out <=? n) eqn:E1; destruct (lenN out =? n) eqn:E2; try reflexivity; lia.
Qed.

(* and a stream that is malformed under a limit that was not reached is malformed under every limit
   that is not reached either: contrapositive form used by the reader theorem *)
Theorem inflate_some_raw : forall c n d,
  inflate c n = Some d -> exists rest, inflate_raw n c = Some (d, rest) /\ lenN d = n.
Proof.
  intros c n d H. unfold inflate in H.
  destruct (inflate_raw n c) as [[out rest]|]; [|discriminate].
  destruct (lenN out =? n) eqn:E; [|discriminate].
  injection H as H. subst out. exists rest. split; [reflexivity|lia].
Qed.

(* ---- the window trie is an implementation detail: it always holds the bytes of the output list,
   and a match copy is the list-level LZ77 copy (RFC 1951 3.2.3, overlapping allowed) ---- *)

Lemma pget_pset_same : forall p x t, pget p (pset p x t) = x.
Proof.
  induction p as [q IH|q IH|]; intros x t; destruct t as [|l v r]; cbn [pset pget]; try apply IH; reflexivity.
Qed.

Lemma pget_PE : forall p, pget p PE = 0.
Proof. intros p. destruct p; reflexivity. Qed.

Lemma pget_pset_other : forall p q x t, p <> q -> pget q (pset p x t) = pget q t.
Proof.
  induction p as [p IH|p IH|]; intros q x t Hpq; destruct t as [|l v r]; destruct q as [q|q|];
    cbn [pset pget]; try reflexivity; try congruence;
    try (rewrite IH by congruence; try rewrite pget_PE; reflexivity);
    try (rewrite pget_PE; reflexivity).
Qed.

(* the output as a list, oldest byte first *)
Definition ob_list (o : outbuf) : list N := rev (ob_rev o).

Definition win_ok (o : outbuf) : Prop :=
  ob_wf o /\ forall i, i < ob_len o -> ob_get i o = nth (N.to_nat i) (ob_list o) 0.

Lemma win_ok_empty : win_ok ob_empty.
Proof. split; [reflexivity|]. intros i Hi. cbn [ob_empty ob_len] in Hi. lia. Qed.

Lemma ob_list_push : forall b o, ob_list (push b o) = ob_list o ++ [b].
Proof. intros b o. reflexivity. Qed.

Lemma ob_list_length : forall o, ob_wf o -> length (ob_list o) = N.to_nat (ob_len o).
Proof.
  intros o Hw. unfold ob_list, ob_wf, lenN in *. rewrite rev_length. lia.
Qed.

Lemma win_ok_push : forall b o, win_ok o -> win_ok (push b o).
Proof.
  intros b o [Hw Hg]. split; [apply ob_wf_push; exact Hw|].
  intros i Hi. rewrite ob_list_push. unfold ob_get in *. cbn [push ob_len ob_win] in *.
  pose proof (ob_list_length o Hw) as Hlen.
  destruct (N.eq_dec i (ob_len o)) as [E|E].
  - subst i. rewrite pget_pset_same.
    rewrite app_nth2 by lia. replace (N.to_nat (ob_len o) - length (ob_list o))%nat with O by lia.
    reflexivity.
  - rewrite pget_pset_other.
    + rewrite app_nth1 by lia. apply Hg. lia.
    + intros Hc. apply E.
      assert (H1 : N.pos (N.succ_pos (ob_len o)) = N.pos (N.succ_pos i)) by (f_equal; exact Hc).
      rewrite !N.succ_pos_spec in H1. lia.
Qed.

Lemma win_ok_push_list : forall l o, win_ok o -> win_ok (push_list l o).
Proof.
  induction l as [|b t IH]; intros o H; cbn [push_list]; [exact H|]. apply IH. apply win_ok_push. exact H.
Qed.

Lemma ob_list_push_list : forall l o, ob_list (push_list l o) = ob_list o ++ l.
Proof.
  intros l o. unfold ob_list. rewrite push_list_rev, rev_app_distr, rev_involutive. reflexivity.
Qed.

(* LZ77 copy on lists: n bytes starting at position src, appended one at a time *)
Fixpoint lz_copy (n : nat) (src : nat) (l : list N) : list N :=
  match n with
  | O => l
  | S n' => lz_copy n' (S src) (l ++ [nth src l 0])
  end.

Lemma copy_match_spec : forall n src o, win_ok o -> src < ob_len o ->
  win_ok (copy_match n src o) /\
  ob_list (copy_match n src o) = lz_copy n (N.to_nat src) (ob_list o).
Proof.
  induction n as [|n IH]; intros src o Hok Hs; cbn [copy_match lz_copy]; [split; [exact Hok|reflexivity]|].
  destruct Hok as [Hw Hg].
  assert (Hok' : win_ok (push (ob_get src o) o)) by (apply win_ok_push; split; assumption).
  destruct (IH (src + 1) (push (ob_get src o) o) Hok') as [H1 H2].
  { cbn [push ob_len]. lia. }
  split; [exact H1|]. rewrite H2. rewrite ob_list_push. rewrite (Hg src Hs).
  replace (N.to_nat (src + 1)) with (S (N.to_nat src)) by lia. reflexivity.
Qed.

(* every output buffer the inflater reaches keeps the window consistent *)
Lemma codes_win_ok : forall fuel limit lt dt s o s' o',
  win_ok o -> codes fuel limit lt dt s o = Some (s', o') -> win_ok o'.
Proof.
  induction fuel as [|f IH]; intros limit lt dt s o s' o' Hw H; cbn [codes] in H; [discriminate|].
  destruct (hdecode lt s) as [[sym s1]|]; [|discriminate].
  destruct (sym <? 256) eqn:E1.
  { destruct (limit <=? ob_len o) eqn:E2; [discriminate|].
    apply IH in H; [exact H|apply win_ok_push; exact Hw]. }
  destruct (sym =? 256) eqn:E2.
  { injection H as H1 H2. subst o'. exact Hw. }
  cbv zeta in H.
  destruct (29 <=? N.to_nat (sym - 257))%nat; [discriminate|].
  destruct (getbits _ s1) as [[e s2]|]; [|discriminate].
  destruct (hdecode dt s2) as [[ds s3]|]; [|discriminate].
  destruct (30 <=? N.to_nat ds)%nat eqn:E30; [discriminate|].
  destruct (getbits _ s3) as [[e2 s4]|]; [|discriminate].
  destruct (ob_len o <? _) eqn:E3; [discriminate|].
  destruct (limit <? _) eqn:E4; [discriminate|].
  apply IH in H; [exact H|].
  set (dist := nth (N.to_nat ds) dist_base 0 + e2) in *.
  destruct (N.eq_dec dist 0) as [Ed|Ed].
  - (* a zero distance cannot come out of dist_base (all entries >= 1) *)
    exfalso. unfold dist in Ed.
    assert (Hb : 1 <= nth (N.to_nat ds) dist_base 0).
    { apply Nat.leb_gt in E30.
      assert (Hall : Forall (fun x => 1 <= x) dist_base) by (repeat constructor; discriminate).
      rewrite Forall_forall in Hall. apply Hall. apply nth_In.
      change (length dist_base) with 30%nat. lia. }
    lia.
  - apply copy_match_spec; [exact Hw|lia].
Qed.

Lemma stored_win_ok : forall limit s o s' o',
  win_ok o -> stored limit s o = Some (s', o') -> win_ok o'.
Proof.
  intros limit s o s' o' Hw H. unfold stored in H.
  destruct (snd s) as [|l0 [|l1 [|n0 [|n1 data]]]]; try discriminate.
  cbv zeta in H.
  destruct (negb _); [discriminate|].
  destruct (limit <? _); [discriminate|].
  destruct (lenN _ <? _); [discriminate|].
  injection H as H1 H2. subst o'. apply win_ok_push_list. exact Hw.
Qed.

Lemma dynamic_win_ok : forall fuel limit s o s' o',
  win_ok o -> dynamic fuel limit s o = Some (s', o') -> win_ok o'.
Proof.
  intros fuel limit s o s' o' Hw H. unfold dynamic in H.
  destruct (getbits 5 s) as [[a s1]|]; [|discriminate].
  destruct (getbits 5 s1) as [[b s2]|]; [|discriminate].
  destruct (getbits 4 s2) as [[c s3]|]; [|discriminate].
  cbv zeta in H.
  destruct (_ || _); [discriminate|].
  destruct (read_cl _ s3) as [[vals s4]|]; [|discriminate].
  destruct (negb _); [discriminate|].
  destruct (read_lens _ _ _ _ s4) as [[lens s5]|]; [|discriminate].
  destruct (Nat.eqb _ _); [discriminate|].
  destruct (_ || _); [discriminate|].
  exact (codes_win_ok _ _ _ _ _ _ _ _ Hw H).
Qed.

Lemma blocks_win_ok : forall fuel cf limit s o s' o',
  win_ok o -> blocks fuel cf limit s o = Some (s', o') -> win_ok o'.
Proof.
  induction fuel as [|f IH]; intros cf limit s o s' o' Hw H; cbn [blocks] in H; [discriminate|].
  destruct (getbit s) as [[fin s1]|]; [|discriminate].
  destruct (getbits 2 s1) as [[ty s2]|]; [|discriminate].
  cbv zeta in H.
  assert (Hr : forall r, r = (if ty =? 0 then stored limit s2 o
                              else if ty =? 1 then codes cf limit fixed_lt fixed_dt s2 o
                              else if ty =? 2 then dynamic cf limit s2 o else None) ->
               forall s3 o3, r = Some (s3, o3) -> win_ok o3).
  { intros r Hr s3 o3 Hs. subst r.
    destruct (ty =? 0); [exact (stored_win_ok _ _ _ _ _ Hw Hs)|].
    destruct (ty =? 1); [exact (codes_win_ok _ _ _ _ _ _ _ _ Hw Hs)|].
    destruct (ty =? 2); [exact (dynamic_win_ok _ _ _ _ _ _ Hw Hs)|discriminate]. }
  specialize (Hr _ eq_refl).
  destruct (if ty =? 0 then _ else _) as [[s3 o3]|]; [|discriminate].
  pose proof (Hr s3 o3 eq_refl) as Hw3.
  destruct fin.
  - injection H as H1 H2. subst o'. exact Hw3.
  - exact (IH _ _ _ _ _ _ Hw3 H).
Qed.

(* summary: in every state the inflater reaches from the empty buffer the trie holds exactly the
   output list, a literal appends one byte, a stored block appends its bytes, and a match of
   length n at distance d <= |out| appends the LZ77 copy of the list *)
Theorem window_faithful :
  win_ok ob_empty /\
  (forall b o, win_ok o -> win_ok (push b o) /\ ob_list (push b o) = ob_list o ++ [b]) /\
  (forall l o, win_ok o -> win_ok (push_list l o) /\ ob_list (push_list l o) = ob_list o ++ l) /\
  (forall n dist o, win_ok o -> 1 <= dist -> dist <= ob_len o ->
     win_ok (copy_match n (ob_len o - dist) o) /\
     ob_list (copy_match n (ob_len o - dist) o)
       = lz_copy n (length (ob_list o) - N.to_nat dist) (ob_list o)) /\
  (forall fuel cf limit s s' o', blocks fuel cf limit s ob_empty = Some (s', o') -> win_ok o').
Proof.
  split; [exact win_ok_empty|].
  split; [intros b o H; split; [exact (win_ok_push b o H)|exact (ob_list_push b o)]|].
  split; [intros l o H; split; [exact (win_ok_push_list l o H)|exact (ob_list_push_list l o)]|].
  split.
  - intros n dist o H Hd1 Hd2.
    destruct (copy_match_spec n (ob_len o - dist) o H) as [H1 H2]; [lia|].
    split; [exact H1|]. rewrite H2. rewrite (ob_list_length o (proj1 H)).
    replace (N.to_nat (ob_len o - dist)) with (N.to_nat (ob_len o) - N.to_nat dist)%nat by lia.
    reflexivity.
  - intros fuel cf limit s s' o' H. exact (blocks_win_ok _ _ _ _ _ _ _ win_ok_empty H).
Qed.
