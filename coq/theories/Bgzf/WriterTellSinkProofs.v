(* C02, writer over a failing destination: whatever the fault script does to the calls in between,
   if the file finally left behind holds exactly [position] bytes (no partial frame was ever left
   in it), every position the writer told - also right after a call that returned Err - names in
   that file the next byte taken.

   Invariant FI st items j: position = the length of the frames completely emitted (items), the
   sink holds position + j bytes (j = bytes of partial frames left by failed calls, never
   shrinking), and when j = 0 the sink IS those frames.  The evolution relation T of
   WriterTellProofs (staging is a prefix of the next frame) is reused unchanged. *)
From Coq Require Import List Arith NArith Bool Lia ZifyBool ZifyNat ZifyN.
From NV Require Import Base.LE Bgzf.Crc32 Bgzf.Crc32Proofs.
From NV Require Bgzf.Vpos Bgzf.VposProofs Bgzf.Gzi Bgzf.ReaderOps Bgzf.FlatRef Bgzf.ReaderOpsProofs
  Bgzf.ReaderTellProofs Sinks.Sink Sinks.SinkProofs Sinks.LayerProofs.
From NV Require Import Bgzf.Frame Bgzf.FrameProofs Bgzf.Writer Bgzf.Reader Bgzf.ReaderProofs
  Bgzf.WriterProofs Bgzf.WriterTell Bgzf.WriterTellProofs Bgzf.WriterTellSink.
Import ListNotations.
Open Scope N_scope.

(* ---- the sink: what a write_all / a chain of write_all calls leaves behind ----------------- *)

Lemma wa_bytes : forall buf s r s', Sink.write_all buf s = (r, s') ->
  r <> Sink.OutOfFuel /\ (forall e, r = Sink.Err e -> e <> Sink.e_interrupted) /\
  exists p, Sink.sbytes s' = Sink.sbytes s ++ p /\ (r = Sink.Ok -> p = buf).
Proof.
  intros buf s r s' H. pose proof (SinkProofs.write_all_good buf s) as G. rewrite H in G.
  destruct r as [|e|].
  - destruct G as [Hb _]. split; [discriminate|]. split; [intros e He; discriminate|].
    exists buf. split; [exact Hb | reflexivity].
  - destruct G as (p & c & Hb & _). split; [discriminate|].
    split; [intros e' He'; inversion He'; subst e'; eapply SinkProofs.write_all_err_not_interrupted; exact H|].
    exists p. split; [exact Hb | discriminate].
  - contradiction.
Qed.

Definition is_cwrite (c : Sink.call) : Prop := match c with Sink.CWrite _ => True | Sink.CFlush => False end.

Lemma rc_bytes : forall cs s r s', Forall is_cwrite cs -> Sink.run_calls cs s = (r, s') ->
  r <> Sink.OutOfFuel /\ (forall e, r = Sink.Err e -> e <> Sink.e_interrupted) /\
  exists p, Sink.sbytes s' = Sink.sbytes s ++ p /\ (r = Sink.Ok -> p = Sink.calls_out cs).
Proof.
  induction cs as [|c cs IH]; intros s r s' Hall H.
  - cbn in H. inversion H; subst. split; [discriminate|]. split; [intros e He; discriminate|].
    exists []. split; [rewrite app_nil_r; reflexivity | reflexivity].
  - inversion Hall as [|? ? Hc Hcs]; subst. destruct c as [buf|]; [|contradiction].
    cbn [Sink.run_calls Sink.run_call] in H.
    destruct (Sink.write_all buf s) as [r1 s1] eqn:E1.
    destruct (wa_bytes _ _ _ _ E1) as (Hnf & Hni & p1 & Hb1 & Hp1).
    destruct r1 as [|e|].
    + destruct (IH _ _ _ Hcs H) as (Hnf2 & Hni2 & p2 & Hb2 & Hp2).
      split; [exact Hnf2|]. split; [exact Hni2|].
      exists (p1 ++ p2). split; [rewrite Hb2, Hb1, app_assoc; reflexivity|].
      intros Hr. unfold Sink.calls_out. cbn [map concat Sink.call_out].
      rewrite (Hp1 eq_refl), (Hp2 Hr). reflexivity.
    + inversion H; subst. split; [discriminate|]. split; [exact Hni|].
      exists p1. split; [exact Hb1 | discriminate].
    + exfalso. apply Hnf. reflexivity.
Qed.

Definition nint {A : Type} (r : fres A) : Prop := forall e, r = FErr e -> e <> Sink.e_interrupted.

Lemma nint_ok : forall (A : Type) (a : A), nint (FOk a).
Proof. intros A a e H. discriminate. Qed.

Lemma nint_err : forall (A B : Type) e, @nint A (FErr e) -> @nint B (FErr e).
Proof. intros A B e H e' He'. inversion He'; subst e'. exact (H e eq_refl). Qed.

Lemma hdr_calls_cwrite : Forall is_cwrite hdr_calls.
Proof. unfold hdr_calls. repeat constructor. Qed.

Lemma f_write_frame_spec : forall cdata crc isize s r s',
  lenN cdata <= 65510 -> isize <= 65536 ->
  f_write_frame cdata crc isize s = (r, s') ->
  r <> FPanic /\ nint r /\
  exists p, Sink.sbytes s' = Sink.sbytes s ++ p /\
            (forall bs, r = FOk bs -> bs = 26 + lenN cdata /\ p = frame_bytes cdata crc isize).
Proof.
  intros cdata crc isize s r s' Hc Hi H. unfold f_write_frame in H.
  unfold BGZF_HEADER_SIZE, TRAILER_SIZE in H.
  destruct (Sink.run_calls hdr_calls s) as [r1 s1] eqn:E1.
  destruct (rc_bytes _ _ _ _ hdr_calls_cwrite E1) as (Hnf1 & Hni1 & p1 & Hb1 & Hp1).
  destruct r1 as [|e|]; [| |exfalso; apply Hnf1; reflexivity].
  2:{ inversion H; subst. split; [discriminate|].
      split; [intros e' He'; inversion He'; subst e'; exact (Hni1 _ eq_refl)|].
      exists p1. split; [exact Hb1 | intros bs Hbs; discriminate]. }
  destruct (N.leb_spec (18 + lenN cdata + 8 - 1) 65535) as [_|Hbad]; [|lia].
  match type of H with context [Sink.run_calls ?cs s1] => set (cs2 := cs) in * end.
  assert (Hall2 : Forall is_cwrite cs2) by (unfold cs2; repeat constructor).
  destruct (Sink.run_calls cs2 s1) as [r2 s2] eqn:E2.
  destruct (rc_bytes _ _ _ _ Hall2 E2) as (Hnf2 & Hni2 & p2 & Hb2 & Hp2).
  destruct r2 as [|e|]; [| |exfalso; apply Hnf2; reflexivity].
  2:{ inversion H; subst. split; [discriminate|].
      split; [intros e' He'; inversion He'; subst e'; exact (Hni2 _ eq_refl)|].
      exists (p1 ++ p2). split; [rewrite Hb2, Hb1, app_assoc; reflexivity | intros bs Hbs; discriminate]. }
  destruct (N.leb_spec isize 4294967295) as [_|Hbad]; [|lia].
  destruct (Sink.write_all (le32 isize) s2) as [r3 s3] eqn:E3.
  destruct (wa_bytes _ _ _ _ E3) as (Hnf3 & Hni3 & p3 & Hb3 & Hp3).
  destruct r3 as [|e|]; [| |exfalso; apply Hnf3; reflexivity].
  2:{ inversion H; subst. split; [discriminate|].
      split; [intros e' He'; inversion He'; subst e'; exact (Hni3 _ eq_refl)|].
      exists (p1 ++ p2 ++ p3). split; [rewrite Hb3, Hb2, Hb1, !app_assoc; reflexivity | intros bs Hbs; discriminate]. }
  inversion H; subst. split; [discriminate|]. split; [apply nint_ok|].
  exists (p1 ++ p2 ++ p3). split; [rewrite Hb3, Hb2, Hb1, !app_assoc; reflexivity|].
  intros bs Hbs. inversion Hbs; subst bs. split; [lia|].
  rewrite (Hp1 eq_refl), (Hp2 eq_refl), (Hp3 eq_refl). unfold cs2, frame_bytes, Sink.calls_out.
  cbn [map concat Sink.call_out]. unfold BGZF_HEADER_SIZE, TRAILER_SIZE.
  change (concat (map Sink.call_out hdr_calls)) with header_prefix.
  rewrite app_nil_r, <- !app_assoc. reflexivity.
Qed.

(* ---- the invariant -------------------------------------------------------------------------- *)

Definition ws (st : fstate) : wstate :=
  mk_wstate (f_pos st) (f_stg st) (Sink.sbytes (f_snk st)) true (f_fin st).

Definition FI (st : fstate) (items : list item) (j : N) : Prop :=
  Forall witem items /\ f_pos st = lenN (frames_bytes items) /\ lenN (f_stg st) <= MAX_BUF_SIZE /\
  lenN (Sink.sbytes (f_snk st)) = f_pos st + j /\
  (j = 0 -> Sink.sbytes (f_snk st) = frames_bytes items).

Lemma T_same : forall a b items, w_staging a = w_staging b -> T a items b items [].
Proof.
  intros a b items E. split.
  - exists []. split; [symmetry; apply app_nil_r|]. intros Q HQ. cbn [app]. rewrite E. exact HQ.
  - unfold cont. rewrite E, app_nil_r. reflexivity.
Qed.

Section P.
  Variable deflate : N -> list N -> list N.
  Variable fxe : bool.
  Variable lvl : N.
  Hypothesis H_l0 : forall x, lenN x <= MAX_BUF_SIZE -> lenN (deflate 0 x) <= MAX_COMPRESSED_SIZE.

  (* what every call establishes: no panic, never Err(Interrupted), the invariant again with at
     least as much junk, and the evolution relation for the bytes taken *)
  Definition post (st : fstate) (items : list item) (j : N) (st' : fstate) (tk : list N) : Prop :=
    exists items' j', FI st' items' j' /\ j <= j' /\ T (ws st) items (ws st') items' tk.

  Lemma f_flush_block_fi : forall st items j st' r, FI st items j ->
    f_flush_block deflate lvl st = (st', r) ->
    r <> FPanic /\ nint r /\ post st items j st' [] /\
    (r = FOk tt -> f_stg st' = []).
  Proof.
    intros [pos stg snk fin] items j st' r (Hw & Hp & Hl & Hs & Hj) H.
    cbn [f_pos f_stg f_snk f_fin] in *. unfold f_flush_block in H. cbn [f_pos f_stg f_snk f_fin] in H.
    rewrite (encode_ok deflate lvl H_l0 stg Hl) in H.
    pose proof (enc_bound deflate lvl H_l0 stg Hl) as Hc.
    pose proof (witem_wframe deflate lvl H_l0 stg Hl) as Hwi.
    destruct (f_write_frame (enc deflate lvl stg) (crc32 stg) (lenN stg) snk) as [r1 s1] eqn:E.
    unfold MAX_BUF_SIZE, MAX_COMPRESSED_SIZE in *.
    assert (Hi : lenN stg <= 65536) by lia.
    destruct (f_write_frame_spec _ _ _ _ _ _ Hc Hi E) as (Hnp & Hni & p & Hb & Hok).
    destruct r1 as [bs|e|]; [| |exfalso; apply Hnp; reflexivity].
    - destruct (Hok bs eq_refl) as [Ebs Ep]. inversion H; subst st' r. clear H.
      split; [discriminate|]. split; [apply nint_ok|]. split; [|reflexivity].
      exists (items ++ [wframe deflate lvl stg]), j. split; [|split; [lia|]].
      + unfold FI. cbn [f_pos f_stg f_snk f_fin]. split; [|split; [|split; [|split]]].
        * apply Forall_app. split; [exact Hw | constructor; [exact Hwi | constructor]].
        * rewrite frames_bytes_app, frames_bytes_one, lenN_app. unfold fbytes, wframe. cbn [fst snd].
          rewrite frame_bytes_lenN. lia.
        * rewrite lenN_nil. unfold MAX_BUF_SIZE. lia.
        * rewrite Hb, lenN_app, Ep, frame_bytes_lenN. lia.
        * intros Ej. rewrite Hb, (Hj Ej), frames_bytes_app, frames_bytes_one, Ep. reflexivity.
      + unfold ws. cbn [f_pos f_stg f_snk f_fin]. split.
        * eexists. split; [reflexivity|]. intros Q _. right.
          exists (wframe deflate lvl stg), Q, []. split; [reflexivity|].
          unfold wframe. cbn [fst w_staging]. symmetry. apply app_nil_r.
        * unfold cont. cbn [w_staging]. rewrite data_of_app. unfold data_of at 2, wframe.
          cbn [map concat fst]. rewrite !app_nil_r. reflexivity.
    - inversion H; subst st' r. clear H. split; [discriminate|]. split; [eapply nint_err; exact Hni|].
      split; [|discriminate].
      exists items, (j + lenN p). split; [|split; [lia|]].
      + unfold FI. cbn [f_pos f_stg f_snk f_fin]. split; [exact Hw|]. split; [exact Hp|].
        split; [unfold MAX_BUF_SIZE; exact Hl|]. split; [rewrite Hb, lenN_app; lia|].
        intros Ej. assert (Ep : p = []) by (apply lenN_0; lia).
        rewrite Hb, Ep, app_nil_r. apply Hj. lia.
      + apply T_same. reflexivity.
  Qed.

  Lemma post_refl : forall st items j, FI st items j -> post st items j st [].
  Proof. intros st items j H. exists items, j. split; [exact H|]. split; [lia | apply T_refl]. Qed.

  Lemma post_trans : forall a ia ja b c x y ib jb,
    FI b ib jb -> ja <= jb -> T (ws a) ia (ws b) ib x -> post b ib jb c y -> post a ia ja c (x ++ y).
  Proof.
    intros a ia ja b c x y ib jb _ Hj HT (ic & jc & HF & Hj2 & HT2).
    exists ic, jc. split; [exact HF|]. split; [lia | eapply T_trans; eassumption].
  Qed.

  Lemma f_flush_fi : forall st items j st' r, FI st items j ->
    f_flush deflate lvl st = (st', r) ->
    r <> FPanic /\ nint r /\ post st items j st' [] /\
    (r = FOk tt -> f_stg st' = []).
  Proof.
    intros st items j st' r HF H. unfold f_flush in H. destruct (f_stg st) as [|x stg] eqn:Es.
    - inversion H; subst st' r. split; [discriminate|]. split; [apply nint_ok|].
      split; [apply post_refl; exact HF | intros _; exact Es].
    - eapply f_flush_block_fi; eassumption.
  Qed.

  Lemma f_write_fi : forall st items j buf st' r tk, FI st items j ->
    f_write deflate lvl st buf = (st', r, tk) ->
    r <> FPanic /\ nint r /\ post st items j st' tk /\
    tk = firstn (N.to_nat (N.min (MAX_BUF_SIZE - lenN (f_stg st)) (lenN buf))) buf /\
    (forall amt, r = FOk amt -> amt = N.min (MAX_BUF_SIZE - lenN (f_stg st)) (lenN buf)).
  Proof.
    intros st items j buf st' r tk HF H. pose proof HF as (Hw & Hp & Hl & Hs & Hj).
    unfold f_write in H. destruct (N.ltb_spec MAX_BUF_SIZE (lenN (f_stg st))) as [Hbad|_]; [lia|].
    set (amt := N.min (MAX_BUF_SIZE - lenN (f_stg st)) (lenN buf)) in *.
    set (st1 := mkF (f_pos st) (f_stg st ++ firstn (N.to_nat amt) buf) (f_snk st) (f_fin st)) in *.
    assert (Hlen1 : lenN (f_stg st1) = lenN (f_stg st) + amt).
    { unfold st1. cbn [f_stg]. rewrite lenN_app, lenN_firstn' by lia. reflexivity. }
    assert (HF1 : FI st1 items j).
    { unfold FI, st1. cbn [f_pos f_stg f_snk]. fold st1. unfold st1 in Hlen1. cbn [f_stg] in Hlen1.
      repeat split; try assumption. lia. }
    assert (HT1 : T (ws st) items (ws st1) items (firstn (N.to_nat amt) buf)).
    { split.
      - exists []. split; [symmetry; apply app_nil_r|]. intros Q HQ. cbn [app].
        unfold ws, st1 in HQ. cbn [w_staging f_stg] in HQ. unfold ws. cbn [w_staging].
        eapply ext_ok_prefix. exact HQ.
      - unfold cont, ws, st1. cbn [w_staging f_stg]. rewrite app_assoc. reflexivity. }
    destruct (lenN (f_stg st1) <? MAX_BUF_SIZE) eqn:E1.
    - inversion H; subst st' r tk. split; [discriminate|]. split; [apply nint_ok|].
      split; [|split; [reflexivity | intros a Ha; inversion Ha; reflexivity]].
      exists items, j. split; [exact HF1|]. split; [lia | exact HT1].
    - destruct (f_flush deflate lvl st1) as [st2 r2] eqn:Ef.
      destruct (f_flush_fi _ _ _ _ _ HF1 Ef) as (Hnp & Hni & Hpost & _).
      assert (Hpo : post st items j st2 (firstn (N.to_nat amt) buf)).
      { rewrite <- (app_nil_r (firstn (N.to_nat amt) buf)).
        eapply post_trans; [exact HF1 | lia | exact HT1 | exact Hpost]. }
      destruct r2 as [u|e|]; inversion H; subst st' r tk.
      + split; [discriminate|]. split; [apply nint_ok|].
        split; [exact Hpo|]. split; [reflexivity | intros a Ha; inversion Ha; reflexivity].
      + split; [discriminate|]. split; [eapply nint_err; exact Hni|].
        split; [exact Hpo|]. split; [reflexivity | intros a Ha; discriminate].
      + exfalso. apply Hnp. reflexivity.
  Qed.

  Lemma f_write_all_fi : forall fuel buf st items j st' r tk, (length buf < fuel)%nat ->
    FI st items j -> f_write_all deflate lvl fuel st buf = (st', r, tk) ->
    r <> FPanic /\ post st items j st' tk.
  Proof.
    induction fuel as [|fuel IH]; intros buf st items j st' r tk Hfuel HF H; [lia|].
    destruct buf as [|x buf'].
    - cbn [f_write_all] in H. inversion H; subst. split; [discriminate | apply post_refl; exact HF].
    - cbn [f_write_all] in H. remember (x :: buf') as buf eqn:Eb.
      destruct (f_write deflate lvl st buf) as [[st1 r1] tk1] eqn:Ew.
      destruct (f_write_fi _ _ _ _ _ _ _ HF Ew) as (Hnp & Hni & Hpost & Etk & Hamt).
      destruct r1 as [amt|e|]; [| |exfalso; apply Hnp; reflexivity].
      + destruct (N.eqb_spec amt 0) as [E0|E0].
        * inversion H; subst. split; [discriminate | exact Hpost].
        * destruct (f_write_all deflate lvl fuel st1 (skipn (N.to_nat amt) buf)) as [[st2 r2] tk2] eqn:Er.
          inversion H; subst st' r tk. clear H.
          pose proof (Hamt amt eq_refl) as Ea.
          destruct Hpost as (i1 & j1 & HF1 & Hj1 & HT1).
          assert (Hsk : (length (skipn (N.to_nat amt) buf) < fuel)%nat).
          { rewrite skipn_length. unfold lenN in Ea. lia. }
          destruct (IH _ _ _ _ _ _ _ Hsk HF1 Er) as (Hnp2 & Hpost2).
          split; [exact Hnp2|]. eapply post_trans; [exact HF1 | exact Hj1 | exact HT1 | exact Hpost2].
      + destruct (N.eqb_spec e Sink.e_interrupted) as [Ei|Ei]; [exfalso; exact (Hni _ eq_refl Ei)|].
        inversion H; subst. split; [discriminate | exact Hpost].
  Qed.

  Lemma f_try_finish_fi : forall st items j st' r, FI st items j ->
    f_try_finish deflate fxe lvl st = (st', r) -> fxe = true \/ r = FOk tt ->
    r <> FPanic /\ post st items j st' [] /\ (r = FOk tt -> f_stg st' = []).
  Proof.
    intros st items j st' r HF H Hx. unfold f_try_finish in H.
    destruct (f_flush deflate lvl st) as [st1 r1] eqn:Ef.
    destruct (f_flush_fi _ _ _ _ _ HF Ef) as (Hnp & _ & Hpost & Hst).
    destruct r1 as [u|e|]; [| |exfalso; apply Hnp; reflexivity].
    2:{ inversion H; subst. split; [discriminate|]. split; [exact Hpost | discriminate]. }
    destruct u. specialize (Hst eq_refl).
    destruct (f_fin st1).
    { inversion H; subst. split; [discriminate|]. split; [exact Hpost | intros _; exact Hst]. }
    destruct Hpost as (i1 & j1 & HF1 & Hj1 & HT1). pose proof HF1 as (Hw & Hp & Hl & Hs & Hj).
    destruct (Sink.write_all eof_block (f_snk st1)) as [r2 s2] eqn:E2.
    destruct (wa_bytes _ _ _ _ E2) as (Hnf & _ & p & Hb & Hpp).
    destruct r2 as [|e|]; [| |exfalso; apply Hnf; reflexivity].
    - inversion H; subst st' r. clear H. split; [discriminate|]. split; [|intros _; exact Hst].
      rewrite <- (app_nil_r []). eapply post_trans; [exact HF1 | exact Hj1 | exact HT1|].
      exists (i1 ++ [eof_item]), j1. split; [|split; [lia|]].
      + unfold FI. cbn [f_pos f_stg f_snk]. rewrite (Hpp eq_refl) in Hb.
        split; [|split; [|split; [|split]]].
        * apply Forall_app. split; [exact Hw|]. constructor; [|constructor].
          unfold witem, eof_item. cbn [fst snd]. unfold lenN. cbn [length]. lia.
        * rewrite frames_bytes_app, frames_bytes_one, lenN_app. unfold eof_item. rewrite fbytes_eof, Hp. reflexivity.
        * exact Hl.
        * rewrite Hb, lenN_app, Hs. change (lenN eof_block) with 28. lia.
        * intros Ej. rewrite Hb, (Hj Ej), frames_bytes_app, frames_bytes_one. unfold eof_item. rewrite fbytes_eof. reflexivity.
      + unfold ws. cbn [f_pos f_stg f_snk f_fin]. split.
        * eexists. split; [reflexivity|]. intros Q _. left. cbn [w_staging]. exact Hst.
        * unfold cont. cbn [w_staging]. rewrite data_of_app. unfold data_of at 2, eof_item.
          cbn [map concat fst app]. rewrite !app_nil_r. reflexivity.
    - inversion H; subst st' r. clear H. destruct Hx as [Hx|Hx]; [|discriminate]. subst fxe.
      split; [discriminate|]. split; [|discriminate].
      rewrite <- (app_nil_r []). eapply post_trans; [exact HF1 | exact Hj1 | exact HT1|].
      exists i1, (j1 + lenN p). split; [|split; [lia|]].
      + unfold FI. cbn [f_pos f_stg f_snk]. split; [exact Hw|]. split; [exact Hp|]. split; [exact Hl|].
        split; [rewrite Hb, lenN_app; lia|].
        intros Ej. assert (Ep : p = []) by (apply lenN_0; lia).
        rewrite Hb, Ep, app_nil_r. apply Hj. lia.
      + apply T_same. reflexivity.
  Qed.

  Definition not_tf (o : op) : Prop := o <> OTryFinish.

  Lemma f_step_fi : forall st items j o st' r tk, FI st items j ->
    fxe = true \/ not_tf o ->
    f_step deflate fxe lvl st o = (st', r, tk) -> r <> FPanic /\ post st items j st' tk.
  Proof.
    intros st items j o st' r tk HF Hx H. destruct o as [buf|buf| |]; cbn [f_step] in H.
    - destruct (f_write deflate lvl st buf) as [[st1 r1] tk1] eqn:E.
      destruct (f_write_fi _ _ _ _ _ _ _ HF E) as (Hnp & _ & Hpost & _).
      destruct r1; inversion H; subst; (split; [first [discriminate | exfalso; apply Hnp; reflexivity] | exact Hpost]).
    - destruct (f_write_all deflate lvl (S (S (length buf))) st buf) as [[st1 r1] tk1] eqn:E.
      assert (Hfu : (length buf < S (S (length buf)))%nat) by lia.
      destruct (f_write_all_fi _ _ _ _ _ _ _ _ Hfu HF E) as (Hnp & Hpost).
      destruct r1; inversion H; subst; (split; [first [discriminate | exfalso; apply Hnp; reflexivity] | exact Hpost]).
    - destruct (f_flush deflate lvl st) as [st1 r1] eqn:E.
      destruct (f_flush_fi _ _ _ _ _ HF E) as (Hnp & _ & Hpost & _).
      destruct r1; inversion H; subst; (split; [first [discriminate | exfalso; apply Hnp; reflexivity] | exact Hpost]).
    - destruct Hx as [Hx|Hx]; [|exfalso; apply Hx; reflexivity].
      destruct (f_try_finish deflate fxe lvl st) as [st1 r1] eqn:E.
      destruct (f_try_finish_fi _ _ _ _ _ HF E (or_introl Hx)) as (Hnp & Hpost & _).
      destruct r1; inversion H; subst; (split; [first [discriminate | exfalso; apply Hnp; reflexivity] | exact Hpost]).
  Qed.

  Lemma f_run_ops_fi : forall ops st items j st' obs tk p, FI st items j ->
    fxe = true \/ Forall not_tf ops ->
    f_run_ops deflate fxe lvl st ops = (st', obs, tk, p) -> p = false /\ post st items j st' tk.
  Proof.
    induction ops as [|o ops IH]; intros st items j st' obs tk p HF Hx H.
    - cbn [f_run_ops] in H. inversion H; subst. split; [reflexivity | apply post_refl; exact HF].
    - cbn [f_run_ops] in H.
      destruct (f_step deflate fxe lvl st o) as [[st1 r1] tk1] eqn:Es.
      assert (Hx1 : fxe = true \/ not_tf o).
      { destruct Hx as [Hx|Hx]; [left; exact Hx | right; inversion Hx; assumption]. }
      assert (Hx2 : fxe = true \/ Forall not_tf ops).
      { destruct Hx as [Hx|Hx]; [left; exact Hx | right; inversion Hx; assumption]. }
      destruct (f_step_fi _ _ _ _ _ _ _ HF Hx1 Es) as (Hnp & (i1 & j1 & HF1 & Hj1 & HT1)).
      destruct (f_run_ops deflate fxe lvl st1 ops) as [[[st2 obs2] tk2] p2] eqn:Er.
      destruct (IH _ _ _ _ _ _ _ HF1 Hx2 Er) as (Hp2 & Hpost2).
      destruct r1 as [v|e|]; [| |exfalso; apply Hnp; reflexivity]; inversion H; subst;
        (split; [reflexivity | eapply post_trans; [exact HF1 | exact Hj1 | exact HT1 | exact Hpost2]]).
  Qed.

  Lemma f_end_fi : forall fin st items j stf, FI st items j ->
    f_end deflate fxe lvl fin st = (stf, FOk tt) -> post st items j stf [] /\ f_stg stf = [].
  Proof.
    intros fin st items j stf HF H. unfold f_end in H. destruct fin.
    - destruct (f_try_finish deflate fxe lvl st) as [st1 r1] eqn:E.
      destruct r1 as [u|e|]; [|discriminate|discriminate]. destruct u. inversion H; subst st1.
      destruct (f_try_finish_fi _ _ _ _ _ HF E (or_intror eq_refl)) as (_ & Hpost & Hst).
      split; [exact Hpost | apply Hst; reflexivity].
    - destruct (f_flush_fi _ _ _ _ _ HF H) as (_ & _ & Hpost & Hst).
      split; [exact Hpost | apply Hst; reflexivity].
  Qed.

  Lemma FI_init : forall script, FI (f_init script) [] 0.
  Proof.
    intros script. unfold FI, f_init, MAX_BUF_SIZE. cbn [f_pos f_stg f_snk Sink.sbytes].
    split; [constructor|]. split; [reflexivity|]. split; [unfold lenN; cbn [length]; lia|].
    split; [reflexivity | intros _; reflexivity].
  Qed.

  (* c02_writer_tell_failing_sink *)
  Theorem writer_tell_sink : forall script ops1 ops2 fin n st1 obs1 D1 p1 st2 obs2 D2 p2 stf,
    fxe = true \/ Forall not_tf (ops1 ++ ops2) ->
    f_run_ops deflate fxe lvl (f_init script) ops1 = (st1, obs1, D1, p1) ->
    f_run_ops deflate fxe lvl st1 ops2 = (st2, obs2, D2, p2) ->
    f_end deflate fxe lvl fin st2 = (stf, FOk tt) ->
    let sb := Sink.sbytes (f_snk stf) in
    lenN sb = f_pos stf ->
    let D := D1 ++ D2 in
    let F := sink_file (S (length sb)) sb D in
    lenN sb <= MAX_COMPRESSED_POSITION -> 0 < n ->
    p1 = false /\ p2 = false /\
    exists v, f_vpos st1 = Ok v /\
      snd (ReaderOps.seek true F (ReaderOps.init F) v) = Vpos.Ok v /\
      snd (ReaderOps.read_all true (fst (ReaderOps.seek true F (ReaderOps.init F) v)) n)
        = Vpos.Ok (skipn (length D1) D).
  Proof.
    intros script ops1 ops2 fin n st1 obs1 D1 p1 st2 obs2 D2 p2 stf Hx Hr1 Hr2 He sb Hclean D F Hmax Hn.
    assert (Hx1 : fxe = true \/ Forall not_tf ops1).
    { destruct Hx as [Hx|Hx]; [left; exact Hx | right; apply Forall_app in Hx; tauto]. }
    assert (Hx2 : fxe = true \/ Forall not_tf ops2).
    { destruct Hx as [Hx|Hx]; [left; exact Hx | right; apply Forall_app in Hx; tauto]. }
    destruct (f_run_ops_fi _ _ _ _ _ _ _ _ (FI_init script) Hx1 Hr1) as (Hp1 & (i1 & j1 & HF1 & _ & HT1)).
    destruct (f_run_ops_fi _ _ _ _ _ _ _ _ HF1 Hx2 Hr2) as (Hp2 & (i2 & j2 & HF2 & Hj2 & HT2)).
    destruct (f_end_fi _ _ _ _ _ HF2 He) as ((itemsf & jf & HFf & Hjf & HTf) & Hstf).
    split; [exact Hp1|]. split; [exact Hp2|].
    pose proof HFf as (Hwf & Hpf & _ & Hsf & Hjf0).
    assert (Ejf : jf = 0) by (fold sb in Hsf; lia).
    specialize (Hjf0 Ejf). fold sb in Hjf0.
    pose proof (T_trans _ _ _ _ _ _ _ _ HT2 HTf) as HT. rewrite app_nil_r in HT.
    destruct HT as [(M & EM & XM) CM].
    assert (Hstf' : w_staging (ws stf) = []) by exact Hstf.
    specialize (XM [] (or_introl Hstf')). rewrite app_nil_r in XM.
    destruct HT1 as [_ C1]. unfold cont at 2 in C1. cbn [ws f_init f_stg w_staging data_of map concat app] in C1.
    assert (HD : data_of itemsf = D).
    { unfold D. rewrite <- C1, <- CM. unfold cont. rewrite Hstf', app_nil_r. reflexivity. }
    assert (HF : F = file_of itemsf).
    { unfold F. rewrite <- HD, Hjf0. apply sink_file_spec; [exact Hwf|].
      apply le_n_S. exact (frames_bytes_length_ge itemsf). }
    assert (HwM : Forall witem M) by (rewrite EM in Hwf; apply Forall_app in Hwf; tauto).
    (* the told position only depends on position and staging: look at st1 over the sink it would
       have without junk *)
    pose proof HF1 as (Hw1 & Hp1' & Hl1 & _ & _).
    set (w1 := mk_wstate (f_pos st1) (f_stg st1) (frames_bytes i1) true (f_fin st1)).
    assert (HW1 : WI w1 i1).
    { unfold WI, w1. cbn [w_sink w_pos w_staging]. repeat split; assumption. }
    assert (Hpos1 : w_pos w1 <= MAX_COMPRESSED_POSITION).
    { unfold w1. cbn [w_pos]. rewrite Hp1'. rewrite Hjf0, EM, frames_bytes_app, lenN_app in Hmax. lia. }
    destruct (told_denotes deflate H_l0 w1 i1 M HW1 HwM XM Hpos1) as (v & Hv & Hden).
    assert (Ec : cont w1 i1 = cont (ws st1) i1) by reflexivity.
    rewrite Ec, <- EM, <- HF, C1 in Hden.
    exists v. split; [exact Hv|].
    assert (HwfF : ReaderOpsProofs.wf F) by (rewrite HF; apply wf_file_of; exact Hwf).
    assert (HmaxF : FlatRef.total_csize F <= Vpos.MAX_COMPRESSED_POSITION).
    { rewrite HF, csize_file_of, <- Hjf0, max_pos_eq. exact Hmax. }
    destruct (ReaderTellProofs.seek_then_read_to_end F [] v _ n HwfF HmaxF (Forall_nil _) Hden Hn)
      as (Hsk & Hrd & _).
    cbn [ReaderOps.run_state] in Hsk, Hrd.
    split; [exact Hsk|]. rewrite Hrd. f_equal.
    rewrite to_nat_lenN, HF, chunks_file_of, HD. reflexivity.
  Qed.
End P.

(* ---- the pinned try_finish (fxe = false): position += 28 although no EOF block was written ---- *)

(* a destination that refuses the first write once (nothing accepted), then accepts everything:
   try_finish() -> Err, write_all [1;2;3] -> Ok, finish() -> Ok.  The file left behind is exactly
   one data frame + the EOF block, no call left a partial frame, yet the position told before the
   write_all (28, 0) lies inside the data frame: the reader model cannot seek there, and
   position() = 85 for a file of 57 bytes.  With fxe = true the same history tells (0, 0). *)
Definition rf_deflate (l : N) (x : list N) : list N := x.
Definition rf_script : list Sink.fault := [Sink.Fail 5].

Definition rf_run (fxe : bool) :=
  let '(st1, obs1, d1, p1) := f_run_ops rf_deflate fxe 1 (f_init rf_script) [OTryFinish] in
  let '(st2, obs2, d2, p2) := f_run_ops rf_deflate fxe 1 st1 [OWriteAll [1; 2; 3]] in
  let '(stf, rf) := f_end rf_deflate fxe 1 true st2 in
  let sb := Sink.sbytes (f_snk stf) in
  let F := sink_file (S (length sb)) sb (d1 ++ d2) in
  (map (fun o : fobs => (fst (fst o), snd o)) obs1, p1, map (fun o : fobs => fst (fst o)) obs2, p2, rf,
   list_eqb sb (frames_bytes [([1; 2; 3], [1; 2; 3]); eof_item]),
   f_vpos st1,
   match f_vpos st1 with
   | Ok v => snd (ReaderOps.seek true F (ReaderOps.init F) v)
   | _ => Vpos.Panic
   end,
   f_pos stf, lenN sb).

(* results of the three calls / the failed call left 0 bytes in the sink / the final sink is exactly
   frame + EOF block / position told before the write_all / seeking there / position(), length *)
Lemma writer_tell_sink_pinned_refuted :
  rf_run false =
  ([(FErr 5, 0)], false, [FOk None], false, FOk tt, true,
   Ok (28 * 65536), Vpos.Unmodelled, 85, 57).
Proof. vm_compute. reflexivity. Qed.

Lemma writer_tell_sink_repaired_example :
  rf_run true =
  ([(FErr 5, 0)], false, [FOk None], false, FOk tt, true,
   Ok 0, Vpos.Ok 0, 57, 57).
Proof. vm_compute. reflexivity. Qed.
