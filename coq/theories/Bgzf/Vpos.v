(* Model of noodles-bgzf/src/virtual_position.rs: a virtual position is a u64 holding
   (compressed offset < 2^48) << 16 | (in-block offset < 2^16).
   Also the small outcome type used by the C02 reader model. *)
From Coq Require Import List NArith.
Import ListNotations.
Open Scope N_scope.

(* canonical image of io::ErrorKind (messages are never compared) *)
Inductive err := UnexpectedEof | InvalidData | InvalidInput.

(* Ok / io::Error / a Rust panic / loop fuel exhausted (proved unreachable) /
   behaviour outside the model's domain (seek into the middle of a frame) *)
Inductive res (A : Type) : Type :=
| Ok (a : A) | Err (e : err) | Panic | OutOfFuel | Unmodelled.
Arguments Ok {A} a.
Arguments Err {A} e.
Arguments Panic {A}.
Arguments OutOfFuel {A}.
Arguments Unmodelled {A}.

Definition MAX_COMPRESSED_POSITION : N := 2 ^ 48 - 1.
Definition MAX_UNCOMPRESSED_POSITION : N := 65535.

(* (compressed_pos << 16) | uncompressed_pos *)
Definition pack (c u : N) : N := N.lor (N.shiftl c 16) u.
(* VirtualPosition::compressed / ::uncompressed *)
Definition vcomp (v : N) : N := N.shiftr v 16.
Definition vuncomp (v : N) : N := N.land v 65535.
Definition unpack (v : N) : N * N := (vcomp v, vuncomp v).

(* VirtualPosition::new / TryFrom<(u64, u16)>: the u16 argument is < 2^16 by its type *)
Definition vpos_try_from (c u : N) : option N :=
  if c <=? MAX_COMPRESSED_POSITION then Some (pack c u) else None.

(* lexicographic order on (compressed, uncompressed) pairs *)
Definition lex_lt (a b : N * N) : Prop :=
  fst a < fst b \/ (fst a = fst b /\ snd a < snd b).

(* Ord on VirtualPosition is Ord on the u64: 0 = Less, 1 = Equal, 2 = Greater *)
Definition vpos_cmp (a b : N) : N :=
  match a ?= b with Lt => 0 | Eq => 1 | Gt => 2 end.
