(* Model of noodles-bgzf/src/gzi/index.rs: Index(Vec<(compressed, uncompressed)>) and
   Index::query.  slice::partition_point is modelled as the length of the longest prefix
   satisfying the predicate, which is what the binary search returns on a partitioned
   (here: sorted by uncompressed offset) slice. *)
From Coq Require Import List NArith.
From NV Require Import Bgzf.Vpos.
Import ListNotations.
Open Scope N_scope.

Definition gzi_index := list (N * N).

Fixpoint partition_point {A : Type} (p : A -> bool) (l : list A) : nat :=
  match l with
  | [] => O
  | x :: r => if p x then S (partition_point p r) else O
  end.

Definition gzi_entry (idx : gzi_index) (pos : N) : N * N :=
  match partition_point (fun r => snd r <=? pos) idx with
  | O => (0, 0)
  | S j => nth j idx (0, 0)
  end.

(* u16::try_from(pos - uncompressed_pos) -> InvalidData; VirtualPosition::try_from -> InvalidData.
   pos - uncompressed_pos cannot underflow: the selected entry satisfies the predicate. *)
Definition gzi_query (idx : gzi_index) (pos : N) : res N :=
  let '(c, u) := gzi_entry idx pos in
  let d := pos - u in
  if 65536 <=? d then Err InvalidData
  else match vpos_try_from c d with
       | Some v => Ok v
       | None => Err InvalidData
       end.
