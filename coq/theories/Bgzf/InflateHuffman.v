(* The Huffman trees of the inflater realise the canonical code of RFC 1951 3.2.2: read from left
   to right, the leaves of [mk_tree lens] are the symbols with a non-zero length in (length, symbol)
   order, each at the depth given by its length, packed to the left (no gap before a leaf); and
   [hdecode] follows the path of a symbol through the bits of the input (MSB of the code first,
   bits taken LSB-first from the bytes). *)
From Coq Require Import List Arith NArith Bool Lia ZifyBool ZifyNat ZifyN Sorted.
From NV Require Import Base.LE Bgzf.Frame Bgzf.Inflate.
Import ListNotations.
Open Scope N_scope.

(* ---- the input as a bit string ---- *)

Definition bits_all (s : bitsrc) : list bool := fst s ++ flat_map (bits_of 8) (snd s).

Lemma getbit_spec : forall s,
  match getbit s with
  | None => bits_all s = []
  | Some (b, s') => bits_all s = b :: bits_all s'
  end.
Proof.
  intros [bs rest]. unfold getbit, bits_all. cbn [fst snd].
  destruct bs as [|b bs]; [|reflexivity].
  destruct rest as [|x r]; reflexivity.
Qed.

(* ---- paths ---- *)

(* the code of a symbol = the path from the root to its leaf: false = 0 = left *)
Inductive path_to : htree -> list bool -> N -> Prop :=
| path_leaf : forall x, path_to (HLeaf x) [] x
| path_left : forall l r p x, path_to l p x -> path_to (HNode l r) (false :: p) x
| path_right : forall l r p x, path_to r p x -> path_to (HNode l r) (true :: p) x.

Lemma hdecode_path : forall t p x, path_to t p x ->
  forall s rest, bits_all s = p ++ rest ->
  exists s', hdecode t s = Some (x, s') /\ bits_all s' = rest.
Proof.
  induction 1 as [x|l r p x Hp IH|l r p x Hp IH]; intros s rest Hs; cbn [hdecode].
  - exists s. split; [reflexivity|exact Hs].
  - pose proof (getbit_spec s) as Hg. destruct (getbit s) as [[b s1]|].
    + rewrite Hs in Hg. cbn [app] in Hg. injection Hg as Hb Hr. subst b. apply IH. symmetry. exact Hr.
    + rewrite Hs in Hg. discriminate.
  - pose proof (getbit_spec s) as Hg. destruct (getbit s) as [[b s1]|].
    + rewrite Hs in Hg. cbn [app] in Hg. injection Hg as Hb Hr. subst b. apply IH. symmetry. exact Hr.
    + rewrite Hs in Hg. discriminate.
Qed.

(* conversely, what hdecode returns is a leaf reached by the bits it consumed *)
Lemma hdecode_sound : forall t s x s', hdecode t s = Some (x, s') ->
  exists p, path_to t p x /\ bits_all s = p ++ bits_all s'.
Proof.
  induction t as [|y|l IHl r IHr]; intros s x s' H; cbn [hdecode] in H.
  - discriminate.
  - injection H as H1 H2. subst y s'. exists []. split; [constructor|reflexivity].
  - pose proof (getbit_spec s) as Hg. destruct (getbit s) as [[b s1]|]; [|discriminate].
    destruct b.
    + destruct (IHr _ _ _ H) as [p [Hp Hb]]. exists (true :: p). split; [constructor; exact Hp|].
      rewrite Hg, Hb. reflexivity.
    + destruct (IHl _ _ _ H) as [p [Hp Hb]]. exists (false :: p). split; [constructor; exact Hp|].
      rewrite Hg, Hb. reflexivity.
Qed.

(* prefix-freeness is built in: a symbol's path determines the symbol *)
Lemma path_to_functional : forall t p x y, path_to t p x -> path_to t p y -> x = y.
Proof.
  intros t p x y H. revert y. induction H; intros y Hy; inversion Hy; subst; auto.
Qed.

(* ---- canonical shape ---- *)

(* leaves from left to right with their depth *)
Fixpoint leaves (d : nat) (t : htree) : list (nat * N) :=
  match t with
  | HEmpty => []
  | HLeaf x => [(d, x)]
  | HNode a b => leaves (S d) a ++ leaves (S d) b
  end.

Definition lens_sorted (l : list (nat * N)) : Prop :=
  StronglySorted (fun p q => (fst p <= fst q)%nat) l.

Lemma lens_sorted_app_r : forall a b, lens_sorted (a ++ b) -> lens_sorted b.
Proof.
  induction a as [|x xs IH]; intros b H; [exact H|].
  cbn [app] in H. inversion H; subst. apply IH. assumption.
Qed.

(* hbuild consumes a prefix of the sorted list, placing each (len, sym) at depth len, in order *)
Lemma hbuild_leaves : forall f d l t rest,
  lens_sorted l -> (forall p, In p l -> (d <= fst p)%nat) ->
  hbuild f d l = (t, rest) -> leaves d t ++ rest = l.
Proof.
  induction f as [|f IH]; intros d l t rest Hs Hd H; cbn [hbuild] in H.
  - injection H as H1 H2. subst t rest. reflexivity.
  - destruct l as [|[len sym] tl].
    + injection H as H1 H2. subst t rest. reflexivity.
    + destruct (len <=? d)%nat eqn:E.
      * injection H as H1 H2. subst t rest. apply Nat.leb_le in E.
        specialize (Hd (len, sym) (or_introl eq_refl)). cbn [fst] in Hd.
        assert (len = d) by lia. subst len. reflexivity.
      * apply Nat.leb_gt in E.
        destruct (hbuild f (S d) ((len, sym) :: tl)) as [a l1] eqn:Ea.
        destruct (hbuild f (S d) l1) as [b l2] eqn:Eb.
        injection H as H1 H2. subst t rest.
        assert (Hd1 : forall p, In p ((len, sym) :: tl) -> (S d <= fst p)%nat).
        { intros p Hp. destruct Hp as [Hp|Hp].
          - subst p. cbn [fst]. lia.
          - inversion Hs as [|? ? Hs' Hall]; subst. rewrite Forall_forall in Hall.
            specialize (Hall p Hp). cbn [fst] in Hall. lia. }
        pose proof (IH _ _ _ _ Hs Hd1 Ea) as Hla.
        assert (Hs1 : lens_sorted l1).
        { rewrite <- Hla in Hs. exact (lens_sorted_app_r _ _ Hs). }
        assert (Hd2 : forall p, In p l1 -> (S d <= fst p)%nat).
        { intros p Hp. apply Hd1. rewrite <- Hla. apply in_or_app. right. exact Hp. }
        pose proof (IH _ _ _ _ Hs1 Hd2 Eb) as Hlb.
        cbn [leaves]. rewrite <- app_assoc, Hlb, Hla. reflexivity.
Qed.

(* with enough fuel for the longest code, a missing subtree means the list was exhausted: the code
   is packed to the left (everything to the right of a gap is empty) *)
Lemma hbuild_incomplete_rest : forall f d l t rest,
  lens_sorted l -> (forall p, In p l -> (d <= fst p < d + f)%nat) ->
  hbuild f d l = (t, rest) -> hcomplete t = false -> rest = [].
Proof.
  induction f as [|f IH]; intros d l t rest Hs Hb H Hc; cbn [hbuild] in H.
  - injection H as H1 H2. subst t rest. destruct l as [|p tl]; [reflexivity|].
    specialize (Hb p (or_introl eq_refl)). lia.
  - destruct l as [|[len sym] tl].
    + injection H as H1 H2. subst t rest. reflexivity.
    + destruct (len <=? d)%nat eqn:E.
      * injection H as H1 H2. subst t rest. discriminate.
      * apply Nat.leb_gt in E.
        destruct (hbuild f (S d) ((len, sym) :: tl)) as [a l1] eqn:Ea.
        destruct (hbuild f (S d) l1) as [b l2] eqn:Eb.
        injection H as H1 H2. subst t rest. cbn [hcomplete] in Hc.
        assert (Hb1 : forall p, In p ((len, sym) :: tl) -> (S d <= fst p < S d + f)%nat).
        { intros p Hp. pose proof (Hb p Hp) as Hq. split; [|lia]. destruct Hp as [Hp|Hp].
          - subst p. cbn [fst]. lia.
          - inversion Hs as [|? ? Hs' Hall]; subst. rewrite Forall_forall in Hall.
            specialize (Hall p Hp). cbn [fst] in Hall. lia. }
        assert (Hd1 : forall p, In p ((len, sym) :: tl) -> (S d <= fst p)%nat).
        { intros p Hp. apply Hb1. exact Hp. }
        pose proof (hbuild_leaves _ _ _ _ _ Hs Hd1 Ea) as Hla.
        assert (Hs1 : lens_sorted l1).
        { rewrite <- Hla in Hs. exact (lens_sorted_app_r _ _ Hs). }
        assert (Hb2 : forall p, In p l1 -> (S d <= fst p < S d + f)%nat).
        { intros p Hp. apply Hb1. rewrite <- Hla. apply in_or_app. right. exact Hp. }
        destruct (hcomplete a) eqn:Eca.
        -- cbn [andb] in Hc. exact (IH _ _ _ _ Hs1 Hb2 Eb Hc).
        -- pose proof (IH _ _ _ _ Hs Hb1 Ea Eca) as Hl1. subst l1.
           destruct f; cbn [hbuild] in Eb; injection Eb as H1 H2; subst; reflexivity.
Qed.

(* ---- the symbols of mk_tree ---- *)

Lemma lens_sorted_app : forall a b, lens_sorted a -> lens_sorted b ->
  (forall x y, In x a -> In y b -> (fst x <= fst y)%nat) -> lens_sorted (a ++ b).
Proof.
  induction a as [|x xs IH]; intros b Ha Hb Hab; [exact Hb|].
  cbn [app]. inversion Ha as [|? ? Ha' Hall]; subst. constructor.
  - apply IH; [exact Ha'|exact Hb|]. intros u v Hu Hv. apply Hab; [right; exact Hu|exact Hv].
  - apply Forall_app. split; [exact Hall|]. rewrite Forall_forall. intros y Hy.
    apply Hab; [left; reflexivity|exact Hy].
Qed.

Lemma const_key_sorted : forall d l, (forall p, In p l -> fst p = d) -> lens_sorted l.
Proof.
  induction l as [|x xs IH]; intros H; [constructor|]. constructor.
  - apply IH. intros p Hp. apply H. right. exact Hp.
  - rewrite Forall_forall. intros y Hy. rewrite (H x (or_introl eq_refl)), (H y (or_intror Hy)). lia.
Qed.

Lemma flat_filter_sorted : forall (ix : list (nat * N)) ds lo,
  StronglySorted lt ds -> (forall d, In d ds -> (lo <= d)%nat) ->
  lens_sorted (flat_map (fun d => filter (fun p => Nat.eqb (fst p) d) ix) ds) /\
  (forall p, In p (flat_map (fun d => filter (fun p => Nat.eqb (fst p) d) ix) ds) -> (lo <= fst p)%nat).
Proof.
  intros ix. induction ds as [|d ds IH]; intros lo Hs Hlo; cbn [flat_map].
  - split; [constructor|intros p []].
  - inversion Hs as [|? ? Hs' Hall]; subst. rewrite Forall_forall in Hall.
    destruct (IH (S d) Hs') as [IH1 IH2].
    { intros e He. specialize (Hall e He). lia. }
    assert (Hf : forall p, In p (filter (fun p => Nat.eqb (fst p) d) ix) -> fst p = d).
    { intros p Hp. apply filter_In in Hp. destruct Hp as [_ He]. apply Nat.eqb_eq in He. exact He. }
    split.
    + apply lens_sorted_app; [exact (const_key_sorted d _ Hf)|exact IH1|].
      intros x y Hx Hy. rewrite (Hf x Hx). specialize (IH2 y Hy). lia.
    + intros p Hp. apply in_app_or in Hp. destruct Hp as [Hp|Hp].
      * rewrite (Hf p Hp). apply Hlo. left. reflexivity.
      * specialize (IH2 p Hp). specialize (Hlo d (or_introl eq_refl)). lia.
Qed.

Lemma seq_sorted : forall n a, StronglySorted lt (seq a n).
Proof.
  induction n as [|n IH]; intros a; cbn [seq]; constructor; [apply IH|].
  rewrite Forall_forall. intros x Hx. apply in_seq in Hx. lia.
Qed.

Lemma sorted_syms_props : forall lens,
  lens_sorted (sorted_syms lens) /\ (forall p, In p (sorted_syms lens) -> (1 <= fst p < 16)%nat).
Proof.
  intros lens. unfold sorted_syms.
  destruct (flat_filter_sorted (index_from 0 lens) (seq 1 15) 1 (seq_sorted 15 1)) as [H1 H2].
  { intros d Hd. apply in_seq in Hd. lia. }
  split; [exact H1|]. intros p Hp. split; [exact (H2 p Hp)|].
  apply in_flat_map in Hp. destruct Hp as [d [Hd Hp]]. apply filter_In in Hp.
  destruct Hp as [_ He]. apply Nat.eqb_eq in He. apply in_seq in Hd. lia.
Qed.

(* THE CANONICAL CODE.  For every list of code lengths: the leaves of the tree, left to right, followed
   by the symbols that did not fit, are the symbols with a non-zero length in (length, symbol)
   order, each leaf at the depth of its length; if nothing is left over (not over-subscribed) the
   leaves are all of them; and a gap (incomplete code) is never followed by a leaf. *)
Theorem mk_tree_canonical : forall lens,
  leaves 0 (fst (mk_tree lens)) ++ snd (mk_tree lens) = sorted_syms lens /\
  (snd (mk_tree lens) = [] -> leaves 0 (fst (mk_tree lens)) = sorted_syms lens) /\
  (hcomplete (fst (mk_tree lens)) = false -> snd (mk_tree lens) = []).
Proof.
  intros lens. unfold mk_tree. destruct (sorted_syms_props lens) as [Hs Hb].
  destruct (hbuild 16 0 (sorted_syms lens)) as [t rest] eqn:E. cbn [fst snd].
  assert (Hl : leaves 0 t ++ rest = sorted_syms lens).
  { apply (hbuild_leaves 16 0 _ _ _ Hs); [|exact E]. intros p Hp. lia. }
  split; [exact Hl|]. split.
  - intros Hr. subst rest. rewrite app_nil_r in Hl. exact Hl.
  - apply (hbuild_incomplete_rest 16 0 _ _ _ Hs); [|exact E].
    intros p Hp. specialize (Hb p Hp). lia.
Qed.

(* decoding: if the upcoming bits of the input are the path of a leaf, hdecode returns that symbol
   and consumes exactly those bits; conversely whatever hdecode returns is the leaf at the end of the
   bits it consumed; paths determine symbols (prefix code) *)
Theorem hdecode_correct :
  (forall t p x, path_to t p x -> forall s rest, bits_all s = p ++ rest ->
     exists s', hdecode t s = Some (x, s') /\ bits_all s' = rest) /\
  (forall t s x s', hdecode t s = Some (x, s') ->
     exists p, path_to t p x /\ bits_all s = p ++ bits_all s') /\
  (forall t p x y, path_to t p x -> path_to t p y -> x = y).
Proof. split; [exact hdecode_path|]. split; [exact hdecode_sound|exact path_to_functional]. Qed.

(* a leaf listed at depth d has a path of d bits *)
Lemma leaves_path : forall t d n x, In (n, x) (leaves d t) ->
  exists p, path_to t p x /\ (d + length p = n)%nat.
Proof.
  induction t as [|y|a IHa b IHb]; intros d n x H; cbn [leaves] in H.
  - destruct H.
  - destruct H as [H|[]]. injection H as H1 H2. subst. exists []. split; [constructor|cbn [length]; lia].
  - apply in_app_or in H. destruct H as [H|H].
    + destruct (IHa _ _ _ H) as [p [Hp Hn]]. exists (false :: p). split; [constructor; exact Hp|cbn [length]; lia].
    + destruct (IHb _ _ _ H) as [p [Hp Hn]]. exists (true :: p). split; [constructor; exact Hp|cbn [length]; lia].
Qed.

(* every symbol with a non-zero length of a non-over-subscribed description has a code of exactly
   that many bits which hdecode decodes *)
Theorem mk_tree_decodes : forall lens len sym,
  snd (mk_tree lens) = [] -> In (len, sym) (sorted_syms lens) ->
  exists code, length code = len /\ path_to (fst (mk_tree lens)) code sym /\
    forall s rest, bits_all s = code ++ rest ->
      exists s', hdecode (fst (mk_tree lens)) s = Some (sym, s') /\ bits_all s' = rest.
Proof.
  intros lens len sym Hr Hin. destruct (mk_tree_canonical lens) as [_ [Hc _]].
  rewrite <- (Hc Hr) in Hin. destruct (leaves_path _ _ _ _ Hin) as [p [Hp Hn]].
  exists p. split; [lia|]. split; [exact Hp|]. intros s rest Hs. exact (hdecode_path _ _ _ Hp s rest Hs).
Qed.

(* the code of a symbol, searched in the tree (for examples) *)
Fixpoint find_path (t : htree) (x : N) : option (list bool) :=
  match t with
  | HEmpty => None
  | HLeaf y => if y =? x then Some [] else None
  | HNode a b =>
      match find_path a x with
      | Some p => Some (false :: p)
      | None => match find_path b x with Some p => Some (true :: p) | None => None end
      end
  end.

Lemma find_path_sound : forall t x p, find_path t x = Some p -> path_to t p x.
Proof.
  induction t as [|y|a IHa b IHb]; intros x p H; cbn [find_path] in H.
  - discriminate.
  - destruct (y =? x) eqn:E; [|discriminate]. injection H as H. subst p.
    apply N.eqb_eq in E. subst y. constructor.
  - destruct (find_path a x) as [q|] eqn:Ea.
    + injection H as H. subst p. constructor. apply IHa. exact Ea.
    + destruct (find_path b x) as [q|] eqn:Eb; [|discriminate].
      injection H as H. subst p. constructor. apply IHb. exact Eb.
Qed.

(* the fixed code of RFC 1951 3.2.6: 0-143 -> 00110000.., 144-255 -> 110010000.., 256-279 ->
   0000000.., 280-287 -> 11000000..; distance codes are the 5-bit numbers *)
Lemma fixed_code_table :
  find_path fixed_lt 0 = Some [false; false; true; true; false; false; false; false] /\
  find_path fixed_lt 143 = Some [true; false; true; true; true; true; true; true] /\
  find_path fixed_lt 144 = Some [true; true; false; false; true; false; false; false; false] /\
  find_path fixed_lt 255 = Some [true; true; true; true; true; true; true; true; true] /\
  find_path fixed_lt 256 = Some [false; false; false; false; false; false; false] /\
  find_path fixed_lt 279 = Some [false; false; true; false; true; true; true] /\
  find_path fixed_lt 280 = Some [true; true; false; false; false; false; false; false] /\
  find_path fixed_lt 287 = Some [true; true; false; false; false; true; true; true] /\
  find_path fixed_dt 0 = Some [false; false; false; false; false] /\
  find_path fixed_dt 29 = Some [true; true; true; false; true] /\
  find_path fixed_dt 30 = None.
Proof. vm_compute. repeat split; reflexivity. Qed.
