(* The fuel of the inflater is never the reason for a failure: every Huffman symbol consumes at
   least one input bit and every block at least three, so with any fuel above the number of input
   bits the result is the same -- [inflate_raw]'s S (8 * |src|) is enough and None always means
   "malformed, truncated or too long for the limit". *)
From Coq Require Import List Arith NArith Bool Lia ZifyBool ZifyNat ZifyN.
From NV Require Import Base.LE Bgzf.Frame Bgzf.FrameProofs Bgzf.Inflate Bgzf.InflateProofs.
Import ListNotations.
Open Scope N_scope.

Definition bits_left (s : bitsrc) : nat := (length (fst s) + 8 * length (snd s))%nat.

Lemma bits_of_length : forall k b, length (bits_of k b) = k.
Proof. induction k as [|k IH]; intros b; cbn [bits_of length]; [reflexivity|]. now rewrite IH. Qed.

Lemma getbit_bits : forall s b s', getbit s = Some (b, s') -> bits_left s = S (bits_left s').
Proof.
  intros [bs rest] b s' H. unfold getbit in H. cbn [fst snd] in H.
  destruct bs as [|b0 bs].
  - destruct rest as [|x r]; [discriminate|]. injection H as H1 H2. subst s'.
    unfold bits_left. cbn [fst snd length]. lia.
  - injection H as H1 H2. subst s'. unfold bits_left. cbn [fst snd length]. lia.
Qed.

Lemma getbits_bits : forall n s v s', getbits n s = Some (v, s') -> (bits_left s' <= bits_left s)%nat.
Proof.
  induction n as [|n IH]; intros s v s' H; cbn [getbits] in H.
  - injection H as H1 H2. subst s'. lia.
  - destruct (getbit s) as [[b s1]|] eqn:E; [|discriminate].
    destruct (getbits n s1) as [[v1 s2]|] eqn:E2; [|discriminate].
    injection H as H1 H2. subst s'. apply getbit_bits in E. apply IH in E2. lia.
Qed.

Definition not_leaf (t : htree) : Prop := match t with HLeaf _ => False | _ => True end.

Lemma hdecode_bits : forall t s x s', hdecode t s = Some (x, s') -> (bits_left s' <= bits_left s)%nat.
Proof.
  induction t as [|y|l IHl r IHr]; intros s x s' H; cbn [hdecode] in H.
  - discriminate.
  - injection H as H1 H2. subst s'. lia.
  - destruct (getbit s) as [[b s1]|] eqn:E; [|discriminate]. apply getbit_bits in E.
    destruct b; [apply IHr in H|apply IHl in H]; lia.
Qed.

Lemma hdecode_bits_strict : forall t s x s', not_leaf t ->
  hdecode t s = Some (x, s') -> (bits_left s' < bits_left s)%nat.
Proof.
  intros t s x s' Hn H. destruct t as [|y|l r]; cbn [hdecode] in H.
  - discriminate.
  - destruct Hn.
  - destruct (getbit s) as [[b s1]|] eqn:E; [|discriminate]. apply getbit_bits in E.
    destruct b; apply hdecode_bits in H; lia.
Qed.

(* ---- codes ---- *)

Lemma codes_fuel : forall f1 f2 limit lt dt s o, not_leaf lt ->
  (bits_left s < f1)%nat -> (bits_left s < f2)%nat ->
  codes f1 limit lt dt s o = codes f2 limit lt dt s o.
Proof.
  induction f1 as [|f1 IH]; intros f2 limit lt dt s o Hn H1 H2; [lia|].
  destruct f2 as [|f2]; [lia|]. cbn [codes].
  destruct (hdecode lt s) as [[sym s1]|] eqn:E; [|reflexivity].
  apply (hdecode_bits_strict _ _ _ _ Hn) in E.
  destruct (sym <? 256).
  { destruct (limit <=? ob_len o); [reflexivity|]. apply IH; [exact Hn|lia|lia]. }
  destruct (sym =? 256); [reflexivity|].
  cbv zeta.
  destruct (29 <=? N.to_nat (sym - 257))%nat; [reflexivity|].
  destruct (getbits _ s1) as [[e s2]|] eqn:E2; [|reflexivity]. apply getbits_bits in E2.
  destruct (hdecode dt s2) as [[ds s3]|] eqn:E3; [|reflexivity]. apply hdecode_bits in E3.
  destruct (30 <=? N.to_nat ds)%nat; [reflexivity|].
  destruct (getbits _ s3) as [[e2 s4]|] eqn:E4; [|reflexivity]. apply getbits_bits in E4.
  destruct (ob_len o <? _); [reflexivity|].
  destruct (limit <? _); [reflexivity|].
  apply IH; [exact Hn|lia|lia].
Qed.

Lemma codes_bits : forall f limit lt dt s o s' o',
  codes f limit lt dt s o = Some (s', o') -> (bits_left s' <= bits_left s)%nat.
Proof.
  induction f as [|f IH]; intros limit lt dt s o s' o' H; cbn [codes] in H; [discriminate|].
  destruct (hdecode lt s) as [[sym s1]|] eqn:E; [|discriminate]. apply hdecode_bits in E.
  destruct (sym <? 256).
  { destruct (limit <=? ob_len o); [discriminate|]. apply IH in H. lia. }
  destruct (sym =? 256).
  { injection H as H1 H2. subst s'. lia. }
  cbv zeta in H.
  destruct (29 <=? N.to_nat (sym - 257))%nat; [discriminate|].
  destruct (getbits _ s1) as [[e s2]|] eqn:E2; [|discriminate]. apply getbits_bits in E2.
  destruct (hdecode dt s2) as [[ds s3]|] eqn:E3; [|discriminate]. apply hdecode_bits in E3.
  destruct (30 <=? N.to_nat ds)%nat; [discriminate|].
  destruct (getbits _ s3) as [[e2 s4]|] eqn:E4; [|discriminate]. apply getbits_bits in E4.
  destruct (ob_len o <? _); [discriminate|].
  destruct (limit <? _); [discriminate|].
  apply IH in H. lia.
Qed.

(* ---- the roots of the trees the inflater builds are never leaves ---- *)

Lemma sorted_syms_pos : forall lens p, In p (sorted_syms lens) -> (1 <= fst p)%nat.
Proof.
  intros lens p H. unfold sorted_syms in H. apply in_flat_map in H. destruct H as [d [Hd Hp]].
  apply filter_In in Hp. destruct Hp as [_ He]. apply Nat.eqb_eq in He. apply in_seq in Hd. lia.
Qed.

Lemma hbuild_not_leaf : forall f l, (forall p, In p l -> (1 <= fst p)%nat) ->
  not_leaf (fst (hbuild f 0 l)).
Proof.
  intros f l Hp. destruct f as [|f]; cbn [hbuild]; [exact I|].
  destruct l as [|[len sym] tl]; [exact I|].
  specialize (Hp (len, sym) (or_introl eq_refl)). cbn [fst] in Hp.
  destruct (len <=? 0)%nat eqn:E; [apply Nat.leb_le in E; lia|].
  destruct (hbuild f 1 ((len, sym) :: tl)) as [a l1].
  destruct (hbuild f 1 l1) as [b l2]. exact I.
Qed.

Lemma mk_tree_not_leaf : forall lens, not_leaf (fst (mk_tree lens)).
Proof. intros lens. unfold mk_tree. apply hbuild_not_leaf. apply sorted_syms_pos. Qed.

Lemma fixed_lt_not_leaf : not_leaf fixed_lt.
Proof. unfold fixed_lt. apply mk_tree_not_leaf. Qed.

(* ---- the code-length reader: its fuel (= the number of lengths wanted) always suffices ---- *)

Lemma read_lens_fuel : forall f1 f2 cl need acc s,
  (need <= f1)%nat -> (need <= f2)%nat -> read_lens f1 cl need acc s = read_lens f2 cl need acc s.
Proof.
  induction f1 as [|f1 IH]; intros f2 cl need acc s H1 H2.
  - assert (need = O) by lia. subst need. destruct f2; reflexivity.
  - destruct need as [|need]; [destruct f2; reflexivity|].
    destruct f2 as [|f2]; [lia|]. cbn [read_lens].
    destruct (hdecode cl s) as [[sym s1]|]; [|reflexivity].
    destruct (sym <? 16); [apply IH; lia|].
    assert (Hgen : forall (val : option nat) (nb base : nat), (3 <= base)%nat ->
      match val with
      | Some v =>
          match getbits nb s1 with
          | Some (e, s2) =>
              let rep := (base + N.to_nat e)%nat in
              if (S need <? rep)%nat then None
              else read_lens f1 cl (S need - rep) (repeat v rep ++ acc) s2
          | None => None
          end
      | None => None
      end =
      match val with
      | Some v =>
          match getbits nb s1 with
          | Some (e, s2) =>
              let rep := (base + N.to_nat e)%nat in
              if (S need <? rep)%nat then None
              else read_lens f2 cl (S need - rep) (repeat v rep ++ acc) s2
          | None => None
          end
      | None => None
      end).
    { intros val nb base Hb. destruct val as [v|]; [|reflexivity].
      destruct (getbits nb s1) as [[e s2]|]; [|reflexivity]. cbv zeta.
      destruct (S need <? base + N.to_nat e)%nat; [reflexivity|]. apply IH; lia. }
    destruct (sym =? 16);
      [exact (Hgen (match acc with p :: _ => Some p | [] => None end) 2%nat 3%nat ltac:(lia))|].
    destruct (sym =? 17);
      [exact (Hgen (Some O) 3%nat 3%nat ltac:(lia))|exact (Hgen (Some O) 7%nat 11%nat ltac:(lia))].
Qed.

Lemma read_cl_bits : forall n s vals s', read_cl n s = Some (vals, s') -> (bits_left s' <= bits_left s)%nat.
Proof.
  induction n as [|n IH]; intros s vals s' H; cbn [read_cl] in H.
  - injection H as H1 H2. subst s'. lia.
  - destruct (getbits 3 s) as [[v s1]|] eqn:E; [|discriminate]. apply getbits_bits in E.
    destruct (read_cl n s1) as [[vs s2]|] eqn:E2; [|discriminate]. apply IH in E2.
    injection H as H1 H2. subst s'. lia.
Qed.

Lemma read_lens_bits : forall f cl need acc s lens s',
  read_lens f cl need acc s = Some (lens, s') -> (bits_left s' <= bits_left s)%nat.
Proof.
  induction f as [|f IH]; intros cl need acc s lens s' H.
  - destruct need; cbn [read_lens] in H; [|discriminate]. injection H as H1 H2. subst s'. lia.
  - destruct need as [|need]; cbn [read_lens] in H.
    { injection H as H1 H2. subst s'. lia. }
    destruct (hdecode cl s) as [[sym s1]|] eqn:E; [|discriminate]. apply hdecode_bits in E.
    destruct (sym <? 16); [apply IH in H; lia|].
    destruct (if sym =? 16 then _ else _) as [[val nb] base].
    destruct val as [v|]; [|discriminate].
    destruct (getbits nb s1) as [[e s2]|] eqn:E2; [|discriminate]. apply getbits_bits in E2.
    cbv zeta in H.
    destruct (S need <? base + N.to_nat e)%nat; [discriminate|]. apply IH in H. lia.
Qed.

(* ---- dynamic, stored, blocks ---- *)

Lemma dynamic_fuel : forall f1 f2 limit s o,
  (bits_left s < f1)%nat -> (bits_left s < f2)%nat -> dynamic f1 limit s o = dynamic f2 limit s o.
Proof.
  intros f1 f2 limit s o H1 H2. unfold dynamic.
  destruct (getbits 5 s) as [[a s1]|] eqn:E1; [|reflexivity]. apply getbits_bits in E1.
  destruct (getbits 5 s1) as [[b s2]|] eqn:E2; [|reflexivity]. apply getbits_bits in E2.
  destruct (getbits 4 s2) as [[c s3]|] eqn:E3; [|reflexivity]. apply getbits_bits in E3.
  cbv zeta.
  destruct (_ || _); [reflexivity|].
  destruct (read_cl _ s3) as [[vals s4]|] eqn:E4; [|reflexivity]. apply read_cl_bits in E4.
  destruct (negb _); [reflexivity|].
  destruct (read_lens _ _ _ _ s4) as [[lens s5]|] eqn:E5; [|reflexivity]. apply read_lens_bits in E5.
  destruct (Nat.eqb _ _); [reflexivity|].
  destruct (_ || _); [reflexivity|].
  apply codes_fuel; [apply mk_tree_not_leaf|lia|lia].
Qed.

Lemma dynamic_bits : forall f limit s o s' o',
  dynamic f limit s o = Some (s', o') -> (bits_left s' <= bits_left s)%nat.
Proof.
  intros f limit s o s' o' H. unfold dynamic in H.
  destruct (getbits 5 s) as [[a s1]|] eqn:E1; [|discriminate]. apply getbits_bits in E1.
  destruct (getbits 5 s1) as [[b s2]|] eqn:E2; [|discriminate]. apply getbits_bits in E2.
  destruct (getbits 4 s2) as [[c s3]|] eqn:E3; [|discriminate]. apply getbits_bits in E3.
  cbv zeta in H.
  destruct (_ || _); [discriminate|].
  destruct (read_cl _ s3) as [[vals s4]|] eqn:E4; [|discriminate]. apply read_cl_bits in E4.
  destruct (negb _); [discriminate|].
  destruct (read_lens _ _ _ _ s4) as [[lens s5]|] eqn:E5; [|discriminate]. apply read_lens_bits in E5.
  destruct (Nat.eqb _ _); [discriminate|].
  destruct (_ || _); [discriminate|].
  apply codes_bits in H. lia.
Qed.

Lemma stored_bits : forall limit s o s' o',
  stored limit s o = Some (s', o') -> (bits_left s' <= bits_left s)%nat.
Proof.
  intros limit [bs rest] o s' o' H. unfold stored in H. cbn [snd] in H.
  destruct rest as [|l0 [|l1 [|n0 [|n1 data]]]]; try discriminate.
  cbv zeta in H.
  destruct (negb _); [discriminate|].
  destruct (limit <? _); [discriminate|].
  destruct (lenN _ <? _); [discriminate|].
  injection H as H1 H2. subst s'. unfold bits_left. cbn [fst snd length].
  rewrite skipn_length. lia.
Qed.

Lemma blocks_fuel : forall f1 f2 cf1 cf2 limit s o,
  (bits_left s < f1)%nat -> (bits_left s < f2)%nat ->
  (bits_left s < cf1)%nat -> (bits_left s < cf2)%nat ->
  blocks f1 cf1 limit s o = blocks f2 cf2 limit s o.
Proof.
  induction f1 as [|f1 IH]; intros f2 cf1 cf2 limit s o H1 H2 H3 H4; [lia|].
  destruct f2 as [|f2]; [lia|]. cbn [blocks].
  destruct (getbit s) as [[fin s1]|] eqn:E1; [|reflexivity]. apply getbit_bits in E1.
  destruct (getbits 2 s1) as [[ty s2]|] eqn:E2; [|reflexivity]. apply getbits_bits in E2.
  cbv zeta.
  set (B1 := if ty =? 0 then stored limit s2 o
             else if ty =? 1 then codes cf1 limit fixed_lt fixed_dt s2 o
             else if ty =? 2 then dynamic cf1 limit s2 o else None).
  set (B2 := if ty =? 0 then stored limit s2 o
             else if ty =? 1 then codes cf2 limit fixed_lt fixed_dt s2 o
             else if ty =? 2 then dynamic cf2 limit s2 o else None).
  assert (Hb : B1 = B2).
  { unfold B1, B2. destruct (ty =? 0); [reflexivity|].
    destruct (ty =? 1); [apply codes_fuel; [exact fixed_lt_not_leaf|lia|lia]|].
    destruct (ty =? 2); [apply dynamic_fuel; lia|reflexivity]. }
  rewrite Hb. clear Hb B1.
  destruct B2 as [[s3 o3]|] eqn:E3; [|reflexivity].
  assert (Hs3 : (bits_left s3 <= bits_left s2)%nat).
  { unfold B2 in E3. destruct (ty =? 0); [exact (stored_bits _ _ _ _ _ E3)|].
    destruct (ty =? 1); [exact (codes_bits _ _ _ _ _ _ _ _ E3)|].
    destruct (ty =? 2); [exact (dynamic_bits _ _ _ _ _ _ E3)|discriminate]. }
  destruct fin; [reflexivity|]. apply IH; lia.
Qed.

(* any fuel above the number of input bits gives the result of inflate_raw: None is never "out of
   fuel" *)
Theorem inflate_fuel_sufficient : forall f cf limit src,
  (8 * length src < f)%nat -> (8 * length src < cf)%nat ->
  match blocks f cf limit ([], src) ob_empty with
  | None => None
  | Some (s, o) => Some (rev_append (ob_rev o) [], snd s)
  end = inflate_raw limit src.
Proof.
  intros f cf limit src H1 H2. unfold inflate_raw.
  rewrite (blocks_fuel f (S (8 * length src)) cf (S (8 * length src)) limit ([], src) ob_empty);
    [reflexivity| | | |]; unfold bits_left; cbn [fst snd length]; lia.
Qed.
