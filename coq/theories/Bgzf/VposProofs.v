(* Proofs about NV.Bgzf.Vpos: pack/unpack are inverse, pack is strictly monotone for the
   lexicographic order. *)
From Coq Require Import List NArith Lia Bool.
Open Scope bool_scope.
From NV Require Import Bgzf.Vpos.
Open Scope N_scope.

Lemma ones16 : 65535 = N.ones 16.
Proof. reflexivity. Qed.

Lemma vcomp_pack : forall c u, u < 65536 -> vcomp (pack c u) = c.
Proof.
  intros c u Hu. unfold vcomp, pack.
  rewrite N.shiftr_lor, N.shiftr_shiftl_l by lia.
  replace (16 - 16) with 0 by lia. rewrite N.shiftl_0_r.
  rewrite (N.shiftr_div_pow2 u), N.div_small by (change (2 ^ 16) with 65536; lia).
  apply N.lor_0_r.
Qed.

Lemma vuncomp_pack : forall c u, u < 65536 -> vuncomp (pack c u) = u.
Proof.
  intros c u Hu. unfold vuncomp, pack.
  rewrite ones16, N.land_ones.
  rewrite <- (N.land_ones (N.lor _ _)), N.land_lor_distr_l, !N.land_ones.
  rewrite N.shiftl_mul_pow2, N.mod_mul by (change (2 ^ 16) with 65536; lia).
  rewrite N.mod_small by (change (2 ^ 16) with 65536; lia).
  apply N.lor_0_l.
Qed.

Lemma pack_arith : forall c u, u < 65536 -> pack c u = c * 65536 + u.
Proof.
  intros c u Hu.
  pose proof (vcomp_pack c u Hu) as Hc. pose proof (vuncomp_pack c u Hu) as Hv.
  unfold vcomp in Hc. unfold vuncomp in Hv.
  rewrite N.shiftr_div_pow2 in Hc. rewrite ones16, N.land_ones in Hv.
  change (2 ^ 16) with 65536 in *.
  pose proof (N.div_mod (pack c u) 65536) as Hd.
  rewrite Hc, Hv in Hd. lia.
Qed.

Lemma pack_unpack : forall c u, u < 65536 -> unpack (pack c u) = (c, u).
Proof.
  intros c u Hu. unfold unpack. now rewrite vcomp_pack, vuncomp_pack.
Qed.

Lemma vuncomp_lt : forall v, vuncomp v < 65536.
Proof.
  intros v. unfold vuncomp. rewrite ones16, N.land_ones.
  change (2 ^ 16) with 65536. apply N.mod_lt. lia.
Qed.

Lemma unpack_pack : forall v, pack (vcomp v) (vuncomp v) = v.
Proof.
  intros v. rewrite pack_arith by apply vuncomp_lt.
  unfold vcomp, vuncomp. rewrite N.shiftr_div_pow2, ones16, N.land_ones.
  change (2 ^ 16) with 65536.
  pose proof (N.div_mod v 65536). lia.
Qed.

Lemma pack_lt_u64 : forall c u, c <= MAX_COMPRESSED_POSITION -> u < 65536 -> pack c u < 2 ^ 64.
Proof.
  intros c u Hc Hu. rewrite pack_arith by assumption.
  unfold MAX_COMPRESSED_POSITION in Hc.
  change (2 ^ 48 - 1) with 281474976710655 in Hc.
  change (2 ^ 64) with 18446744073709551616. lia.
Qed.

Lemma pack_order : forall c1 u1 c2 u2, u1 < 65536 -> u2 < 65536 ->
  (pack c1 u1 < pack c2 u2 <-> lex_lt (c1, u1) (c2, u2)).
Proof.
  intros c1 u1 c2 u2 H1 H2. rewrite !pack_arith by assumption.
  unfold lex_lt; cbn [fst snd]. split; intros H.
  - destruct (N.lt_trichotomy c1 c2) as [Hl | [He | Hg]]; [left; assumption | right; split; [assumption | lia] | lia].
  - destruct H as [Hl | [He Hl]]; [nia | subst; lia].
Qed.

Lemma pack_inj : forall c1 u1 c2 u2, u1 < 65536 -> u2 < 65536 ->
  pack c1 u1 = pack c2 u2 -> c1 = c2 /\ u1 = u2.
Proof.
  intros c1 u1 c2 u2 H1 H2 He.
  pose proof (vcomp_pack c1 u1 H1) as A. pose proof (vuncomp_pack c1 u1 H1) as B.
  rewrite He in A, B. rewrite vcomp_pack in A by assumption. rewrite vuncomp_pack in B by assumption.
  split; congruence.
Qed.

Lemma vpos_cmp_spec : forall c1 u1 c2 u2, u1 < 65536 -> u2 < 65536 ->
  vpos_cmp (pack c1 u1) (pack c2 u2) =
  if (c1 <? c2) || ((c1 =? c2) && (u1 <? u2)) then 0
  else if (c1 =? c2) && (u1 =? u2) then 1 else 2.
Proof.
  intros c1 u1 c2 u2 H1 H2. unfold vpos_cmp. rewrite !pack_arith by assumption.
  destruct (N.compare_spec (c1 * 65536 + u1) (c2 * 65536 + u2)) as [He | Hl | Hg];
    destruct (N.ltb_spec c1 c2), (N.eqb_spec c1 c2), (N.ltb_spec u1 u2), (N.eqb_spec u1 u2);
    cbn; try reflexivity; try nia.
Qed.
