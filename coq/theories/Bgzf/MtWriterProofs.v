(* Proofs: the multithreaded writer model equals the single-threaded one under every schedule. *)
From Coq Require Import List Arith Lia Bool NArith.
From NV Require Import Io.Sched Io.SchedProofs Bgzf.MtWriter.
Import ListNotations.

Section SinkFacts.
  Variable chunk : Type.
  Variable fail_at : option nat.
  Notation sw := (sink_write (chunk:=chunk) fail_at).

  Lemma fold_sw_err l : forall k, serr k = true -> fold_left sw l k = k.
  Proof.
    induction l as [|c l IH]; intros k H; cbn [fold_left]; [reflexivity|].
    unfold sink_write at 2. rewrite H. apply IH. exact H.
  Qed.

  (* stop-at-first-error over frames = plain fold over the flat chunk sequence *)
  Lemma st_consume_flat frames : forall k,
    st_consume (write_frame fail_at) serr k frames = fold_left sw (concat frames) k.
  Proof.
    induction frames as [|fr frames IH]; intros k; cbn [st_consume concat]; [reflexivity|].
    rewrite fold_left_app. destruct (serr k) eqn:E.
    - rewrite (fold_sw_err fr k E). symmetry. apply fold_sw_err. exact E.
    - rewrite IH. reflexivity.
  Qed.

  (* a sink that has not failed yet and has made [calls k <= j] calls: after the chunks of [l] it has
     accepted exactly those before call j, and has failed iff call j was reached *)
  Lemma fold_sw_fail j l : forall k,
    fail_at = Some j -> serr k = false -> calls k <= j ->
    acc (fold_left sw l k) = acc k ++ firstn (j - calls k) l /\
    serr (fold_left sw l k) = (j - calls k <? length l).
  Proof.
    induction l as [|c l IH]; intros k Hf He Hc; cbn [fold_left].
    - rewrite firstn_nil, app_nil_r. split; [reflexivity|]. exact He.
    - assert (Hs : sw k c = if Nat.eqb j (calls k) then mk_sink (acc k) (S (calls k)) true
                            else mk_sink (acc k ++ [c]) (S (calls k)) false).
      { unfold sink_write. rewrite He, Hf. reflexivity. }
      rewrite Hs. clear Hs.
      destruct (Nat.eqb j (calls k)) eqn:Ej.
      + apply Nat.eqb_eq in Ej. rewrite fold_sw_err by reflexivity. cbn [acc serr].
        replace (j - calls k) with 0 by lia. cbn [firstn length]. rewrite app_nil_r. split; reflexivity.
      + apply Nat.eqb_neq in Ej.
        destruct (IH (mk_sink (acc k ++ [c]) (S (calls k)) false) Hf eq_refl) as [IA IE]; [cbn [calls]; lia|].
        cbn [calls acc] in IA, IE.
        rewrite IA, IE. replace (j - calls k) with (S (j - S (calls k))) by lia.
        cbn [firstn length]. rewrite <- app_assoc. split; [reflexivity|].
        destruct (j - S (calls k) <? length l) eqn:E1; symmetry.
        * apply Nat.ltb_lt in E1. apply Nat.ltb_lt. lia.
        * apply Nat.ltb_ge in E1. apply Nat.ltb_ge. lia.
  Qed.

  Lemma fold_sw_nofail l : forall k,
    fail_at = None -> serr k = false ->
    acc (fold_left sw l k) = acc k ++ l /\ serr (fold_left sw l k) = false.
  Proof.
    induction l as [|c l IH]; intros k Hf He; cbn [fold_left].
    - rewrite app_nil_r. split; [reflexivity|exact He].
    - assert (Hs : sw k c = mk_sink (acc k ++ [c]) (S (calls k)) false).
      { unfold sink_write. rewrite He, Hf. reflexivity. }
      rewrite Hs. destruct (IH (mk_sink (acc k ++ [c]) (S (calls k)) false) Hf eq_refl) as [IA IE].
      cbn [acc] in IA. rewrite IA, IE, <- app_assoc. split; reflexivity.
  Qed.
End SinkFacts.

Section WriterProofs.
  Variable chunk : Type.
  Variable frame_of : blk -> list chunk.
  Variable eof : chunk.
  Variable fail_at : option nat.
  Variable P : nat.

  Notation w_run := (w_run chunk frame_of fail_at P).
  Notation w_final := (w_final chunk).
  Notation mt_writer := (mt_writer chunk frame_of eof fail_at P).
  Notation st_writer := (st_writer chunk frame_of eof fail_at).
  Notation st_writer_direct := (st_writer_direct chunk frame_of eof fail_at).
  Notation st_blocks := (st_blocks chunk frame_of fail_at).
  Notation finish_sink := (finish_sink chunk eof fail_at).

  (* every chunk the single-threaded writer hands to the sink, in order *)
  Definition all_chunks (ops : list op) : list chunk := concat (map frame_of (stage ops)) ++ [eof].

  Theorem writer_equals_st ops sched :
    w_final (w_run ops sched) = true -> mt_writer ops sched = st_writer ops.
  Proof.
    intros F. unfold MtWriter.mt_writer, MtWriter.st_writer, MtWriter.st_blocks.
    f_equal. apply pipeline_output_is_submission_order. exact F.
  Qed.

  (* in every reachable state what the sink has accepted is what the single-threaded writer has
     written after a prefix of the blocks (never a block out of order, never a gap) *)
  Theorem writer_prefix ops sched :
    exists done_blocks rest, stage ops = done_blocks ++ rest /\
      cs (w_run ops sched) = st_blocks sink0 done_blocks.
  Proof.
    destruct (prefix_invariant blk (list chunk) (sink chunk) frame_of w_ready (write_frame fail_at) serr
                (w_can_submit P) P sink0 (stage ops) sched) as [rest [H1 H2]].
    exists (cons (w_run ops sched)), rest. split; [exact H1|exact H2].
  Qed.

  Lemma st_writer_flat ops : st_writer ops = fold_left (sink_write fail_at) (all_chunks ops) sink0.
  Proof.
    unfold MtWriter.st_writer, MtWriter.st_blocks, all_chunks. rewrite fold_left_app. cbn [fold_left].
    rewrite st_consume_flat. unfold MtWriter.finish_sink.
    set (X := fold_left _ _ sink0).
    destruct (serr X) eqn:E; [|reflexivity].
    unfold sink_write. rewrite E. reflexivity.
  Qed.

  (* the op-by-op single-threaded writer agrees with the block-list formulation *)
  Lemma stage_ops_app s ops : forall k,
    let '(s', bs) := stage_ops s ops in
    let '(s2, k2) := st_ops chunk frame_of fail_at s k ops in
    (serr k2 = false -> s2 = s') /\ k2 = st_blocks k bs.
  Proof.
    revert s. induction ops as [|o ops IH]; intros s k; cbn [stage_ops st_ops].
    - split; [reflexivity|]. unfold MtWriter.st_blocks. reflexivity.
    - destruct (stage_op s o) as [s1 b1] eqn:E1.
      specialize (IH s1 (st_blocks k b1)).
      destruct (stage_ops s1 ops) as [s2 b2] eqn:E2.
      destruct (serr (st_blocks k b1)) eqn:Es.
      + split; [intros H; congruence|].
        unfold MtWriter.st_blocks in *. rewrite map_app, st_consume_app.
        symmetry. apply st_consume_stopped. exact Es.
      + destruct (st_ops chunk frame_of fail_at s1 (st_blocks k b1) ops) as [s3 k3].
        destruct IH as [IH1 IH2]. split; [exact IH1|].
        rewrite IH2. unfold MtWriter.st_blocks. rewrite map_app, st_consume_app. reflexivity.
  Qed.

  Theorem st_writer_direct_eq ops : st_writer_direct ops = st_writer ops.
  Proof.
    unfold MtWriter.st_writer_direct, MtWriter.st_writer, stage.
    pose proof (stage_ops_app (0%N, 0%N) ops sink0) as H.
    destruct (stage_ops (0%N, 0%N) ops) as [s' bs].
    destruct (st_ops chunk frame_of fail_at (0%N, 0%N) sink0 ops) as [s2 k2].
    destruct H as [H1 H2]. subst k2.
    unfold MtWriter.st_blocks. rewrite map_app, st_consume_app.
    fold (st_blocks sink0 bs).
    destruct (serr (st_blocks sink0 bs)) eqn:E.
    - rewrite st_consume_stopped by exact E. unfold MtWriter.finish_sink. rewrite E. reflexivity.
    - rewrite (H1 eq_refl). reflexivity.
  Qed.

  (* ERROR SURFACES: if the sink fails at a call the single-threaded writer would reach, then under
     every schedule the joined writer thread reports the failure, the sink holds exactly the chunks
     before the failing call, and nothing after it. *)
  Theorem writer_error_surfaces j ops sched :
    fail_at = Some j -> j < length (all_chunks ops) ->
    w_final (w_run ops sched) = true ->
    serr (mt_writer ops sched) = true /\ acc (mt_writer ops sched) = firstn j (all_chunks ops).
  Proof.
    intros Hf Hj F. rewrite (writer_equals_st ops sched F), st_writer_flat.
    destruct (fold_sw_fail chunk fail_at j (all_chunks ops) sink0 Hf eq_refl (Nat.le_0_l j)) as [A E].
    cbn [calls acc sink0] in A, E. rewrite Nat.sub_0_r in A, E. cbn [app] in A.
    split; [rewrite E; apply Nat.ltb_lt; exact Hj|exact A].
  Qed.

  Theorem writer_no_fault_complete ops sched :
    fail_at = None -> w_final (w_run ops sched) = true ->
    serr (mt_writer ops sched) = false /\ acc (mt_writer ops sched) = all_chunks ops.
  Proof.
    intros Hf F. rewrite (writer_equals_st ops sched F), st_writer_flat.
    destruct (fold_sw_nofail chunk fail_at (all_chunks ops) sink0 Hf eq_refl) as [A E].
    cbn [acc sink0 app] in A. split; [exact E|exact A].
  Qed.

  (* finish() returns: no deadlock, bounded number of steps, for every pool size >= 1 *)
  Hypothesis P_pos : 0 < P.

  Theorem writer_progress ops sched :
    w_final (w_run ops sched) = false ->
    exists a, enabled serr (w_can_submit P) P (w_run ops sched) a = true.
  Proof.
    apply pipeline_progress; [exact P_pos|]. unfold w_can_submit. apply Nat.ltb_lt. exact P_pos.
  Qed.

  Theorem writer_finish_terminates ops pick :
    (forall s, wf blk (sink chunk) s -> w_final s = false -> enabled serr (w_can_submit P) P s (pick s) = true) ->
    w_final (iter frame_of w_ready (write_frame fail_at) serr (w_can_submit P) P pick
                  (5 * length (stage ops)) (w_init chunk ops)) = true.
  Proof.
    intros H. unfold MtWriter.w_final, w_init.
    exact (pipeline_terminates blk (list chunk) (sink chunk) frame_of w_ready (write_frame fail_at) serr
             (w_can_submit P) P P_pos pick sink0 (stage ops) H).
  Qed.

  (* ... and such a strategy exists (non-vacuity of the premise above) *)
  Theorem writer_finish_terminates_default ops :
    w_final (iter frame_of w_ready (write_frame fail_at) serr (w_can_submit P) P
                  (default_pick serr (w_can_submit P) P)
                  (5 * length (stage ops)) (w_init chunk ops)) = true.
  Proof.
    assert (C0 : w_can_submit P 0 false = true) by (unfold w_can_submit; apply Nat.ltb_lt; exact P_pos).
    exact (pipeline_terminates_default blk (list chunk) (sink chunk) frame_of w_ready (write_frame fail_at) serr
             (w_can_submit P) P P_pos C0 sink0 (stage ops)).
  Qed.

  Theorem writer_window ops sched :
    bounded blk (sink chunk) P (S P) (w_run ops sched).
  Proof.
    apply pipeline_window_bound; [exact P_pos|]. intros n h H. unfold w_can_submit in H. apply Nat.ltb_lt in H.
    destruct h; cbn [olist length]; lia.
  Qed.
End WriterProofs.
