(* C03 -- op histories of noodles-bgzf MultithreadedReader and of the single-threaded Reader over
   files WITH CORRUPT BLOCKS AND A BROKEN LAST FRAME, continuing after the error.

   NV.Bgzf.MtReaderOps / NV.Bgzf.ReaderOps work on parsed well-formed files.  Here a parsed frame
   carries what the two stages of the frame reader make of it (src/io/reader/frame.rs):

     SGood           read_frame_into = Ok(Some), parse_block = Ok
     SEarly          parse_block fails in parse_frame (gzip/BGZF header fields, ISIZE > 65536):
                     InvalidData, and the Block has not been touched
     SLate isz g     parse_block fails AFTER block_initialize(block, size, isize): inflate error or
                     CRC mismatch: InvalidData; the block has size := frame size, data length :=
                     isz, cursor := 0 and the inflater has left the bytes g (|g| = isz) in it
     SFrame e        read_frame_into fails (BSIZE + 1 < 26: InvalidData after the 18 header bytes;
                     frame cut short: UnexpectedEof, the stream is at its end); [csize] = the bytes
                     consumed.  Nothing can be framed after it: it is the last frame of the file.

   SINGLE-THREADED READER (src/io/reader.rs), with the error paths written out:

     read_nonempty_block_with(f):
        while read_frame_into(inner, buf)?.is_some() {   // Err: SFrame
            f(buf, block)?;                              // Err: SEarly | SLate  (`?`: position and
            block.set_position(position);                //   block.pos are NOT updated)
            position += block.size();
            if block.data().len() > 0 { return Ok(len) } }
        Ok(0)
     [fxe] = false : the tree as it is: after SLate the half-initialised block stays current
                     (Parse: cursor 0, so the next fill_buf/read hands out its isz unverified
                     bytes; IntoBuf: cursor = isz), with the OLD block position;
     [fxe] = true  : after the proposed repair (finding
                     str-failed-block-stays-current-after-inflate-error): parse_block /
                     parse_block_into_buf restore size and data length and leave the block
                     exhausted when inflate fails.
     [pinned_err_repaired] says which one /repo currently is (the driver runs the model with it).

   MULTITHREADED READER (src/io/multithreaded_reader.rs after e327f10 / 137acf0 / 1d90f27):
     spawn_reader   read_frame_into Err(e): the buffer is sent as an already answered ticket
                    (buffer, Err(e)) -- no pool task -- and the thread exits ([ready]);
     pool task      parse_block(&buffer.buf, &mut buffer.block) into the TASK'S OWN buffer; the
                    ticket is answered (buffer, result) whatever the result;
     read_block     `if let Err(e) = result { recycle_tx.send(buffer).ok(); return Err(e) }`: the
                    buffer goes back to the pool, self.buffer and self.position are untouched;
     after an Err   the state stays Running; the next read_block goes on with the next ticket (or
                    finds the channel closed and empty after an SFrame: end of input);
     seek           `self.position = cpos; self.read_block()?`: on Err the block that was current
                    before the seek is still current (with its cursor), position = cpos.
   Everything else (State, resume, pause/drain, fill_buf, consume, read, read_exact,
   default_read_exact, read to the end, virtual_position, seek_with_index, get_mut, finish and the
   schedules) is as in NV.Bgzf.MtReaderOps. *)
From Coq Require Import List NArith Bool Arith.
From NV Require Import Bgzf.Vpos Bgzf.Gzi Bgzf.ReaderOps Io.Sched Bgzf.MtReaderOps.
Import ListNotations.
Open Scope N_scope.

Inductive estat :=
| SGood
| SEarly
| SLate (isz : N) (garb : list N)
| SFrame (e : err).

Record eframe := mkE { eb : frame; es : estat }.
Definition efile := list eframe.

Definition pinned_err_repaired : bool := true.

Definition ecsum (fs : list eframe) : N := fold_right (fun x a => csize (eb x) + a) 0 fs.

(* ============================ the single-threaded reader ================================== *)

Record estate := mkES {
  e_rest : list eframe;  (* the frames the inner stream has not delivered yet *)
  e_position : N;        (* Reader::position *)
  e_bpos : N;            (* Block::pos *)
  e_bsize : N;           (* Block::size *)
  e_blen : N;            (* Data::len *)
  e_cur : N;             (* Data::pos *)
  e_buf : list N         (* Data::buf *)
}.

Definition e_init (f : efile) : estate := mkES f 0 0 0 0 0 [].

Definition e_has_remaining (st : estate) : bool := e_cur st <? e_blen st.

Definition e_as_ref (st : estate) : res (list N) :=
  if e_cur st <=? e_blen st then Ok (buf_slice (e_buf st) (e_cur st) (e_blen st)) else Panic.

Definition e_virtual_position (st : estate) : res N :=
  if e_has_remaining st then
    if (e_bpos st <=? MAX_COMPRESSED_POSITION) && (e_cur st <=? MAX_UNCOMPRESSED_POSITION)
    then Ok (pack (e_bpos st) (e_cur st)) else Panic
  else
    if e_bpos st + e_bsize st <=? MAX_COMPRESSED_POSITION
    then Ok (pack (e_bpos st + e_bsize st) 0) else Panic.

(* read_nonempty_block_with over the frames [fs] ahead; [st] = the reader (its e_rest is ignored).
   Ok (Some b) = a block with data was loaded, Ok None = Ok(0). *)
Fixpoint e_loop (fxe : bool) (m : rmode) (fs : list eframe) (st : estate) : estate * res (option frame) :=
  match fs with
  | [] => (mkES [] (e_position st) (e_bpos st) (e_bsize st) (e_blen st) (e_cur st) (e_buf st), Ok None)
  | x :: r =>
      let b := eb x in
      match es x with
      | SFrame e =>
          (mkES r (e_position st) (e_bpos st) (e_bsize st) (e_blen st) (e_cur st) (e_buf st), Err e)
      | SEarly =>
          (mkES r (e_position st) (e_bpos st) (e_bsize st) (e_blen st) (e_cur st) (e_buf st), Err InvalidData)
      | SLate isz g =>
          let bf := match m with Parse => buf_write (e_buf st) g | IntoBuf => e_buf st end in
          if fxe
          then (mkES r (e_position st) (e_bpos st) (e_bsize st) (e_blen st) (e_blen st) bf, Err InvalidData)
          else (mkES r (e_position st) (e_bpos st) (csize b) isz
                     (match m with Parse => 0 | IntoBuf => isz end) bf, Err InvalidData)
      | SGood =>
          let st1 := mkES r (e_position st + csize b) (e_position st) (csize b) (flen b)
                          (match m with Parse => 0 | IntoBuf => flen b end)
                          (match m with Parse => buf_write (e_buf st) (fdata b) | IntoBuf => e_buf st end) in
          if 0 <? flen b then (st1, Ok (Some b)) else e_loop fxe m r st1
      end
  end.

Definition e_read_block (fxe : bool) (m : rmode) (st : estate) : estate * res (option frame) :=
  e_loop fxe m (e_rest st) st.

Definition e_consume (st : estate) (n : N) : estate :=
  mkES (e_rest st) (e_position st) (e_bpos st) (e_bsize st) (e_blen st)
       (N.min (e_cur st + n) (e_blen st)) (e_buf st).

Definition e_fill_buf (fxe : bool) (st : estate) : estate * res (list N) :=
  if e_has_remaining st then (st, e_as_ref st)
  else match e_read_block fxe Parse st with
       | (st1, Ok _) => (st1, e_as_ref st1)
       | (st1, Err e) => (st1, Err e)
       | (st1, Panic) => (st1, Panic)
       | (st1, OutOfFuel) => (st1, OutOfFuel)
       | (st1, Unmodelled) => (st1, Unmodelled)
       end.

Definition e_read (fxe : bool) (st : estate) (n : N) : estate * res (list N) :=
  if negb (e_has_remaining st) && (65536 <=? n) then
    match e_read_block fxe IntoBuf st with
    | (st', Ok (Some b)) => (st', Ok (fdata b))
    | (st', Ok None) => (st', Ok [])
    | (st', Err e) => (st', Err e)
    | (st', Panic) => (st', Panic)
    | (st', OutOfFuel) => (st', OutOfFuel)
    | (st', Unmodelled) => (st', Unmodelled)
    end
  else
    match e_fill_buf fxe st with
    | (st1, Ok src) => let out := firstn (N.to_nat n) src in (e_consume st1 (len out), Ok out)
    | (st1, r) => (st1, r)
    end.

Fixpoint e_read_exact_loop (fxe : bool) (fuel : nat) (st : estate) (rem : N) (acc : list N)
  : estate * res (list N) :=
  match fuel with
  | O => (st, OutOfFuel)
  | S k =>
      if rem =? 0 then (st, Ok acc)
      else match e_read fxe st rem with
           | (st', Ok bs) =>
               if len bs =? 0 then (st', Err UnexpectedEof)
               else e_read_exact_loop fxe k st' (rem - len bs) (acc ++ bs)
           | (st', r) => (st', r)
           end
  end.

Definition e_read_exact_std (fxe : bool) (st : estate) (n : N) : estate * res (list N) :=
  e_read_exact_loop fxe (S (N.to_nat n)) st n [].

Definition e_read_exact (fxe : bool) (st : estate) (n : N) : estate * res (list N) :=
  match e_as_ref st with
  | Ok src =>
      if n <=? len src then (e_consume st n, Ok (firstn (N.to_nat n) src))
      else e_read_exact_std fxe st n
  | Err e => (st, Err e)
  | Panic => (st, Panic)
  | OutOfFuel => (st, OutOfFuel)
  | Unmodelled => (st, Unmodelled)
  end.

(* the caller's read-to-end loop: it ends at the first call that returns 0 bytes or an error *)
Fixpoint e_read_all_loop (fxe : bool) (fuel : nat) (st : estate) (n : N) (acc : list N)
  : estate * res (list N) :=
  match fuel with
  | O => (st, OutOfFuel)
  | S k =>
      match e_read fxe st n with
      | (st', Ok bs) => if len bs =? 0 then (st', Ok acc) else e_read_all_loop fxe k st' n (acc ++ bs)
      | (st', r) => (st', r)
      end
  end.

(* every productive call hands out at least one byte of: the current block, the data of the frames
   ahead, the bytes a failed inflate leaves readable *)
Definition e_bytes_ahead (fs : list eframe) : nat :=
  fold_right (fun x a => (length (fdata (eb x)) + match es x with SLate isz _ => N.to_nat isz | _ => 0 end + a)%nat)
             O fs.

Definition e_read_all (fxe : bool) (st : estate) (n : N) : estate * res (list N) :=
  e_read_all_loop fxe (S (S (N.to_nat (e_blen st) + e_bytes_ahead (e_rest st)))) st n [].

Fixpoint e_drop_to (fs : list eframe) (at_ : N) (cpos : N) : option (list eframe) :=
  match fs with
  | [] => Some []
  | x :: r =>
      if cpos =? at_ then Some fs
      else if cpos <? at_ + csize (eb x) then None
      else e_drop_to r (at_ + csize (eb x)) cpos
  end.

Definition e_seek (fxe : bool) (f : efile) (st : estate) (v : N) : estate * res N :=
  let c := vcomp v in
  let u := vuncomp v in
  match e_drop_to f 0 c with
  | None => (st, Unmodelled)
  | Some r =>
      let st1 := mkES r c (e_bpos st) (e_bsize st) (e_blen st) (e_cur st) (e_buf st) in
      match e_read_block fxe Parse st1 with
      | (st2, Ok ld) =>
          let st3 := match ld with
                     | Some _ => st2
                     | None => mkES (e_rest st2) (e_position st2) (e_position st2) 0 0 0 (e_buf st2)
                     end in
          (mkES (e_rest st3) (e_position st3) (e_bpos st3) (e_bsize st3) (e_blen st3)
                (N.min u (e_blen st3)) (e_buf st3), Ok v)
      | (st2, Err e) => (st2, Err e)
      | (st2, Panic) => (st2, Panic)
      | (st2, OutOfFuel) => (st2, OutOfFuel)
      | (st2, Unmodelled) => (st2, Unmodelled)
      end
  end.

Definition e_seek_u (fxe : bool) (f : efile) (idx : gzi_index) (st : estate) (pos : N) : estate * res N :=
  match gzi_query idx pos with
  | Ok v => match e_seek fxe f st v with
            | (st', Ok _) => (st', Ok pos)
            | r => r
            end
  | Err e => (st, Err e)
  | Panic => (st, Panic)
  | OutOfFuel => (st, OutOfFuel)
  | Unmodelled => (st, Unmodelled)
  end.

Definition e_step (fxe : bool) (f : efile) (idx : gzi_index) (st : estate) (o : op) : estate * out :=
  match o with
  | Read n => let '(s, r) := e_read fxe st n in (s, OBytes r)
  | ReadExact n => let '(s, r) := e_read_exact fxe st n in (s, OBytes r)
  | ReadExactStd n => let '(s, r) := e_read_exact_std fxe st n in (s, OBytes r)
  | FillBuf => let '(s, r) := e_fill_buf fxe st in (s, OBytes r)
  | Consume n => (e_consume st n, OUnit)
  | Seek v => let '(s, r) := e_seek fxe f st v in (s, OPos r)
  | SeekU p => let '(s, r) := e_seek_u fxe f idx st p in (s, OPos r)
  | ReadAll n => let '(s, r) := e_read_all fxe st n in (s, OBytes r)
  end.

Fixpoint e_run (fxe : bool) (f : efile) (idx : gzi_index) (st : estate) (ops : list op)
  : list (out * res N) :=
  match ops with
  | [] => []
  | o :: r =>
      let '(st', x) := e_step fxe f idx st o in
      (x, e_virtual_position st') :: e_run fxe f idx st' r
  end.

(* does read_block over [fs] end in a block that fails after it was initialised? *)
Fixpoint hits_late (fs : list eframe) : bool :=
  match fs with
  | [] => false
  | x :: r =>
      match es x with
      | SGood => if 0 <? flen (eb x) then false else hits_late r
      | SLate _ _ => true
      | _ => false
      end
  end.

(* THE HISTORIES ON WHICH THE TWO READERS CAN AGREE: no seek runs into a late-failing block while
   the current block still has unread data.  (There the multithreaded reader keeps serving the old
   block out of its own buffer; the single-threaded reader has inflated into its only buffer.) *)
Definition e_seek_ok (f : efile) (st : estate) (v : N) : bool :=
  negb (e_has_remaining st) ||
  match e_drop_to f 0 (vcomp v) with Some r => negb (hits_late r) | None => true end.

Fixpoint e_safe (f : efile) (idx : gzi_index) (st : estate) (ops : list op) : bool :=
  match ops with
  | [] => true
  | o :: r =>
      match o with
      | Seek v => e_seek_ok f st v
      | SeekU p => match gzi_query idx p with Ok v => e_seek_ok f st v | _ => true end
      | _ => true
      end && e_safe f idx (fst (e_step true f idx st o)) r
  end.

(* ============================ the multithreaded reader =================================== *)

(* the application side; [er_err] = the error the current read_block call returns *)
Record erdr := mkER { ewant : bool; er_position : N; er_blk : blk; epulls : nat; er_err : option err }.

(* read_block's loop body for one received (buffer, result) *)
Definition erd_step (c : erdr) (x : eframe) : erdr :=
  match es x with
  | SGood => mkER (flen (eb x) =? 0) (er_position c + csize (eb x))
                  (mkBlk (er_position c) (csize (eb x)) (fdata (eb x)) 0) (epulls c) None
  | SEarly => mkER false (er_position c) (er_blk c) (epulls c) (Some InvalidData)
  | SLate _ _ => mkER false (er_position c) (er_blk c) (epulls c) (Some InvalidData)
  | SFrame e => mkER false (er_position c) (er_blk c) (epulls c) (Some e)
  end.

Definition erd_stopped (c : erdr) : bool := negb (ewant c).

(* a frame-level error ticket is answered by the reader thread itself *)
Definition e_ready (x : eframe) : bool := match es x with SFrame _ => true | _ => false end.

Definition epst := Sched.st eframe erdr.

Inductive emstate :=
| EPaused (inner : list eframe) (c : erdr)
| ERunning (s : epst)
| EDone (c : erdr).

Definition eremaining (s : epst) : list eframe :=
  map snd (olist (hold s)) ++ map snd (chan s) ++ todo s.

Definition em_rd (m : emstate) : erdr :=
  match m with EPaused _ c => c | ERunning s => cs s | EDone c => c end.

Section EMt.
  Variable P : nat.
  Variable sch : nat -> list act.

  Definition epstep : epst -> act -> epst :=
    Sched.step (fun x : eframe => x) e_ready erd_step erd_stopped (can_sub P) P.
  Definition epenabled : epst -> act -> bool := Sched.enabled erd_stopped (can_sub P) P.
  Definition epfinal : epst -> bool := Sched.final erd_stopped.
  Definition epcomplete (s : epst) : epst :=
    Sched.iter (fun x : eframe => x) e_ready erd_step erd_stopped (can_sub P) P
               (Sched.default_pick erd_stopped (can_sub P) P) (Sched.measure s) s.

  Definition ewith_rdr (s : epst) (c : erdr) : epst :=
    Sched.mk (todo s) (next s) (chan s) (hold s) (pending s) (running s) (done s) (Sched.cons s) c.

  Definition em_with_rdr (m : emstate) (c : erdr) : emstate :=
    match m with
    | EPaused fs _ => EPaused fs c
    | ERunning s => ERunning (ewith_rdr s c)
    | EDone _ => EDone c
    end.

  Definition estart_pull (s : epst) : epst :=
    Sched.mk (todo s) (next s) (chan s) (hold s) (pending s) (running s) (done s) []
             (mkER true (er_position (cs s)) (er_blk (cs s)) (S (epulls (cs s))) None).

  Definition epull_with (seg : list act) (s : epst) : epst :=
    epcomplete (fold_left epstep seg (estart_pull s)).

  Definition epull (s : epst) : epst := epull_with (sch (epulls (cs s))) s.

  Definition eresume (m : emstate) : option epst :=
    match m with
    | EPaused inner c => Some (Sched.init c inner)
    | ERunning s => Some s
    | EDone _ => None
    end.

  (* read_block(): Err = the error ticket the loop ran into *)
  Definition em_read_block (m : emstate) : emstate * res unit :=
    match eresume m with
    | Some s =>
        let s' := epull s in
        (ERunning s', match er_err (cs s') with Some e => Err e | None => Ok tt end)
    | None => (m, Panic)
    end.

  Fixpoint edrain (fuel : nat) (s : epst) : epst :=
    match fuel with
    | O => s
    | S k => if epenabled s Submit then edrain k (epstep s Submit) else s
    end.

  Definition epause (m : emstate) : option (list eframe * erdr) :=
    match m with
    | EPaused inner c => Some (inner, c)
    | ERunning s =>
        let c := cs s in
        let s1 := edrain (length (todo s))
                         (ewith_rdr s (mkER true (er_position c) (er_blk c) (epulls c) None)) in
        Some (todo s1, c)
    | EDone _ => None
    end.

  Definition ea_has_remaining (c : erdr) : bool := k_cur (er_blk c) <? len (k_data (er_blk c)).
  Definition ea_as_ref (c : erdr) : list N := skipn (N.to_nat (k_cur (er_blk c))) (k_data (er_blk c)).

  Definition em_fill_buf (m : emstate) : emstate * res (list N) :=
    if ea_has_remaining (em_rd m) then (m, Ok (ea_as_ref (em_rd m)))
    else match em_read_block m with
         | (m1, Ok _) => (m1, Ok (ea_as_ref (em_rd m1)))
         | (m1, Err e) => (m1, Err e)
         | (m1, Panic) => (m1, Panic)
         | (m1, OutOfFuel) => (m1, OutOfFuel)
         | (m1, Unmodelled) => (m1, Unmodelled)
         end.

  Definition em_consume (m : emstate) (n : N) : emstate :=
    let c := em_rd m in
    let b := er_blk c in
    em_with_rdr m (mkER (ewant c) (er_position c)
                        (mkBlk (k_pos b) (k_size b) (k_data b) (N.min (k_cur b + n) (len (k_data b))))
                        (epulls c) (er_err c)).

  Definition em_read (m : emstate) (n : N) : emstate * res (list N) :=
    match em_fill_buf m with
    | (m1, Ok src) => let out := firstn (N.to_nat n) src in (em_consume m1 (len out), Ok out)
    | (m1, r) => (m1, r)
    end.

  Fixpoint em_read_exact_loop (fuel : nat) (m : emstate) (rem : N) (acc : list N)
    : emstate * res (list N) :=
    match fuel with
    | O => (m, OutOfFuel)
    | S k =>
        if rem =? 0 then (m, Ok acc)
        else match em_read m rem with
             | (m', Ok bs) =>
                 if len bs =? 0 then (m', Err UnexpectedEof)
                 else em_read_exact_loop k m' (rem - len bs) (acc ++ bs)
             | (m', r) => (m', r)
             end
    end.

  Definition em_read_exact_std (m : emstate) (n : N) : emstate * res (list N) :=
    em_read_exact_loop (S (N.to_nat n)) m n [].

  Definition em_read_exact (m : emstate) (n : N) : emstate * res (list N) :=
    let src := ea_as_ref (em_rd m) in
    if n <=? len src then (em_consume m n, Ok (firstn (N.to_nat n) src))
    else em_read_exact_std m n.

  Fixpoint em_read_all_loop (fuel : nat) (m : emstate) (n : N) (acc : list N) : emstate * res (list N) :=
    match fuel with
    | O => (m, OutOfFuel)
    | S k =>
        match em_read m n with
        | (m', Ok bs) => if len bs =? 0 then (m', Ok acc) else em_read_all_loop k m' n (acc ++ bs)
        | (m', r) => (m', r)
        end
    end.

  Definition em_ahead (m : emstate) : list eframe :=
    match m with EPaused fs _ => fs | ERunning s => eremaining s | EDone _ => [] end.

  Definition em_read_all (m : emstate) (n : N) : emstate * res (list N) :=
    em_read_all_loop (S (S (N.to_nat (len (k_data (er_blk (em_rd m)))) + e_bytes_ahead (em_ahead m)))) m n [].

  Definition em_seek (f : efile) (m : emstate) (v : N) : emstate * res N :=
    let c := vcomp v in
    let u := vuncomp v in
    match epause m with
    | None => (m, Panic)
    | Some (_, c0) =>
        match e_drop_to f 0 c with
        | None => (m, Unmodelled)
        | Some r =>
            match em_read_block (EPaused r (mkER false c (er_blk c0) (epulls c0) None)) with
            | (m2, Ok _) =>
                let c2 := em_rd m2 in
                let b := if er_position c2 =? c then mkBlk c 0 [] 0 else er_blk c2 in
                let b' := mkBlk (k_pos b) (k_size b) (k_data b) (N.min u (len (k_data b))) in
                (em_with_rdr m2 (mkER false (er_position c2) b' (epulls c2) None), Ok v)
            | (m2, Err e) => (m2, Err e)
            | (m2, Panic) => (m2, Panic)
            | (m2, OutOfFuel) => (m2, OutOfFuel)
            | (m2, Unmodelled) => (m2, Unmodelled)
            end
        end
    end.

  Definition em_seek_with_index (f : efile) (idx : gzi_index) (m : emstate) (pos : N)
    : emstate * res N :=
    match gzi_query idx pos with
    | Ok v => match em_seek f m v with
              | (m', Ok _) => (m', Ok pos)
              | r => r
              end
    | Err e => (m, Err e)
    | Panic => (m, Panic)
    | OutOfFuel => (m, OutOfFuel)
    | Unmodelled => (m, Unmodelled)
    end.

  Definition em_virtual_position (c : erdr) : res N :=
    let b := er_blk c in
    if ea_has_remaining c then
      if (k_pos b <=? MAX_COMPRESSED_POSITION) && (k_cur b <=? MAX_UNCOMPRESSED_POSITION)
      then Ok (pack (k_pos b) (k_cur b)) else Panic
    else
      if k_pos b + k_size b <=? MAX_COMPRESSED_POSITION
      then Ok (pack (k_pos b + k_size b) 0) else Panic.

  Definition em_get_mut (f : efile) (m : emstate) : emstate * res N :=
    match epause m with
    | Some (inner, c) => (EPaused inner c, Ok (ecsum f - ecsum inner))
    | None => (m, Panic)
    end.

  Definition em_finish (f : efile) (m : emstate) : emstate * res N :=
    match epause m with
    | Some (inner, c) => (EDone c, Ok (ecsum f - ecsum inner))
    | None => (m, Panic)
    end.

  Definition em_step (f : efile) (idx : gzi_index) (m : emstate) (o : mop) : emstate * out :=
    match o with
    | MOp (Read n) => let '(m', r) := em_read m n in (m', OBytes r)
    | MOp (ReadExact n) => let '(m', r) := em_read_exact m n in (m', OBytes r)
    | MOp (ReadExactStd n) => let '(m', r) := em_read_exact_std m n in (m', OBytes r)
    | MOp FillBuf => let '(m', r) := em_fill_buf m in (m', OBytes r)
    | MOp (Consume n) => (em_consume m n, OUnit)
    | MOp (Seek v) => let '(m', r) := em_seek f m v in (m', OPos r)
    | MOp (SeekU p) => let '(m', r) := em_seek_with_index f idx m p in (m', OPos r)
    | MOp (ReadAll n) => let '(m', r) := em_read_all m n in (m', OBytes r)
    | GetMut => let '(m', r) := em_get_mut f m in (m', OPos r)
    | Finish => let '(m', r) := em_finish f m in (m', OPos r)
    end.

  Fixpoint em_run (f : efile) (idx : gzi_index) (m : emstate) (ops : list mop) : list (out * res N) :=
    match ops with
    | [] => []
    | o :: r =>
        let '(m', x) := em_step f idx m o in
        (x, em_virtual_position (em_rd m')) :: em_run f idx m' r
    end.

  Definition em_init (f : efile) : emstate := EPaused f (mkER false 0 blk0 0 None).
End EMt.

(* ---- entry points of the correspondence driver -------------------------------------------- *)

Definition c03_mt_reader_err_case (P : nat) (segs : list (list nat)) (f : efile) (idx : gzi_index)
  (ops : list mop) : list (out * res N) :=
  em_run P (sch_of segs) f idx (em_init f) ops.

(* the single-threaded Reader of the tree as it is *)
Definition c03_st_reader_err_case (f : efile) (idx : gzi_index) (ops : list op) : list (out * res N) :=
  e_run pinned_err_repaired f idx (e_init f) ops.
