(* The byte-level seek (SeekBytes.seek_bytes) and the frame-level seek (ReaderOps.seek) agree at
   every block offset the frame-level model accepts (frame boundaries and offsets at/after the
   end), for every in-block offset, on a byte string that ENCODES the frame list: a concatenation
   of frames each of which read_frame splits off and parse_block turns into (csize, data). *)
From Coq Require Import List NArith Bool Lia ZifyBool ZifyNat ZifyN.
From NV Require Import Base.LE Bgzf.Vpos Bgzf.Gzi Bgzf.ReaderOps Bgzf.SeekBytes Bgzf.SeekBytesProofs.
From NV Require Bgzf.Frame Bgzf.Reader Bgzf.Crc32 Bgzf.Inflate.
Import ListNotations.
Open Scope N_scope.

Section Boundary.
  Variable inflate : list N -> N -> option (list N).
  Hypothesis Hlen : forall c n d, inflate c n = Some d -> Frame.lenN d = n.

  Definition frame_enc (fr : list N) (b : frame) : Prop :=
    Reader.parse_block inflate fr = Frame.Ok (csize b, fdata b) /\
    forall rest, Reader.read_frame (fr ++ rest) = Frame.Ok (Some (fr, rest)).

  Inductive encodes : list N -> file -> Prop :=
  | enc_nil : encodes [] []
  | enc_cons : forall fr b fb f, frame_enc fr b -> encodes fb f -> encodes (fr ++ fb) (b :: f).

  Lemma frame_enc_len : forall fr b, frame_enc fr b ->
    csize b = Frame.lenN fr /\ (26 <= length fr)%nat.
  Proof.
    intros fr b [Hp Hr]. split.
    - unfold Reader.parse_block, Frame.parse_frame in Hp.
      destruct (Frame.lenN fr <? Frame.MIN_FRAME_SIZE); [discriminate|].
      destruct (negb _); [discriminate|].
      destruct (_ <=? Frame.BGZF_MAX_ISIZE); [|discriminate].
      destruct (inflate _ _) as [d|]; [|discriminate].
      destruct (Crc32.crc32 d =? _); [|discriminate].
      injection Hp as Hb _. symmetry. exact Hb.
    - specialize (Hr []). destruct (read_frame_some _ _ _ Hr) as (_ & _ & H26).
      unfold Frame.lenN in H26. lia.
  Qed.

  Lemma rnb_frames : forall fb f, encodes fb f -> forall fuel pos b,
    (length fb < fuel)%nat ->
    rnb inflate fuel fb pos b =
      match next_nonempty f pos with
      | None => (pos, b, Ok 0)
      | Some (fr, p, _, np) => (np, mkBlk p (csize fr) (flen fr) 0, Ok (flen fr))
      end.
  Proof.
    intros fb f He. induction He as [|fr b fb f Hfe He IH]; intros fuel pos b0 Hf;
      (destruct fuel as [|fuel]; [lia|]); cbn [rnb next_nonempty].
    - reflexivity.
    - destruct (frame_enc_len _ _ Hfe) as [Hcs H26]. destruct Hfe as [Hp Hr].
      rewrite (Hr fb). unfold Reader.parse_block in Hp.
      destruct (Frame.parse_frame fr) as [[[[bs cdata] crc] isize]|e|]; try discriminate.
      destruct (inflate cdata isize) as [d|] eqn:Hi; [|discriminate].
      destruct (Crc32.crc32 d =? crc); [|discriminate].
      injection Hp as Hb Hd. subst bs d.
      pose proof (Hlen _ _ _ Hi) as Hl.
      assert (His : isize = flen b) by (unfold flen, len; unfold Frame.lenN in Hl; lia).
      clear Hl. subst isize. destruct (0 <? flen b) eqn:Hz; [reflexivity|].
      rewrite app_length in Hf. rewrite IH by lia.
      destruct (next_nonempty f (pos + csize b)) as [[[[fr' p'] r'] np']|]; [reflexivity|].
      assert (flen b = 0) by lia. congruence.
  Qed.

  Lemma bytes_from_app : forall fr fb d, Frame.lenN fr <= d ->
    bytes_from (fr ++ fb) d = bytes_from fb (d - Frame.lenN fr).
  Proof.
    intros fr fb d Hd. unfold bytes_from, Frame.lenN in *. rewrite app_length.
    destruct (N.of_nat (length fb) <=? d - N.of_nat (length fr)) eqn:E.
    - destruct (N.of_nat (length fr + length fb) <=? d) eqn:E2; [reflexivity|lia].
    - destruct (N.of_nat (length fr + length fb) <=? d) eqn:E2; [lia|].
      rewrite skipn_app. rewrite skipn_all2 by lia. cbn [app]. f_equal. lia.
  Qed.

  Lemma drop_bytes : forall fb f, encodes fb f -> forall at_ c r,
    drop_to f at_ c = Some r -> at_ <= c -> encodes (bytes_from fb (c - at_)) r.
  Proof.
    intros fb f He. induction He as [|fr b fb f Hfe He IH]; intros at_ c r Hd Hle; cbn [drop_to] in Hd.
    - injection Hd as Hd. subst r. unfold bytes_from. destruct (_ <=? _); [constructor|].
      rewrite skipn_nil. constructor.
    - destruct (frame_enc_len _ _ Hfe) as [Hcs H26].
      destruct (c =? at_) eqn:E.
      + injection Hd as Hd. subst r. assert (Hz : c - at_ = 0) by lia. rewrite Hz.
        unfold bytes_from, Frame.lenN. rewrite app_length.
        destruct (_ <=? 0) eqn:E2; [lia|]. cbn [N.to_nat skipn]. constructor; assumption.
      + destruct (c <? at_ + csize b) eqn:E2; [discriminate|].
        rewrite bytes_from_app by lia. rewrite <- Hcs.
        replace (c - at_ - csize b) with (c - (at_ + csize b)) by lia.
        apply IH; [exact Hd|lia].
  Qed.

  Theorem seek_bytes_boundary : forall fb f st v r,
    encodes fb f -> drop_to f 0 (vcomp v) = Some r ->
    seek_bytes inflate fb (blk_of st) v
    = (snd (seek true f st v), virtual_position (fst (seek true f st v))).
  Proof.
    intros fb f st v r He Hd.
    pose proof (drop_bytes fb f He 0 (vcomp v) r Hd ltac:(lia)) as Her.
    rewrite N.sub_0_r in Her.
    unfold seek_bytes, seek. rewrite Hd.
    rewrite (rnb_frames _ _ Her) by lia.
    unfold read_nonempty_block. cbn [rest position].
    destruct (next_nonempty r (vcomp v)) as [[[[b p] r'] np]|].
    - cbn [andb]. destruct (flen b =? 0) eqn:Ez.
      + cbn [rest position buf fst snd]. unfold virtual_position, has_remaining, blk_vpos.
        cbn [cur blen bpos bsize k_cur k_len k_pos k_size]. reflexivity.
      + cbn [rest position buf fst snd bpos bsize blen]. unfold virtual_position, has_remaining, blk_vpos.
        cbn [cur blen bpos bsize k_cur k_len k_pos k_size]. reflexivity.
    - cbn [andb N.eqb]. cbn [rest position buf fst snd]. unfold virtual_position, has_remaining, blk_vpos.
      cbn [cur blen bpos bsize k_cur k_len k_pos k_size]. reflexivity.
  Qed.
End Boundary.

(* non-vacuity: the 28-byte EOF marker encodes the one-empty-frame file *)
Example encodes_eof : encodes Inflate.inflate Frame.eof_block [mkFrame 28 []].
Proof.
  rewrite <- (app_nil_r Frame.eof_block). constructor; [|constructor]. split.
  - vm_compute. reflexivity.
  - intros rest. unfold Reader.read_frame, Frame.lenN. rewrite app_length.
    change (length Frame.eof_block) with 28%nat.
    destruct (N.of_nat (28 + length rest) <? Frame.BGZF_HEADER_SIZE) eqn:E1; [unfold Frame.BGZF_HEADER_SIZE in E1; lia|].
    change (le_dec (Frame.slice (Frame.eof_block ++ rest) 16 18)) with 27.
    change (27 + 1 <? Frame.MIN_FRAME_SIZE) with false. cbv iota.
    destruct (N.of_nat (28 + length rest) <? 27 + 1) eqn:E2; [lia|].
    reflexivity.
Qed.
