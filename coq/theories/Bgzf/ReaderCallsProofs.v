(* The direct path of Read::read (parse_block_into_buf) is unobservable: for every source byte
   string (any damage) and every sequence of buffer lengths, the reader with the >= 64 KiB branch
   returns the same results (bytes / error kinds) and ends in the same state as the reader that
   always goes through fill_buf + copy + consume. *)
From Coq Require Import List Arith NArith Bool Lia.
From NV Require Import Base.LE Bgzf.Crc32 Bgzf.Frame Bgzf.Reader Bgzf.ReaderCalls.
Import ListNotations.
Open Scope N_scope.

Section Proofs.
  Variable inflate : list N -> N -> option (list N).
  Hypothesis H_len : forall c n d, inflate c n = Some d -> lenN d = n.

  (* Data invariant: pos <= len <= 65536 and the window has len - pos bytes *)
  Definition rinv (st : rstate) : Prop :=
    rcur st <= rblen st /\ rblen st <= BGZF_MAX_ISIZE /\ lenN (rwin st) = rblen st - rcur st.

  Definition exhausted (st : rstate) : Prop := rcur st = rblen st /\ rwin st = [].

  (* what the direct path leaves: pos = len, empty window *)
  Definition finish (st : rstate) : rstate :=
    mkR (rsrc st) (rposition st) (rbpos st) (rbsize st) (rblen st) (rblen st) [].

  Lemma finish_exhausted : forall st, exhausted st -> finish st = st.
  Proof. intros [s p b z l c w] [H1 H2]; simpl in *; subst; reflexivity. Qed.

  Lemma rinv_exhausted : forall st, rinv st -> r_has_remaining st = false -> exhausted st.
  Proof.
    intros st (H1 & H2 & H3) H. unfold r_has_remaining in H. apply N.ltb_ge in H.
    split; [lia|]. assert (lenN (rwin st) = 0) by lia.
    destruct (rwin st); [reflexivity|]. unfold lenN in H0; simpl in H0; lia.
  Qed.

  Lemma parse_frame_isize : forall fr bs cd crc isz,
    parse_frame fr = Ok (bs, cd, crc, isz) -> isz <= BGZF_MAX_ISIZE.
  Proof.
    intros fr bs cd crc isz. unfold parse_frame.
    destruct (lenN fr <? MIN_FRAME_SIZE); [discriminate|].
    destruct (negb _); [discriminate|].
    destruct (_ <=? BGZF_MAX_ISIZE) eqn:E; [|discriminate].
    intro H; inversion H; subst. apply N.leb_le in E; exact E.
  Qed.

  (* post-condition of one parse step / of the loading loop, slow mode *)
  Definition post (st : rstate) (r : res (list N)) : Prop :=
    match r with
    | Ok d => rwin st = d /\ rcur st + lenN d = rblen st /\ rblen st <= BGZF_MAX_ISIZE
    | _ => exhausted st /\ rblen st <= BGZF_MAX_ISIZE
    end.

  Lemma parse_step_rel : forall fr st, exhausted st -> rblen st <= BGZF_MAX_ISIZE ->
    let '(s1, r1) := parse_step inflate false fr st in
    parse_step inflate true fr st = (finish s1, r1) /\ post s1 r1 /\
    (forall d, r1 = Ok d -> rcur s1 = 0) /\ rsrc s1 = rsrc st /\ rposition s1 = rposition st.
  Proof.
    intros fr st Hex Hb. unfold parse_step.
    destruct (parse_frame fr) as [[[[bs cd] crc] isz]|e|] eqn:Epf;
      try (rewrite (finish_exhausted st Hex); repeat split; simpl; auto; try discriminate; apply Hex).
    pose proof (parse_frame_isize _ _ _ _ _ Epf) as Hi.
    destruct (inflate cd isz) as [d|] eqn:Ei.
    - destruct (crc32 d =? crc).
      + pose proof (H_len _ _ _ Ei). unfold finish; simpl. repeat split; auto; lia.
      + unfold finish; simpl. repeat split; auto; try discriminate; apply Hex.
    - unfold finish; simpl. repeat split; auto; try discriminate; apply Hex.
  Qed.

  Lemma load_rel : forall fuel st, exhausted st -> rblen st <= BGZF_MAX_ISIZE ->
    let '(s1, r1) := load inflate false fuel st in
    load inflate true fuel st = (finish s1, r1) /\ post s1 r1.
  Proof.
    induction fuel as [|fuel IH]; intros st Hex Hb; cbn [load].
    - rewrite (finish_exhausted st Hex). split; [reflexivity|]. split; assumption.
    - assert (Hs : forall s, exhausted (set_src st s) /\ rblen (set_src st s) <= BGZF_MAX_ISIZE)
        by (intro s; destruct Hex; repeat split; simpl; auto).
      destruct (read_frame (rsrc st)) as [[[fr rest]|]|e|] eqn:Erf.
      + destruct (Hs rest) as [Hex' Hb'].
        pose proof (parse_step_rel fr (set_src st rest) Hex' Hb') as P.
        destruct (parse_step inflate false fr (set_src st rest)) as [s1 r1].
        destruct P as (P1 & P2 & P3 & P4 & P5). rewrite P1.
        destruct r1 as [d|e|]; try (split; [reflexivity|exact P2]).
        simpl. destruct P2 as (W & C & B). specialize (P3 d eq_refl).
        destruct (0 <? rblen s1) eqn:Enz.
        * split; [unfold finish; simpl; reflexivity|]. simpl. repeat split; auto.
        * apply N.ltb_ge in Enz.
          assert (Hz : rblen s1 = 0) by lia.
          assert (Hd : d = []).
          { destruct d; [reflexivity|]. unfold lenN in C; simpl in C; lia. }
          rewrite Hd in W.
          set (s2 := mkR (rsrc s1) (rposition s1 + rbsize s1) (rposition s1) (rbsize s1) (rblen s1) (rcur s1) (rwin s1)).
          assert (E2 : mkR (rsrc s1) (rposition s1 + rbsize s1) (rposition s1) (rbsize s1) (rblen s1) (rblen s1) [] = s2).
          { unfold s2. rewrite W, Hz, P3. reflexivity. }
          rewrite E2. apply IH.
          -- unfold s2, exhausted; simpl. split; [lia|exact W].
          -- unfold s2; simpl; lia.
      + destruct (Hs []) as [Hex' Hb']. rewrite (finish_exhausted _ Hex').
        split; [reflexivity|]. destruct Hex as [Hc Hw]. unfold post, lenN; simpl. repeat split; auto; lia.
      + destruct e; destruct (Hs []) as [Hex' Hb']; destruct (Hs (skipn 18 (rsrc st))) as [Hex'' Hb''];
          rewrite ?(finish_exhausted _ Hex'), ?(finish_exhausted _ Hex''); (split; [reflexivity|split; assumption]).
      + rewrite (finish_exhausted st Hex). split; [reflexivity|split; assumption].
  Qed.

  Lemma firstn_all_N : forall (l : list N) n, lenN l <= n -> firstn (N.to_nat n) l = l.
  Proof. intros l n H. apply firstn_all2. unfold lenN in H. lia. Qed.

  Lemma skipn_all_N : forall (l : list N), skipn (N.to_nat (lenN l)) l = [].
  Proof. intros l. apply skipn_all2. unfold lenN. lia. Qed.

  (* ONE CALL: same result, same state *)
  Theorem read_fast_eq_slow : forall st n, rinv st ->
    read_gen inflate true st n = read_gen inflate false st n.
  Proof.
    intros st n Hinv. unfold read_gen. cbn [andb].
    destruct (r_has_remaining st) eqn:Er; cbn [andb negb]; [reflexivity|].
    destruct (BGZF_MAX_ISIZE <=? n) eqn:En; [|reflexivity].
    apply N.leb_le in En.
    pose proof (rinv_exhausted st Hinv Er) as Hex.
    destruct Hinv as (_ & Hb & _).
    pose proof (load_rel (load_fuel st) st Hex Hb) as L.
    destruct (load inflate false (load_fuel st) st) as [s1 r1].
    destruct L as [L1 L2]. rewrite L1.
    destruct r1 as [d|e|]; simpl in L2;
      try (destruct L2 as [L2 _]; rewrite (finish_exhausted _ L2); reflexivity).
    destruct L2 as (W & C & B).
    assert (Hdn : lenN d <= n) by lia.
    rewrite W, (firstn_all_N d n Hdn). f_equal.
    unfold r_consume, finish. rewrite W, skipn_all_N. f_equal. lia.
  Qed.

  (* the invariant is kept by every call (slow reader), whatever the result *)
  Lemma load_false_inv : forall fuel st, exhausted st -> rblen st <= BGZF_MAX_ISIZE ->
    rinv (fst (load inflate false fuel st)).
  Proof.
    intros fuel st Hex Hb. pose proof (load_rel fuel st Hex Hb) as L.
    destruct (load inflate false fuel st) as [s1 r1]. destruct L as [_ P]. simpl.
    unfold rinv. destruct r1; simpl in P.
    - destruct P as (W & C & B). rewrite W. repeat split; lia.
    - destruct P as [[C W] B]. rewrite W, C. unfold lenN; simpl. repeat split; lia.
    - destruct P as [[C W] B]. rewrite W, C. unfold lenN; simpl. repeat split; lia.
  Qed.

  Lemma r_consume_inv : forall st k, rinv st -> k <= lenN (rwin st) -> rinv (r_consume st k).
  Proof.
    intros st k (H1 & H2 & H3) Hk. unfold rinv, r_consume; simpl.
    repeat split; try lia. unfold lenN in *. rewrite skipn_length. lia.
  Qed.

  Lemma firstn_len_le : forall (l : list N) n, lenN (firstn n l) <= lenN l.
  Proof. intros. unfold lenN. rewrite firstn_length. lia. Qed.

  Lemma read_slow_inv : forall st n, rinv st -> rinv (fst (read_gen inflate false st n)).
  Proof.
    intros st n Hinv. unfold read_gen. cbn [andb].
    destruct (r_has_remaining st) eqn:Er.
    - simpl. apply r_consume_inv; [assumption|apply firstn_len_le].
    - pose proof (rinv_exhausted st Hinv Er) as Hex. destruct Hinv as (_ & Hb & _).
      pose proof (load_false_inv (load_fuel st) st Hex Hb) as I.
      destruct (load inflate false (load_fuel st) st) as [s1 r1]. simpl in I.
      destruct r1; simpl; try assumption.
      apply r_consume_inv; [assumption|apply firstn_len_le].
  Qed.

  Lemma rinit_inv : forall src, rinv (rinit src).
  Proof. intro. unfold rinv, rinit, BGZF_MAX_ISIZE; simpl. unfold lenN; simpl. repeat split; lia. Qed.

  (* EVERY SEQUENCE OF CALLS from any state that satisfies the data invariant *)
  Theorem run_reads_fast_eq_slow : forall ns st, rinv st ->
    run_reads inflate true st ns = run_reads inflate false st ns.
  Proof.
    induction ns as [|n ns IH]; intros st Hinv; simpl; [reflexivity|].
    rewrite (read_fast_eq_slow st n Hinv).
    pose proof (read_slow_inv st n Hinv) as I.
    destruct (read_gen inflate false st n) as [s1 r1]. simpl in I.
    rewrite (IH s1 I). reflexivity.
  Qed.

  (* every file, every sequence of buffer lengths, from a fresh reader *)
  Theorem reader_direct_path_unobservable : forall src ns,
    run_reads inflate true (rinit src) ns = run_reads inflate false (rinit src) ns.
  Proof. intros. apply run_reads_fast_eq_slow, rinit_inv. Qed.
End Proofs.
