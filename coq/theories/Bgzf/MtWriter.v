(* Model of noodles-bgzf MultithreadedWriter (src/io/multithreaded_writer.rs, .../builder.rs) as an
   instance of the ticket pipeline NV.Io.Sched, next to the single-threaded bgzf::io::Writer.

   Application thread (identical staging logic in Writer::write/flush and
   MultithreadedWriter::write/flush):  a staging buffer of at most MAX_BUF bytes; [write] copies
   min(remaining, len) bytes and flushes when the buffer is full; [flush] submits the buffer as one
   block when it is non-empty; [finish] = flush, close the channel, join the writer thread, which
   appends the EOF marker.  Blocks are described by (offset in the uncompressed stream, length).

   Pool task        = compress one block;  [frame_of b] is the sequence of write_all calls that
                      write_frame makes for the compressed block (11 header calls, CDATA, CRC32, ISIZE).
   Consumer thread  = spawn_writer: write_frame to the sink; the first sink error ends the thread.
   Sink             = accepts chunks until the call with index [fail_at] (nv::adversary::FaultySink
                      with one Fault::Fail), which returns an error. *)
From Coq Require Import List Arith Lia Bool NArith.
From NV Require Import Io.Sched.
Import ListNotations.
Local Open Scope N_scope.

Definition MAX_BUF : N := 65495.   (* BGZF_MAX_ISIZE - BGZF_HEADER_SIZE - TRAILER_SIZE - 15 *)

Inductive op := WriteAll (n : N) | Flush.
Definition blk := (N * N)%type.     (* (offset, length) of a block's uncompressed payload *)

(* std::io::Write::write_all over MultithreadedWriter::write: state = (staged bytes, offset of the
   staging buffer's first byte) *)
Fixpoint write_loop (fuel : nat) (buf off n : N) : (N * N) * list blk :=
  match fuel with
  | O => ((buf, off), [])
  | S k =>
    if n =? 0 then ((buf, off), []) else
    let amt := N.min (MAX_BUF - buf) n in
    let buf' := buf + amt in
    if buf' <? MAX_BUF then write_loop k buf' off (n - amt)            (* has_remaining: no flush *)
    else let '(s, bs) := write_loop k 0 (off + buf') (n - amt) in      (* flush -> send *)
         (s, (off, buf') :: bs)
  end.

Definition flush_blocks (s : N * N) : (N * N) * list blk :=
  let '(buf, off) := s in
  if buf =? 0 then (s, []) else ((0, off + buf), [(off, buf)]).

Definition stage_op (s : N * N) (o : op) : (N * N) * list blk :=
  match o with
  | WriteAll n => let '(buf, off) := s in write_loop (N.to_nat (n / MAX_BUF) + 3) buf off n
  | Flush => flush_blocks s
  end.

Fixpoint stage_ops (s : N * N) (ops : list op) : (N * N) * list blk :=
  match ops with
  | [] => (s, [])
  | o :: ops' => let '(s1, b1) := stage_op s o in
                 let '(s2, b2) := stage_ops s1 ops' in (s2, b1 ++ b2)
  end.

(* all blocks submitted by the op sequence followed by finish() *)
Definition stage (ops : list op) : list blk :=
  let '(s, bs) := stage_ops (0, 0) ops in bs ++ snd (flush_blocks s).

Local Close Scope N_scope.

(* ------------------------------------------------------------------ the sink *)
Section Sink.
  Variable chunk : Type.
  Record sink := mk_sink { acc : list chunk; calls : nat; serr : bool }.
  Variable fail_at : option nat.

  Definition sink_write (k : sink) (c : chunk) : sink :=
    if serr k then k else
    match fail_at with
    | Some j => if Nat.eqb j (calls k) then mk_sink (acc k) (S (calls k)) true
                else mk_sink (acc k ++ [c]) (S (calls k)) false
    | None => mk_sink (acc k ++ [c]) (S (calls k)) false
    end.

  (* write_frame: the calls in order; `?` after each, i.e. nothing more once one failed *)
  Definition write_frame (k : sink) (fr : list chunk) : sink := fold_left sink_write fr k.
  Definition sink0 : sink := mk_sink [] 0 false.
End Sink.
Arguments mk_sink {chunk}.
Arguments acc {chunk}.
Arguments calls {chunk}.
Arguments serr {chunk}.
Arguments sink_write {chunk}.
Arguments write_frame {chunk}.
Arguments sink0 {chunk}.

(* ------------------------------------------------------------------ the two writers *)
Section Writer.
  Variable chunk : Type.
  Variable frame_of : blk -> list chunk.
  Variable eof : chunk.
  Variable fail_at : option nat.
  Variable P : nat.                     (* rayon::current_num_threads() *)

  (* write_tx is bounded(P); the writer thread holds one more ticket outside the channel *)
  Definition w_can_submit (n : nat) (h : bool) : bool := n <? P.

  Definition w_init (ops : list op) : st blk (sink chunk) := init sink0 (stage ops).
  Definition w_ready (b : blk) : bool := false.   (* every block gets a compress task *)
  Definition w_step := step frame_of w_ready (write_frame fail_at) serr w_can_submit P.
  Definition w_run (ops : list op) (sched : list act) : st blk (sink chunk) :=
    run frame_of w_ready (write_frame fail_at) serr w_can_submit P sink0 (stage ops) sched.
  Definition w_final (s : st blk (sink chunk)) : bool := final serr s.

  (* after the channel is closed the writer thread appends the EOF marker unless it already failed;
     the joined thread result (Err iff serr) is what finish()/write()/flush() return *)
  Definition finish_sink (k : sink chunk) : sink chunk := if serr k then k else sink_write fail_at k eof.

  Definition mt_writer (ops : list op) (sched : list act) : sink chunk := finish_sink (cs (w_run ops sched)).

  (* single-threaded Writer: every op stages; each staged block is compressed and written at once;
     the first error is returned to the caller, who stops; try_finish appends EOF *)
  Definition st_blocks (k : sink chunk) (bs : list blk) : sink chunk :=
    st_consume (write_frame fail_at) serr k (map frame_of bs).

  Fixpoint st_ops (s : N * N) (k : sink chunk) (ops : list op) : (N * N) * sink chunk :=
    match ops with
    | [] => (s, k)
    | o :: ops' => let '(s1, bs) := stage_op s o in
                   let k1 := st_blocks k bs in
                   if serr k1 then (s1, k1) else st_ops s1 k1 ops'
    end.

  Definition st_writer_direct (ops : list op) : sink chunk :=
    let '(s, k) := st_ops (0%N, 0%N) sink0 ops in
    if serr k then k else finish_sink (st_blocks k (snd (flush_blocks s))).

  Definition st_writer (ops : list op) : sink chunk :=
    finish_sink (st_blocks sink0 (stage ops)).
End Writer.

(* ------------------------------------------------------------------ executable instance (extracted)
   chunks are symbolic: (block, index of the write_all call inside write_frame); 14 calls per
   frame; the EOF marker is one call, written as index 14 of block (0,0). *)
Definition sym_chunk := (blk * nat)%type.
Definition sym_frame (b : blk) : list sym_chunk := map (fun i => (b, i)) (seq 0 14).
Definition sym_eof : sym_chunk := ((0%N, 0%N), 14).

(* observation: blocks whose frame was written completely, EOF written?, sink write calls, error? *)
Definition wobs (k : sink sym_chunk) : list blk * bool * nat * bool :=
  (map fst (filter (fun c => Nat.eqb (snd c) 13) (acc k)),
   existsb (fun c => Nat.eqb (snd c) 14) (acc k), calls k, serr k).

(* run the multithreaded writer under the schedule the harness forces with release order [rel];
   None = the release order is infeasible for this pool size (the model is stuck) *)
Definition c03_writer_model (P : nat) (fail_at : option nat) (ops : list op) (rel : list nat)
  : option (list blk * bool * nat * bool) :=
  let xs := stage ops in
  let '(s, _) := drive sym_frame w_ready (write_frame fail_at) serr (w_can_submit P) P
                       (5 * length xs + 1) (init sink0 xs) rel in
  if final serr s then Some (wobs (finish_sink sym_chunk sym_eof fail_at (cs s))) else None.

Definition c03_st_writer_model (fail_at : option nat) (ops : list op) : list blk * bool * nat * bool :=
  wobs (st_writer_direct sym_chunk sym_frame sym_eof fail_at ops).
