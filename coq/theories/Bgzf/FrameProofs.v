(* Frame layout facts: length / BSIZE arithmetic, the writer's frame parses back to its parts,
   the EOF marker is the frame of the empty block. *)
From Coq Require Import List Arith NArith Bool Lia ZifyBool ZifyNat ZifyN.
From NV Require Import Base.LE Bgzf.Crc32 Bgzf.Frame.
Import ListNotations.
Open Scope N_scope.

Lemma lenN_nil : forall A : Type, lenN (@nil A) = 0.
Proof. reflexivity. Qed.

Lemma lenN_app : forall (A : Type) (a b : list A), lenN (a ++ b) = lenN a + lenN b.
Proof. intros A a b. unfold lenN. rewrite app_length. lia. Qed.

Lemma lenN_cons : forall (A : Type) (x : A) (l : list A), lenN (x :: l) = 1 + lenN l.
Proof. intros A x l. unfold lenN. cbn [length]. lia. Qed.

Lemma lenN_0 : forall (A : Type) (l : list A), lenN l = 0 -> l = [].
Proof. intros A l H. destruct l as [|x l]; [reflexivity|]. rewrite lenN_cons in H. lia. Qed.

Lemma to_nat_lenN : forall (A : Type) (l : list A), N.to_nat (lenN l) = length l.
Proof. intros A l. unfold lenN. apply Nat2N.id. Qed.

Lemma firstn_app_exact : forall (A : Type) (a b : list A) n, length a = n -> firstn n (a ++ b) = a.
Proof.
  intros A a b n Hn. subst n. rewrite firstn_app, Nat.sub_diag, firstn_all. cbn [firstn].
  apply app_nil_r.
Qed.

Lemma skipn_app_exact : forall (A : Type) (a b : list A) n, length a = n -> skipn n (a ++ b) = b.
Proof.
  intros A a b n Hn. subst n. rewrite skipn_app, Nat.sub_diag, skipn_all. reflexivity.
Qed.

Lemma header_prefix_length : length header_prefix = 16%nat.
Proof. reflexivity. Qed.

Lemma frame_bytes_lenN : forall c crc isz, lenN (frame_bytes c crc isz) = 26 + lenN c.
Proof.
  intros c crc isz. unfold frame_bytes. rewrite !lenN_app.
  assert (H1 : lenN header_prefix = 16) by reflexivity.
  assert (H2 : forall n, lenN (le16 n) = 2) by (intros n; unfold lenN; rewrite le16_length; reflexivity).
  assert (H3 : forall n, lenN (le32 n) = 4) by (intros n; unfold lenN; rewrite le32_length; reflexivity).
  rewrite H1, H2, !H3. lia.
Qed.

Lemma frame_bytes_length : forall c crc isz, length (frame_bytes c crc isz) = (26 + length c)%nat.
Proof.
  intros c crc isz. pose proof (frame_bytes_lenN c crc isz) as H. unfold lenN in H. lia.
Qed.

(* write_frame succeeds exactly when the compressed data fit the 16-bit BSIZE *)
Lemma write_frame_ok :
  forall c crc isz, lenN c <= 65510 -> isz <= 4294967295 ->
    write_frame c crc isz = (frame_bytes c crc isz, Ok (26 + lenN c)).
Proof.
  intros c crc isz Hc Hi. unfold write_frame, BGZF_HEADER_SIZE, TRAILER_SIZE.
  destruct (18 + lenN c + 8 - 1 <=? 65535) eqn:E1; [|lia].
  destruct (isz <=? 4294967295) eqn:E2; [|lia].
  f_equal. f_equal. lia.
Qed.

Lemma write_frame_too_large :
  forall c crc isz, 65510 < lenN c -> write_frame c crc isz = (header_prefix, Err InvalidInput).
Proof.
  intros c crc isz Hc. unfold write_frame, BGZF_HEADER_SIZE, TRAILER_SIZE.
  destruct (18 + lenN c + 8 - 1 <=? 65535) eqn:E1; [lia|reflexivity].
Qed.

(* BSIZE arithmetic: the two BSIZE bytes of a frame decode to (frame length - 1) *)
Definition bsize_of (frame : list N) : N := le_dec (slice frame 16 18).

Lemma bsize_of_frame_app :
  forall c crc isz rest, lenN c <= 65510 ->
    bsize_of (frame_bytes c crc isz ++ rest) + 1 = lenN (frame_bytes c crc isz).
Proof.
  intros c crc isz rest Hc. rewrite frame_bytes_lenN. unfold bsize_of, slice, frame_bytes.
  rewrite <- app_assoc. rewrite (skipn_app_exact _ header_prefix _ 16 header_prefix_length).
  rewrite <- app_assoc. change (18 - 16)%nat with 2%nat.
  rewrite (firstn_app_exact _ (le16 _) _ 2 (le16_length _)).
  unfold le16. rewrite le_dec_le_bytes.
  - unfold BGZF_HEADER_SIZE, TRAILER_SIZE. lia.
  - unfold BGZF_HEADER_SIZE, TRAILER_SIZE. change (256 ^ N.of_nat 2) with 65536. lia.
Qed.

Lemma bsize_of_frame :
  forall c crc isz, lenN c <= 65510 ->
    bsize_of (frame_bytes c crc isz) + 1 = lenN (frame_bytes c crc isz).
Proof.
  intros c crc isz Hc. rewrite <- (app_nil_r (frame_bytes c crc isz)) at 1.
  apply bsize_of_frame_app. exact Hc.
Qed.

(* parse_frame on any 18-byte header ++ cdata ++ 8-byte trailer *)
Lemma parse_frame_split :
  forall h c t, length h = 18%nat -> length t = 8%nat ->
    parse_frame (h ++ c ++ t) =
      if negb (is_valid_header h) then Err InvalidData
      else if le_dec (skipn 4 t) <=? BGZF_MAX_ISIZE
           then Ok (26 + lenN c, c, le_dec (firstn 4 t), le_dec (skipn 4 t))
           else Err InvalidData.
Proof.
  intros h c t Hh Ht. unfold parse_frame.
  assert (HL : lenN (h ++ c ++ t) = 26 + lenN c).
  { rewrite !lenN_app. unfold lenN at 1 3. rewrite Hh, Ht. lia. }
  assert (Hlen : length (h ++ c ++ t) = (18 + length c + 8)%nat).
  { rewrite !app_length. lia. }
  unfold MIN_FRAME_SIZE. destruct (lenN (h ++ c ++ t) <? 26) eqn:E; [lia|].
  rewrite (firstn_app_exact _ h _ 18 Hh).
  replace (length (h ++ c ++ t) - 8)%nat with (18 + length c)%nat by lia.
  assert (Hsk : skipn (18 + length c) (h ++ c ++ t) = t).
  { rewrite app_assoc. apply skipn_app_exact. rewrite app_length. lia. }
  rewrite Hsk. unfold slice. rewrite (skipn_app_exact _ h _ 18 Hh).
  replace (18 + length c - 18)%nat with (length c) by lia.
  rewrite (firstn_app_exact _ c t (length c) eq_refl). rewrite HL. reflexivity.
Qed.

Lemma valid_header_prefix : forall x y, is_valid_header (header_prefix ++ [x; y]) = true.
Proof. intros x y. reflexivity. Qed.

Lemma parse_frame_frame_bytes :
  forall c crc isz, crc < 4294967296 -> isz <= 65536 ->
    parse_frame (frame_bytes c crc isz) = Ok (26 + lenN c, c, crc, isz).
Proof.
  intros c crc isz Hcrc Hisz. unfold frame_bytes.
  set (b := BGZF_HEADER_SIZE + lenN c + TRAILER_SIZE - 1).
  rewrite (app_assoc header_prefix (le16 b)).
  rewrite parse_frame_split.
  - unfold le16. cbn [le_bytes]. rewrite valid_header_prefix. cbn [negb].
    rewrite (firstn_app_exact N (le32 crc) (le32 isz) 4 (le32_length crc)).
    rewrite (skipn_app_exact N (le32 crc) (le32 isz) 4 (le32_length crc)).
    unfold le32. rewrite !le_dec_le_bytes.
    + unfold BGZF_MAX_ISIZE. destruct (isz <=? 65536) eqn:E; [reflexivity|lia].
    + change (256 ^ N.of_nat 4) with 4294967296. exact Hcrc.
    + change (256 ^ N.of_nat 4) with 4294967296. lia.
  - rewrite app_length, header_prefix_length, le16_length. reflexivity.
  - rewrite app_length, !le32_length. reflexivity.
Qed.

(* the 28-byte EOF marker is literally the frame of the empty block compressed to 03 00 *)
Lemma eof_block_is_frame : eof_block = frame_bytes [3; 0] 0 0.
Proof. vm_compute. reflexivity. Qed.

Lemma eof_block_length : length eof_block = 28%nat.
Proof. reflexivity. Qed.

Lemma parse_frame_eof : parse_frame eof_block = Ok (28, [3; 0], 0, 0).
Proof. vm_compute. reflexivity. Qed.

(* fixed bytes of every frame *)
Lemma frame_bytes_header :
  forall c crc isz, firstn 16 (frame_bytes c crc isz) = header_prefix.
Proof.
  intros c crc isz. unfold frame_bytes. apply firstn_app_exact. reflexivity.
Qed.

Lemma frame_bytes_ok :
  forall c crc isz, bytes_ok c -> bytes_ok (frame_bytes c crc isz).
Proof.
  intros c crc isz Hc. unfold frame_bytes, bytes_ok.
  repeat (apply Forall_app; split); try apply le16_bytes_ok; try apply le32_bytes_ok; try exact Hc.
  unfold header_prefix, byte_ok. repeat constructor.
Qed.
