(* BGZF frame layout: noodles-bgzf/src/io/writer/frame.rs (write_frame, write_header,
   write_trailer), the EOF marker of io/writer.rs, and the frame parser of io/reader/frame.rs
   (split_frame, is_valid_header, parse_trailer, parse_frame). *)
From Coq Require Import List Arith NArith Bool.
From NV Require Import Base.LE.
Import ListNotations.
Open Scope N_scope.

Inductive error := InvalidInput | InvalidData | UnexpectedEof | WriteZero.

Inductive res (A : Type) : Type :=
| Ok (a : A)
| Err (e : error)
| Panic.
Arguments Ok {A} a.
Arguments Err {A} e.
Arguments Panic {A}.

Definition lenN {A : Type} (l : list A) : N := N.of_nat (length l).

Definition BGZF_HEADER_SIZE : N := 18.
Definition TRAILER_SIZE : N := 8.
Definition BGZF_MAX_ISIZE : N := 65536.
Definition MIN_FRAME_SIZE : N := 26.

(* ID1 ID2 CM FLG MTIME(4) XFL OS XLEN(2) SI1 SI2 SLEN(2): everything write_header emits before BSIZE *)
Definition header_prefix : list N :=
  [31; 139; 8; 4; 0; 0; 0; 0; 0; 255; 6; 0; 66; 67; 2; 0].

(* io/writer.rs BGZF_EOF *)
Definition eof_block : list N :=
  [31; 139; 8; 4; 0; 0; 0; 0; 0; 255; 6; 0; 66; 67; 2; 0; 27; 0; 3; 0; 0; 0; 0; 0; 0; 0; 0; 0].

(* the bytes of a well-formed frame *)
Definition frame_bytes (cdata : list N) (crc isize : N) : list N :=
  header_prefix ++ le16 (BGZF_HEADER_SIZE + lenN cdata + TRAILER_SIZE - 1)
    ++ cdata ++ le32 crc ++ le32 isize.

(* write_frame on a sink that accepts everything: (bytes appended to the sink, result).
   write_header emits the 16 fixed bytes before it converts block_size - 1 to u16, so a frame
   that is too large leaves those 16 bytes behind and fails with InvalidInput; likewise the
   ISIZE conversion to u32 happens after the CRC has been written. *)
Definition write_frame (cdata : list N) (crc isize : N) : list N * res N :=
  let block_size := BGZF_HEADER_SIZE + lenN cdata + TRAILER_SIZE in
  if block_size - 1 <=? 65535 then
    if isize <=? 4294967295 then (frame_bytes cdata crc isize, Ok block_size)
    else (header_prefix ++ le16 (block_size - 1) ++ cdata ++ le32 crc, Err InvalidInput)
  else (header_prefix, Err InvalidInput).

(* ---- reader side ---- *)

Definition slice (l : list N) (a b : nat) : list N := firstn (b - a) (skipn a l).

Fixpoint list_eqb (a b : list N) : bool :=
  match a, b with
  | [], [] => true
  | x :: a', y :: b' => (x =? y) && list_eqb a' b'
  | _, _ => false
  end.

(* is_valid_header: MTIME, XFL, OS and BSIZE are not looked at *)
Definition is_valid_header (h : list N) : bool :=
  list_eqb (slice h 0 2) [31; 139]
  && (nth 2 h 0 =? 8)
  && (nth 3 h 0 =? 4)
  && list_eqb (slice h 10 12) [6; 0]
  && list_eqb (slice h 12 14) [66; 67]
  && list_eqb (slice h 14 16) [2; 0].

(* parse_frame: (block_size, cdata, crc32, isize) *)
Definition parse_frame (src : list N) : res (N * list N * N * N) :=
  if lenN src <? MIN_FRAME_SIZE then Err UnexpectedEof
  else
    let header := firstn 18 src in
    let tstart := (length src - 8)%nat in
    let cdata := slice src 18 tstart in
    let trailer := skipn tstart src in
    if negb (is_valid_header header) then Err InvalidData
    else
      let crc := le_dec (firstn 4 trailer) in
      let isize := le_dec (skipn 4 trailer) in
      if isize <=? BGZF_MAX_ISIZE then Ok (lenN src, cdata, crc, isize)
      else Err InvalidData.
