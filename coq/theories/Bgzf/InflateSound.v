(* SOUNDNESS of the inflater for the declarative stream syntax of InflateSpec: whenever
   [inflate_raw limit c] returns [out], the bits of c begin with a well-formed stream of DEFLATE
   blocks (stored / fixed / dynamic with a valid header, valid LZ77 tokens, BFINAL on the last
   block only) that denotes exactly [out].  So the reader never accepts CDATA that are not a
   DEFLATE stream, and what it returns is what that stream stands for. *)
From Coq Require Import List Arith NArith ZArith Bool Lia ZifyBool ZifyNat ZifyN.
From NV Require Import Base.LE Bgzf.Frame Bgzf.FrameProofs Bgzf.Inflate Bgzf.InflateProofs
  Bgzf.InflateFuel Bgzf.InflateHuffman Bgzf.InflateFixed Bgzf.InflateTokens Bgzf.InflateBody
  Bgzf.InflateDynamic Bgzf.InflateSpec Bgzf.InflateStream.
Import ListNotations.
Open Scope N_scope.

(* ---- primitives ---- *)

Lemma getbits_sound : forall n s v s', getbits n s = Some (v, s') ->
  bits_all s = bits_of n v ++ bits_all s' /\ v < 2 ^ N.of_nat n.
Proof.
  induction n as [|n IH]; intros s v s' H; cbn [getbits] in H.
  - injection H as H1 H2. subst v s'. split; [reflexivity|]. change (2 ^ N.of_nat 0) with 1. lia.
  - pose proof (getbit_spec s) as G.
    destruct (getbit s) as [[b s1]|]; [|discriminate].
    destruct (getbits n s1) as [[v1 s2]|] eqn:E; [|discriminate].
    injection H as H1 H2. subst s'. destruct (IH _ _ _ E) as [I1 I2].
    assert (Hv : v = N.b2n b + 2 * v1) by (destruct b; cbn [N.b2n]; lia).
    split.
    + cbn [bits_of]. rewrite Hv. rewrite <- N.bit0_odd, N.add_b2n_double_bit0.
      rewrite N.div2_div, N.add_b2n_double_div2. rewrite G, I1. reflexivity.
    + rewrite Nat2N.inj_succ, N.pow_succ_r'. destruct b; cbn [N.b2n] in Hv; lia.
Qed.

Lemma len_range_table :
  forallb (fun i => (3 <=? nth i len_base 0) && (nth i len_base 0 + 2 ^ N.of_nat (nth i len_extra O) <=? 259))
          (seq 0 29) = true.
Proof. vm_compute. reflexivity. Qed.

Lemma dist_range_table :
  forallb (fun j => (1 <=? nth j dist_base 0) && (nth j dist_base 0 + 2 ^ N.of_nat (nth j dist_extra O) <=? 32769))
          (seq 0 30) = true.
Proof. vm_compute. reflexivity. Qed.

Lemma len_coding_range : forall len i e, len_coding len i e -> 3 <= len <= 258.
Proof.
  intros len i e [H1 [H2 H3]]. pose proof len_range_table as T. rewrite forallb_forall in T.
  specialize (T i ltac:(apply in_seq; lia)). apply andb_prop in T. destruct T as [T1 T2]. lia.
Qed.

Lemma dist_coding_range : forall dist j e, dist_coding dist j e -> 1 <= dist <= 32768.
Proof.
  intros dist j e [H1 [H2 H3]]. pose proof dist_range_table as T. rewrite forallb_forall in T.
  specialize (T j ltac:(apply in_seq; lia)). apply andb_prop in T. destruct T as [T1 T2]. lia.
Qed.

(* ---- the body of a Huffman block ---- *)

Lemma codes_sound : forall f limit lt dt s o s' o',
  win_ok o -> codes f limit lt dt s o = Some (s', o') ->
  exists ts bb, body_bits lt dt ts bb /\ tokens_ok ts (ob_list o) /\
    bits_all s = bb ++ bits_all s' /\ ob_list o' = expand ts (ob_list o).
Proof.
  induction f as [|f IH]; intros limit lt dt s o s' o' Hw H; cbn [codes] in H; [discriminate|].
  destruct (hdecode lt s) as [[sym s1]|] eqn:E; [|discriminate].
  destruct (hdecode_sound _ _ _ _ E) as [p [Hp Hb]].
  destruct (sym <? 256) eqn:E1.
  { destruct (limit <=? ob_len o); [discriminate|].
    destruct (IH _ _ _ _ _ _ _ (win_ok_push sym o Hw) H) as [ts [bb [B1 [B2 [B3 B4]]]]].
    rewrite ob_list_push in B2, B4.
    exists (TLit sym :: ts), (p ++ bb). split; [constructor; [constructor; exact Hp|exact B1]|].
    split; [cbn [tokens_ok expand1]; split; [lia|exact B2]|].
    split; [rewrite Hb, B3, app_assoc; reflexivity|exact B4]. }
  destruct (sym =? 256) eqn:E2.
  { injection H as H1 H2. subst s1 o'. apply N.eqb_eq in E2. subst sym.
    exists [], p. split; [constructor; exact Hp|]. split; [exact I|]. split; [exact Hb|reflexivity]. }
  cbv zeta in H.
  set (i := N.to_nat (sym - 257)) in *.
  destruct (29 <=? i)%nat eqn:E3; [discriminate|].
  destruct (getbits _ s1) as [[e s2]|] eqn:G1; [|discriminate].
  destruct (getbits_sound _ _ _ _ G1) as [Hb1 He].
  destruct (hdecode dt s2) as [[ds s3]|] eqn:E4; [|discriminate].
  destruct (hdecode_sound _ _ _ _ E4) as [p2 [Hp2 Hb2]].
  set (j := N.to_nat ds) in *.
  destruct (30 <=? j)%nat eqn:E5; [discriminate|].
  destruct (getbits _ s3) as [[e2 s4]|] eqn:G2; [|discriminate].
  destruct (getbits_sound _ _ _ _ G2) as [Hb3 He2].
  set (len := nth i len_base 0 + e) in *. set (dist := nth j dist_base 0 + e2) in *.
  destruct (ob_len o <? dist) eqn:E6; [discriminate|].
  destruct (limit <? ob_len o + len) eqn:E7; [discriminate|].
  assert (HL : len_coding len i e) by (split; [lia|split; [exact He|reflexivity]]).
  assert (HD : dist_coding dist j e2) by (split; [lia|split; [exact He2|reflexivity]]).
  pose proof (len_coding_range _ _ _ HL) as RL. pose proof (dist_coding_range _ _ _ HD) as RD.
  destruct (copy_match_spec (N.to_nat len) (ob_len o - dist) o Hw) as [Hw' Hl']; [lia|].
  assert (Hex : ob_list (copy_match (N.to_nat len) (ob_len o - dist) o)
                = expand1 (TMatch len dist) (ob_list o)).
  { rewrite Hl'. cbn [expand1]. f_equal. rewrite (ob_list_length o (proj1 Hw)). lia. }
  destruct (IH _ _ _ _ _ _ _ Hw' H) as [ts [bb [B1 [B2 [B3 B4]]]]].
  rewrite Hex in B2, B4.
  assert (Hsym : sym = 257 + N.of_nat i) by (unfold i; lia).
  assert (Hds : ds = N.of_nat j) by (unfold j; lia).
  exists (TMatch len dist :: ts),
         ((p ++ bits_of (nth i len_extra O) e ++ p2 ++ bits_of (nth j dist_extra O) e2) ++ bb).
  split.
  { constructor; [|exact B1].
    apply (tb_match lt dt len dist i e j e2 p p2 HL HD); [rewrite <- Hsym; exact Hp|rewrite <- Hds; exact Hp2]. }
  split.
  { cbn [tokens_ok]. split; [|exact B2]. split; [exact RL|]. split; [exact RD|].
    rewrite <- (win_ok_len o Hw). lia. }
  split; [|exact B4].
  rewrite Hb, Hb1, Hb2, Hb3, B3. rewrite <- !app_assoc. reflexivity.
Qed.

(* ---- the header of a dynamic block ---- *)

Lemma read_cl_sound : forall n s vals s', read_cl n s = Some (vals, s') ->
  length vals = n /\ Forall (fun v => (v < 8)%nat) vals /\
  bits_all s = flat_map (fun v => bits_of 3 (N.of_nat v)) vals ++ bits_all s'.
Proof.
  induction n as [|n IH]; intros s vals s' H; cbn [read_cl] in H.
  - injection H as H1 H2. subst vals s'. repeat split. constructor.
  - destruct (getbits 3 s) as [[v s1]|] eqn:E; [|discriminate].
    destruct (read_cl n s1) as [[vs s2]|] eqn:E2; [|discriminate].
    injection H as H1 H2. subst vals s'.
    destruct (getbits_sound _ _ _ _ E) as [G1 G2]. change (2 ^ N.of_nat 3) with 8 in G2.
    destruct (IH _ _ _ E2) as [I1 [I2 I3]].
    split; [cbn [length]; lia|]. split; [constructor; [lia|exact I2]|].
    cbn [flat_map]. rewrite N2Nat.id, <- app_assoc, <- I3. exact G1.
Qed.

(* the symbols of a tree built from a list of code lengths are positions of the list *)
Lemma path_leaves : forall t p x, path_to t p x -> forall d, In ((d + length p)%nat, x) (leaves d t).
Proof.
  induction 1 as [x|l r p x Hp IH|l r p x Hp IH]; intros d; cbn [leaves length].
  - left. f_equal. lia.
  - apply in_or_app. left. replace (d + S (length p))%nat with (S d + length p)%nat by lia. apply IH.
  - apply in_or_app. right. replace (d + S (length p))%nat with (S d + length p)%nat by lia. apply IH.
Qed.

Lemma index_from_bound : forall lens i p, In p (index_from i lens) -> i <= snd p < i + N.of_nat (length lens).
Proof.
  induction lens as [|l t IH]; intros i p H; cbn [index_from] in H; [destruct H|].
  destruct H as [H|H].
  - subst p. cbn [snd length]. lia.
  - specialize (IH _ _ H). cbn [length]. lia.
Qed.

Lemma mk_tree_sym_bound : forall lens p x,
  path_to (fst (mk_tree lens)) p x -> x < N.of_nat (length lens).
Proof.
  intros lens p x H. pose proof (path_leaves _ _ _ H O) as Hin.
  destruct (mk_tree_canonical lens) as [Hc _].
  assert (Hs : In ((0 + length p)%nat, x) (sorted_syms lens)).
  { rewrite <- Hc. apply in_or_app. left. exact Hin. }
  unfold sorted_syms in Hs. apply in_flat_map in Hs. destruct Hs as [d [_ Hf]].
  apply filter_In in Hf. destruct Hf as [Hf _].
  pose proof (index_from_bound _ _ _ Hf) as B. cbn [snd] in B. lia.
Qed.

Lemma cl_lens_length : forall vals, length (cl_lens vals) = 19%nat.
Proof. intros vals. unfold cl_lens. rewrite map_length, seq_length. reflexivity. Qed.

Lemma of_nat_pow2 : forall nb, N.of_nat (2 ^ nb) = 2 ^ N.of_nat nb.
Proof.
  induction nb as [|nb IH]; [reflexivity|].
  rewrite Nat.pow_succ_r', Nat2N.inj_mul, IH. rewrite (Nat2N.inj_succ nb), N.pow_succ_r'. reflexivity.
Qed.

Lemma read_lens_sound : forall f cl need racc s lens s',
  (forall p x, path_to cl p x -> x < 19) ->
  read_lens f cl need racc s = Some (lens, s') ->
  exists items ib, items_bits cl items ib /\ items_ok items (rev racc) /\
    lens = cl_expand items (rev racc) /\ length lens = (length racc + need)%nat /\
    bits_all s = ib ++ bits_all s'.
Proof.
  induction f as [|f IH]; intros cl need racc s lens s' Hcl H.
  - destruct need; cbn [read_lens] in H; [|discriminate]. injection H as H1 H2. subst lens s'.
    exists [], []. split; [constructor|]. split; [exact I|]. split; [reflexivity|].
    split; [rewrite rev_length; lia|reflexivity].
  - destruct need as [|need]; cbn [read_lens] in H.
    { injection H as H1 H2. subst lens s'.
      exists [], []. split; [constructor|]. split; [exact I|]. split; [reflexivity|].
      split; [rewrite rev_length; lia|reflexivity]. }
    destruct (hdecode cl s) as [[sym s1]|] eqn:E; [|discriminate].
    destruct (hdecode_sound _ _ _ _ E) as [p [Hp Hb]].
    pose proof (Hcl _ _ Hp) as Hsym.
    destruct (sym <? 16) eqn:E1.
    { destruct (IH _ _ _ _ _ _ Hcl H) as [items [ib [I1 [I2 [I3 [I4 I5]]]]]].
      cbn [rev length] in I2, I3, I4.
      exists (CLen (N.to_nat sym) :: items), (p ++ ib).
      split; [constructor; [constructor; rewrite N2Nat.id; exact Hp|exact I1]|].
      split; [cbn [items_ok item_lens]; split; [lia|exact I2]|].
      split; [exact I3|]. split; [lia|]. rewrite Hb, I5, app_assoc. reflexivity. }
    assert (Hgen : forall (mk : nat -> cl_item) (nb base : nat) (v : nat) symv,
      sym = symv ->
      (forall n, item_lens (mk n) (last (rev racc) O) = repeat v n) ->
      (forall n, item_bits cl (mk n) (p ++ bits_of nb (N.of_nat (n - base)))) ->
      (forall n, (base <= n < base + 2 ^ nb)%nat ->
         match mk n with CLen _ => False | CRep16 k => (3 <= k <= 6)%nat /\ rev racc <> []
                    | CRep17 k => (3 <= k <= 10)%nat | CRep18 k => (11 <= k <= 138)%nat end) ->
      match getbits nb s1 with
      | Some (e, s2) =>
          let rep := (base + N.to_nat e)%nat in
          if (S need <? rep)%nat then None
          else read_lens f cl (S need - rep) (repeat v rep ++ racc) s2
      | None => None
      end = Some (lens, s') ->
      exists items ib, items_bits cl items ib /\ items_ok items (rev racc) /\
        lens = cl_expand items (rev racc) /\ length lens = (length racc + S need)%nat /\
        bits_all s = ib ++ bits_all s').
    { intros mk nb base v symv Es Hlens Hbits Hrange H'.
      destruct (getbits nb s1) as [[e s2]|] eqn:G; [|discriminate].
      destruct (getbits_sound _ _ _ _ G) as [G1 G2]. cbv zeta in H'.
      set (rep := (base + N.to_nat e)%nat) in *.
      destruct (S need <? rep)%nat eqn:E3; [discriminate|].
      destruct (IH _ _ _ _ _ _ Hcl H') as [items [ib [I1 [I2 [I3 [I4 I5]]]]]].
      rewrite rev_app_distr, rev_repeat_nat in I2, I3.
      rewrite app_length, repeat_length in I4.
      exists (mk rep :: items), ((p ++ bits_of nb (N.of_nat (rep - base))) ++ ib).
      split; [constructor; [apply Hbits|exact I1]|].
      assert (Hr : (base <= rep < base + 2 ^ nb)%nat).
      { unfold rep. split; [lia|]. apply Nat.add_lt_mono_l.
        pose proof (of_nat_pow2 nb). lia. }
      split.
      { cbn [items_ok]. rewrite Hlens. split; [|exact I2].
        specialize (Hrange rep Hr). destruct (mk rep); try assumption. destruct Hrange. }
      split; [cbn [cl_expand]; rewrite Hlens; exact I3|].
      split; [lia|].
      rewrite Hb, G1, I5. replace (N.of_nat (rep - base)) with e by (unfold rep; lia).
      rewrite <- !app_assoc. reflexivity. }
    destruct (sym =? 16) eqn:E2.
    { apply N.eqb_eq in E2. cbv beta iota zeta in H.
      destruct racc as [|pv racc]; [discriminate|].
      apply (Hgen CRep16 2%nat 3%nat pv 16 E2); try exact H.
      - intros n. rewrite last_rev_hd. reflexivity.
      - intros n. constructor. rewrite <- E2. exact Hp.
      - intros n Hn. cbn in Hn. split; [lia|]. cbn [rev]. intros Hc. apply app_eq_nil in Hc. destruct Hc; discriminate. }
    destruct (sym =? 17) eqn:E3.
    { apply N.eqb_eq in E3. cbv beta iota zeta in H.
      apply (Hgen CRep17 3%nat 3%nat O 17 E3); try exact H.
      - intros n. reflexivity.
      - intros n. constructor. rewrite <- E3. exact Hp.
      - intros n Hn. cbn in Hn. lia. }
    assert (E4 : sym = 18) by lia.
    cbv beta iota zeta in H.
    apply (Hgen CRep18 7%nat 11%nat O 18 E4); try exact H.
    + intros n. reflexivity.
    + intros n. constructor. rewrite <- E4. exact Hp.
    + intros n Hn. cbn in Hn. lia.
Qed.

Lemma dynamic_sound : forall f limit s o s' o',
  win_ok o -> dynamic f limit s o = Some (s', o') ->
  exists h ts hb bb, dyn_hdr_ok h /\ hdr_bits h hb /\ tokens_ok ts (ob_list o) /\
    body_bits (dh_lt h) (dh_dt h) ts bb /\
    bits_all s = hb ++ bb ++ bits_all s' /\ ob_list o' = expand ts (ob_list o).
Proof.
  intros f limit s o s' o' Hw H. unfold dynamic in H.
  destruct (getbits 5 s) as [[a s1]|] eqn:E1; [|discriminate].
  destruct (getbits_sound _ _ _ _ E1) as [A1 A2]. change (2 ^ N.of_nat 5) with 32 in A2.
  destruct (getbits 5 s1) as [[b s2]|] eqn:E2; [|discriminate].
  destruct (getbits_sound _ _ _ _ E2) as [B1 B2]. change (2 ^ N.of_nat 5) with 32 in B2.
  destruct (getbits 4 s2) as [[c s3]|] eqn:E3; [|discriminate].
  destruct (getbits_sound _ _ _ _ E3) as [C1 C2]. change (2 ^ N.of_nat 4) with 16 in C2.
  cbv zeta in H.
  destruct ((286 <? N.to_nat a + 257)%nat || (30 <? N.to_nat b + 1)%nat) eqn:E4; [discriminate|].
  destruct (read_cl _ s3) as [[vals s4]|] eqn:E5; [|discriminate].
  destruct (read_cl_sound _ _ _ _ E5) as [V1 [V2 V3]].
  destruct (code_ok true (mk_tree (cl_lens vals))) eqn:E6; [|discriminate]. cbn [negb] in H.
  destruct (read_lens _ _ _ _ s4) as [[lens s5]|] eqn:E7; [|discriminate].
  assert (Hcl : forall p x, path_to (fst (mk_tree (cl_lens vals))) p x -> x < 19).
  { intros p x Hp. pose proof (mk_tree_sym_bound _ _ _ Hp) as Hb. rewrite cl_lens_length in Hb. exact Hb. }
  destruct (read_lens_sound _ _ _ _ _ _ _ Hcl E7) as [items [ib [I1 [I2 [I3 [I4 I5]]]]]].
  cbn [rev length] in I2, I3, I4.
  destruct (Nat.eqb (nth 256 lens O) O) eqn:E8; [discriminate|].
  destruct (code_ok false (mk_tree (firstn (N.to_nat a + 257) lens))) eqn:E9; [|discriminate].
  destruct (code_ok false (mk_tree (skipn (N.to_nat a + 257) lens))) eqn:E10; [|discriminate].
  cbn [negb orb] in H.
  destruct (codes_sound _ _ _ _ _ _ _ _ Hw H) as [ts [bb [T1 [T2 [T3 T4]]]]].
  set (h := mk_dyn_hdr (N.to_nat a + 257) (N.to_nat b + 1) vals items).
  exists h, ts, (hdr_fields h ++ ib), bb.
  subst lens.
  split.
  { constructor; cbn [h dh_nlen dh_ndist dh_clvals dh_items]; try assumption; try lia. }
  split; [exists ib; split; [exact I1|reflexivity]|].
  split; [exact T2|]. split; [exact T1|]. split; [|exact T4].
  unfold hdr_fields. cbn [h dh_nlen dh_ndist dh_clvals dh_items].
  replace (N.of_nat (N.to_nat a + 257 - 257)) with a by lia.
  replace (N.of_nat (N.to_nat b + 1 - 1)) with b by lia.
  replace (N.of_nat (length vals - 4)) with c by lia.
  rewrite A1, B1, C1, V3, I5, T3. rewrite <- !app_assoc. reflexivity.
Qed.

(* ---- a stored block ---- *)

Lemma Forall_firstn_ : forall (A : Type) (P : A -> Prop) n (l : list A), Forall P l -> Forall P (firstn n l).
Proof.
  intros A P n l H. rewrite Forall_forall in *. intros x Hx. apply H.
  rewrite <- (firstn_skipn n l). apply in_or_app. left. exact Hx.
Qed.

Lemma Forall_skipn_ : forall (A : Type) (P : A -> Prop) n (l : list A), Forall P l -> Forall P (skipn n l).
Proof.
  intros A P n l H. rewrite Forall_forall in *. intros x Hx. apply H.
  rewrite <- (firstn_skipn n l). apply in_or_app. right. exact Hx.
Qed.

Lemma stored_sound : forall limit s o s' o',
  src_ok s -> stored limit s o = Some (s', o') ->
  exists chunk, lenN chunk <= 65535 /\ Forall is_byte chunk /\
    bits_all s = fst s ++ bytes_bits (stored_bytes chunk) ++ bits_all s' /\
    o' = push_list chunk o /\ src_ok s'.
Proof.
  intros limit [bs src] o s' o' [Hk1 Hk2] H. unfold stored in H. cbn [fst snd] in *.
  destruct src as [|l0 [|l1 [|n0 [|n1 data]]]]; try discriminate.
  cbv zeta in H.
  destruct (le_dec [l0; l1] + le_dec [n0; n1] =? 65535) eqn:E0; [|discriminate]. cbn [negb] in H.
  destruct (limit <? _) eqn:E1; [discriminate|].
  destruct (lenN _ <? _) eqn:E2; [discriminate|].
  injection H as H1 H2. subst s' o'.
  inversion Hk2 as [|? ? B0 Hk3]; subst. inversion Hk3 as [|? ? B1 Hk4]; subst.
  inversion Hk4 as [|? ? B2 Hk5]; subst. inversion Hk5 as [|? ? B3 Hk6]; subst.
  set (len := le_dec [l0; l1]) in *.
  assert (Hlb : len < 65536).
  { pose proof (le_dec_bound [l0; l1] ltac:(repeat constructor; assumption)) as Hb.
    change (256 ^ N.of_nat (length [l0; l1])) with 65536 in Hb. exact Hb. }
  assert (Hnb : le_dec [n0; n1] < 65536).
  { pose proof (le_dec_bound [n0; n1] ltac:(repeat constructor; assumption)) as Hb.
    change (256 ^ N.of_nat (length [n0; n1])) with 65536 in Hb. exact Hb. }
  set (chunk := firstn (N.to_nat len) data) in *.
  assert (Hc : lenN chunk = len).
  { unfold chunk, lenN in *. rewrite firstn_length in *. lia. }
  exists chunk. split; [lia|]. split; [apply Forall_firstn_; exact Hk6|].
  split; [|split; [reflexivity|]].
  - unfold bits_all. cbn [fst snd app]. f_equal. fold (bytes_bits (l0 :: l1 :: n0 :: n1 :: data)).
    rewrite <- bytes_bits_app. f_equal. unfold stored_bytes. rewrite Hc.
    assert (L1 : le16 len = [l0; l1]).
    { exact (le_bytes_le_dec [l0; l1] ltac:(repeat constructor; assumption)). }
    assert (L2 : le16 (MAX_STORED - len) = [n0; n1]).
    { replace (MAX_STORED - len) with (le_dec [n0; n1]) by (unfold MAX_STORED; lia).
      exact (le_bytes_le_dec [n0; n1] ltac:(repeat constructor; assumption)). }
    rewrite L1, L2. cbn [app]. do 4 f_equal. unfold chunk. symmetry. apply firstn_skipn.
  - split; cbn [fst snd length]; [lia|]. apply Forall_skipn_. exact Hk6.
Qed.

(* ---- one block ---- *)

Lemma block_sound : forall off cf limit s0 s1 s2 o s3 o3 ty (fin : bool),
  src_ok s0 -> aligned off s0 -> win_ok o ->
  getbit s0 = Some (fin, s1) -> getbits 2 s1 = Some (ty, s2) ->
  (if ty =? 0 then stored limit s2 o
   else if ty =? 1 then codes cf limit fixed_lt fixed_dt s2 o
   else if ty =? 2 then dynamic cf limit s2 o else None) = Some (s3, o3) ->
  exists b bits, block_bits off b (ob_list o) bits /\ bits_all s1 = bits ++ bits_all s3 /\
    ob_list o3 = block_out b (ob_list o) /\ src_ok s3 /\ win_ok o3.
Proof.
  intros off cf limit s0 s1 s2 o s3 o3 ty fin Hk0 Hal Hw G0 G2 H.
  pose proof (getbit_src_ok _ _ _ Hk0 G0) as Hk1.
  pose proof (getbits_src_ok _ _ _ _ Hk1 G2) as Hk2.
  destruct (getbits_sound _ _ _ _ G2) as [T1 T2]. change (2 ^ N.of_nat 2) with 4 in T2.
  destruct (ty =? 0) eqn:E0.
  { apply N.eqb_eq in E0. subst ty.
    destruct (stored_sound _ _ _ _ _ Hk2 H) as [chunk [C1 [C2 [C3 [C4 C5]]]]]. subst o3.
    exists (BStored (fst s2) chunk), ([false; false] ++ fst s2 ++ bytes_bits (stored_bytes chunk)).
    split; [|split; [|split; [apply ob_list_push_list|split; [exact C5|apply win_ok_push_list; exact Hw]]]].
    - constructor; try assumption; [apply Hk2|].
      pose proof (getbit_bits _ _ _ G0) as L0.
      assert (L1 : bits_left s1 = (2 + bits_left s2)%nat).
      { rewrite (bits_left_bits_all s1), T1, app_length, <- (bits_left_bits_all s2). reflexivity. }
      unfold aligned in Hal. unfold bits_left in L1 at 2. rewrite L0, L1 in Hal.
      set (k := length (snd s2)) in *. set (q := length (fst s2)) in *. clearbody k q.
      clear - Hal. Zify.zify. Z.div_mod_to_equations. lia.
    - rewrite T1, C3. cbn [bits_of app]. rewrite <- !app_assoc. reflexivity. }
  destruct (ty =? 1) eqn:E1.
  { apply N.eqb_eq in E1. subst ty.
    destruct (codes_sound _ _ _ _ _ _ _ _ Hw H) as [ts [bb [B1 [B2 [B3 B4]]]]].
    exists (BFixed ts), ([true; false] ++ bb).
    split; [constructor; assumption|]. split; [rewrite T1, B3; reflexivity|].
    split; [exact B4|]. split; [exact (codes_src_ok _ _ _ _ _ _ _ _ Hk2 H)|exact (codes_win_ok _ _ _ _ _ _ _ _ Hw H)]. }
  destruct (ty =? 2) eqn:E2; [|discriminate].
  apply N.eqb_eq in E2. subst ty.
  destruct (dynamic_sound _ _ _ _ _ _ Hw H) as [h [ts [hb [bb [D1 [D2 [D3 [D4 [D5 D6]]]]]]]]].
  exists (BDynamic h ts), ([false; true] ++ hb ++ bb).
  split; [constructor; assumption|]. split; [rewrite T1, D5; cbn [bits_of app]; rewrite <- !app_assoc; reflexivity|].
  split; [exact D6|]. split; [exact (dynamic_src_ok _ _ _ _ _ _ Hk2 H)|exact (dynamic_win_ok _ _ _ _ _ _ Hw H)].
Qed.

(* ---- the block loop ---- *)

Lemma blocks_sound : forall f cf limit s o s' o' off,
  src_ok s -> aligned off s -> win_ok o ->
  blocks f cf limit s o = Some (s', o') ->
  exists bs bits, stream_denotes off bits (ob_list o) bs (ob_list o') /\
    bits_all s = bits ++ bits_all s'.
Proof.
  induction f as [|f IH]; intros cf limit s o s' o' off Hk Hal Hw H; cbn [blocks] in H; [discriminate|].
  pose proof (getbit_spec s) as G.
  destruct (getbit s) as [[fin s1]|] eqn:E1; [|discriminate].
  destruct (getbits 2 s1) as [[ty s2]|] eqn:E2; [|discriminate].
  cbv zeta in H.
  destruct (if ty =? 0 then _ else _) as [[s3 o3]|] eqn:EB; [|discriminate].
  destruct (block_sound off cf limit s s1 s2 o s3 o3 ty fin Hk Hal Hw E1 E2 EB)
    as [b [bits [B1 [B2 [B3 [B4 B5]]]]]].
  destruct fin.
  - injection H as H1 H2. subst s3 o3.
    exists [b], (true :: bits). split; [rewrite B3; constructor; exact B1|].
    rewrite G, B2. reflexivity.
  - destruct (IH cf limit s3 o3 s' o' (off + 1 + length bits)%nat B4) as [bs [bits' [S1 S2]]]; try assumption.
    + unfold aligned in *.
      assert (Hbl : (bits_left s = 1 + length bits + bits_left s3)%nat).
      { rewrite (getbit_bits _ _ _ E1), (bits_left_bits_all s1), B2, app_length, <- (bits_left_bits_all s3). lia. }
      replace (off + 1 + length bits + bits_left s3)%nat with (off + bits_left s)%nat by lia. exact Hal.
    + exists (b :: bs), (false :: bits ++ bits'). split.
      * rewrite B3 in S1. constructor; assumption.
      * rewrite G, B2, S2. cbn [app]. rewrite <- app_assoc. reflexivity.
Qed.

(* ---- the whole stream ---- *)

Theorem inflate_raw_sound : forall limit c out rest,
  Forall is_byte c -> inflate_raw limit c = Some (out, rest) -> deflate_denotes c out.
Proof.
  intros limit c out rest Hc H. unfold inflate_raw in H.
  destruct (blocks _ _ limit ([], c) ob_empty) as [[s o]|] eqn:E; [|discriminate].
  injection H as H1 H2. subst out rest.
  assert (K0 : src_ok ([], c)) by (split; cbn [fst snd length]; [lia|exact Hc]).
  assert (A0 : aligned O ([], c)).
  { unfold aligned, bits_left. cbn [fst snd length]. rewrite Nat.add_0_l, Nat.mul_comm. apply Nat.mod_mul. lia. }
  destruct (blocks_sound _ _ _ _ _ _ _ O K0 A0 win_ok_empty E) as [bs [bits [S1 S2]]].
  exists bs, bits, (bits_all s). split; [|exact S2].
  rewrite rev_append_rev, app_nil_r. exact S1.
Qed.

Theorem inflate_sound : forall c n out,
  Forall is_byte c -> inflate c n = Some out -> deflate_denotes c out /\ lenN out = n.
Proof.
  intros c n out Hc H. destruct (inflate_some_raw _ _ _ H) as [rest [H1 H2]].
  split; [exact (inflate_raw_sound _ _ _ _ Hc H1)|exact H2].
Qed.

(* the inflater decides the specification: for a byte string c and a length n, [inflate c n]
   returns out iff c is a DEFLATE stream denoting out and |out| = n *)
Theorem inflate_iff_denotes : forall c n out, Forall is_byte c ->
  (inflate c n = Some out <-> deflate_denotes c out /\ lenN out = n).
Proof.
  intros c n out Hc. split; [apply inflate_sound; exact Hc|].
  intros [Hd Hn]. subst n. apply inflate_complete; assumption.
Qed.

(* a DEFLATE stream denotes at most one byte string *)
Theorem deflate_denotes_functional : forall c out1 out2, Forall is_byte c ->
  deflate_denotes c out1 -> deflate_denotes c out2 -> out1 = out2.
Proof.
  intros c out1 out2 Hc H1 H2.
  set (L := N.max (lenN out1) (lenN out2)).
  destruct (inflate_raw_complete c out1 L Hc H1 ltac:(lia)) as [r1 E1].
  destruct (inflate_raw_complete c out2 L Hc H2 ltac:(lia)) as [r2 E2].
  rewrite E1 in E2. injection E2 as E2 _. exact E2.
Qed.
