(* C03 -- the multithreaded writer at API-CALL level: which call of write_all / flush / finish
   returns the sink's error, and that the bytes are the single-threaded writer's.

   The application-thread model is property C14's NV.Sinks.MtApp (imported read-only; it is tied to
   noodles-bgzf by C14's correspondence check): the program of the application thread is the list
   of its send() calls / returns / the join of finish(); a joint schedule is ANY interleaving of
   its steps with the pipeline's Start / Complete t / Take / Emit (the pipeline is C03's
   NV.Io.Sched); the sink follows an arbitrary fault script.  This file only combines C14's
   theorems into the statement C03 makes: per-call results + bytes = single-threaded bytes. *)
From Coq Require Import List Arith NArith.
From NV Require Import Sinks.Sink Sinks.SinkProofs Sinks.BgzfProofs Io.Sched Sinks.Mt Sinks.MtProofs Sinks.MtApp Sinks.MtAppProofs.
Import ListNotations.

(* the file the single-threaded bgzf::io::Writer produces for the same operations + finish on a
   sink that never fails *)
Definition st_file (maxbuf : nat) (frames : list (list byte)) (ops : list mop) : list byte :=
  bw_ideal_out maxbuf frames (map mop_bop ops ++ [BFinish]).

(* EVERY joint schedule, EVERY fault script: when the application thread is done, all calls but
   the last returned Ok, the last one returned the writer thread's result r; r and the sink are
   those of the sequential `?`-chain over the same sink; r = Ok only from finish() itself, and
   then the sink holds exactly the single-threaded file *)
Theorem mtw_api_equals_st :
  forall P maxbuf frames, 0 < maxbuf -> forall ops sched s,
    let x := mta_run P maxbuf frames ops sched s in
    m_done x = true ->
    exists j r s',
      m_rs x = repeat Ok j ++ [r] /\ j <= length ops /\
      mt_result (m_pipe x) = (r, s') /\
      run_calls (mt_calls maxbuf frames ops) s = (r, s') /\
      (r = Ok -> j = length ops /\ sbytes s' = sbytes s ++ st_file maxbuf frames ops).
Proof.
  intros P maxbuf frames Hm ops sched s x Hd.
  destruct (mta_attribution P maxbuf frames ops sched s Hd) as (j & r & s' & H1 & H2 & H3 & H4 & H5).
  exists j, r, s'. fold x in H2, H3. repeat split; try assumption.
  - apply H5. assumption.
  - subst r.
    assert (HF : Forall (fun r : res => r = Ok) (m_rs x)).
    { rewrite H3. apply Forall_app. split; [|constructor; [reflexivity|constructor]].
      apply Forall_forall. intros y Hy. apply repeat_spec in Hy. exact Hy. }
    destruct (mta_all_ok_complete P maxbuf frames ops sched s Hd HF) as [_ Hb].
    fold x in Hb. rewrite H2 in Hb. cbn [snd] in Hb. rewrite Hb. unfold st_file.
    rewrite (mt_out_is_st_out maxbuf frames Hm ops). reflexivity.
Qed.

(* a sink failure that was consumed is returned by exactly one call -- the last one made -- and the
   sink holds a prefix of the single-threaded file *)
Theorem mtw_api_failure_reported :
  forall P maxbuf frames, 0 < maxbuf -> forall ops sched s c e,
    let x := mta_run P maxbuf frames ops sched s in
    m_done x = true ->
    sscript s = c ++ sscript (snd (mt_result (m_pipe x))) -> In (Fail e) c -> e <> e_interrupted ->
    (exists j, j <= length ops /\ m_rs x = repeat Ok j ++ [Err e]) /\
    exists p, sbytes (snd (mt_result (m_pipe x))) = sbytes s ++ p /\ prefix p (st_file maxbuf frames ops).
Proof.
  intros P maxbuf frames Hm ops sched s c e x Hd Hs Hi He.
  destruct (mta_failure_reported P maxbuf frames ops sched s c e Hd Hs Hi He) as [H1 [p [H2 H3]]].
  split; [exact H1|]. exists p. split; [exact H2|]. unfold st_file.
  rewrite <- (mt_out_is_st_out maxbuf frames Hm ops). exact H3.
Qed.

(* ---- entry point of C03's own correspondence kind `wapi`: one life of MultithreadedWriter seen
        from the application thread (per-call results of write_all / flush / finish, inner calls,
        sink bytes) under the synchronisation plan the harness forces through the gate hook ---- *)
Definition c03_writer_api_case (P maxbuf : nat) (frames : list (list byte)) (plan : list bool)
  (ops : list mop) (script : list fault) : option (list res * sink) :=
  mta_model P maxbuf frames (mta_pol plan) ops (mkSink [] script 0).

(* what the driver prints: result codes (0 = Ok, 1 = OutOfFuel, 10 + kind = Err), inner calls, bytes *)
Definition api_code (r : res) : N :=
  match r with Ok => 0%N | OutOfFuel => 1%N | Err e => (10 + e)%N end.

Definition c03_writer_api_obs (P maxbuf : nat) (frames : list (list byte)) (plan : list bool)
  (ops : list mop) (script : list fault) : option (list N * nat * list byte) :=
  match c03_writer_api_case P maxbuf frames plan ops script with
  | Some (rs, s) => Some (map api_code rs, scalls s, sbytes s)
  | None => None
  end.

(* the strategy the harness forces is one of the joint schedules the API theorems quantify over *)
Theorem c03_writer_api_case_is_a_run : forall P maxbuf frames plan ops script rs s',
  c03_writer_api_case P maxbuf frames plan ops script = Some (rs, s') ->
  exists sched, let x := mta_run P maxbuf frames ops sched (mkSink [] script 0) in
    m_done x = true /\ rs = m_rs x /\ s' = snd (mt_result (m_pipe x)).
Proof. intros P maxbuf frames plan ops script rs s' H. exact (mta_model_is_run P maxbuf frames _ _ _ _ _ H). Qed.
