(* Dynamic-Huffman blocks (RFC 1951 3.2.7) against a declarative specification.  A block is given
   by: the code lengths [cll] of the 19-symbol code-length alphabet, the code lengths [ll] of the
   literal/length alphabet (257..286 entries) and [dl] of the distance alphabet (1..30 entries),
   and a sequence of LZ77 tokens.  [dynamic_bits] is its encoding: HLIT, HDIST, HCLEN = 15 (all 19
   code-length code lengths, in the permuted order), the lengths ll ++ dl each coded directly with
   its code-length symbol 0..15 (no repeat codes), then the tokens under the canonical codes of ll
   and dl, then end-of-block.  Whenever the three descriptions are acceptable (the inflater's own
   checks) and every symbol used has a non-zero length, the inflater decodes the packed block to
   the expansion of the tokens. *)
From Coq Require Import List Arith NArith Bool Lia ZifyBool ZifyNat ZifyN.
From NV Require Import Base.LE Bgzf.Frame Bgzf.FrameProofs Bgzf.Inflate Bgzf.InflateProofs
  Bgzf.InflateFuel Bgzf.InflateHuffman Bgzf.InflateFixed Bgzf.InflateTokens Bgzf.InflateBody.
Import ListNotations.
Open Scope N_scope.

(* ---- small numbers through bits_of / bits_val ---- *)

Lemma bits_roundtrip_small :
  forallb (fun n => forallb (fun k => bits_val (bits_of n (N.of_nat k)) =? N.of_nat k) (seq 0 (2 ^ n)))
          (seq 0 6) = true.
Proof. vm_compute. reflexivity. Qed.

Lemma bits_val_of : forall n k, (n <= 5)%nat -> (k < 2 ^ n)%nat ->
  bits_val (bits_of n (N.of_nat k)) = N.of_nat k.
Proof.
  intros n k Hn Hk. pose proof bits_roundtrip_small as T. rewrite forallb_forall in T.
  specialize (T n ltac:(apply in_seq; lia)). rewrite forallb_forall in T.
  specialize (T k ltac:(apply in_seq; lia)). apply N.eqb_eq in T. exact T.
Qed.

(* ---- the code-length code lengths ---- *)

Lemma read_cl_spec : forall vals s rest,
  Forall (fun v => (v < 8)%nat) vals ->
  bits_all s = flat_map (fun v => bits_of 3 (N.of_nat v)) vals ++ rest ->
  exists s', read_cl (length vals) s = Some (vals, s') /\ bits_all s' = rest.
Proof.
  induction vals as [|v vals IH]; intros s rest Hv Hs; cbn [length read_cl].
  - exists s. split; [reflexivity|exact Hs].
  - inversion Hv as [|? ? Hv1 Hv2]; subst. cbn [flat_map] in Hs. rewrite <- app_assoc in Hs.
    destruct (getbits_spec 3 s _ _ (bits_of_length _ _) Hs) as [s1 [H1 R1]].
    rewrite H1. rewrite (bits_val_of 3 v) by (cbn; lia).
    destruct (IH s1 rest Hv2 R1) as [s' [H2 R2]]. rewrite H2.
    exists s'. split; [rewrite Nat2N.id; reflexivity|exact R2].
Qed.

(* all 19 lengths sent in the permuted order are put back in symbol order *)
Lemma cl_lens_all : forall cll, length cll = 19%nat ->
  cl_lens (map (fun sym => nth sym cll O) cl_order) = cll.
Proof.
  intros cll H.
  do 19 (destruct cll as [|? cll]; [discriminate|]). destruct cll; [|discriminate]. reflexivity.
Qed.

(* ---- the literal/length and distance code lengths, each sent as its own symbol ---- *)

Lemma read_lens_direct : forall cl lens f acc s rest,
  Forall (fun l => (l < 16)%nat /\ has_code cl (N.of_nat l)) lens ->
  bits_all s = flat_map (fun l => code_in cl (N.of_nat l)) lens ++ rest ->
  (length lens <= f)%nat ->
  exists s', read_lens f cl (length lens) acc s = Some (rev acc ++ lens, s') /\ bits_all s' = rest.
Proof.
  intros cl. induction lens as [|l lens IH]; intros f acc s rest Hl Hs Hf.
  - cbn [length]. exists s. split; [|exact Hs]. destruct f; cbn [read_lens]; rewrite app_nil_r; reflexivity.
  - cbn [length] in Hf |- *. destruct f as [|f]; [lia|]. cbn [read_lens].
    inversion Hl as [|? ? [Hl1 Hc1] Hl2]; subst. cbn [flat_map] in Hs. rewrite <- app_assoc in Hs.
    destruct (hdecode_path _ _ _ (code_in_path cl _ Hc1) s _ Hs) as [s1 [H1 R1]].
    rewrite H1. destruct (N.of_nat l <? 16) eqn:E; [|lia].
    replace (S (length lens) - 1)%nat with (length lens) by lia. rewrite Nat2N.id.
    destruct (IH f (l :: acc) s1 rest Hl2 R1 ltac:(lia)) as [s' [H2 R2]].
    rewrite H2. exists s'. split; [|exact R2]. cbn [rev]. rewrite <- app_assoc. reflexivity.
Qed.

(* ---- the block ---- *)

Definition dyn_header_bits (cll ll dl : list nat) : list bool :=
  bits_of 5 (N.of_nat (length ll - 257)) ++ bits_of 5 (N.of_nat (length dl - 1))
    ++ bits_of 4 (N.of_nat 15)
    ++ flat_map (fun v => bits_of 3 (N.of_nat v)) (map (fun sym => nth sym cll O) cl_order)
    ++ flat_map (fun l => code_in (fst (mk_tree cll)) (N.of_nat l)) (ll ++ dl).

Definition dyn_body_bits (ll dl : list nat) (ts : list token) : list bool :=
  flat_map (enc_token_in (fst (mk_tree ll)) (fst (mk_tree dl))) ts ++ code_in (fst (mk_tree ll)) 256.

Lemma code_ok_snd : forall b tl, code_ok b tl = true -> snd tl = [].
Proof. intros b tl H. unfold code_ok in H. destruct (snd tl); [reflexivity|discriminate]. Qed.

Lemma nth_lt_8 : forall cll sym, Forall (fun v => (v < 8)%nat) cll -> (nth sym cll O < 8)%nat.
Proof.
  intros cll sym H. destruct (Nat.lt_ge_cases sym (length cll)) as [Hl|Hl].
  - rewrite Forall_forall in H. apply H. apply nth_In. exact Hl.
  - rewrite nth_overflow by exact Hl. lia.
Qed.

Record dyn_ok (cll ll dl : list nat) : Prop := {
  dk_cll_len : length cll = 19%nat;
  dk_cll_small : Forall (fun v => (v < 8)%nat) cll;
  dk_cll_ok : code_ok true (mk_tree cll) = true;
  dk_ll_len : (257 <= length ll <= 286)%nat;
  dk_dl_len : (1 <= length dl <= 30)%nat;
  dk_lens : Forall (fun l => (l < 16)%nat /\ has_code (fst (mk_tree cll)) (N.of_nat l)) (ll ++ dl);
  dk_eob : (1 <= nth 256 ll O)%nat;
  dk_ll_ok : code_ok false (mk_tree ll) = true;
  dk_dl_ok : code_ok false (mk_tree dl) = true
}.

Lemma dynamic_spec : forall cll ll dl ts cf limit s o rest,
  dyn_ok cll ll dl ->
  Forall (token_coded (fst (mk_tree ll)) (fst (mk_tree dl))) ts ->
  win_ok o -> tokens_ok ts (ob_list o) ->
  bits_all s = dyn_header_bits cll ll dl ++ dyn_body_bits ll dl ts ++ rest ->
  (bits_left s < cf)%nat -> lenN (expand ts (ob_list o)) <= limit ->
  exists s' o', dynamic cf limit s o = Some (s', o') /\
    win_ok o' /\ ob_list o' = expand ts (ob_list o) /\ bits_all s' = rest.
Proof.
  intros cll ll dl ts cf limit s o rest K Hc Hw Hok Hs Hf Hl.
  destruct K as [K1 K2 K3 K4 K5 K6 K7 K8 K9].
  unfold dyn_header_bits in Hs. rewrite <- !app_assoc in Hs.
  destruct (getbits_spec 5 s _ _ (bits_of_length _ _) Hs) as [s1 [H1 R1]].
  rewrite (bits_val_of 5 (length ll - 257)) in H1 by (cbn; lia).
  destruct (getbits_spec 5 s1 _ _ (bits_of_length _ _) R1) as [s2 [H2 R2]].
  rewrite (bits_val_of 5 (length dl - 1)) in H2 by (cbn; lia).
  destruct (getbits_spec 4 s2 _ _ (bits_of_length _ _) R2) as [s3 [H3 R3]].
  rewrite (bits_val_of 4 15) in H3 by (cbn; lia).
  set (vals := map (fun sym => nth sym cll O) cl_order) in *.
  assert (Hvl : length vals = 19%nat) by reflexivity.
  assert (Hvs : Forall (fun v => (v < 8)%nat) vals).
  { unfold vals. rewrite Forall_forall. intros v Hv. apply in_map_iff in Hv.
    destruct Hv as [sym [Hv _]]. subst v. apply nth_lt_8. exact K2. }
  destruct (read_cl_spec vals s3 _ Hvs R3) as [s4 [H4 R4]]. rewrite Hvl in H4.
  assert (Hcl : cl_lens vals = cll) by (apply cl_lens_all; exact K1).
  assert (Hll : length (ll ++ dl) = (length ll + length dl)%nat) by apply app_length.
  destruct (read_lens_direct (fst (mk_tree cll)) (ll ++ dl) (length ll + length dl) [] s4 _ K6 R4 ltac:(lia))
    as [s5 [H5 R5]].
  rewrite Hll in H5. cbn [rev app] in H5.
  pose proof (code_ok_snd _ _ K8) as Sll. pose proof (code_ok_snd _ _ K9) as Sdl.
  assert (Heob : has_code (fst (mk_tree ll)) 256).
  { change 256 with (N.of_nat 256). apply mk_tree_codes_all; [exact Sll|lia|].
    assert (H256 : In (nth 256 ll O) (ll ++ dl)) by (apply in_or_app; left; apply nth_In; lia).
    rewrite Forall_forall in K6. specialize (K6 _ H256). lia. }
  unfold dyn_body_bits in R5. rewrite <- app_assoc in R5.
  assert (Hbl : (bits_left s5 < cf)%nat).
  { pose proof (getbits_bits _ _ _ _ H1). pose proof (getbits_bits _ _ _ _ H2).
    pose proof (getbits_bits _ _ _ _ H3). pose proof (read_cl_bits _ _ _ _ H4).
    pose proof (read_lens_bits _ _ _ _ _ _ _ H5). lia. }
  destruct (codes_tokens_in (fst (mk_tree ll)) (fst (mk_tree dl)) ts cf limit s5 o rest
              (mk_tree_not_leaf ll) Heob Hc Hw Hok R5 Hbl Hl) as [s' [o' [H6 [Hw' [Hl' R6]]]]].
  exists s', o'. split; [|split; [exact Hw'|split; [exact Hl'|exact R6]]].
  unfold dynamic. rewrite H1, H2, H3. cbv zeta.
  rewrite !Nat2N.id.
  replace (length ll - 257 + 257)%nat with (length ll) by lia.
  replace (length dl - 1 + 1)%nat with (length dl) by lia.
  replace (15 + 4)%nat with 19%nat by reflexivity.
  destruct ((286 <? length ll)%nat || (30 <? length dl)%nat) eqn:E1; [lia|].
  rewrite H4, Hcl, K3. cbn [negb]. rewrite H5.
  rewrite app_nth1 by lia.
  destruct (Nat.eqb (nth 256 ll O) O) eqn:E2; [apply Nat.eqb_eq in E2; lia|].
  rewrite (firstn_app_exact nat ll dl (length ll) eq_refl).
  rewrite (skipn_app_exact nat ll dl (length ll) eq_refl).
  rewrite K8, K9. cbn [negb orb]. exact H6.
Qed.

(* ---- the whole stream: one final dynamic block ---- *)

Definition dynamic_bits (cll ll dl : list nat) (ts : list token) : list bool :=
  [true; false; true] ++ dyn_header_bits cll ll dl ++ dyn_body_bits ll dl ts.

Definition deflate_dynamic (cll ll dl : list nat) (ts : list token) : list N :=
  let bits := dynamic_bits cll ll dl ts in pack_bits (length bits) bits.

Theorem inflate_dynamic_correct : forall cll ll dl ts,
  dyn_ok cll ll dl ->
  Forall (token_coded (fst (mk_tree ll)) (fst (mk_tree dl))) ts ->
  tokens_ok ts [] ->
  inflate (deflate_dynamic cll ll dl ts) (lenN (expand ts [])) = Some (expand ts []).
Proof.
  intros cll ll dl ts K Hc Hok. unfold inflate, inflate_raw, deflate_dynamic. cbv zeta.
  set (src := pack_bits _ _).
  destruct (pack_bits_read (length (dynamic_bits cll ll dl ts)) (dynamic_bits cll ll dl ts) (le_n _)) as [pad Hp].
  fold src in Hp.
  assert (Hs0 : bits_all ([], src) = dynamic_bits cll ll dl ts ++ pad) by exact Hp.
  unfold dynamic_bits in Hs0. cbn [app] in Hs0.
  set (F := S (8 * length src)).
  assert (HF : (bits_left ([], src) < F)%nat) by (unfold bits_left, F; cbn [fst snd length]; lia).
  pose proof (getbit_spec ([], src)) as G1.
  destruct (getbit ([], src)) as [[b1 s1]|] eqn:E1; [|rewrite Hs0 in G1; discriminate].
  rewrite Hs0 in G1. injection G1 as Hb1 G1. subst b1.
  pose proof (getbit_bits _ _ _ E1) as B1.
  pose proof (getbit_spec s1) as G2.
  destruct (getbit s1) as [[b2 s2]|] eqn:E2; [|rewrite <- G1 in G2; discriminate].
  rewrite <- G1 in G2. injection G2 as Hb2 G2. subst b2.
  pose proof (getbit_bits _ _ _ E2) as B2.
  pose proof (getbit_spec s2) as G3.
  destruct (getbit s2) as [[b3 s3]|] eqn:E3; [|rewrite <- G2 in G3; discriminate].
  rewrite <- G2 in G3. injection G3 as Hb3 G3. subst b3.
  pose proof (getbit_bits _ _ _ E3) as B3.
  set (n := lenN (expand ts [])).
  assert (Hblk : blocks F F n ([], src) ob_empty
                 = match dynamic F n s3 ob_empty with
                   | Some (s4, o4) => Some (s4, o4) | None => None end).
  { unfold F at 1. cbn [blocks getbits]. rewrite E1, E2, E3. reflexivity. }
  rewrite Hblk. rewrite <- app_assoc in G3.
  destruct (dynamic_spec cll ll dl ts F n s3 ob_empty pad K Hc win_ok_empty Hok (eq_sym G3))
    as [s' [o' [Hd [Hw' [Hl' _]]]]].
  { lia. }
  { unfold n. change (ob_list ob_empty) with (@nil N). lia. }
  rewrite Hd. change (ob_list ob_empty) with (@nil N) in Hl'.
  unfold ob_list in Hl'. rewrite rev_append_rev, app_nil_r, Hl'. unfold n. rewrite N.eqb_refl. reflexivity.
Qed.

(* ---- a decidable form of the side conditions, and a concrete block ---- *)

Definition has_codeb (t : htree) (sym : N) : bool :=
  match find_path t sym with Some _ => true | None => false end.

Lemma has_codeb_ok : forall t sym, has_codeb t sym = true -> has_code t sym.
Proof. intros t sym H. unfold has_codeb, has_code in *. destruct (find_path t sym); [discriminate|discriminate H]. Qed.

Definition dyn_okb (cll ll dl : list nat) : bool :=
  Nat.eqb (length cll) 19 && forallb (fun v => (v <? 8)%nat) cll && code_ok true (mk_tree cll)
  && (257 <=? length ll)%nat && (length ll <=? 286)%nat && (1 <=? length dl)%nat && (length dl <=? 30)%nat
  && forallb (fun l => (l <? 16)%nat && has_codeb (fst (mk_tree cll)) (N.of_nat l)) (ll ++ dl)
  && (1 <=? nth 256 ll O)%nat && code_ok false (mk_tree ll) && code_ok false (mk_tree dl).

Lemma dyn_okb_ok : forall cll ll dl, dyn_okb cll ll dl = true -> dyn_ok cll ll dl.
Proof.
  intros cll ll dl H. unfold dyn_okb in H.
  repeat (apply andb_prop in H; let H2 := fresh "A" in destruct H as [H H2]).
  constructor.
  - apply Nat.eqb_eq. exact H.
  - rewrite Forall_forall. intros v Hv. rewrite forallb_forall in A8. specialize (A8 v Hv). lia.
  - exact A7.
  - lia.
  - lia.
  - rewrite Forall_forall. intros l Hl. rewrite forallb_forall in A2. specialize (A2 l Hl).
    apply andb_prop in A2. destruct A2 as [P Q]. split; [lia|apply has_codeb_ok; exact Q].
  - lia.
  - exact A0.
  - exact A.
Qed.

Definition token_codedb (lt dt : htree) (t : token) : bool :=
  match t with
  | TLit b => has_codeb lt b
  | TMatch len dist =>
      has_codeb lt (257 + N.of_nat (slot len_base len)) && has_codeb dt (N.of_nat (slot dist_base dist))
  end.

Lemma token_codedb_ok : forall lt dt ts, forallb (token_codedb lt dt) ts = true -> Forall (token_coded lt dt) ts.
Proof.
  intros lt dt ts H. rewrite Forall_forall. intros t Ht. rewrite forallb_forall in H. specialize (H t Ht).
  destruct t as [b|len dist]; cbn [token_codedb token_coded] in *.
  - apply has_codeb_ok. exact H.
  - apply andb_prop in H. destruct H as [P Q]. split; apply has_codeb_ok; assumption.
Qed.

(* 'a' -> 1 bit, 'b' -> 2 bits, end-of-block and length symbol 257 -> 3 bits; one distance code;
   code-length symbols 0..3 -> 2 bits each.  Tokens: a, b, (length 3, distance 1) = "abbbb" *)
Definition ex_cll : list nat := [2; 2; 2; 2; 0; 0; 0; 0; 0; 0; 0; 0; 0; 0; 0; 0; 0; 0; 0]%nat.
Definition ex_ll : list nat :=
  repeat O 97 ++ [1; 2]%nat ++ repeat O 157 ++ [3; 3]%nat.
Definition ex_dl : list nat := [1]%nat.
Definition ex_ts : list token := [TLit 97; TLit 98; TMatch 3 1].

Example dynamic_example :
  dyn_ok ex_cll ex_ll ex_dl /\
  Forall (token_coded (fst (mk_tree ex_ll)) (fst (mk_tree ex_dl))) ex_ts /\
  tokens_ok ex_ts [] /\
  expand ex_ts [] = [97; 98; 98; 98; 98] /\
  inflate (deflate_dynamic ex_cll ex_ll ex_dl ex_ts) 5 = Some [97; 98; 98; 98; 98].
Proof.
  split; [apply dyn_okb_ok; vm_compute; reflexivity|].
  split; [apply token_codedb_ok; vm_compute; reflexivity|].
  split; [cbn; unfold lenN; cbn; lia|].
  split; vm_compute; reflexivity.
Qed.
