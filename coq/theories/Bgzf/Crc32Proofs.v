(* crc32 always fits in 32 bits (so the trailer's le32 loses nothing), crc32 [] = 0. *)
From Coq Require Import List NArith Lia ZifyBool ZifyNat ZifyN.
From NV Require Import Bgzf.Crc32.
Import ListNotations.
Open Scope N_scope.

Lemma lt_pow2_log2 : forall a n, a < 2 ^ n <-> a = 0 \/ N.log2 a < n.
Proof.
  intros a n. destruct (N.eq_dec a 0) as [E|E].
  - subst a. split; [auto|]. intros _. apply N.neq_0_lt_0. apply N.pow_nonzero. discriminate.
  - assert (Hpos : 0 < a) by lia. split.
    + intros H. right. apply N.log2_lt_pow2; assumption.
    + intros [H|H]; [contradiction|]. apply N.log2_lt_pow2; assumption.
Qed.

Lemma lxor_lt_pow2 : forall a b n, a < 2 ^ n -> b < 2 ^ n -> N.lxor a b < 2 ^ n.
Proof.
  intros a b n Ha Hb. apply lt_pow2_log2.
  destruct (N.eq_dec (N.lxor a b) 0) as [E|E]; [left; exact E|right].
  apply lt_pow2_log2 in Ha. apply lt_pow2_log2 in Hb.
  pose proof (N.log2_lxor a b) as Hl.
  destruct Ha as [Ha|Ha]; destruct Hb as [Hb|Hb]; subst.
  - exfalso. apply E. reflexivity.
  - rewrite N.lxor_0_l. exact Hb.
  - rewrite N.lxor_0_r. exact Ha.
  - lia.
Qed.

Lemma shiftr_lt_pow2 : forall a k n, a < 2 ^ n -> N.shiftr a k < 2 ^ n.
Proof.
  intros a k n Ha. rewrite N.shiftr_div_pow2.
  assert (H : a / 2 ^ k <= a).
  { apply N.div_le_upper_bound.
    - apply N.pow_nonzero. discriminate.
    - assert (1 <= 2 ^ k) by (apply N.neq_0_lt_0 in Ha || idtac; pose proof (N.pow_nonzero 2 k ltac:(discriminate)); lia).
      nia. }
  lia.
Qed.

Definition W32 : N := 2 ^ 32.

Lemma crc_step_bound : forall c, c < W32 -> crc_step c < W32.
Proof.
  intros c Hc. unfold crc_step. destruct (N.odd c).
  - apply lxor_lt_pow2; [apply shiftr_lt_pow2; exact Hc|reflexivity].
  - apply shiftr_lt_pow2. exact Hc.
Qed.

Lemma crc_tbl_bound : forall i, i < W32 -> crc_tbl i < W32.
Proof. intros i Hi. unfold crc_tbl. repeat apply crc_step_bound. exact Hi. Qed.

Lemma land_255_bound : forall a, N.land a 255 < W32.
Proof.
  intros a. change 255 with (N.ones 8). rewrite N.land_ones.
  pose proof (N.mod_lt a (2 ^ 8) ltac:(discriminate)) as H.
  change (2 ^ 8) with 256 in *. unfold W32. change (2 ^ 32) with 4294967296. lia.
Qed.

Lemma crc_update_bound : forall c b, c < W32 -> crc_update c b < W32.
Proof.
  intros c b Hc. unfold crc_update. apply lxor_lt_pow2.
  - apply crc_tbl_bound. apply land_255_bound.
  - apply shiftr_lt_pow2. exact Hc.
Qed.

Lemma fold_crc_bound : forall l c, c < W32 -> fold_left crc_update l c < W32.
Proof.
  induction l as [|b t IH]; intros c Hc; cbn [fold_left]; [exact Hc|].
  apply IH. apply crc_update_bound. exact Hc.
Qed.

Lemma crc32_bound : forall l, crc32 l < 4294967296.
Proof.
  intros l. change 4294967296 with W32. unfold crc32. apply lxor_lt_pow2.
  - apply fold_crc_bound. reflexivity.
  - reflexivity.
Qed.

Lemma crc32_nil : crc32 [] = 0.
Proof. vm_compute. reflexivity. Qed.

(* the standard check value of CRC-32/ISO-HDLC: "123456789" -> 0xCBF43926 *)
Lemma crc32_check_value : crc32 [49; 50; 51; 52; 53; 54; 55; 56; 57] = 3421780262.
Proof. vm_compute. reflexivity. Qed.
