(* Proofs: the multithreaded reader model delivers what the single-threaded reader delivers. *)
From Coq Require Import List Arith Lia Bool NArith.
From NV Require Import Io.Sched Io.SchedProofs Bgzf.MtReader.
Import ListNotations.

(* the single-threaded reader = in-order consumption of the submitted tickets: a frame-level error
   is consumed like a block error *)
Lemma st_reader_spec frames : forall a,
  st_reader a frames = st_consume app_step rerr a (submitted frames).
Proof.
  induction frames as [|fr rest IH]; intros a; cbn [st_reader submitted st_consume]; [reflexivity|].
  destruct (rerr a) eqn:Ea.
  - symmetry. apply (st_consume_stopped frame app app_step rerr a _ Ea).
  - destruct (fstat fr) eqn:Es; cbn [st_consume]; rewrite Ea.
    + apply IH.
    + apply IH.
    + unfold app_step. rewrite Es. reflexivity.
Qed.

Lemma frame_error_rerr frames : forall a,
  frame_error frames = true -> rerr (st_reader a frames) = true.
Proof.
  induction frames as [|fr rest IH]; intros a H; cbn [frame_error existsb] in H; [discriminate|].
  cbn [st_reader]. destruct (rerr a) eqn:Ea; [exact Ea|].
  destruct (fstat fr) eqn:Es; cbn [orb] in H.
  - apply IH. exact H.
  - apply IH. exact H.
  - reflexivity.
Qed.

Section ReaderProofs.
  Variable P : nat.

  (* under every schedule, a final state of the multithreaded reader has delivered exactly what
     the in-order consumption of the submitted frames delivers *)
  Theorem reader_final_is_sequential frames sched :
    r_final (r_run P frames sched) = true ->
    cs (r_run P frames sched) = st_consume app_step rerr app0 (submitted frames).
  Proof.
    intros F. unfold r_run. rewrite <- (map_id (submitted frames)) at 2.
    apply pipeline_output_is_submission_order. exact F.
  Qed.

  (* same blocks, same positions, same error flag as the single-threaded reader, for every file:
     corrupt blocks and frame-level errors included *)
  Theorem reader_equals_st frames sched :
    r_final (r_run P frames sched) = true ->
    cs (r_run P frames sched) = st_reader app0 frames.
  Proof.
    intros F. rewrite st_reader_spec. apply reader_final_is_sequential. exact F.
  Qed.

  (* a frame-level error is returned by the read that reaches it, under every schedule *)
  Theorem reader_frame_error_from_read frames sched :
    frame_error frames = true ->
    r_final (r_run P frames sched) = true ->
    rerr (cs (r_run P frames sched)) = true.
  Proof.
    intros FE F. rewrite (reader_equals_st frames sched F). apply frame_error_rerr. exact FE.
  Qed.

  (* in every reachable state (e.g. when a seek abandons the segment) the application has
     received exactly a prefix of the file's blocks, in file order, with the sequential positions *)
  Theorem reader_prefix frames sched :
    exists taken rest, submitted frames = taken ++ rest /\
      cs (r_run P frames sched) = st_consume app_step rerr app0 taken.
  Proof.
    destruct (prefix_invariant frame frame app (fun fr => fr) r_ready app_step rerr (r_can_submit P) P app0
                (submitted frames) sched) as [rest [H1 H2]].
    exists (cons (r_run P frames sched)), rest. split; [exact H1|]. rewrite map_id in H2. exact H2.
  Qed.

  Theorem reader_segment_after_k frames sched k :
    length (cons (r_run P frames sched)) = k ->
    cs (r_run P frames sched) = st_consume app_step rerr app0 (firstn k (submitted frames)).
  Proof.
    intros L. destruct (reader_prefix frames sched) as [taken [rest [H1 H2]]].
    destruct (prefix_invariant frame frame app (fun fr => fr) r_ready app_step rerr (r_can_submit P) P app0
                (submitted frames) sched) as [rest' [H3 H4]].
    fold (r_run P frames sched) in H3, H4.
    rewrite H3. rewrite <- L. rewrite firstn_app, Nat.sub_diag, firstn_all. cbn [firstn].
    rewrite app_nil_r. rewrite map_id in H4. exact H4.
  Qed.

  (* a corrupt block is never skipped: if the sequential reader reports an error, every schedule does *)
  Theorem reader_error_surfaces frames sched :
    r_final (r_run P frames sched) = true ->
    rerr (st_consume app_step rerr app0 (submitted frames)) = true ->
    rerr (cs (r_run P frames sched)) = true.
  Proof. intros F H. rewrite (reader_final_is_sequential frames sched F). exact H. Qed.

  Hypothesis P_pos : 0 < P.

  Theorem reader_progress frames sched :
    r_final (r_run P frames sched) = false ->
    exists a, enabled rerr (r_can_submit P) P (r_run P frames sched) a = true.
  Proof.
    apply pipeline_progress; [exact P_pos|]. unfold r_can_submit. apply Nat.ltb_lt. lia.
  Qed.

  Theorem reader_terminates_default frames :
    r_final (iter (fun fr => fr) r_ready app_step rerr (r_can_submit P) P (default_pick rerr (r_can_submit P) P)
                  (5 * length (submitted frames)) (init app0 (submitted frames))) = true.
  Proof.
    assert (C0 : r_can_submit P 0 false = true) by (unfold r_can_submit; apply Nat.ltb_lt; lia).
    exact (pipeline_terminates_default frame frame app (fun fr => fr) r_ready app_step rerr
             (r_can_submit P) P P_pos C0 app0 (submitted frames)).
  Qed.

  Theorem reader_window frames sched :
    bounded frame app P (P + 2) (r_run P frames sched).
  Proof.
    apply pipeline_window_bound; [exact P_pos|]. intros n h H. unfold r_can_submit in H. apply Nat.ltb_lt in H.
    destruct h; cbn [olist length]; lia.
  Qed.
End ReaderProofs.
