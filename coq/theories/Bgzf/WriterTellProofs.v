(* C02, writer side: a virtual position told by the writer model (C01's NV.Bgzf.Writer) names, in
   the file the script finally leaves behind, the byte that is written next: seeking the reader
   model there and reading to the end returns the accepted bytes from exactly that byte on.

   Own invariant over the writer model (independent of C01's segment invariant): the sink is the
   concatenation of the frames of a list of items (block, cdata); the position is its length; a
   non-empty staging buffer becomes a prefix of the NEXT frame's data. *)
From Coq Require Import List Arith NArith Bool Lia ZifyBool ZifyNat ZifyN.
From NV Require Import Base.LE Bgzf.Crc32 Bgzf.Crc32Proofs.
From NV Require Bgzf.Vpos Bgzf.VposProofs Bgzf.Gzi Bgzf.ReaderOps Bgzf.FlatRef Bgzf.ReaderOpsProofs
  Bgzf.ReaderTellProofs.
From NV Require Import Bgzf.Frame Bgzf.FrameProofs Bgzf.Writer Bgzf.Reader Bgzf.ReaderProofs
  Bgzf.WriterProofs Bgzf.WriterTell.
Import ListNotations.
Open Scope N_scope.

Definition item := (list N * list N)%type.
Definition item_frame (it : item) : ReaderOps.frame :=
  ReaderOps.mkFrame (26 + lenN (snd it)) (fst it).
Definition file_of (items : list item) : ReaderOps.file := map item_frame items.
Definition witem (it : item) : Prop := lenN (snd it) <= 65510 /\ lenN (fst it) <= 65536.
Definition data_of (items : list item) : list N := concat (map fst items).

Lemma frames_bytes_cons : forall it r, frames_bytes (it :: r) = fbytes it ++ frames_bytes r.
Proof. reflexivity. Qed.

Lemma data_of_app : forall a b, data_of (a ++ b) = data_of a ++ data_of b.
Proof. intros. unfold data_of. rewrite map_app, concat_app. reflexivity. Qed.

Lemma file_of_app : forall a b, file_of (a ++ b) = file_of a ++ file_of b.
Proof. intros. apply map_app. Qed.

Lemma csize_file_of : forall items, FlatRef.total_csize (file_of items) = lenN (frames_bytes items).
Proof.
  induction items as [|it r IH]; [reflexivity|].
  cbn [file_of map]. fold (file_of r). rewrite ReaderOpsProofs.csum_cons, IH, frames_bytes_cons, lenN_app.
  unfold fbytes. rewrite frame_bytes_lenN. reflexivity.
Qed.

Lemma dlen_file_of : forall items, FlatRef.total_dlen (file_of items) = lenN (data_of items).
Proof.
  induction items as [|it r IH]; [reflexivity|].
  cbn [file_of map]. fold (file_of r). rewrite ReaderOpsProofs.dsum_cons, IH.
  unfold data_of. cbn [map concat]. rewrite lenN_app. reflexivity.
Qed.

Lemma chunks_file_of : forall items, concat (FlatRef.chunks (file_of items)) = data_of items.
Proof.
  induction items as [|it r IH]; [reflexivity|].
  unfold FlatRef.chunks, file_of, data_of in *. cbn [map concat]. rewrite IH. reflexivity.
Qed.

Lemma wf_file_of : forall items, Forall witem items -> ReaderOpsProofs.wf (file_of items).
Proof.
  induction 1 as [|it r [Hc Hd] _ IH]; [constructor|].
  constructor; [|exact IH]. unfold item_frame, ReaderOps.flen, ReaderOps.len. cbn [ReaderOps.csize ReaderOps.fdata].
  unfold lenN in *. lia.
Qed.

(* ---- the frame table of the sink ------------------------------------------------------- *)

Lemma frame_isize : forall c crc isz, isz < 4294967296 ->
  le_dec (skipn (length (frame_bytes c crc isz) - 4) (frame_bytes c crc isz)) = isz.
Proof.
  intros c crc isz H. unfold frame_bytes. rewrite !app_assoc.
  match goal with |- context [?a ++ le32 isz] => set (A := a) end.
  rewrite app_length, le32_length, Nat.add_sub.
  rewrite (skipn_app_exact N A (le32 isz) _ eq_refl).
  unfold le32. apply le_dec_le_bytes. exact H.
Qed.

Lemma sink_file_spec : forall items fuel, Forall witem items -> (length items < fuel)%nat ->
  sink_file fuel (frames_bytes items) (data_of items) = file_of items.
Proof.
  induction items as [|it r IH]; intros fuel Hw Hf.
  - destruct fuel; reflexivity.
  - destruct fuel as [|k]; [lia|]. inversion Hw as [|? ? [Hc Hd] Hr]; subst.
    cbn [sink_file]. rewrite frames_bytes_cons. unfold fbytes at 1.
    rewrite (read_frame_app (fun _ _ => None) _ _ _ _ Hc).
    rewrite frame_isize by lia.
    change (ReaderOps.len (frame_bytes (snd it) (crc32 (fst it)) (lenN (fst it))))
      with (lenN (frame_bytes (snd it) (crc32 (fst it)) (lenN (fst it)))).
    rewrite frame_bytes_lenN, to_nat_lenN.
    unfold data_of. cbn [map concat]. fold (data_of r).
    rewrite (firstn_app_exact N (fst it) (data_of r) _ eq_refl).
    rewrite (skipn_app_exact N (fst it) (data_of r) _ eq_refl).
    rewrite IH; [reflexivity | exact Hr | cbn [length] in Hf; lia].
Qed.

Lemma lenN_firstn' : forall (l : list N) n, n <= lenN l -> lenN (firstn (N.to_nat n) l) = n.
Proof. intros l n Hn. unfold lenN in *. rewrite firstn_length. lia. Qed.

Lemma max_pos_eq : Vpos.MAX_COMPRESSED_POSITION = MAX_COMPRESSED_POSITION.
Proof. reflexivity. Qed.

Section P.
  Variable deflate : N -> list N -> list N.
  Variable lvl : N.
  Hypothesis H_l0 : forall x, lenN x <= MAX_BUF_SIZE -> lenN (deflate 0 x) <= MAX_COMPRESSED_SIZE.

  Definition WI (st : wstate) (items : list item) : Prop :=
    w_sink st = frames_bytes items /\ w_pos st = lenN (w_sink st) /\ Forall witem items /\
    lenN (w_staging st) <= MAX_BUF_SIZE.

  (* the bytes accepted so far *)
  Definition cont (st : wstate) (items : list item) : list N := data_of items ++ w_staging st.

  (* the frames still to come can absorb the staging buffer: it is empty, or a prefix of the
     next frame's data *)
  Definition ext_ok (stg : list N) (Q : list item) : Prop :=
    stg = [] \/ exists it r t, Q = it :: r /\ fst it = stg ++ t.

  (* st/items evolves into st'/items' while accepting x *)
  Definition T (st : wstate) (items : list item) (st' : wstate) (items' : list item) (x : list N) : Prop :=
    (exists M, items' = items ++ M /\
               forall Q, ext_ok (w_staging st') Q -> ext_ok (w_staging st) (M ++ Q)) /\
    cont st' items' = cont st items ++ x.

  Lemma T_refl : forall st items, T st items st items [].
  Proof.
    intros. split; [|symmetry; apply app_nil_r].
    exists []. split; [symmetry; apply app_nil_r | intros Q H; exact H].
  Qed.

  Lemma T_trans : forall a ia b ib c ic x y, T a ia b ib x -> T b ib c ic y -> T a ia c ic (x ++ y).
  Proof.
    intros a ia b ib c ic x y [(M1 & E1 & X1) C1] [(M2 & E2 & X2) C2]. split.
    - exists (M1 ++ M2). split; [rewrite E2, E1, app_assoc; reflexivity|].
      intros Q H. rewrite <- app_assoc. apply X1, X2, H.
    - rewrite C2, C1, app_assoc. reflexivity.
  Qed.

  Lemma ext_ok_prefix : forall stg x Q, ext_ok (stg ++ x) Q -> ext_ok stg Q.
  Proof.
    intros stg x Q [H|(it & r & t & HQ & Hf)].
    - left. apply app_eq_nil in H. tauto.
    - right. exists it, r, (x ++ t). split; [exact HQ | rewrite Hf, app_assoc; reflexivity].
  Qed.

  Lemma witem_wframe : forall b, lenN b <= MAX_BUF_SIZE -> witem (wframe deflate lvl b).
  Proof.
    intros b Hl. pose proof (enc_bound deflate lvl H_l0 b Hl) as Hc.
    unfold witem, wframe. cbn [fst snd]. unfold MAX_BUF_SIZE, MAX_COMPRESSED_SIZE in *. lia.
  Qed.

  Lemma flush_block_wi : forall st items, WI st items -> w_staging st <> [] ->
    exists st', flush_block deflate lvl st = (st', Ok tt) /\
                WI st' (items ++ [wframe deflate lvl (w_staging st)]) /\ w_staging st' = [].
  Proof.
    intros [pos stg sink inner fin] items (Hs & Hp & Hw & Hl) Hne.
    cbn [w_sink w_pos w_staging w_inner w_finished] in *.
    unfold flush_block. cbn [w_sink w_pos w_staging w_inner w_finished].
    rewrite (encode_ok deflate lvl H_l0 stg Hl). pose proof (enc_bound deflate lvl H_l0 stg Hl) as Hc.
    pose proof (witem_wframe stg Hl) as Hwi.
    unfold MAX_BUF_SIZE, MAX_COMPRESSED_SIZE in *.
    rewrite write_frame_ok by lia.
    eexists. split; [reflexivity|]. split; [|reflexivity].
    unfold WI. cbn [w_sink w_pos w_staging w_inner w_finished]. unfold MAX_BUF_SIZE.
    split; [|split; [|split]].
    - rewrite frames_bytes_app, frames_bytes_one. subst sink. reflexivity.
    - rewrite lenN_app, frame_bytes_lenN. lia.
    - apply Forall_app. split; [exact Hw|]. constructor; [exact Hwi | constructor].
    - rewrite lenN_nil. lia.
  Qed.

  Lemma flush_wi : forall st items, WI st items ->
    exists st' items', flush deflate lvl st = (st', Ok tt) /\ WI st' items' /\
                       w_staging st' = [] /\ T st items st' items' [].
  Proof.
    intros st items H. unfold flush. destruct (w_staging st) as [|x stg] eqn:Es.
    - exists st, items. split; [reflexivity|]. split; [exact H|]. split; [exact Es | apply T_refl].
    - assert (Hne : w_staging st <> []) by (rewrite Es; discriminate).
      destruct (flush_block_wi st items H Hne) as (st' & Hf & HW & Hst).
      exists st', (items ++ [wframe deflate lvl (w_staging st)]).
      split; [exact Hf|]. split; [exact HW|]. split; [exact Hst|]. split.
      + eexists. split; [reflexivity|]. intros Q _. right.
        exists (wframe deflate lvl (w_staging st)), Q, []. split; [reflexivity|].
        unfold wframe. cbn [fst]. symmetry. apply app_nil_r.
      + unfold cont. rewrite Hst, data_of_app. unfold data_of at 2, wframe. cbn [map concat fst].
        rewrite !app_nil_r. reflexivity.
  Qed.

  Lemma write_wi : forall st items buf, WI st items -> lenN (w_staging st) < MAX_BUF_SIZE ->
    exists st' items',
      let amt := N.min (MAX_BUF_SIZE - lenN (w_staging st)) (lenN buf) in
      write deflate lvl st buf = (st', Ok amt) /\ WI st' items' /\
      lenN (w_staging st') < MAX_BUF_SIZE /\ T st items st' items' (firstn (N.to_nat amt) buf).
  Proof.
    intros st items buf HW Hlt. cbn zeta.
    set (amt := N.min (MAX_BUF_SIZE - lenN (w_staging st)) (lenN buf)).
    unfold write. fold amt.
    destruct (MAX_BUF_SIZE <? lenN (w_staging st)) eqn:E; [lia|].
    set (st1 := mk_wstate (w_pos st) (w_staging st ++ firstn (N.to_nat amt) buf) (w_sink st) (w_inner st) (w_finished st)).
    assert (Hlen1 : lenN (w_staging st1) = lenN (w_staging st) + amt).
    { unfold st1. cbn [w_staging]. rewrite lenN_app, lenN_firstn' by lia. reflexivity. }
    assert (HW1 : WI st1 items).
    { destruct HW as (Hs & Hp & Hw & Hl). unfold WI, st1. cbn [w_sink w_pos w_staging].
      repeat split; try assumption. fold st1. unfold st1 in Hlen1. cbn [w_staging] in Hlen1. lia. }
    assert (HT1 : T st items st1 items (firstn (N.to_nat amt) buf)).
    { split.
      - exists []. split; [symmetry; apply app_nil_r|]. intros Q HQ. cbn [app].
        unfold st1 in HQ. cbn [w_staging] in HQ. eapply ext_ok_prefix. exact HQ.
      - unfold cont, st1. cbn [w_staging]. rewrite app_assoc. reflexivity. }
    destruct (lenN (w_staging st1) <? MAX_BUF_SIZE) eqn:E1.
    - exists st1, items. split; [reflexivity|]. split; [exact HW1|]. split; [lia | exact HT1].
    - destruct (flush_wi st1 items HW1) as (st2 & items2 & Hf & HW2 & Hst2 & HT2).
      rewrite Hf. exists st2, items2. split; [reflexivity|]. split; [exact HW2|].
      split; [rewrite Hst2, lenN_nil; unfold MAX_BUF_SIZE; lia|].
      pose proof (T_trans _ _ _ _ _ _ _ _ HT1 HT2) as HT. rewrite app_nil_r in HT. exact HT.
  Qed.

  Lemma write_all_wi : forall fuel buf st items, (length buf < fuel)%nat ->
    WI st items -> lenN (w_staging st) < MAX_BUF_SIZE ->
    exists st' items', write_all deflate fuel lvl st buf = (st', Ok tt) /\ WI st' items' /\
      lenN (w_staging st') < MAX_BUF_SIZE /\ T st items st' items' buf.
  Proof.
    induction fuel as [|fuel IH]; intros buf st items Hfuel HW Hlt; [lia|].
    destruct buf as [|x buf'].
    - exists st, items. split; [reflexivity|]. split; [exact HW|]. split; [exact Hlt | apply T_refl].
    - cbn [write_all]. remember (x :: buf') as buf eqn:Eb.
      destruct (write_wi st items buf HW Hlt) as (st1 & items1 & Hw & HW1 & Hlt1 & HT1). cbn zeta in Hw, HT1.
      set (amt := N.min (MAX_BUF_SIZE - lenN (w_staging st)) (lenN buf)) in *.
      rewrite Hw.
      assert (Hpos : 0 < amt).
      { assert (1 <= lenN buf) by (rewrite Eb, lenN_cons; lia). lia. }
      assert (Hle : amt <= lenN buf) by lia.
      destruct (amt =? 0) eqn:E0; [lia|].
      assert (Hsk : (length (skipn (N.to_nat amt) buf) < fuel)%nat).
      { rewrite skipn_length. unfold lenN in Hle. lia. }
      destruct (IH _ st1 items1 Hsk HW1 Hlt1) as (st2 & items2 & Hwa & HW2 & Hlt2 & HT2).
      exists st2, items2. split; [exact Hwa|]. split; [exact HW2|]. split; [exact Hlt2|].
      pose proof (T_trans _ _ _ _ _ _ _ _ HT1 HT2) as HT. rewrite firstn_skipn in HT. exact HT.
  Qed.

  Lemma try_finish_wi : forall st items, WI st items ->
    exists st' items', try_finish deflate lvl st = (st', Ok tt) /\ WI st' items' /\
                       w_staging st' = [] /\ T st items st' items' [].
  Proof.
    intros st items HW.
    destruct (flush_wi st items HW) as (st1 & items1 & Hf & HW1 & Hst1 & HT1).
    unfold try_finish. rewrite Hf. destruct (w_finished st1).
    - exists st1, items1. split; [reflexivity|]. split; [exact HW1|]. split; [exact Hst1 | exact HT1].
    - eexists _, (items1 ++ [eof_item]). split; [reflexivity|].
      destruct HW1 as (Hs & Hp & Hw & Hl).
      split; [|split; [exact Hst1|]].
      + unfold WI. cbn [w_sink w_pos w_staging]. split; [|split; [|split]].
        * rewrite Hs, frames_bytes_app, frames_bytes_one. unfold eof_item. rewrite fbytes_eof. reflexivity.
        * rewrite Hp, !lenN_app. reflexivity.
        * apply Forall_app. split; [exact Hw|]. constructor; [|constructor].
          unfold witem, eof_item. cbn [fst snd]. unfold lenN. cbn [length]. lia.
        * exact Hl.
      + pose proof (T_trans st items st1 items1
                      (mk_wstate (w_pos st1 + 28) (w_staging st1) (w_sink st1 ++ eof_block) (w_inner st1) true)
                      (items1 ++ [eof_item]) [] [] HT1) as HT.
        cbn [app] in HT. apply HT. split.
        * eexists. split; [reflexivity|]. intros Q _. left. exact Hst1.
        * unfold cont. cbn [w_staging]. rewrite data_of_app. unfold data_of at 2, eof_item.
          cbn [map concat fst app]. rewrite !app_nil_r. reflexivity.
  Qed.

  Lemma step_wi : forall st items o, WI st items -> lenN (w_staging st) < MAX_BUF_SIZE ->
    exists st' items' r, step deflate lvl st o = (st', r) /\ is_ok r /\ WI st' items' /\
      lenN (w_staging st') < MAX_BUF_SIZE /\ T st items st' items' (accepted_of o r).
  Proof.
    intros st items o HW Hlt. destruct o as [buf|buf| |].
    - destruct (write_wi st items buf HW Hlt) as (st1 & items1 & Hw & HW1 & Hlt1 & HT1). cbn zeta in Hw, HT1.
      cbn [step]. rewrite Hw. eexists st1, items1, _. split; [reflexivity|].
      split; [exact I|]. split; [exact HW1|]. split; [exact Hlt1 | cbn [accepted_of]; exact HT1].
    - destruct (write_all_wi (S (length buf)) buf st items ltac:(lia) HW Hlt) as (st1 & items1 & Hw & HW1 & Hlt1 & HT1).
      cbn [step]. rewrite Hw. eexists st1, items1, _. split; [reflexivity|].
      split; [exact I|]. split; [exact HW1|]. split; [exact Hlt1 | cbn [accepted_of]; exact HT1].
    - destruct (flush_wi st items HW) as (st1 & items1 & Hf & HW1 & Hst1 & HT1).
      cbn [step]. rewrite Hf. eexists st1, items1, _. split; [reflexivity|].
      split; [exact I|]. split; [exact HW1|].
      split; [rewrite Hst1, lenN_nil; unfold MAX_BUF_SIZE; lia | cbn [accepted_of]; exact HT1].
    - destruct (try_finish_wi st items HW) as (st1 & items1 & Hf & HW1 & Hst1 & HT1).
      cbn [step]. rewrite Hf. eexists st1, items1, _. split; [reflexivity|].
      split; [exact I|]. split; [exact HW1|].
      split; [rewrite Hst1, lenN_nil; unfold MAX_BUF_SIZE; lia | cbn [accepted_of]; exact HT1].
  Qed.

  Lemma run_ops_wi : forall ops st items, WI st items -> lenN (w_staging st) < MAX_BUF_SIZE ->
    exists st' items' obs, run_ops deflate lvl st ops = (st', obs, false) /\ WI st' items' /\
      lenN (w_staging st') < MAX_BUF_SIZE /\ T st items st' items' (accepted ops obs).
  Proof.
    induction ops as [|o ops IH]; intros st items HW Hlt.
    - exists st, items, []. split; [reflexivity|]. split; [exact HW|]. split; [exact Hlt | apply T_refl].
    - destruct (step_wi st items o HW Hlt) as (st1 & items1 & r & Hs & Hok & HW1 & Hlt1 & HT1).
      destruct (IH st1 items1 HW1 Hlt1) as (st2 & items2 & obs & Hr & HW2 & Hlt2 & HT2).
      cbn [run_ops]. rewrite Hs. destruct r as [v|e|]; [|contradiction|contradiction].
      rewrite Hr. eexists st2, items2, _. split; [reflexivity|]. split; [exact HW2|].
      split; [exact Hlt2|]. cbn [accepted]. eapply T_trans; eassumption.
  Qed.

  Lemma wt_finish_wi : forall fin st items, WI st items ->
    exists items', WI (wt_finish deflate lvl fin st) items' /\ w_staging (wt_finish deflate lvl fin st) = [] /\
                   T st items (wt_finish deflate lvl fin st) items' [].
  Proof.
    intros fin st items HW. unfold wt_finish. destruct fin.
    - destruct (try_finish_wi st items HW) as (st1 & items1 & Hf & HW1 & Hst1 & HT1).
      rewrite Hf. exists items1. cbn [fst]. split; [exact HW1|]. split; [exact Hst1 | exact HT1].
    - destruct (flush_wi st items HW) as (st1 & items1 & Hf & HW1 & Hst1 & HT1).
      rewrite Hf. exists items1. cbn [fst]. split; [exact HW1|]. split; [exact Hst1 | exact HT1].
  Qed.

  Lemma WI_init : WI w_init [].
  Proof.
    unfold WI, w_init, MAX_BUF_SIZE. cbn [w_sink w_pos w_staging]. rewrite lenN_nil.
    repeat split; try constructor; lia.
  Qed.

  (* ---- what a told position denotes ----------------------------------------------------- *)

  Lemma told_denotes : forall st items M,
    WI st items -> Forall witem M -> ext_ok (w_staging st) M ->
    w_pos st <= MAX_COMPRESSED_POSITION ->
    exists v, virtual_position st = Ok v /\
              FlatRef.denote (file_of (items ++ M)) v = Some (lenN (cont st items)).
  Proof.
    intros st items M (Hs & Hp & Hw & Hl) HwM Hext Hmax.
    unfold virtual_position. destruct (N.leb_spec (w_pos st) MAX_COMPRESSED_POSITION); [|lia].
    eexists. split; [reflexivity|].
    assert (Hu : lenN (w_staging st) < 65536) by (unfold MAX_BUF_SIZE in Hl; lia).
    rewrite N.mod_small by exact Hu. rewrite <- VposProofs.pack_arith by exact Hu.
    rewrite Hp, Hs, <- csize_file_of, file_of_app.
    rewrite ReaderOpsProofs.denote_boundary.
    - f_equal. rewrite dlen_file_of. unfold cont. rewrite lenN_app. reflexivity.
    - apply wf_file_of. exact Hw.
    - destruct Hext as [E|(it & r & t & HM & Hf)].
      + rewrite E, lenN_nil. lia.
      + rewrite HM. cbn [file_of map ReaderOpsProofs.hdlen]. unfold item_frame, ReaderOps.flen, ReaderOps.len.
        cbn [ReaderOps.fdata]. rewrite Hf, app_length. unfold lenN. lia.
    - exact Hu.
  Qed.

  (* c02_writer_tell *)
  Theorem writer_tell : forall ops1 ops2 fin n st1 obs1 p1 st2 obs2 p2,
    run_ops deflate lvl w_init ops1 = (st1, obs1, p1) ->
    run_ops deflate lvl st1 ops2 = (st2, obs2, p2) ->
    let stf := wt_finish deflate lvl fin st2 in
    let D := accepted ops1 obs1 ++ accepted ops2 obs2 in
    let F := sink_file (S (length (w_sink stf))) (w_sink stf) D in
    lenN (w_sink stf) <= MAX_COMPRESSED_POSITION -> 0 < n ->
    p1 = false /\ p2 = false /\
    exists v, virtual_position st1 = Ok v /\
      snd (ReaderOps.seek true F (ReaderOps.init F) v) = Vpos.Ok v /\
      snd (ReaderOps.read_all true (fst (ReaderOps.seek true F (ReaderOps.init F) v)) n)
        = Vpos.Ok (skipn (length (accepted ops1 obs1)) D).
  Proof.
    intros ops1 ops2 fin n st1 obs1 p1 st2 obs2 p2 Hr1 Hr2 stf D F Hmax Hn.
    assert (Hlt0 : lenN (w_staging w_init) < MAX_BUF_SIZE) by (unfold w_init; cbn [w_staging]; rewrite lenN_nil; unfold MAX_BUF_SIZE; lia).
    destruct (run_ops_wi ops1 w_init [] WI_init Hlt0) as (st1' & items1 & obs1' & Hr1' & HW1 & Hlt1 & HT1).
    rewrite Hr1 in Hr1'. inversion Hr1'; subst st1' obs1' p1. clear Hr1'.
    destruct (run_ops_wi ops2 st1 items1 HW1 Hlt1) as (st2' & items2 & obs2' & Hr2' & HW2 & Hlt2 & HT2).
    rewrite Hr2 in Hr2'. inversion Hr2'; subst st2' obs2' p2. clear Hr2'.
    destruct (wt_finish_wi fin st2 items2 HW2) as (itemsf & HWf & Hstf & HTf). fold stf in HWf, Hstf, HTf.
    split; [reflexivity|]. split; [reflexivity|].
    pose proof (T_trans _ _ _ _ _ _ _ _ HT2 HTf) as HT. rewrite app_nil_r in HT.
    destruct HT as [(M & EM & XM) CM].
    specialize (XM [] (or_introl Hstf)). rewrite app_nil_r in XM.
    destruct HT1 as [_ C1]. unfold cont at 2 in C1. cbn [w_init w_staging data_of map concat app] in C1.
    assert (HD : data_of itemsf = D).
    { unfold D. rewrite <- C1, <- CM. unfold cont. rewrite Hstf, app_nil_r. reflexivity. }
    pose proof HWf as (Hsf & Hpf & Hwf & _).
    assert (HF : F = file_of itemsf).
    { unfold F. rewrite <- HD, Hsf. apply sink_file_spec; [exact Hwf|].
      apply le_n_S. exact (frames_bytes_length_ge itemsf). }
    assert (HwM : Forall witem M) by (rewrite EM in Hwf; apply Forall_app in Hwf; tauto).
    assert (Hpos1 : w_pos st1 <= MAX_COMPRESSED_POSITION).
    { destruct HW1 as (Hs1 & Hp1 & _). rewrite Hp1, Hs1.
      rewrite Hsf, EM, frames_bytes_app, lenN_app in Hmax. lia. }
    destruct (told_denotes st1 items1 M HW1 HwM XM Hpos1) as (v & Hv & Hden).
    rewrite <- EM, <- HF, C1 in Hden.
    exists v. split; [exact Hv|].
    assert (HwfF : ReaderOpsProofs.wf F) by (rewrite HF; apply wf_file_of; exact Hwf).
    assert (HmaxF : FlatRef.total_csize F <= Vpos.MAX_COMPRESSED_POSITION).
    { rewrite HF, csize_file_of, <- Hsf, max_pos_eq. exact Hmax. }
    destruct (ReaderTellProofs.seek_then_read_to_end F [] v _ n HwfF HmaxF (Forall_nil _) Hden Hn)
      as (Hsk & Hrd & _).
    cbn [ReaderOps.run_state] in Hsk, Hrd.
    split; [exact Hsk|]. rewrite Hrd. f_equal.
    rewrite to_nat_lenN, HF, chunks_file_of, HD. reflexivity.
  Qed.
End P.
