(* Numeric monotonicity of the virtual positions the reader model reports, and the read-to-end
   closed form after a seek.  Builds on the refinement invariant of ReaderOpsProofs. *)
From Coq Require Import List NArith PeanoNat Lia Bool ZifyBool ZifyNat ZifyN.
From NV Require Import Bgzf.Vpos Bgzf.VposProofs Bgzf.Gzi Bgzf.ReaderOps Bgzf.FlatRef Bgzf.ReaderOpsProofs.
Import ListNotations.
Open Scope N_scope.
Arguments N.add : simpl never.
Arguments N.sub : simpl never.
Arguments N.mul : simpl never.
Arguments N.min : simpl never.
Arguments N.ltb : simpl never.
Arguments N.leb : simpl never.
Arguments N.eqb : simpl never.
Arguments N.to_nat : simpl never.
Arguments N.of_nat : simpl never.
Arguments firstn : simpl never.
Arguments skipn : simpl never.
Arguments pack : simpl never.

(* the (compressed, uncompressed) pair Block::virtual_position packs *)
Definition key (st : state) : N * N :=
  if has_remaining st then (bpos st, cur st) else (bpos st + bsize st, 0).

Definition lex_le (a b : N * N) : Prop :=
  fst a < fst b \/ (fst a = fst b /\ snd a <= snd b).

(* the buffered block lies entirely before the stream position: the next block to be read
   starts at or after the end of the current one *)
Definition Inv2 (st : state) : Prop := bpos st + bsize st <= position st.

Lemma lex_le_refl : forall a, lex_le a a.
Proof. intros a. right. split; [reflexivity | lia]. Qed.

Lemma lex_le_trans : forall a b c, lex_le a b -> lex_le b c -> lex_le a c.
Proof. intros a b c. unfold lex_le. lia. Qed.

Lemma pack_lex_le : forall c1 u1 c2 u2, u1 < 65536 -> u2 < 65536 ->
  lex_le (c1, u1) (c2, u2) -> pack c1 u1 <= pack c2 u2.
Proof.
  intros c1 u1 c2 u2 H1 H2 H. rewrite !pack_arith by assumption.
  unfold lex_le in H. cbn [fst snd] in H. lia.
Qed.

Lemma inv2_init : forall f, Inv2 (init f).
Proof. intros f. unfold Inv2, init. cbn [bpos bsize position]. lia. Qed.

Lemma Inv_bsize_pos : forall f st s, wf f -> Inv f st s -> cur st < blen st -> 0 < bsize st.
Proof.
  intros f st s Hwf (pre & Hf & _ & _ & _ & _ & _ & _ & Hload & _) Hlt.
  destruct (Hload Hlt) as (pre0 & b & Hpre & _ & Hbs & _).
  rewrite Hf, Hpre in Hwf. apply wf_app in Hwf. destruct Hwf as [Hw _].
  apply wf_app in Hw. destruct Hw as [_ Hb]. inversion Hb as [|? ? [Hc _] _]; subst. lia.
Qed.

Lemma consume_key : forall f st s n, wf f -> Inv f st s ->
  lex_le (key st) (key (consume st n)) /\ (Inv2 st -> Inv2 (consume st n)).
Proof.
  intros f st s n Hwf HI. destruct (Inv_cur _ _ _ HI) as (Hc & _ & _).
  split; [|intros H; exact H].
  unfold key, has_remaining, consume. cbn [cur blen bpos bsize].
  destruct (N.ltb_spec (cur st) (blen st)) as [Hlt|Hge];
    destruct (N.ltb_spec (N.min (cur st + n) (blen st)) (blen st)) as [Hlt'|Hge'];
    unfold lex_le; cbn [fst snd]; try lia.
  pose proof (Inv_bsize_pos f st s Hwf HI Hlt). lia.
Qed.

Lemma load_key : forall m st, Inv2 st -> has_remaining st = false ->
  lex_le (key st) (key (fst (read_nonempty_block m st))) /\ Inv2 (fst (read_nonempty_block m st)).
Proof.
  intros m st H2 Hrem. unfold read_nonempty_block.
  destruct (next_nonempty (rest st) (position st)) as [[[[b p] r] np]|] eqn:E; cbn [fst].
  - destruct (next_nonempty_some _ _ _ _ _ _ E) as (es & _ & _ & Hp & Hnp & _).
    unfold Inv2 in *. split.
    + unfold key, has_remaining in *. rewrite Hrem. unfold lex_le.
      destruct m; cbn [cur blen bpos bsize];
        [destruct (N.ltb_spec 0 (flen b)) | destruct (N.ltb_spec (flen b) (flen b))]; cbn [fst snd]; lia.
    + cbn [bpos bsize position]. lia.
  - split; [apply lex_le_refl | exact H2].
Qed.

Lemma fill_key : forall st, Inv2 st ->
  lex_le (key st) (key (fst (fill_buf st))) /\ Inv2 (fst (fill_buf st)).
Proof.
  intros st H2. unfold fill_buf. destruct (has_remaining st) eqn:Hrem; cbn [fst].
  - split; [apply lex_le_refl | exact H2].
  - apply load_key; assumption.
Qed.

Lemma read_key : forall fx f st s n, wf f -> Inv f st s -> Inv2 st ->
  lex_le (key st) (key (fst (read fx st n))) /\ Inv2 (fst (read fx st n)).
Proof.
  intros fx f st s n Hwf HI H2. unfold read.
  destruct (negb (has_remaining st) && (65536 <=? n)) eqn:Ed.
  - apply andb_prop in Ed. destruct Ed as [Eh _].
    assert (Hrem : has_remaining st = false) by (destruct (has_remaining st); [discriminate | reflexivity]).
    pose proof (load_key IntoBuf st H2 Hrem) as Hk.
    destruct (read_nonempty_block IntoBuf st) as [st' [b|]]; cbn [fst] in *; exact Hk.
  - destruct (fill_refines f st s Hwf HI) as [Hr HI1].
    destruct (fill_key st H2) as [Hk1 H21].
    destruct (fill_buf st) as [st1 r1]. cbn [fst snd] in *.
    unfold f_fill in Hr. cbn [snd] in Hr. subst r1. cbn [fst].
    destruct (consume_key f st1 _ (len (firstn (N.to_nat n)
               (slice (concat (chunks f)) (off (refill (chunks f) s)) (win (refill (chunks f) s))))) Hwf HI1)
      as [Hk2 H22].
    split; [eapply lex_le_trans; eassumption | apply H22; exact H21].
Qed.

Lemma loop_key : forall fx f, wf f -> forall fuel st s rem acc,
  Inv f st s -> Inv2 st -> exact_ok fx f rem ->
  lex_le (key st) (key (fst (default_read_exact fx fuel st rem acc))) /\
  Inv2 (fst (default_read_exact fx fuel st rem acc)).
Proof.
  intros fx f Hwf. induction fuel as [|k IH]; intros st s rem acc HI H2 Hok.
  - cbn [default_read_exact fst]. split; [apply lex_le_refl | exact H2].
  - cbn [default_read_exact].
    destruct (rem =? 0); [cbn [fst]; split; [apply lex_le_refl | exact H2]|].
    destruct (read_refines fx f st s rem Hwf HI (not_stale _ _ _ _ _ HI Hok)) as [Hr HI1].
    destruct (read_key fx f st s rem Hwf HI H2) as [Hk1 H21].
    destruct (read fx st rem) as [st1 r1]. cbn [fst snd] in Hr, HI1, Hk1, H21.
    unfold f_read in Hr, HI1. cbn [fst snd] in Hr, HI1. subst r1.
    match goal with |- context [len ?b =? 0] => set (bs := b) in * end.
    destruct (len bs =? 0); [cbn [fst]; split; assumption|].
    destruct (IH st1 _ (rem - len bs) (acc ++ bs) HI1 H21) as [Hk2 H22].
    { destruct Hok as [Hfx|[Hn|Ht]]; [left; exact Hfx | right; left; lia | right; right; exact Ht]. }
    split; [eapply lex_le_trans; eassumption | exact H22].
Qed.

Lemma all_loop_key : forall fx f n, wf f -> exact_ok fx f n -> forall fuel st s acc,
  Inv f st s -> Inv2 st ->
  lex_le (key st) (key (fst (read_all_loop fx fuel st n acc))) /\
  Inv2 (fst (read_all_loop fx fuel st n acc)).
Proof.
  intros fx f n Hwf Hok. induction fuel as [|k IH]; intros st s acc HI H2.
  - cbn [read_all_loop fst]. split; [apply lex_le_refl | exact H2].
  - cbn [read_all_loop].
    destruct (read_refines fx f st s n Hwf HI (not_stale _ _ _ _ _ HI Hok)) as [Hr HI1].
    destruct (read_key fx f st s n Hwf HI H2) as [Hk1 H21].
    destruct (read fx st n) as [st1 r1]. cbn [fst snd] in Hr, HI1, Hk1, H21.
    unfold f_read in Hr, HI1. cbn [fst snd] in Hr, HI1. subst r1.
    match goal with |- context [len ?b =? 0] => set (bs := b) in * end.
    destruct (len bs =? 0); [cbn [fst]; split; assumption|].
    destruct (IH st1 _ (acc ++ bs) HI1 H21) as [Hk2 H22].
    split; [eapply lex_le_trans; eassumption | exact H22].
Qed.

Lemma fst_let : forall (A B C : Type) (p : A * B) (g : B -> C),
  fst (let '(s, r) := p in (s, g r)) = fst p.
Proof. intros A B C [a b] g. reflexivity. Qed.

(* one call that is not a seek: the reported pair does not decrease *)
Lemma step_key : forall fx f idx st s o, wf f -> Inv f st s -> Inv2 st -> op_ok fx f st o ->
  is_seek o = false ->
  lex_le (key st) (key (fst (step fx f idx st o))) /\ Inv2 (fst (step fx f idx st o)).
Proof.
  intros fx f idx st s o Hwf HI H2 Hok Hns.
  destruct o as [n|n|n| |n|v|p|n]; try discriminate; cbn [op_ok] in Hok; cbn [step];
    rewrite ?fst_let.
  - eapply read_key; eassumption.
  - unfold read_exact. rewrite (as_ref_spec _ _ _ HI).
    destruct (n <=? len _).
    + cbn [fst]. destruct (consume_key f st s n Hwf HI) as [Hk H]. split; [exact Hk | apply H; exact H2].
    + unfold read_exact_std. eapply loop_key; eassumption.
  - unfold read_exact_std. eapply loop_key; eassumption.
  - apply fill_key. exact H2.
  - cbn [fst]. destruct (consume_key f st s n Hwf HI) as [Hk H]. split; [exact Hk | apply H; exact H2].
  - unfold read_all. eapply all_loop_key; eassumption.
Qed.

Lemma seek_inv2 : forall f st v, Inv2 st -> Inv2 (fst (seek true f st v)).
Proof.
  intros f st v H2. unfold seek. destruct (drop_to f 0 (vcomp v)) as [r0|]; [|exact H2].
  unfold read_nonempty_block. cbn [rest position].
  destruct (next_nonempty r0 (vcomp v)) as [[[[b p] r] np]|] eqn:E.
  - destruct (next_nonempty_some _ _ _ _ _ _ E) as (es & _ & _ & _ & Hnp & _).
    cbn [andb]. destruct (flen b =? 0); cbn [fst]; unfold Inv2; cbn [bpos bsize position]; lia.
  - cbn [andb fst]. unfold Inv2. cbn [bpos bsize position]. lia.
Qed.

Lemma seeku_inv2 : forall f idx st p, Inv2 st ->
  Inv2 (fst (seek_by_uncompressed_position true f idx st p)).
Proof.
  intros f idx st p H2. unfold seek_by_uncompressed_position.
  destruct (gzi_query idx p) as [v|e| | |]; try exact H2.
  pose proof (seek_inv2 f st v H2) as H.
  destruct (seek true f st v) as [st' [a|e| | |]]; cbn [fst] in *; exact H.
Qed.

Lemma step_inv2 : forall f st s o, wf f -> Inv f st s -> Inv2 st -> op_ok true f st o ->
  Inv2 (fst (step true f (gzi_of f) st o)).
Proof.
  intros f st s o Hwf HI H2 Hok. destruct (is_seek o) eqn:Es.
  - destruct o as [n|n|n| |n|v|p|n]; try discriminate; cbn [step]; rewrite fst_let.
    + apply seek_inv2. exact H2.
    + apply seeku_inv2. exact H2.
  - eapply step_key; eassumption.
Qed.

(* every state a valid history reaches satisfies both invariants *)
Lemma run_state_inv : forall f, wf f -> total_csize f <= MAX_COMPRESSED_POSITION ->
  forall ops st s, Inv f st s -> Inv2 st -> ops_ok true f (gzi_of f) st ops ->
  exists s', Inv f (run_state true f (gzi_of f) st ops) s' /\ Inv2 (run_state true f (gzi_of f) st ops).
Proof.
  intros f Hwf Hmax. induction ops as [|o r IH]; intros st s HI H2 Hok.
  - exists s. split; assumption.
  - destruct Hok as [Ho Hr]. cbn [run_state].
    destruct (step_refines true f st s o Hwf Hmax HI Ho) as (s' & fo & _ & _ & HI').
    apply (IH _ s' HI'); [|exact Hr]. eapply step_inv2; eassumption.
Qed.

Lemma reach_inv : forall f ops, wf f -> total_csize f <= MAX_COMPRESSED_POSITION -> ops_valid f ops ->
  exists s, Inv f (run_state true f (gzi_of f) (init f) ops) s /\
            Inv2 (run_state true f (gzi_of f) (init f) ops).
Proof.
  intros f ops Hwf Hmax Hv.
  apply (run_state_inv f Hwf Hmax ops (init f) (mkF 0 0)).
  - apply inv_init. exact Hwf.
  - apply inv2_init.
  - apply ops_valid_ok. exact Hv.
Qed.

Lemma vpos_key : forall st v, virtual_position st = Ok v ->
  v = pack (fst (key st)) (snd (key st)) /\ snd (key st) < 65536.
Proof.
  intros st v H. unfold virtual_position, key in *. destruct (has_remaining st).
  - destruct ((bpos st <=? MAX_COMPRESSED_POSITION) && (cur st <=? MAX_UNCOMPRESSED_POSITION)) eqn:E;
      [|discriminate].
    apply andb_prop in E. destruct E as [_ E]. unfold MAX_UNCOMPRESSED_POSITION in E.
    inversion H; subst. cbn [fst snd]. split; [reflexivity | lia].
  - destruct (bpos st + bsize st <=? MAX_COMPRESSED_POSITION); [|discriminate].
    inversion H; subst. cbn [fst snd]. split; [reflexivity | lia].
Qed.

Lemma key_mono_vpos : forall st st' v1 v2, lex_le (key st) (key st') ->
  virtual_position st = Ok v1 -> virtual_position st' = Ok v2 -> v1 <= v2.
Proof.
  intros st st' v1 v2 Hk H1 H2.
  destruct (vpos_key _ _ H1) as [E1 L1]. destruct (vpos_key _ _ H2) as [E2 L2]. subst v1 v2.
  apply pack_lex_le; assumption.
Qed.

Lemma ops_valid_app : forall f a b, ops_valid f (a ++ b) <-> ops_valid f a /\ ops_valid f b.
Proof. intros. unfold ops_valid. apply Forall_app. Qed.

(* c02_tell_monotone: the numeric statement, for any history (seeks allowed) followed by one call
   that is not a seek *)
Theorem tell_monotone : forall f ops o st v1 v2,
  wf f -> total_csize f <= MAX_COMPRESSED_POSITION -> ops_valid f (ops ++ [o]) -> is_seek o = false ->
  st = run_state true f (gzi_of f) (init f) ops ->
  virtual_position st = Ok v1 ->
  virtual_position (fst (step true f (gzi_of f) st o)) = Ok v2 -> v1 <= v2.
Proof.
  intros f ops o st v1 v2 Hwf Hmax Hv Hns Hst H1 H2.
  apply ops_valid_app in Hv. destruct Hv as [Hv Hvo].
  destruct (reach_inv f ops Hwf Hmax Hv) as (s & HI & HI2). rewrite <- Hst in HI, HI2.
  assert (Hok : op_ok true f st o).
  { pose proof (ops_valid_ok f [o] st Hvo) as H. cbn [ops_ok] in H. tauto. }
  destruct (step_key true f (gzi_of f) st s o Hwf HI HI2 Hok Hns) as [Hk _].
  eapply key_mono_vpos; eassumption.
Qed.

(* ... and both positions are defined *)
Theorem tell_monotone_defined : forall f ops o,
  wf f -> total_csize f <= MAX_COMPRESSED_POSITION -> ops_valid f (ops ++ [o]) -> is_seek o = false ->
  let st := run_state true f (gzi_of f) (init f) ops in
  exists v1 v2, virtual_position st = Ok v1 /\
                virtual_position (fst (step true f (gzi_of f) st o)) = Ok v2 /\ v1 <= v2.
Proof.
  intros f ops o Hwf Hmax Hv Hns st.
  pose proof Hv as Hv'. apply ops_valid_app in Hv'. destruct Hv' as [Hv1 Hvo].
  destruct (reach_inv f ops Hwf Hmax Hv1) as (s & HI & HI2). fold st in HI, HI2.
  assert (Hok : op_ok true f st o).
  { pose proof (ops_valid_ok f [o] st Hvo) as H. cbn [ops_ok] in H. tauto. }
  destruct (step_refines true f st s o Hwf Hmax HI Hok) as (s' & fo & _ & _ & HI').
  destruct (vpos_denote f st s Hwf Hmax HI) as (v1 & E1 & _).
  destruct (vpos_denote f _ s' Hwf Hmax HI') as (v2 & E2 & _).
  exists v1, v2. split; [exact E1|]. split; [exact E2|].
  eapply (tell_monotone f ops o st v1 v2); try eassumption. reflexivity.
Qed.

(* along a history without seeks the list of reported positions is defined and nondecreasing as
   numbers *)
Lemma run_mono : forall f, wf f -> total_csize f <= MAX_COMPRESSED_POSITION ->
  forall ops st s v0, Inv f st s -> Inv2 st -> virtual_position st = Ok v0 ->
  ops_ok true f (gzi_of f) st ops ->
  forallb (fun o => negb (is_seek o)) ops = true ->
  exists vs, map snd (run true f (gzi_of f) st ops) = map Ok vs /\ nondecr v0 vs.
Proof.
  intros f Hwf Hmax. induction ops as [|o r IH]; intros st s v0 HI H2 Hv0 Hok Hns.
  - exists []. split; [reflexivity | exact I].
  - destruct Hok as [Ho Hr]. cbn [forallb] in Hns. apply andb_prop in Hns. destruct Hns as [Hno Hnr].
    assert (Hns : is_seek o = false) by (destruct (is_seek o); [discriminate | reflexivity]).
    destruct (step_refines true f st s o Hwf Hmax HI Ho) as (s' & fo & _ & _ & HI').
    destruct (step_key true f (gzi_of f) st s o Hwf HI H2 Ho Hns) as [Hk H2'].
    destruct (vpos_denote f _ s' Hwf Hmax HI') as (v1 & E1 & _).
    cbn [run]. destruct (step true f (gzi_of f) st o) as [st' x] eqn:Es. cbn [fst] in *.
    destruct (IH st' s' v1 HI' H2' E1 Hr Hnr) as (vs & Hm & Hnd).
    exists (v1 :: vs). cbn [map snd nondecr]. rewrite E1, Hm. split; [reflexivity|].
    split; [|exact Hnd]. eapply key_mono_vpos; eassumption.
Qed.

Theorem tell_monotone_run : forall f ops,
  wf f -> total_csize f <= MAX_COMPRESSED_POSITION -> ops_valid f ops ->
  forallb (fun o => negb (is_seek o)) ops = true ->
  exists vs, map snd (run true f (gzi_of f) (init f) ops) = map Ok vs /\ nondecr 0 vs.
Proof.
  intros f ops Hwf Hmax Hv Hns.
  destruct (vpos_denote f (init f) (mkF 0 0) Hwf Hmax (inv_init f Hwf)) as (v0 & E0 & _).
  destruct (run_mono f Hwf Hmax ops (init f) (mkF 0 0) v0 (inv_init f Hwf) (inv2_init f) E0
              (ops_valid_ok f ops (init f) Hv) Hns) as (vs & Hm & Hnd).
  exists vs. split; [exact Hm|]. destruct vs as [|x r]; [exact I|].
  cbn [nondecr] in *. split; [lia | tauto].
Qed.

(* ---- after a seek, reading to the end returns exactly the rest of the stream --------------- *)

Theorem seek_then_read_to_end : forall f ops v i n,
  wf f -> total_csize f <= MAX_COMPRESSED_POSITION -> ops_valid f ops ->
  denote f v = Some i -> 0 < n ->
  let st := run_state true f (gzi_of f) (init f) ops in
  let st1 := fst (seek true f st v) in
  snd (seek true f st v) = Ok v /\
  snd (read_all true st1 n) = Ok (skipn (N.to_nat i) (concat (chunks f))) /\
  exists ve, virtual_position (fst (read_all true st1 n)) = Ok ve /\
             denote f ve = Some (total_dlen f).
Proof.
  intros f ops v i n Hwf Hmax Hv Hd Hn st st1.
  destruct (reach_inv f ops Hwf Hmax Hv) as (s & HI & _). fold st in HI.
  unfold denote in Hd.
  destruct (frame_start f 0 0 (vcomp v)) as [[s0 l]|] eqn:Hfs; [|discriminate].
  destruct (N.leb_spec (vuncomp v) l) as [Hu|]; [|discriminate].
  inversion Hd; subst i. clear Hd.
  assert (Hsk : seek_ok true f st v) by (intros H; discriminate).
  destruct (seek_refines true f st s v s0 l Hwf HI Hfs Hu Hsk) as [Hr HI1]. fold st1 in HI1.
  split; [exact Hr|].
  destruct (read_all_refines true f st1 _ n Hwf HI1 (or_introl eq_refl)) as [Hr2 HI2].
  pose proof (Inv_bound _ _ _ HI1) as Hbd.
  unfold f_read_all in Hr2, HI2. destruct (N.eqb_spec n 0) as [|_]; [lia|].
  cbn [fst snd] in Hr2, HI2. unfold f_seek in Hr2, HI2, Hbd. cbn [off win] in Hr2, HI2, Hbd.
  split; [exact Hr2|].
  destruct (vpos_denote f _ _ Hwf Hmax HI2) as (ve & Eve & Hde).
  exists ve. split; [exact Eve|]. rewrite Hde. cbn [off]. f_equal.
  rewrite len_concat_chunks. lia.
Qed.

(* ---- IndexedReader's seek path: Seek::seek(SeekFrom::Start(p)) = gzi query + Reader::seek, then
   std's read_exact ---------------------------------------------------------------------------- *)

Lemma firstn_plus : forall (A : Type) (a b : nat) (l : list A),
  firstn (a + b) l = firstn a l ++ firstn b (skipn a l).
Proof.
  intros A a b. induction a as [|a IH]; intros l.
  - rewrite firstn_O, skipn_O. reflexivity.
  - destruct l as [|x l]; [rewrite skipn_nil, !firstn_nil; reflexivity|].
    change (S a + b)%nat with (S (a + b)). rewrite !firstn_cons, skipn_cons, IH. reflexivity.
Qed.

Lemma slice_split : forall D i a b, slice D i a ++ slice D (i + a) b = slice D i (a + b).
Proof.
  intros. unfold slice.
  replace (N.to_nat (a + b)) with (N.to_nat a + N.to_nat b)%nat by lia.
  rewrite firstn_plus. f_equal. f_equal.
  replace (N.to_nat (i + a)) with (N.to_nat a + N.to_nat i)%nat by lia.
  symmetry. apply skipn_add.
Qed.

(* closed form of std's read_exact loop on the flat reference *)
Lemma f_loop_closed : forall cs fuel s rem acc,
  off s + win s <= len (concat cs) -> (N.to_nat rem < fuel)%nat ->
  snd (f_read_loop cs fuel s rem acc)
  = if off s + rem <=? len (concat cs) then Ok (acc ++ slice (concat cs) (off s) rem)
    else Err UnexpectedEof.
Proof.
  intros cs. induction fuel as [|k IH]; intros s rem acc Hb Hf; [lia|].
  cbn [f_read_loop]. destruct (N.eqb_spec rem 0) as [Ez|Enz].
  - subst rem. cbn [snd]. destruct (N.leb_spec (off s + 0) (len (concat cs))); [|lia].
    rewrite slice_zero, app_nil_r. reflexivity.
  - unfold f_read. pose proof (refill_bound cs s Hb) as Hb1.
    pose proof (refill_off cs s) as Ho1. set (s1 := refill cs s) in *.
    rewrite len_slice by lia.
    destruct (N.eqb_spec (N.min rem (win s1)) 0) as [Ez|Ez].
    + cbn [snd]. assert (Hw1 : win s1 = 0) by lia.
      assert (Hend : len (concat cs) <= off s).
      { subst s1. unfold refill in Hw1. destruct (N.ltb_spec 0 (win s)) as [Hp|Hz]; [lia|].
        cbn [win] in Hw1. apply win_at_zero in Hw1. exact Hw1. }
      destruct (N.leb_spec (off s + rem) (len (concat cs))); [lia | reflexivity].
    + rewrite IH; unfold f_advance; cbn [off win]; try lia.
      rewrite Ho1.
      replace (off s + N.min rem (win s1) + (rem - N.min rem (win s1))) with (off s + rem) by lia.
      destruct (off s + rem <=? len (concat cs)); [|reflexivity].
      f_equal. rewrite <- app_assoc. f_equal.
      rewrite slice_split. f_equal. lia.
Qed.

Theorem indexed_reader_seek : forall f ops p n,
  wf f -> total_csize f <= MAX_COMPRESSED_POSITION -> ops_valid f ops -> seeku_ok f p ->
  let st := run_state true f (gzi_of f) (init f) ops in
  let st1 := fst (seek_by_uncompressed_position true f (gzi_of f) st p) in
  snd (seek_by_uncompressed_position true f (gzi_of f) st p) = Ok p /\
  (exists v, virtual_position st1 = Ok v /\ denote f v = Some p) /\
  snd (read_exact_std true st1 n)
  = if p + n <=? total_dlen f then Ok (slice (concat (chunks f)) p n) else Err UnexpectedEof.
Proof.
  intros f ops p n Hwf Hmax Hv Hp st st1.
  destruct (reach_inv f ops Hwf Hmax Hv) as (s & HI & _). fold st in HI.
  destruct (seeku_refines true f st s p Hwf Hmax HI Hp) as [Hr HI1]. fold st1 in HI1.
  split; [exact Hr|]. split.
  - destruct (vpos_denote f st1 _ Hwf Hmax HI1) as (v & Ev & Hd). exists v. split; [exact Ev | exact Hd].
  - destruct (read_exact_std_refines true f st1 _ n Hwf HI1 (or_introl eq_refl)) as [Hr2 _].
    rewrite Hr2. unfold f_read_exact_std.
    pose proof (Inv_bound _ _ _ HI1) as Hbd. rewrite <- len_concat_chunks in *.
    rewrite f_loop_closed by (try exact Hbd; lia).
    unfold f_seek_flat. cbn [off app]. reflexivity.
Qed.
