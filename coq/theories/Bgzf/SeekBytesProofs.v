(* Which seek(v) succeed, for ARBITRARY bytes and ARBITRARY v (SeekBytes.seek_bytes):
   exactly those whose block offset starts a chain `empty frames*, then a frame with data or the
   clean end of input (< 18 bytes)` that C01's frame parser + inflater + CRC accept; the in-block
   offset never matters (it is clamped).  Every other seek fails with InvalidData or
   UnexpectedEof: never a panic, and the loop fuel is never the reason. *)
From Coq Require Import List NArith Bool Lia ZifyBool ZifyNat ZifyN.
From NV Require Import Base.LE Bgzf.Vpos Bgzf.Gzi Bgzf.ReaderOps Bgzf.SeekBytes.
From NV Require Bgzf.Frame Bgzf.Reader Bgzf.Crc32 Bgzf.Inflate.
Import ListNotations.
Open Scope N_scope.

Lemma read_frame_some : forall src fr rest,
  Reader.read_frame src = Frame.Ok (Some (fr, rest)) ->
  src = fr ++ rest /\ (length rest + 26 <= length src)%nat /\ 26 <= Frame.lenN fr.
Proof.
  intros src fr rest H. unfold Reader.read_frame in H.
  destruct (Frame.lenN src <? Frame.BGZF_HEADER_SIZE); [discriminate|].
  set (bs := le_dec (Frame.slice src 16 18) + 1) in *.
  destruct (bs <? Frame.MIN_FRAME_SIZE) eqn:E1; [discriminate|].
  destruct (Frame.lenN src <? bs) eqn:E2; [discriminate|].
  injection H as Hf Hr. subst fr rest.
  unfold Frame.MIN_FRAME_SIZE, Frame.lenN in *.
  split; [symmetry; apply firstn_skipn|].
  rewrite skipn_length, firstn_length. lia.
Qed.

Section Proofs.
  Variable inflate : list N -> N -> option (list N).
  Hypothesis Hlen : forall c n d, inflate c n = Some d -> Frame.lenN d = n.

  (* the chains of frames the reader accepts when it looks for the next block with data *)
  Inductive chain_ok : list N -> Prop :=
  | chain_end : forall src, Reader.read_frame src = Frame.Ok None -> chain_ok src
  | chain_data : forall src fr rest bs d,
      Reader.read_frame src = Frame.Ok (Some (fr, rest)) ->
      Reader.parse_block inflate fr = Frame.Ok (bs, d) -> d <> [] -> chain_ok src
  | chain_skip : forall src fr rest bs,
      Reader.read_frame src = Frame.Ok (Some (fr, rest)) ->
      Reader.parse_block inflate fr = Frame.Ok (bs, []) -> chain_ok rest -> chain_ok src.

  Lemma rnb_ok_chain : forall fuel src pos b pos' b' n,
    rnb inflate fuel src pos b = (pos', b', Ok n) -> chain_ok src.
  Proof.
    induction fuel as [|fuel IH]; intros src pos b pos' b' n H; cbn [rnb] in H; [discriminate|].
    destruct (Reader.read_frame src) as [[[fr rest]|]|e|] eqn:Hr; try discriminate.
    - destruct (Frame.parse_frame fr) as [[[[bs cdata] crc] isize]|e|] eqn:Hp; try discriminate.
      destruct (inflate cdata isize) as [d|] eqn:Hi; [|discriminate].
      destruct (Crc32.crc32 d =? crc) eqn:Hc; [|discriminate].
      assert (Hpb : Reader.parse_block inflate fr = Frame.Ok (bs, d)).
      { unfold Reader.parse_block. rewrite Hp, Hi, Hc. reflexivity. }
      pose proof (Hlen _ _ _ Hi) as Hl. unfold Frame.lenN in Hl.
      destruct (0 <? isize) eqn:Hz.
      + apply (chain_data src fr rest bs d Hr Hpb). intros ->. cbn in Hl. lia.
      + destruct d as [|x d]; [|cbn [length] in Hl; lia].
        apply (chain_skip src fr rest bs Hr Hpb). exact (IH _ _ _ _ _ _ H).
    - apply chain_end. exact Hr.
  Qed.

  Lemma chain_rnb_ok : forall src, chain_ok src -> forall fuel pos b,
    (length src < fuel)%nat -> exists pos' b' n, rnb inflate fuel src pos b = (pos', b', Ok n).
  Proof.
    intros src Hc. induction Hc as [src Hr|src fr rest bs d Hr Hpb Hd|src fr rest bs Hr Hpb Hc IH];
      intros fuel pos b Hf; (destruct fuel as [|fuel]; [lia|]); cbn [rnb]; rewrite Hr.
    - eexists _, _, _. reflexivity.
    - unfold Reader.parse_block in Hpb.
      destruct (Frame.parse_frame fr) as [[[[bs0 cdata] crc] isize]|e|]; try discriminate.
      destruct (inflate cdata isize) as [d0|] eqn:Hi; [|discriminate].
      destruct (Crc32.crc32 d0 =? crc); [|discriminate].
      injection Hpb as Hb Hdd. subst d0 bs0.
      pose proof (Hlen _ _ _ Hi) as Hl. unfold Frame.lenN in Hl.
      assert (Hz : 0 <? isize = true) by (destruct d; [congruence|cbn [length] in Hl; lia]).
      rewrite Hz. eexists _, _, _. reflexivity.
    - unfold Reader.parse_block in Hpb.
      destruct (Frame.parse_frame fr) as [[[[bs0 cdata] crc] isize]|e|]; try discriminate.
      destruct (inflate cdata isize) as [d0|] eqn:Hi; [|discriminate].
      destruct (Crc32.crc32 d0 =? crc); [|discriminate].
      injection Hpb as Hb Hdd. subst d0 bs0.
      pose proof (Hlen _ _ _ Hi) as Hl. unfold Frame.lenN in Hl. cbn [length] in Hl.
      assert (Hz : 0 <? isize = false) by lia.
      rewrite Hz. apply IH. destruct (read_frame_some _ _ _ Hr) as (_ & Hlt & _). lia.
  Qed.

  (* never a panic, never out of fuel, and only the two error kinds *)
  Lemma rnb_total : forall fuel src pos b,
    (length src < fuel)%nat ->
    exists pos' b', (exists n, rnb inflate fuel src pos b = (pos', b', Ok n)) \/
                    rnb inflate fuel src pos b = (pos', b', Err InvalidData) \/
                    rnb inflate fuel src pos b = (pos', b', Err UnexpectedEof).
  Proof.
    induction fuel as [|fuel IH]; intros src pos b Hf; [lia|]. cbn [rnb].
    destruct (Reader.read_frame src) as [[[fr rest]|]|e|] eqn:Hr.
    - unfold Frame.parse_frame.
      destruct (Frame.lenN fr <? Frame.MIN_FRAME_SIZE); [eexists _, _; right; right; reflexivity|].
      destruct (negb _); [eexists _, _; right; left; reflexivity|].
      destruct (_ <=? Frame.BGZF_MAX_ISIZE); [|eexists _, _; right; left; reflexivity].
      destruct (inflate _ _) as [d|]; [|eexists _, _; right; left; reflexivity].
      destruct (Crc32.crc32 d =? _); [|eexists _, _; right; left; reflexivity].
      destruct (0 <? _); [eexists _, _; left; eexists; reflexivity|].
      apply IH. destruct (read_frame_some _ _ _ Hr) as (_ & Hlt & _). lia.
    - eexists _, _; left; eexists; reflexivity.
    - unfold Reader.read_frame in Hr.
      destruct (Frame.lenN src <? Frame.BGZF_HEADER_SIZE); [discriminate|].
      destruct (_ <? Frame.MIN_FRAME_SIZE).
      + injection Hr as Hr. subst e. eexists _, _; right; left; reflexivity.
      + destruct (Frame.lenN src <? _); [|discriminate].
        injection Hr as Hr. subst e. eexists _, _; right; right; reflexivity.
    - unfold Reader.read_frame in Hr.
      destruct (Frame.lenN src <? Frame.BGZF_HEADER_SIZE); [discriminate|].
      destruct (_ <? Frame.MIN_FRAME_SIZE); [discriminate|].
      destruct (Frame.lenN src <? _); discriminate.
  Qed.

  (* seek(v) succeeds iff the chain at its block offset parses; the in-block offset is irrelevant *)
  Theorem seek_bytes_ok_iff : forall fb b0 v,
    fst (seek_bytes inflate fb b0 v) = Ok v <-> chain_ok (bytes_from fb (vcomp v)).
  Proof.
    intros fb b0 v. unfold seek_bytes. set (src := bytes_from fb (vcomp v)). split.
    - intros H.
      destruct (rnb inflate (S (length src)) src (vcomp v) b0) as [[pos b] r] eqn:E.
      destruct r; cbn [fst] in H; try discriminate.
      exact (rnb_ok_chain _ _ _ _ _ _ _ E).
    - intros Hc. destruct (chain_rnb_ok src Hc (S (length src)) (vcomp v) b0 ltac:(lia))
        as (pos & b & n & E). rewrite E. reflexivity.
  Qed.

  Theorem seek_bytes_total : forall fb b0 v,
    fst (seek_bytes inflate fb b0 v) = Ok v \/
    fst (seek_bytes inflate fb b0 v) = Err InvalidData \/
    fst (seek_bytes inflate fb b0 v) = Err UnexpectedEof.
  Proof.
    intros fb b0 v. unfold seek_bytes. set (src := bytes_from fb (vcomp v)).
    destruct (rnb_total (S (length src)) src (vcomp v) b0 ltac:(lia)) as (pos & b & [[n E]|[E|E]]);
      rewrite E; cbn [fst]; auto.
  Qed.

  (* at or after the end of the file (fewer than 18 bytes left) every seek succeeds and the position
     told afterwards is (c, 0): an empty block at c *)
  Theorem seek_bytes_beyond_end : forall fb b0 v,
    Frame.lenN fb < vcomp v + 18 -> vcomp v <= MAX_COMPRESSED_POSITION ->
    seek_bytes inflate fb b0 v = (Ok v, Ok (pack (vcomp v) 0)).
  Proof.
    intros fb b0 v Hend Hmax. unfold seek_bytes. set (src := bytes_from fb (vcomp v)).
    assert (Hs : Frame.lenN src < 18).
    { subst src. unfold bytes_from. destruct (Frame.lenN fb <=? vcomp v) eqn:E; [cbn; lia|].
      unfold Frame.lenN in *. rewrite skipn_length. lia. }
    cbn [rnb]. unfold Reader.read_frame, Frame.BGZF_HEADER_SIZE.
    destruct (Frame.lenN src <? 18) eqn:E; [|lia].
    cbn [N.eqb k_pos k_size k_len]. unfold blk_vpos. cbn [k_cur k_len k_pos k_size].
    rewrite N.min_0_r. cbn [N.ltb N.compare]. rewrite N.add_0_r.
    destruct (vcomp v <=? MAX_COMPRESSED_POSITION) eqn:E2; [reflexivity|lia].
  Qed.
End Proofs.

(* the premise holds for C01's inflater *)
Lemma inflate_len : forall c n d, Inflate.inflate c n = Some d -> Frame.lenN d = n.
Proof.
  intros c n d H. unfold Inflate.inflate in H.
  destruct (Inflate.inflate_raw n c) as [[out s]|]; [|discriminate].
  destruct (Frame.lenN out =? n) eqn:E; [|discriminate].
  injection H as H. subst d. lia.
Qed.

(* on the parsed file: the frame-level seek accepts exactly the block offsets that are not
   strictly inside a frame (frame boundaries and everything at or beyond the end), whatever the
   in-block offset *)
Lemma seek_frames_ok_iff : forall fx f st v,
  snd (seek fx f st v) = Ok v <-> drop_to f 0 (vcomp v) <> None.
Proof.
  intros fx f st v. unfold seek. destruct (drop_to f 0 (vcomp v)) as [r|].
  - destruct (read_nonempty_block Parse _) as [st2 ld]. cbn [snd]. split; [discriminate|reflexivity].
  - cbn [snd]. split; [discriminate|congruence].
Qed.

Example seek_bytes_examples :
  seek_bytes Inflate.inflate Frame.eof_block (mkBlk 0 0 0 0) (pack 0 7) = (Ok (pack 0 7), Ok (pack 28 0)) /\
  seek_bytes Inflate.inflate Frame.eof_block (mkBlk 0 0 0 0) (pack 5 0) = (Err InvalidData, Ok (pack 0 0)) /\
  seek_bytes Inflate.inflate Frame.eof_block (mkBlk 0 0 0 0) (pack 11 0) = (Ok (pack 11 0), Ok (pack 11 0)) /\
  seek_bytes Inflate.inflate Frame.eof_block (mkBlk 0 0 0 0) (pack 4000 9) = (Ok (pack 4000 9), Ok (pack 4000 0)).
Proof. vm_compute. repeat split; reflexivity. Qed.

(* ---- after an Err (repair da5f8c7): the failed block is not the current block -------------- *)

Lemma rnb_err_block : forall inflate fuel src pos b pos' b' e,
  rnb inflate fuel src pos b = (pos', b', Err e) ->
  (b' = b /\ pos' = pos) \/
  (b' = mkBlk (k_pos b) (k_size b) (k_len b) (k_len b) /\ pos' = pos) \/
  (exists p s, b' = mkBlk p s 0 0 /\ pos' = p + s).
Proof.
  intros inflate. induction fuel as [|fuel IH]; intros src pos b pos' b' e H; cbn [rnb] in H; [discriminate|].
  destruct (Reader.read_frame src) as [[[fr rest]|]|e0|]; try discriminate.
  - destruct (Frame.parse_frame fr) as [[[[bs cdata] crc] isize]|e0|]; try discriminate.
    + destruct (inflate cdata isize) as [d|].
      * destruct (Crc32.crc32 d =? crc).
        -- destruct (0 <? isize) eqn:Hz; [discriminate|].
           assert (isize = 0) by lia. subst isize.
           destruct (IH _ _ _ _ _ _ H) as [[Hb Hp]|[[Hb Hp]|(p & s & Hb & Hp)]].
           ++ right. right. exists pos, bs. split; [exact Hb|exact Hp].
           ++ right. right. exists pos, bs. cbn [k_pos k_size k_len] in Hb. split; [exact Hb|exact Hp].
           ++ right. right. exists p, s. split; assumption.
        -- injection H as Hp Hb _. right. left. split; congruence.
      * injection H as Hp Hb _. right. left. split; congruence.
    + injection H as Hp Hb _. left. split; congruence.
  - injection H as Hp Hb _. left. split; congruence.
Qed.

(* (1) if anything is readable after the Err, it is the untouched previous block: no byte of the
       failed block (nor of any other) can be delivered;
   (2) when the block was exhausted before (always the case when read / fill_buf reads a block) the
       position told is unchanged, or has only advanced over well-formed empty frames *)
Theorem failed_block_not_current : forall inflate fuel src pos b pos' b' e,
  rnb inflate fuel src pos b = (pos', b', Err e) ->
  (k_cur b' < k_len b' -> b' = b) /\
  (k_len b <= k_cur b ->
   blk_vpos b' = blk_vpos b \/ exists p s, b' = mkBlk p s 0 0 /\ pos' = p + s).
Proof.
  intros inflate fuel src pos b pos' b' e H.
  destruct (rnb_err_block _ _ _ _ _ _ _ _ H) as [[Hb Hp]|[[Hb Hp]|(p & s & Hb & Hp)]].
  - split; [intros _; exact Hb|intros _; left; rewrite Hb; reflexivity].
  - split.
    + intros Hlt. rewrite Hb in Hlt. cbn [k_cur k_len] in Hlt. lia.
    + intros Hex. left. rewrite Hb. unfold blk_vpos. cbn [k_cur k_len k_pos k_size].
      destruct (k_len b <? k_len b) eqn:E1; [lia|].
      destruct (k_cur b <? k_len b) eqn:E2; [lia|]. reflexivity.
  - split.
    + intros Hlt. rewrite Hb in Hlt. cbn [k_cur k_len] in Hlt. lia.
    + intros _. right. exists p, s. split; assumption.
Qed.

Lemma rnbs_rnb : forall inflate fuel src pos b,
  let '(_, p, b', r) := rnbs inflate fuel src pos b in rnb inflate fuel src pos b = (p, b', r).
Proof.
  intros inflate. induction fuel as [|fuel IH]; intros src pos b; cbn [rnbs rnb]; [reflexivity|].
  destruct (Reader.read_frame src) as [[[fr rest]|]|e0|]; try reflexivity.
  - destruct (Frame.parse_frame fr) as [[[[bs cdata] crc] isize]|e0|]; try reflexivity.
    destruct (inflate cdata isize) as [d|]; [|reflexivity].
    destruct (Crc32.crc32 d =? crc); [|reflexivity].
    destruct (0 <? isize); [reflexivity|]. apply IH.
  - destruct e0; reflexivity.
Qed.

(* the same for Read::read: a call that fails leaves nothing readable, and the position told is
   the one told before the call or has advanced over well-formed empty frames only *)
Theorem read_b_err : forall inflate s n s' e,
  read_b inflate s n = (s', Err e) ->
  k_len (s_blk s') <= k_cur (s_blk s') /\
  (blk_vpos (s_blk s') = blk_vpos (s_blk s) \/
   exists p sz, s_blk s' = mkBlk p sz 0 0 /\ s_position s' = p + sz).
Proof.
  intros inflate s n s' e H. unfold read_b in H.
  destruct (k_cur (s_blk s) <? k_len (s_blk s)) eqn:Hr; [discriminate|].
  pose proof (rnbs_rnb inflate (S (length (s_src s))) (s_src s) (s_position s) (s_blk s)) as Hp.
  destruct (rnbs inflate (S (length (s_src s))) (s_src s) (s_position s) (s_blk s)) as [[[src' pos'] b'] r].
  destruct r as [a|e0| | |]; try discriminate.
  injection H as Hs He. subst s' e0. cbn [s_blk s_position].
  destruct (failed_block_not_current _ _ _ _ _ _ _ _ Hp) as [H1 H2].
  split.
  - destruct (k_cur b' <? k_len b') eqn:E; [|lia].
    rewrite (H1 ltac:(lia)) in E. lia.
  - apply H2. lia.
Qed.
