(* Fixed-Huffman blocks against a declarative specification.  A block body is a sequence of LZ77
   tokens (literal byte | match (length 3..258, distance 1..32768)); [expand] is its meaning on
   byte lists (RFC 1951 3.2.3: a match copies byte by byte, overlapping allowed); [enc_tokens] is the
   bit-level encoding of 3.2.5 / 3.2.6 (length and distance symbols from the base/extra tables,
   extra bits LSB-first, Huffman codes MSB-first).  For EVERY valid token sequence the inflater
   decodes the packed encoding to the expansion: inflate (deflate_fixed_tokens ts) = expand ts []. *)
From Coq Require Import List Arith NArith Bool Lia ZifyBool ZifyNat ZifyN.
From NV Require Import Base.LE Bgzf.Frame Bgzf.FrameProofs Bgzf.Inflate Bgzf.InflateProofs
  Bgzf.InflateFuel Bgzf.InflateHuffman Bgzf.InflateFixed.
Import ListNotations.
Open Scope N_scope.

Inductive token := TLit (b : N) | TMatch (len dist : N).

(* ---- meaning ---- *)

Definition expand1 (t : token) (out : list N) : list N :=
  match t with
  | TLit b => out ++ [b]
  | TMatch len dist => lz_copy (N.to_nat len) (length out - N.to_nat dist) out
  end.

Fixpoint expand (ts : list token) (out : list N) : list N :=
  match ts with
  | [] => out
  | t :: r => expand r (expand1 t out)
  end.

Fixpoint tokens_ok (ts : list token) (out : list N) : Prop :=
  match ts with
  | [] => True
  | t :: r =>
      match t with
      | TLit b => b < 256
      | TMatch len dist => 3 <= len <= 258 /\ 1 <= dist <= 32768 /\ dist <= lenN out
      end /\ tokens_ok r (expand1 t out)
  end.

(* ---- encoding ---- *)

(* index of the last base <= v (bases ascending, first base <= v) *)
Fixpoint count_le (bases : list N) (v : N) : nat :=
  match bases with
  | [] => O
  | b :: t => if b <=? v then S (count_le t v) else O
  end.
Definition slot (bases : list N) (v : N) : nat := (count_le bases v - 1)%nat.

Definition dist_code (sym : N) : list bool :=
  match find_path fixed_dt sym with Some p => p | None => [] end.

Definition enc_token (t : token) : list bool :=
  match t with
  | TLit b => lit_code b
  | TMatch len dist =>
      let i := slot len_base len in
      let j := slot dist_base dist in
      lit_code (257 + N.of_nat i) ++ bits_of (nth i len_extra O) (len - nth i len_base 0)
        ++ dist_code (N.of_nat j) ++ bits_of (nth j dist_extra O) (dist - nth j dist_base 0)
  end.

Definition fixed_tokens_bits (ts : list token) : list bool :=
  [true; true; false] ++ flat_map enc_token ts ++ lit_code 256.

Definition deflate_fixed_tokens (ts : list token) : list N :=
  let bits := fixed_tokens_bits ts in pack_bits (length bits) bits.

(* ---- reading n extra bits ---- *)

Lemma getbits_spec : forall n s l rest, length l = n -> bits_all s = l ++ rest ->
  exists s', getbits n s = Some (bits_val l, s') /\ bits_all s' = rest.
Proof.
  induction n as [|n IH]; intros s l rest Hl Hs.
  - destruct l; [|discriminate]. exists s. split; [reflexivity|exact Hs].
  - destruct l as [|b t]; [discriminate|]. cbn [length] in Hl. cbn [getbits].
    pose proof (getbit_spec s) as G. rewrite Hs in G. cbn [app] in G.
    destruct (getbit s) as [[b1 s1]|]; [|discriminate]. injection G as Hb G. subst b1.
    destruct (IH s1 t rest ltac:(lia) (eq_sym G)) as [s' [Hg Hr]]. rewrite Hg.
    exists s'. split; [|exact Hr]. cbn [bits_val]. destruct b; reflexivity.
Qed.

(* ---- the tables, checked exhaustively ---- *)

Definition len_ok (len : N) : bool :=
  let i := slot len_base len in
  let e := len - nth i len_base 0 in
  (i <? 29)%nat && (nth i len_base 0 <=? len) && (bits_val (bits_of (nth i len_extra O) e) =? e)
  && match find_path fixed_lt (257 + N.of_nat i) with Some _ => true | None => false end.

Definition dist_ok (dist : N) : bool :=
  let j := slot dist_base dist in
  let e := dist - nth j dist_base 0 in
  (j <? 30)%nat && (nth j dist_base 0 <=? dist) && (bits_val (bits_of (nth j dist_extra O) e) =? e)
  && match find_path fixed_dt (N.of_nat j) with Some _ => true | None => false end.

Lemma len_table : forallb (fun k => len_ok (N.of_nat k)) (seq 3 256) = true.
Proof. vm_compute. reflexivity. Qed.

Lemma len_ok_all : forall len, 3 <= len <= 258 -> len_ok len = true.
Proof.
  intros len H. pose proof len_table as T. rewrite forallb_forall in T.
  specialize (T (N.to_nat len)). rewrite N2Nat.id in T. apply T. apply in_seq. lia.
Qed.

(* extra bits: any e < 2^n survives bits_of / bits_val *)
Lemma bits_val_bits_of : forall n e, e < 2 ^ N.of_nat n -> bits_val (bits_of n e) = e.
Proof.
  induction n as [|n IH]; intros e He.
  - cbn [bits_of bits_val]. change (2 ^ N.of_nat 0) with 1 in He. lia.
  - cbn [bits_of bits_val]. rewrite IH.
    + pose proof (N.div2_odd e) as H. lia.
    + rewrite Nat2N.inj_succ, N.pow_succ_r' in He. rewrite N.div2_div.
      apply N.div_lt_upper_bound; lia.
Qed.

(* the leading run of bases <= v *)
Lemma count_le_spec : forall bases v top,
  (forall k, (k < count_le bases v)%nat -> nth k bases 0 <= v) /\
  (count_le bases v <= length bases)%nat /\
  (v < top -> v < nth (count_le bases v) (bases ++ [top]) 0).
Proof.
  induction bases as [|b t IH]; intros v top; cbn [count_le length app].
  - split; [intros k Hk; lia|]. split; [lia|]. intros H. cbn [nth]. exact H.
  - destruct (b <=? v) eqn:E.
    + destruct (IH v top) as [H1 [H2 H3]]. split; [|split].
      * intros k Hk. destruct k as [|k]; cbn [nth]; [lia|]. apply H1. lia.
      * lia.
      * intros H. cbn [nth]. apply H3. exact H.
    + split; [intros k Hk; lia|]. split; [lia|]. intros _. cbn [nth]. lia.
Qed.

(* each distance symbol covers base .. base + 2^extra - 1, and the next symbol starts right after *)
Lemma dist_table :
  forallb (fun j => (nth (S j) (dist_base ++ [32769]) 0 =? nth j dist_base 0 + 2 ^ N.of_nat (nth j dist_extra O))
                    && match find_path fixed_dt (N.of_nat j) with Some _ => true | None => false end)
          (seq 0 30) = true.
Proof. vm_compute. reflexivity. Qed.

Lemma dist_ok_all : forall d, 1 <= d <= 32768 -> dist_ok d = true.
Proof.
  intros d H. unfold dist_ok. cbv zeta. unfold slot.
  destruct (count_le_spec dist_base d 32769) as [H1 [H2 H3]].
  assert (Hc : (1 <= count_le dist_base d)%nat).
  { unfold dist_base. cbn [count_le]. destruct (1 <=? d) eqn:E; lia. }
  set (c := count_le dist_base d) in *. set (j := (c - 1)%nat).
  change (length dist_base) with 30%nat in H2.
  assert (Hj : (j < 30)%nat) by (unfold j; lia).
  pose proof dist_table as T. rewrite forallb_forall in T.
  specialize (T j ltac:(apply in_seq; lia)). apply andb_prop in T. destruct T as [T1 T2].
  apply N.eqb_eq in T1. replace (S j) with c in T1 by (unfold j; lia).
  specialize (H1 j ltac:(unfold j; lia)). specialize (H3 ltac:(lia)). rewrite T1 in H3.
  rewrite bits_val_bits_of by lia. rewrite N.eqb_refl, T2.
  destruct (j <? 30)%nat eqn:E1; [|lia].
  destruct (nth j dist_base 0 <=? d) eqn:E2; [reflexivity|lia].
Qed.

(* ---- lengths ---- *)

Lemma lz_copy_length : forall n src l, length (lz_copy n src l) = (length l + n)%nat.
Proof.
  induction n as [|n IH]; intros src l; cbn [lz_copy]; [lia|]. rewrite IH, app_length. cbn [length]. lia.
Qed.

Lemma expand1_length : forall t out,
  length (expand1 t out) =
  (length out + match t with TLit _ => 1 | TMatch len _ => N.to_nat len end)%nat.
Proof.
  intros [b|len dist] out; cbn [expand1]; [rewrite app_length; reflexivity|apply lz_copy_length].
Qed.

Lemma expand_length_mono : forall ts out, (length out <= length (expand ts out))%nat.
Proof.
  induction ts as [|t r IH]; intros out; cbn [expand]; [lia|].
  specialize (IH (expand1 t out)). rewrite expand1_length in IH. lia.
Qed.

Lemma win_ok_len : forall o, win_ok o -> ob_len o = lenN (ob_list o).
Proof. intros o [Hw _]. unfold lenN. rewrite (ob_list_length o Hw). lia. Qed.

Lemma dist_code_path : forall j p, find_path fixed_dt j = Some p -> path_to fixed_dt (dist_code j) j.
Proof. intros j p H. unfold dist_code. rewrite H. apply find_path_sound. exact H. Qed.

Lemma lit_code_path' : forall x p, find_path fixed_lt x = Some p -> path_to fixed_lt (lit_code x) x.
Proof. intros x p H. unfold lit_code. rewrite H. apply find_path_sound. exact H. Qed.

(* ---- the block body ---- *)

Lemma codes_tokens : forall ts f limit s o rest,
  win_ok o -> tokens_ok ts (ob_list o) ->
  bits_all s = flat_map enc_token ts ++ lit_code 256 ++ rest ->
  (bits_left s < f)%nat -> lenN (expand ts (ob_list o)) <= limit ->
  exists s' o', codes f limit fixed_lt fixed_dt s o = Some (s', o') /\
    win_ok o' /\ ob_list o' = expand ts (ob_list o) /\ bits_all s' = rest.
Proof.
  induction ts as [|t ts IH]; intros f limit s o rest Hw Hok Hs Hf Hl.
  - destruct f as [|f]; [lia|]. cbn [flat_map app] in Hs. cbn [codes expand].
    destruct (hdecode_path _ _ _ (lit_code_path 256 ltac:(lia)) s rest Hs) as [s' [Hd Hr]].
    rewrite Hd. exists s', o. repeat split; try assumption. apply Hw. apply Hw.
  - destruct f as [|f]; [lia|]. cbn [flat_map] in Hs. rewrite <- app_assoc in Hs.
    cbn [tokens_ok] in Hok. destruct Hok as [Ht Hok]. cbn [expand] in Hl |- *.
    pose proof (win_ok_len o Hw) as Hlen.
    pose proof (expand_length_mono ts (expand1 t (ob_list o))) as Hmono.
    rewrite expand1_length in Hmono.
    destruct t as [b|len dist].
    + (* literal *)
      cbn [enc_token] in Hs.
      destruct (hdecode_path _ _ _ (lit_code_path b ltac:(lia)) s _ Hs) as [s1 [Hd Hr]].
      cbn [codes]. rewrite Hd.
      destruct (b <? 256) eqn:E1; [|lia].
      destruct (limit <=? ob_len o) eqn:E2; [unfold lenN in *; lia|].
      cbn [expand1] in *. rewrite <- ob_list_push in Hok, Hl |- *.
      apply IH; [apply win_ok_push; exact Hw|exact Hok|exact Hr| |exact Hl].
      pose proof (hdecode_bits_strict _ _ _ _ fixed_lt_not_leaf Hd). lia.
    + (* match *)
      destruct Ht as [Hlen3 [Hd1 Hd2]].
      pose proof (len_ok_all len Hlen3) as LK. pose proof (dist_ok_all dist Hd1) as DK.
      unfold len_ok in LK. unfold dist_ok in DK. cbv zeta in LK, DK.
      set (i := slot len_base len) in *. set (j := slot dist_base dist) in *.
      apply andb_prop in LK. destruct LK as [LK L4]. apply andb_prop in LK. destruct LK as [LK L3].
      apply andb_prop in LK. destruct LK as [L1 L2].
      apply andb_prop in DK. destruct DK as [DK D4]. apply andb_prop in DK. destruct DK as [DK D3].
      apply andb_prop in DK. destruct DK as [D1 D2].
      destruct (find_path fixed_lt (257 + N.of_nat i)) as [pl|] eqn:EL; [|discriminate].
      destruct (find_path fixed_dt (N.of_nat j)) as [pd|] eqn:ED; [|discriminate].
      cbn [enc_token] in Hs. fold i j in Hs. rewrite <- !app_assoc in Hs.
      (* length symbol *)
      destruct (hdecode_path _ _ _ (lit_code_path' _ _ EL) s _ Hs) as [s1 [H1 R1]].
      (* length extra bits *)
      destruct (getbits_spec (nth i len_extra O) s1 _ _ (bits_of_length _ _) R1) as [s2 [H2 R2]].
      (* distance symbol *)
      destruct (hdecode_path _ _ _ (dist_code_path _ _ ED) s2 _ R2) as [s3 [H3 R3]].
      (* distance extra bits *)
      destruct (getbits_spec (nth j dist_extra O) s3 _ _ (bits_of_length _ _) R3) as [s4 [H4 R4]].
      apply N.eqb_eq in L3. apply N.eqb_eq in D3. rewrite L3 in H2. rewrite D3 in H4.
      cbn [codes]. rewrite H1.
      destruct (257 + N.of_nat i <? 256) eqn:E1; [lia|].
      destruct (257 + N.of_nat i =? 256) eqn:E2; [lia|].
      cbv zeta.
      replace (N.to_nat (257 + N.of_nat i - 257)) with i by lia.
      destruct (29 <=? i)%nat eqn:E3; [lia|].
      rewrite H2, H3. rewrite Nat2N.id.
      destruct (30 <=? j)%nat eqn:E4; [lia|].
      rewrite H4.
      replace (nth i len_base 0 + (len - nth i len_base 0)) with len by lia.
      replace (nth j dist_base 0 + (dist - nth j dist_base 0)) with dist by lia.
      destruct (ob_len o <? dist) eqn:E5; [lia|].
      destruct (limit <? ob_len o + len) eqn:E6; [unfold lenN in *; lia|].
      destruct (copy_match_spec (N.to_nat len) (ob_len o - dist) o Hw) as [Hw' Hl']; [lia|].
      assert (Hex : ob_list (copy_match (N.to_nat len) (ob_len o - dist) o)
                    = expand1 (TMatch len dist) (ob_list o)).
      { rewrite Hl'. cbn [expand1]. f_equal. rewrite (ob_list_length o (proj1 Hw)). lia. }
      rewrite <- Hex in Hok, Hl |- *.
      apply IH; [exact Hw'|exact Hok|exact R4| |exact Hl].
      pose proof (hdecode_bits_strict _ _ _ _ fixed_lt_not_leaf H1).
      pose proof (getbits_bits _ _ _ _ H2). pose proof (hdecode_bits _ _ _ _ H3).
      pose proof (getbits_bits _ _ _ _ H4). lia.
Qed.

(* ---- the whole stream: ANY valid token sequence ---- *)

Theorem inflate_fixed_tokens_correct : forall ts, tokens_ok ts [] ->
  inflate (deflate_fixed_tokens ts) (lenN (expand ts [])) = Some (expand ts []).
Proof.
  intros ts Hok. unfold inflate, inflate_raw, deflate_fixed_tokens. cbv zeta.
  set (src := pack_bits _ _).
  destruct (pack_bits_read (length (fixed_tokens_bits ts)) (fixed_tokens_bits ts) (le_n _)) as [pad Hp].
  fold src in Hp.
  assert (Hs0 : bits_all ([], src) = fixed_tokens_bits ts ++ pad) by exact Hp.
  unfold fixed_tokens_bits in Hs0. cbn [app] in Hs0.
  set (F := S (8 * length src)).
  assert (HF : (bits_left ([], src) < F)%nat) by (unfold bits_left, F; cbn [fst snd length]; lia).
  pose proof (getbit_spec ([], src)) as G1.
  destruct (getbit ([], src)) as [[b1 s1]|] eqn:E1; [|rewrite Hs0 in G1; discriminate].
  rewrite Hs0 in G1. injection G1 as Hb1 G1. subst b1.
  pose proof (getbit_bits _ _ _ E1) as B1.
  pose proof (getbit_spec s1) as G2.
  destruct (getbit s1) as [[b2 s2]|] eqn:E2; [|rewrite <- G1 in G2; discriminate].
  rewrite <- G1 in G2. injection G2 as Hb2 G2. subst b2.
  pose proof (getbit_bits _ _ _ E2) as B2.
  pose proof (getbit_spec s2) as G3.
  destruct (getbit s2) as [[b3 s3]|] eqn:E3; [|rewrite <- G2 in G3; discriminate].
  rewrite <- G2 in G3. injection G3 as Hb3 G3. subst b3.
  pose proof (getbit_bits _ _ _ E3) as B3.
  set (n := lenN (expand ts [])).
  assert (Hblk : blocks F F n ([], src) ob_empty
                 = match codes F n fixed_lt fixed_dt s3 ob_empty with
                   | Some (s4, o4) => Some (s4, o4) | None => None end).
  { unfold F at 1. cbn [blocks getbits]. rewrite E1, E2, E3. reflexivity. }
  rewrite Hblk. rewrite <- app_assoc in G3.
  destruct (codes_tokens ts F n s3 ob_empty pad win_ok_empty Hok (eq_sym G3)) as [s' [o' [Hc [Hw' [Hl' _]]]]].
  { lia. }
  { unfold n. change (ob_list ob_empty) with (@nil N). lia. }
  rewrite Hc. change (ob_list ob_empty) with (@nil N) in Hl'.
  unfold ob_list in Hl'. rewrite rev_append_rev, app_nil_r, Hl'. unfold n. rewrite N.eqb_refl. reflexivity.
Qed.

(* an overlapping match: 'a' then (length 5, distance 1) is "aaaaaa" (RFC 1951 3.2.3) *)
Example tokens_example :
  expand [TLit 97; TMatch 5 1; TLit 98; TMatch 3 7] [] = [97; 97; 97; 97; 97; 97; 98; 97; 97; 97] /\
  inflate (deflate_fixed_tokens [TLit 97; TMatch 5 1; TLit 98; TMatch 3 7]) 10
    = Some [97; 97; 97; 97; 97; 97; 98; 97; 97; 97].
Proof. vm_compute. split; reflexivity. Qed.
