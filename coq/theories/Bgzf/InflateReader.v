(* What the completeness / soundness of the inflater give the BGZF reader:
   - a frame the reader accepts has CDATA that ARE a well-formed DEFLATE stream (InflateSpec)
     denoting exactly the bytes returned, of length ISIZE and with the trailer's CRC-32;
   - conversely a frame whose CDATA are a DEFLATE stream denoting ISIZE bytes with the right CRC
     is accepted and yields those bytes;
   - hence the round-trip premise H_rt of the C01 theorems holds for EVERY compressor whose output
     is a DEFLATE stream denoting its input ("conforming"): the reader side is discharged. *)
From Coq Require Import List Arith NArith Bool Lia ZifyBool ZifyNat ZifyN.
From NV Require Import Base.LE Bgzf.Crc32 Bgzf.Frame Bgzf.FrameProofs Bgzf.Reader Bgzf.Inflate Bgzf.InflateProofs
  Bgzf.InflateFuel Bgzf.InflateHuffman Bgzf.InflateFixed Bgzf.InflateTokens Bgzf.InflateBody
  Bgzf.InflateDynamic Bgzf.InflateSpec Bgzf.InflateStream Bgzf.InflateSound.
Import ListNotations.
Open Scope N_scope.

Lemma parse_frame_cdata_bytes : forall frame bs cdata crc isize,
  Forall is_byte frame -> parse_frame frame = Ok (bs, cdata, crc, isize) -> Forall is_byte cdata.
Proof.
  intros frame bs cdata crc isize Hf Hp. unfold parse_frame in Hp.
  destruct (lenN frame <? MIN_FRAME_SIZE); [discriminate|].
  destruct (negb _); [discriminate|].
  destruct (_ <=? BGZF_MAX_ISIZE); [|discriminate].
  injection Hp as _ Hc _ _. subst cdata. unfold slice.
  apply Forall_firstn_. apply Forall_skipn_. exact Hf.
Qed.

Theorem reader_accepts_only_wellformed : forall frame bs d,
  Forall is_byte frame -> parse_block inflate frame = Ok (bs, d) ->
  exists cdata crc isize,
    parse_frame frame = Ok (bs, cdata, crc, isize) /\
    deflate_denotes cdata d /\ lenN d = isize /\ isize <= 65536 /\ crc32 d = crc.
Proof.
  intros frame bs d Hf Hb. unfold parse_block in Hb.
  destruct (parse_frame frame) as [[[[bs0 cdata] crc] isize]|e|] eqn:Hp; try discriminate.
  destruct (inflate cdata isize) as [d0|] eqn:E; [|discriminate].
  destruct (crc32 d0 =? crc) eqn:Ec; [|discriminate].
  injection Hb as H1 H2. subst d0 bs0.
  exists cdata, crc, isize. split; [reflexivity|].
  destruct (inflate_sound _ _ _ (parse_frame_cdata_bytes _ _ _ _ _ Hf Hp) E) as [Hd Hn].
  split; [exact Hd|]. split; [exact Hn|]. split; [|lia].
  unfold parse_frame in Hp.
  destruct (lenN frame <? MIN_FRAME_SIZE); [discriminate|].
  destruct (negb _); [discriminate|].
  destruct (_ <=? BGZF_MAX_ISIZE) eqn:Ei; [|discriminate].
  injection Hp as _ _ _ Hi. unfold BGZF_MAX_ISIZE in Ei.
  change (le_dec (skipn 4 (skipn (length frame - 8) frame)) = isize) in Hi. lia.
Qed.

Theorem reader_accepts_wellformed : forall frame bs cdata crc isize d,
  Forall is_byte frame -> parse_frame frame = Ok (bs, cdata, crc, isize) ->
  deflate_denotes cdata d -> lenN d = isize -> crc32 d = crc ->
  parse_block inflate frame = Ok (bs, d).
Proof.
  intros frame bs cdata crc isize d Hf Hp Hd Hn Hc. unfold parse_block. rewrite Hp.
  subst isize. rewrite (inflate_complete _ _ (parse_frame_cdata_bytes _ _ _ _ _ Hf Hp) Hd).
  subst crc. rewrite N.eqb_refl. reflexivity.
Qed.

(* a compressor is conforming when its output is a byte string that is a DEFLATE stream denoting
   its input *)
Definition conforming (deflate : N -> list N -> list N) : Prop :=
  forall l x, lenN x <= 65536 -> Forall is_byte (deflate l x) /\ deflate_denotes (deflate l x) x.

Theorem conforming_roundtrip : forall deflate, conforming deflate ->
  forall l x, lenN x <= 65536 -> inflate (deflate l x) (lenN x) = Some x.
Proof.
  intros deflate Hc l x Hx. destruct (Hc l x Hx) as [Hb Hd]. exact (inflate_complete _ _ Hb Hd).
Qed.
