(* COMPLETENESS of the inflater for the declarative stream syntax of InflateSpec: every byte string
   whose bits begin with a stream of blocks (any number of stored / fixed / dynamic blocks, dynamic
   headers with any HCLEN and the repeat codes 16 / 17 / 18) denoting [out] is inflated to exactly
   [out] -- whatever a conforming compressor (zlib-rs at levels 1..9) chose to write. *)
From Coq Require Import List Arith NArith ZArith Bool Lia ZifyBool ZifyNat ZifyN.
From NV Require Import Base.LE Bgzf.Frame Bgzf.FrameProofs Bgzf.Inflate Bgzf.InflateProofs
  Bgzf.InflateFuel Bgzf.InflateHuffman Bgzf.InflateFixed Bgzf.InflateTokens Bgzf.InflateBody
  Bgzf.InflateDynamic Bgzf.InflateSpec.
Import ListNotations.
Open Scope N_scope.

Ltac zify_mod8 := Zify.zify; Z.div_mod_to_equations; lia.

(* ---- the states of the bit reader: fewer than 8 pending bits, bytes are bytes ---- *)

Definition src_ok (s : bitsrc) : Prop := (length (fst s) < 8)%nat /\ Forall is_byte (snd s).

Lemma getbit_src_ok : forall s b s', src_ok s -> getbit s = Some (b, s') -> src_ok s'.
Proof.
  intros [bs rest] b s' [H1 H2] H. unfold getbit in H. cbn [fst snd] in *.
  destruct bs as [|b0 bs].
  - destruct rest as [|x r]; [discriminate|]. injection H as Hb Hs. subst s'.
    inversion H2; subst. split; cbn [fst snd length]; [lia|assumption].
  - injection H as Hb Hs. subst s'. split; cbn [fst snd length] in *; [lia|assumption].
Qed.

Lemma getbits_src_ok : forall n s v s', src_ok s -> getbits n s = Some (v, s') -> src_ok s'.
Proof.
  induction n as [|n IH]; intros s v s' Hk H; cbn [getbits] in H.
  - injection H as H1 H2. subst s'. exact Hk.
  - destruct (getbit s) as [[b s1]|] eqn:E; [|discriminate].
    destruct (getbits n s1) as [[v1 s2]|] eqn:E2; [|discriminate].
    injection H as H1 H2. subst s'. exact (IH _ _ _ (getbit_src_ok _ _ _ Hk E) E2).
Qed.

Lemma hdecode_src_ok : forall t s x s', src_ok s -> hdecode t s = Some (x, s') -> src_ok s'.
Proof.
  induction t as [|y|l IHl r IHr]; intros s x s' Hk H; cbn [hdecode] in H.
  - discriminate.
  - injection H as H1 H2. subst s'. exact Hk.
  - destruct (getbit s) as [[b s1]|] eqn:E; [|discriminate].
    pose proof (getbit_src_ok _ _ _ Hk E) as Hk1.
    destruct b; [exact (IHr _ _ _ Hk1 H)|exact (IHl _ _ _ Hk1 H)].
Qed.

Lemma codes_src_ok : forall f limit lt dt s o s' o',
  src_ok s -> codes f limit lt dt s o = Some (s', o') -> src_ok s'.
Proof.
  induction f as [|f IH]; intros limit lt dt s o s' o' Hk H; cbn [codes] in H; [discriminate|].
  destruct (hdecode lt s) as [[sym s1]|] eqn:E; [|discriminate].
  pose proof (hdecode_src_ok _ _ _ _ Hk E) as K1.
  destruct (sym <? 256).
  { destruct (limit <=? ob_len o); [discriminate|]. exact (IH _ _ _ _ _ _ _ K1 H). }
  destruct (sym =? 256).
  { injection H as H1 H2. subst s'. exact K1. }
  cbv zeta in H.
  destruct (29 <=? N.to_nat (sym - 257))%nat; [discriminate|].
  destruct (getbits _ s1) as [[e s2]|] eqn:E2; [|discriminate].
  pose proof (getbits_src_ok _ _ _ _ K1 E2) as K2.
  destruct (hdecode dt s2) as [[ds s3]|] eqn:E3; [|discriminate].
  pose proof (hdecode_src_ok _ _ _ _ K2 E3) as K3.
  destruct (30 <=? N.to_nat ds)%nat; [discriminate|].
  destruct (getbits _ s3) as [[e2 s4]|] eqn:E4; [|discriminate].
  pose proof (getbits_src_ok _ _ _ _ K3 E4) as K4.
  destruct (ob_len o <? _); [discriminate|].
  destruct (limit <? _); [discriminate|].
  exact (IH _ _ _ _ _ _ _ K4 H).
Qed.

Lemma read_cl_src_ok : forall n s vals s', src_ok s -> read_cl n s = Some (vals, s') -> src_ok s'.
Proof.
  induction n as [|n IH]; intros s vals s' Hk H; cbn [read_cl] in H.
  - injection H as H1 H2. subst s'. exact Hk.
  - destruct (getbits 3 s) as [[v s1]|] eqn:E; [|discriminate].
    destruct (read_cl n s1) as [[vs s2]|] eqn:E2; [|discriminate].
    injection H as H1 H2. subst s'. exact (IH _ _ _ (getbits_src_ok _ _ _ _ Hk E) E2).
Qed.

Lemma read_lens_src_ok : forall f cl need acc s lens s',
  src_ok s -> read_lens f cl need acc s = Some (lens, s') -> src_ok s'.
Proof.
  induction f as [|f IH]; intros cl need acc s lens s' Hk H.
  - destruct need; cbn [read_lens] in H; [|discriminate]. injection H as H1 H2. subst s'. exact Hk.
  - destruct need as [|need]; cbn [read_lens] in H.
    { injection H as H1 H2. subst s'. exact Hk. }
    destruct (hdecode cl s) as [[sym s1]|] eqn:E; [|discriminate].
    pose proof (hdecode_src_ok _ _ _ _ Hk E) as K1.
    destruct (sym <? 16); [exact (IH _ _ _ _ _ _ K1 H)|].
    destruct (if sym =? 16 then _ else _) as [[val nb] base].
    destruct val as [v|]; [|discriminate].
    destruct (getbits nb s1) as [[e s2]|] eqn:E2; [|discriminate].
    pose proof (getbits_src_ok _ _ _ _ K1 E2) as K2.
    cbv zeta in H.
    destruct (S need <? base + N.to_nat e)%nat; [discriminate|]. exact (IH _ _ _ _ _ _ K2 H).
Qed.

Lemma dynamic_src_ok : forall f limit s o s' o',
  src_ok s -> dynamic f limit s o = Some (s', o') -> src_ok s'.
Proof.
  intros f limit s o s' o' Hk H. unfold dynamic in H.
  destruct (getbits 5 s) as [[a s1]|] eqn:E1; [|discriminate].
  pose proof (getbits_src_ok _ _ _ _ Hk E1) as K1.
  destruct (getbits 5 s1) as [[b s2]|] eqn:E2; [|discriminate].
  pose proof (getbits_src_ok _ _ _ _ K1 E2) as K2.
  destruct (getbits 4 s2) as [[c s3]|] eqn:E3; [|discriminate].
  pose proof (getbits_src_ok _ _ _ _ K2 E3) as K3.
  cbv zeta in H.
  destruct (_ || _); [discriminate|].
  destruct (read_cl _ s3) as [[vals s4]|] eqn:E4; [|discriminate].
  pose proof (read_cl_src_ok _ _ _ _ K3 E4) as K4.
  destruct (negb _); [discriminate|].
  destruct (read_lens _ _ _ _ s4) as [[lens s5]|] eqn:E5; [|discriminate].
  pose proof (read_lens_src_ok _ _ _ _ _ _ _ K4 E5) as K5.
  destruct (Nat.eqb _ _); [discriminate|].
  destruct (_ || _); [discriminate|].
  exact (codes_src_ok _ _ _ _ _ _ _ _ K5 H).
Qed.

(* ---- bytes and their bits ---- *)

Lemma bytes_bits_length : forall l, length (bytes_bits l) = (8 * length l)%nat.
Proof.
  induction l as [|x r IH]; [reflexivity|].
  unfold bytes_bits in *. cbn [flat_map length]. rewrite app_length, bits_of_length, IH. lia.
Qed.

Lemma bytes_bits_app : forall a b, bytes_bits (a ++ b) = bytes_bits a ++ bytes_bits b.
Proof. intros a b. unfold bytes_bits. apply flat_map_app. Qed.

Lemma bits_of_8_inj : forall x y, is_byte x -> is_byte y -> bits_of 8 x = bits_of 8 y -> x = y.
Proof.
  intros x y Hx Hy H. unfold is_byte in *.
  rewrite <- (bits_val_bits_of 8 x), <- (bits_val_bits_of 8 y), H; [reflexivity| |];
    change (2 ^ N.of_nat 8) with 256; assumption.
Qed.

Lemma app_eq_len : forall (A : Type) (a b c d : list A),
  a ++ b = c ++ d -> length a = length c -> a = c /\ b = d.
Proof.
  intros A. induction a as [|x a IH]; intros b c d H Hl; destruct c as [|y c]; cbn [length] in Hl; try lia.
  - split; [reflexivity|exact H].
  - cbn [app] in H. injection H as Hx H. destruct (IH _ _ _ H ltac:(lia)) as [H1 H2].
    subst. split; reflexivity.
Qed.

(* a byte list whose bits begin with the bits of ys begins with ys *)
Lemma bytes_bits_prefix : forall ys xs rest,
  Forall is_byte xs -> Forall is_byte ys -> bytes_bits xs = bytes_bits ys ++ rest ->
  exists tail, xs = ys ++ tail /\ bytes_bits tail = rest.
Proof.
  induction ys as [|y ys IH]; intros xs rest Hx Hy H.
  - exists xs. split; [reflexivity|exact H].
  - destruct xs as [|x xs].
    + exfalso. apply (f_equal (@length bool)) in H. unfold bytes_bits in H.
      cbn [flat_map length] in H. rewrite !app_length, bits_of_length in H. lia.
    + unfold bytes_bits in H. cbn [flat_map] in H. rewrite <- app_assoc in H.
      destruct (app_eq_len _ _ _ _ _ H) as [H1 H2]; [rewrite !bits_of_length; reflexivity|].
      inversion Hx; subst. inversion Hy; subst.
      assert (x = y) by (apply bits_of_8_inj; assumption). subst x.
      destruct (IH xs rest) as [tail [T1 T2]]; try assumption.
      exists tail. split; [rewrite T1; reflexivity|exact T2].
Qed.

Lemma le16_bytes : forall n, Forall is_byte (le16 n).
Proof.
  intros n. unfold le16. cbn [le_bytes]. repeat constructor; unfold is_byte;
    apply N.mod_lt; discriminate.
Qed.

(* ---- the body of a Huffman block, relationally ---- *)

Lemma codes_body : forall lt dt ts bb, body_bits lt dt ts bb ->
  forall f limit s o rest,
    not_leaf lt -> win_ok o -> tokens_ok ts (ob_list o) ->
    bits_all s = bb ++ rest -> (bits_left s < f)%nat -> lenN (expand ts (ob_list o)) <= limit ->
    exists s' o', codes f limit lt dt s o = Some (s', o') /\
      win_ok o' /\ ob_list o' = expand ts (ob_list o) /\ bits_all s' = rest.
Proof.
  intros lt dt ts bb Hb. induction Hb as [p Hp|t ts b1 b2 Ht Hb IH];
    intros f limit s o rest Hnl Hw Hok Hs Hf Hl.
  - destruct f as [|f]; [lia|]. cbn [codes expand].
    destruct (hdecode_path _ _ _ Hp s rest Hs) as [s' [Hd Hr]].
    rewrite Hd. exists s', o. repeat split; try assumption. apply Hw. apply Hw.
  - destruct f as [|f]; [lia|]. rewrite <- app_assoc in Hs.
    cbn [tokens_ok] in Hok. destruct Hok as [Hv Hok]. cbn [expand] in Hl |- *.
    pose proof (win_ok_len o Hw) as Hlen.
    pose proof (expand_length_mono ts (expand1 t (ob_list o))) as Hmono.
    rewrite expand1_length in Hmono.
    inversion Ht as [b p Hp Eb Ep|len dist i e j e2 p1 p2 HL HD Hp1 Hp2 Et Eb]; subst.
    + destruct (hdecode_path _ _ _ Hp s _ Hs) as [s1 [Hd Hr]].
      cbn [codes]. rewrite Hd.
      destruct (b <? 256) eqn:E1; [|lia].
      destruct (limit <=? ob_len o) eqn:E2; [unfold lenN in *; lia|].
      cbn [expand1] in *. rewrite <- ob_list_push in Hok, Hl |- *.
      apply IH; try assumption; [apply win_ok_push; exact Hw|].
      pose proof (hdecode_bits_strict _ _ _ _ Hnl Hd). lia.
    + destruct Hv as [Hlen3 [Hd1 Hd2]].
      destruct HL as [L1 [L2 L3]]. destruct HD as [D1 [D2 D3]].
      rewrite <- !app_assoc in Hs.
      destruct (hdecode_path _ _ _ Hp1 s _ Hs) as [s1 [H1 R1]].
      destruct (getbits_spec (nth i len_extra O) s1 _ _ (bits_of_length _ _) R1) as [s2 [H2 R2]].
      destruct (hdecode_path _ _ _ Hp2 s2 _ R2) as [s3 [H3 R3]].
      destruct (getbits_spec (nth j dist_extra O) s3 _ _ (bits_of_length _ _) R3) as [s4 [H4 R4]].
      rewrite (bits_val_bits_of _ _ L2) in H2. rewrite (bits_val_bits_of _ _ D2) in H4.
      cbn [codes]. rewrite H1.
      destruct (257 + N.of_nat i <? 256) eqn:E1; [lia|].
      destruct (257 + N.of_nat i =? 256) eqn:E2; [lia|].
      cbv zeta.
      replace (N.to_nat (257 + N.of_nat i - 257)) with i by lia.
      destruct (29 <=? i)%nat eqn:E3; [lia|].
      rewrite H2, H3. rewrite Nat2N.id.
      destruct (30 <=? j)%nat eqn:E4; [lia|].
      rewrite H4. rewrite <- L3, <- D3.
      destruct (ob_len o <? dist) eqn:E5; [lia|].
      destruct (limit <? ob_len o + len) eqn:E6; [unfold lenN in *; lia|].
      destruct (copy_match_spec (N.to_nat len) (ob_len o - dist) o Hw) as [Hw' Hl']; [lia|].
      assert (Hex : ob_list (copy_match (N.to_nat len) (ob_len o - dist) o)
                    = expand1 (TMatch len dist) (ob_list o)).
      { rewrite Hl'. cbn [expand1]. f_equal. rewrite (ob_list_length o (proj1 Hw)). lia. }
      rewrite <- Hex in Hok, Hl |- *.
      apply IH; try assumption.
      pose proof (hdecode_bits_strict _ _ _ _ Hnl H1).
      pose proof (getbits_bits _ _ _ _ H2). pose proof (hdecode_bits _ _ _ _ H3).
      pose proof (getbits_bits _ _ _ _ H4). lia.
Qed.

(* ---- the code lengths with repeat codes ---- *)

Lemma item_lens_length : forall it prev,
  length (item_lens it prev) = match it with CLen _ => 1%nat | CRep16 n => n | CRep17 n => n | CRep18 n => n end.
Proof. intros [l|n|n|n] prev; cbn [item_lens length]; try apply repeat_length. reflexivity. Qed.

Lemma cl_expand_length_ge : forall items acc, (length acc <= length (cl_expand items acc))%nat.
Proof.
  induction items as [|it r IH]; intros acc; cbn [cl_expand]; [lia|].
  specialize (IH (acc ++ item_lens it (last acc O))). rewrite app_length in IH. lia.
Qed.

Lemma rev_repeat_nat : forall (x : nat) n, rev (repeat x n) = repeat x n.
Proof.
  intros x. induction n as [|n IH]; [reflexivity|].
  cbn [repeat rev]. rewrite IH. symmetry. apply repeat_cons.
Qed.

Lemma last_rev_hd : forall (p : nat) t d, last (rev (p :: t)) d = p.
Proof. intros p t d. cbn [rev]. apply last_last. Qed.

Lemma read_lens_items : forall cl items ib, items_bits cl items ib ->
  forall f racc s rest need,
    items_ok items (rev racc) ->
    length (cl_expand items (rev racc)) = (length racc + need)%nat ->
    bits_all s = ib ++ rest -> (need <= f)%nat ->
    exists s', read_lens f cl need racc s = Some (cl_expand items (rev racc), s') /\ bits_all s' = rest.
Proof.
  intros cl items ib Hb. induction Hb as [|it r b1 b2 Hit Hr IH]; intros f racc s rest need Hok Hlen Hs Hf.
  - cbn [cl_expand] in *. rewrite rev_length in Hlen. assert (need = O) by lia. subst need.
    exists s. split; [destruct f; reflexivity|exact Hs].
  - cbn [cl_expand items_ok] in *. destruct Hok as [Hrange Hok].
    pose proof (cl_expand_length_ge r (rev racc ++ item_lens it (last (rev racc) O))) as Hge.
    rewrite app_length, rev_length, item_lens_length in Hge.
    rewrite <- app_assoc in Hs.
    inversion Hit as [l p Hp E1 E2|n p Hp E1 E2|n p Hp E1 E2|n p Hp E1 E2]; subst.
    + (* one length *)
      destruct need as [|need]; [lia|]. destruct f as [|f]; [lia|]. cbn [read_lens].
      destruct (hdecode_path _ _ _ Hp s _ Hs) as [s1 [H1 R1]]. rewrite H1.
      destruct (N.of_nat l <? 16) eqn:E; [|lia]. rewrite Nat2N.id.
      replace (S need - 1)%nat with need by lia.
      cbn [item_lens] in *.
      destruct (IH f (l :: racc) s1 rest need) as [s' [H2 R2]]; try assumption; try lia.
      * cbn [rev length] in *. rewrite Hlen. lia.
      * exists s'. split; [exact H2|exact R2].
    + (* 16: repeat the previous length *)
      destruct Hrange as [Hn Hne].
      destruct racc as [|pv racc]; [exfalso; apply Hne; reflexivity|].
      rewrite last_rev_hd in *. cbn [item_lens] in *.
      destruct need as [|need]; [lia|]. destruct f as [|f]; [lia|]. cbn [read_lens].
      rewrite <- app_assoc in Hs.
      destruct (hdecode_path _ _ _ Hp s _ Hs) as [s1 [H1 R1]]. rewrite H1.
      replace (16 <? 16) with false by reflexivity. replace (16 =? 16) with true by reflexivity.
      destruct (getbits_spec 2 s1 _ _ (bits_of_length _ _) R1) as [s2 [H2 R2]].
      rewrite (bits_val_of 2 (n - 3)) in H2 by (cbn; lia). rewrite H2. cbv zeta. rewrite Nat2N.id.
      replace (3 + (n - 3))%nat with n by lia.
      cbn [length] in Hlen, Hge.
      destruct (S need <? n)%nat eqn:E; [lia|].
      destruct (IH f (repeat pv n ++ pv :: racc) s2 rest (S need - n)%nat) as [s' [H3 R3]]; try lia.
      * rewrite rev_app_distr, rev_repeat_nat. exact Hok.
      * rewrite rev_app_distr, rev_repeat_nat, Hlen, app_length, repeat_length. cbn [length]. lia.
      * exact R2.
      * rewrite rev_app_distr, rev_repeat_nat in H3. exists s'. split; [exact H3|exact R3].
    + (* 17: 3..10 zeros *)
      cbn [item_lens] in *.
      destruct need as [|need]; [lia|]. destruct f as [|f]; [lia|]. cbn [read_lens].
      rewrite <- app_assoc in Hs.
      destruct (hdecode_path _ _ _ Hp s _ Hs) as [s1 [H1 R1]]. rewrite H1.
      replace (17 <? 16) with false by reflexivity. replace (17 =? 16) with false by reflexivity.
      replace (17 =? 17) with true by reflexivity.
      destruct (getbits_spec 3 s1 _ _ (bits_of_length _ _) R1) as [s2 [H2 R2]].
      rewrite (bits_val_of 3 (n - 3)) in H2 by (cbn; lia). rewrite H2. cbv zeta. rewrite Nat2N.id.
      replace (3 + (n - 3))%nat with n by lia.
      destruct (S need <? n)%nat eqn:E; [lia|].
      destruct (IH f (repeat O n ++ racc) s2 rest (S need - n)%nat) as [s' [H3 R3]]; try lia.
      * rewrite rev_app_distr, rev_repeat_nat. exact Hok.
      * rewrite rev_app_distr, rev_repeat_nat, Hlen, app_length, repeat_length. lia.
      * exact R2.
      * rewrite rev_app_distr, rev_repeat_nat in H3. exists s'. split; [exact H3|exact R3].
    + (* 18: 11..138 zeros *)
      cbn [item_lens] in *.
      destruct need as [|need]; [lia|]. destruct f as [|f]; [lia|]. cbn [read_lens].
      rewrite <- app_assoc in Hs.
      destruct (hdecode_path _ _ _ Hp s _ Hs) as [s1 [H1 R1]]. rewrite H1.
      replace (18 <? 16) with false by reflexivity. replace (18 =? 16) with false by reflexivity.
      replace (18 =? 17) with false by reflexivity.
      destruct (getbits_spec 7 s1 _ _ (bits_of_length _ _) R1) as [s2 [H2 R2]].
      rewrite (bits_val_bits_of 7 (N.of_nat (n - 11))) in H2
        by (change (2 ^ N.of_nat 7) with 128; lia).
      rewrite H2. cbv zeta. rewrite Nat2N.id.
      replace (11 + (n - 11))%nat with n by lia.
      destruct (S need <? n)%nat eqn:E; [lia|].
      destruct (IH f (repeat O n ++ racc) s2 rest (S need - n)%nat) as [s' [H3 R3]]; try lia.
      * rewrite rev_app_distr, rev_repeat_nat. exact Hok.
      * rewrite rev_app_distr, rev_repeat_nat, Hlen, app_length, repeat_length. lia.
      * exact R2.
      * rewrite rev_app_distr, rev_repeat_nat in H3. exists s'. split; [exact H3|exact R3].
Qed.

(* ---- a dynamic block: the full header (any HCLEN, repeat codes), then the body ---- *)

Lemma dynamic_block : forall h ts hb bb cf limit s o rest,
  dyn_hdr_ok h -> hdr_bits h hb -> body_bits (dh_lt h) (dh_dt h) ts bb ->
  win_ok o -> tokens_ok ts (ob_list o) ->
  bits_all s = hb ++ bb ++ rest ->
  (bits_left s < cf)%nat -> lenN (expand ts (ob_list o)) <= limit ->
  exists s' o', dynamic cf limit s o = Some (s', o') /\
    win_ok o' /\ ob_list o' = expand ts (ob_list o) /\ bits_all s' = rest.
Proof.
  intros h ts hb bb cf limit s o rest K [ib [Hib Ehb]] Hbb Hw Hok Hs Hf Hl.
  destruct K as [K1 K2 K3 K4 K5 K6 K7 K8 K9 K10].
  subst hb. unfold hdr_fields in Hs. rewrite <- !app_assoc in Hs.
  destruct (getbits_spec 5 s _ _ (bits_of_length _ _) Hs) as [s1 [H1 R1]].
  rewrite (bits_val_of 5 (dh_nlen h - 257)) in H1 by (cbn; lia).
  destruct (getbits_spec 5 s1 _ _ (bits_of_length _ _) R1) as [s2 [H2 R2]].
  rewrite (bits_val_of 5 (dh_ndist h - 1)) in H2 by (cbn; lia).
  destruct (getbits_spec 4 s2 _ _ (bits_of_length _ _) R2) as [s3 [H3 R3]].
  rewrite (bits_val_of 4 (length (dh_clvals h) - 4)) in H3 by (cbn; lia).
  destruct (read_cl_spec (dh_clvals h) s3 _ K4 R3) as [s4 [H4 R4]].
  destruct (read_lens_items _ (dh_items h) ib Hib (dh_nlen h + dh_ndist h) [] s4 (bb ++ rest)
              (dh_nlen h + dh_ndist h)%nat) as [s5 [H5 R5]].
  { exact K6. } { cbn [rev length]. exact K7. } { exact R4. } { lia. }
  cbn [rev] in H5.
  assert (Hbl : (bits_left s5 < cf)%nat).
  { pose proof (getbits_bits _ _ _ _ H1). pose proof (getbits_bits _ _ _ _ H2).
    pose proof (getbits_bits _ _ _ _ H3). pose proof (read_cl_bits _ _ _ _ H4).
    pose proof (read_lens_bits _ _ _ _ _ _ _ H5). lia. }
  destruct (codes_body _ _ _ _ Hbb cf limit s5 o rest (mk_tree_not_leaf _) Hw Hok R5 Hbl Hl)
    as [s' [o' [H6 [Hw' [Hl' R6]]]]].
  exists s', o'. split; [|split; [exact Hw'|split; [exact Hl'|exact R6]]].
  unfold dynamic. rewrite H1, H2, H3. cbv zeta. rewrite !Nat2N.id.
  replace (dh_nlen h - 257 + 257)%nat with (dh_nlen h) by lia.
  replace (dh_ndist h - 1 + 1)%nat with (dh_ndist h) by lia.
  replace (length (dh_clvals h) - 4 + 4)%nat with (length (dh_clvals h)) by lia.
  destruct ((286 <? dh_nlen h)%nat || (30 <? dh_ndist h)%nat) eqn:E1; [lia|].
  rewrite H4. rewrite K5. cbn [negb].
  rewrite H5.
  destruct (Nat.eqb (nth 256 (cl_expand (dh_items h) []) O) O) eqn:E2; [apply Nat.eqb_eq in E2; contradiction|].
  rewrite K9, K10. cbn [negb orb]. exact H6.
Qed.

(* ---- a stored block ---- *)

Lemma stored_block_spec : forall pad chunk limit s o rest,
  src_ok s -> (length pad < 8)%nat -> (length (bytes_bits (stored_bytes chunk) ++ rest) mod 8 = 0)%nat ->
  lenN chunk <= 65535 -> Forall is_byte chunk ->
  bits_all s = pad ++ bytes_bits (stored_bytes chunk) ++ rest ->
  ob_len o + lenN chunk <= limit ->
  exists s', stored limit s o = Some (s', push_list chunk o) /\ src_ok s' /\ bits_all s' = rest.
Proof.
  intros pad chunk limit [bs src] o rest [Hk1 Hk2] Hp Hal Hc Hb Hs Hl.
  unfold bits_all in Hs. cbn [fst snd] in *. fold (bytes_bits src) in Hs.
  assert (Hlen : length bs = length pad).
  { pose proof (f_equal (@length bool) Hs) as E. rewrite !app_length in E.
    rewrite bytes_bits_length in E. rewrite app_length in Hal.
    set (m := length (bytes_bits (stored_bytes chunk))) in *. set (r := length rest) in *.
    assert (E2 : ((length bs) mod 8 = (length pad) mod 8)%nat).
    { replace (length bs) with (length pad + (m + r) - 8 * length src)%nat by lia.
      assert (Hm : exists q, (m + r = 8 * q)%nat).
      { exists ((m + r) / 8)%nat. pose proof (Nat.div_mod (m + r) 8 ltac:(lia)). lia. }
      destruct Hm as [q Hq]. rewrite Hq.
      assert (Hq2 : (length src <= q)%nat) by lia.
      replace (length pad + 8 * q - 8 * length src)%nat with (length pad + (q - length src) * 8)%nat by lia.
      apply Nat.mod_add. lia. }
    rewrite !Nat.mod_small in E2 by lia. exact E2. }
  destruct (app_eq_len _ _ _ _ _ Hs Hlen) as [E1 E2]. subst bs.
  assert (Hsb : Forall is_byte (stored_bytes chunk)).
  { unfold stored_bytes. apply Forall_app. split; [apply le16_bytes|].
    apply Forall_app. split; [apply le16_bytes|exact Hb]. }
  destruct (bytes_bits_prefix _ _ _ Hk2 Hsb E2) as [tail [T1 T2]]. subst src.
  exists ([], tail). split; [|split].
  - unfold stored_bytes. rewrite <- !app_assoc. apply stored_ok; assumption.
  - split; cbn [fst snd length]; [lia|]. apply Forall_app in Hk2. destruct Hk2 as [_ Hk2]. exact Hk2.
  - unfold bits_all. cbn [fst snd app]. exact T2.
Qed.

(* ---- one block, any type ---- *)

Lemma block_out_length : forall b out, (length out <= length (block_out b out))%nat.
Proof.
  intros [pad chunk|ts|h ts] out; cbn [block_out]; try apply expand_length_mono.
  rewrite app_length. lia.
Qed.

Lemma stream_out_mono : forall off bits out bs out',
  stream_denotes off bits out bs out' -> (length out <= length out')%nat.
Proof.
  induction 1 as [off b out bits Hb|off b bs out bits rest out' Hb Hs IH].
  - apply block_out_length.
  - pose proof (block_out_length b out). lia.
Qed.

Definition aligned (off : nat) (s : bitsrc) : Prop := ((off + bits_left s) mod 8 = 0)%nat.

Lemma getbits2_spec : forall s (b0 b1 : bool) rest, bits_all s = b0 :: b1 :: rest ->
  exists s', getbits 2 s = Some (N.b2n b0 + 2 * N.b2n b1, s') /\ bits_all s' = rest.
Proof.
  intros s b0 b1 rest H.
  destruct (getbits_spec 2 s [b0; b1] rest eq_refl H) as [s' [H1 H2]].
  exists s'. split; [|exact H2]. rewrite H1. cbn [bits_val]. f_equal. f_equal. lia.
Qed.

Lemma block_step : forall off b out bits, block_bits off b out bits ->
  forall cf limit s0 s o rest (fin : bool),
    src_ok s0 -> aligned off s0 -> getbit s0 = Some (fin, s) ->
    win_ok o -> ob_list o = out ->
    bits_all s = bits ++ rest -> (bits_left s < cf)%nat -> lenN (block_out b out) <= limit ->
    exists ty s2 s' o',
      getbits 2 s = Some (ty, s2) /\
      (if ty =? 0 then stored limit s2 o
       else if ty =? 1 then codes cf limit fixed_lt fixed_dt s2 o
       else if ty =? 2 then dynamic cf limit s2 o else None) = Some (s', o') /\
      src_ok s' /\ win_ok o' /\ ob_list o' = block_out b out /\ bits_all s' = rest.
Proof.
  intros off b out bits Hb cf limit s0 s o rest fin Hk0 Hal Hg0 Hw Ho Hs Hf Hl.
  pose proof (getbit_src_ok _ _ _ Hk0 Hg0) as Hk.
  pose proof (getbit_bits _ _ _ Hg0) as Hb0.
  inversion Hb as [pad chunk out0 Hp Hoff Hc Hby E1 E2 E3|ts out0 bb Hok Hbb E1 E2 E3
                  |h ts out0 hb bb Hh Hhb Hok Hbb E1 E2 E3]; subst.
  - (* stored *)
    cbn [app] in Hs. destruct (getbits2_spec s false false _ Hs) as [s2 [H2 R2]].
    pose proof (getbits_src_ok _ _ _ _ Hk H2) as Hk2.
    cbn [block_out] in *. rewrite <- app_assoc in R2.
    destruct (stored_block_spec pad chunk limit s2 o rest Hk2 Hp) as [s' [H3 [Hk3 R3]]]; try assumption.
    + (* alignment: the bits after the padding are whole bytes *)
      unfold aligned in Hal. rewrite Hb0 in Hal. rewrite (bits_left_bits_all s) in Hal. rewrite Hs in Hal.
      cbn [length] in Hal. rewrite !app_length in Hal.
      rewrite app_length.
      set (m := length (bytes_bits (stored_bytes chunk))) in *. set (r := length rest) in *.
      clearbody m r. clear - Hal Hoff. zify_mod8.
    + rewrite (win_ok_len o Hw). unfold lenN in *. rewrite app_length in Hl. lia.
    + exists 0, s2, s', (push_list chunk o). split; [exact H2|].
      split; [exact H3|]. split; [exact Hk3|]. split; [apply win_ok_push_list; exact Hw|].
      split; [apply ob_list_push_list|exact R3].
  - (* fixed *)
    cbn [app] in Hs. destruct (getbits2_spec s true false _ Hs) as [s2 [H2 R2]].
    pose proof (getbits_src_ok _ _ _ _ Hk H2) as Hk2.
    pose proof (getbits_bits _ _ _ _ H2) as B2.
    cbn [block_out] in *.
    destruct (codes_body _ _ _ _ Hbb cf limit s2 o rest fixed_lt_not_leaf Hw Hok R2 ltac:(lia) Hl)
      as [s' [o' [H3 [Hw' [Hl' R3]]]]].
    exists 1, s2, s', o'. split; [exact H2|]. split; [exact H3|].
    split; [exact (codes_src_ok _ _ _ _ _ _ _ _ Hk2 H3)|]. split; [exact Hw'|]. split; [exact Hl'|exact R3].
  - (* dynamic *)
    cbn [app] in Hs. destruct (getbits2_spec s false true _ Hs) as [s2 [H2 R2]].
    pose proof (getbits_src_ok _ _ _ _ Hk H2) as Hk2.
    pose proof (getbits_bits _ _ _ _ H2) as B2.
    cbn [block_out] in *. rewrite <- app_assoc in R2.
    destruct (dynamic_block h ts hb bb cf limit s2 o rest Hh Hhb Hbb Hw Hok R2 ltac:(lia) Hl)
      as [s' [o' [H3 [Hw' [Hl' R3]]]]].
    exists 2, s2, s', o'. split; [exact H2|]. split; [exact H3|].
    split; [exact (dynamic_src_ok _ _ _ _ _ _ Hk2 H3)|]. split; [exact Hw'|]. split; [exact Hl'|exact R3].
Qed.

(* ---- the block loop over any stream ---- *)

Lemma blocks_stream : forall off bits out bs out', stream_denotes off bits out bs out' ->
  forall f cf limit s o trail,
    src_ok s -> aligned off s -> win_ok o -> ob_list o = out ->
    bits_all s = bits ++ trail -> (bits_left s < f)%nat -> (bits_left s < cf)%nat ->
    lenN out' <= limit ->
    exists s' o', blocks f cf limit s o = Some (s', o') /\ win_ok o' /\ ob_list o' = out' /\
      bits_all s' = trail.
Proof.
  induction 1 as [off b out bits Hb|off b bs out bits rest out' Hb Hs IH];
    intros f cf limit s o trail Hk Hal Hw Ho Hbits Hf Hcf Hl.
  - destruct f as [|f]; [lia|]. cbn [blocks].
    pose proof (getbit_spec s) as G. rewrite Hbits in G. cbn [app] in G.
    destruct (getbit s) as [[fin s1]|] eqn:E1; [|discriminate]. injection G as Hfin G. subst fin.
    pose proof (getbit_bits _ _ _ E1) as B1.
    destruct (block_step off b out bits Hb cf limit s s1 o trail true Hk Hal E1 Hw Ho (eq_sym G)
                ltac:(lia) Hl) as [ty [s2 [s' [o' [H2 [H3 [Hk' [Hw' [Hl' R']]]]]]]]].
    rewrite H2. cbv zeta. rewrite H3. exists s', o'. split; [reflexivity|]. split; [exact Hw'|]. split; [exact Hl'|exact R'].
  - destruct f as [|f]; [lia|]. cbn [blocks].
    pose proof (getbit_spec s) as G. rewrite Hbits in G. cbn [app] in G.
    destruct (getbit s) as [[fin s1]|] eqn:E1; [|discriminate]. injection G as Hfin G. subst fin.
    pose proof (getbit_bits _ _ _ E1) as B1.
    pose proof (stream_out_mono _ _ _ _ _ Hs) as Hmono.
    rewrite <- app_assoc in G.
    destruct (block_step off b out bits Hb cf limit s s1 o (rest ++ trail) false Hk Hal E1 Hw Ho (eq_sym G)
                ltac:(lia) ltac:(unfold lenN in *; lia)) as [ty [s2 [s' [o' [H2 [H3 [Hk' [Hw' [Hl' R']]]]]]]]].
    rewrite H2. cbv zeta. rewrite H3.
    assert (Hbl : (bits_left s = 1 + length bits + bits_left s')%nat).
    { rewrite B1, (bits_left_bits_all s1), <- G, (bits_left_bits_all s'), R', app_length. lia. }
    apply IH; [exact Hk'| |exact Hw'|exact Hl'|exact R'|lia|lia|exact Hl].
    unfold aligned in *. replace (off + 1 + length bits + bits_left s')%nat with (off + bits_left s)%nat by lia.
    exact Hal.
Qed.

(* ---- the whole stream ---- *)

Theorem inflate_raw_complete : forall c out limit,
  Forall is_byte c -> deflate_denotes c out -> lenN out <= limit ->
  exists rest, inflate_raw limit c = Some (out, rest).
Proof.
  intros c out limit Hc [bs [bits [trail [Hs Hb]]]] Hl. unfold inflate_raw.
  set (F := S (8 * length c)).
  assert (Hb0 : bits_all ([], c) = bits ++ trail) by exact Hb.
  assert (HF : (bits_left ([], c) < F)%nat) by (unfold bits_left, F; cbn [fst snd length]; lia).
  destruct (blocks_stream 0 bits [] bs out Hs F F limit ([], c) ob_empty trail) as [s' [o' [H1 [Hw [Ho _]]]]];
    try assumption.
  - split; cbn [fst snd length]; [lia|exact Hc].
  - unfold aligned, bits_left. cbn [fst snd length]. rewrite Nat.add_0_l, Nat.mul_comm. apply Nat.mod_mul. lia.
  - exact win_ok_empty.
  - reflexivity.
  - rewrite H1. exists (snd s'). unfold ob_list in Ho. rewrite rev_append_rev, app_nil_r, Ho. reflexivity.
Qed.

Theorem inflate_complete : forall c out,
  Forall is_byte c -> deflate_denotes c out -> inflate c (lenN out) = Some out.
Proof.
  intros c out Hc Hd. unfold inflate.
  destruct (inflate_raw_complete c out (lenN out) Hc Hd ltac:(lia)) as [rest H]. rewrite H.
  rewrite N.eqb_refl. reflexivity.
Qed.
