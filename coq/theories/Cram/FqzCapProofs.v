(* fqzcomp under hostile sizes: the capped decoder of NV.Cram.FqzCap refines Fqz.fqz_decode.

     fqz_decode_c_refines        Capped, or exactly the answer of fqz_decode
     fqz_decode_c_not_capped     the only cap is on the size field at the head of the stream
     fqz_decode_c_never_panics   no panic on any byte string, whatever the cap
     fqz_roundtrip_c             decode_c (encode x) = Within (FOk x) once |x| is within the cap   *)
From Coq Require Import List NArith ZArith Lia Bool PeanoNat.
From NV Require Import Cram.Bytes Cram.Vlq Cram.IntProofs Cram.Rans4x8 Cram.Nx16O0 Cram.Aac Cram.Fqz
  Cram.FqzProofs Cram.FqzTotal Cram.Cap Cram.CapProofs Cram.FqzCap.
Import ListNotations.
Open Scope N_scope.

Theorem fqz_decode_c_refines cap bs : refines (fqz_decode_c cap bs) (fqz_decode bs).
Proof.
  unfold fqz_decode_c, fqz_decode.
  destruct (read_uint7 bs) as [size b0| |]; try apply refines_within.
  destruct b0 as [|ver [|gfl b1]]; try apply refines_within.
  destruct (negb (ver =? 5)); [apply refines_within|].
  destruct (negb (gfl mod 8 =? 0)); [apply refines_within|].
  destruct b1 as [|c0 [|c1 [|pfl [|maxsym [|qq [|qs [|pd b2]]]]]]]; try apply refines_within.
  destruct (negb ((pfl / 2) mod 2 =? 0) || negb ((pfl / 8) mod 2 =? 0) || negb ((pfl / 16) mod 2 =? 0)
            || negb ((pfl / 64) mod 2 =? 0) || negb ((pfl / 128) mod 2 =? 0)); [apply refines_within|].
  destruct (if (pfl / 32) mod 2 =? 0 then Some (None, b2)
            else match read_array b2 1024 with
                 | Some (t, r) => Some (Some t, r)
                 | None => None
                 end) as [[ptab b3]|]; [|apply refines_within].
  cbv zeta.
  destruct (rc_dec_new b3) as [[st b4]|]; [|apply refines_within].
  apply with_cap_refines. apply refines_within.
Qed.

(* the size read at the head of the stream is the only thing the cap looks at *)
Lemma fqz_decode_c_not_capped cap bs size rest :
  read_uint7 bs = U7Ok size rest -> size <= cap -> fqz_decode_c cap bs <> Capped.
Proof.
  intros EU Hc. unfold fqz_decode_c. rewrite EU.
  destruct rest as [|ver [|gfl b1]]; try discriminate.
  destruct (negb (ver =? 5)); [discriminate|].
  destruct (negb (gfl mod 8 =? 0)); [discriminate|].
  destruct b1 as [|c0 [|c1 [|pfl [|maxsym [|qq [|qs [|pd b2]]]]]]]; try discriminate.
  destruct (negb ((pfl / 2) mod 2 =? 0) || negb ((pfl / 8) mod 2 =? 0) || negb ((pfl / 16) mod 2 =? 0)
            || negb ((pfl / 64) mod 2 =? 0) || negb ((pfl / 128) mod 2 =? 0)); [discriminate|].
  destruct (if (pfl / 32) mod 2 =? 0 then Some (None, b2)
            else match read_array b2 1024 with
                 | Some (t, r) => Some (Some t, r)
                 | None => None
                 end) as [[ptab b3]|]; [|discriminate].
  cbv zeta.
  destruct (rc_dec_new b3) as [[st b4]|]; [|discriminate].
  rewrite with_cap_within by exact Hc. discriminate.
Qed.

(* whatever the cap, the capped model never answers "panic" *)
Theorem fqz_decode_c_never_panics cap bs :
  Forall (fun b => b < 256) bs -> fqz_decode_c cap bs <> Within FPanic.
Proof.
  intros HP E. destruct (fqz_decode_c_refines cap bs) as [R|R]; rewrite R in E.
  - discriminate E.
  - injection E as E. exact (fqz_decode_never_panics bs HP E).
Qed.

Lemma some_inj {A : Type} (a b : A) : Some a = Some b -> a = b.
Proof. intros H. injection H as H. exact H. Qed.

(* the round trip survives the cap as soon as the input is within the cap *)
Theorem fqz_roundtrip_c cap lens src :
  Forall (fun b => b < 256) src -> N.of_nat (length src) < 4294967296 ->
  fold_right Nat.add 0%nat (filter (fun l => (0 <? l)%nat) lens) = length src ->
  N.of_nat (length src) <= cap ->
  exists bytes, fqz_encode lens src = Some bytes /\ fqz_decode_c cap bytes = Within (FOk src).
Proof.
  intros Hb H32 Hsum Hcap.
  destruct (fqz_roundtrip lens src Hb H32 Hsum) as (bytes & Henc & Hdec).
  exists bytes. split; [exact Henc|].
  destruct (fqz_decode_c_refines cap bytes) as [R|R]; [|rewrite R, Hdec; reflexivity].
  exfalso. revert R.
  unfold fqz_encode in Henc.
  destruct (TWO32 <=? N.of_nat (length src)); [discriminate Henc|].
  destruct (fqz_enc_loop _ _ _ _ _ _ _ _ _) as [body|]; [|discriminate Henc].
  apply some_inj in Henc. subst bytes.
  apply (fqz_decode_c_not_capped cap _ (N.of_nat (length src)) _ (uint7_roundtrip _ _ H32) Hcap).
Qed.

Print Assumptions fqz_decode_c_refines.
Print Assumptions fqz_decode_c_never_panics.
Print Assumptions fqz_roundtrip_c.
