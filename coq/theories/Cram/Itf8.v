(* ITF8: bit-exact model of noodles-cram src/io/writer/num/itf8.rs (write_itf8) and
   src/io/reader/num/itf8.rs (read_itf8).

   The i32 argument is viewed as its two's-complement u32 [u]; under that view the Rust tests
   `n >> 7 == 0`, `n >> 14 == 0`, ... (arithmetic shifts of an i32) are `u < 2^7`, `u < 2^14`, ...
   and every negative number takes the 5-byte form.

   writer, 5-byte form:  m = 0xf0<<32 | (u & 0xfffffff0) << 4 | (u & 0x0f);  bytes m.to_be_bytes()[3..]
        = [0xf0 + u>>28; (u>>20)&0xff; (u>>12)&0xff; (u>>4)&0xff; u&0x0f]
   reader, 5-byte form:  (b0 & 0x0f) << 28 | (b1_4 & 0xffffff0f) >> 4 | b1_4 & 0x0f
        = (b0 mod 16)*2^28 + (b1_4 / 256)*16 + b1_4 mod 16   (the high nibble of the fifth byte is ignored) *)
From Coq Require Import List NArith ZArith.
From NV Require Import Cram.Bytes.
Import ListNotations.
Open Scope N_scope.

Definition u32_of_i32 (n : Z) : N := Z.to_N (n mod 4294967296)%Z.
Definition i32_of_u32 (u : N) : Z :=
  if u <? 2147483648 then Z.of_N u else (Z.of_N u - 4294967296)%Z.

Definition itf8_enc (u : N) : list N :=
  if u <? 128 then [u]
  else if u <? 16384 then (128 + u / 256) :: be_bytes 1 u
  else if u <? 2097152 then (192 + u / 65536) :: be_bytes 2 u
  else if u <? 268435456 then (224 + u / 16777216) :: be_bytes 3 u
  else [240 + u / 268435456; (u / 1048576) mod 256; (u / 4096) mod 256; (u / 16) mod 256; u mod 16].

Definition itf8_dec (bs : list N) : option (N * list N) :=
  match bs with
  | [] => None
  | b0 :: r =>
    if b0 <? 128 then Some (b0, r)
    else if b0 <? 192 then
      match take_be 1 0 r with Some (v, r') => Some ((b0 mod 128) * 256 + v, r') | None => None end
    else if b0 <? 224 then
      match take_be 2 0 r with Some (v, r') => Some ((b0 mod 64) * 65536 + v, r') | None => None end
    else if b0 <? 240 then
      match take_be 3 0 r with Some (v, r') => Some ((b0 mod 32) * 16777216 + v, r') | None => None end
    else
      match take_be 4 0 r with
      | Some (v, r') => Some ((b0 mod 16) * 268435456 + (v / 256) * 16 + v mod 16, r')
      | None => None
      end
  end.

Definition write_itf8 (n : Z) : list N := itf8_enc (u32_of_i32 n).

(* None = Err(UnexpectedEof) (the only error read_itf8 can return on a byte slice) *)
Definition read_itf8 (bs : list N) : option (Z * list N) :=
  match itf8_dec bs with
  | Some (u, r) => Some (i32_of_u32 u, r)
  | None => None
  end.

Definition itf8_size (n : Z) : nat :=
  let u := u32_of_i32 n in
  if u <? 128 then 1 else if u <? 16384 then 2 else if u <? 2097152 then 3
  else if u <? 268435456 then 4 else 5.
