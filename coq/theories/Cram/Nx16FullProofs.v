(* rANS Nx16, whole streams: for EVERY STRIPE-free flag byte the stream written by the model of
   rans_nx16::encode -- flag byte, size, PACK context, RLE context, then the data verbatim (CAT) or
   order-0 entropy coded with 4 or 32 states -- is mapped back to the input by the model of
   rans_nx16::decode; the only streams left out are those the encoder hands to the order-1 coder. *)
From Coq Require Import List NArith ZArith Lia Bool PeanoNat.
From Coq Require Import ZifyBool ZifyNat ZifyN.
From NV Require Import Cram.Bytes Cram.Vlq Cram.IntProofs Cram.Rans4x8 Cram.Rans4x8Proofs
  Cram.Nx16Xform Cram.Nx16XformProofs Cram.Nx16O0 Cram.Nx16O0Proofs Cram.Nx16O0Table Cram.Nx16O1 Cram.Nx16Full.
Import ListNotations.
Ltac Zify.zify_post_hook ::= Z.div_mod_to_equations.
Open Scope N_scope.
Arguments N.add : simpl never.
Arguments N.sub : simpl never.
Arguments N.mul : simpl never.
Arguments N.div : simpl never.
Arguments N.modulo : simpl never.
Arguments N.pow : simpl never.
Arguments N.ltb : simpl never.
Arguments N.leb : simpl never.
Arguments N.eqb : simpl never.

Definition byte (b : N) : Prop := b < 256.

(* ---------- helpers ---------- *)

Lemma split_off_app (a b : list N) : split_off (a ++ b) (length a) = Some (a, b).
Proof.
  unfold split_off.
  replace (length (a ++ b) <? length a)%nat with false
    by (symmetry; apply Nat.ltb_ge; rewrite app_length; lia).
  rewrite firstn_app, Nat.sub_diag, firstn_all. cbn [firstn]. rewrite app_nil_r.
  rewrite skipn_app, Nat.sub_diag, skipn_all. reflexivity.
Qed.

Lemma uint7_go_len_le : forall fuel m acc, (length (uint7_go fuel m acc) <= fuel + length acc)%nat.
Proof.
  induction fuel as [|fu IH]; intros m acc; cbn [uint7_go]; [lia|].
  destruct (m =? 0); [lia|]. specialize (IH (m / 128) ((m mod 128 + 128) :: acc)). cbn [length] in IH. lia.
Qed.

Lemma write_uint7_len_le n : (length (write_uint7 n) <= 5)%nat.
Proof. unfold write_uint7. pose proof (uint7_go_len_le 4 (n / 128) [n mod 128]) as H. cbn [length] in H. lia. Qed.

Lemma filter_len_le {T} (p : T -> bool) : forall l, (length (filter p l) <= length l)%nat.
Proof. induction l as [|x r IH]; cbn [filter length]; [lia|]. destruct (p x); cbn [length]; lia. Qed.

(* ---------- bit packing produces bytes ---------- *)

Lemma pack_byte_bound syms w : 0 < w -> N.of_nat (length syms) <= w ->
  forall chunk, (forall x, In x chunk -> In x syms) ->
  pack_byte syms w chunk < w ^ N.of_nat (length chunk).
Proof.
  intros Hw Hs. induction chunk as [|x r IH]; intros Hin.
  - cbn [pack_byte length]. change (N.of_nat 0) with 0. rewrite N.pow_0_r. lia.
  - cbn [pack_byte length]. rewrite Nnat.Nat2N.inj_succ, N.pow_succ_r'.
    destruct (index_of_spec x syms (Hin x (or_introl eq_refl))) as [Hi _].
    specialize (IH (fun y Hy => Hin y (or_intror Hy))).
    set (i := index_of x syms) in *. set (p := pack_byte syms w r) in *.
    set (k := w ^ N.of_nat (length r)) in *. nia.
Qed.

Lemma pack_go_bytes syms cs w : 0 < w -> N.of_nat (length syms) <= w -> w ^ N.of_nat cs = 256 ->
  forall fuel src, (forall x, In x src -> In x syms) ->
  Forall byte (pack_go fuel syms cs w src) /\ (length (pack_go fuel syms cs w src) <= fuel)%nat.
Proof.
  intros Hw Hs Hp. induction fuel as [|fu IH]; intros src Hin; cbn [pack_go].
  - split; [constructor|cbn [length]; lia].
  - destruct src as [|x r]; [split; [constructor|cbn [length]; lia]|].
    set (src := x :: r) in *.
    destruct (IH (skipn cs src)) as [H1 H2].
    { intros y Hy. apply Hin. rewrite <- (firstn_skipn cs src). apply in_or_app. right. exact Hy. }
    split; [|cbn [length]; lia]. constructor; [|exact H1].
    unfold byte. rewrite <- Hp.
    eapply N.lt_le_trans.
    + apply (pack_byte_bound syms w Hw Hs).
      intros y Hy. apply Hin. rewrite <- (firstn_skipn cs src). apply in_or_app. left. exact Hy.
    + apply N.pow_le_mono_r; [lia|]. rewrite firstn_length. lia.
Qed.

Lemma pack_encode_bytes syms src :
  (1 <= length syms <= 16)%nat -> (forall x, In x src -> In x syms) ->
  Forall byte (pack_encode syms src) /\ (length (pack_encode syms src) <= length src)%nat.
Proof.
  intros Hn Hin. unfold pack_encode, pack_geom.
  destruct (length syms =? 0)%nat eqn:E0; [apply Nat.eqb_eq in E0; lia|].
  destruct (length syms =? 1)%nat eqn:E1; [split; [constructor|cbn [length]; lia]|].
  apply Nat.eqb_neq in E1.
  destruct (length syms <=? 2)%nat eqn:E2.
  { apply Nat.leb_le in E2. apply pack_go_bytes; try lia; try assumption; try reflexivity. }
  apply Nat.leb_gt in E2.
  destruct (length syms <=? 4)%nat eqn:E4.
  { apply Nat.leb_le in E4. apply pack_go_bytes; try lia; try assumption; try reflexivity. }
  apply Nat.leb_gt in E4.
  replace (length syms <=? 16)%nat with true by (symmetry; apply Nat.leb_le; lia).
  apply pack_go_bytes; try lia; try assumption; try reflexivity.
Qed.

(* ---------- run-length coding: literals and meta-data sizes ---------- *)

Lemma rle_enc_facts A : forall fuel src l m, rle_enc fuel A src = (l, m) ->
  (forall x, In x l -> In x src) /\ (length l <= length src)%nat /\ (length m <= 5 * length l)%nat.
Proof.
  induction fuel as [|fu IH]; intros src l m He; cbn [rle_enc] in He.
  - inversion He; subst. repeat split; cbn [length]; try lia. intros x [].
  - destruct src as [|sym r].
    { inversion He; subst. repeat split; cbn [length]; try lia. intros x []. }
    destruct (mem sym A).
    + destruct (span_eq sym r) as [n t] eqn:Es.
      destruct (rle_enc fu A t) as [l' m'] eqn:Er. inversion He; subst l m.
      destruct (span_eq_spec sym r n t Es) as [Hr Hl].
      destruct (IH t l' m' Er) as [H1 [H2 H3]].
      split; [|split].
      * intros x [Hx|Hx]; [left; exact Hx|]. right. rewrite Hr. apply in_or_app. right. apply H1. exact Hx.
      * cbn [length]. lia.
      * rewrite app_length. pose proof (write_uint7_len_le n). cbn [length]. lia.
    + destruct (rle_enc fu A r) as [l' m'] eqn:Er. inversion He; subst l m.
      destruct (IH r l' m' Er) as [H1 [H2 H3]].
      split; [|split].
      * intros x [Hx|Hx]; [left; exact Hx|]. right. apply H1. exact Hx.
      * cbn [length]. lia.
      * cbn [length]. lia.
Qed.

Lemma rle_build_spec src A : rle_build src = Some A -> (1 <= length A <= 256)%nat.
Proof.
  unfold rle_build. destruct (rle_scores src zeros256 zeros256) as [eq ne].
  set (syms := filter _ all_syms).
  assert (Hle : (length syms <= 256)%nat).
  { unfold syms. eapply Nat.le_trans; [apply filter_len_le|]. unfold all_syms. rewrite map_length, seq_length. lia. }
  destruct (length syms =? 0)%nat eqn:E; [discriminate|]. apply Nat.eqb_neq in E.
  intros H; inversion H; subst A. lia.
Qed.

(* ---------- the two transform stages, seen from the decoder ---------- *)

Definition same_other_flags (f g : nxflags) : Prop :=
  f_order g = f_order f /\ f_res g = f_res f /\ f_n32 g = f_n32 f /\ f_stripe g = f_stripe f /\
  f_nosize g = f_nosize f /\ f_cat g = f_cat f.

Lemma pack_stage_spec f src f1 s1 h1 :
  nx_pack_stage f src = (f1, s1, h1) -> Forall byte src -> N.of_nat (length src) < 4294967296 ->
  same_other_flags f f1 /\ f_rle f1 = f_rle f /\
  Forall byte s1 /\ (length s1 <= length src)%nat /\
  exists pc,
    (forall rest,
       (if f_pack f1 then
          match rd_pack_ctx (h1 ++ rest) with
          | Some (table, len, t) => Some (Some table, len, t)
          | None => None
          end
        else Some (None, N.of_nat (length src), h1 ++ rest)) = Some (pc, N.of_nat (length s1), rest)) /\
    match pc with Some table => pack_decode table s1 (length src) | None => DOk s1 end = DOk src.
Proof.
  intros Hst Hb Hlen. unfold nx_pack_stage in Hst.
  destruct (f_pack f) eqn:Ep.
  - destruct (pack_build src) as [syms|] eqn:Epb.
    + injection Hst as Hq1 Hq2 Hq3; subst f1 s1 h1.
      destruct (pack_build_spec src syms Epb) as [Hs Hn].
      assert (Hin : forall x, In x src -> In x syms).
      { intros x Hx. rewrite Hs. apply present_complete; assumption. }
      destruct (pack_encode_bytes syms src Hn Hin) as [Hpb Hpl].
      split; [repeat split|]. split; [reflexivity|]. split; [exact Hpb|]. split; [exact Hpl|].
      exists (Some syms). split.
      * intros rest. rewrite Ep. unfold pack_context_bytes, rd_pack_ctx. cbn [app].
        replace (N.of_nat (length syms) =? 0) with false by lia.
        rewrite Nnat.Nat2N.id. rewrite <- app_assoc. rewrite split_off_app.
        rewrite uint7_roundtrip by lia. reflexivity.
      * apply pack_build_roundtrip; assumption.
    + injection Hst as Hq1 Hq2 Hq3; subst f1 s1 h1.
      split; [repeat split|]. split; [reflexivity|]. split; [exact Hb|]. split; [lia|].
      exists None. split; [intros rest; reflexivity|reflexivity].
  - injection Hst as Hq1 Hq2 Hq3; subst f1 s1 h1.
    split; [repeat split|]. split; [reflexivity|]. split; [exact Hb|]. split; [lia|].
    exists None. split; [intros rest; rewrite Ep; reflexivity|reflexivity].
Qed.

Lemma rle_stage_spec f1 s1 f2 s2 h2 :
  nx_rle_stage f1 s1 = (f2, s2, h2) -> Forall byte s1 -> N.of_nat (length s1) < 268435456 ->
  same_other_flags f1 f2 /\ f_pack f2 = f_pack f1 /\
  Forall byte s2 /\ (length s2 <= length s1)%nat /\
  exists rc,
    (forall nst rest,
       (if f_rle f2 then
          match rd_rle_ctx nst (h2 ++ rest) with
          | ROk (meta, len, t) => ROk (Some meta, len, t)
          | RErr => RErr
          | RPanic => RPanic
          end
        else ROk (None, N.of_nat (length s1), h2 ++ rest)) = ROk (rc, N.of_nat (length s2), rest)) /\
    match rc with Some meta => rle_decode s2 meta (length s1) | None => DOk s2 end = DOk s1.
Proof.
  intros Hst Hb Hlen. unfold nx_rle_stage in Hst.
  destruct (f_rle f1) eqn:Er.
  - destruct (rle_build s1) as [A|] eqn:Erb.
    + destruct (rle_enc (length s1) A s1) as [lits runs] eqn:Ee.
      assert (Hq : f2 = f1 /\ s2 = lits /\
                   h2 = rle_context_bytes (rle_alphabet_bytes A ++ runs) (length lits))
        by (repeat split; congruence).
      clear Hst. destruct Hq as [Hq1 [Hq2 Hq3]]. subst f2 s2 h2.
      destruct (rle_enc_facts A _ _ _ _ Ee) as [Hsub [Hll Hml]].
      pose proof (rle_build_spec s1 A Erb) as HA.
      split; [repeat split|]. split; [reflexivity|]. split.
      { apply Forall_forall. intros x Hx. rewrite Forall_forall in Hb. apply Hb. apply Hsub. exact Hx. }
      split; [exact Hll|].
      remember (rle_alphabet_bytes A ++ runs) as meta eqn:Em.
      assert (Hmeta : (length meta <= 257 + 5 * length s1)%nat).
      { rewrite Em. unfold rle_alphabet_bytes. rewrite app_length. cbn [length]. lia. }
      exists (Some meta). split.
      * intros nst rest. rewrite Er. unfold rle_context_bytes, rd_rle_ctx.
        rewrite <- !app_assoc. rewrite uint7_roundtrip by lia. rewrite uint7_roundtrip by lia.
        replace (N.even (2 * N.of_nat (length meta) + 1)) with false
          by (symmetry; rewrite N.add_1_r, N.even_succ, N.odd_mul, N.odd_2; reflexivity).
        replace ((2 * N.of_nat (length meta) + 1) / 2) with (N.of_nat (length meta)) by lia.
        rewrite Nnat.Nat2N.id, split_off_app. reflexivity.
      * rewrite Em. apply rle_roundtrip; [exact HA|lia|exact Ee].
    + injection Hst as Hq1 Hq2 Hq3; subst f2 s2 h2.
      split; [repeat split|]. split; [reflexivity|]. split; [exact Hb|]. split; [lia|].
      exists None. split; [intros nst rest; reflexivity|reflexivity].
  - injection Hst as Hq1 Hq2 Hq3; subst f2 s2 h2.
    split; [repeat split|]. split; [reflexivity|]. split; [exact Hb|]. split; [lia|].
    exists None. split; [intros nst rest; rewrite Er; reflexivity|reflexivity].
Qed.

(* ---------- the whole stream ---------- *)

(* what the entropy stage has to provide: the order-0 coder does (nx_o0_roundtrip); for the
   order-1 coder it is the hypothesis [O1ok] below until NV.Cram.Nx16O1Full discharges it *)
Definition entropy_ok (enc : nat -> list N -> enc_result) (dec : list N -> nat -> nat -> res (list N)) : Prop :=
  forall n src, (n = 4 \/ n = 32)%nat -> (n <= length src)%nat ->
    Forall byte src -> N.of_nat (length src) < 268435456 ->
    exists body, enc n src = EncOk body /\ dec body (length src) n = ROk src.

Lemma entropy_ok_o0 : entropy_ok nx_o0_encode nxd0_decode.
Proof.
  intros n src Hn Hl Hb Hlen.
  assert (Hn0 : (0 < n)%nat) by lia.
  assert (Hne : src <> []) by (intro Hc; subst src; cbn [length] in Hl; lia).
  destruct (nx_o0_roundtrip n src [] Hn0 Hne Hb ltac:(lia)) as [body [He Hd]].
  exists body. split; [exact He|]. rewrite app_nil_r in Hd. exact Hd.
Qed.

(* For EVERY flag byte without STRIPE and every byte string shorter than 2^28: the model of
   rans_nx16::encode never panics or diverges and the model of rans_nx16::decode returns the input
   from the emitted stream -- PACK and RLE applied or refused, CAT given or forced, order 0 or 1,
   4 or 32 states, with or without the size field. *)
Theorem nx_full_roundtrip_gen f src :
  (f_order f = true -> entropy_ok nx_o1_encode nxd1_decode) ->
  f_stripe f = false -> Forall byte src -> N.of_nat (length src) < 268435456 ->
  exists bytes, nx_encode_e f src = NeOk bytes /\ nx_decode_e bytes (N.of_nat (length src)) = DOk src.
Proof.
  intros HO1 Hstripe Hb Hlen. unfold nx_encode_e. rewrite Hstripe.
  destruct (nx_pack_stage f src) as [[f1 s1] h1] eqn:E1.
  destruct (nx_rle_stage f1 s1) as [[f2 s2] h2] eqn:E2.
  destruct (pack_stage_spec f src f1 s1 h1 E1 Hb ltac:(lia))
    as [[Ho1 [_ [Hn1 [Hs1 [Hz1 Hc1]]]]] [Hr1 [Hb1 [Hl1 [pc [Hpc Hpd]]]]]].
  destruct (rle_stage_spec f1 s1 f2 s2 h2 E2 Hb1 ltac:(lia))
    as [[Ho2 [_ [Hn2 [Hs2 [Hz2 Hc2]]]]] [Hp2 [Hb2 [Hl2 [rc [Hrc Hrd]]]]]].
  set (f3 := if (length s2 <? state_count f2)%nat then force_cat f2 else f2).
  assert (H3 : f_stripe f3 = false /\ f_nosize f3 = f_nosize f /\ f_pack f3 = f_pack f1 /\
               f_rle f3 = f_rle f2 /\ state_count f3 = state_count f2 /\
               (f_cat f3 = false -> (state_count f3 <= length s2)%nat) /\
               (f_order f3 = true -> f_order f = true)).
  { unfold f3. destruct (length s2 <? state_count f2)%nat eqn:E.
    - cbn [force_cat f_order f_res f_n32 f_stripe f_nosize f_cat f_rle f_pack state_count]. repeat split; try congruence; try discriminate.
    - apply Nat.ltb_ge in E. repeat split; try congruence; try (intros _; exact E). }
  destruct H3 as [S3 [N3 [P3 [R3 [C3 [L3 O3]]]]]].
  clearbody f3.
  (* what the decoder does with the head of the stream, whatever the data stage is *)
  assert (Hhead : forall body,
    nx_decode_e (byte_of_flags f3 :: (if f_nosize f then [] else write_uint7 (N.of_nat (length src)))
                 ++ h1 ++ h2 ++ body) (N.of_nat (length src)) =
    match (if f_cat f3 then
             match split_off body (N.to_nat (N.of_nat (length s2))) with
             | None => DErr
             | Some (payload, _) => DOk payload
             end
           else match (if f_order f3
                       then nxd1_decode body (N.to_nat (N.of_nat (length s2))) (state_count f3)
                       else nxd0_decode body (N.to_nat (N.of_nat (length s2))) (state_count f3)) with
                | ROk d => DOk d
                | RErr => DErr
                | RPanic => DPanic
                end) with
    | DOk d =>
      match (match rc with
             | Some meta => rle_decode d meta (N.to_nat (N.of_nat (length s1)))
             | None => DOk d
             end) with
      | DOk d2 =>
        match pc with
        | Some table => pack_decode table d2 (N.to_nat (N.of_nat (length src)))
        | None => DOk d2
        end
      | DErr => DErr
      | DPanic => DPanic
      | DUnsupported => DUnsupported
      end
    | DErr => DErr
    | DPanic => DPanic
    | DUnsupported => DUnsupported
    end).
  { intros body. cbn [nx_decode_e]. destruct (nx_flags_roundtrip f3) as [Hfb _]. rewrite Hfb.
    rewrite N3, S3, P3, R3.
    assert (Hsz : (if f_nosize f
                   then U7Ok (N.of_nat (length src))
                          ((if f_nosize f then [] else write_uint7 (N.of_nat (length src))) ++ h1 ++ h2 ++ body)
                   else read_uint7 ((if f_nosize f then [] else write_uint7 (N.of_nat (length src))) ++ h1 ++ h2 ++ body))
                  = U7Ok (N.of_nat (length src)) (h1 ++ h2 ++ body)).
    { destruct (f_nosize f); [reflexivity|]. apply uint7_roundtrip. lia. }
    rewrite Hsz. rewrite Hpc. rewrite Hrc.
    match goal with |- match ?X with _ => _ end = _ => destruct X as [d| | |] end; try reflexivity.
    match goal with |- match ?X with _ => _ end = _ => destruct X as [d2| | |] end; reflexivity. }
  destruct (f_cat f3) eqn:Ecat.
  - eexists. split; [reflexivity|]. rewrite Hhead. try rewrite Ecat. rewrite Nnat.Nat2N.id.
    rewrite <- (app_nil_r s2) at 1. rewrite split_off_app.
    rewrite !Nnat.Nat2N.id. rewrite Hrd. exact Hpd.
  - specialize (L3 eq_refl).
    assert (Hn : (state_count f3 = 4 \/ state_count f3 = 32)%nat)
      by (unfold state_count; destruct (f_n32 f3); [right|left]; reflexivity).
    assert (Hent : exists body,
               (if f_order f3 then nx_o1_encode (state_count f3) s2 else nx_o0_encode (state_count f3) s2)
               = EncOk body /\
               (if f_order f3 then nxd1_decode body (length s2) (state_count f3)
                else nxd0_decode body (length s2) (state_count f3)) = ROk s2).
    { destruct (f_order f3) eqn:Eord.
      - apply (HO1 (O3 eq_refl)); try assumption. lia.
      - apply entropy_ok_o0; try assumption. lia. }
    destruct Hent as [body [Henc Hdec]].
    rewrite Henc. eexists. split; [reflexivity|].
    rewrite Hhead. try rewrite Ecat. rewrite !Nnat.Nat2N.id.
    rewrite Hdec. rewrite Hrd. exact Hpd.
Qed.

(* the part that needs nothing about the order-1 coder *)
Theorem nx_full_roundtrip_o0 f src :
  f_order f = false ->
  f_stripe f = false -> Forall byte src -> N.of_nat (length src) < 268435456 ->
  exists bytes, nx_encode_e f src = NeOk bytes /\ nx_decode_e bytes (N.of_nat (length src)) = DOk src.
Proof.
  intros Ho. apply nx_full_roundtrip_gen. intros Hc. congruence.
Qed.
