(* CRAM 3.1 fqzcomp quality codec as noodles wrote it (noodles-cram src/codecs/fqzcomp/encode.rs,
   decode.rs, parameters.rs, parameters/parameter.rs, models.rs), on top of the range coder and
   adaptive model of NV.Cram.Aac.

   ENCODER (everything it can do): one parameter block (context 0, HAVE_PTAB, DO_LEN when all
   record lengths are equal, q_bits 9, q_shift 5, q_loc 7, p_loc 0, the identity quality table and
   the position table min(127, i >> p_shift)), no selector / reversal / duplicates; the record
   lengths are coded as four bytes in four 256-symbol models, every quality in one of 65536 models
   chosen by the context (9 bits of quality history << 7) + position-table entry.
   DECODER: the version byte, global flags and parameter block as noodles reads them, for streams
   WITHOUT the features its encoder never uses (MULTI_PARAM, HAVE_S_TAB, DO_REV globally; DO_DEDUP,
   DO_SEL, HAVE_QMAP, HAVE_DTAB, HAVE_QTAB per block) -- the model answers "unsupported" there.
   read_array / write_array: the two-level run-length coding of tables.

   The 65536 quality models are kept sparsely: a context that was never used has the initial model. *)
From Coq Require Import List NArith Bool PeanoNat.
From NV Require Import Cram.Bytes Cram.Vlq Cram.Rans4x8 Cram.Nx16Xform Cram.Nx16O0 Cram.Aac.
Import ListNotations.
Open Scope N_scope.

(* ---------- write_array / read_array ---------- *)

(* run lengths as bytes: len.min(255), repeated while the byte is 255 *)
Fixpoint emit_run (fuel : nat) (len : N) : list N :=
  match fuel with
  | O => []
  | S fu => if len <? 255 then [len] else 255 :: emit_run fu (len - 255)
  end.

(* first level: for i = 0, 1, 2, .. the length of the run of the value i at the front of [data] *)
Fixpoint rle1_go (fuel : nat) (i : N) (data : list N) : list N :=
  match fuel with
  | O => []
  | S fu =>
    match data with
    | [] => []
    | _ =>
      let '(len, rest) := span_eq i data in
      emit_run (S (N.to_nat (len / 255))) len ++ rle1_go fu (i + 1) rest
    end
  end.

(* second level: a byte equal to its predecessor is followed by the count (at most 255) of further
   copies; [last] = None stands for -1 *)
Fixpoint count_same (x : N) (l : list N) (k : nat) : nat * list N :=
  match k with
  | O => (O, l)
  | S k' =>
    match l with
    | y :: r => if y =? x then let '(n, t) := count_same x r k' in (S n, t) else (O, l)
    | [] => (O, l)
    end
  end.

Fixpoint rle2_go (fuel : nat) (last : option N) (l : list N) : list N :=
  match fuel with
  | O => []
  | S fu =>
    match l with
    | [] => []
    | c :: r =>
      if (match last with Some x => x =? c | None => false end) then
        let '(n, t) := count_same c r 255 in
        c :: N.of_nat n :: rle2_go fu last t
      else c :: rle2_go fu (Some c) r
    end
  end.

(* the loop `while j < data.len()`: i runs past 255 only for unsorted data, which the encoder never
   passes; fuel 257 + length bounds both *)
Definition write_array (data : list N) : list N :=
  let r1 := rle1_go (257 + length data) 0 data in
  rle2_go (S (length r1)) None r1.

(* read_array, first loop: the expanded run bytes until they add up to n; None = UnexpectedEof *)
Fixpoint rd_runs (fuel : nat) (bs : list N) (z n last : N) : option (list N * list N) :=
  match fuel with
  | O => None
  | S fu =>
    if n <=? z then Some ([], bs)
    else
      match bs with
      | [] => None
      | run :: b1 =>
        if run =? last then
          match b1 with
          | [] => None
          | copy :: b2 =>
            match rd_runs fu b2 (z + run + run * copy) n run with
            | Some (l, r) => Some (run :: repeat run (N.to_nat copy) ++ l, r)
            | None => None
            end
          end
        else
          match rd_runs fu b1 (z + run) n run with
          | Some (l, r) => Some (run :: l, r)
          | None => None
          end
      end
  end.

(* one symbol's run length: parts are added while they are 255; None = the runs are used up *)
Fixpoint take_run (fuel : nat) (runs : list N) (acc : N) : option (N * list N) :=
  match fuel with
  | O => None
  | S fu =>
    match runs with
    | [] => None
    | part :: r => if part =? 255 then take_run fu r (acc + 255) else Some (acc + part, r)
    end
  end.

(* second loop: symbol i fills run_len slots; None = InvalidData (runs used up, symbol above 255,
   slice out of range) *)
Fixpoint fill_runs (fuel : nat) (runs : list N) (i z n : N) : option (list N) :=
  match fuel with
  | O => None
  | S fu =>
    if n <=? z then Some []
    else
      match take_run (S (length runs)) runs 0 with
      | None => None
      | Some (len, rest) =>
        if 0 <? len then
          if (256 <=? i) || (n <? z + len) then None
          else
            match fill_runs fu rest (i + 1) (z + len) n with
            | Some a => Some (repeat i (N.to_nat len) ++ a)
            | None => None
            end
        else fill_runs fu rest (i + 1) z n
      end
  end.

Definition read_array (bs : list N) (n : nat) : option (list N * list N) :=
  match rd_runs (S (length bs)) bs 0 (N.of_nat n) 0 with
  | None => None
  | Some (runs, rest) =>
    match fill_runs (S (length runs)) runs 0 0 (N.of_nat n) with
    | None => None
    | Some a => Some (a, rest)
    end
  end.

(* ---------- the models ---------- *)

(* models.qual, sparsely: the contexts that were used, most recent first *)
Fixpoint qual_get (qs : list (N * aac_model)) (dflt : aac_model) (ctx : N) : aac_model :=
  match qs with
  | [] => dflt
  | (c, m) :: r => if c =? ctx then m else qual_get r dflt ctx
  end.

Fixpoint qual_set (qs : list (N * aac_model)) (ctx : N) (m : aac_model) : list (N * aac_model) :=
  match qs with
  | [] => [(ctx, m)]
  | (c, m0) :: r => if c =? ctx then (c, m) :: r else (c, m0) :: qual_set r ctx m
  end.

Record fqz_models := { fq_qual : list (N * aac_model); fq_dflt : aac_model; fq_len : list aac_model }.

Definition fqz_models_new (nsym : nat) : fqz_models :=
  {| fq_qual := []; fq_dflt := model_new nsym; fq_len := repeat (model_new 256) 4 |}.

(* ---------- the context ---------- *)

Record fqz_param := {
  p_context : N; p_fixed_len : bool; p_qbits : N; p_qshift : N; p_qloc : N; p_ploc : N;
  p_ptab : option (list N)
}.

(* fqz_update_context (decoder) = the inline update of the encoder: (new q_ctx, new context) *)
Definition fqz_ctx (pr : fqz_param) (q_ctx q pos : N) : N * N :=
  let q_ctx' := (q_ctx * 2 ^ p_qshift pr + q) mod TWO32 in
  let c1 := p_context pr + (q_ctx' mod 2 ^ p_qbits pr) * 2 ^ p_qloc pr in
  let c2 := match p_ptab pr with
            | Some t => c1 + nth (N.to_nat (N.min pos 1023)) t 0 * 2 ^ p_ploc pr
            | None => c1
            end in
  (q_ctx', c2 mod 65536).

(* ---------- encoder ---------- *)

Fixpoint all_equal (l : list nat) : bool :=
  match l with
  | a :: ((b :: _) as r) => (a =? b)%nat && all_equal r
  | _ => true
  end.

Definition enc_ptab (shift : bool) : list N :=
  map (fun i => N.min 127 (if shift then N.of_nat i / 2 else N.of_nat i)) (seq 0 1024).

Definition enc_param (lens : list nat) : fqz_param :=
  {| p_context := 0; p_fixed_len := all_equal lens; p_qbits := 9; p_qshift := 5; p_qloc := 7; p_ploc := 0;
     p_ptab := Some (enc_ptab (match lens with l :: _ => (128 <? l)%nat | [] => false end)) |}.

(* fqz_encode_params: version, gflags, the single block *)
Definition enc_params_bytes (pr : fqz_param) (maxsym : N) : list N :=
  [5; 0; 0; 0; (if p_fixed_len pr then 36 else 32); maxsym; 149; 127; 15] ++
  match p_ptab pr with Some t => write_array t | None => [] end.

(* encode_length: the four bytes of the length in the four length models *)
Definition enc_byte (ls : list aac_model) (st : rc_enc) (i : nat) (b : N)
  : option (list aac_model * rc_enc * list N) :=
  match nth_error ls i with
  | None => None
  | Some m =>
    match model_encode m st b with
    | None => None
    | Some (m', st', out) =>
      Some (firstn i ls ++ m' :: skipn (S i) ls, st', out)
    end
  end.

Definition enc_length (ls : list aac_model) (st : rc_enc) (len : N)
  : option (list aac_model * rc_enc * list N) :=
  match enc_byte ls st 0 (len mod 256) with None => None | Some (l1, s1, o1) =>
  match enc_byte l1 s1 1 ((len / 256) mod 256) with None => None | Some (l2, s2, o2) =>
  match enc_byte l2 s2 2 ((len / 65536) mod 256) with None => None | Some (l3, s3, o3) =>
  match enc_byte l3 s3 3 ((len / 16777216) mod 256) with None => None | Some (l4, s4, o4) =>
    Some (l4, s4, o1 ++ o2 ++ o3 ++ o4)
  end end end end.

(* the quality loop; p = qualities left in the record, lens = the records not yet started.
   None = a panic (lens[rec_num] out of range, a symbol outside the model) or an InvalidInput error
   (a length above u32) *)
Fixpoint fqz_enc_loop (pr : fqz_param) (ms : fqz_models) (st : rc_enc) (first : bool)
  (p : N) (lens : list nat) (last qlast : N) (src : list N) : option (list N) :=
  match src with
  | [] => Some (rc_encode_end 5 st)
  | q :: r =>
    if p =? 0 then
      match lens with
      | [] => None
      | len :: lens' =>
        let lenN := N.of_nat len in
        match (if negb (p_fixed_len pr) || first then
                 if TWO32 <=? lenN then None else enc_length (fq_len ms) st lenN
               else Some (fq_len ms, st, [])) with
        | None => None
        | Some (ls', st1, out1) =>
          let ctx := p_context pr in
          let m := qual_get (fq_qual ms) (fq_dflt ms) ctx in
          match model_encode m st1 q with
          | None => None
          | Some (m', st2, out2) =>
            let '(qlast', last') := fqz_ctx pr 0 q lenN in
            let ms' := {| fq_qual := qual_set (fq_qual ms) ctx m'; fq_dflt := fq_dflt ms; fq_len := ls' |} in
            match fqz_enc_loop pr ms' st2 false (lenN - 1) lens' last' qlast' r with
            | None => None
            | Some rest => Some (out1 ++ out2 ++ rest)
            end
          end
        end
      end
    else
      let m := qual_get (fq_qual ms) (fq_dflt ms) last in
      match model_encode m st q with
      | None => None
      | Some (m', st2, out2) =>
        let '(qlast', last') := fqz_ctx pr qlast q p in
        let ms' := {| fq_qual := qual_set (fq_qual ms) last m'; fq_dflt := fq_dflt ms; fq_len := fq_len ms |} in
        match fqz_enc_loop pr ms' st2 first (p - 1) lens last' qlast' r with
        | None => None
        | Some rest => Some (out2 ++ rest)
        end
      end
  end.

(* fqzcomp::encode(lens, src) *)
Definition fqz_encode (lens : list nat) (src : list N) : option (list N) :=
  let lens' := filter (fun l => (0 <? l)%nat) lens in
  if TWO32 <=? N.of_nat (length src) then None
  else
    let pr := enc_param lens' in
    let maxsym := max_sym src in
    match fqz_enc_loop pr (fqz_models_new (S (N.to_nat maxsym))) rc_enc_init true 0 lens' 0 0 src with
    | None => None
    | Some body => Some (write_uint7 (N.of_nat (length src)) ++ enc_params_bytes pr maxsym ++ body)
    end.

(* ---------- decoder ---------- *)

Inductive fqzd_result :=
| FOk (bytes : list N)
| FErr
| FPanic
| FUnsupported.

Definition dec_byte (ls : list aac_model) (st : rc_dec) (i : nat) (bs : list N)
  : res (list aac_model * rc_dec * N * list N) :=
  match nth_error ls i with
  | None => RPanic
  | Some m =>
    match model_decode m st bs with
    | ROk (m', st', b, bs') => ROk (firstn i ls ++ m' :: skipn (S i) ls, st', b, bs')
    | RErr => RErr
    | RPanic => RPanic
    end
  end.

(* read_length *)
Definition dec_length (ls : list aac_model) (st : rc_dec) (bs : list N)
  : res (list aac_model * rc_dec * N * list N) :=
  match dec_byte ls st 0 bs with
  | ROk (l1, s1, b0, r1) =>
    match dec_byte l1 s1 1 r1 with
    | ROk (l2, s2, b1, r2) =>
      match dec_byte l2 s2 2 r2 with
      | ROk (l3, s3, b2, r3) =>
        match dec_byte l3 s3 3 r3 with
        | ROk (l4, s4, b3, r4) => ROk (l4, s4, b0 + 256 * b1 + 65536 * b2 + 16777216 * b3, r4)
        | RErr => RErr | RPanic => RPanic
        end
      | RErr => RErr | RPanic => RPanic
      end
    | RErr => RErr | RPanic => RPanic
    end
  | RErr => RErr | RPanic => RPanic
  end.

(* the loop `while i < uncompressed_size`; [k] = slots of dst left, pos = qualities left in the
   record, last_len = the previous record's length *)
Fixpoint fqz_dec_loop (k : nat) (pr : fqz_param) (ms : fqz_models) (st : rc_dec) (first : bool)
  (pos last_len ctx q_ctx : N) (bs : list N) : res (list N) :=
  match k with
  | O => ROk []
  | S k' =>
    match (if pos =? 0 then
             match (if negb (p_fixed_len pr) || first then dec_length (fq_len ms) st bs
                    else ROk (fq_len ms, st, last_len, bs)) with
             | ROk (ls', st1, len, b1) =>
               if (len =? 0) || (N.of_nat k <? len) then RErr
               else ROk (ls', st1, b1, len, len, p_context pr, 0)
             | RErr => RErr
             | RPanic => RPanic
             end
           else ROk (fq_len ms, st, bs, pos, last_len, ctx, q_ctx)) with
    | ROk (ls', st1, b1, pos1, last_len1, ctx1, q_ctx1) =>
      let m := qual_get (fq_qual ms) (fq_dflt ms) ctx1 in
      match model_decode m st1 b1 with
      | ROk (m', st2, q, b2) =>
        let '(q_ctx2, ctx2) := fqz_ctx pr q_ctx1 q pos1 in
        let ms' := {| fq_qual := qual_set (fq_qual ms) ctx1 m'; fq_dflt := fq_dflt ms; fq_len := ls' |} in
        match fqz_dec_loop k' pr ms' st2 false (pos1 - 1) last_len1 ctx2 q_ctx2 b2 with
        | ROk out => ROk (q :: out)
        | e => e
        end
      | RErr => RErr
      | RPanic => RPanic
      end
    | RErr => RErr
    | RPanic => RPanic
    end
  end.

(* fqzcomp::decode *)
Definition fqz_decode (bs : list N) : fqzd_result :=
  match read_uint7 bs with
  | U7Ok size b0 =>
    match b0 with
    | ver :: gfl :: b1 =>
      if negb (ver =? 5) then FErr
      else if negb (gfl mod 8 =? 0) then FUnsupported       (* MULTI_PARAM | HAVE_S_TAB | DO_REV *)
      else
        match b1 with
        | c0 :: c1 :: pfl :: maxsym :: qq :: qs :: pd :: b2 =>
          (* DO_DEDUP 0x02, DO_SEL 0x08, HAVE_QMAP 0x10, HAVE_DTAB 0x40, HAVE_QTAB 0x80 *)
          if negb ((pfl / 2) mod 2 =? 0) || negb ((pfl / 8) mod 2 =? 0) || negb ((pfl / 16) mod 2 =? 0)
             || negb ((pfl / 64) mod 2 =? 0) || negb ((pfl / 128) mod 2 =? 0) then FUnsupported
          else
            match (if (pfl / 32) mod 2 =? 0 then Some (None, b2)
                   else match read_array b2 1024 with
                        | Some (t, r) => Some (Some t, r)
                        | None => None
                        end) with
            | None => FErr
            | Some (ptab, b3) =>
              let pr := {| p_context := c0 + 256 * c1; p_fixed_len := negb ((pfl / 4) mod 2 =? 0);
                           p_qbits := qq / 16; p_qshift := qq mod 16; p_qloc := qs / 16;
                           p_ploc := pd / 16; p_ptab := ptab |} in
              match rc_dec_new b3 with
              | None => FErr
              | Some (st, b4) =>
                match fqz_dec_loop (N.to_nat size) pr (fqz_models_new (S (N.to_nat maxsym))) st true
                                   0 0 0 0 b4 with
                | ROk out => FOk out
                | RErr => FErr
                | RPanic => FPanic
                end
              end
            end
        | _ => FErr
        end
    | _ => FErr
    end
  | _ => FErr
  end.
