(* CRAM 3.1 adaptive arithmetic coder, the decoder of NV.Cram.AacRle (every flag except EXT) made
   safe for HOSTILE size fields (see NV.Cram.Cap): RLE run lengths clamped before the conversion,
   the CAT payload and the STRIPE sub-streams split off under a guard, and every output size
   (coded data, unpacked output, STRIPE total) guarded by [cap].
   NV.Cram.AacCapProofs: aac_decode_rc equals aac_decode_r unless it says Capped. *)
From Coq Require Import List NArith Bool PeanoNat.
From NV Require Import Cram.Bytes Cram.Vlq Cram.Rans4x8 Cram.Nx16Xform Cram.Nx16O0 Cram.Nx16Full
  Cram.Nx16Stripe Cram.Aac Cram.AacModes Cram.AacRle Cram.Cap Cram.Nx16Cap.
Import ListNotations.
Open Scope N_scope.

(* `while let Some(d) = iter.next()` with `iter.by_ref().take(len)`: [k] = slots of dst left *)
Fixpoint dec_rle_loop_c (k : nat) (o1 : bool) (ms rs : list aac_model) (st : rc_dec) (prev : N)
  (bs : list N) : res (list N) :=
  match k with
  | O => ROk []
  | S k' =>
    match ctx_decode ms st (if o1 then prev else 0) bs with
    | ROk (ms', st1, sym, b1) =>
      match dec_run rs st1 b1 sym with
      | ROk (rs', st2, b2, len) =>
        let m := min_n_nat len k' in
        match dec_rle_loop_c (k' - m) o1 ms' rs' st2 sym b2 with
        | ROk out => ROk (sym :: repeat sym m ++ out)
        | e => e
        end
      | RErr => RErr
      | RPanic => RPanic
      end
    | RErr => RErr
    | RPanic => RPanic
    end
  end.

Definition aac_rle_decode_c (o1 : bool) (bs : list N) (len : nat) : res (list N) :=
  match bs with
  | [] => RErr
  | c :: r =>
    let n := if c =? 0 then 256%nat else N.to_nat c in      (* a byte *)
    let ms := if o1 then repeat (model_new n) n else [model_new n] in
    match rc_dec_new r with
    | None => RErr
    | Some (st, r') => dec_rle_loop_c len o1 ms rle_models0 st 0 r'
    end
  end.

(* aac::decode without STRIPE *)
Definition aac_decode2_c (cap : N) (bs : list N) (usize : N) : capped nxd_result :=
  match bs with
  | [] => Within DErr
  | fb :: r0 =>
    let f := flags_of_byte fb in
    match (if f_nosize f then U7Ok usize r0 else read_uint7 r0) with
    | U7Ok size0 r1 =>
      if f_stripe f then Within DUnsupported
      else
        match (if f_pack f then
                 match rd_pack_ctx r1 with
                 | Some (table, len, t) => Some (Some table, len, t)
                 | None => None
                 end
               else Some (None, size0, r1)) with
        | None => Within DErr
        | Some (pctx, size1, r2) =>
          let data : capped nxd_result :=
            if f_cat f then
              Within
                match split_off_n r2 size1 with
                | None => DErr
                | Some (payload, _) => DOk payload
                end
            else if f_n32 f then Within DUnsupported
            else
              with_cap cap size1 (fun n1 =>
                Within
                  match (if f_rle f then aac_rle_decode_c (f_order f) r2 n1
                         else if f_order f then aac_o1_decode r2 n1
                         else aac_o0_decode r2 n1) with
                  | ROk d => DOk d
                  | RErr => DErr
                  | RPanic => DPanic
                  end) in
          match data with
          | Within (DOk d) =>
            match pctx with
            | Some table => with_cap cap size0 (fun n0 => Within (pack_decode table d n0))
            | None => Within (DOk d)
            end
          | e => e
          end
        end
    | _ => Within DErr
    end
  end.

Fixpoint aac_decode_rfc (cap : N) (fuel : nat) (bs : list N) (usize : N) : capped nxd_result :=
  match fuel with
  | O => Within DErr
  | S fu =>
    match bs with
    | [] => Within DErr
    | fb :: r0 =>
      let f := flags_of_byte fb in
      if f_stripe f then
        match (if f_nosize f then U7Ok usize r0 else read_uint7 r0) with
        | U7Ok size0 r1 => stripe_decode_c cap (aac_decode_rfc cap fu) r1 size0
        | _ => Within DErr
        end
      else aac_decode2_c cap bs usize
    end
  end.

Definition aac_decode_rc (cap : N) (bs : list N) (usize : N) : capped nxd_result :=
  aac_decode_rfc cap (S (length bs)) bs usize.

(* what the correspondence check runs *)
Definition aac_decode_r_capped (bs : list N) (usize : N) : capped nxd_result :=
  aac_decode_rc model_cap bs usize.
