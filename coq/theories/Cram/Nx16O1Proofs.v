(* rANS Nx16 order 1: the interleaved loops.  For ANY table in which every pair the coder uses has a
   non-zero frequency (rows_ok): the encoder (remainder first, positions back to front, states last
   to first) terminates with all states in [2^15, 2^31), and noodles' decoder (positions front to
   back, states first to last, then the remainder with the last state) reads the rows and the
   remainder back -- any number n > 0 of states. *)
From Coq Require Import List NArith ZArith Lia Bool PeanoNat.
From Coq Require Import ZifyBool ZifyNat ZifyN.
From NV Require Import Cram.Bytes Cram.Vlq Cram.IntProofs Cram.Rans4x8 Cram.Rans4x8Proofs
  Cram.Rans4x8O1 Cram.Rans4x8O1Proofs Cram.Nx16O0 Cram.Nx16O0Proofs Cram.Nx16O1 Cram.Nx16O1Defs.
Import ListNotations.
Ltac Zify.zify_post_hook ::= Z.div_mod_to_equations.
Open Scope N_scope.
Arguments N.add : simpl never.
Arguments N.sub : simpl never.
Arguments N.mul : simpl never.
Arguments N.div : simpl never.
Arguments N.modulo : simpl never.
Arguments N.pow : simpl never.
Arguments N.ltb : simpl never.
Arguments N.leb : simpl never.
Arguments N.eqb : simpl never.

(* one symbol: renormalise + step, undone by one decoder step of the same state *)
Lemma enc16_put_spec F1 ctx x s stack :
  ok1 F1 ctx x -> state_ok16 s ->
  exists s' em,
    enc16_put F1 (map cumulative F1) ctx x s stack = Some (s', em ++ stack) /\ state_ok16 s' /\
    forall rest, dec_one 4096 (row F1 ctx) (row (map cumulative F1) ctx) s' (em ++ rest) = ROk (x, s, rest).
Proof.
  intros [Hsum [Hx Hf]] Hs. unfold enc16_put.
  set (F := row F1 ctx) in *. set (f := nth (N.to_nat x) F 0) in *.
  assert (Hf4096 : f <= 4096).
  { pose proof (sum_firstn_nth_le F _ Hx) as H. fold f in H. lia. }
  destruct (nx_renorm_inverse s f stack Hs Hf Hf4096) as [s1 [em [Hr [Hrd Hb]]]].
  rewrite Hr. rewrite row_map_cumulative. fold F.
  exists (enc_step s1 f (nth (N.to_nat x) (cumulative F) 0)), em.
  split; [reflexivity|]. split.
  - unfold state_ok16. rewrite cumulative_nth by exact Hx.
    apply nx_step_range; try lia.
    pose proof (sum_firstn_nth_le F _ Hx) as H. fold f in H. lia.
  - intros rest. unfold f. apply (dec_one_enc F x s1 em s rest Hsum Hx Hf Hb Hrd).
Qed.

(* the remainder, coded by the last state *)
Lemma enc16_tail_spec F1 : forall l ctx,
  chain (ok1 F1) ctx l ->
  exists s stack,
    enc16_tail F1 (map cumulative F1) ctx l = Some (s, stack) /\ state_ok16 s /\
    forall rest, dec16_tail (length l) 4096 F1 (map cumulative F1) ctx s (stack ++ rest) = ROk l.
Proof.
  induction l as [|x r IH]; intros ctx Hc.
  - exists NX_LOWER, []. split; [reflexivity|]. split; [unfold state_ok16, NX_LOWER; lia|].
    intros rest. reflexivity.
  - destruct Hc as [Hok Hc]. destruct (IH x Hc) as [s [stack [He [Hs Hd]]]].
    destruct (enc16_put_spec F1 ctx x s stack Hok Hs) as [s' [em [Hp [Hs' Hone]]]].
    exists s', (em ++ stack). split; [cbn [enc16_tail]; rewrite He; exact Hp|]. split; [exact Hs'|].
    intros rest. cbn [length dec16_tail]. rewrite <- app_assoc. rewrite Hone. rewrite Hd. reflexivity.
Qed.

(* one position of all chunks *)
Lemma enc16_row_spec F1 : forall K xs St stack,
  Forall2 (ok1 F1) K xs -> length St = length K -> Forall state_ok16 St ->
  exists St' em,
    enc16_row F1 (map cumulative F1) K xs St stack = Some (St', em ++ stack) /\
    length St' = length K /\ Forall state_ok16 St' /\
    forall rest, dec16_row 4096 F1 (map cumulative F1) K St' (em ++ rest) = ROk (xs, St, rest).
Proof.
  induction K as [|k K IH]; intros xs St stack Hok Hlen Hst.
  - inversion Hok; subst. destruct St; [|discriminate Hlen].
    exists [], []. split; [reflexivity|]. split; [reflexivity|]. split; [constructor|].
    intros rest. reflexivity.
  - inversion Hok as [|? x ? xs' Hk Hrest]; subst.
    destruct St as [|s St0]; [discriminate Hlen|]. cbn [length] in Hlen.
    inversion Hst as [|? ? Hs Hst0]; subst.
    destruct (IH xs' St0 stack Hrest ltac:(lia) Hst0) as [St1 [em1 [He [Hl1 [Hok1 Hd1]]]]].
    destruct (enc16_put_spec F1 k x s (em1 ++ stack) Hk Hs) as [s' [em [Hp [Hs' Hone]]]].
    exists (s' :: St1), (em ++ em1). split.
    { cbn [enc16_row]. rewrite He, Hp. rewrite <- app_assoc. reflexivity. }
    split; [cbn [length]; lia|]. split; [constructor; assumption|].
    intros rest. cbn [dec16_row]. rewrite <- app_assoc. rewrite Hone. rewrite Hd1. reflexivity.
Qed.

Lemma Forall2_length_eq {A B} (P : A -> B -> Prop) : forall l1 l2, Forall2 P l1 l2 -> length l1 = length l2.
Proof. induction 1; cbn [length]; congruence. Qed.

Lemma last_app_single {A} (l : list A) (x d : A) : last (l ++ [x]) d = x.
Proof. apply last_last. Qed.

(* all positions and the remainder *)
Theorem nx_o1_core_roundtrip F1 n : (0 < n)%nat -> forall rows K rem,
  length K = n -> rows_ok F1 K rows rem ->
  exists St stack,
    enc16_rows n F1 (map cumulative F1) K rows rem = Some (St, stack) /\
    length St = n /\ Forall state_ok16 St /\
    forall rest, exists K' St' b3,
      dec16_rows (length rows) 4096 F1 (map cumulative F1) K St (stack ++ rest) = ROk (rows, K', St', b3) /\
      dec16_tail (length rem) 4096 F1 (map cumulative F1) (last K' 0) (last St' 0) b3 = ROk rem.
Proof.
  intros Hn. induction rows as [|r rest IH]; intros K rem HK Hok.
  - cbn [rows_ok] in Hok. destruct (enc16_tail_spec F1 rem (last K 0) Hok) as [s [stack [He [Hs Hd]]]].
    exists (repeat NX_LOWER (n - 1) ++ [s]), stack.
    split; [cbn [enc16_rows]; rewrite He; reflexivity|].
    split; [rewrite app_length, repeat_length; cbn [length]; lia|].
    split.
    { apply Forall_app. split; [|constructor; [exact Hs|constructor]].
      apply Forall_forall. intros y Hy. apply repeat_spec in Hy. subst y. unfold state_ok16, NX_LOWER. lia. }
    intros rest'. exists K, (repeat NX_LOWER (n - 1) ++ [s]), (stack ++ rest').
    split; [reflexivity|]. rewrite last_app_single. apply Hd.
  - cbn [rows_ok] in Hok. destruct Hok as [Hrow Hrest].
    pose proof (Forall2_length_eq _ _ _ Hrow) as Hlr.
    destruct (IH r rem ltac:(lia) Hrest) as [St [stack [He [Hl [Hst Hd]]]]].
    destruct (enc16_row_spec F1 K r St stack Hrow ltac:(lia) Hst) as [St' [em [Her [Hl' [Hst' Hdr]]]]].
    exists St', (em ++ stack). split; [cbn [enc16_rows]; rewrite He; exact Her|].
    split; [lia|]. split; [exact Hst'|].
    intros rest'. destruct (Hd rest') as [K' [St2 [b3 [Hd1 Hd2]]]].
    exists K', St2, b3. split; [|exact Hd2].
    cbn [length dec16_rows]. rewrite <- app_assoc. rewrite Hdr. rewrite Hd1. reflexivity.
Qed.
