(* TOTALITY of the adaptive arithmetic coder model (order 0): on EVERY byte string the model of
   noodles' aac order-0 decoder (NV.Cram.Aac.aac_o0_decode) and of the whole-stream decoder
   (aac_decode: flag byte, sizes, PACK, CAT, order 0) answers bytes, an io::Error or "unsupported".
   The panics of an overflow-checked build that the model writes out -- division by zero
   (total = 0, range / total = 0), table index out of range, u32 overflow of acc * r and r * f,
   underflow of code - acc * r -- are unreachable.

   Shape of the argument:
     model   the table has at most 256 entries, its frequencies add up to the recorded total, and
             1 <= total <= 65535 (the +16 happens below 65520; the halving f - f/2 keeps at least
             half and at most (total + 256) / 2);
     search  with freq < total the search stops inside the table at acc <= freq < acc + f,
             acc + f <= total;
     coder   2^24 <= range < 2^32 and code < 2^32 at every symbol; r = range / total >= 256;
             acc * r <= freq * r <= code, r * f <= r * total <= range; the renormalisation (fuel 4)
             brings any range >= 256 back above 2^24 without leaving u32;
     input   every reader hands on a suffix of its input, so the rest is still bytes. *)
From Coq Require Import List NArith ZArith Lia Bool PeanoNat.
From Coq Require Import ZifyBool ZifyNat ZifyN.
From NV Require Import Cram.Bytes Cram.Vlq Cram.IntProofs Cram.Rans4x8 Cram.Rans4x8Proofs
  Cram.Nx16Xform Cram.Nx16XformProofs Cram.Nx16O0 Cram.Nx16O0Total Cram.Aac.
Import ListNotations.
Ltac Zify.zify_post_hook ::= Z.div_mod_to_equations.
Open Scope N_scope.
Arguments N.add : simpl never.
Arguments N.sub : simpl never.
Arguments N.mul : simpl never.
Arguments N.div : simpl never.
Arguments N.modulo : simpl never.
Arguments N.pow : simpl never.
Arguments N.ltb : simpl never.
Arguments N.leb : simpl never.
Arguments N.eqb : simpl never.

Notation byte := (fun b : N => b < 256).

(* ---------- the invariants ---------- *)

Definition model_ok (m : aac_model) : Prop :=
  (length (m_tab m) <= 256)%nat /\ tab_total (m_tab m) = m_tot m /\ 1 <= m_tot m /\ m_tot m <= 65535.

Definition rc_ok (st : rc_dec) : Prop :=
  16777216 <= d_range st /\ d_range st <= 4294967295 /\ d_code st < 4294967296.

(* ---------- the table operations ---------- *)

Lemma tab_total_nil : tab_total [] = 0.
Proof. reflexivity. Qed.

Lemma tab_total_cons p l : tab_total (p :: l) = snd p + tab_total l.
Proof. reflexivity. Qed.

Lemma tab_add16_length : forall l x, length (tab_add16 l x) = length l.
Proof.
  induction l as [|[s f] r IH]; intros x; [destruct x; reflexivity|].
  destruct x as [|x']; cbn [tab_add16 length]; [reflexivity|]. rewrite IH. reflexivity.
Qed.

Lemma tab_add16_total : forall l x,
  (x < length l)%nat -> tab_total (tab_add16 l x) = tab_total l + 16.
Proof.
  induction l as [|[s f] r IH]; intros x Hx; cbn [length] in Hx; [lia|].
  destruct x as [|x']; cbn [tab_add16]; rewrite !tab_total_cons; cbn [snd]; [lia|].
  rewrite IH by lia. lia.
Qed.

Lemma tab_halve_length l : length (tab_halve l) = length l.
Proof. unfold tab_halve. apply map_length. Qed.

Lemma tab_halve_total : forall l,
  tab_total l <= 2 * tab_total (tab_halve l) /\
  2 * tab_total (tab_halve l) <= tab_total l + N.of_nat (length l).
Proof.
  induction l as [|p r IH].
  - change (tab_halve []) with (@nil (N * N)). rewrite tab_total_nil. cbn [length]. lia.
  - change (tab_halve (p :: r)) with ((fst p, snd p - snd p / 2) :: tab_halve r).
    rewrite !tab_total_cons. cbn [snd length]. destruct IH as [IH1 IH2]. lia.
Qed.

Lemma tab_swap_nil x : tab_swap [] x = [].
Proof. destruct x as [|[|x]]; reflexivity. Qed.

Lemma tab_swap_0 l : tab_swap l 0 = l.
Proof. destruct l as [|a [|b r]]; reflexivity. Qed.

Lemma tab_swap_1 a b r : tab_swap (a :: b :: r) 1 = if snd a <? snd b then b :: a :: r else a :: b :: r.
Proof. reflexivity. Qed.

Lemma tab_swap_SS a r x : tab_swap (a :: r) (S (S x)) = a :: tab_swap r (S x).
Proof. destruct r as [|b r']; reflexivity. Qed.

Lemma tab_swap_length : forall l x, length (tab_swap l x) = length l.
Proof.
  induction l as [|a r IH]; intros x; [rewrite tab_swap_nil; reflexivity|].
  destruct x as [|[|x]].
  - rewrite tab_swap_0. reflexivity.
  - destruct r as [|b r']; [reflexivity|]. rewrite tab_swap_1.
    destruct (snd a <? snd b); reflexivity.
  - rewrite tab_swap_SS. cbn [length]. rewrite IH. reflexivity.
Qed.

Lemma tab_swap_total : forall l x, tab_total (tab_swap l x) = tab_total l.
Proof.
  induction l as [|a r IH]; intros x; [rewrite tab_swap_nil; reflexivity|].
  destruct x as [|[|x]].
  - rewrite tab_swap_0. reflexivity.
  - destruct r as [|b r']; [reflexivity|]. rewrite tab_swap_1.
    destruct (snd a <? snd b); [|reflexivity]. rewrite !tab_total_cons. lia.
  - rewrite tab_swap_SS. rewrite !tab_total_cons. rewrite IH. reflexivity.
Qed.

(* ---------- the model ---------- *)

Lemma model_new_total : forall n s,
  tab_total (map (fun i => (N.of_nat i, 1)) (seq s n)) = N.of_nat n.
Proof.
  induction n as [|n IH]; intros s; [reflexivity|].
  cbn [seq map]. rewrite tab_total_cons, IH. cbn [snd]. lia.
Qed.

Lemma model_new_ok n : (1 <= n <= 256)%nat -> model_ok (model_new n).
Proof.
  intros Hn. unfold model_ok, model_new. cbn [m_tab m_tot].
  rewrite map_length, seq_length, model_new_total. lia.
Qed.

Lemma model_update_ok m x :
  model_ok m -> (x < length (m_tab m))%nat -> model_ok (model_update m x).
Proof.
  intros (HL & HT & HT1 & HT2) Hx. unfold model_update, model_ok.
  pose proof (tab_add16_total _ _ Hx) as Ha.
  pose proof (tab_add16_length (m_tab m) x) as Hal.
  destruct (65519 <? m_tot m + 16) eqn:E; cbn [m_tab m_tot].
  - rewrite tab_swap_length, tab_swap_total, tab_halve_length, Hal.
    destruct (tab_halve_total (tab_add16 (m_tab m) x)) as [Hh1 Hh2]. rewrite Hal in Hh2.
    split; [exact HL|]. split; [reflexivity|]. lia.
  - rewrite tab_swap_length, tab_swap_total, Hal.
    split; [exact HL|]. split; [lia|]. lia.
Qed.

(* ---------- the symbol search ---------- *)

Lemma find_freq_ok : forall l freq x0 acc0,
  acc0 <= freq -> freq < acc0 + tab_total l ->
  exists x acc fq sy, find_freq l freq x0 acc0 = Some (x, acc, fq, sy) /\
    (x < x0 + length l)%nat /\ acc <= freq /\ freq < acc + fq /\ acc + fq <= acc0 + tab_total l.
Proof.
  induction l as [|[s f] r IH]; intros freq x0 acc0 H1 H2.
  - rewrite tab_total_nil in H2. lia.
  - rewrite tab_total_cons in H2. rewrite tab_total_cons. cbn [snd] in H2. cbn [snd find_freq length].
    destruct (acc0 + f <=? freq) eqn:E.
    + destruct (IH freq (S x0) (acc0 + f)) as (x & acc & f' & s' & HE & Hx & Ha & Hf & Ht);
        [lia|lia|].
      exists x, acc, f', s'. rewrite HE. repeat split; lia.
    + exists x0, acc0, f, s. repeat split; lia.
Qed.

(* ---------- the range decoder ---------- *)

Lemma rc_dec_new_ok bs st r :
  Forall byte bs -> rc_dec_new bs = Some (st, r) -> rc_ok st /\ Forall byte r.
Proof.
  intros HP H. destruct bs as [|b [|b0 [|b1 [|b2 [|b3 t]]]]]; try discriminate.
  cbn [rc_dec_new] in H. inversion H; subst.
  pose proof (Forall_inv_tail HP) as T.
  pose proof (Forall_inv T) as H0. pose proof (Forall_inv_tail T) as T0.
  pose proof (Forall_inv T0) as H1. pose proof (Forall_inv_tail T0) as T1.
  pose proof (Forall_inv T1) as H2. pose proof (Forall_inv_tail T1) as T2.
  pose proof (Forall_inv T2) as H3. pose proof (Forall_inv_tail T2) as T3.
  cbv beta in H0, H1, H2, H3. unfold rc_ok, U32MAX. cbn [d_range d_code].
  split; [lia|exact T3].
Qed.

Fixpoint p256 (n : nat) : N := match n with O => 1 | S k => 256 * p256 k end.

Lemma p256_0 : p256 0 = 1.
Proof. reflexivity. Qed.

Lemma p256_S k : p256 (S k) = 256 * p256 k.
Proof. reflexivity. Qed.

(* with enough fuel (range * 256^fuel >= 2^24) the loop ends above 2^24, inside u32 *)
Lemma dec_normalize_rc_ok : forall fuel st bs st' bs',
  d_range st <= 4294967295 -> d_code st < 4294967296 -> Forall byte bs ->
  16777216 <= d_range st * p256 fuel ->
  dec_normalize_rc fuel st bs = Some (st', bs') ->
  rc_ok st' /\ Forall byte bs'.
Proof.
  induction fuel as [|fu IH]; intros st bs st' bs' HR HC HP Hp H; cbn [dec_normalize_rc] in H.
  - inversion H; subst. rewrite p256_0 in Hp. unfold rc_ok. split; [lia|exact HP].
  - destruct (d_range st <? TOP) eqn:E; unfold TOP in E.
    + destruct bs as [|b r]; [discriminate|].
      pose proof (Forall_inv HP) as Hb. cbv beta in Hb.
      assert (Hsm : (d_range st * 256) mod TWO32 = d_range st * 256)
        by (apply N.mod_small; unfold TWO32; lia).
      eapply IH; [| | | |exact H]; cbn [d_range d_code].
      * rewrite Hsm. lia.
      * unfold TWO32. lia.
      * exact (Forall_inv_tail HP).
      * rewrite Hsm. rewrite p256_S in Hp. rewrite <- N.mul_assoc. exact Hp.
    + inversion H; subst. unfold rc_ok. split; [lia|exact HP].
Qed.

Lemma rc_r_ge R T : 16777216 <= R -> 1 <= T -> T <= 65535 -> 256 <= R / T.
Proof. intros HR HT1 HT2. apply N.div_le_lower_bound; lia. Qed.

Lemma rc_arith R C T acc f freq :
  16777216 <= R -> 1 <= T -> T <= 65535 ->
  freq = C / (R / T) -> acc <= freq -> freq < acc + f -> acc + f <= T ->
  acc * (R / T) <= C /\ (R / T) * f <= R /\ 256 <= (R / T) * f.
Proof.
  intros HR1 HT1 HT2 Hfreq Ha Hf Ht.
  assert (Hr : 256 <= R / T) by (apply rc_r_ge; assumption).
  assert (H2 : T * (R / T) <= R) by (apply N.mul_div_le; lia).
  set (r := R / T) in *.
  assert (H1 : r * freq <= C) by (rewrite Hfreq; apply N.mul_div_le; lia).
  assert (H3 : acc * r <= freq * r) by (apply N.mul_le_mono_r; exact Ha).
  assert (H4 : r * f <= r * T) by (apply N.mul_le_mono_l; lia).
  assert (H5 : r * 1 <= r * f) by (apply N.mul_le_mono_l; lia).
  clearbody r. clear Hfreq.
  repeat split; lia.
Qed.

(* ---------- one symbol ---------- *)

Lemma model_decode_ok m st bs :
  model_ok m -> rc_ok st -> Forall byte bs ->
  model_decode m st bs <> RPanic /\
  forall m' st' sym bs', model_decode m st bs = ROk (m', st', sym, bs') ->
    model_ok m' /\ rc_ok st' /\ Forall byte bs'.
Proof.
  intros Hm Hst HP. pose proof Hm as Hm0. destruct Hm0 as (HL & HT & HT1 & HT2).
  destruct Hst as (HR1 & HR2 & HC).
  unfold model_decode. cbv zeta.
  destruct (m_tot m =? 0) eqn:E0; [exfalso; lia|].
  pose proof (rc_r_ge (d_range st) (m_tot m) HR1 HT1 HT2) as Hr.
  set (r := d_range st / m_tot m) in *.
  destruct (r =? 0) eqn:Er; [exfalso; lia|].
  set (freq := d_code st / r).
  destruct (m_tot m <=? freq) eqn:EF.
  { split; [discriminate|]. intros m' st' sym bs' H. discriminate. }
  destruct (find_freq_ok (m_tab m) freq 0 0) as (x & acc & f & sym & HE & Hx & Ha & Hf & Htt);
    [lia|rewrite HT; lia|].
  rewrite HE. rewrite HT in Htt.
  assert (Htt' : acc + f <= m_tot m) by lia.
  destruct (rc_arith (d_range st) (d_code st) (m_tot m) acc f freq HR1 HT1 HT2 eq_refl Ha Hf Htt')
    as (A1 & A2 & A3).
  fold r in A1, A2, A3.
  clearbody freq. clearbody r.
  unfold TWO32.
  destruct ((4294967296 <=? acc * r) || (d_code st <? acc * r) || (4294967296 <=? r * f)) eqn:EO;
    [exfalso; lia|].
  destruct (dec_normalize_rc 4 {| d_range := r * f; d_code := d_code st - acc * r |} bs)
    as [[st1 bs1]|] eqn:EN.
  - split; [discriminate|]. intros m' st' sym' bs' H. inversion H; subst m' st' sym' bs'.
    split; [apply model_update_ok; [exact Hm|lia]|].
    eapply dec_normalize_rc_ok; [| | | |exact EN]; cbn [d_range d_code p256]; [lia|lia|exact HP|lia].
  - split; [discriminate|]. intros m' st' sym' bs' H. discriminate.
Qed.

(* ---------- the symbol loop ---------- *)

Lemma dec0_loop_never_panics : forall k m st bs,
  model_ok m -> rc_ok st -> Forall byte bs -> dec0_loop k m st bs <> RPanic.
Proof.
  induction k as [|k IH]; intros m st bs Hm Hst HP; cbn [dec0_loop]; [discriminate|].
  destruct (model_decode_ok m st bs Hm Hst HP) as [Hnp Hok].
  destruct (model_decode m st bs) as [[[[m' st'] sym] bs']| |] eqn:E.
  - destruct (Hok m' st' sym bs' eq_refl) as (Hm' & Hst' & HP').
    pose proof (IH m' st' bs' Hm' Hst' HP') as Hnp2.
    destruct (dec0_loop k m' st' bs'); [discriminate|discriminate|exact Hnp2].
  - discriminate.
  - exfalso. apply Hnp. reflexivity.
Qed.

(* ---------- the order-0 decoder ---------- *)

(* For EVERY byte string and output length the model of noodles' adaptive arithmetic order-0
   decoder returns bytes or an io::Error: no division by zero, no table index out of range, no u32
   overflow or underflow in range_get_freq / range_decode. *)
Theorem aac_o0_decode_never_panics : forall bs len,
  Forall (fun b => b < 256) bs -> aac_o0_decode bs len <> RPanic.
Proof.
  intros bs len HP. unfold aac_o0_decode. destruct bs as [|c r]; [discriminate|]. cbv zeta.
  pose proof (Forall_inv HP) as Hc. cbv beta in Hc. pose proof (Forall_inv_tail HP) as HPr.
  destruct (rc_dec_new r) as [[st r']|] eqn:E; [|discriminate].
  destruct (rc_dec_new_ok _ _ _ HPr E) as [Hst HPr'].
  apply dec0_loop_never_panics; [|exact Hst|exact HPr'].
  apply model_new_ok. destruct (c =? 0) eqn:E0; lia.
Qed.

(* ---------- whole streams ---------- *)

(* For EVERY byte string and caller size the model of aac::decode returns bytes, an io::Error or
   "unsupported" (ORDER 1, RLE, STRIPE, EXT are not modelled). *)
Theorem aac_decode_never_panics : forall bs usize,
  Forall (fun b => b < 256) bs -> aac_decode bs usize <> DPanic.
Proof.
  intros bs usize HP. unfold aac_decode. destruct bs as [|fb r0]; [discriminate|].
  pose proof (Forall_inv_tail HP) as HP0. cbv zeta.
  set (f := flags_of_byte fb). clearbody f.
  destruct (if f_nosize f then U7Ok usize r0 else read_uint7 r0) as [size0 r1| |] eqn:E1;
    try discriminate.
  assert (HP1 : Forall byte r1).
  { destruct (f_nosize f).
    - inversion E1; subst. exact HP0.
    - eapply read_uint7_rest; [exact E1|exact HP0]. }
  destruct (f_stripe f); [discriminate|].
  match goal with
  | |- match ?X with Some _ => _ | None => _ end <> _ =>
    destruct X as [[[pctx size1] r2]|] eqn:E2; [|discriminate]
  end.
  assert (HP2 : Forall byte r2).
  { destruct (f_pack f).
    - destruct r1 as [|c t]; [discriminate|].
      destruct (c =? 0); [discriminate|].
      destruct (split_off t (N.to_nat c)) as [[table t1]|] eqn:ES; [|discriminate].
      destruct (read_uint7 t1) as [len t2| |] eqn:EU; try discriminate.
      inversion E2; subst.
      eapply read_uint7_rest; [exact EU|].
      exact (proj2 (split_off_rest _ _ _ _ _ ES (Forall_inv_tail HP1))).
    - inversion E2; subst. exact HP1. }
  destruct (f_cat f).
  - destruct (split_off r2 (N.to_nat size1)) as [[payload rest]|]; [|discriminate].
    destruct pctx as [table|]; [apply pack_decode_never_panics|discriminate].
  - destruct (f_n32 f || f_rle f || f_order f); [discriminate|].
    pose proof (aac_o0_decode_never_panics r2 (N.to_nat size1) HP2) as Hnp.
    destruct (aac_o0_decode r2 (N.to_nat size1)) as [d| |].
    + destruct pctx as [table|]; [apply pack_decode_never_panics|discriminate].
    + discriminate.
    + contradiction.
Qed.

Print Assumptions aac_o0_decode_never_panics.
Print Assumptions aac_decode_never_panics.
