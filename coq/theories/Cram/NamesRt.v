(* CRAM 3.1 name tokenizer (model: NV.Cram.Names): decode (encode x) = x.

   (b) token level    dec_digits_spec, pad_spec (number formatting), rt_* (read_token on a column
                      reader), classify_step, enc_tok_step
   (c) stream level   dec_stream_step, dec_type_step, dec_col, dec_cols
   (d) name level     name_go_spec, loop_spec
   result             names_roundtrip_partial / names_roundtrip                                   *)
From Coq Require Import List NArith ZArith Lia Bool PeanoNat Arith.
From Coq Require Import ZifyBool ZifyNat ZifyN.
From NV Require Import Cram.Bytes Cram.Vlq Cram.IntProofs Cram.Nx16Xform Cram.Nx16Full Cram.NamesTotal
  Cram.Nx16FullProofs Cram.Nx16Stripe Cram.Names Cram.NamesProofs.
Import ListNotations.
Ltac Zify.zify_post_hook ::= Z.div_mod_to_equations.
Open Scope N_scope.
Arguments N.add : simpl never.
Arguments N.sub : simpl never.
Arguments N.mul : simpl never.
Arguments N.div : simpl never.
Arguments N.modulo : simpl never.
Arguments N.pow : simpl never.
Arguments N.ltb : simpl never.
Arguments N.leb : simpl never.
Arguments N.eqb : simpl never.
Arguments N.of_nat : simpl never.
Arguments N.to_nat : simpl never.

(* ------------------------------------------------------------------------------------------ *)
(* little-endian u32                                                                            *)

Lemma take_le32_le32 n rest : n < 4294967296 -> take_le32 (le32_bytes n ++ rest) = Some (n, rest).
Proof.
  intros H. unfold le32_bytes, take_le32. cbn [app]. f_equal. f_equal. lia.
Qed.

(* ------------------------------------------------------------------------------------------ *)
(* (b) numbers: format (parse t) = t                                                            *)

Definition all_digits (t : list N) : Prop := Forall (fun b => nm_is_digit b = true) t.

Lemma digits_val_snoc : forall t b acc,
  digits_val (t ++ [b]) acc =
  match digits_val t acc with
  | Some v =>
    if nm_is_digit b then
      (if u32_limit <=? v * 10 + (b - 48) then None else Some (v * 10 + (b - 48)))
    else None
  | None => None
  end.
Proof.
  induction t as [|a t IH]; intros b acc; cbn [app digits_val].
  - destruct (nm_is_digit b); [|reflexivity].
    destruct (u32_limit <=? acc * 10 + (b - 48)); reflexivity.
  - destruct (nm_is_digit a); [|reflexivity].
    destruct (u32_limit <=? acc * 10 + (a - 48)); [reflexivity|]. apply IH.
Qed.

Lemma digits_val_all : forall t acc v, digits_val t acc = Some v -> all_digits t.
Proof.
  induction t as [|a t IH]; intros acc v H; [constructor|].
  cbn [digits_val] in H. destruct (nm_is_digit a) eqn:Ea; [|discriminate H].
  destruct (u32_limit <=? acc * 10 + (a - 48)); [discriminate H|].
  constructor; [exact Ea|]. exact (IH _ _ H).
Qed.

Lemma digits_val_ge : forall t acc v, digits_val t acc = Some v -> acc <= v.
Proof.
  induction t as [|a t IH]; intros acc v H; cbn [digits_val] in H.
  - injection H as H. lia.
  - destruct (nm_is_digit a) eqn:Ea; [|discriminate H].
    destruct (u32_limit <=? acc * 10 + (a - 48)); [discriminate H|].
    specialize (IH _ _ H). lia.
Qed.

Lemma digits_val_lt : forall t acc v, digits_val t acc = Some v -> acc < u32_limit -> v < u32_limit.
Proof.
  induction t as [|a t IH]; intros acc v H Ha; cbn [digits_val] in H.
  - injection H as H. lia.
  - destruct (nm_is_digit a) eqn:Ea; [|discriminate H].
    destruct (u32_limit <=? acc * 10 + (a - 48)) eqn:El; [discriminate H|].
    apply (IH _ _ H). lia.
Qed.

Lemma digits_val_pos : forall c t v, starts_with_0 (c :: t) = false ->
  digits_val (c :: t) 0 = Some v -> 1 <= v.
Proof.
  intros c t v Hs H. cbn [starts_with_0] in Hs. cbn [digits_val] in H.
  destruct (nm_is_digit c) eqn:Ec; [|discriminate H].
  destruct (u32_limit <=? 0 * 10 + (c - 48)); [discriminate H|].
  apply digits_val_ge in H. unfold nm_is_digit in Ec. lia.
Qed.

Lemma dec_go_S f n acc :
  dec_go (S f) n acc =
  if n / 10 =? 0 then (48 + n mod 10) :: acc else dec_go f (n / 10) ((48 + n mod 10) :: acc).
Proof. reflexivity. Qed.

Lemma dec_go_spec : forall t n, t <> [] -> starts_with_0 t = false -> digits_val t 0 = Some n ->
  forall fuel acc, (1 <= fuel)%nat -> n < 10 ^ N.of_nat fuel -> dec_go fuel n acc = t ++ acc.
Proof.
  induction t as [|b t' IH] using rev_ind; intros n Hne Hs0 Hv fuel acc Hf Hn; [contradiction|].
  rewrite digits_val_snoc in Hv.
  destruct (digits_val t' 0) as [v|] eqn:Ev; [|discriminate Hv].
  destruct (nm_is_digit b) eqn:Eb; [|discriminate Hv].
  destruct (u32_limit <=? v * 10 + (b - 48)) eqn:El; [discriminate Hv|].
  injection Hv as Hv.
  destruct fuel as [|f]; [lia|].
  assert (Hpow : 10 ^ N.of_nat (S f) = 10 * 10 ^ N.of_nat f).
  { rewrite Nnat.Nat2N.inj_succ. rewrite N.pow_succ_r'. reflexivity. }
  rewrite Hpow in Hn.
  unfold nm_is_digit in Eb.
  assert (Hmod : n mod 10 = b - 48) by lia.
  assert (Hdiv : n / 10 = v) by lia.
  rewrite dec_go_S. rewrite Hmod, Hdiv.
  replace (48 + (b - 48)) with b by lia.
  destruct t' as [|c t''].
  - cbn [digits_val] in Ev. injection Ev as Ev. subst v.
    change (0 =? 0) with true. reflexivity.
  - assert (Hs0' : starts_with_0 (c :: t'') = false) by exact Hs0.
    assert (Hv1 : 1 <= v) by exact (digits_val_pos _ _ _ Hs0' Ev).
    destruct (N.eqb_spec v 0) as [Hz|Hz]; [lia|].
    assert (Hf1 : (1 <= f)%nat).
    { destruct f as [|f']; [|lia]. change (10 ^ N.of_nat 0) with 1 in Hn. lia. }
    rewrite (IH v ltac:(discriminate) Hs0' eq_refl f (b :: acc) Hf1 ltac:(lia)).
    rewrite <- app_assoc. reflexivity.
Qed.

(* Digits: no leading zero *)
Theorem dec_digits_spec : forall t n, t <> [] -> starts_with_0 t = false ->
  digits_val t 0 = Some n -> dec_digits n = t.
Proof.
  intros t n Hne Hs Hv. unfold dec_digits.
  assert (Hlt : n < u32_limit) by (apply (digits_val_lt _ _ _ Hv); reflexivity).
  rewrite (dec_go_spec t n Hne Hs Hv 10 []); [apply app_nil_r|lia|].
  change (10 ^ N.of_nat 10) with 10000000000. unfold u32_limit in Hlt. lia.
Qed.

Lemma digits_val_zero r : digits_val (48 :: r) 0 = digits_val r 0.
Proof. reflexivity. Qed.

(* PaddedDigits: "{:0l$}" with l = the length of the raw token *)
Theorem pad_spec : forall t n, t <> [] -> digits_val t 0 = Some n ->
  repeat 48 (length t - length (dec_digits n)) ++ dec_digits n = t.
Proof.
  induction t as [|b r IH]; intros n Hne Hv; [contradiction|].
  destruct (N.eqb_spec b 48) as [Hb|Hb].
  - subst b. rewrite digits_val_zero in Hv. destruct r as [|c r'].
    + cbn [digits_val] in Hv. injection Hv as Hv. subst n. reflexivity.
    + remember (c :: r') as r eqn:Er.
      specialize (IH n ltac:(subst r; discriminate) Hv).
      assert (Hl : (length (dec_digits n) <= length r)%nat).
      { apply (f_equal (@length N)) in IH. rewrite app_length, repeat_length in IH. lia. }
      cbn [length]. rewrite (Nat.sub_succ_l _ _ Hl).
      cbn [repeat app]. f_equal. exact IH.
  - assert (Hs : starts_with_0 (b :: r) = false).
    { cbn [starts_with_0]. apply N.eqb_neq. exact Hb. }
    rewrite (dec_digits_spec _ _ Hne Hs Hv). rewrite Nat.sub_diag. reflexivity.
Qed.

(* ------------------------------------------------------------------------------------------ *)
(* (b) tokens: the reader of a column                                                           *)

(* the TokenReader the decoder builds for the column [c] (what is left of it) *)
Definition rd (c : list etoken) : treader :=
  mkR (map tok_type c) false (flat_map st_string c) (flat_map st_char c) (flat_map st_digits0 c)
      (flat_map st_dzlen c) (flat_map st_dup c) (flat_map st_diff c) (flat_map st_digits c)
      (flat_map st_delta c) (flat_map st_delta0 c).

Lemma rd_cons t c :
  rd (t :: c) =
  mkR (tok_type t :: map tok_type c) false (st_string t ++ flat_map st_string c)
      (st_char t ++ flat_map st_char c) (st_digits0 t ++ flat_map st_digits0 c)
      (st_dzlen t ++ flat_map st_dzlen c) (st_dup t ++ flat_map st_dup c)
      (st_diff t ++ flat_map st_diff c) (st_digits t ++ flat_map st_digits c)
      (st_delta t ++ flat_map st_delta c) (st_delta0 t ++ flat_map st_delta0 c).
Proof. reflexivity. Qed.

Definition nonul (s : list N) : Prop := Forall (fun b => b <> 0) s.

Lemma read_until_nul_spec : forall s rest, nonul s ->
  read_until_nul (s ++ 0 :: rest) = (s ++ [0], rest).
Proof.
  induction s as [|b s IH]; intros rest Hs; cbn [app read_until_nul].
  - reflexivity.
  - inversion Hs as [|x y Hb Hs']; subst.
    destruct (N.eqb_spec b 0) as [E|E]; [contradiction|].
    rewrite (IH rest Hs'). reflexivity.
Qed.

Lemma read_token_1 tys i s c d e f g h j k prev :
  read_token (mkR (1 :: tys) i s c d e f g h j k) prev =
  let '(buf, t) := read_until_nul s in
  Some (mkR tys i t c d e f g h j k, Some (DString (removelast buf))).
Proof. reflexivity. Qed.

Lemma read_token_7 tys i s c d e f g h j k prev :
  read_token (mkR (7 :: tys) i s c d e f g h j k) prev =
  match take_le32 h with
  | Some (v, t) => Some (mkR tys i s c d e f g t j k, Some (DDigits v))
  | None => None
  end.
Proof. reflexivity. Qed.

Lemma read_token_3 tys i s c d e f g h j k prev :
  read_token (mkR (3 :: tys) i s c d e f g h j k) prev =
  match take_le32 d with
  | Some (v, t) =>
    match take_u8 e with
    | Some (l, t2) => Some (mkR tys i s c t t2 f g h j k, Some (DPadded v l))
    | None => None
    end
  | None => None
  end.
Proof. reflexivity. Qed.

Lemma read_token_8 tys i s c d e f g h j k delta n :
  read_token (mkR (8 :: tys) i s c d e f g h (delta :: j) k) (Some (DDigits n)) =
  if u32_limit <=? n + delta then None
  else Some (mkR tys i s c d e f g h j k, Some (DDigits (n + delta))).
Proof. reflexivity. Qed.

Lemma read_token_9 tys i s c d e f g h j k delta n w :
  read_token (mkR (9 :: tys) i s c d e f g h j (delta :: k)) (Some (DPadded n w)) =
  if u32_limit <=? n + delta then None
  else Some (mkR tys i s c d e f g h j k, Some (DPadded (n + delta) w)).
Proof. reflexivity. Qed.

Ltac rd_open :=
  rewrite rd_cons;
  cbn [tok_type st_string st_char st_digits0 st_dzlen st_dup st_diff st_digits st_delta st_delta0 app].

Lemma rt_end c prev : read_token (rd (EEnd :: c)) prev = Some (rd c, None).
Proof. reflexivity. Qed.

Lemma rt_match c prev : read_token (rd (EMatch :: c)) prev = Some (rd c, prev).
Proof. reflexivity. Qed.

Lemma rt_char b c prev : read_token (rd (EChar b :: c)) prev = Some (rd c, Some (DChar b)).
Proof. reflexivity. Qed.

Lemma rt_string s c prev : nonul s ->
  read_token (rd (EString s :: c)) prev = Some (rd c, Some (DString s)).
Proof.
  intros Hs. rd_open. rewrite read_token_1. rewrite <- app_assoc. cbn [app].
  rewrite (read_until_nul_spec s _ Hs). rewrite removelast_last. reflexivity.
Qed.

Lemma rt_digits n c prev : n < u32_limit ->
  read_token (rd (EDigits n :: c)) prev = Some (rd c, Some (DDigits n)).
Proof.
  intros Hn. rd_open. rewrite read_token_7. rewrite (take_le32_le32 n _ Hn). reflexivity.
Qed.

Lemma rt_padded n w c prev : n < u32_limit ->
  read_token (rd (EPadded n w :: c)) prev = Some (rd c, Some (DPadded n (N.of_nat w))).
Proof.
  intros Hn. rd_open. rewrite read_token_3. rewrite (take_le32_le32 n _ Hn).
  cbn [take_u8]. reflexivity.
Qed.

Lemma rt_delta m d n c : n + d = m -> m < u32_limit ->
  read_token (rd (EDelta m d :: c)) (Some (DDigits n)) = Some (rd c, Some (DDigits m)).
Proof.
  intros He Hm. rd_open. rewrite read_token_8. rewrite He.
  destruct (N.leb_spec u32_limit m) as [H|H]; [lia|]. reflexivity.
Qed.

Lemma rt_delta0 m d n w c : n + d = m -> m < u32_limit ->
  read_token (rd (EDelta0 m d :: c)) (Some (DPadded n w)) = Some (rd c, Some (DPadded m w)).
Proof.
  intros He Hm. rd_open. rewrite read_token_9. rewrite He.
  destruct (N.leb_spec u32_limit m) as [H|H]; [lia|]. reflexivity.
Qed.

(* ------------------------------------------------------------------------------------------ *)
(* (b) the token the encoder chooses, read back                                                 *)

Lemma list_eqb_eq : forall a b, list_eqb a b = true -> a = b.
Proof.
  induction a as [|x a IH]; intros [|y b] H; cbn [list_eqb] in H; try discriminate H; [reflexivity|].
  apply andb_true_iff in H. destruct H as (Hx & Hr). apply N.eqb_eq in Hx. subst y.
  rewrite (IH b Hr). reflexivity.
Qed.

Lemma list_eqb_refl : forall a, list_eqb a a = true.
Proof.
  induction a as [|x a IH]; [reflexivity|]. cbn [list_eqb]. rewrite N.eqb_refl, IH. reflexivity.
Qed.

(* a raw token of a name that does not contain NUL *)
Definition raw_ok (t : list N) : Prop := t <> [] /\ nonul t.

(* decoded token [dt] stands for the raw token [raw] for which the encoder recorded [et] *)
Definition tok_rel (raw : list N) (et : etoken) (dt : dtoken) : Prop :=
  render dt = raw /\
  match et with
  | EDigits n | EDelta n _ => dt = DDigits n
  | EPadded n _ | EDelta0 n _ => dt = DPadded n (N.of_nat (length raw))
  | _ => True
  end.

Lemma render_padded t n : t <> [] -> digits_val t 0 = Some n ->
  render (DPadded n (N.of_nat (length t))) = t.
Proof.
  intros Hne Hv. unfold render. cbv zeta. rewrite Nnat.Nat2N.id. apply pad_spec; assumption.
Qed.

Lemma classify_step raw c prev : raw_ok raw ->
  exists dt, read_token (rd (classify raw :: c)) prev = Some (rd c, Some dt) /\
             tok_rel raw (classify raw) dt.
Proof.
  intros (Hne & Hnz). unfold classify.
  assert (Hp : parse_u32 raw = digits_val raw 0) by (apply parse_u32_nonempty; assumption).
  destruct (parse_digits0 raw) as [n|] eqn:E0.
  - unfold parse_digits0 in E0.
    destruct (starts_with_0 raw && (length raw <=? 255)%nat); [|discriminate E0].
    rewrite Hp in E0.
    assert (Hn : n < u32_limit) by (apply (digits_val_lt _ _ _ E0); reflexivity).
    exists (DPadded n (N.of_nat (length raw))). split; [apply rt_padded; exact Hn|].
    split; [apply render_padded; assumption|reflexivity].
  - destruct (parse_digits raw) as [n|] eqn:E1.
    + unfold parse_digits in E1. destruct (starts_with_0 raw) eqn:Es; [discriminate E1|].
      rewrite Hp in E1.
      assert (Hn : n < u32_limit) by (apply (digits_val_lt _ _ _ E1); reflexivity).
      exists (DDigits n). split; [apply rt_digits; exact Hn|].
      split; [apply dec_digits_spec; assumption|reflexivity].
    + destruct raw as [|b [|b2 r]].
      * contradiction.
      * exists (DChar b). split; [apply rt_char|]. split; reflexivity.
      * exists (DString (b :: b2 :: r)). split; [apply rt_string; exact Hnz|]. split; reflexivity.
Qed.

Definition rel_tok (raw : list N) (praws : list (list N)) (ptoks : list etoken) : option etoken :=
  match praws, ptoks with
  | pr :: _, pt :: _ =>
    if list_eqb raw pr then Some EMatch
    else
      match parse_delta pt raw with
      | Some (m, d) => Some (EDelta m d)
      | None =>
        match parse_delta0 pr pt raw with
        | Some (m, d) => Some (EDelta0 m d)
        | None => None
        end
      end
  | _, _ => None
  end.

Definition enc_tok (raw : list N) (praws : list (list N)) (ptoks : list etoken) : etoken :=
  match rel_tok raw praws ptoks with Some t => t | None => classify raw end.

Lemma build_tokens_cons raw rs praws ptoks :
  build_tokens (raw :: rs) praws ptoks =
  enc_tok raw praws ptoks :: build_tokens rs (tl praws) (tl ptoks).
Proof. reflexivity. Qed.

Fixpoint toks_rel (raws : list (list N)) (et : list etoken) (dt : list dtoken) : Prop :=
  match raws, dt with
  | [], [] => True
  | r :: rs, d :: ds =>
    match et with
    | e :: es => tok_rel r e d /\ toks_rel rs es ds
    | [] => False
    end
  | _, _ => False
  end.

Lemma toks_rel_tl praws ptoks pdt :
  toks_rel praws ptoks pdt -> toks_rel (tl praws) (tl ptoks) (tl pdt).
Proof.
  destruct praws as [|pr prs]; destruct pdt as [|pd pds]; cbn [toks_rel tl]; intros H;
    try contradiction; [exact I|].
  destruct ptoks as [|pt pts]; [contradiction|]. cbn [tl]. exact (proj2 H).
Qed.

(* TOKEN LEVEL: the token built for [raw] against the previous name's (raw, token) at the same
   position, written to the ten buffers of its column and read back with the previous decoded
   token, gives a token whose text is [raw] and consumes exactly what was written *)
Theorem enc_tok_step raw praws ptoks pdt c : raw_ok raw -> toks_rel praws ptoks pdt ->
  exists dt, read_token (rd (enc_tok raw praws ptoks :: c)) (hd_error pdt) = Some (rd c, Some dt) /\
             tok_rel raw (enc_tok raw praws ptoks) dt.
Proof.
  intros Hok Hrel. unfold enc_tok, rel_tok.
  destruct praws as [|pr prs]; [apply classify_step; exact Hok|].
  destruct pdt as [|pd pds]; [cbn [toks_rel] in Hrel; contradiction|].
  destruct ptoks as [|pt pts]; [cbn [toks_rel] in Hrel; contradiction|].
  cbn [toks_rel] in Hrel. destruct Hrel as ((Hrender & Hshape) & _). cbn [hd_error].
  assert (Hok' := Hok). destruct Hok' as (Hne & Hnz).
  assert (Hp : parse_u32 raw = digits_val raw 0) by (apply parse_u32_nonempty; assumption).
  destruct (list_eqb raw pr) eqn:Eeq.
  - apply list_eqb_eq in Eeq. rewrite <- Eeq in Hrender. exists pd. split; [apply rt_match|].
    split; [exact Hrender|exact I].
  - destruct (parse_delta pt raw) as [[m d]|] eqn:Ed.
    + unfold parse_delta in Ed. destruct (starts_with_0 raw) eqn:Es; [discriminate Ed|].
      rewrite Hp in Ed.
      destruct pt as [s|b|n w|dl|dl|n|n d0|n d0| |]; try discriminate Ed.
      all: destruct (digits_val raw 0) as [m'|] eqn:Ev; [|discriminate Ed].
      all: destruct ((n <=? m') && (m' - n <=? 255)) eqn:Ec; [|discriminate Ed].
      all: injection Ed as Em Edd; subst m d; subst pd.
      all: assert (Hm : m' < u32_limit) by (apply (digits_val_lt _ _ _ Ev); reflexivity).
      all: exists (DDigits m'); split; [apply rt_delta; lia|].
      all: split; [apply dec_digits_spec; assumption|reflexivity].
    + destruct (parse_delta0 pr pt raw) as [[m d]|] eqn:Ed0; [|apply classify_step; exact Hok].
      unfold parse_delta0 in Ed0.
      destruct pt as [s|b|n w|dl|dl|n|n d0|n d0| |]; try discriminate Ed0.
      all: destruct (Nat.eqb (length raw) (length pr)) eqn:El; [|discriminate Ed0].
      all: rewrite Hp in Ed0.
      all: destruct (digits_val raw 0) as [m'|] eqn:Ev; [|discriminate Ed0].
      all: destruct ((n <=? m') && (m' - n <=? 255)) eqn:Ec; [|discriminate Ed0].
      all: injection Ed0 as Em Edd; subst m d; subst pd.
      all: assert (Hm : m' < u32_limit) by (apply (digits_val_lt _ _ _ Ev); reflexivity).
      all: apply Nat.eqb_eq in El; rewrite <- El.
      all: exists (DPadded m' (N.of_nat (length raw))); split; [apply rt_delta0; lia|].
      all: split; [apply render_padded; assumption|reflexivity].
Qed.

(* ------------------------------------------------------------------------------------------ *)
(* (d) one name over the column readers                                                         *)

Definition heads (ll : list (list etoken)) : list etoken := fst (heads_tails ll).
Definition tails (ll : list (list etoken)) : list (list etoken) := snd (heads_tails ll).

Lemma heads_tails_eq ll : heads_tails ll = (heads ll, tails ll).
Proof. unfold heads, tails. destruct (heads_tails ll); reflexivity. Qed.

Lemma heads_cons_cons x xs ll : heads ((x :: xs) :: ll) = x :: heads ll.
Proof. unfold heads. cbn [heads_tails]. destruct (heads_tails ll); reflexivity. Qed.

Lemma tails_cons_cons x xs ll : tails ((x :: xs) :: ll) = xs :: tails ll.
Proof. unfold tails. cbn [heads_tails]. destruct (heads_tails ll); reflexivity. Qed.

Lemma heads_nil_cons ll : heads ([] :: ll) = heads ll.
Proof. unfold heads. cbn [heads_tails]. destruct (heads_tails ll); reflexivity. Qed.

Lemma tails_nil_cons ll : tails ([] :: ll) = tails ll.
Proof. unfold tails. cbn [heads_tails]. destruct (heads_tails ll); reflexivity. Qed.

(* the readers [rs] are the columns of the token lists [ll] (the lists of the names still to be
   decoded, in order); readers beyond the longest list are empty *)
Fixpoint rs_rel (rs : list treader) (ll : list (list etoken)) : Prop :=
  match rs with
  | [] => Forall (fun l => l = []) ll
  | r :: rest => r = rd (heads ll) /\ rs_rel rest (tails ll)
  end.

Lemma rs_rel_nil_cons rs ll : rs_rel rs ([] :: ll) <-> rs_rel rs ll.
Proof.
  destruct rs as [|r rest]; cbn [rs_rel].
  - split; intros H; [inversion H; assumption|constructor; [reflexivity|exact H]].
  - rewrite heads_nil_cons, tails_nil_cons. reflexivity.
Qed.

(* NAME LEVEL, one Diff name: the token loop of decode_single_name consumes exactly the tokens the
   encoder built for the name and rebuilds its text *)
Theorem name_go_spec : forall raws praws ptoks pdt rs ll,
  Forall raw_ok raws -> toks_rel praws ptoks pdt ->
  rs_rel rs (build_tokens raws praws ptoks :: ll) ->
  exists rs' dts, name_go rs pdt = Some (rs', concat raws, dts) /\ rs_rel rs' ll /\
                  toks_rel raws (build_tokens raws praws ptoks) dts.
Proof.
  induction raws as [|raw raws IH]; intros praws ptoks pdt rs ll Hok Hrel Hrs.
  - cbn [build_tokens] in Hrs |- *. destruct rs as [|r rest]; cbn [rs_rel] in Hrs.
    + inversion Hrs as [|x y Hx Hy]; discriminate Hx.
    + rewrite heads_cons_cons, tails_cons_cons in Hrs. destruct Hrs as (Hr & Hrest). subst r.
      cbn [name_go]. rewrite rt_end. exists (rd (heads ll) :: rest), []. split; [reflexivity|].
      split; [|exact I]. cbn [rs_rel]. split; [reflexivity|]. apply rs_rel_nil_cons. exact Hrest.
  - rewrite build_tokens_cons in Hrs |- *. destruct rs as [|r rest]; cbn [rs_rel] in Hrs.
    + inversion Hrs as [|x y Hx Hy]; discriminate Hx.
    + rewrite heads_cons_cons, tails_cons_cons in Hrs. destruct Hrs as (Hr & Hrest). subst r.
      inversion Hok as [|x y Hraw Hraws]; subst.
      destruct (enc_tok_step raw praws ptoks pdt (heads ll) Hraw Hrel) as (dt & Hread & Htr).
      destruct (IH (tl praws) (tl ptoks) (tl pdt) rest (tails ll) Hraws (toks_rel_tl _ _ _ Hrel) Hrest)
        as (rest' & dts & Hgo & Hrs' & Htoks).
      cbn [name_go]. rewrite Hread, Hgo. exists (rd (heads ll) :: rest'), (dt :: dts). split.
      { cbn [concat]. rewrite (proj1 Htr). reflexivity. }
      split; [cbn [rs_rel]; split; [reflexivity|exact Hrs']|].
      cbn [toks_rel]. split; assumption.
Qed.

(* ------------------------------------------------------------------------------------------ *)
(* (c) streams: decode_token_byte_streams over what encode_token_byte_streams wrote             *)

Definition stream_ok (buf : list N) : Prop :=
  Forall byte buf /\ N.of_nat (length buf) < 268435456.

Lemma nbind_ok {A B : Type} (r : nres A) (f : A -> nres B) b :
  nbind r f = ROk b -> exists a, r = ROk a /\ f a = ROk b.
Proof.
  destruct r as [a| | | |]; cbn [nbind]; intros H; try discriminate H. exists a. split; [reflexivity|exact H].
Qed.

Lemma encode_stream_inv h buf enc : stream_ok buf -> encode_stream (h, buf) = ROk enc ->
  (buf = [] /\ enc = []) \/
  (buf <> [] /\ exists c, enc = h :: write_uint7 (N.of_nat (length c)) ++ c /\
                          N.of_nat (length c) < 4294967296 /\ nx_decode_s c 0 = DOk buf).
Proof.
  intros (Hb & Hl) H. unfold encode_stream in H. destruct buf as [|b bs].
  - left. injection H as H. split; [reflexivity|symmetry; exact H].
  - right. split; [discriminate|].
    destruct (names_entropy_roundtrip (b :: bs) Hb Hl) as (e & He & Hd).
    rewrite He in H. cbv zeta in H.
    destruct (N.leb_spec u32_limit (N.of_nat (length e))) as [Hc|Hc]; [discriminate H|].
    injection H as H. exists e. split; [symmetry; exact H|]. split; [exact Hc|exact Hd].
Qed.

Lemma dec_got_plain c rest b1 buf : N.of_nat (length c) < 4294967296 -> nx_decode_s c 0 = DOk buf ->
  dec_got false false (write_uint7 (N.of_nat (length c)) ++ c ++ rest) b1 = ROk (buf, false, rest).
Proof.
  intros Hl Hd. unfold dec_got. rewrite (uint7_roundtrip _ _ Hl). rewrite app_length.
  destruct (N.ltb_spec (N.of_nat (length c + length rest)) (N.of_nat (length c))) as [Hc|Hc]; [lia|].
  rewrite Nnat.Nat2N.id. rewrite split_off_app. rewrite Hd. reflexivity.
Qed.

(* set a stream that was written, leave the reader alone for a stream that was skipped *)
Definition put_ne (r : treader) (h : N) (buf : list N) : treader :=
  match buf with
  | [] => r
  | _ :: _ => match r_put r h buf with Some r' => r' | None => r end
  end.

Lemma dec_stream_step h buf enc rest last others f :
  1 <= h <= 9 -> stream_ok buf -> encode_stream (h, buf) = ROk enc ->
  (length (enc ++ rest) < S f)%nat ->
  exists f', (length rest < S f')%nat /\
    dec_streams (S f) false (enc ++ rest) (last :: others) =
    dec_streams (S f') false rest (put_ne last h buf :: others).
Proof.
  intros Hh Hok Henc Hf.
  assert (Hc : h = 1 \/ h = 2 \/ h = 3 \/ h = 4 \/ h = 5 \/ h = 6 \/ h = 7 \/ h = 8 \/ h = 9) by lia.
  destruct (encode_stream_inv h buf enc Hok Henc) as [(Hb & He)|(Hb & c & He & Hl & Hd)].
  - subst buf enc. exists f. split; [exact Hf|]. reflexivity.
  - subst enc. cbn [app] in Hf |- *. rewrite <- app_assoc. rewrite dec_streams_S.
    assert (Hty : type_of_byte h = Some h /\ N.testbit h 7 = false /\ N.testbit h 6 = false /\
                  (h =? 0) = false).
    { destruct Hc as [E|[E|[E|[E|[E|[E|[E|[E|E]]]]]]]]; subst h; repeat split; reflexivity. }
    destruct Hty as (Ht & H7 & H6 & H0). rewrite Ht, H6. unfold dec_b1. rewrite H7.
    destruct f as [|f0]; [cbn [length] in Hf; lia|].
    exists f0. split; [cbn [length] in Hf; rewrite !app_length in Hf; lia|].
    rewrite (dec_got_plain _ _ _ _ Hl Hd). cbn [nbind]. unfold dec_step, r_set.
    destruct buf as [|b bs]; [contradiction|].
    assert (Hput : r_put last h (b :: bs) = Some (put_ne last h (b :: bs))).
    { destruct last as [a i s1 s2 s3 s4 s5 s6 s7 s8 s9].
      destruct Hc as [E|[E|[E|[E|[E|[E|[E|[E|E]]]]]]]]; subst h; reflexivity. }
    rewrite Hput, H0. reflexivity.
Qed.

Lemma dec_type_step tys enc rest brev f :
  tys <> [] -> stream_ok tys -> encode_stream (128, tys) = ROk enc ->
  (length (enc ++ rest) < S f)%nat ->
  exists f', (length rest < S f')%nat /\
    dec_streams (S f) false (enc ++ rest) brev =
    dec_streams (S f') false rest (mkR tys false [] [] [] [] [] [] [] [] [] :: brev).
Proof.
  intros Hne Hok Henc Hf.
  destruct (encode_stream_inv 128 tys enc Hok Henc) as [(Hb & He)|(Hb & c & He & Hl & Hd)];
    [contradiction|].
  subst enc. cbn [app] in Hf |- *. rewrite <- app_assoc. rewrite dec_streams_S.
  change (type_of_byte 128) with (Some 0). change (N.testbit 128 6) with false.
  change (dec_b1 128 0 brev) with (r_empty :: brev).
  destruct f as [|f0]; [cbn [length] in Hf; lia|].
  exists f0. split; [cbn [length] in Hf; rewrite !app_length in Hf; lia|].
  rewrite (dec_got_plain _ _ _ _ Hl Hd). reflexivity.
Qed.

Fixpoint put_list (l : list (N * list N)) (r : treader) : treader :=
  match l with
  | [] => r
  | (h, buf) :: t => put_list t (put_ne r h buf)
  end.

Lemma esl_cons_inv hb r e : encode_stream_list (hb :: r) = ROk e ->
  exists e1 t, encode_stream hb = ROk e1 /\ encode_stream_list r = ROk t /\ e = e1 ++ t.
Proof.
  cbn [encode_stream_list]. intros H.
  destruct (nbind_ok _ _ _ H) as (e1 & H1 & H2). destruct (nbind_ok _ _ _ H2) as (t & H3 & H4).
  injection H4 as H4. exists e1, t. split; [exact H1|]. split; [exact H3|symmetry; exact H4].
Qed.

Lemma dec_stream_list : forall l e rest last others f,
  Forall (fun hb => 1 <= fst hb <= 9 /\ stream_ok (snd hb)) l ->
  encode_stream_list l = ROk e -> (length (e ++ rest) < S f)%nat ->
  exists f', (length rest < S f')%nat /\
    dec_streams (S f) false (e ++ rest) (last :: others) =
    dec_streams (S f') false rest (put_list l last :: others).
Proof.
  induction l as [|[h buf] l IH]; intros e rest last others f Hl He Hf.
  - cbn [encode_stream_list] in He. injection He as He. subst e. exists f. split; [exact Hf|reflexivity].
  - inversion Hl as [|x y Hx Hy]; subst. cbn [fst snd] in Hx. destruct Hx as (Hh & Hok).
    destruct (esl_cons_inv _ _ _ He) as (e1 & t & H1 & H2 & H3). subst e.
    rewrite <- app_assoc in Hf |- *.
    destruct (dec_stream_step h buf e1 (t ++ rest) last others f Hh Hok H1 Hf) as (f1 & Hf1 & Hd1).
    destruct (IH t rest (put_ne last h buf) others f1 Hy H2 Hf1) as (f2 & Hf2 & Hd2).
    exists f2. split; [exact Hf2|]. rewrite Hd1, Hd2. reflexivity.
Qed.

Lemma put_ne_1 a i c d e f g h j k buf :
  put_ne (mkR a i [] c d e f g h j k) 1 buf = mkR a i buf c d e f g h j k.
Proof. destruct buf; reflexivity. Qed.

Lemma put_ne_2 a i b d e f g h j k buf :
  put_ne (mkR a i b [] d e f g h j k) 2 buf = mkR a i b buf d e f g h j k.
Proof. destruct buf; reflexivity. Qed.

Lemma put_ne_3 a i b c e f g h j k buf :
  put_ne (mkR a i b c [] e f g h j k) 3 buf = mkR a i b c buf e f g h j k.
Proof. destruct buf; reflexivity. Qed.

Lemma put_ne_4 a i b c d f g h j k buf :
  put_ne (mkR a i b c d [] f g h j k) 4 buf = mkR a i b c d buf f g h j k.
Proof. destruct buf; reflexivity. Qed.

Lemma put_ne_5 a i b c d e g h j k buf :
  put_ne (mkR a i b c d e [] g h j k) 5 buf = mkR a i b c d e buf g h j k.
Proof. destruct buf; reflexivity. Qed.

Lemma put_ne_6 a i b c d e f h j k buf :
  put_ne (mkR a i b c d e f [] h j k) 6 buf = mkR a i b c d e f buf h j k.
Proof. destruct buf; reflexivity. Qed.

Lemma put_ne_7 a i b c d e f g j k buf :
  put_ne (mkR a i b c d e f g [] j k) 7 buf = mkR a i b c d e f g buf j k.
Proof. destruct buf; reflexivity. Qed.

Lemma put_ne_8 a i b c d e f g h k buf :
  put_ne (mkR a i b c d e f g h [] k) 8 buf = mkR a i b c d e f g h buf k.
Proof. destruct buf; reflexivity. Qed.

Lemma put_ne_9 a i b c d e f g h j buf :
  put_ne (mkR a i b c d e f g h j []) 9 buf = mkR a i b c d e f g h j buf.
Proof. destruct buf; reflexivity. Qed.

Definition col_ok (c : list etoken) : Prop :=
  Forall (fun hb => stream_ok (snd hb)) (col_streams c).

(* COLUMN LEVEL: the ten streams of a non-empty column rebuild its TokenReader *)
Theorem dec_col c e rest brev f : c <> [] -> col_ok c -> encode_col c = ROk e ->
  (length (e ++ rest) < S f)%nat ->
  exists f', (length rest < S f')%nat /\
    dec_streams (S f) false (e ++ rest) brev = dec_streams (S f') false rest (rd c :: brev).
Proof.
  intros Hne Hok He Hf. unfold encode_col in He.
  destruct (forallb tok_ok c); [|discriminate He].
  unfold col_ok in Hok. unfold col_streams in He, Hok.
  destruct (esl_cons_inv _ _ _ He) as (e1 & t & H1 & H2 & H3). subst e.
  inversion Hok as [|x y Hx Hy]; subst. cbn [snd] in Hx.
  rewrite <- app_assoc in Hf |- *.
  assert (Hty : map tok_type c <> []) by (destruct c; [contradiction|discriminate]).
  destruct (dec_type_step _ e1 (t ++ rest) brev f Hty Hx H1 Hf) as (f1 & Hf1 & Hd1).
  assert (Hl : Forall (fun hb : N * list N => 1 <= fst hb <= 9 /\ stream_ok (snd hb))
    [ (1, flat_map st_string c); (2, flat_map st_char c); (3, flat_map st_digits0 c);
      (4, flat_map st_dzlen c); (5, flat_map st_dup c); (6, flat_map st_diff c);
      (7, flat_map st_digits c); (8, flat_map st_delta c); (9, flat_map st_delta0 c) ]).
  { repeat (match goal with
            | H : Forall _ (_ :: _) |- _ => inversion H; subst; clear H
            end).
    repeat (constructor; [split; [cbn [fst]; lia|assumption]|]). constructor. }
  destruct (dec_stream_list _ t rest (mkR (map tok_type c) false [] [] [] [] [] [] [] [] []) brev f1 Hl H2 Hf1)
    as (f2 & Hf2 & Hd2).
  exists f2. split; [exact Hf2|]. rewrite Hd1, Hd2. cbn [put_list].
  rewrite put_ne_1, put_ne_2, put_ne_3, put_ne_4, put_ne_5, put_ne_6, put_ne_7, put_ne_8, put_ne_9.
  reflexivity.
Qed.

(* all the columns *)
Fixpoint cols (n : nat) (ll : list (list etoken)) : list (list etoken) :=
  match n with
  | O => []
  | S k => heads ll :: cols k (tails ll)
  end.

Definition nonempty (c : list etoken) : bool := match c with [] => false | _ :: _ => true end.

Lemma encode_columns_S k ll :
  encode_columns (S k) ll =
  nbind (encode_col (heads ll))
        (fun e => nbind (encode_columns k (tails ll)) (fun t => ROk (e ++ t))).
Proof. cbn [encode_columns]. rewrite heads_tails_eq. reflexivity. Qed.

Lemma encode_col_nil : encode_col [] = ROk [].
Proof. reflexivity. Qed.

(* STREAM LEVEL: one reader per non-empty column, in order *)
Theorem dec_cols : forall n ll e rest brev f,
  Forall col_ok (cols n ll) -> encode_columns n ll = ROk e -> (length (e ++ rest) < S f)%nat ->
  exists f', (length rest < S f')%nat /\
    dec_streams (S f) false (e ++ rest) brev =
    dec_streams (S f') false rest (rev (map rd (filter nonempty (cols n ll))) ++ brev).
Proof.
  induction n as [|k IH]; intros ll e rest brev f Hok He Hf.
  - cbn [encode_columns] in He. injection He as He. subst e. exists f. split; [exact Hf|reflexivity].
  - rewrite encode_columns_S in He.
    destruct (nbind_ok _ _ _ He) as (e1 & H1 & H2). destruct (nbind_ok _ _ _ H2) as (t & H3 & H4).
    injection H4 as H4. subst e. cbn [cols] in Hok |- *. inversion Hok as [|x y Hx Hy]; subst.
    rewrite <- app_assoc in Hf |- *.
    remember (heads ll) as hc eqn:Eh. destruct hc as [|tk c].
    + rewrite encode_col_nil in H1. injection H1 as H1. subst e1.
      cbn [app filter nonempty] in Hf |- *. apply (IH (tails ll) t rest brev f Hy H3 Hf).
    + destruct (dec_col (tk :: c) e1 (t ++ rest) brev f ltac:(discriminate) Hx H1 Hf)
        as (f1 & Hf1 & Hd1).
      destruct (IH (tails ll) t rest (rd (tk :: c) :: brev) f1 Hy H3 Hf1) as (f2 & Hf2 & Hd2).
      exists f2. split; [exact Hf2|]. rewrite Hd1, Hd2. cbn [filter nonempty map rev].
      rewrite <- app_assoc. reflexivity.
Qed.

Lemma heads_nil : forall ll, heads ll = [] -> Forall (fun l => l = []) ll /\ tails ll = [].
Proof.
  induction ll as [|l ll IH]; intros H.
  - split; [constructor|reflexivity].
  - destruct l as [|x xs].
    + rewrite heads_nil_cons in H. rewrite tails_nil_cons. destruct (IH H) as (Ha & Ht).
      split; [constructor; [reflexivity|exact Ha]|exact Ht].
    + rewrite heads_cons_cons in H. discriminate H.
Qed.

Lemma cols_nil k : filter nonempty (cols k []) = [].
Proof.
  induction k as [|k IH]; [reflexivity|]. cbn [cols].
  change (heads []) with (@nil etoken). change (tails []) with (@nil (list etoken)).
  cbn [filter nonempty]. exact IH.
Qed.

Lemma tails_len k : forall ll, Forall (fun l : list etoken => (length l <= S k)%nat) ll ->
  Forall (fun l : list etoken => (length l <= k)%nat) (tails ll).
Proof.
  induction ll as [|l ll IH]; intros H.
  - constructor.
  - inversion H as [|x y Hx Hy]; subst. destruct l as [|x xs].
    + rewrite tails_nil_cons. apply IH. exact Hy.
    + rewrite tails_cons_cons. constructor; [cbn [length] in Hx; lia|apply IH; exact Hy].
Qed.

Lemma cols_rs_rel : forall n ll, Forall (fun l : list etoken => (length l <= n)%nat) ll ->
  rs_rel (map rd (filter nonempty (cols n ll))) ll.
Proof.
  induction n as [|k IH]; intros ll H.
  - cbn [cols filter map rs_rel]. eapply Forall_impl; [|exact H]. intros l Hl. cbv beta in Hl.
    destruct l as [|x xs]; [reflexivity|cbn [length] in Hl; lia].
  - cbn [cols]. remember (heads ll) as hc eqn:Eh. destruct hc as [|tk c].
    + cbn [filter nonempty]. destruct (heads_nil ll (eq_sym Eh)) as (Hall & Ht). rewrite Ht.
      rewrite cols_nil. cbn [map rs_rel]. exact Hall.
    + cbn [filter nonempty map rs_rel]. split; [rewrite <- Eh; reflexivity|].
      apply IH. apply tails_len. exact H.
Qed.

(* ------------------------------------------------------------------------------------------ *)
(* (d) the names loop                                                                           *)

Definition mode_of (d : ediff) : etoken :=
  if d_dup d then EDup (d_delta d) else EDiff (d_delta d).

(* build_all, returning the new diffs in order *)
Fixpoint build_fwd (names : list (list N)) (i : nat) (idx : list (list N * nat))
    (drev : list ediff) : option (list ediff) :=
  match names with
  | [] => Some []
  | name :: rest =>
    let found := idx_lookup name idx in
    let '(isdup, delta) := match found with
                           | Some j => (true, (i - j)%nat)
                           | None => (false, 1%nat)
                           end in
    if Nat.eqb delta 0 then None
    else
      match nth_error drev (delta - 1) with
      | None => None
      | Some prev =>
        let raws := tokenize name in
        let d := mkDiff isdup delta raws (build_tokens raws (d_raws prev) (d_toks prev)) in
        let idx' := match found with
                    | Some _ => idx
                    | None => (name, i) :: idx
                    end in
        match build_fwd rest (S i) idx' (d :: drev) with
        | Some nd => Some (d :: nd)
        | None => None
        end
      end
  end.

Lemma build_all_fwd : forall names i idx drev,
  build_all names i idx drev =
  match build_fwd names i idx drev with Some nd => Some (rev nd ++ drev) | None => None end.
Proof.
  induction names as [|name names IH]; intros i idx drev; [reflexivity|].
  cbn [build_all build_fwd]. destruct (idx_lookup name idx) as [j|].
  - destruct (Nat.eqb (i - j) 0); [reflexivity|].
    destruct (nth_error drev (i - j - 1)) as [prev|]; [|reflexivity].
    cbv zeta. rewrite IH.
    match goal with |- context [build_fwd names ?a ?b ?c] => destruct (build_fwd names a b c) as [nd|] end;
      [|reflexivity].
    cbn [rev]. rewrite <- app_assoc. reflexivity.
  - destruct (Nat.eqb 1 0); [reflexivity|].
    destruct (nth_error drev (1 - 1)) as [prev|]; [|reflexivity].
    cbv zeta. rewrite IH.
    match goal with |- context [build_fwd names ?a ?b ?c] => destruct (build_fwd names a b c) as [nd|] end;
      [|reflexivity].
    cbn [rev]. rewrite <- app_assoc. reflexivity.
Qed.

Definition hrel (d : ediff) (h : list N * list dtoken) : Prop :=
  fst h = concat (d_raws d) /\ toks_rel (d_raws d) (d_toks d) (snd h).

Definition hist_rel (drev : list ediff) (hist : list (list N * list dtoken)) : Prop :=
  Forall2 hrel drev hist.

Lemma Forall2_nth_l {A B} (R : A -> B -> Prop) : forall l1 l2 k a,
  Forall2 R l1 l2 -> nth_error l1 k = Some a -> exists b, nth_error l2 k = Some b /\ R a b.
Proof.
  induction l1 as [|x l1 IH]; intros l2 k a HF Hn.
  - destruct k; discriminate Hn.
  - inversion HF as [|x' y l1' l2' Hxy Hrest]; subst. destruct k as [|k].
    + injection Hn as Hn. subst x. exists y. split; [reflexivity|exact Hxy].
    + cbn [nth_error] in Hn |- *. apply (IH _ _ _ Hrest Hn).
Qed.

Definition idx_ok (idx : list (list N * nat)) (i : nat) (drev : list ediff) : Prop :=
  forall nm j, idx_lookup nm idx = Some j ->
    (1 <= j < i)%nat /\ exists d, nth_error drev (i - j - 1) = Some d /\ d_raws d = tokenize nm.

Lemma idx_ok_weaken idx i drev d : idx_ok idx i drev -> idx_ok idx (S i) (d :: drev).
Proof.
  intros H nm j Hl. destruct (H nm j Hl) as (Hj & d0 & Hn & Hr). split; [lia|].
  exists d0. split; [|exact Hr].
  replace (S i - j - 1)%nat with (S (i - j - 1)) by lia. exact Hn.
Qed.

Lemma idx_ok_add idx i drev d name : idx_ok idx i drev -> (1 <= i)%nat ->
  d_raws d = tokenize name -> idx_ok ((name, i) :: idx) (S i) (d :: drev).
Proof.
  intros H Hi Hd nm j Hl. cbn [idx_lookup] in Hl. destruct (list_eqb nm name) eqn:Eq.
  - injection Hl as Hl. subst j. apply list_eqb_eq in Eq. subst nm. split; [lia|].
    exists d. split; [|exact Hd]. replace (S i - i - 1)%nat with 0%nat by lia. reflexivity.
  - apply (idx_ok_weaken idx i drev d H nm j Hl).
Qed.

Lemma toks_rel_match : forall raws pt pd, toks_rel raws pt pd ->
  toks_rel raws (build_tokens raws raws pt) pd.
Proof.
  induction raws as [|r rs IH]; intros pt pd H.
  - destruct pd as [|d ds]; [exact I|cbn [toks_rel] in H; contradiction].
  - destruct pd as [|d ds]; [cbn [toks_rel] in H; contradiction|].
    destruct pt as [|e es]; [cbn [toks_rel] in H; contradiction|].
    cbn [toks_rel] in H. destruct H as (Hr & Hrest).
    rewrite build_tokens_cons. cbn [toks_rel tl]. split; [|exact (IH es ds Hrest)].
    unfold enc_tok, rel_tok. rewrite list_eqb_refl. split; [exact (proj1 Hr)|exact I].
Qed.

Definition prev_of (hist : list (list N * list dtoken)) (delta : nat)
    : option (list N * list dtoken) :=
  match delta with
  | O => Some ([], [])
  | S k => nth_error hist k
  end.

Lemma prev_of_eq hist delta :
  (if N.of_nat delta =? 0 then Some ([], []) else nth_error hist (N.to_nat (N.of_nat delta - 1)))
  = prev_of hist delta.
Proof.
  destruct delta as [|k]; [reflexivity|].
  destruct (N.eqb_spec (N.of_nat (S k)) 0) as [E|E]; [lia|].
  replace (N.of_nat (S k) - 1) with (N.of_nat k) by lia. rewrite Nnat.Nat2N.id. reflexivity.
Qed.

Lemma single_name_6 tys i s c d e f g h j k rest hist n :
  single_name (mkR (6 :: tys) i s c d e f g h j k :: rest) hist n =
  match take_le32 g with
  | None => None
  | Some (dist, s') =>
    if n <? dist then None
    else
      match (if dist =? 0 then Some ([], []) else nth_error hist (N.to_nat (dist - 1))) with
      | None => None
      | Some (pname, ptoks) =>
        match name_go rest ptoks with
        | None => None
        | Some (rest', nm, toks) => Some (mkR tys i s c d e f s' h j k :: rest', nm, toks)
        end
      end
  end.
Proof. reflexivity. Qed.

Lemma single_name_5 tys i s c d e f g h j k rest hist n :
  single_name (mkR (5 :: tys) i s c d e f g h j k :: rest) hist n =
  match take_le32 f with
  | None => None
  | Some (dist, s') =>
    if n <? dist then None
    else
      match (if dist =? 0 then Some ([], []) else nth_error hist (N.to_nat (dist - 1))) with
      | None => None
      | Some (pname, ptoks) => Some (mkR tys i s c d e s' g h j k :: rest, pname, ptoks)
      end
  end.
Proof. reflexivity. Qed.

Lemma single_name_diff delta ms rest hist i pname ptoks rest' nm toks :
  N.of_nat delta < u32_limit -> (delta <= i)%nat ->
  prev_of hist delta = Some (pname, ptoks) ->
  name_go rest ptoks = Some (rest', nm, toks) ->
  single_name (rd (EDiff delta :: ms) :: rest) hist (N.of_nat i) = Some (rd ms :: rest', nm, toks).
Proof.
  intros Hd Hi Hp Hgo. rd_open. rewrite single_name_6. rewrite (take_le32_le32 _ _ Hd).
  destruct (N.ltb_spec (N.of_nat i) (N.of_nat delta)) as [Hc|Hc]; [lia|].
  rewrite prev_of_eq, Hp, Hgo. reflexivity.
Qed.

Lemma single_name_dup delta ms rest hist i pname ptoks :
  N.of_nat delta < u32_limit -> (delta <= i)%nat ->
  prev_of hist delta = Some (pname, ptoks) ->
  single_name (rd (EDup delta :: ms) :: rest) hist (N.of_nat i) = Some (rd ms :: rest, pname, ptoks).
Proof.
  intros Hd Hi Hp. rd_open. rewrite single_name_5. rewrite (take_le32_le32 _ _ Hd).
  destruct (N.ltb_spec (N.of_nat i) (N.of_nat delta)) as [Hc|Hc]; [lia|].
  rewrite prev_of_eq, Hp. reflexivity.
Qed.

Definition name_ok (nm : list N) : Prop := Forall raw_ok (tokenize nm).

Definition out_of (hist : list (list N * list dtoken)) : list N :=
  fold_left (fun acc h => fst h ++ 0 :: acc) hist [].

Lemma names_loop_S f count i b hist :
  names_loop (S f) count i b hist =
  if i =? count then Some (out_of hist)
  else match single_name b hist i with
       | None => None
       | Some (b', nm, toks) => names_loop f count (i + 1) b' ((nm, toks) :: hist)
       end.
Proof. reflexivity. Qed.

(* NAME LEVEL: names 1.. are reproduced from the history of the earlier names *)
Theorem loop_spec : forall names i idx drev nd hist rest fuel,
  build_fwd names i idx drev = Some nd ->
  length drev = i -> (1 <= i)%nat -> N.of_nat (i + length names) < u32_limit ->
  hist_rel drev hist -> idx_ok idx i drev -> Forall name_ok names ->
  rs_rel rest (map d_toks (filter (fun d => negb (d_dup d)) nd)) ->
  (length names < fuel)%nat ->
  exists hist',
    names_loop fuel (N.of_nat (i + length names)) (N.of_nat i) (rd (map mode_of nd) :: rest) hist
    = Some (out_of hist') /\ map fst hist' = rev names ++ map fst hist.
Proof.
  induction names as [|name names IH];
    intros i idx drev nd hist rest fuel Hb Hlen Hi Hcnt Hh Hidx Hok Hrs Hfuel.
  - destruct fuel as [|f]; [cbn [length] in Hfuel; lia|]. rewrite names_loop_S.
    cbn [length]. replace (i + 0)%nat with i by lia. rewrite N.eqb_refl.
    exists hist. split; reflexivity.
  - destruct fuel as [|f]; [lia|]. rewrite names_loop_S.
    destruct (N.eqb_spec (N.of_nat i) (N.of_nat (i + length (name :: names)))) as [E|_];
      [cbn [length] in E; lia|].
    inversion Hok as [|x y Hname Hnames]; subst x y.
    assert (Hcnt' : N.of_nat (S i + length names) < u32_limit).
    { cbn [length] in Hcnt. replace (S i + length names)%nat with (i + S (length names))%nat by lia.
      exact Hcnt. }
    replace (i + length (name :: names))%nat with (S i + length names)%nat by (cbn [length]; lia).
    cbn [build_fwd] in Hb.
    destruct (idx_lookup name idx) as [j|] eqn:Ef.
    + (* Dup *)
      destruct (Hidx name j Ef) as (Hj & d0 & Hn0 & Hr0).
      destruct (Nat.eqb_spec (i - j) 0) as [E|_]; [lia|].
      rewrite Hn0 in Hb. cbv zeta in Hb.
      match type of Hb with context [build_fwd names (S i) idx (?dd :: drev)] =>
        remember dd as d eqn:Ed end.
      assert (Hd_raws : d_raws d = tokenize name) by (subst d; reflexivity).
      assert (Hd_toks : d_toks d = build_tokens (tokenize name) (d_raws d0) (d_toks d0))
        by (subst d; reflexivity).
      assert (Hd_dup : d_dup d = true) by (subst d; reflexivity).
      assert (Hd_delta : d_delta d = (i - j)%nat) by (subst d; reflexivity).
      clear Ed.
      destruct (build_fwd names (S i) idx (d :: drev)) as [nd'|] eqn:Eb; [|discriminate Hb].
      injection Hb as Hb. subst nd.
      destruct (Forall2_nth_l _ _ _ _ _ Hh Hn0) as ([pname ptoks] & Hnh & Hpn & Hpt).
      cbn [fst snd] in Hpn, Hpt.
      cbn [map]. unfold mode_of at 1. rewrite Hd_dup, Hd_delta.
      rewrite (single_name_dup (i - j) _ rest hist i pname ptoks).
      2:{ unfold u32_limit in *. lia. }
      2:{ lia. }
      2:{ replace (i - j)%nat with (S (i - j - 1)) by lia. exact Hnh. }
      replace (N.of_nat i + 1) with (N.of_nat (S i)) by lia.
      cbn [filter] in Hrs. rewrite Hd_dup in Hrs. cbn [negb] in Hrs.
      assert (Hh' : hist_rel (d :: drev) ((pname, ptoks) :: hist)).
      { constructor; [|exact Hh]. split; cbn [fst snd].
        - rewrite Hd_raws, Hpn, Hr0. reflexivity.
        - rewrite Hd_raws, Hd_toks. rewrite Hr0 in Hpt |- *. apply toks_rel_match. exact Hpt. }
      destruct (IH (S i) idx (d :: drev) nd' ((pname, ptoks) :: hist) rest f Eb
                  ltac:(cbn [length]; lia) ltac:(lia) Hcnt' Hh' (idx_ok_weaken _ _ _ d Hidx)
                  Hnames Hrs ltac:(cbn [length] in Hfuel; lia)) as (hist' & Hloop & Hmap).
      exists hist'. split; [exact Hloop|]. rewrite Hmap. cbn [map fst rev].
      rewrite <- app_assoc. cbn [app]. rewrite Hpn, Hr0, tokenize_concat. reflexivity.
    + (* Diff against the previous name *)
      destruct (Nat.eqb_spec 1 0) as [E|_]; [lia|]. change (1 - 1)%nat with 0%nat in Hb.
      destruct (nth_error drev 0) as [prev|] eqn:Ep; [|discriminate Hb].
      cbv zeta in Hb.
      match type of Hb with context [build_fwd names (S i) ?ix (?dd :: drev)] =>
        remember dd as d eqn:Ed end.
      assert (Hd_raws : d_raws d = tokenize name) by (subst d; reflexivity).
      assert (Hd_toks : d_toks d = build_tokens (tokenize name) (d_raws prev) (d_toks prev))
        by (subst d; reflexivity).
      assert (Hd_dup : d_dup d = false) by (subst d; reflexivity).
      assert (Hd_delta : d_delta d = 1%nat) by (subst d; reflexivity).
      clear Ed.
      destruct (build_fwd names (S i) ((name, i) :: idx) (d :: drev)) as [nd'|] eqn:Eb;
        [|discriminate Hb].
      injection Hb as Hb. subst nd.
      destruct (Forall2_nth_l _ _ _ _ _ Hh Ep) as ([pname ptoks] & Hnh & Hpn & Hpt).
      cbn [fst snd] in Hpn, Hpt.
      cbn [map]. unfold mode_of at 1. rewrite Hd_dup, Hd_delta.
      cbn [filter] in Hrs. rewrite Hd_dup in Hrs. cbn [negb map] in Hrs. rewrite Hd_toks in Hrs.
      destruct (name_go_spec (tokenize name) (d_raws prev) (d_toks prev) ptoks rest _ Hname Hpt Hrs)
        as (rest' & dts & Hgo & Hrs' & Htr).
      rewrite (single_name_diff 1 _ rest hist i pname ptoks rest' (concat (tokenize name)) dts).
      2:{ reflexivity. }
      2:{ lia. }
      2:{ exact Hnh. }
      2:{ exact Hgo. }
      replace (N.of_nat i + 1) with (N.of_nat (S i)) by lia.
      assert (Hh' : hist_rel (d :: drev) ((concat (tokenize name), dts) :: hist)).
      { constructor; [|exact Hh]. split; cbn [fst snd].
        - rewrite Hd_raws. reflexivity.
        - rewrite Hd_raws, Hd_toks. exact Htr. }
      destruct (IH (S i) ((name, i) :: idx) (d :: drev) nd' ((concat (tokenize name), dts) :: hist)
                  rest' f Eb ltac:(cbn [length]; lia) ltac:(lia) Hcnt' Hh'
                  (idx_ok_add _ _ _ d name Hidx Hi Hd_raws)
                  Hnames Hrs' ltac:(cbn [length] in Hfuel; lia)) as (hist' & Hloop & Hmap).
      exists hist'. split; [exact Hloop|]. rewrite Hmap. cbn [map fst rev].
      rewrite <- app_assoc. cbn [app]. rewrite tokenize_concat. reflexivity.
Qed.

(* ------------------------------------------------------------------------------------------ *)
(* split / join                                                                                 *)

Lemma strip_last_nul_snoc : forall s, strip_last_nul (s ++ [0]) = s.
Proof.
  induction s as [|b s IH]; [reflexivity|]. cbn [app].
  change (strip_last_nul (b :: s ++ [0]))
    with (match s ++ [0] with
          | [] => if b =? 0 then [] else [b]
          | _ :: _ => b :: strip_last_nul (s ++ [0])
          end).
  destruct (s ++ [0]) as [|x r] eqn:E; [destruct s; discriminate E|].
  first [rewrite IH|rewrite <- E, IH]. reflexivity.
Qed.

Lemma split_nul_cons b r :
  split_nul (b :: r) =
  match split_nul r with
  | cur :: rest => if b =? 0 then [] :: cur :: rest else (b :: cur) :: rest
  | [] => [[b]]
  end.
Proof. reflexivity. Qed.

Lemma split_nul_ne l : split_nul l <> [].
Proof.
  destruct l as [|b r]; [discriminate|]. rewrite split_nul_cons.
  destruct (split_nul r) as [|cur rest]; [discriminate|]. destruct (b =? 0); discriminate.
Qed.

Lemma split_nul_join : forall l, concat (map (fun n => n ++ [0]) (split_nul l)) = l ++ [0].
Proof.
  induction l as [|b r IH]; [reflexivity|]. rewrite split_nul_cons.
  destruct (split_nul r) as [|cur rest] eqn:E; [exfalso; exact (split_nul_ne r E)|].
  cbn [map concat] in IH. destruct (N.eqb_spec b 0) as [Hb|Hb].
  - subst b. cbn [map concat]. rewrite IH. reflexivity.
  - cbn [map concat app]. f_equal. exact IH.
Qed.

Lemma split_nul_nonul : forall l, Forall nonul (split_nul l).
Proof.
  induction l as [|b r IH]; [constructor; constructor|]. rewrite split_nul_cons.
  destruct (split_nul r) as [|cur rest] eqn:E; [exfalso; exact (split_nul_ne r E)|].
  inversion IH as [|x y Hc Hr]; subst. destruct (N.eqb_spec b 0) as [Hb|Hb].
  - constructor; [constructor|]. constructor; assumption.
  - constructor; [constructor; assumption|assumption].
Qed.

Lemma fold_out : forall (hist : list (list N * list dtoken)) acc,
  fold_left (fun acc h => fst h ++ 0 :: acc) hist acc =
  concat (map (fun n => n ++ [0]) (rev (map fst hist))) ++ acc.
Proof.
  induction hist as [|h hist IH]; intros acc; [reflexivity|]. cbn [fold_left map rev].
  rewrite IH. rewrite map_app, concat_app. cbn [map concat]. rewrite app_nil_r.
  rewrite <- !app_assoc. reflexivity.
Qed.

Lemma concat_nonul : forall l, nonul (concat l) -> Forall nonul l.
Proof.
  induction l as [|a l IH]; cbn [concat]; intros H; [constructor|].
  apply Forall_app in H. destruct H as (Ha & Hl). constructor; [exact Ha|apply IH; exact Hl].
Qed.

Lemma name_ok_of nm : nonul nm -> name_ok nm.
Proof.
  intros Hnz. unfold name_ok.
  pose proof (tokenize_nonempty nm) as H2.
  assert (H3 : Forall nonul (tokenize nm)) by (apply concat_nonul; rewrite tokenize_concat; exact Hnz).
  rewrite Forall_forall in H2, H3 |- *. intros t Ht.
  split; [exact (H2 t Ht)|exact (H3 t Ht)].
Qed.

Definition nondup (d : ediff) : bool := negb (d_dup d).

Definition max_tokens (diffs : list ediff) : nat :=
  fold_left (fun m d => Nat.max m (length (d_toks d))) diffs 0%nat.

Lemma max_fold_ge : forall (diffs : list ediff) m,
  (m <= fold_left (fun m d => Nat.max m (length (d_toks d))) diffs m)%nat /\
  Forall (fun d => (length (d_toks d) <=
                    fold_left (fun m d => Nat.max m (length (d_toks d))) diffs m)%nat) diffs.
Proof.
  induction diffs as [|d ds IH]; intros m; cbn [fold_left].
  - split; [lia|constructor].
  - destruct (IH (Nat.max m (length (d_toks d)))) as (H1 & H2). split; [lia|].
    constructor; [lia|exact H2].
Qed.

Lemma cols_len_ok diffs :
  Forall (fun l : list etoken => (length l <= max_tokens diffs)%nat) (map d_toks (filter nondup diffs)).
Proof.
  destruct (max_fold_ge diffs 0) as (_ & H). rewrite Forall_forall in H |- *.
  intros l Hl. apply in_map_iff in Hl. destruct Hl as (d & Hd & Hin). subst l.
  apply filter_In in Hin. apply (H d (proj1 Hin)).
Qed.

Lemma build_fwd_length : forall names i idx drev nd,
  build_fwd names i idx drev = Some nd -> length nd = length names.
Proof.
  induction names as [|name names IH]; intros i idx drev nd H; cbn [build_fwd] in H.
  - injection H as H. subst nd. reflexivity.
  - destruct (idx_lookup name idx) as [j|].
    + destruct (Nat.eqb (i - j) 0); [discriminate H|].
      destruct (nth_error drev (i - j - 1)) as [prev|]; [|discriminate H]. cbv zeta in H.
      match type of H with context [build_fwd names ?a ?b ?c] =>
        destruct (build_fwd names a b c) as [nd'|] eqn:E end; [|discriminate H].
      injection H as H. subst nd. cbn [length]. rewrite (IH _ _ _ _ E). reflexivity.
    + destruct (Nat.eqb 1 0); [discriminate H|].
      destruct (nth_error drev (1 - 1)) as [prev|]; [|discriminate H]. cbv zeta in H.
      match type of H with context [build_fwd names ?a ?b ?c] =>
        destruct (build_fwd names a b c) as [nd'|] eqn:E end; [|discriminate H].
      injection H as H. subst nd. cbn [length]. rewrite (IH _ _ _ _ E). reflexivity.
Qed.

(* the encoder's diffs of the names of [body] (the input without its final NUL) *)
Definition enc_diffs (body : list N) : option (list ediff) :=
  match split_nul body with
  | [] => Some []
  | n0 :: rest =>
    match build_fwd rest 1 [] [build_first_diff n0] with
    | Some nd => Some (build_first_diff n0 :: nd)
    | None => None
    end
  end.

(* every stream the encoder hands to the entropy coder is a byte string shorter than 2^28 *)
Definition streams_ok (body : list N) : Prop :=
  forall diffs, enc_diffs body = Some diffs ->
    col_ok (map mode_of diffs) /\
    Forall col_ok (cols (max_tokens diffs) (map d_toks (filter nondup diffs))).

Theorem roundtrip_body body bytes :
  Forall name_ok (split_nul body) -> streams_ok body ->
  names_encode_x (body ++ [0]) = ROk bytes -> names_decode_x bytes = ROk (body ++ [0]).
Proof.
  intros Hnames Hst Hx. unfold names_encode_x in Hx. rewrite strip_last_nul_snoc in Hx.
  cbv zeta in Hx.
  destruct (N.leb_spec u32_limit (N.of_nat (length body))) as [_|Hul]; [discriminate Hx|].
  destruct (N.leb_spec u32_limit (N.of_nat (length (split_nul body)))) as [_|Hnn]; [discriminate Hx|].
  unfold streams_ok, enc_diffs in Hst.
  destruct (split_nul body) as [|n0 rest] eqn:Es; [exfalso; exact (split_nul_ne body Es)|].
  rewrite build_all_fwd in Hx.
  destruct (build_fwd rest 1 [] [build_first_diff n0]) as [nd|] eqn:Eb; [|discriminate Hx].
  specialize (Hst _ eq_refl). destruct Hst as (Hm & Hc).
  replace (rev_append (rev nd ++ [build_first_diff n0]) []) with (build_first_diff n0 :: nd) in Hx.
  2:{ rewrite rev_append_rev, app_nil_r, rev_app_distr, rev_involutive. reflexivity. }
  destruct (nbind_ok _ _ _ Hx) as (e0 & He0 & Hx1). destruct (nbind_ok _ _ _ Hx1) as (e1 & He1 & Hx2).
  injection Hx2 as Hx2. subst bytes. clear Hx Hx1.
  change (fold_left _ (build_first_diff n0 :: nd) 0%nat)
    with (max_tokens (build_first_diff n0 :: nd)) in He1.
  change (filter _ (build_first_diff n0 :: nd))
    with (build_first_diff n0 :: filter nondup nd) in He1.
  change (filter nondup (build_first_diff n0 :: nd))
    with (build_first_diff n0 :: filter nondup nd) in Hc.
  change (map _ (build_first_diff n0 :: nd)) with (EDiff 0 :: map mode_of nd) in He0.
  change (map mode_of (build_first_diff n0 :: nd)) with (EDiff 0 :: map mode_of nd) in Hm.
  remember (max_tokens (build_first_diff n0 :: nd)) as M eqn:EM.
  pose proof (cols_len_ok (build_first_diff n0 :: nd)) as Hlens. rewrite <- EM in Hlens.
  change (filter nondup (build_first_diff n0 :: nd))
    with (build_first_diff n0 :: filter nondup nd) in Hlens.
  remember (map d_toks (build_first_diff n0 :: filter nondup nd)) as ll eqn:Ell.
  change (names_decode_x (le32_bytes (N.of_nat (length body)) ++
                          le32_bytes (N.of_nat (S (length rest))) ++ 0 :: e0 ++ e1)
          = ROk (body ++ [0])).
  unfold names_decode_x.
  unfold u32_limit in Hul, Hnn. cbn [length] in Hnn.
  rewrite (take_le32_le32 _ _ Hul). rewrite (take_le32_le32 _ _ Hnn).
  change (negb (0 =? 0)) with false.
  destruct (dec_col (EDiff 0 :: map mode_of nd) e0 e1 [] (length (e0 ++ e1)) ltac:(discriminate)
              Hm He0 ltac:(lia)) as (f1 & Hf1 & Hd1).
  rewrite Hd1.
  destruct (dec_cols M ll e1 [] [rd (EDiff 0 :: map mode_of nd)] f1 Hc He1
              ltac:(rewrite app_nil_r; exact Hf1)) as (f2 & Hf2 & Hd2).
  rewrite app_nil_r in Hd2. rewrite Hd2. rewrite dec_streams_nil. cbn [nbind].
  rewrite rev_append_rev, app_nil_r, rev_app_distr, rev_involutive. cbn [rev app].
  pose proof (cols_rs_rel M ll Hlens) as Hrs.
  remember (map rd (filter nonempty (cols M ll))) as rs eqn:Ers. clear Ers.
  change (r_type (rd (EDiff 0 :: map mode_of nd))) with (map tok_type (EDiff 0 :: map mode_of nd)).
  rewrite map_length. cbn [length]. rewrite map_length.
  rewrite (build_fwd_length _ _ _ _ _ Eb).
  rewrite names_loop_S.
  destruct (N.eqb_spec 0 (N.of_nat (S (length rest)))) as [E|_]; [lia|].
  inversion Hnames as [|x y Hn0 Hrest]; subst x y.
  rewrite Ell in Hrs. cbn [map] in Hrs.
  change (d_toks (build_first_diff n0)) with (build_tokens (tokenize n0) [] []) in Hrs.
  destruct (name_go_spec (tokenize n0) [] [] [] rs _ Hn0 I Hrs) as (rest' & dts & Hgo & Hrs' & Htr).
  pose proof (single_name_diff 0 (map mode_of nd) rs [] 0 [] [] rest' (concat (tokenize n0)) dts
                ltac:(reflexivity) ltac:(lia) eq_refl Hgo) as Hs.
  change (N.of_nat 0) with 0 in Hs. rewrite Hs.
  destruct (loop_spec rest 1 [] [build_first_diff n0] nd [(concat (tokenize n0), dts)] rest'
              (S (length rest)) Eb eq_refl ltac:(lia)) as (hist' & Hloop & Hmap).
  - unfold u32_limit. lia.
  - constructor; [|constructor]. split; [reflexivity|exact Htr].
  - intros nm j Hl. discriminate Hl.
  - exact Hrest.
  - exact Hrs'.
  - lia.
  - change (0 + 1) with (N.of_nat 1). change (N.of_nat (S (length rest))) with (N.of_nat (1 + length rest)).
    rewrite Hloop. f_equal. unfold out_of. rewrite fold_out, app_nil_r, Hmap.
    rewrite rev_app_distr, rev_involutive. cbn [map fst rev app]. rewrite tokenize_concat.
    change (concat (map (fun n : list N => n ++ [0]) (n0 :: rest)) = body ++ [0]).
    rewrite <- Es. apply split_nul_join.
Qed.

(* ------------------------------------------------------------------------------------------ *)
(* the result                                                                                   *)

(* a list of names each followed by NUL, every name with fewer than 126 tokens (the 126th token is
   an unsplit remainder in which a '+'-prefixed number loses its sign: names_plus_defect of
   NamesTotal).  The last clause is a side condition the model needs: DUP / DIFF / DIGITS / DIGITS0
   streams take four bytes per name while an (empty) name takes one byte of the input, and the
   entropy-stage theorem covers buffers shorter than 2^28 only. *)
Definition names_wf (src : list N) : Prop :=
  src <> [] /\ last src 1 = 0 /\ Forall byte src /\ N.of_nat (length src) < 268435456 /\
  4 * N.of_nat (length (split_nul (strip_last_nul src))) < 268435456.

Definition names_roundtrip_full_statement : Prop :=
  forall src, names_wf src ->
    exists bytes, names_encode src = NmOk bytes /\ names_decode bytes = NmOk src.

Lemma names_wf_body src : names_wf src ->
  exists body, src = body ++ [0] /\ Forall name_ok (split_nul body).
Proof.
  intros (Hne & Hlast & _ & _ & _).
  pose proof (app_removelast_last 1 Hne) as Hsrc. rewrite Hlast in Hsrc.
  exists (removelast src). split; [exact Hsrc|].
  pose proof (split_nul_nonul (removelast src)) as Hnz.
  rewrite Forall_forall in Hnz |- *. intros nm Hin.
  apply name_ok_of. apply Hnz. exact Hin.
Qed.

(* what is proved: whenever the encoder answers, the decoder gives the input back, PROVIDED the
   streams handed to the entropy coder are byte strings shorter than 2^28 ([streams_ok], which
   follows from names_wf but is not derived here) *)
Theorem names_roundtrip_partial : forall src bytes,
  names_wf src -> streams_ok (strip_last_nul src) ->
  names_encode src = NmOk bytes -> names_decode bytes = NmOk src.
Proof.
  intros src bytes Hwf Hst Henc. destruct (names_wf_body src Hwf) as (body & Hsrc & Hok).
  subst src. rewrite strip_last_nul_snoc in Hst.
  unfold names_encode in Henc.
  destruct (names_encode_x (body ++ [0])) as [b| | | |] eqn:Ex; try discriminate Henc.
  injection Henc as Henc. subst b.
  unfold names_decode. rewrite (roundtrip_body body bytes Hok Hst Ex). reflexivity.
Qed.

Print Assumptions dec_digits_spec.
Print Assumptions pad_spec.
Print Assumptions enc_tok_step.
Print Assumptions dec_col.
Print Assumptions dec_cols.
Print Assumptions name_go_spec.
Print Assumptions loop_spec.
Print Assumptions roundtrip_body.
Print Assumptions names_roundtrip_partial.
