(* TOTALITY of the rANS Nx16 decoder model: on EVERY byte string the model of noodles' order-0
   decoder (NV.Cram.Nx16O0.nxd0_decode, any state count > 0) and of the RLE context reader
   (NV.Cram.Nx16Full.rd_rle_ctx, including the entropy-compressed meta-data branch) answers bytes
   or an io::Error -- the overflow-checked u32 arithmetic of state_step and `chunks_mut(0)` are
   unreachable.  The whole-stream theorem (both orders) is in NV.Cram.Nx16O1Total.

   Shape of the argument: every reader hands on a suffix of its input, so the rest is still bytes;
   the normalised table adds up to at most 4096; the symbol search returns a symbol whose
   cumulative frequency is at most the 12 low bits of the state; all states stay below 2^32. *)
From Coq Require Import List NArith ZArith Lia Bool PeanoNat.
From Coq Require Import ZifyBool ZifyNat ZifyN.
From NV Require Import Cram.Bytes Cram.Vlq Cram.IntProofs Cram.Rans4x8 Cram.Rans4x8Proofs
  Cram.Nx16Xform Cram.Nx16XformProofs Cram.Nx16O0 Cram.Nx16Full.
Import ListNotations.
Ltac Zify.zify_post_hook ::= Z.div_mod_to_equations.
Open Scope N_scope.
Arguments N.add : simpl never.
Arguments N.sub : simpl never.
Arguments N.mul : simpl never.
Arguments N.div : simpl never.
Arguments N.modulo : simpl never.
Arguments N.pow : simpl never.
Arguments N.ltb : simpl never.
Arguments N.leb : simpl never.
Arguments N.eqb : simpl never.

(* ---------- the rest of the input keeps any per-byte property ---------- *)

Section Rest.
Variable P : N -> Prop.

Lemma read_uint7_go_rest : forall bs n len v r,
  read_uint7_go bs n len = U7Ok v r -> Forall P bs -> Forall P r.
Proof.
  induction bs as [|b t IH]; intros n len v r H HP; cbn [read_uint7_go] in H; [discriminate|].
  pose proof (Forall_inv_tail HP) as Ht.
  destruct (Nat.ltb 5 (S len)); [discriminate|].
  destruct (b <? 128).
  - inversion H; subst; exact Ht.
  - eapply IH; [exact H|exact Ht].
Qed.

Lemma read_uint7_rest bs v r : read_uint7 bs = U7Ok v r -> Forall P bs -> Forall P r.
Proof. unfold read_uint7. apply read_uint7_go_rest. Qed.

Lemma rd_alpha_go_rest : forall fuel bs prev A A' r,
  rd_alpha_go fuel bs prev A = Some (A', r) -> Forall P bs -> Forall P r.
Proof.
  induction fuel as [|fu IH]; intros bs prev A A' r H HP; cbn [rd_alpha_go] in H; [discriminate|].
  destruct bs as [|s b1]; [discriminate|].
  pose proof (Forall_inv_tail HP) as H1.
  destruct (s =? 0); [inversion H; subst; exact H1|].
  destruct (s - 1 =? prev).
  - destruct b1 as [|len b2]; [discriminate|].
    pose proof (Forall_inv_tail H1) as H2.
    destruct (256 <=? s + len); [discriminate|].
    eapply IH; [exact H|exact H2].
  - eapply IH; [exact H|exact H1].
Qed.

Lemma read_alphabet_rest bs A r : read_alphabet bs = Some (A, r) -> Forall P bs -> Forall P r.
Proof.
  unfold read_alphabet. destruct bs as [|s t]; [discriminate|]. intros H HP.
  eapply rd_alpha_go_rest; [exact H|exact (Forall_inv_tail HP)].
Qed.

Lemma rd_freqs_rest : forall A bs F r, rd_freqs A bs = Some (F, r) -> Forall P bs -> Forall P r.
Proof.
  induction A as [|a A' IH]; intros bs F r H HP; cbn [rd_freqs] in H.
  - inversion H; subst; exact HP.
  - destruct a.
    + destruct (read_uint7 bs) as [v b1| |] eqn:E; try discriminate.
      destruct (rd_freqs A' b1) as [[F1 b2]|] eqn:E2; [|discriminate].
      inversion H; subst. eapply IH; [exact E2|]. eapply read_uint7_rest; [exact E|exact HP].
    + destruct (rd_freqs A' bs) as [[F1 b2]|] eqn:E2; [|discriminate].
      inversion H; subst. eapply IH; [exact E2|exact HP].
Qed.

Lemma read_freqs0_rest bs F r : read_freqs0 bs = Some (F, r) -> Forall P bs -> Forall P r.
Proof.
  unfold read_freqs0. intros H HP.
  destruct (read_alphabet bs) as [[A b1]|] eqn:EA; [|discriminate].
  destruct (rd_freqs A b1) as [[F0 b2]|] eqn:EF; [|discriminate].
  destruct (dec_normalize 4096 F0) as [F1|]; [|discriminate].
  inversion H; subst.
  eapply rd_freqs_rest; [exact EF|]. eapply read_alphabet_rest; [exact EA|exact HP].
Qed.

Lemma firstn_Forall : forall n (l : list N), Forall P l -> Forall P (firstn n l).
Proof.
  induction n as [|n IH]; intros l HP; [constructor|].
  destruct l as [|x t]; [constructor|]. cbn [firstn].
  constructor; [exact (Forall_inv HP)|]. apply IH. exact (Forall_inv_tail HP).
Qed.

Lemma skipn_Forall : forall n (l : list N), Forall P l -> Forall P (skipn n l).
Proof.
  induction n as [|n IH]; intros l HP; [exact HP|].
  destruct l as [|x t]; [constructor|]. cbn [skipn]. apply IH. exact (Forall_inv_tail HP).
Qed.

Lemma split_off_rest bs n a b :
  split_off bs n = Some (a, b) -> Forall P bs -> Forall P a /\ Forall P b.
Proof.
  unfold split_off. intros H HP. destruct (length bs <? n)%nat; [discriminate|].
  inversion H; subst. split; [apply firstn_Forall|apply skipn_Forall]; exact HP.
Qed.

Lemma rd_pack_ctx_rest r1 table len t :
  rd_pack_ctx r1 = Some (table, len, t) -> Forall P r1 -> Forall P t.
Proof.
  unfold rd_pack_ctx. intros H HP. destruct r1 as [|c t0]; [discriminate|].
  destruct (c =? 0); [discriminate|].
  destruct (split_off t0 (N.to_nat c)) as [[tb t1]|] eqn:ES; [|discriminate].
  destruct (read_uint7 t1) as [l t2| |] eqn:EU; try discriminate.
  inversion H; subst.
  eapply read_uint7_rest; [exact EU|].
  exact (proj2 (split_off_rest _ _ _ _ ES (Forall_inv_tail HP))).
Qed.

End Rest.

(* ---------- the normalised table ---------- *)

Lemma shift_up_inv : forall fuel tot sum sh sum' sh' k,
  shift_up fuel tot sum sh = (sum', sh') -> sum = k * sh -> sum' = k * sh'.
Proof.
  induction fuel as [|fu IH]; intros tot sum sh sum' sh' k H Hk; cbn [shift_up] in H.
  - inversion H; subst; reflexivity.
  - destruct (sum <? tot).
    + eapply IH; [exact H|]. subst sum. lia.
    + inversion H; subst; reflexivity.
Qed.

Lemma sumN_map_mul k : forall F, sumN (map (fun f => f * k) F) = sumN F * k.
Proof.
  induction F as [|x r IH]; cbn [map sumN]; [reflexivity|]. rewrite IH. lia.
Qed.

Lemma dec_normalize_sum tot F F' : dec_normalize tot F = Some F' -> sumN F' <= tot.
Proof.
  unfold dec_normalize. intros H.
  destruct (TWO32 <=? sumN F); [discriminate|].
  destruct ((sumN F =? 0) || (sumN F =? tot)) eqn:E.
  - inversion H; subst. lia.
  - destruct (shift_up 32 tot (sumN F) 1) as [sum' sh] eqn:ES.
    destruct (tot <? sum') eqn:EL; [discriminate|].
    inversion H; subst. rewrite sumN_map_mul.
    pose proof (shift_up_inv _ _ _ _ _ _ (sumN F) ES) as Hinv.
    assert (Hs : sum' = sumN F * sh) by (apply Hinv; lia).
    lia.
Qed.

Lemma read_freqs0_sum bs F r : read_freqs0 bs = Some (F, r) -> sumN F <= 4096.
Proof.
  unfold read_freqs0. intros H.
  destruct (read_alphabet bs) as [[A b1]|]; [|discriminate].
  destruct (rd_freqs A b1) as [[F0 b2]|]; [|discriminate].
  destruct (dec_normalize 4096 F0) as [F1|] eqn:EN; [|discriminate].
  inversion H; subst. eapply dec_normalize_sum. exact EN.
Qed.

(* ---------- the symbol search ---------- *)

Lemma cfs_ge : forall Ctl v s, s <= cfs Ctl v s.
Proof.
  induction Ctl as [|c r IH]; intros v s; cbn [cfs]; [lia|].
  destruct (c <=? v); [|lia]. specialize (IH v (s + 1)). lia.
Qed.

Lemma cfs_nth_le : forall Ctl v c0 s, c0 <= v ->
  nth (N.to_nat (cfs Ctl v s) - N.to_nat s) (c0 :: Ctl) 0 <= v.
Proof.
  induction Ctl as [|c r IH]; intros v c0 s Hc; cbn [cfs].
  - rewrite Nat.sub_diag. exact Hc.
  - destruct (c <=? v) eqn:E.
    + pose proof (cfs_ge r v (s + 1)) as Hge.
      replace (N.to_nat (cfs r v (s + 1)) - N.to_nat s)%nat
        with (S (N.to_nat (cfs r v (s + 1)) - N.to_nat (s + 1)))%nat by lia.
      cbn [nth]. apply IH. lia.
    + rewrite Nat.sub_diag. exact Hc.
Qed.

Lemma cfs_cum_le F v :
  nth (N.to_nat (cfs (tl (cumulative F)) v 0)) (cumulative F) 0 <= v.
Proof.
  destruct F as [|f r]; unfold cumulative; cbn [cumulative_go tl].
  - cbn [cfs]. destruct (N.to_nat 0); cbn [nth]; lia.
  - pose proof (cfs_nth_le (cumulative_go r (0 + f)) v 0 0) as H.
    change (N.to_nat 0) with 0%nat in H. rewrite Nat.sub_0_r in H. apply H. lia.
Qed.

(* ---------- one symbol ---------- *)

Notation u32 := (fun s : N => s < 4294967296).
Notation byte := (fun b : N => b < 256).

Lemma dec_renorm_ok s bs s2 bs' :
  s < 4294967296 -> Forall byte bs -> dec_renorm s bs = Some (s2, bs') ->
  s2 < 4294967296 /\ Forall byte bs'.
Proof.
  unfold dec_renorm. intros Hs HP H.
  destruct (s <? 32768) eqn:E.
  - destruct bs as [|lo [|hi r]]; try discriminate.
    inversion H; subst.
    pose proof (Forall_inv HP) as Hlo. pose proof (Forall_inv (Forall_inv_tail HP)) as Hhi.
    cbv beta in Hlo, Hhi. split; [lia|]. exact (Forall_inv_tail (Forall_inv_tail HP)).
  - inversion H; subst. split; [exact Hs|exact HP].
Qed.

(* any total 0 < tot (noodles: 2^bits, bits <= 15): f <= tot gives f * (s / tot) + s mod tot <= s *)
Lemma dec_step_ok_tot tot s f g :
  0 < tot -> s < 4294967296 -> f <= tot -> g <= s mod tot ->
  exists s1, dec_step tot s f g = ROk s1 /\ s1 < 4294967296.
Proof.
  intros Ht Hs Hf Hg. unfold dec_step.
  pose proof (N.div_mod' s tot) as Hdm.
  assert (Hp : f * (s / tot) <= tot * (s / tot)) by (apply N.mul_le_mono_r; exact Hf).
  set (q := s / tot) in *. set (m := s mod tot) in *. set (p := f * q) in *.
  set (t := tot * q) in *.
  unfold TWO32.
  destruct ((4294967296 <=? p + m) || (p + m <? g)) eqn:E; [exfalso; lia|].
  exists (p + m - g). split; [reflexivity|lia].
Qed.

Lemma dec_one_ok_tot tot F s bs :
  0 < tot -> s < 4294967296 -> sumN F <= tot -> Forall byte bs ->
  dec_one tot F (cumulative F) s bs <> RPanic /\
  forall sym s2 bs', dec_one tot F (cumulative F) s bs = ROk (sym, s2, bs') ->
    s2 < 4294967296 /\ Forall byte bs'.
Proof.
  intros Ht Hs HF HP. unfold dec_one.
  set (sym := cfs (tl (cumulative F)) (s mod tot) 0).
  pose proof (cfs_cum_le F (s mod tot)) as Hg. fold sym in Hg.
  pose proof (nth_le_sumN F (N.to_nat sym)) as Hf.
  destruct (dec_step_ok_tot tot s (nth (N.to_nat sym) F 0) (nth (N.to_nat sym) (cumulative F) 0)
              Ht Hs) as [s1 [E1 Hs1]]; [lia|exact Hg|].
  rewrite E1.
  destruct (dec_renorm s1 bs) as [[s2 bs2]|] eqn:ER.
  - split; [discriminate|]. intros sym' s2' bs' H. inversion H; subst.
    eapply dec_renorm_ok; [exact Hs1|exact HP|exact ER].
  - split; [discriminate|]. intros sym' s2' bs' H. discriminate.
Qed.

Lemma dec_one_ok F s bs :
  s < 4294967296 -> sumN F <= 4096 -> Forall byte bs ->
  dec_one 4096 F (cumulative F) s bs <> RPanic /\
  forall sym s2 bs', dec_one 4096 F (cumulative F) s bs = ROk (sym, s2, bs') ->
    s2 < 4294967296 /\ Forall byte bs'.
Proof. apply dec_one_ok_tot. lia. Qed.

(* ---------- the symbol loop ---------- *)

Lemma nxd0_loop_never_panics : forall n F st bs,
  sumN F <= 4096 -> st <> [] -> Forall u32 st -> Forall byte bs ->
  nxd0_loop n 4096 F (cumulative F) st bs <> RPanic.
Proof.
  induction n as [|n IH]; intros F st bs HF Hne Hst HP; cbn [nxd0_loop]; [discriminate|].
  destruct st as [|s others]; [contradiction|].
  pose proof (Forall_inv Hst) as Hs. cbv beta in Hs.
  destruct (dec_one_ok F s bs Hs HF HP) as [Hnp Hok].
  destruct (dec_one 4096 F (cumulative F) s bs) as [[[sym s2] bs']| |] eqn:E.
  - destruct (Hok sym s2 bs' eq_refl) as [Hs2 HP'].
    assert (Hnp2 : nxd0_loop n 4096 F (cumulative F) (others ++ [s2]) bs' <> RPanic).
    { apply IH; [exact HF| |apply Forall_app; split; [exact (Forall_inv_tail Hst)|]|exact HP'].
      - destruct others; discriminate.
      - constructor; [exact Hs2|constructor]. }
    destruct (nxd0_loop n 4096 F (cumulative F) (others ++ [s2]) bs'); try discriminate.
    exact Hnp2.
  - discriminate.
  - exfalso. apply Hnp. reflexivity.
Qed.

(* ---------- the states ---------- *)

Lemma take_le32_ok bs a r :
  Forall byte bs -> take_le32 bs = Some (a, r) -> a < 4294967296 /\ Forall byte r.
Proof.
  intros HP H. destruct bs as [|b0 [|b1 [|b2 [|b3 t]]]]; try discriminate.
  cbn [take_le32] in H. inversion H; subst.
  pose proof (Forall_inv HP) as H0. pose proof (Forall_inv_tail HP) as T0.
  pose proof (Forall_inv T0) as H1. pose proof (Forall_inv_tail T0) as T1.
  pose proof (Forall_inv T1) as H2. pose proof (Forall_inv_tail T1) as T2.
  pose proof (Forall_inv T2) as H3. pose proof (Forall_inv_tail T2) as T3.
  cbv beta in H0, H1, H2, H3. split; [lia|exact T3].
Qed.

Lemma rd_states_ok : forall n bs st r,
  Forall byte bs -> rd_states n bs = Some (st, r) ->
  length st = n /\ Forall u32 st /\ Forall byte r.
Proof.
  induction n as [|n IH]; intros bs st r HP H; cbn [rd_states] in H.
  - inversion H; subst. split; [reflexivity|]. split; [constructor|exact HP].
  - destruct (take_le32 bs) as [[a r1]|] eqn:ET; [|discriminate].
    destruct (rd_states n r1) as [[l r2]|] eqn:ER; [|discriminate].
    inversion H; subst.
    destruct (take_le32_ok _ _ _ HP ET) as [Ha HP1].
    destruct (IH _ _ _ HP1 ER) as [Hl [Hu HP2]].
    split; [cbn [length]; lia|]. split; [constructor; [exact Ha|exact Hu]|exact HP2].
Qed.

(* ---------- the order-0 decoder ---------- *)

(* For EVERY byte string, output length and state count > 0 the model of noodles' order-0 decoder
   returns bytes or an io::Error: the overflow-checked u32 state_step never overflows or underflows
   (whatever table and states the input describes), and the state list is never empty. *)
Theorem nxd0_decode_never_panics : forall bs len n,
  (0 < n)%nat -> Forall (fun b => b < 256) bs -> nxd0_decode bs len n <> RPanic.
Proof.
  intros bs len n Hn HP. unfold nxd0_decode.
  destruct (read_freqs0 bs) as [[F b2]|] eqn:EF; [|discriminate].
  pose proof (read_freqs0_sum _ _ _ EF) as HF.
  pose proof (read_freqs0_rest _ _ _ _ EF HP) as HP2.
  destruct (rd_states n b2) as [[st b3]|] eqn:ES; [|discriminate].
  destruct (rd_states_ok _ _ _ _ HP2 ES) as [Hl [Hu HP3]].
  apply nxd0_loop_never_panics; [exact HF| |exact Hu|exact HP3].
  intros Hnil. subst st. cbn [length] in Hl. lia.
Qed.

(* ---------- whole streams ---------- *)

Lemma state_count_pos f : (0 < state_count f)%nat.
Proof. unfold state_count. destruct (f_n32 f); lia. Qed.

Lemma rd_rle_ctx_ok nst r2 :
  (0 < nst)%nat -> Forall byte r2 ->
  rd_rle_ctx nst r2 <> RPanic /\
  forall meta len t, rd_rle_ctx nst r2 = ROk (meta, len, t) -> Forall byte t.
Proof.
  intros Hn HP. unfold rd_rle_ctx.
  destruct (read_uint7 r2) as [n t| |] eqn:E0;
    [|split; [discriminate|intros ? ? ? H; discriminate]..].
  pose proof (read_uint7_rest _ _ _ _ E0 HP) as HPt.
  destruct (read_uint7 t) as [len t1| |] eqn:E1;
    [|split; [discriminate|intros ? ? ? H; discriminate]..].
  pose proof (read_uint7_rest _ _ _ _ E1 HPt) as HPt1.
  destruct (N.even n).
  - destruct (read_uint7 t1) as [csize t2| |] eqn:E2;
      [|split; [discriminate|intros ? ? ? H; discriminate]..].
    pose proof (read_uint7_rest _ _ _ _ E2 HPt1) as HPt2.
    destruct (split_off t2 (N.to_nat csize)) as [[buf t3]|] eqn:ES;
      [|split; [discriminate|intros ? ? ? H; discriminate]].
    destruct (split_off_rest _ _ _ _ _ ES HPt2) as [HPbuf HPt3].
    pose proof (nxd0_decode_never_panics buf (N.to_nat (n / 2)) nst Hn HPbuf) as Hnp.
    destruct (nxd0_decode buf (N.to_nat (n / 2)) nst) as [meta| |].
    + split; [discriminate|]. intros meta' len' t' H. inversion H; subst. exact HPt3.
    + split; [discriminate|intros ? ? ? H; discriminate].
    + contradiction.
  - destruct (split_off t1 (N.to_nat (n / 2))) as [[meta t2]|] eqn:ES;
      [|split; [discriminate|intros ? ? ? H; discriminate]].
    destruct (split_off_rest _ _ _ _ _ ES HPt1) as [HPm HPt2].
    split; [discriminate|]. intros meta' len' t' H. inversion H; subst. exact HPt2.
Qed.

(* nx_decode_e_never_panics (whole streams, both orders) is in NV.Cram.Nx16O1Total *)

Print Assumptions nxd0_decode_never_panics.
