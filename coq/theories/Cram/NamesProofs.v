(* CRAM 3.1 name tokenizer (NV.Cram.Names): the entropy stage it uses, and the tokenizer.

     nx_decode_s_size_indep   a stream whose flag byte has NO_SIZE clear decodes the same whatever
                              size the caller passes
     nx_encode_e_flags        the flag byte rans_nx16::encode emits keeps NO_SIZE and STRIPE
     names_entropy_roundtrip  nx_decode_s (nx_encode_s_byte 0 buf) 0 = buf                        *)
From Coq Require Import List NArith ZArith Lia Bool PeanoNat.
From Coq Require Import ZifyBool ZifyNat ZifyN.
From NV Require Import Cram.Bytes Cram.Vlq Cram.IntProofs Cram.Rans4x8 Cram.Rans4x8Proofs
  Cram.Nx16Xform Cram.Nx16XformProofs Cram.Nx16O0 Cram.Nx16O0Total Cram.Nx16O1 Cram.Nx16O1Total
  Cram.Nx16Full Cram.Nx16FullProofs Cram.Nx16O1Full Cram.Nx16Stripe Cram.Nx16StripeLists
  Cram.Nx16StripeProofs Cram.Names.
Import ListNotations.
Ltac Zify.zify_post_hook ::= Z.div_mod_to_equations.
Open Scope N_scope.
Arguments N.add : simpl never.
Arguments N.sub : simpl never.
Arguments N.mul : simpl never.
Arguments N.div : simpl never.
Arguments N.modulo : simpl never.
Arguments N.pow : simpl never.
Arguments N.ltb : simpl never.
Arguments N.leb : simpl never.
Arguments N.eqb : simpl never.

(* ---------- (a) the entropy stage ---------- *)

Lemma nx_decode_e_size_indep : forall fb r u u',
  f_nosize (flags_of_byte fb) = false -> nx_decode_e (fb :: r) u = nx_decode_e (fb :: r) u'.
Proof. intros fb r u u' Hns. unfold nx_decode_e. cbv zeta. rewrite Hns. reflexivity. Qed.

Lemma nx_decode_s_size_indep : forall fb r u u',
  f_nosize (flags_of_byte fb) = false -> nx_decode_s (fb :: r) u = nx_decode_s (fb :: r) u'.
Proof.
  intros fb r u u' Hns. unfold nx_decode_s. rewrite !nx_decode_f_S. rewrite Hns.
  destruct (f_stripe (flags_of_byte fb)); [reflexivity|]. apply nx_decode_e_size_indep. exact Hns.
Qed.

Lemma nx_encode_e_flags : forall f src bytes,
  nx_encode_e f src = NeOk bytes -> Forall byte src -> N.of_nat (length src) < 268435456 ->
  exists b r, bytes = b :: r /\ f_nosize (flags_of_byte b) = f_nosize f /\
              f_stripe (flags_of_byte b) = f_stripe f.
Proof.
  intros f src bytes H Hb Hlen. unfold nx_encode_e in H.
  destruct (f_stripe f) eqn:Es; [discriminate H|].
  destruct (nx_pack_stage f src) as [[f1 s1] h1] eqn:E1.
  destruct (pack_stage_spec f src f1 s1 h1 E1 Hb ltac:(lia)) as ((_ & _ & _ & Hs1 & Hn1 & _) & _ & Hb1 & Hl1 & _).
  destruct (nx_rle_stage f1 s1) as [[f2 s2] h2] eqn:E2.
  destruct (rle_stage_spec f1 s1 f2 s2 h2 E2 Hb1 ltac:(lia)) as ((_ & _ & _ & Hs2 & Hn2 & _) & _).
  set (f3 := if (length s2 <? state_count f2)%nat then force_cat f2 else f2) in H.
  assert (H3 : f_nosize f3 = f_nosize f /\ f_stripe f3 = false).
  { unfold f3. destruct (length s2 <? state_count f2)%nat; cbn [force_cat f_nosize f_stripe];
      split; congruence. }
  destruct H3 as (H3n & H3s).
  destruct (nx_flags_roundtrip f3) as (Hfb & _).
  destruct (f_cat f3).
  - injection H as H. subst bytes. eexists. eexists. split; [reflexivity|]. rewrite Hfb. split; assumption.
  - destruct (if f_order f3 then nx_o1_encode (state_count f3) s2 else nx_o0_encode (state_count f3) s2)
      as [body| | |]; try discriminate H.
    injection H as H. subst bytes. eexists. eexists. split; [reflexivity|]. rewrite Hfb. split; assumption.
Qed.

Theorem names_entropy_roundtrip : forall buf,
  Forall byte buf -> N.of_nat (length buf) < 268435456 ->
  exists e, nx_encode_s_byte 0 buf = NeOk e /\ nx_decode_s e 0 = DOk buf.
Proof.
  intros buf Hb Hlen.
  destruct (nx_stripe_roundtrip (flags_of_byte 0) buf Hb Hlen) as (e & He & Hd).
  exists e. split; [exact He|].
  assert (Hee : nx_encode_e (flags_of_byte 0) buf = NeOk e) by exact He.
  destruct (nx_encode_e_flags _ buf e Hee Hb Hlen) as (b & r & Heq & Hns & _). subst e.
  rewrite (nx_decode_s_size_indep b r 0 (N.of_nat (length buf))); [exact Hd|].
  rewrite Hns. reflexivity.
Qed.

(* ---------- the tokenizer ---------- *)

Lemma nm_span_spec : forall (p : N -> bool) l a t, nm_span p l = (a, t) ->
  l = a ++ t /\ Forall (fun x => p x = true) a /\
  (a = [] -> match l with [] => True | x :: _ => p x = false end).
Proof.
  intros p. induction l as [|b r IH]; intros a t H; cbn [nm_span] in H.
  - injection H as Ha Ht. subst a t. split; [reflexivity|]. split; [constructor|]. intros _. exact I.
  - destruct (p b) eqn:Eb.
    + destruct (nm_span p r) as [a' t'] eqn:E. injection H as Ha Ht. subst a t.
      destruct (IH a' t' eq_refl) as (Hr & HF & _).
      split; [cbn [app]; rewrite <- Hr; reflexivity|]. split; [constructor; assumption|].
      intros Hn. discriminate Hn.
    + injection H as Ha Ht. subst a t. split; [reflexivity|]. split; [constructor|]. intros _. first [exact Eb|reflexivity].
Qed.

Lemma tokenize_go_cons : forall f count x b',
  tokenize_go (S f) count (x :: b') =
  if Nat.eqb count 126 then [x :: b']
  else
    let '(a, r) := nm_span nm_is_alnum (x :: b') in
    match a with
    | _ :: _ => a :: tokenize_go f (S count) r
    | [] =>
      let '(a2, r2) := nm_span (fun y => negb (nm_is_alnum y)) (x :: b') in
      a2 :: tokenize_go f (S count) r2
    end.
Proof. reflexivity. Qed.

(* a run of alphanumeric bytes, or a run without any *)
Definition homog (t : list N) : Prop :=
  Forall (fun x => nm_is_alnum x = true) t \/ Forall (fun x => nm_is_alnum x = false) t.

Lemma tokenize_go_spec : forall fuel count b, (length b < fuel)%nat ->
  concat (tokenize_go fuel count b) = b /\
  Forall (fun t => t <> []) (tokenize_go fuel count b) /\
  ((count <= 126)%nat -> (length (tokenize_go fuel count b) + count <= 127)%nat) /\
  ((length (tokenize_go fuel count b) + count < 127)%nat -> Forall homog (tokenize_go fuel count b)).
Proof.
  induction fuel as [|f IH]; intros count b Hlen; [lia|].
  destruct b as [|x b'].
  - change (tokenize_go (S f) count []) with (@nil (list N)).
    split; [reflexivity|]. split; [constructor|]. split; [cbn [length]; lia|]. intros _. constructor.
  - rewrite tokenize_go_cons. destruct (Nat.eqb_spec count 126) as [Hc|Hc].
    + split; [cbn [concat]; apply app_nil_r|]. split; [constructor; [discriminate|constructor]|].
      split; [cbn [length]; lia|]. cbn [length]. intros Hl. lia.
    + destruct (nm_span nm_is_alnum (x :: b')) as [a r] eqn:E1.
      destruct (nm_span_spec _ _ _ _ E1) as (Hs1 & HF1 & Hn1).
      destruct a as [|y a'].
      * destruct (nm_span (fun y => negb (nm_is_alnum y)) (x :: b')) as [a2 r2] eqn:E2.
        destruct (nm_span_spec _ _ _ _ E2) as (Hs2 & HF2 & Hn2).
        specialize (Hn1 eq_refl). cbv beta in Hn1.
        assert (Ha2 : a2 <> []).
        { intros Hn. specialize (Hn2 Hn). cbv beta in Hn2. rewrite Hn1 in Hn2. discriminate Hn2. }
        assert (Hlr : (length r2 < f)%nat).
        { assert (Hl : length (x :: b') = (length a2 + length r2)%nat) by (rewrite Hs2 at 1; apply app_length).
          destruct a2 as [|z a2']; [contradiction|]. cbn [length] in Hl, Hlen. lia. }
        destruct (IH (S count) r2 Hlr) as (Hc1 & Hc2 & Hc3 & Hc4).
        split; [cbn [concat]; rewrite Hc1; symmetry; exact Hs2|].
        split; [constructor; assumption|].
        split; [cbn [length]; intros Hle; assert (Hle' : (S count <= 126)%nat) by lia; specialize (Hc3 Hle'); lia|].
        cbn [length]. intros Hl. constructor; [|apply Hc4; lia].
        right. eapply Forall_impl; [|exact HF2]. intros z Hz. cbv beta in Hz.
        apply negb_true_iff in Hz. exact Hz.
      * assert (Hlr : (length r < f)%nat).
        { assert (Hl : length (x :: b') = (length (y :: a') + length r)%nat) by (rewrite Hs1 at 1; apply app_length).
          cbn [length] in Hl, Hlen. lia. }
        destruct (IH (S count) r Hlr) as (Hc1 & Hc2 & Hc3 & Hc4).
        split; [cbn [concat]; rewrite Hc1; symmetry; exact Hs1|].
        split; [constructor; [discriminate|assumption]|].
        split; [cbn [length]; intros Hle; assert (Hle' : (S count <= 126)%nat) by lia; specialize (Hc3 Hle'); lia|].
        cbn [length]. intros Hl. constructor; [|apply Hc4; lia]. left. exact HF1.
Qed.

(* the tokens of a name: they spell the name, none is empty, there are at most 126, and when there
   are fewer than 126 each is a run of alphanumeric bytes or a run without any *)
Theorem tokenize_concat : forall b, concat (tokenize b) = b.
Proof. intros b. unfold tokenize. apply (tokenize_go_spec (S (length b)) 1 b). lia. Qed.

Theorem tokenize_nonempty : forall b, Forall (fun t => t <> []) (tokenize b).
Proof. intros b. unfold tokenize. apply (tokenize_go_spec (S (length b)) 1 b). lia. Qed.

Theorem tokenize_count : forall b, (length (tokenize b) <= 126)%nat.
Proof.
  intros b. unfold tokenize.
  destruct (tokenize_go_spec (S (length b)) 1 b ltac:(lia)) as (_ & _ & H & _). specialize (H ltac:(lia)). lia.
Qed.

Theorem tokenize_homog : forall b, (length (tokenize b) < 126)%nat -> Forall homog (tokenize b).
Proof.
  intros b Hl. unfold tokenize in *.
  destruct (tokenize_go_spec (S (length b)) 1 b ltac:(lia)) as (_ & _ & _ & H). apply H. lia.
Qed.

(* the repaired parse_u32 is the plain decimal value of a non-empty token, whatever the token *)
Theorem parse_u32_nonempty : forall t, t <> [] -> parse_u32 t = digits_val t 0.
Proof. intros t Hne. destruct t as [|b r]; [contradiction|reflexivity]. Qed.

Theorem parse_u32_homog : forall t, homog t -> t <> [] -> parse_u32 t = digits_val t 0.
Proof. intros t _ Hne. apply parse_u32_nonempty. exact Hne. Qed.

Print Assumptions names_entropy_roundtrip.
Print Assumptions parse_u32_homog.
Print Assumptions tokenize_concat.
Print Assumptions tokenize_nonempty.
Print Assumptions tokenize_count.
Print Assumptions tokenize_homog.
