(* CRAM 3.1 adaptive arithmetic coder, the RLE modes (NV.Cram.AacRle): decode (encode x) = x.

     iter2_run_n        the decoder's bounded run-length loop (at most 2^k digits) finds the result
                        when the digits end in time
     run_spec           enc_run writes the base-4 digits of a run length, dec_run_step reads them back
     rle_loop_spec      the literal loops of encoder and decoder
     aac_rle_roundtrip  both orders; hypothesis: the input is shorter than 2^32 bytes              *)
From Coq Require Import List NArith ZArith Lia Bool PeanoNat.
From Coq Require Import ZifyBool ZifyNat ZifyN.
From NV Require Import Cram.Bytes Cram.Vlq Cram.Rans4x8 Cram.Nx16Xform Cram.Nx16XformProofs Cram.Nx16O0
  Cram.Aac Cram.AacRange Cram.AacProofs Cram.AacModes Cram.AacModesRt Cram.AacRle.
Import ListNotations.
Ltac Zify.zify_post_hook ::= Z.div_mod_to_equations.
Open Scope N_scope.
Arguments N.add : simpl never.
Arguments N.sub : simpl never.
Arguments N.mul : simpl never.
Arguments N.div : simpl never.
Arguments N.modulo : simpl never.
Arguments N.pow : simpl never.
Arguments N.ltb : simpl never.
Arguments N.leb : simpl never.
Arguments N.eqb : simpl never.
Arguments N.min : simpl never.

(* ---------- iter2 ---------- *)

(* at most j + 1 applications of the step *)
Fixpoint run_n {St Rs : Type} (j : nat) (step : St -> St + Rs) (s : St) : St + Rs :=
  match j with
  | O => step s
  | S j' => match step s with inl s' => run_n j' step s' | inr r => inr r end
  end.

Fixpoint pw2 (k : nat) : nat := match k with O => 1%nat | S k' => (2 * pw2 k')%nat end.

Lemma pw2_pos : forall k, (1 <= pw2 k)%nat.
Proof. induction k as [|k IH]; cbn [pw2]; lia. Qed.

Lemma pw2_N : forall k, N.of_nat (pw2 k) = 2 ^ N.of_nat k.
Proof.
  induction k as [|k IH]; [reflexivity|].
  cbn [pw2]. rewrite Nat2N.inj_succ, N.pow_succ_r', <- IH. lia.
Qed.

Lemma run_n_split : forall (St Rs : Type) (step : St -> St + Rs) a b s,
  run_n (a + S b) step s = match run_n a step s with inl s' => run_n b step s' | inr r => inr r end.
Proof.
  intros St Rs step. induction a as [|a IH]; intros b s.
  - reflexivity.
  - cbn [Nat.add run_n]. destruct (step s) as [s'|r]; [apply IH|reflexivity].
Qed.

Lemma iter2_is_run_n : forall (St Rs : Type) (step : St -> St + Rs) k s,
  iter2 k step s = run_n (pw2 k - 1) step s.
Proof.
  intros St Rs step. induction k as [|k IH]; intros s.
  - reflexivity.
  - pose proof (pw2_pos k) as Hp.
    replace (pw2 (S k) - 1)%nat with ((pw2 k - 1) + S (pw2 k - 1))%nat by (cbn [pw2]; lia).
    rewrite run_n_split. cbn [iter2]. rewrite IH.
    destruct (run_n (pw2 k - 1) step s) as [s'|r]; [apply IH|reflexivity].
Qed.

Lemma run_n_mono : forall (St Rs : Type) (step : St -> St + Rs) j j' s r,
  run_n j step s = inr r -> (j <= j')%nat -> run_n j' step s = inr r.
Proof.
  intros St Rs step. induction j as [|j IH]; intros j' s r H Hle.
  - cbn [run_n] in H. destruct j' as [|j']; cbn [run_n]; [exact H|]. rewrite H. reflexivity.
  - destruct j' as [|j']; [lia|]. cbn [run_n] in H. cbn [run_n].
    destruct (step s) as [s'|r']; [apply IH; [exact H|lia]|exact H].
Qed.

Lemma iter2_run_n : forall (St Rs : Type) (step : St -> St + Rs) k j s r,
  run_n j step s = inr r -> N.of_nat j < 2 ^ N.of_nat k -> iter2 k step s = inr r.
Proof.
  intros St Rs step k j s r H Hj. rewrite iter2_is_run_n.
  apply (run_n_mono St Rs step j); [exact H|]. rewrite <- pw2_N in Hj. lia.
Qed.

(* ---------- unfolding equations ---------- *)

Lemma enc_run_S : forall fu rs st ctx len,
  enc_run (S fu) rs st ctx len =
  match ctx_encode rs st ctx (N.min len 3) with
  | None => None
  | Some (rs', st', out) =>
    if N.min len 3 =? 3 then
      match enc_run fu rs' st' (next_rle_ctx ctx) (len - 3) with
      | None => None
      | Some (rs'', st'', out') => Some (rs'', st'', out ++ out')
      end
    else Some (rs', st', out)
  end.
Proof. reflexivity. Qed.

Lemma dec_run_step_eq : forall rs st bs ctx len,
  dec_run_step (rs, st, bs, ctx, len) =
  match ctx_decode rs st ctx bs with
  | ROk (rs', st', n, bs') =>
    if n =? 3 then inl (rs', st', bs', next_rle_ctx ctx, len + 3)
    else inr (ROk (rs', st', bs', len + n))
  | RErr => inr RErr
  | RPanic => inr RPanic
  end.
Proof. reflexivity. Qed.

Lemma enc_rle_loop_cons : forall fu o1 ms rs st prev sym r,
  enc_rle_loop (S fu) o1 ms rs st prev (sym :: r) =
  match ctx_encode ms st (if o1 then prev else 0) sym with
  | None => None
  | Some (ms', st1, out1) =>
    let '(len, rest) := span_eq sym r in
    match enc_run (S (S (N.to_nat (len / 3)))) rs st1 sym len with
    | None => None
    | Some (rs', st2, out2) =>
      match enc_rle_loop fu o1 ms' rs' st2 sym rest with
      | None => None
      | Some tl => Some (out1 ++ out2 ++ tl)
      end
    end
  end.
Proof. reflexivity. Qed.

Lemma dec_rle_loop_S : forall k' o1 ms rs st prev bs,
  dec_rle_loop (S k') o1 ms rs st prev bs =
  match ctx_decode ms st (if o1 then prev else 0) bs with
  | ROk (ms', st1, sym, b1) =>
    match dec_run rs st1 b1 sym with
    | ROk (rs', st2, b2, len) =>
      match dec_rle_loop (k' - Nat.min (N.to_nat len) k') o1 ms' rs' st2 sym b2 with
      | ROk out => ROk (sym :: repeat sym (Nat.min (N.to_nat len) k') ++ out)
      | e => e
      end
    | RErr => RErr
    | RPanic => RPanic
    end
  | RErr => RErr
  | RPanic => RPanic
  end.
Proof. reflexivity. Qed.

(* ---------- one run length ---------- *)

Lemma next_ctx_lt : forall ctx, next_rle_ctx ctx < 258.
Proof. intros ctx. unfold next_rle_ctx. destruct (ctx <? 256); lia. Qed.

Lemma run_spec : forall fuel rs st out ctx len,
  enc_ok st out -> Forall (mgood (below 4)) rs -> length rs = 258%nat -> ctx < 258 ->
  (N.to_nat (len / 3) < fuel)%nat ->
  exists rs' st' o, enc_run fuel rs st ctx len = Some (rs', st', o) /\
    Forall (mgood (below 4)) rs' /\ length rs' = 258%nat /\ enc_ok st' (out ++ o) /\
    forall W, Forall (fun b => b < 256) W -> nest W st' (out ++ o) (e_range st') ->
      nest W st out (e_range st) /\
      forall tail dst bs acc0, dec_follows W tail st out dst bs ->
        exists dst' bs',
          run_n (N.to_nat (len / 3)) dec_run_step (rs, dst, bs, ctx, acc0)
            = inr (ROk (rs', dst', bs', acc0 + len)) /\
          dec_follows W tail st' (out ++ o) dst' bs'.
Proof.
  induction fuel as [|fu IH]; intros rs st out ctx len Hok Hrs Hlen Hctx Hfuel; [lia|].
  rewrite enc_run_S.
  assert (Hd : below 4 (N.min len 3)) by (unfold below; lia).
  assert (Hcl : (N.to_nat ctx < length rs)%nat) by lia.
  destruct (ctx_spec (below 4) rs st out ctx (N.min len 3) Hok Hrs Hcl Hd)
    as (rs1 & st1 & o1 & Henc & Hrs1 & Hlen1 & Hok1 & Hdec1).
  rewrite Henc.
  destruct (N.eqb_spec (N.min len 3) 3) as [H3|H3].
  - (* a digit 3: more follows *)
    assert (Hl1 : length rs1 = 258%nat) by lia.
    assert (Hfu1 : (N.to_nat ((len - 3) / 3) < fu)%nat) by lia.
    destruct (IH rs1 st1 (out ++ o1) (next_rle_ctx ctx) (len - 3) Hok1 Hrs1 Hl1
                 (next_ctx_lt ctx) Hfu1)
      as (rs2 & st2 & o2 & Henc2 & Hrs2 & Hlen2 & Hok2 & Hdec2).
    rewrite Henc2. exists rs2, st2, (o1 ++ o2). split; [reflexivity|].
    rewrite app_assoc. split; [exact Hrs2|]. split; [exact Hlen2|]. split; [exact Hok2|].
    intros W HF Hnest. destruct (Hdec2 W HF Hnest) as (Hnest1 & Hd2).
    destruct (Hdec1 W HF Hnest1) as (Hnest0 & Hd1). split; [exact Hnest0|].
    intros tail dst bs acc0 Hfol.
    destruct (Hd1 tail dst bs Hfol) as (dst1 & bs1 & Hcd & Hfol1).
    destruct (Hd2 tail dst1 bs1 (acc0 + 3) Hfol1) as (dst2 & bs2 & Hrun & Hfol2).
    exists dst2, bs2. split; [|exact Hfol2].
    replace (N.to_nat (len / 3)) with (S (N.to_nat ((len - 3) / 3))) by lia.
    cbn [run_n]. rewrite dec_run_step_eq, Hcd.
    replace (N.min len 3 =? 3) with true by (symmetry; apply N.eqb_eq; exact H3).
    rewrite Hrun. replace (acc0 + 3 + (len - 3)) with (acc0 + len) by lia. reflexivity.
  - (* the last digit *)
    exists rs1, st1, o1. split; [reflexivity|].
    split; [exact Hrs1|]. split; [lia|]. split; [exact Hok1|].
    intros W HF Hnest. destruct (Hdec1 W HF Hnest) as (Hnest0 & Hd1). split; [exact Hnest0|].
    intros tail dst bs acc0 Hfol.
    destruct (Hd1 tail dst bs Hfol) as (dst1 & bs1 & Hcd & Hfol1).
    exists dst1, bs1. split; [|exact Hfol1].
    replace (N.to_nat (len / 3)) with 0%nat by lia.
    cbn [run_n]. rewrite dec_run_step_eq, Hcd.
    replace (N.min len 3 =? 3) with false by (symmetry; apply N.eqb_neq; exact H3).
    replace (N.min len 3) with len by lia. reflexivity.
Qed.

(* ---------- the literal loops ---------- *)

Lemma rle_loop_spec : forall (P : N -> Prop) (o1 : bool) fuel src ms rs st out prev,
  (forall s, P s -> (N.to_nat (if o1 then s else 0) < length ms)%nat /\ s < 256) ->
  (length src < fuel)%nat -> N.of_nat (length src) < 4294967296 ->
  enc_ok st out -> Forall (mgood P) ms -> (N.to_nat (if o1 then prev else 0) < length ms)%nat ->
  Forall (mgood (below 4)) rs -> length rs = 258%nat -> Forall P src ->
  exists rest, enc_rle_loop fuel o1 ms rs st prev src = Some rest /\
    Forall (fun b => b < 256) (out ++ rest) /\ nest (out ++ rest) st out (e_range st) /\
    forall tail dst bs, dec_follows (out ++ rest) tail st out dst bs ->
      dec_rle_loop (length src) o1 ms rs dst prev bs = ROk src.
Proof.
  intros P o1. induction fuel as [|fu IH];
    intros src ms rs st out prev HP Hfuel Hlen32 Hok Hms Hprev Hrs Hrl Hsrc; [lia|].
  destruct src as [|sym r].
  - exists (rc_encode_end 5 st). split; [reflexivity|].
    destruct (end_spec5 st out Hok) as (HF & Hnest).
    split; [exact HF|]. split; [exact Hnest|]. intros tail dst bs _. reflexivity.
  - inversion Hsrc as [|x' src' Hpx Hrest]; subst.
    destruct (HP sym Hpx) as (Hcx & Hs256).
    destruct (ctx_spec P ms st out (if o1 then prev else 0) sym Hok Hms Hprev Hpx)
      as (ms' & st1 & oa & Henc & Hms' & Hlen' & Hok1 & Hdec1).
    rewrite enc_rle_loop_cons, Henc.
    destruct (span_eq sym r) as [len rest0] eqn:Esp.
    destruct (span_eq_spec sym r len rest0 Esp) as (Hr & Hrl0).
    cbn [length] in Hfuel, Hlen32.
    assert (Hs258 : sym < 258) by lia.
    assert (Hfu2 : (N.to_nat (len / 3) < S (S (N.to_nat (len / 3))))%nat) by lia.
    destruct (run_spec (S (S (N.to_nat (len / 3)))) rs st1 (out ++ oa) sym len Hok1 Hrs Hrl
                Hs258 Hfu2)
      as (rs' & st2 & ob & Hrun & Hrs' & Hrl' & Hok2 & Hdec2).
    rewrite Hrun.
    assert (Hrest0 : Forall P rest0).
    { rewrite Hr in Hrest. apply Forall_app in Hrest. exact (proj2 Hrest). }
    destruct (IH rest0 ms' rs' st2 ((out ++ oa) ++ ob) sym) as (tl & Hloop & HF & Hnest & Hdl);
      [intros s Hs; rewrite Hlen'; apply HP; exact Hs|lia|lia|exact Hok2|exact Hms'
      |rewrite Hlen'; exact Hcx|exact Hrs'|exact Hrl'|exact Hrest0|].
    rewrite Hloop. exists (oa ++ ob ++ tl). split; [reflexivity|].
    rewrite !app_assoc. split; [exact HF|].
    destruct (Hdec2 _ HF Hnest) as (Hnest1 & Hd2).
    destruct (Hdec1 _ HF Hnest1) as (Hnest0 & Hd1). split; [exact Hnest0|].
    intros tail dst bs Hfol.
    destruct (Hd1 tail dst bs Hfol) as (dst1 & bs1 & Hcd & Hfol1).
    destruct (Hd2 tail dst1 bs1 0 Hfol1) as (dst2 & bs2 & Hrn & Hfol2).
    cbn [length]. rewrite dec_rle_loop_S, Hcd. unfold dec_run.
    rewrite (iter2_run_n _ _ dec_run_step 48 (N.to_nat (len / 3)) _ _ Hrn).
    2:{ change (2 ^ N.of_nat 48) with 281474976710656. lia. }
    rewrite N.add_0_l.
    replace (Nat.min (N.to_nat len) (length r)) with (N.to_nat len) by lia.
    replace (length r - N.to_nat len)%nat with (length rest0) by lia.
    rewrite (Hdl tail dst2 bs2 Hfol2). rewrite <- Hr. reflexivity.
Qed.

(* ---------- rle::order_0 / rle::order_1 ---------- *)

Theorem aac_rle_roundtrip_tail : forall o1 src tail,
  src <> [] -> Forall (fun b => b < 256) src -> N.of_nat (length src) < 4294967296 ->
  exists body, aac_rle_encode o1 src = Some body /\
               aac_rle_decode o1 (body ++ tail) (length src) = ROk src.
Proof.
  intros o1 src tail _ Hbytes Hlen.
  pose proof (max_sym_lt src Hbytes) as Hmax.
  set (n := S (N.to_nat (max_sym src))).
  assert (Hn : (1 <= n <= 256)%nat) by (unfold n; lia).
  set (ms := if o1 then repeat (model_new n) n else [model_new n]).
  destruct (rle_loop_spec (below n) o1 (S (length src)) src ms rle_models0 rc_enc_init [] 0)
    as (rest & Hloop & HF & Hnest & Hdl).
  - intros s Hs. unfold below in Hs. split; [|lia].
    unfold ms. destruct o1; [rewrite repeat_length; exact Hs|cbn [length]; change (N.to_nat 0) with 0%nat; lia].
  - lia.
  - exact Hlen.
  - exact enc_init_ok.
  - unfold ms. destruct o1; [apply Forall_repeat_gen|constructor; [|constructor]];
      apply model_new_good; lia.
  - unfold ms. destruct o1; [rewrite repeat_length|cbn [length]]; change (N.to_nat 0) with 0%nat; lia.
  - unfold rle_models0. apply Forall_repeat_gen. apply model_new_good. lia.
  - unfold rle_models0. apply repeat_length.
  - exact (src_below src).
  - cbn [app] in HF, Hnest, Hdl.
    unfold aac_rle_encode. fold n. fold ms. rewrite Hloop. eexists. split; [reflexivity|].
    destruct (dec_new_follows rest tail HF Hnest) as (dst & bs & Hnew & Hfol).
    cbn [app]. unfold aac_rle_decode. rewrite (count_byte n Hn), Hnew. fold ms.
    exact (Hdl tail dst bs Hfol).
Qed.

Theorem aac_rle_roundtrip : forall o1 src,
  src <> [] -> Forall (fun b => b < 256) src -> N.of_nat (length src) < 4294967296 ->
  exists body, aac_rle_encode o1 src = Some body /\ aac_rle_decode o1 body (length src) = ROk src.
Proof.
  intros o1 src Hne Hb Hl. destruct (aac_rle_roundtrip_tail o1 src [] Hne Hb Hl) as (body & He & Hd).
  rewrite app_nil_r in Hd. exists body. split; assumption.
Qed.

Print Assumptions aac_rle_roundtrip_tail.
Print Assumptions aac_rle_roundtrip.
