(* Proofs about the rANS Nx16 order-0 model: 16-bit renormalisation and state update inverted by
   noodles' decoder, the symbol search over the cumulative table, the N-way interleaved symbol
   loop decoded back to the input (any N > 0), the table built by normalize_frequencies (sums to
   exactly 4096, every used symbol >= 1). *)
From Coq Require Import List NArith ZArith Lia Bool PeanoNat.
From Coq Require Import ZifyBool ZifyNat ZifyN.
From NV Require Import Cram.Bytes Cram.Vlq Cram.IntProofs Cram.Rans4x8 Cram.Rans4x8Proofs Cram.Nx16O0.
Import ListNotations.
Ltac Zify.zify_post_hook ::= Z.div_mod_to_equations.
Open Scope N_scope.
Arguments N.add : simpl never.
Arguments N.sub : simpl never.
Arguments N.mul : simpl never.
Arguments N.div : simpl never.
Arguments N.modulo : simpl never.
Arguments N.pow : simpl never.
Arguments N.ltb : simpl never.
Arguments N.leb : simpl never.
Arguments N.eqb : simpl never.

(* ---------- state update ---------- *)

(* noodles' decoder step undoes the encoder step; its u32 arithmetic neither overflows nor
   underflows on a state the encoder produced *)
Lemma dec_step_enc x f c :
  0 < f -> c + f <= 4096 -> x < 2147483648 ->
  (enc_step x f c) mod 4096 = c + x mod f /\ dec_step 4096 (enc_step x f c) f c = ROk x.
Proof.
  intros Hf Hc Hx. unfold enc_step, dec_step.
  pose proof (N.div_mod' x f) as Hdm.
  assert (Hr : x mod f < f) by (apply N.mod_lt; lia).
  set (q := x / f) in *. set (r := x mod f) in *.
  assert (Hm : (q * 4096 + r + c) mod 4096 = c + r) by lia.
  assert (Hd : (q * 4096 + r + c) / 4096 = q) by lia.
  rewrite Hm, Hd. split; [reflexivity|].
  unfold TWO32.
  replace ((4294967296 <=? f * q + (c + r)) || (f * q + (c + r) <? c)) with false
    by (symmetry; apply orb_false_iff; split; nia).
  f_equal. nia.
Qed.

(* the encoder's renormalised state x in [2^3 f, 2^19 f) is mapped into [2^15, 2^31) *)
Lemma nx_step_range x f c :
  0 < f -> c + f <= 4096 -> 8 * f <= x -> x < 524288 * f ->
  NX_LOWER <= enc_step x f c < 2147483648.
Proof.
  intros Hf Hc Hlo Hhi. unfold enc_step, NX_LOWER.
  assert (Hq1 : 8 <= x / f) by (apply N.div_le_lower_bound; lia).
  assert (Hq2 : x / f < 524288) by (apply N.div_lt_upper_bound; lia).
  assert (Hr : x mod f < f) by (apply N.mod_lt; lia).
  set (q := x / f) in *. set (r := x mod f) in *. lia.
Qed.

(* ---------- renormalisation ---------- *)

Definition state_ok16 (s : N) : Prop := NX_LOWER <= s < 2147483648.

(* at most one 16-bit word is emitted, and the decoder's single conditional read restores it *)
Theorem nx_renorm_inverse s f stack :
  state_ok16 s -> 0 < f -> f <= 4096 ->
  exists s1 em,
    enc_renorm16 3 s f stack = Some (s1, em ++ stack) /\
    (forall tail, dec_renorm s1 (em ++ tail) = Some (s, tail)) /\
    8 * f <= s1 < 524288 * f.
Proof.
  intros [Hlo Hhi] Hf Hf2. unfold NX_LOWER in Hlo. cbn [enc_renorm16].
  destruct (524288 * f <=? s) eqn:E1.
  - replace (524288 * f <=? s / 65536) with false by lia.
    exists (s / 65536), [s mod 256; (s / 256) mod 256]. split; [reflexivity|]. split.
    + intros tail. unfold dec_renorm. cbn [app].
      replace (s / 65536 <? 32768) with true by lia. f_equal. f_equal. lia.
    + lia.
  - exists s, []. split; [reflexivity|]. split.
    + intros tail. unfold dec_renorm. cbn [app]. replace (s <? 32768) with false by lia. reflexivity.
    + lia.
Qed.

(* ---------- cumulative table and symbol search ---------- *)

(* cumulative_frequencies_symbol inverts the cumulative table on every slot of a symbol's interval *)
Lemma cfs_correct : forall F acc x r s,
  (x < length F)%nat -> r < nth x F 0 ->
  cfs (tl (cumulative_go F acc)) (acc + sumN (firstn x F) + r) s = s + N.of_nat x.
Proof.
  induction F as [|f rest IH]; intros acc x r s Hx Hr; [inversion Hx|].
  cbn [cumulative_go tl]. destruct x as [|x'].
  - cbn [firstn sumN nth] in *. destruct rest as [|f2 rest2]; cbn [cumulative_go cfs].
    + lia.
    + replace (acc + f <=? acc + 0 + r) with false by lia. lia.
  - cbn [firstn sumN nth length] in *.
    destruct rest as [|f2 rest2]; [cbn [length] in Hx; lia|].
    specialize (IH (acc + f) x' r (s + 1) ltac:(lia) Hr).
    cbn [cumulative_go tl] in IH. cbn [cumulative_go cfs].
    replace (acc + f <=? acc + (f + sumN (firstn x' (f2 :: rest2))) + r) with true by lia.
    replace (acc + (f + sumN (firstn x' (f2 :: rest2))) + r)
      with (acc + f + sumN (firstn x' (f2 :: rest2)) + r) by lia.
    rewrite IH. lia.
Qed.

(* ---------- one symbol ---------- *)

Lemma dec_one_enc F x s1 em d rest :
  sumN F <= 4096 -> (N.to_nat x < length F)%nat -> 0 < nth (N.to_nat x) F 0 ->
  8 * nth (N.to_nat x) F 0 <= s1 < 524288 * nth (N.to_nat x) F 0 ->
  (forall tail, dec_renorm s1 (em ++ tail) = Some (d, tail)) ->
  dec_one 4096 F (cumulative F)
          (enc_step s1 (nth (N.to_nat x) F 0) (nth (N.to_nat x) (cumulative F) 0)) (em ++ rest)
  = ROk (x, d, rest).
Proof.
  intros Hsum Hx Hf Hs1 Hrd.
  set (f := nth (N.to_nat x) F 0) in *.
  rewrite cumulative_nth by exact Hx.
  set (c := sumN (firstn (N.to_nat x) F)).
  assert (Hcf : c + f <= 4096) by (pose proof (sum_firstn_nth_le F _ Hx); unfold c, f; lia).
  assert (Hs31 : s1 < 2147483648) by lia.
  destruct (dec_step_enc s1 f c Hf Hcf Hs31) as [Hm Ha].
  unfold dec_one. rewrite Hm.
  assert (Hsym : cfs (tl (cumulative F)) (c + s1 mod f) 0 = x).
  { unfold cumulative, c. replace (sumN (firstn (N.to_nat x) F) + s1 mod f)
      with (0 + sumN (firstn (N.to_nat x) F) + s1 mod f) by lia.
    rewrite cfs_correct; [lia|exact Hx|apply N.mod_lt; lia]. }
  rewrite Hsym. fold f. rewrite cumulative_nth by exact Hx. fold c. rewrite Ha, Hrd. reflexivity.
Qed.

(* ---------- the interleaved symbol loop, any number of states ---------- *)

Lemma rotr_cases (st : list N) : st <> [] -> exists s others, rotr st = s :: others /\ st = others ++ [s].
Proof.
  intros Hne. unfold rotr. destruct (rev st) as [|x r] eqn:E.
  - exfalso. apply Hne. rewrite <- (rev_involutive st), E. reflexivity.
  - exists x, (rev r). split; [reflexivity|].
    rewrite <- (rev_involutive st), E. reflexivity.
Qed.

Theorem nx_o0_core_roundtrip n : (0 < n)%nat -> forall src F,
  table_ok F src ->
  exists st stack,
    nx_enc_symbols n F (cumulative F) src = Some (st, stack) /\
    length st = n /\ Forall state_ok16 st /\
    forall tail, nxd0_loop (length src) 4096 F (cumulative F) st (stack ++ tail) = ROk src.
Proof.
  intros Hn. induction src as [|x r IH]; intros F [Hsum Hsym].
  - exists (repeat NX_LOWER n), []. split; [reflexivity|]. split; [apply repeat_length|]. split.
    + apply Forall_forall. intros y Hy. apply repeat_spec in Hy. subst y.
      unfold state_ok16, NX_LOWER. lia.
    + intros tail. reflexivity.
  - destruct (IH F) as [st [stack [He [Hlen [Hok Hdec]]]]].
    { split; [exact Hsum|]. intros y Hy. apply Hsym. right. exact Hy. }
    assert (Hne : st <> []) by (intro Hc; subst st; cbn [length] in Hlen; lia).
    destruct (rotr_cases st Hne) as [s [others [Hrot Hst]]].
    destruct (Hsym x (or_introl eq_refl)) as [Hx Hf].
    set (f := nth (N.to_nat x) F 0) in *.
    assert (Hok' : Forall state_ok16 others /\ state_ok16 s).
    { rewrite Hst in Hok. apply Forall_app in Hok. destruct Hok as [H1 H2].
      split; [exact H1|]. inversion H2; assumption. }
    destruct Hok' as [Hoth Hs].
    assert (Hf4096 : f <= 4096).
    { pose proof (sum_firstn_nth_le F _ Hx) as H. fold f in H. lia. }
    destruct (nx_renorm_inverse s f stack Hs Hf Hf4096) as [s1 [em [Hr [Hrd Hb]]]].
    exists (enc_step s1 f (nth (N.to_nat x) (cumulative F) 0) :: others), (em ++ stack).
    split.
    { cbn [nx_enc_symbols]. rewrite He, Hrot. fold f. rewrite Hr. reflexivity. }
    split.
    { cbn [length]. rewrite Hst, app_length in Hlen. cbn [length] in Hlen. lia. }
    split.
    { constructor; [|exact Hoth].
      unfold state_ok16. rewrite cumulative_nth by exact Hx.
      apply nx_step_range; try lia.
      pose proof (sum_firstn_nth_le F _ Hx) as H. fold f in H. lia. }
    intros tail. cbn [length nxd0_loop]. rewrite <- app_assoc.
    unfold f. rewrite (dec_one_enc F x s1 em s (stack ++ tail) Hsum Hx Hf Hb Hrd).
    rewrite <- Hst, Hdec. reflexivity.
Qed.

(* ---------- the table produced by normalize_frequencies ---------- *)

Lemma describe_go_index : forall l i mx mi sum,
  (fst (describe_go l i mx mi sum) = mi \/
   (i <= fst (describe_go l i mx mi sum) < i + length l))%nat.
Proof.
  induction l as [|f r IH]; intros i mx mi sum; cbn [describe_go fst length]; [left; reflexivity|].
  destruct (mx <=? f).
  - destruct (IH (S i) f i (sum + f)) as [H|H]; right; lia.
  - destruct (IH (S i) mx mi (sum + f)) as [H|H]; [left; exact H|right; lia].
Qed.

(* The table nx_normalize builds: same length, sums to EXACTLY 4096 unless the input is empty,
   every symbol that occurs keeps a frequency of at least 1. *)
Lemma nx_normalize_table raw F :
  length raw = 256%nat -> nx_normalize raw = Some F ->
  length F = 256%nat /\ (0 < sumN raw -> sumN F = 4096) /\
  (forall i, 0 < nth i raw 0 -> 0 < nth i F 0).
Proof.
  intros Hl. unfold nx_normalize.
  pose proof (describe_sum raw) as Hd.
  destruct (describe_frequencies raw) as [mi sum] eqn:Edesc. cbn [snd] in Hd.
  destruct (TWO32 <=? sum); [discriminate|].
  destruct (sum =? 0) eqn:Es.
  { intros H; inversion H; subst F. split; [apply repeat_length|]. split.
    - intros Hp. lia.
    - intros i Hi. exfalso. pose proof (nth_le_sumN raw i). lia. }
  set (g := fun f => if f =? 0 then 0 else N.max (f * 4096 / sum) 1).
  set (nf := map g raw). set (nsum := sumN nf).
  assert (Hnf : length nf = 256%nat) by (unfold nf; rewrite map_length; exact Hl).
  assert (Hpos : forall i, 0 < nth i raw 0 -> 0 < nth i nf 0).
  { intros i Hi. unfold nf. change 0 with (g 0) at 2. rewrite map_nth. unfold g.
    destruct (nth i raw 0 =? 0) eqn:E; lia. }
  (* the index of the maximum is inside the table *)
  assert (Hmi : (mi < length nf)%nat).
  { rewrite Hnf. pose proof (describe_go_index raw 0 0 0 0) as Hi. unfold describe_frequencies in Edesc.
    rewrite Edesc in Hi. cbn [fst] in Hi. rewrite Hl in Hi. lia. }
  destruct (nsum <? 4096) eqn:E1.
  { intros H; inversion H; subst F. split; [rewrite upd_length; exact Hnf|]. split.
    - intros _. pose proof (sumN_upd nf mi (nth mi nf 0 + (4096 - nsum)) Hmi) as Hs. fold nsum in Hs. lia.
    - intros i Hi. specialize (Hpos i Hi). destruct (Nat.eq_dec mi i) as [->|Hne].
      + rewrite nth_upd_eq by exact Hmi. lia.
      + rewrite nth_upd_neq by exact Hne. exact Hpos. }
  destruct (4096 <? nsum) eqn:E2.
  { set (e := nsum - 4096). set (n0 := N.min e (nth mi nf 0 - 1)).
    set (nf1 := upd nf mi (nth mi nf 0 - n0)).
    intros H; inversion H; subst F.
    assert (Hnf1 : length nf1 = 256%nat) by (unfold nf1; rewrite upd_length; exact Hnf).
    assert (Hs1 : sumN nf1 + n0 = nsum).
    { unfold nf1. pose proof (sumN_upd nf mi (nth mi nf 0 - n0) Hmi) as Hs. fold nsum in Hs.
      unfold n0 in *. lia. }
    split; [rewrite take_excess_length; exact Hnf1|]. split.
    - intros _. destruct (take_excess_sum nf1 (e - n0)) as [H1 [H2 H3]].
      destruct H3 as [H3|H3].
      + rewrite H3 in H1. unfold e, n0 in *. lia.
      + rewrite Hnf1 in H3. unfold e, n0 in *. lia.
    - intros i Hi. specialize (Hpos i Hi). apply take_excess_pos. unfold nf1.
      destruct (Nat.eq_dec mi i) as [->|Hne].
      + rewrite nth_upd_eq by exact Hmi. unfold n0. lia.
      + rewrite nth_upd_neq by exact Hne. exact Hpos. }
  intros H; inversion H; subst F. split; [exact Hnf|]. split; [fold nsum; lia|exact Hpos].
Qed.
