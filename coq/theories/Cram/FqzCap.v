(* fqzcomp, the decoder of NV.Cram.Fqz with the declared output size (`vec![0; uncompressed_size]`,
   its only hostile size: the tables are bounded by 1024 / 256 and a record length is checked against
   the slots left) guarded by [cap] (see NV.Cram.Cap).
   NV.Cram.FqzCapProofs: fqz_decode_c equals fqz_decode unless it says Capped. *)
From Coq Require Import List NArith Bool PeanoNat.
From NV Require Import Cram.Bytes Cram.Vlq Cram.Nx16O0 Cram.Aac Cram.Fqz Cram.Cap.
Import ListNotations.
Open Scope N_scope.

Definition fqz_decode_c (cap : N) (bs : list N) : capped fqzd_result :=
  match read_uint7 bs with
  | U7Ok size b0 =>
    match b0 with
    | ver :: gfl :: b1 =>
      if negb (ver =? 5) then Within FErr
      else if negb (gfl mod 8 =? 0) then Within FUnsupported
      else
        match b1 with
        | c0 :: c1 :: pfl :: maxsym :: qq :: qs :: pd :: b2 =>
          if negb ((pfl / 2) mod 2 =? 0) || negb ((pfl / 8) mod 2 =? 0) || negb ((pfl / 16) mod 2 =? 0)
             || negb ((pfl / 64) mod 2 =? 0) || negb ((pfl / 128) mod 2 =? 0) then Within FUnsupported
          else
            match (if (pfl / 32) mod 2 =? 0 then Some (None, b2)
                   else match read_array b2 1024 with
                        | Some (t, r) => Some (Some t, r)
                        | None => None
                        end) with
            | None => Within FErr
            | Some (ptab, b3) =>
              let pr := {| p_context := c0 + 256 * c1; p_fixed_len := negb ((pfl / 4) mod 2 =? 0);
                           p_qbits := qq / 16; p_qshift := qq mod 16; p_qloc := qs / 16;
                           p_ploc := pd / 16; p_ptab := ptab |} in
              match rc_dec_new b3 with
              | None => Within FErr
              | Some (st, b4) =>
                with_cap cap size (fun k =>
                  Within
                    match fqz_dec_loop k pr (fqz_models_new (S (N.to_nat maxsym))) st true
                                       0 0 0 0 b4 with
                    | ROk out => FOk out
                    | RErr => FErr
                    | RPanic => FPanic
                    end)
              end
            end
        | _ => Within FErr
        end
    | _ => Within FErr
    end
  | _ => Within FErr
  end.

Definition fqz_decode_capped (bs : list N) : capped fqzd_result := fqz_decode_c model_cap bs.
