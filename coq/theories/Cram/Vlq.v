(* uint7 (7-bit variable-length quantity, most significant group first): bit-exact model of
   noodles-cram src/io/writer/num/vlq.rs (write_uint7) and src/io/reader/num/vlq.rs (read_uint7).

   writer: buf[4] = n & 0x7f; n >>= 7; while n > 0 { i -= 1; buf[i] = (n & 0x7f) | 0x80; n >>= 7 }.
   For a u32 the loop runs at most 4 times (fuel 4 below; with more the Rust index would underflow,
   which cannot happen for n < 2^32 -- see [uint7_fuel_enough] in VlqProofs).
   reader: at most MAX_SIZE = 5 bytes, `n <<= 7` silently drops the bits shifted out of the u32. *)
From Coq Require Import List NArith.
Import ListNotations.
Open Scope N_scope.

Fixpoint uint7_go (fuel : nat) (m : N) (acc : list N) : list N :=
  match fuel with
  | O => acc
  | S f => if m =? 0 then acc else uint7_go f (m / 128) ((m mod 128 + 128) :: acc)
  end.

Definition write_uint7 (n : N) : list N := uint7_go 4 (n / 128) [n mod 128].

Inductive u7_result :=
| U7Ok (n : N) (rest : list N)
| U7Eof               (* Err(UnexpectedEof) *)
| U7Invalid.          (* Err(InvalidData): more than 5 bytes *)

Fixpoint read_uint7_go (bs : list N) (n : N) (len : nat) : u7_result :=
  match bs with
  | [] => U7Eof
  | b :: r =>
    if Nat.ltb 5 (S len) then U7Invalid
    else
      let n' := (n * 128) mod 4294967296 + b mod 128 in
      if b <? 128 then U7Ok n' r else read_uint7_go r n' (S len)
  end.

Definition read_uint7 (bs : list N) : u7_result := read_uint7_go bs 0 0.

Definition uint7_size (n : N) : nat :=
  if n <? 2^7 then 1 else if n <? 2^14 then 2 else if n <? 2^21 then 3 else if n <? 2^28 then 4 else 5.
