(* CRAM 3.1 name tokenizer codec: model of noodles-cram
     src/codecs/name_tokenizer.rs          (Type and its u8 conversions)
     src/codecs/name_tokenizer/encode.rs   (encode, tokenize, build_first_diff, build_diff, parse_*,
                                            TokenWriter, encode_token_byte_streams)
     src/codecs/name_tokenizer/decode.rs   (decode, TokenReader, decode_token_byte_streams,
                                            decode_single_name)
     src/codecs/name_tokenizer/decode/header.rs (read_header)

   Bytes are N values < 256, byte strings are [list N].

   ENCODER ([names_encode]).
   * src.strip_suffix([NUL]) (one trailing NUL at most), src.split(NUL) (an empty input is ONE empty
     name), header = u32le(len after the strip) ++ u32le(name count) ++ [0] (use_arith is always 0).
   * tokenize: maximal runs of ASCII alphanumeric / non-alphanumeric bytes; the 126th call of the
     iterator returns the whole remainder when it is not empty.
   * parse_u32 (as repaired by /repo fc00545): Some n iff the byte string is non-empty, all of it
     '0'..'9', and its value is <= u32::MAX (leading zeros never overflow).  Before the repair
     lexical_core::parse::<u32> also consumed one leading '+', which could only matter for the 126th
     token (the unsplit remainder) and lost the sign there.
   * build_first_diff / build_diff, with names_indices (a HashMap filled with
     entry(name).or_insert(i) for i >= 1 only: name 0 is never inserted) modelled as an association
     list of first occurrences.  `diffs` is kept most recent first, so diffs[i - delta] is element
     delta - 1.  A duplicate still gets its tokens computed (they count for max_token_count) but it
     is skipped when the token columns are written.
   * TokenWriter: the ten streams of one token column are computed with map / flat_map over the
     column; the fallible conversions of write_token (width -> u8, distance -> u32) are checked for
     the whole column first, which is what the Rust does (all write_token calls of one TokenWriter
     precede its encode_token_byte_streams).
   * encode_token_byte_streams: TYPE (0x80), STRING .. DELTA0 in this order, an empty stream is
     skipped; type byte, uint7(len cdata), cdata = rans_nx16::encode(Flags::empty(), buf)
     = nx_encode_s_byte 0 buf.
     NePanic -> NmPanic.  NeStripe cannot happen for flags 0 (NmPanic branch kept).  NeDiverges (the
     rANS renormalisation never terminates) has no constructor in nm_result: it is mapped to NmPanic;
     [names_encode_diverges] tells the two apart.

   DECODER ([names_decode]).
   * read_header: two u32le and the method byte (0 = rANS Nx16 = nx_decode_s _ 0, anything else = the
     arithmetic coder = aac_decode_r _ 0).  The sizes are not validated.
   * decode_token_byte_streams: the loop runs while src is not empty; type byte: bit 7 = new token,
     bit 6 = duplicate, low 6 bits = Type (> 12 is InvalidData, checked before anything else).  A new
     token with ty <> TYPE gets the one-byte type stream [ty] and has_implicit_types = true.  A
     duplicate reads (position, type) and clones that stream of b[position] (b already contains the
     token that was just pushed); a stream of type MATCH / NOP / END is "invalid byte stream type".
     The entropy decoder runs BEFORE `b.last_mut()` is checked, so a panic in it wins over the
     "missing token" error.  All cursors are at position 0 here, so "remaining suffix" = whole buffer.
   * TokenReader = ten remaining suffixes + has_implicit_types.  read_type masks the byte with 0x3f
     (Type::try_from), so 0x82 in a type stream is CHAR.  read_until(0x00) + buf.pop(): at EOF without
     NUL the rest is read and ITS LAST BYTE IS DROPPED; an empty read pops nothing.
   * decode_single_name: reader 0 gives the type (must be DUP or DIFF) and the distance (u32le from
     the DUP / DIFF stream); m = n - dist (checked).  names / tokens of the earlier names are kept most
     recent first ([hist]); dist = 0 designates the name being built, whose token vector is [None]
     plus the tokens pushed so far, so tokens[m].get(t) is always None then: modelled as the empty
     previous token list.  MATCH with no previous token gives Ok(None), i.e. it ends the name exactly
     like END.  Token position t uses reader b[t]; a missing reader is "missing token".
   * Formatting: Digits = decimal without padding, PaddedDigits(d, l) = "{:0l$}" (at least l digits).

   Results: NmErr = any io::Error, NmPanic = a panic.  No decoder path of this model produces a panic
   of its own: the only NmPanic of [names_decode] is a DPanic of the entropy decoder.
   DUnsupported of the entropy-decoder model (arithmetic coder STRIPE / N32 streams, not modelled in
   AacRle) has no constructor in nm_result: [names_decode] answers NmErr there and
   [names_decode_unsupported] = true flags that the answer is not meaningful.

   Fuel: tokenize: length of the name + 1 (every token takes at least one byte).
         decode_token_byte_streams: length of src + 1 (every iteration takes the type byte).
         names loop: length of the type stream of reader 0 + 1 (every name that is decoded takes one
         byte of it; has_implicit_types with an empty stream gives MATCH, which is not a distance
         type, an error).  The out-of-fuel branches are unreachable.
   Simplifications: usize is 64 bits (u32 -> usize never fails); lengths >= 2^32 give the u32
   conversion errors / panics of the Rust but are of course never reached. *)
From Coq Require Import List NArith Bool Arith.
Import ListNotations.
From NV Require Import Cram.Bytes Cram.Vlq Cram.Rans4x8 Cram.Nx16Xform Cram.Nx16O0 Cram.Nx16Full
  Cram.Nx16Stripe Cram.Aac Cram.AacModes Cram.AacRle.
Open Scope N_scope.

Inductive nm_result :=
| NmOk (bytes : list N)
| NmErr               (* any io::Error *)
| NmPanic.            (* a panic *)

(* internal result: as nm_result plus "the entropy-coder model does not cover this stream" and
   "the entropy encoder never terminates" *)
Inductive nres (A : Type) :=
| ROk (a : A)
| RErr
| RPanic
| RUnsup
| RDiverges.
Arguments ROk {A} a.
Arguments RErr {A}.
Arguments RPanic {A}.
Arguments RUnsup {A}.
Arguments RDiverges {A}.

Definition nbind {A B : Type} (r : nres A) (f : A -> nres B) : nres B :=
  match r with
  | ROk a => f a
  | RErr => RErr
  | RPanic => RPanic
  | RUnsup => RUnsup
  | RDiverges => RDiverges
  end.

Definition u32_limit : N := 4294967296.

Fixpoint list_eqb (a b : list N) : bool :=
  match a, b with
  | [], [] => true
  | x :: a', y :: b' => (x =? y) && list_eqb a' b'
  | _, _ => false
  end.

(* ------------------------------------------------------------------------------------------ *)
(* Type                                                                                         *)
(* 0 TYPE 1 STRING 2 CHAR 3 DIGITS0 4 DZLEN 5 DUP 6 DIFF 7 DIGITS 8 DELTA 9 DELTA0 10 MATCH
   11 NOP 12 END; Type::try_from(n) = n & 0x3f, an error when > 12 *)
Definition type_of_byte (n : N) : option N :=
  let ty := n mod 64 in if 12 <? ty then None else Some ty.

(* ------------------------------------------------------------------------------------------ *)
(* encoder                                                                                      *)

Definition nm_is_digit (b : N) : bool := (48 <=? b) && (b <=? 57).
Definition nm_is_alnum (b : N) : bool :=
  nm_is_digit b || ((65 <=? b) && (b <=? 90)) || ((97 <=? b) && (b <=? 122)).

(* longest prefix satisfying p, and the rest *)
Fixpoint nm_span (p : N -> bool) (l : list N) : list N * list N :=
  match l with
  | [] => ([], [])
  | b :: r => if p b then let '(a, t) := nm_span p r in (b :: a, t) else ([], l)
  end.

(* [count] = the value of the iterator's `count` after its increment (1 for the first call) *)
Fixpoint tokenize_go (fuel count : nat) (b : list N) : list (list N) :=
  match fuel with
  | O => []
  | S f =>
    match b with
    | [] => []
    | _ :: _ =>
      if Nat.eqb count 126 then [b]
      else
        let '(a, r) := nm_span nm_is_alnum b in
        match a with
        | _ :: _ => a :: tokenize_go f (S count) r
        | [] =>
          let '(a2, r2) := nm_span (fun x => negb (nm_is_alnum x)) b in
          a2 :: tokenize_go f (S count) r2
        end
    end
  end.

Definition tokenize (b : list N) : list (list N) := tokenize_go (S (length b)) 1 b.

(* digits only, value <= u32::MAX (the running value is monotone, so the first excess is final) *)
Fixpoint digits_val (l : list N) (acc : N) : option N :=
  match l with
  | [] => Some acc
  | b :: r =>
    if nm_is_digit b then
      let acc' := acc * 10 + (b - 48) in
      if u32_limit <=? acc' then None else digits_val r acc'
    else None
  end.

(* parse_u32 (repaired, /repo fc00545): only a byte string made of ASCII digits is handed to
   lexical_core::parse::<u32>; the empty string and a value above u32::MAX are errors there.
   (Before the repair one leading '+' was accepted, which a numeric token cannot reproduce.) *)
Definition parse_u32 (s : list N) : option N :=
  match s with
  | [] => None
  | _ :: _ => digits_val s 0
  end.

Definition starts_with_0 (s : list N) : bool :=
  match s with
  | b :: _ => b =? 48
  | [] => false
  end.

Definition parse_digits0 (s : list N) : option N :=
  if starts_with_0 s && (length s <=? 255)%nat then parse_u32 s else None.

Definition parse_digits (s : list N) : option N :=
  if starts_with_0 s then None else parse_u32 s.

Inductive etoken :=
| EString (s : list N)
| EChar (b : N)
| EPadded (n : N) (width : nat)
| EDup (delta : nat)
| EDiff (delta : nat)
| EDigits (n : N)
| EDelta (n d : N)
| EDelta0 (n d : N)
| EMatch
| EEnd.

Definition parse_delta (prev : etoken) (s : list N) : option (N * N) :=
  if starts_with_0 s then None
  else
    match prev with
    | EDigits n | EDelta n _ =>
      match parse_u32 s with
      | Some m => if (n <=? m) && (m - n <=? 255) then Some (m, m - n) else None
      | None => None
      end
    | _ => None
    end.

Definition parse_delta0 (prev_s : list N) (prev : etoken) (s : list N) : option (N * N) :=
  match prev with
  | EPadded n _ | EDelta0 n _ =>
    if Nat.eqb (length s) (length prev_s) then
      match parse_u32 s with
      | Some m => if (n <=? m) && (m - n <=? 255) then Some (m, m - n) else None
      | None => None
      end
    else None
  | _ => None
  end.

(* the token of a raw token that is not related to the previous name *)
Definition classify (raw : list N) : etoken :=
  match parse_digits0 raw with
  | Some n => EPadded n (length raw)
  | None =>
    match parse_digits raw with
    | Some n => EDigits n
    | None =>
      match raw with
      | [b] => EChar b
      | _ => EString raw
      end
    end
  end.

(* the token loop of build_diff; build_first_diff is the same with no previous tokens.  The two
   previous lists are walked in step: position j of both must exist for the comparison. *)
Fixpoint build_tokens (raws praws : list (list N)) (ptoks : list etoken) : list etoken :=
  match raws with
  | [] => [EEnd]
  | raw :: rs =>
    let rel :=
      match praws, ptoks with
      | pr :: _, pt :: _ =>
        if list_eqb raw pr then Some EMatch
        else
          match parse_delta pt raw with
          | Some (m, d) => Some (EDelta m d)
          | None =>
            match parse_delta0 pr pt raw with
            | Some (m, d) => Some (EDelta0 m d)
            | None => None
            end
          end
      | _, _ => None
      end in
    let tok := match rel with Some t => t | None => classify raw end in
    tok :: build_tokens rs (tl praws) (tl ptoks)
  end.

Record ediff := mkDiff {
  d_dup : bool;                 (* Mode::Dup / Mode::Diff *)
  d_delta : nat;
  d_raws : list (list N);
  d_toks : list etoken
}.

Definition build_first_diff (name : list N) : ediff :=
  let raws := tokenize name in mkDiff false 0 raws (build_tokens raws [] []).

Fixpoint idx_lookup (name : list N) (idx : list (list N * nat)) : option nat :=
  match idx with
  | [] => None
  | (k, j) :: r => if list_eqb name k then Some j else idx_lookup name r
  end.

(* the `for (i, name) in names.iter().enumerate().skip(1)` loop; [diffs_rev] = diffs[i-1], ..,
   diffs[0]; None = a panic (i - delta underflow or diffs[..] out of bounds: unreachable, a found
   index j satisfies 1 <= j < i) *)
Fixpoint build_all (names : list (list N)) (i : nat) (idx : list (list N * nat))
    (diffs_rev : list ediff) : option (list ediff) :=
  match names with
  | [] => Some diffs_rev
  | name :: rest =>
    let found := idx_lookup name idx in
    let '(isdup, delta) := match found with
                           | Some j => (true, (i - j)%nat)
                           | None => (false, 1%nat)
                           end in
    if Nat.eqb delta 0 then None
    else
      match nth_error diffs_rev (delta - 1) with
      | None => None
      | Some prev =>
        let raws := tokenize name in
        let d := mkDiff isdup delta raws (build_tokens raws (d_raws prev) (d_toks prev)) in
        let idx' := match found with
                    | Some _ => idx
                    | None => (name, i) :: idx
                    end in
        build_all rest (S i) idx' (d :: diffs_rev)
      end
  end.

(* write_type / Token::ty *)
Definition tok_type (t : etoken) : N :=
  match t with
  | EString _ => 1
  | EChar _ => 2
  | EPadded _ _ => 3
  | EDup _ => 5
  | EDiff _ => 6
  | EDigits _ => 7
  | EDelta _ _ => 8
  | EDelta0 _ _ => 9
  | EMatch => 10
  | EEnd => 12
  end.

(* the fallible conversions of write_token *)
Definition tok_ok (t : etoken) : bool :=
  match t with
  | EPadded _ w => (w <=? 255)%nat
  | EDup d | EDiff d => N.of_nat d <? u32_limit
  | _ => true
  end.

Definition st_string (t : etoken) : list N := match t with EString s => s ++ [0] | _ => [] end.
Definition st_char (t : etoken) : list N := match t with EChar b => [b] | _ => [] end.
Definition st_digits0 (t : etoken) : list N := match t with EPadded n _ => le32_bytes n | _ => [] end.
Definition st_dzlen (t : etoken) : list N := match t with EPadded _ w => [N.of_nat w] | _ => [] end.
Definition st_dup (t : etoken) : list N := match t with EDup d => le32_bytes (N.of_nat d) | _ => [] end.
Definition st_diff (t : etoken) : list N := match t with EDiff d => le32_bytes (N.of_nat d) | _ => [] end.
Definition st_digits (t : etoken) : list N := match t with EDigits n => le32_bytes n | _ => [] end.
Definition st_delta (t : etoken) : list N := match t with EDelta _ d => [d] | _ => [] end.
Definition st_delta0 (t : etoken) : list N := match t with EDelta0 _ d => [d] | _ => [] end.

(* the TokenWriter after write_token of every token of the column, in the order of
   encode_token_byte_streams, each with the byte that announces it *)
Definition col_streams (c : list etoken) : list (N * list N) :=
  [ (128, map tok_type c);
    (1, flat_map st_string c);
    (2, flat_map st_char c);
    (3, flat_map st_digits0 c);
    (4, flat_map st_dzlen c);
    (5, flat_map st_dup c);
    (6, flat_map st_diff c);
    (7, flat_map st_digits c);
    (8, flat_map st_delta c);
    (9, flat_map st_delta0 c) ].

(* encode_token_byte_stream *)
Definition encode_stream (hb : N * list N) : nres (list N) :=
  let '(h, buf) := hb in
  match buf with
  | [] => ROk []
  | _ :: _ =>
    match nx_encode_s_byte 0 buf with
    | NeOk c =>
      let clen := N.of_nat (length c) in
      if u32_limit <=? clen then RErr else ROk (h :: write_uint7 clen ++ c)
    | NeStripe => RPanic      (* unreachable: the flags are empty *)
    | NePanic => RPanic
    | NeDiverges => RDiverges
    end
  end.

Fixpoint encode_stream_list (l : list (N * list N)) : nres (list N) :=
  match l with
  | [] => ROk []
  | hb :: r =>
    nbind (encode_stream hb) (fun e => nbind (encode_stream_list r) (fun t => ROk (e ++ t)))
  end.

(* one TokenWriter: write_token for the whole column, then encode_token_byte_streams *)
Definition encode_col (c : list etoken) : nres (list N) :=
  if forallb tok_ok c then encode_stream_list (col_streams c) else RErr.

(* the tokens at the current position of the lists that still have one, and the tails
   (diff.tokens.get(i) = None: the name is skipped at this position and at every later one) *)
Fixpoint heads_tails (ll : list (list etoken)) : list etoken * list (list etoken) :=
  match ll with
  | [] => ([], [])
  | l :: r =>
    let '(h, t) := heads_tails r in
    match l with
    | [] => (h, t)
    | x :: xs => (x :: h, xs :: t)
    end
  end.

(* `for i in 0..max_token_count` *)
Fixpoint encode_columns (n : nat) (ll : list (list etoken)) : nres (list N) :=
  match n with
  | O => ROk []
  | S k =>
    let '(col, tails) := heads_tails ll in
    nbind (encode_col col) (fun e => nbind (encode_columns k tails) (fun t => ROk (e ++ t)))
  end.

(* src.strip_suffix(&[NUL]): drops the last byte when it is NUL (List.rev is quadratic once
   extracted, hence the direct recursion) *)
Fixpoint strip_last_nul (src : list N) : list N :=
  match src with
  | [] => []
  | b :: r =>
    match r with
    | [] => if b =? 0 then [] else [b]
    | _ :: _ => b :: strip_last_nul r
    end
  end.

(* src.split(|&b| b == NUL): never empty *)
Fixpoint split_nul (l : list N) : list (list N) :=
  match l with
  | [] => [[]]
  | b :: r =>
    match split_nul r with
    | cur :: rest => if b =? 0 then [] :: cur :: rest else (b :: cur) :: rest
    | [] => [[b]]      (* unreachable *)
    end
  end.

Definition names_encode_x (src0 : list N) : nres (list N) :=
  let src := strip_last_nul src0 in
  let names := split_nul src in
  let ulen := N.of_nat (length src) in
  let n_names := N.of_nat (length names) in
  if u32_limit <=? ulen then RErr
  else if u32_limit <=? n_names then RErr
  else
    let header := le32_bytes ulen ++ le32_bytes n_names ++ [0] in
    let diffs_rev :=
      match names with
      | [] => Some []
      | n0 :: rest => build_all rest 1 [] [build_first_diff n0]
      end in
    match diffs_rev with
    | None => RPanic
    | Some dr =>
      let diffs := rev_append dr [] in
      let max_token_count := fold_left (fun m d => Nat.max m (length (d_toks d))) diffs 0%nat in
      let modes := map (fun d => if d_dup d then EDup (d_delta d) else EDiff (d_delta d)) diffs in
      let cols := map d_toks (filter (fun d => negb (d_dup d)) diffs) in
      nbind (encode_col modes) (fun e0 =>
      nbind (encode_columns max_token_count cols) (fun e1 => ROk (header ++ e0 ++ e1)))
    end.

(* name_tokenizer::encode *)
Definition names_encode (src : list N) : nm_result :=
  match names_encode_x src with
  | ROk b => NmOk b
  | RErr => NmErr
  | RPanic => NmPanic
  | RUnsup => NmPanic       (* not produced by the encoder *)
  | RDiverges => NmPanic    (* a hang, see the header *)
  end.

Definition names_encode_diverges (src : list N) : bool :=
  match names_encode_x src with
  | RDiverges => true
  | _ => false
  end.

(* ------------------------------------------------------------------------------------------ *)
(* decoder                                                                                      *)

Inductive dtoken :=
| DChar (c : N)
| DString (s : list N)
| DDigits (d : N)
| DPadded (d l : N)
| DNop.

(* TokenReader: what is left to read of every stream *)
Record treader := mkR {
  r_type : list N;
  r_imp : bool;               (* has_implicit_types *)
  r_string : list N;
  r_char : list N;
  r_digits0 : list N;
  r_dzlen : list N;
  r_dup : list N;
  r_diff : list N;
  r_digits : list N;
  r_delta : list N;
  r_delta0 : list N
}.

Definition r_empty : treader := mkR [] false [] [] [] [] [] [] [] [] [].

(* TokenReader::get *)
Definition r_get (r : treader) (ty : N) : option (list N) :=
  match ty with
  | 0 => Some (r_type r)
  | 1 => Some (r_string r)
  | 2 => Some (r_char r)
  | 3 => Some (r_digits0 r)
  | 4 => Some (r_dzlen r)
  | 5 => Some (r_dup r)
  | 6 => Some (r_diff r)
  | 7 => Some (r_digits r)
  | 8 => Some (r_delta r)
  | 9 => Some (r_delta0 r)
  | _ => None
  end.

(* replace one stream, has_implicit_types untouched (a cursor that advances, or get_mut) *)
Definition r_put (r : treader) (ty : N) (v : list N) : option treader :=
  let 'mkR a i b c d e f g h j k := r in
  match ty with
  | 0 => Some (mkR v i b c d e f g h j k)
  | 1 => Some (mkR a i v c d e f g h j k)
  | 2 => Some (mkR a i b v d e f g h j k)
  | 3 => Some (mkR a i b c v e f g h j k)
  | 4 => Some (mkR a i b c d v f g h j k)
  | 5 => Some (mkR a i b c d e v g h j k)
  | 6 => Some (mkR a i b c d e f v h j k)
  | 7 => Some (mkR a i b c d e f g v j k)
  | 8 => Some (mkR a i b c d e f g h v k)
  | 9 => Some (mkR a i b c d e f g h j v)
  | _ => None
  end.

Definition r_with_imp (r : treader) (i : bool) : treader :=
  let 'mkR a _ b c d e f g h j k := r in mkR a i b c d e f g h j k.

(* TokenReader::set *)
Definition r_set (r : treader) (ty : N) (v : list N) : option treader :=
  match r_put r ty v with
  | Some r' => Some (if ty =? 0 then r_with_imp r' false else r')
  | None => None
  end.

(* TokenReader::read_type; None = io::Error *)
Definition read_type (r : treader) : option (N * treader) :=
  match r_type r with
  | [] => if r_imp r then Some (10, r) else None
  | n :: t =>
    match type_of_byte n, r_put r 0 t with
    | Some ty, Some r' => Some (ty, r')
    | _, _ => None
    end
  end.

(* read_until(0x00, &mut buf): the bytes read (delimiter included) and what is left *)
Fixpoint read_until_nul (l : list N) : list N * list N :=
  match l with
  | [] => ([], [])
  | b :: r =>
    if b =? 0 then ([b], r)
    else let '(a, t) := read_until_nul r in (b :: a, t)
  end.

Definition take_u8 (l : list N) : option (N * list N) :=
  match l with
  | b :: r => Some (b, r)
  | [] => None
  end.

(* TokenReader::read_token; outer None = io::Error, inner None = Ok(None) (the name ends) *)
Definition read_token (r : treader) (prev : option dtoken) : option (treader * option dtoken) :=
  match read_type r with
  | None => None
  | Some (ty, r1) =>
    match ty with
    | 2 =>
      match take_u8 (r_char r1) with
      | Some (c, t) =>
        match r_put r1 2 t with Some r2 => Some (r2, Some (DChar c)) | None => None end
      | None => None
      end
    | 1 =>
      let '(buf, t) := read_until_nul (r_string r1) in
      match r_put r1 1 t with
      | Some r2 => Some (r2, Some (DString (removelast buf)))      (* buf.pop() *)
      | None => None
      end
    | 7 =>
      match take_le32 (r_digits r1) with
      | Some (d, t) =>
        match r_put r1 7 t with Some r2 => Some (r2, Some (DDigits d)) | None => None end
      | None => None
      end
    | 3 =>
      match take_le32 (r_digits0 r1) with
      | Some (d, t) =>
        match take_u8 (r_dzlen r1) with
        | Some (l, t2) =>
          match r_put r1 3 t with
          | Some r2 =>
            match r_put r2 4 t2 with Some r3 => Some (r3, Some (DPadded d l)) | None => None end
          | None => None
          end
        | None => None
        end
      | None => None
      end
    | 8 =>
      match take_u8 (r_delta r1) with
      | Some (delta, t) =>
        match prev, r_put r1 8 t with
        | Some (DDigits n), Some r2 =>
          if u32_limit <=? n + delta then None else Some (r2, Some (DDigits (n + delta)))
        | _, _ => None
        end
      | None => None
      end
    | 9 =>
      match take_u8 (r_delta0 r1) with
      | Some (delta, t) =>
        match prev, r_put r1 9 t with
        | Some (DPadded n w), Some r2 =>
          if u32_limit <=? n + delta then None else Some (r2, Some (DPadded (n + delta) w))
        | _, _ => None
        end
      | None => None
      end
    | 10 => Some (r1, prev)              (* MATCH: prev_token.cloned() *)
    | 12 => Some (r1, None)              (* END *)
    | _ => Some (r1, Some DNop)          (* TYPE, DZLEN, DUP, DIFF, NOP *)
    end
  end.

(* decimal digits of a u32 (at most 10 of them: fuel 10) *)
Fixpoint dec_go (fuel : nat) (n : N) (acc : list N) : list N :=
  match fuel with
  | O => acc
  | S f =>
    let acc' := (48 + n mod 10) :: acc in
    if n / 10 =? 0 then acc' else dec_go f (n / 10) acc'
  end.

Definition dec_digits (n : N) : list N := dec_go 10 n [].

Definition render (t : dtoken) : list N :=
  match t with
  | DChar c => [c]
  | DString s => s
  | DDigits d => dec_digits d
  | DPadded d l =>
    let ds := dec_digits d in
    repeat 48 (N.to_nat l - length ds) ++ ds      (* l < 256 *)
  | DNop => []
  end.

(* the `loop` of decode_single_name: [rs] = b[t..], [prev] = tokens[m][t..];
   None = io::Error; result = the readers, the bytes of the name, its tokens *)
Fixpoint name_go (rs : list treader) (prev : list dtoken)
    : option (list treader * list N * list dtoken) :=
  match rs with
  | [] => None                                        (* missing token *)
  | r :: rest =>
    match read_token r (hd_error prev) with
    | None => None
    | Some (r', None) => Some (r' :: rest, [], [])
    | Some (r', Some tok) =>
      match name_go rest (tl prev) with
      | None => None
      | Some (rest', nm, toks) => Some (r' :: rest', render tok ++ nm, tok :: toks)
      end
    end
  end.

(* decode_single_name; [hist] = (names[n-1], tokens[n-1][1..]), .., (names[0], tokens[0][1..]) and
   [n] = its length *)
Definition single_name (b : list treader) (hist : list (list N * list dtoken)) (n : N)
    : option (list treader * list N * list dtoken) :=
  match b with
  | [] => None                                        (* missing token *)
  | r0 :: rest =>
    match read_type r0 with
    | None => None
    | Some (ty, r1) =>
      if negb ((ty =? 5) || (ty =? 6)) then None     (* invalid distance type *)
      else
        match r_get r1 ty with
        | None => None
        | Some s =>
          match take_le32 s with
          | None => None
          | Some (dist, s') =>
            match r_put r1 ty s' with
            | None => None
            | Some r2 =>
              if n <? dist then None                   (* n.checked_sub(dist) *)
              else
                let prev := if dist =? 0 then Some ([], [])
                            else nth_error hist (N.to_nat (dist - 1)) in
                match prev with
                | None => None                         (* unreachable: dist <= n = length hist *)
                | Some (pname, ptoks) =>
                  if ty =? 5 then Some (r2 :: rest, pname, ptoks)
                  else
                    match name_go rest ptoks with
                    | None => None
                    | Some (rest', nm, toks) => Some (r2 :: rest', nm, toks)
                    end
                end
            end
          end
        end
    end
  end.

(* `for i in 0..name_count`; the output is rebuilt from [hist] (most recent name first) *)
Fixpoint names_loop (fuel : nat) (count i : N) (b : list treader)
    (hist : list (list N * list dtoken)) : option (list N) :=
  match fuel with
  | O => None                                         (* unreachable, see the header *)
  | S f =>
    if i =? count then
      Some (fold_left (fun acc h => fst h ++ 0 :: acc) hist [])
    else
      match single_name b hist i with
      | None => None
      | Some (b', nm, toks) => names_loop f count (i + 1) b' ((nm, toks) :: hist)
      end
  end.

Definition of_dres (r : nxd_result) : nres (list N) :=
  match r with
  | DOk b => ROk b
  | DErr => RErr
  | DPanic => RPanic
  | DUnsupported => RUnsup
  end.

(* decode_token_byte_streams; [brev] = the readers, last one first; [aac] = the method *)
Fixpoint dec_streams (fuel : nat) (aac : bool) (src : list N) (brev : list treader)
    : nres (list treader) :=
  match fuel with
  | O => RErr                                         (* unreachable *)
  | S f =>
    match src with
    | [] => ROk (rev_append brev [])
    | ttype :: s1 =>
      let tok_new := N.testbit ttype 7 in
      let tok_dup := N.testbit ttype 6 in
      match type_of_byte ttype with
      | None => RErr
      | Some ty =>
        let b1 :=
          if tok_new then
            (if ty =? 0 then r_empty
             else mkR [ty] true [] [] [] [] [] [] [] [] []) :: brev
          else brev in
        let got : nres (list N * bool * list N) :=
          if tok_dup then
            match s1 with
            | dup_pos :: dup_ty_byte :: s2 =>
              match type_of_byte dup_ty_byte with
              | None => RErr
              | Some dup_type =>
                let len := N.of_nat (length b1) in
                if len <=? dup_pos then RErr          (* invalid duplicate token position *)
                else
                  match nth_error b1 (N.to_nat (len - 1 - dup_pos)) with
                  | None => RErr                      (* unreachable *)
                  | Some reader =>
                    match r_get reader dup_type with
                    | None => RErr                    (* invalid byte stream type *)
                    | Some buf => ROk (buf, (dup_type =? 0) && r_imp reader, s2)
                    end
                  end
              end
            | _ => RErr                               (* UnexpectedEof *)
            end
          else
            match read_uint7 s1 with
            | U7Ok size s2 =>
              if N.of_nat (length s2) <? size then RErr     (* split_off: UnexpectedEof *)
              else
                match split_off s2 (N.to_nat size) with
                | None => RErr
                | Some (cdata, s3) =>
                  nbind (of_dres (if aac then aac_decode_r cdata 0 else nx_decode_s cdata 0))
                        (fun buf => ROk (buf, false, s3))
                end
            | _ => RErr
            end in
        nbind got (fun '(buf, himp, s') =>
          match b1 with
          | [] => RErr                                (* missing token *)
          | last :: others =>
            match r_set last ty buf with
            | None => RErr                            (* invalid byte stream type *)
            | Some last' =>
              let last'' := if ty =? 0 then r_with_imp last' himp else last' in
              dec_streams f aac s' (last'' :: others)
            end
          end)
      end
    end
  end.

Definition names_decode_x (bs : list N) : nres (list N) :=
  match take_le32 bs with
  | None => RErr
  | Some (_, s1) =>
    match take_le32 s1 with
    | None => RErr
    | Some (name_count, s2) =>
      match s2 with
      | [] => RErr
      | meth :: s3 =>
        nbind (dec_streams (S (length s3)) (negb (meth =? 0)) s3 []) (fun b =>
          let fuel := match b with
                      | r0 :: _ => S (length (r_type r0))
                      | [] => 1%nat
                      end in
          match names_loop fuel name_count 0 b [] with
          | Some out => ROk out
          | None => RErr
          end)
      end
    end
  end.

(* name_tokenizer::decode *)
Definition names_decode (bs : list N) : nm_result :=
  match names_decode_x bs with
  | ROk b => NmOk b
  | RErr => NmErr
  | RPanic => NmPanic
  | RUnsup => NmErr         (* not modelled: see names_decode_unsupported *)
  | RDiverges => NmErr      (* not produced by the decoder *)
  end.

(* true: an arithmetic-coder stream is outside the entropy-decoder model, names_decode's answer
   is not to be compared with the implementation *)
Definition names_decode_unsupported (bs : list N) : bool :=
  match names_decode_x bs with
  | RUnsup => true
  | _ => false
  end.

(* ------------------------------------------------------------------------------------------ *)
(* sanity checks                                                                                *)

Definition tv_names : list N :=
  [73; 49; 55; 95; 48; 56; 55; 54; 53; 58; 50; 58; 49; 50; 51; 58; 54; 49; 53; 52; 49; 58; 48;
   49; 55; 54; 51; 35; 57; 0; 73; 49; 55; 95; 48; 56; 55; 54; 53; 58; 50; 58; 49; 50; 51; 58;
   49; 54; 51; 54; 58; 48; 56; 54; 49; 49; 35; 57; 0; 73; 49; 55; 95; 48; 56; 55; 54; 53; 58;
   50; 58; 49; 50; 52; 58; 52; 53; 54; 49; 51; 58; 49; 54; 49; 54; 49; 35; 57; 0].

(* decode.rs tests::test_decode *)
Definition tv_decode_src : list N :=
  [88; 0; 0; 0; 3; 0; 0; 0; 0; 128; 21; 0; 3; 6; 0; 4; 0; 128; 0; 0; 0; 128; 0; 0; 0; 128; 0;
   0; 0; 128; 0; 0; 6; 24; 0; 12; 0; 1; 0; 0; 14; 2; 0; 34; 37; 0; 0; 188; 0; 0; 0; 188; 0; 0;
   0; 188; 0; 0; 128; 23; 0; 3; 1; 10; 0; 1; 3; 0; 0; 2; 0; 0; 172; 0; 0; 0; 172; 0; 0; 0;
   128; 0; 0; 1; 27; 0; 4; 0; 49; 55; 73; 0; 1; 1; 1; 1; 0; 12; 2; 0; 0; 4; 2; 0; 0; 8; 2; 0;
   0; 0; 2; 0; 128; 23; 0; 3; 2; 10; 0; 1; 3; 0; 0; 2; 0; 0; 172; 0; 0; 0; 172; 0; 0; 0; 128;
   0; 0; 2; 21; 0; 1; 95; 0; 1; 0; 128; 0; 0; 0; 128; 0; 0; 0; 128; 0; 0; 0; 128; 0; 0; 128;
   23; 0; 3; 3; 10; 0; 1; 3; 0; 0; 2; 0; 0; 172; 0; 0; 0; 172; 0; 0; 0; 128; 0; 0; 3; 25; 0;
   4; 0; 34; 61; 0; 2; 1; 1; 0; 12; 2; 0; 0; 8; 2; 0; 0; 0; 1; 0; 0; 0; 1; 0; 4; 21; 0; 1; 5;
   0; 1; 0; 128; 0; 0; 0; 128; 0; 0; 0; 128; 0; 0; 0; 128; 0; 0; 128; 23; 0; 3; 2; 10; 0; 1;
   3; 0; 0; 2; 0; 0; 172; 0; 0; 0; 172; 0; 0; 0; 128; 0; 0; 2; 21; 0; 1; 58; 0; 1; 0; 128; 0;
   0; 0; 128; 0; 0; 0; 128; 0; 0; 0; 128; 0; 0; 128; 23; 0; 3; 7; 10; 0; 1; 3; 0; 0; 2; 0; 0;
   172; 0; 0; 0; 172; 0; 0; 0; 128; 0; 0; 7; 23; 0; 4; 0; 2; 0; 3; 1; 0; 12; 2; 0; 0; 168; 0;
   0; 0; 168; 0; 0; 0; 168; 0; 0; 128; 23; 0; 3; 2; 10; 0; 1; 3; 0; 0; 2; 0; 0; 172; 0; 0; 0;
   172; 0; 0; 0; 128; 0; 0; 2; 21; 0; 1; 58; 0; 1; 0; 128; 0; 0; 0; 128; 0; 0; 0; 128; 0; 0;
   0; 128; 0; 0; 128; 23; 0; 3; 7; 10; 0; 3; 1; 0; 168; 0; 0; 0; 12; 2; 0; 0; 168; 0; 0; 0;
   128; 0; 0; 7; 26; 0; 8; 0; 123; 124; 0; 0; 6; 1; 1; 0; 124; 32; 0; 0; 224; 0; 0; 0; 224; 0;
   0; 0; 224; 0; 0; 128; 23; 0; 3; 2; 10; 0; 1; 3; 0; 0; 2; 0; 0; 172; 0; 0; 0; 172; 0; 0; 0;
   128; 0; 0; 2; 21; 0; 1; 58; 0; 1; 0; 128; 0; 0; 0; 128; 0; 0; 0; 128; 0; 0; 0; 128; 0; 0;
   128; 21; 0; 3; 7; 0; 4; 0; 128; 0; 0; 0; 128; 0; 0; 0; 128; 0; 0; 0; 128; 0; 0; 7; 34; 0;
   12; 0; 6; 45; 100; 101; 0; 178; 240; 0; 10; 1; 1; 1; 1; 1; 1; 0; 205; 11; 8; 0; 175; 14; 8;
   0; 0; 2; 0; 0; 0; 2; 0; 128; 23; 0; 3; 2; 10; 0; 1; 3; 0; 0; 2; 0; 0; 172; 0; 0; 0; 172; 0;
   0; 0; 128; 0; 0; 2; 21; 0; 1; 58; 0; 1; 0; 128; 0; 0; 0; 128; 0; 0; 0; 128; 0; 0; 0; 128;
   0; 0; 128; 23; 0; 3; 3; 7; 0; 3; 1; 0; 168; 0; 0; 0; 168; 0; 0; 0; 12; 2; 0; 0; 128; 0; 0;
   3; 29; 0; 8; 0; 6; 33; 163; 227; 0; 4; 1; 1; 1; 1; 0; 110; 32; 0; 0; 88; 32; 0; 0; 0; 2; 0;
   0; 0; 2; 0; 4; 21; 0; 2; 5; 0; 2; 0; 128; 0; 0; 0; 128; 0; 0; 0; 128; 0; 0; 0; 128; 0; 0;
   7; 25; 0; 4; 0; 33; 63; 0; 2; 1; 1; 0; 8; 2; 0; 0; 12; 2; 0; 0; 0; 1; 0; 0; 0; 1; 0; 128;
   23; 0; 3; 2; 10; 0; 1; 3; 0; 0; 2; 0; 0; 172; 0; 0; 0; 172; 0; 0; 0; 128; 0; 0; 2; 21; 0;
   1; 35; 0; 1; 0; 128; 0; 0; 0; 128; 0; 0; 0; 128; 0; 0; 0; 128; 0; 0; 128; 23; 0; 3; 7; 10;
   0; 1; 3; 0; 0; 2; 0; 0; 172; 0; 0; 0; 172; 0; 0; 0; 128; 0; 0; 7; 23; 0; 4; 0; 9; 0; 3; 1;
   0; 12; 2; 0; 0; 168; 0; 0; 0; 168; 0; 0; 0; 168; 0; 0; 128; 21; 0; 3; 12; 0; 4; 0; 128; 0;
   0; 0; 128; 0; 0; 0; 128; 0; 0; 0; 128; 0; 0].

(* decode.rs tests::test_decode_with_arithmetic_coder *)
Definition tv_decode_aac_src : list N :=
  [88; 0; 0; 0; 3; 0; 0; 0; 1; 128; 8; 0; 3; 7; 0; 230; 38; 187; 111; 6; 9; 0; 12; 2; 0; 114;
   22; 179; 34; 6; 128; 9; 0; 3; 11; 0; 46; 47; 68; 86; 89; 1; 11; 0; 4; 74; 0; 254; 115; 35;
   204; 189; 0; 0; 128; 9; 0; 3; 11; 0; 69; 117; 21; 202; 89; 2; 8; 0; 1; 96; 0; 253; 85; 85;
   22; 128; 9; 0; 3; 11; 0; 92; 186; 231; 62; 89; 3; 10; 0; 4; 62; 0; 253; 171; 185; 144; 0;
   0; 4; 8; 0; 1; 6; 0; 213; 85; 85; 82; 128; 9; 0; 3; 11; 0; 69; 117; 21; 202; 89; 2; 8; 0;
   1; 59; 0; 251; 169; 56; 54; 128; 9; 0; 3; 11; 0; 185; 210; 45; 14; 89; 7; 8; 0; 4; 3; 0;
   170; 170; 170; 170; 128; 9; 0; 3; 11; 0; 69; 117; 21; 202; 89; 2; 8; 0; 1; 59; 0; 251; 169;
   56; 54; 128; 9; 0; 3; 11; 0; 185; 112; 172; 211; 134; 7; 11; 64; 8; 125; 0; 251; 232; 30;
   120; 62; 229; 38; 128; 9; 0; 3; 11; 0; 69; 117; 21; 202; 89; 2; 8; 0; 1; 59; 0; 251; 169;
   56; 54; 128; 8; 0; 3; 8; 0; 234; 213; 85; 71; 7; 17; 0; 12; 241; 0; 108; 88; 43; 108; 78;
   22; 219; 143; 75; 6; 150; 0; 0; 128; 9; 0; 3; 11; 0; 69; 117; 21; 202; 89; 2; 8; 0; 1; 59;
   0; 251; 169; 56; 54; 128; 9; 0; 3; 8; 0; 120; 196; 68; 23; 0; 3; 14; 0; 8; 228; 0; 254;
   231; 160; 116; 59; 120; 121; 72; 0; 0; 4; 8; 0; 2; 6; 0; 221; 23; 69; 206; 7; 10; 0; 4; 64;
   0; 135; 243; 50; 211; 0; 0; 128; 9; 0; 3; 11; 0; 69; 117; 21; 202; 89; 2; 8; 0; 1; 36; 0;
   248; 227; 142; 53; 128; 9; 0; 3; 11; 0; 185; 210; 45; 14; 89; 7; 9; 0; 4; 10; 0; 230; 102;
   102; 97; 0; 128; 8; 0; 3; 13; 0; 246; 87; 172; 14].

(* encode.rs has no test module; this is the output of the real name_tokenizer::encode on
   tv_names (obtained through noodles_cram::verif::name_tokenizer_encode) *)
Definition tv_encode_expected : list N :=
  [88; 0; 0; 0; 3; 0; 0; 0; 0; 128; 5; 32; 3; 6; 6; 6; 6; 26; 0; 12; 0; 1; 0; 0; 154; 86; 133;
   42; 250; 7; 22; 0; 234; 215; 0; 0; 234; 215; 0; 0; 234; 215; 0; 0; 128; 5; 32; 3; 1; 10;
   10; 1; 31; 0; 4; 0; 49; 55; 73; 0; 136; 0; 136; 0; 136; 0; 136; 0; 0; 12; 2; 0; 0; 4; 2; 0;
   0; 8; 2; 0; 0; 0; 2; 0; 128; 5; 32; 3; 2; 10; 10; 2; 3; 32; 1; 95; 128; 5; 32; 3; 3; 10;
   10; 3; 28; 0; 4; 0; 34; 61; 0; 144; 0; 136; 0; 136; 0; 0; 12; 2; 0; 0; 8; 2; 0; 0; 0; 1; 0;
   0; 0; 1; 0; 4; 3; 32; 1; 5; 128; 5; 32; 3; 2; 10; 10; 2; 3; 32; 1; 58; 128; 5; 32; 3; 7;
   10; 10; 7; 25; 0; 4; 0; 2; 0; 152; 0; 136; 0; 0; 12; 2; 0; 0; 168; 0; 0; 0; 168; 0; 0; 0;
   168; 0; 0; 128; 5; 32; 3; 2; 10; 10; 2; 3; 32; 1; 58; 128; 5; 32; 3; 7; 10; 7; 7; 29; 0; 8;
   0; 123; 124; 0; 0; 152; 0; 132; 0; 132; 0; 0; 124; 32; 0; 0; 224; 0; 0; 0; 224; 0; 0; 0;
   224; 0; 0; 128; 5; 32; 3; 2; 10; 10; 2; 3; 32; 1; 58; 128; 5; 32; 3; 7; 7; 7; 7; 41; 0; 12;
   0; 6; 45; 100; 101; 0; 178; 240; 0; 144; 2; 130; 85; 130; 85; 130; 85; 130; 85; 130; 85;
   130; 85; 35; 93; 103; 3; 217; 127; 105; 3; 46; 199; 3; 0; 46; 199; 3; 0; 128; 5; 32; 3; 2;
   10; 10; 2; 3; 32; 1; 58; 128; 5; 32; 3; 3; 3; 7; 3; 34; 0; 8; 0; 6; 33; 163; 227; 0; 144;
   0; 132; 0; 132; 0; 132; 0; 132; 0; 0; 110; 32; 0; 0; 88; 32; 0; 0; 0; 2; 0; 0; 0; 2; 0; 4;
   4; 32; 2; 5; 5; 7; 28; 0; 4; 0; 33; 63; 0; 144; 0; 136; 0; 136; 0; 0; 8; 2; 0; 0; 12; 2; 0;
   0; 0; 1; 0; 0; 0; 1; 0; 128; 5; 32; 3; 2; 10; 10; 2; 3; 32; 1; 35; 128; 5; 32; 3; 7; 10;
   10; 7; 25; 0; 4; 0; 9; 0; 152; 0; 136; 0; 0; 12; 2; 0; 0; 168; 0; 0; 0; 168; 0; 0; 0; 168;
   0; 0; 128; 5; 32; 3; 12; 12; 12].

Definition tv_small : list N :=
  [114; 95; 48; 48; 55; 58; 49; 50; 0; 114; 95; 48; 48; 56; 58; 49; 51; 0; 114; 95; 48; 48;
   56; 58; 49; 51; 0; 114; 95; 48; 48; 57; 57; 58; 51; 48; 48; 0; 120; 43; 53; 32; 121; 0;
   114; 95; 48; 48; 55; 58; 49; 50; 0; 114; 95; 48; 48; 55; 58; 49; 50; 0].

Definition tv_small_expected : list N :=
  [61; 0; 0; 0; 7; 0; 0; 0; 0; 128; 26; 0; 7; 5; 6; 0; 0; 137; 18; 150; 110; 248; 255; 0; 0;
   248; 255; 0; 0; 36; 32; 6; 0; 216; 182; 0; 0; 5; 26; 0; 8; 0; 1; 0; 0; 152; 0; 136; 0; 0;
   60; 8; 0; 0; 224; 0; 0; 0; 224; 0; 0; 0; 224; 0; 0; 6; 26; 0; 20; 0; 1; 0; 0; 153; 77; 134;
   51; 203; 108; 144; 1; 87; 118; 1; 0; 87; 118; 1; 0; 87; 118; 1; 0; 128; 25; 0; 5; 2; 10; 0;
   147; 26; 140; 102; 140; 89; 1; 0; 162; 73; 1; 0; 162; 73; 1; 0; 46; 211; 0; 0; 2; 5; 32; 3;
   114; 120; 114; 128; 25; 0; 5; 2; 10; 0; 147; 26; 140; 102; 140; 89; 1; 0; 162; 73; 1; 0;
   162; 73; 1; 0; 46; 211; 0; 0; 2; 5; 32; 3; 95; 43; 95; 128; 28; 0; 5; 3; 7; 9; 0; 147; 26;
   134; 51; 134; 51; 140; 89; 1; 0; 213; 140; 2; 0; 46; 211; 0; 0; 162; 137; 2; 0; 3; 28; 0;
   12; 0; 7; 99; 0; 152; 1; 133; 42; 130; 85; 186; 252; 219; 0; 215; 35; 1; 0; 215; 35; 1; 0;
   215; 35; 1; 0; 4; 5; 32; 3; 3; 4; 3; 7; 25; 0; 4; 0; 5; 0; 152; 0; 136; 0; 0; 12; 2; 0; 0;
   168; 0; 0; 0; 168; 0; 0; 0; 168; 0; 0; 9; 3; 32; 1; 1; 128; 25; 0; 5; 2; 10; 0; 147; 26;
   140; 102; 140; 89; 1; 0; 162; 73; 1; 0; 162; 73; 1; 0; 46; 211; 0; 0; 2; 5; 32; 3; 58; 32;
   58; 128; 29; 0; 5; 2; 7; 8; 0; 0; 134; 51; 147; 26; 134; 51; 88; 102; 1; 0; 213; 140; 2; 0;
   97; 214; 0; 0; 8; 128; 2; 0; 2; 3; 32; 1; 121; 7; 32; 0; 12; 0; 1; 0; 12; 44; 0; 149; 44;
   130; 85; 133; 42; 130; 85; 186; 252; 219; 0; 180; 41; 13; 0; 100; 154; 1; 0; 100; 154; 1;
   0; 8; 3; 32; 1; 1; 128; 22; 0; 5; 12; 0; 160; 0; 0; 128; 0; 0; 0; 128; 0; 0; 0; 128; 0; 0;
   0; 128; 0; 0].

(* the real encoder's output on the decode tests' names *)
Example names_encode_tv : names_encode tv_names = NmOk tv_encode_expected.
Proof. vm_compute. reflexivity. Qed.

(* decode.rs tests::test_decode *)
Example names_decode_tv : names_decode tv_decode_src = NmOk tv_names.
Proof. vm_compute. reflexivity. Qed.

(* decode.rs tests::test_decode_with_arithmetic_coder *)
Example names_decode_aac_tv : names_decode tv_decode_aac_src = NmOk tv_names.
Proof. vm_compute. reflexivity. Qed.

(* name_tokenizer.rs tests::test_self *)
Example names_self_tv :
  match names_encode tv_names with NmOk e => names_decode e | _ => NmErr end = NmOk tv_names.
Proof. vm_compute. reflexivity. Qed.

(* digits, leading zeros, deltas, a duplicate (name 2 of name 1), a name equal to name 0 (never a
   duplicate: name 0 is not in names_indices) and then a duplicate of that one *)
Example names_encode_small : names_encode tv_small = NmOk tv_small_expected.
Proof. vm_compute. reflexivity. Qed.

Example names_roundtrip_small :
  match names_encode tv_small with NmOk e => names_decode e | _ => NmErr end = NmOk tv_small.
Proof. vm_compute. reflexivity. Qed.

(* decode.rs tests::test_decode_with_no_byte_streams, _invalid_distance, _missing_token,
   _invalid_byte_stream_type, _invalid_distance_type: all InvalidData *)
Example names_decode_no_streams : names_decode [0; 0; 0; 0; 1; 0; 0; 0; 0] = NmErr.
Proof. vm_compute. reflexivity. Qed.
Example names_decode_invalid_distance :
  names_decode [0; 0; 0; 0; 1; 0; 0; 0; 0; 128; 3; 32; 1; 6; 6; 6; 32; 4; 1; 0; 0; 0] = NmErr.
Proof. vm_compute. reflexivity. Qed.
Example names_decode_missing_token :
  names_decode [0; 0; 0; 0; 1; 0; 0; 0; 0; 128; 3; 32; 1; 6; 6; 6; 32; 4; 0; 0; 0; 0] = NmErr.
Proof. vm_compute. reflexivity. Qed.
Example names_decode_invalid_stream_type :
  names_decode [0; 0; 0; 0; 1; 0; 0; 0; 0; 139; 2; 32; 0] = NmErr.
Proof. vm_compute. reflexivity. Qed.
Example names_decode_invalid_distance_type :
  names_decode [0; 0; 0; 0; 1; 0; 0; 0; 0; 128; 3; 32; 1; 10] = NmErr.
Proof. vm_compute. reflexivity. Qed.

(* decode.rs tests::test_decode_token_byte_streams_with_invalid_token_positions *)
Example dec_streams_no_new_token : dec_streams 5 false [0; 2; 32; 0] [] = RErr.
Proof. vm_compute. reflexivity. Qed.
Example dec_streams_bad_dup_pos : dec_streams 4 false [192; 1; 0] [] = RErr.
Proof. vm_compute. reflexivity. Qed.

(* decode.rs tests::test_decode_token_byte_streams_with_implicit_types *)
Example dec_streams_implicit_types :
  match dec_streams 9 false [130; 3; 32; 1; 110; 192; 0; 0] [] with
  | ROk [a; b] =>
    let three r :=
      match read_type r with
      | Some (t1, r1) =>
        match read_type r1 with
        | Some (t2, r2) =>
          match read_type r2 with Some (t3, _) => [t1; t2; t3] | None => [] end
        | None => []
        end
      | None => []
      end in
    (three a, three b)
  | _ => ([], [])
  end = ([2; 10; 10], [2; 10; 10]).
Proof. vm_compute. reflexivity. Qed.

(* decode.rs tests::test_read_token_with_delta_overflow *)
Example read_token_delta_overflow :
  read_token (mkR [8] false [] [] [] [] [] [] [] [1] [1]) (Some (DDigits 4294967295)) = None
  /\ read_token (mkR [9] false [] [] [] [] [] [] [] [1] [1]) (Some (DPadded 4294967295 10)) = None.
Proof. vm_compute. split; reflexivity. Qed.
