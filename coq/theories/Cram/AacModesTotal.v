(* TOTALITY of the adaptive arithmetic coder model, every mode: on EVERY byte string the model of
   aac::decode with ORDER 1, RLE (both orders), PACK, CAT and STRIPE (NV.Cram.AacRle.aac_decode_r)
   answers bytes, an io::Error or "unsupported" (EXT only).  On top of NV.Cram.AacTotal (one model,
   one symbol) this needs: the context that selects a model of the vector is always inside the
   vector.

     symbols   a model created with n symbols holds the symbols 0..n-1 for ever (the update only
               changes frequencies and swaps neighbours), and the search returns one of them;
     order 1   the vector has n models, the first context is 0 < n, the next one is the symbol
               just decoded, < n;
     RLE       the run-length vector has 258 models of 4 symbols; its contexts are the literal
               (a symbol of a model with n <= 256 symbols), 256 or 257; the digit loop (iter2) keeps
               "models fine, coder fine, rest is bytes, context < 258";
     STRIPE    the sub-streams are decoded by the same function (induction on the fuel). *)
From Coq Require Import List NArith ZArith Lia Bool PeanoNat.
From Coq Require Import ZifyBool ZifyNat ZifyN.
From NV Require Import Cram.Bytes Cram.Vlq Cram.IntProofs Cram.Rans4x8 Cram.Rans4x8Proofs
  Cram.Nx16Xform Cram.Nx16XformProofs Cram.Nx16O0 Cram.Nx16O0Total Cram.Nx16Full
  Cram.Nx16Stripe Cram.Nx16StripeProofs Cram.Aac Cram.AacTotal Cram.AacModes Cram.AacRle.
Import ListNotations.
Ltac Zify.zify_post_hook ::= Z.div_mod_to_equations.
Open Scope N_scope.
Arguments N.add : simpl never.
Arguments N.sub : simpl never.
Arguments N.mul : simpl never.
Arguments N.div : simpl never.
Arguments N.modulo : simpl never.
Arguments N.pow : simpl never.
Arguments N.ltb : simpl never.
Arguments N.leb : simpl never.
Arguments N.eqb : simpl never.

Notation byte := (fun b : N => b < 256).

(* ---------- the symbols of a model ---------- *)

Definition syms_lt (n : N) (l : list (N * N)) : Prop := Forall (fun p => fst p < n) l.

Definition model_okn (n : N) (m : aac_model) : Prop := model_ok m /\ syms_lt n (m_tab m).

Lemma tab_add16_syms n : forall l x, syms_lt n l -> syms_lt n (tab_add16 l x).
Proof.
  unfold syms_lt. induction l as [|[s f] r IH]; intros x H; [destruct x; exact H|].
  destruct x as [|x']; cbn [tab_add16]; constructor.
  - exact (Forall_inv H).
  - exact (Forall_inv_tail H).
  - exact (Forall_inv H).
  - apply IH. exact (Forall_inv_tail H).
Qed.

Lemma tab_halve_syms n : forall l, syms_lt n l -> syms_lt n (tab_halve l).
Proof.
  unfold syms_lt, tab_halve. induction l as [|p r IH]; intros H; cbn [map]; constructor.
  - exact (Forall_inv H).
  - apply IH. exact (Forall_inv_tail H).
Qed.

Lemma tab_swap_syms n : forall l x, syms_lt n l -> syms_lt n (tab_swap l x).
Proof.
  unfold syms_lt. induction l as [|a r IH]; intros x H; [rewrite tab_swap_nil; exact H|].
  destruct x as [|[|x]].
  - rewrite tab_swap_0. exact H.
  - destruct r as [|b r']; [exact H|]. rewrite tab_swap_1.
    destruct (snd a <? snd b); [|exact H].
    constructor; [exact (Forall_inv (Forall_inv_tail H))|].
    constructor; [exact (Forall_inv H)|exact (Forall_inv_tail (Forall_inv_tail H))].
  - rewrite tab_swap_SS. constructor; [exact (Forall_inv H)|]. apply IH. exact (Forall_inv_tail H).
Qed.

Lemma model_update_syms n m x : syms_lt n (m_tab m) -> syms_lt n (m_tab (model_update m x)).
Proof.
  intros H. unfold model_update.
  destruct (65519 <? m_tot m + 16); cbn [m_tab]; apply tab_swap_syms.
  - apply tab_halve_syms. apply tab_add16_syms. exact H.
  - apply tab_add16_syms. exact H.
Qed.

Lemma model_new_syms : forall k s,
  syms_lt (N.of_nat (s + k)) (map (fun i => (N.of_nat i, 1)) (seq s k)).
Proof.
  unfold syms_lt. induction k as [|k IH]; intros s; cbn [seq map]; constructor.
  - cbn [fst]. lia.
  - replace (s + S k)%nat with (S s + k)%nat by lia. apply IH.
Qed.

Lemma model_new_okn n : (1 <= n <= 256)%nat -> model_okn (N.of_nat n) (model_new n).
Proof.
  intros Hn. split; [apply model_new_ok; exact Hn|].
  unfold model_new. cbn [m_tab]. exact (model_new_syms n 0).
Qed.

Lemma model_new4_okn : model_okn 4 (model_new 4).
Proof. change 4 with (N.of_nat 4) at 1. apply model_new_okn. lia. Qed.

Lemma find_freq_sym n : forall l freq x0 acc0 x acc f sy,
  find_freq l freq x0 acc0 = Some (x, acc, f, sy) -> syms_lt n l -> sy < n.
Proof.
  unfold syms_lt. induction l as [|[s f0] r IH]; intros freq x0 acc0 x acc f sy H Hs;
    cbn [find_freq] in H; [discriminate|].
  destruct (acc0 + f0 <=? freq).
  - eapply IH; [exact H|exact (Forall_inv_tail Hs)].
  - inversion H; subst. exact (Forall_inv Hs).
Qed.

(* what a successful Model::decode returns: a symbol of the table, and the updated model *)
Lemma model_decode_inv m st bs m' st' sym bs' :
  model_decode m st bs = ROk (m', st', sym, bs') ->
  exists freq x acc f, find_freq (m_tab m) freq 0 0 = Some (x, acc, f, sym) /\ m' = model_update m x.
Proof.
  unfold model_decode. cbv zeta.
  destruct (m_tot m =? 0); [intros H; discriminate|].
  set (r := d_range st / m_tot m).
  destruct (r =? 0); [intros H; discriminate|].
  set (freq := d_code st / r).
  destruct (m_tot m <=? freq); [intros H; discriminate|].
  destruct (find_freq (m_tab m) freq 0 0) as [[[[x acc] f] sy]|] eqn:EF; [|intros H; discriminate].
  match goal with |- (if ?c then _ else _) = _ -> _ => destruct c; [intros H; discriminate|] end.
  match goal with |- match ?c with Some _ => _ | None => _ end = _ -> _ =>
    destruct c as [[st1 bs1]|]; [|intros H; discriminate] end.
  intros H. inversion H; subst. exists freq, x, acc, f. split; [exact EF|reflexivity].
Qed.

Lemma model_decode_okn n m st bs :
  model_okn n m -> rc_ok st -> Forall byte bs ->
  model_decode m st bs <> RPanic /\
  forall m' st' sym bs', model_decode m st bs = ROk (m', st', sym, bs') ->
    model_okn n m' /\ rc_ok st' /\ Forall byte bs' /\ sym < n.
Proof.
  intros [Hm Hs] Hst HP. destruct (model_decode_ok m st bs Hm Hst HP) as [Hnp Hok].
  split; [exact Hnp|]. intros m' st' sym bs' H.
  destruct (Hok _ _ _ _ H) as (Hm' & Hst' & HP').
  destruct (model_decode_inv _ _ _ _ _ _ _ H) as (freq & x & acc & f & HF & Hup).
  split; [split; [exact Hm'|subst m'; apply model_update_syms; exact Hs]|].
  split; [exact Hst'|]. split; [exact HP'|]. eapply find_freq_sym; [exact HF|exact Hs].
Qed.

(* ---------- a vector of models ---------- *)

Lemma upd_model_length : forall l i m, length (upd_model l i m) = length l.
Proof.
  induction l as [|a r IH]; intros i m; [destruct i; reflexivity|].
  destruct i as [|i']; cbn [upd_model length]; [reflexivity|]. rewrite IH. reflexivity.
Qed.

Lemma upd_model_Forall (P : aac_model -> Prop) : forall l i m,
  Forall P l -> P m -> Forall P (upd_model l i m).
Proof.
  induction l as [|a r IH]; intros i m H Hm; [destruct i; exact H|].
  destruct i as [|i']; cbn [upd_model]; constructor.
  - exact Hm.
  - exact (Forall_inv_tail H).
  - exact (Forall_inv H).
  - apply IH; [exact (Forall_inv_tail H)|exact Hm].
Qed.

Lemma nth_error_Forall (P : aac_model -> Prop) l i m :
  Forall P l -> nth_error l i = Some m -> P m.
Proof.
  intros H E. rewrite Forall_forall in H. apply H. eapply nth_error_In. exact E.
Qed.

Lemma Forall_repeat (P : aac_model -> Prop) x : P x -> forall k, Forall P (repeat x k).
Proof. intros Hx. induction k as [|k IH]; cbn [repeat]; constructor; assumption. Qed.

Lemma ctx_decode_ok n ms st ctx bs :
  Forall (model_okn n) ms -> (N.to_nat ctx < length ms)%nat -> rc_ok st -> Forall byte bs ->
  ctx_decode ms st ctx bs <> RPanic /\
  forall ms' st' sym bs', ctx_decode ms st ctx bs = ROk (ms', st', sym, bs') ->
    Forall (model_okn n) ms' /\ length ms' = length ms /\ rc_ok st' /\ Forall byte bs' /\ sym < n.
Proof.
  intros Hms Hctx Hst HP. unfold ctx_decode.
  destruct (nth_error ms (N.to_nat ctx)) as [m|] eqn:EN;
    [|apply nth_error_None in EN; exfalso; lia].
  pose proof (nth_error_Forall _ _ _ _ Hms EN) as Hm.
  destruct (model_decode_okn n m st bs Hm Hst HP) as [Hnp Hok].
  destruct (model_decode m st bs) as [[[[m' st1] sy] bs1]| |] eqn:E.
  - split; [discriminate|]. intros ms' st' sym bs' H. inversion H; subst ms' st' sym bs'.
    destruct (Hok _ _ _ _ eq_refl) as (Hm' & Hst1 & HP1 & Hsy).
    split; [apply upd_model_Forall; [exact Hms|exact Hm']|].
    split; [apply upd_model_length|]. split; [exact Hst1|]. split; [exact HP1|exact Hsy].
  - split; [discriminate|]. intros ms' st' sym bs' H. discriminate.
  - exfalso. apply Hnp. reflexivity.
Qed.

(* ---------- order 1 ---------- *)

Lemma dec1_loop_never_panics n : forall k ms st prev bs,
  Forall (model_okn n) ms -> n <= N.of_nat (length ms) -> prev < n -> rc_ok st -> Forall byte bs ->
  dec1_loop k ms st prev bs <> RPanic.
Proof.
  induction k as [|k IH]; intros ms st prev bs Hms Hlen Hprev Hst HP; cbn [dec1_loop]; [discriminate|].
  assert (Hctx : (N.to_nat prev < length ms)%nat) by lia.
  destruct (ctx_decode_ok n ms st prev bs Hms Hctx Hst HP) as [Hnp Hok].
  destruct (ctx_decode ms st prev bs) as [[[[ms' st'] sym] bs']| |] eqn:E.
  - destruct (Hok _ _ _ _ eq_refl) as (Hms' & Hlen' & Hst' & HP' & Hsym).
    assert (Hnp2 : dec1_loop k ms' st' sym bs' <> RPanic).
    { apply IH; [exact Hms'|rewrite Hlen'; exact Hlen|exact Hsym|exact Hst'|exact HP']. }
    destruct (dec1_loop k ms' st' sym bs'); [discriminate|discriminate|exact Hnp2].
  - discriminate.
  - exfalso. apply Hnp. reflexivity.
Qed.

Lemma sym_count_range c : c < 256 ->
  (1 <= (if (c =? 0)%N then 256 else N.to_nat c) <= 256)%nat.
Proof. intros Hc. destruct (c =? 0) eqn:E0; lia. Qed.

Theorem aac_o1_decode_never_panics : forall bs len,
  Forall (fun b => b < 256) bs -> aac_o1_decode bs len <> RPanic.
Proof.
  intros bs len HP. unfold aac_o1_decode. destruct bs as [|c r]; [discriminate|]. cbv zeta.
  pose proof (Forall_inv HP) as Hc. cbv beta in Hc. pose proof (Forall_inv_tail HP) as HPr.
  pose proof (sym_count_range c Hc) as Hn.
  set (n := if c =? 0 then 256%nat else N.to_nat c) in *.
  destruct (rc_dec_new r) as [[st r']|] eqn:E; [|discriminate].
  destruct (rc_dec_new_ok _ _ _ HPr E) as [Hst HPr'].
  apply (dec1_loop_never_panics (N.of_nat n)); [| | |exact Hst|exact HPr'].
  - apply Forall_repeat. apply model_new_okn. exact Hn.
  - rewrite repeat_length. lia.
  - lia.
Qed.

(* ---------- RLE: the run length ---------- *)

Lemma iter2_inv {St Rs : Type} (Inv : St -> Prop) (Post : Rs -> Prop) (step : St -> St + Rs) :
  (forall s, Inv s -> match step s with inl s' => Inv s' | inr r => Post r end) ->
  forall k s, Inv s -> match iter2 k step s with inl s' => Inv s' | inr r => Post r end.
Proof.
  intros Hstep. induction k as [|k IH]; intros s Hs; cbn [iter2]; [apply Hstep; exact Hs|].
  pose proof (IH s Hs) as H1. destruct (iter2 k step s) as [s'|r]; [apply IH; exact H1|exact H1].
Qed.

Definition run_inv (s : run_state) : Prop :=
  let '(rs, st, bs, ctx, len) := s in
  Forall (model_okn 4) rs /\ length rs = 258%nat /\ rc_ok st /\ Forall byte bs /\ ctx < 258.

Definition run_post (r : res (list aac_model * rc_dec * list N * N)) : Prop :=
  r <> RPanic /\
  forall rs' st' bs' len, r = ROk (rs', st', bs', len) ->
    Forall (model_okn 4) rs' /\ length rs' = 258%nat /\ rc_ok st' /\ Forall byte bs'.

Lemma run_inv_eq rs st bs ctx len :
  run_inv (rs, st, bs, ctx, len) =
  (Forall (model_okn 4) rs /\ length rs = 258%nat /\ rc_ok st /\ Forall byte bs /\ ctx < 258).
Proof. reflexivity. Qed.

Lemma dec_run_step_inv : forall s, run_inv s ->
  match dec_run_step s with inl s' => run_inv s' | inr r => run_post r end.
Proof.
  intros [[[[rs st] bs] ctx] len] Hs. rewrite run_inv_eq in Hs.
  destruct Hs as (Hrs & Hlen & Hst & HP & Hctx).
  unfold dec_run_step.
  assert (Hc : (N.to_nat ctx < length rs)%nat) by lia.
  destruct (ctx_decode_ok 4 rs st ctx bs Hrs Hc Hst HP) as [Hnp Hok].
  destruct (ctx_decode rs st ctx bs) as [[[[rs' st'] d] bs']| |] eqn:E.
  - destruct (Hok _ _ _ _ eq_refl) as (Hrs' & Hlen' & Hst' & HP' & Hd).
    destruct (d =? 3).
    + rewrite run_inv_eq. split; [exact Hrs'|]. split; [lia|]. split; [exact Hst'|].
      split; [exact HP'|]. unfold next_rle_ctx. destruct (ctx <? 256); lia.
    + split; [discriminate|]. intros rs2 st2 bs2 len2 H. inversion H; subst rs2 st2 bs2 len2.
      split; [exact Hrs'|]. split; [lia|]. split; [exact Hst'|exact HP'].
  - split; [discriminate|]. intros rs2 st2 bs2 len2 H. discriminate.
  - exfalso. apply Hnp. reflexivity.
Qed.

Lemma dec_run_ok rs st bs ctx :
  Forall (model_okn 4) rs -> length rs = 258%nat -> rc_ok st -> Forall byte bs -> ctx < 258 ->
  run_post (dec_run rs st bs ctx).
Proof.
  intros Hrs Hlen Hst HP Hctx. unfold dec_run.
  assert (Hinv : run_inv (rs, st, bs, ctx, 0)).
  { rewrite run_inv_eq. split; [exact Hrs|]. split; [exact Hlen|]. split; [exact Hst|].
    split; [exact HP|exact Hctx]. }
  pose proof (iter2_inv run_inv run_post dec_run_step dec_run_step_inv 48 _ Hinv) as H.
  destruct (iter2 48 dec_run_step (rs, st, bs, ctx, 0)) as [s'|r]; [|exact H].
  split; [discriminate|]. intros rs2 st2 bs2 len2 H2. discriminate.
Qed.

(* ---------- RLE: the literal loop ---------- *)

Lemma dec_rle_loop_never_panics (n : N) (o1 : bool) : n <= 256 ->
  forall fuel k ms rs st prev bs, (k <= fuel)%nat ->
  Forall (model_okn n) ms ->
  (forall c, c < n -> (N.to_nat (if o1 then c else 0) < length ms)%nat) ->
  prev < n ->
  Forall (model_okn 4) rs -> length rs = 258%nat -> rc_ok st -> Forall byte bs ->
  dec_rle_loop k o1 ms rs st prev bs <> RPanic.
Proof.
  intros Hn. induction fuel as [|fuel IH]; intros k ms rs st prev bs Hk Hms Hcx Hprev Hrs Hrl Hst HP;
    (destruct k as [|k']; cbn [dec_rle_loop]; [discriminate|]); [lia|].
  destruct (ctx_decode_ok n ms st (if o1 then prev else 0) bs Hms (Hcx prev Hprev) Hst HP)
    as [Hnp Hok].
  destruct (ctx_decode ms st (if o1 then prev else 0) bs) as [[[[ms' st1] sym] b1]| |] eqn:E;
    [|discriminate|exfalso; apply Hnp; reflexivity].
  destruct (Hok _ _ _ _ eq_refl) as (Hms' & Hlen' & Hst1 & Hb1 & Hsym).
  assert (Hsym' : sym < 258) by lia.
  destruct (dec_run_ok rs st1 b1 sym Hrs Hrl Hst1 Hb1 Hsym') as [Hnp2 Hok2].
  destruct (dec_run rs st1 b1 sym) as [[[[rs' st2] b2] len]| |] eqn:E2;
    [|discriminate|exfalso; apply Hnp2; reflexivity].
  destruct (Hok2 _ _ _ _ eq_refl) as (Hrs' & Hrl' & Hst2 & Hb2).
  cbv zeta. set (m := Nat.min (N.to_nat len) k').
  assert (Hnp3 : dec_rle_loop (k' - m) o1 ms' rs' st2 sym b2 <> RPanic).
  { apply IH; [lia|exact Hms'| |exact Hsym|exact Hrs'|exact Hrl'|exact Hst2|exact Hb2].
    intros c Hc. rewrite Hlen'. apply Hcx. exact Hc. }
  destruct (dec_rle_loop (k' - m) o1 ms' rs' st2 sym b2); [discriminate|discriminate|exact Hnp3].
Qed.

Theorem aac_rle_decode_never_panics : forall o1 bs len,
  Forall (fun b => b < 256) bs -> aac_rle_decode o1 bs len <> RPanic.
Proof.
  intros o1 bs len HP. unfold aac_rle_decode. destruct bs as [|c r]; [discriminate|]. cbv zeta.
  pose proof (Forall_inv HP) as Hc. cbv beta in Hc. pose proof (Forall_inv_tail HP) as HPr.
  pose proof (sym_count_range c Hc) as Hn.
  set (n := if c =? 0 then 256%nat else N.to_nat c) in *.
  destruct (rc_dec_new r) as [[st r']|] eqn:E; [|discriminate].
  destruct (rc_dec_new_ok _ _ _ HPr E) as [Hst HPr'].
  apply (dec_rle_loop_never_panics (N.of_nat n) o1 ltac:(lia) len len);
    [lia| | |lia| | |exact Hst|exact HPr'].
  - destruct o1; [apply Forall_repeat|constructor; [|constructor]]; apply model_new_okn; exact Hn.
  - intros c0 Hc0. destruct o1; [rewrite repeat_length; lia|cbn [length]; lia].
  - unfold rle_models0. apply Forall_repeat. exact model_new4_okn.
  - unfold rle_models0. apply repeat_length.
Qed.

(* ---------- whole streams without STRIPE ---------- *)

Lemma aac_decode2_never_panics : forall bs usize,
  Forall (fun b => b < 256) bs -> aac_decode2 bs usize <> DPanic.
Proof.
  intros bs usize HP. unfold aac_decode2. destruct bs as [|fb r0]; [discriminate|].
  pose proof (Forall_inv_tail HP) as HP0. cbv zeta.
  set (f := flags_of_byte fb). clearbody f.
  destruct (if f_nosize f then U7Ok usize r0 else read_uint7 r0) as [size0 r1| |] eqn:E1;
    try discriminate.
  assert (HP1 : Forall byte r1).
  { destruct (f_nosize f).
    - inversion E1; subst. exact HP0.
    - eapply read_uint7_rest; [exact E1|exact HP0]. }
  destruct (f_stripe f); [discriminate|].
  match goal with
  | |- match ?X with Some _ => _ | None => _ end <> _ =>
    destruct X as [[[pctx size1] r2]|] eqn:E2; [|discriminate]
  end.
  assert (HP2 : Forall byte r2).
  { destruct (f_pack f).
    - destruct (rd_pack_ctx r1) as [[[table len] t]|] eqn:EP; [|discriminate].
      inversion E2; subst. eapply rd_pack_ctx_rest; [exact EP|exact HP1].
    - inversion E2; subst. exact HP1. }
  destruct (f_cat f).
  - destruct (split_off r2 (N.to_nat size1)) as [[payload rest]|]; [|discriminate].
    destruct pctx as [table|]; [apply pack_decode_never_panics|discriminate].
  - destruct (f_n32 f); [discriminate|].
    assert (Hnp : (if f_rle f then aac_rle_decode (f_order f) r2 (N.to_nat size1)
                   else if f_order f then aac_o1_decode r2 (N.to_nat size1)
                   else aac_o0_decode r2 (N.to_nat size1)) <> RPanic).
    { destruct (f_rle f); [apply aac_rle_decode_never_panics; exact HP2|].
      destruct (f_order f); [apply aac_o1_decode_never_panics|apply aac_o0_decode_never_panics];
        exact HP2. }
    destruct (if f_rle f then aac_rle_decode (f_order f) r2 (N.to_nat size1)
              else if f_order f then aac_o1_decode r2 (N.to_nat size1)
              else aac_o0_decode r2 (N.to_nat size1)) as [d| |].
    + destruct pctx as [table|]; [apply pack_decode_never_panics|discriminate].
    + discriminate.
    + contradiction.
Qed.

(* ---------- STRIPE ---------- *)

Lemma aac_decode_rf_never_panics : forall fuel bs usize,
  Forall (fun b => b < 256) bs -> aac_decode_rf fuel bs usize <> DPanic.
Proof.
  induction fuel as [|fu IH]; intros bs usize HP; cbn [aac_decode_rf]; [discriminate|].
  destruct bs as [|fb r0]; [discriminate|]. cbv zeta.
  destruct (f_stripe (flags_of_byte fb)); [|apply aac_decode2_never_panics; exact HP].
  pose proof (Forall_inv_tail HP) as Hr0.
  destruct (if f_nosize (flags_of_byte fb) then U7Ok usize r0 else read_uint7 r0) as [size0 r1| |] eqn:E;
    try discriminate.
  assert (Hr1 : Forall (fun b => b < 256) r1).
  { destruct (f_nosize (flags_of_byte fb)); [inversion E; subst; exact Hr0|].
    eapply read_uint7_rest; [exact E|exact Hr0]. }
  unfold stripe_decode. destruct r1 as [|c b0]; [discriminate|].
  destruct (c =? 0); [discriminate|]. cbv zeta.
  destruct (rd_sizes (N.to_nat c) b0) as [[csizes b1]|] eqn:ER; [|discriminate].
  pose proof (rd_sizes_rest _ _ _ _ _ ER (Forall_inv_tail Hr1)) as Hb1.
  pose proof (dec_chunks_never_panics (aac_decode_rf fu) (fun bs u H => IH bs u H)
                csizes (stripe_sizes (N.to_nat size0) (N.to_nat c)) b1 Hb1) as Hd.
  destruct (dec_chunks (aac_decode_rf fu) csizes (stripe_sizes (N.to_nat size0) (N.to_nat c)) b1)
    as [[d| | |] l]; cbn [fst] in Hd; congruence.
Qed.

(* for EVERY byte string and caller size the model of aac::decode -- STRIPE with nested sub-streams,
   PACK, CAT, RLE, order 0 and order 1 -- has no panicking path *)
Theorem aac_decode_r_never_panics : forall bs usize,
  Forall (fun b => b < 256) bs -> aac_decode_r bs usize <> DPanic.
Proof. intros bs usize HP. apply aac_decode_rf_never_panics. exact HP. Qed.

Print Assumptions aac_o1_decode_never_panics.
Print Assumptions aac_rle_decode_never_panics.
Print Assumptions aac_decode_r_never_panics.
