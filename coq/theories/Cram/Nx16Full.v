(* rANS Nx16, WHOLE STREAMS: rans_nx16::encode and rans_nx16::decode (noodles-cram
   src/codecs/rans_nx16/{encode,decode}.rs, decode/rle/context.rs) with the PACK / RLE / CAT
   transforms of NV.Cram.Nx16Xform in front of the ORDER-0 entropy coder of NV.Cram.Nx16O0 or the
   ORDER-1 entropy coder of NV.Cram.Nx16O1 (N = 4 or 32 interleaved states).  The decoder also
   takes the branches for entropy-compressed RLE meta-data and an entropy-compressed order-1 table
   (never produced by noodles' encoder, accepted by its decoder).

   Not modelled: STRIPE; the model answers NeStripe / DUnsupported there. *)
From Coq Require Import List NArith Bool PeanoNat.
From NV Require Import Cram.Bytes Cram.Vlq Cram.Rans4x8 Cram.Nx16Xform Cram.Nx16O0 Cram.Nx16O1.
Import ListNotations.
Open Scope N_scope.

Inductive nxe_result :=
| NeOk (bytes : list N)
| NeStripe            (* STRIPE: not modelled *)
| NePanic             (* arithmetic overflow panic (2^32 bytes or more) *)
| NeDiverges.         (* state_renormalize never terminates *)

(* rans_nx16::encode *)
Definition nx_encode_e (f : nxflags) (src : list N) : nxe_result :=
  if f_stripe f then NeStripe
  else
    let size := if f_nosize f then [] else write_uint7 (N.of_nat (length src)) in
    let '(f1, s1, h1) := nx_pack_stage f src in
    let '(f2, s2, h2) := nx_rle_stage f1 s1 in
    let f3 := if (length s2 <? state_count f2)%nat then force_cat f2 else f2 in
    if f_cat f3 then NeOk (byte_of_flags f3 :: size ++ h1 ++ h2 ++ s2)
    else
      match (if f_order f3 then nx_o1_encode (state_count f3) s2
             else nx_o0_encode (state_count f3) s2) with
      | EncOk body => NeOk (byte_of_flags f3 :: size ++ h1 ++ h2 ++ body)
      | EncDiverges => NeDiverges
      | _ => NePanic
      end.

Definition nx_encode_e_byte (fb : N) (src : list N) : nxe_result := nx_encode_e (flags_of_byte fb) src.

(* bit_pack::read_context: symbol count (0 = error), the symbols, the packed length *)
Definition rd_pack_ctx (r1 : list N) : option (list N * N * list N) :=
  match r1 with
  | [] => None
  | c :: t =>
    if c =? 0 then None
    else match split_off t (N.to_nat c) with
         | None => None
         | Some (table, t1) =>
           match read_uint7 t1 with
           | U7Ok len t2 => Some (table, len, t2)
           | _ => None
           end
         end
  end.

(* rle::read_context: (meta length << 1 | not compressed), literal count, then the meta-data,
   verbatim or as `compressed size, order-0 stream` decoded with the stream's state count *)
Definition rd_rle_ctx (nst : nat) (r2 : list N) : res (list N * N * list N) :=
  match read_uint7 r2 with
  | U7Ok n t =>
    match read_uint7 t with
    | U7Ok len t1 =>
      if N.even n then
        match read_uint7 t1 with
        | U7Ok csize t2 =>
          match split_off t2 (N.to_nat csize) with
          | None => RErr
          | Some (buf, t3) =>
            match nxd0_decode buf (N.to_nat (n / 2)) nst with
            | ROk meta => ROk (meta, len, t3)
            | RErr => RErr
            | RPanic => RPanic
            end
          end
        | _ => RErr
        end
      else
        match split_off t1 (N.to_nat (n / 2)) with
        | None => RErr
        | Some (meta, t2) => ROk (meta, len, t2)
        end
    | _ => RErr
    end
  | _ => RErr
  end.

(* rans_nx16::decode; [usize] = the caller's uncompressed size, used when NO_SIZE is set *)
Definition nx_decode_e (bs : list N) (usize : N) : nxd_result :=
  match bs with
  | [] => DErr
  | fb :: r0 =>
    let f := flags_of_byte fb in
    match (if f_nosize f then U7Ok usize r0 else read_uint7 r0) with
    | U7Ok size0 r1 =>
      if f_stripe f then DUnsupported
      else
        match (if f_pack f then
                 match rd_pack_ctx r1 with
                 | Some (table, len, t) => Some (Some table, len, t)
                 | None => None
                 end
               else Some (None, size0, r1)) with
        | None => DErr
        | Some (pctx, size1, r2) =>
          match (if f_rle f then
                   match rd_rle_ctx (state_count f) r2 with
                   | ROk (meta, len, t) => ROk (Some meta, len, t)
                   | RErr => RErr
                   | RPanic => RPanic
                   end
                 else ROk (None, size1, r2)) with
          | RErr => DErr
          | RPanic => DPanic
          | ROk (rctx, size2, r3) =>
            let data :=
              if f_cat f then
                match split_off r3 (N.to_nat size2) with
                | None => DErr
                | Some (payload, _) => DOk payload
                end
              else
                match (if f_order f then nxd1_decode r3 (N.to_nat size2) (state_count f)
                       else nxd0_decode r3 (N.to_nat size2) (state_count f)) with
                | ROk d => DOk d
                | RErr => DErr
                | RPanic => DPanic
                end in
            match data with
            | DOk d =>
              let after_rle :=
                match rctx with
                | Some meta => rle_decode d meta (N.to_nat size1)
                | None => DOk d
                end in
              match after_rle with
              | DOk d2 =>
                match pctx with
                | Some table => pack_decode table d2 (N.to_nat size0)
                | None => DOk d2
                end
              | e => e
              end
            | e => e
            end
          end
        end
    | _ => DErr
    end
  end.
