(* CRAM 3.1 adaptive arithmetic coder: the RANGE CODER of NV.Cram.Aac (carry-less coder with carry
   propagation through a cached byte) -- invariants of the encoder, the value it has committed to,
   and the lockstep of the decoder.

     Vv st out     the number the encoder has committed to: the bytes written, the cached byte, the
                   pending 0xff bytes, the 32-bit low and the pending carry
     einv          the invariant (the bytes written are final; no second carry while one is pending)
     nest W st out the window of the final stream W the decoder holds lies in [Vv, Vv + range)
     shift_spec    range_shift_low multiplies Vv by 256 and counts one shift
     norm_spec     the normalisation loops of encoder and decoder run in lockstep
     encode_spec   range_encode never panics, moves Vv by acc * r, and the decoder follows it
     end_spec      range_encode_end: the stream written IS the committed value                    *)
From Coq Require Import List NArith ZArith Lia Bool PeanoNat.
From Coq Require Import ZifyBool ZifyNat ZifyN.
From NV Require Import Cram.Bytes Cram.Vlq Cram.Rans4x8 Cram.Nx16Xform Cram.Nx16O0 Cram.Aac.
Import ListNotations.
Ltac Zify.zify_post_hook ::= Z.div_mod_to_equations.
Open Scope N_scope.
Arguments N.add : simpl never.
Arguments N.sub : simpl never.
Arguments N.mul : simpl never.
Arguments N.div : simpl never.
Arguments N.modulo : simpl never.
Arguments N.pow : simpl never.
Arguments N.ltb : simpl never.
Arguments N.leb : simpl never.
Arguments N.eqb : simpl never.

(* ---------- big-endian values of byte lists ---------- *)

Definition bv_from (a : N) (l : list N) : N := fold_left (fun a b => a * 256 + b) l a.
Definition bytes_val (l : list N) : N := bv_from 0 l.

Lemma bv_from_app : forall l r a, bv_from a (l ++ r) = bv_from (bv_from a l) r.
Proof. intros l r a. unfold bv_from. apply fold_left_app. Qed.

Lemma bv_from_cons : forall a b l, bv_from a (b :: l) = bv_from (a * 256 + b) l.
Proof. reflexivity. Qed.

Lemma bv_from_nil : forall a, bv_from a [] = a.
Proof. reflexivity. Qed.

Lemma bv_from_rep255 : forall k a, bv_from a (repeat 255 k) + 1 = (a + 1) * 256 ^ N.of_nat k.
Proof.
  induction k as [|k IH]; intros a.
  - cbn [repeat]. rewrite bv_from_nil. change (N.of_nat 0) with 0. rewrite N.pow_0_r. lia.
  - cbn [repeat]. rewrite bv_from_cons, IH, Nat2N.inj_succ, N.pow_succ_r'. lia.
Qed.

Lemma bv_from_rep0 : forall k a, bv_from a (repeat 0 k) = a * 256 ^ N.of_nat k.
Proof.
  induction k as [|k IH]; intros a.
  - cbn [repeat]. rewrite bv_from_nil. change (N.of_nat 0) with 0. rewrite N.pow_0_r. lia.
  - cbn [repeat]. rewrite bv_from_cons, IH, Nat2N.inj_succ, N.pow_succ_r'. lia.
Qed.

Lemma bytes_val_snoc : forall l b, bytes_val (l ++ [b]) = bytes_val l * 256 + b.
Proof. intros l b. unfold bytes_val. rewrite bv_from_app. reflexivity. Qed.

Lemma step_lists : forall (W : list N) k, (k < length W)%nat ->
  exists b, skipn k W = b :: skipn (S k) W /\ firstn (S k) W = firstn k W ++ [b] /\
            (Forall (fun x => x < 256) W -> b < 256).
Proof.
  induction W as [|a W IH]; intros k Hk; cbn [length] in Hk; [lia|].
  destruct k as [|k].
  - exists a. cbn [skipn firstn app]. split; [reflexivity|]. split; [reflexivity|].
    intros HF. inversion HF; assumption.
  - destruct (IH k ltac:(lia)) as (b & H1 & H2 & H3). exists b.
    change (skipn (S k) (a :: W)) with (skipn k W).
    change (skipn (S (S k)) (a :: W)) with (skipn (S k) W).
    change (firstn (S (S k)) (a :: W)) with (a :: firstn (S k) W).
    change (firstn (S k) (a :: W)) with (a :: firstn k W).
    rewrite H2. split; [exact H1|]. split; [reflexivity|].
    intros HF. apply H3. inversion HF; assumption.
Qed.

Lemma Forall_repeat : forall (P : N -> Prop) x k, P x -> Forall P (repeat x k).
Proof. intros P x k Hx. induction k as [|k IH]; cbn [repeat]; constructor; assumption. Qed.

(* ---------- the committed value and the invariant ---------- *)

Definition b2n (b : bool) : N := if b then 1 else 0.

Definition Yv (st : rc_enc) (out : list N) : N :=
  (bytes_val out * 256 + e_cache st + 1) * 256 ^ e_ffnum st.

(* emitted bytes, cached byte, ff bytes 0xff, 32-bit low; a pending carry adds one unit at the
   cached position *)
Definition Vv (st : rc_enc) (out : list N) : N :=
  (Yv st out - 1 + b2n (e_carry st)) * 4294967296 + e_low st.

Definition Bv (st : rc_enc) (out : list N) : N := (bytes_val out + 1) * 256 * 256 ^ e_ffnum st.

(* number of shifts done so far *)
Definition nsh (st : rc_enc) (out : list N) : nat := (length out + N.to_nat (e_ffnum st))%nat.

Definition einv (st : rc_enc) (out : list N) (R : N) : Prop :=
  e_low st < 4294967296 /\ e_cache st < 256 /\ Forall (fun b => b < 256) out /\ 1 <= R /\
  Vv st out + R <= Bv st out * 4294967296 /\
  (e_carry st = true -> e_low st + R <= 4294967296).

Definition enc_ok (st : rc_enc) (out : list N) : Prop :=
  einv st out (e_range st) /\ 16777216 <= e_range st /\ e_range st < 4294967296.

Definition with_range (st : rc_enc) (r : N) : rc_enc :=
  {| e_range := r; e_low := e_low st; e_carry := e_carry st; e_cache := e_cache st;
     e_ffnum := e_ffnum st |}.

(* the window of the final stream the decoder holds after n shifts *)
Definition Dw (W : list N) (n : nat) : N := bytes_val (firstn (n + 5) W).

Definition nest (W : list N) (st : rc_enc) (out : list N) (R : N) : Prop :=
  (nsh st out + 5 <= length W)%nat /\ Vv st out <= Dw W (nsh st out) /\ Dw W (nsh st out) < Vv st out + R.

Lemma enc_init_ok : enc_ok rc_enc_init [].
Proof.
  unfold enc_ok, einv, Vv, Yv, Bv, rc_enc_init, U32MAX, b2n, bytes_val.
  cbn [e_low e_cache e_carry e_ffnum e_range]. rewrite bv_from_nil, N.pow_0_r.
  repeat split; try lia. all: try constructor.
Qed.

Lemma einv_weaken : forall st out R R', einv st out R -> 1 <= R' -> R' <= R -> einv st out R'.
Proof.
  intros st out R R' (H1 & H2 & H3 & H4 & H5 & H6) Ha Hb.
  unfold einv. repeat split; try assumption; try lia. all: intros Hc; specialize (H6 Hc); lia.
Qed.

(* ---------- range_shift_low ---------- *)

Lemma shift_spec : forall st out R R' st' em,
  einv st out R -> 1 <= R' -> R' <= 256 * R ->
  (e_carry st = false -> e_low st < 4278190080 -> 256 * e_low st + R' <= 256 * 4294967296) ->
  shift_low st = (st', em) ->
  einv st' (out ++ em) R' /\ Vv st' (out ++ em) = 256 * Vv st out /\
  nsh st' (out ++ em) = S (nsh st out) /\ e_range st' = e_range st /\
  e_low st' = (e_low st * 256) mod 4294967296 /\
  (e_low st = 0 -> e_cache st' = 0 /\ e_ffnum st' = 0 /\ e_carry st' = false).
Proof.
  intros [rng low carry cache ff] out R R' st' em (Hlow & Hcache & Hout & HR & HI2 & HI4) HR1 HR2 Hfl Hsh.
  unfold shift_low in Hsh. unfold einv, Vv, Yv, Bv, nsh, b2n in *.
  cbn [e_range e_low e_carry e_cache e_ffnum] in *. unfold TOP, TWO32 in Hsh.
  assert (HP : 1 <= 256 ^ ff) by (pose proof (N.pow_nonzero 256 ff); lia).
  set (X := bytes_val out) in *. set (P := 256 ^ ff) in *.
  destruct carry.
  - (* a pending carry: flush cache + 1, then zeros *)
    rewrite orb_true_r in Hsh. injection Hsh as Hst Hem. subst st' em.
    cbn [e_range e_low e_carry e_cache e_ffnum].
    specialize (HI4 eq_refl).
    assert (Hc : cache < 255).
    { destruct (N.lt_ge_cases cache 255) as [Hlt|Hge]; [exact Hlt|].
      pose proof (N.mul_le_mono_r 255 cache P Hge) as Hm. lia. }
    assert (HX' : bytes_val (out ++ (cache + 1) mod 256 :: repeat 0 (N.to_nat ff)) = (X * 256 + cache + 1) * P).
    { unfold bytes_val. rewrite bv_from_app, bv_from_cons, bv_from_rep0, N2Nat.id.
      rewrite (N.mod_small (cache + 1) 256) by lia. fold (bytes_val out). fold X. fold P. lia. }
    rewrite HX'. rewrite N.pow_0_r.
    set (Y := (X * 256 + cache + 1) * P) in *.
    repeat split; try lia;
      try (apply Forall_app; split; [exact Hout|]; constructor; [lia|]; apply Forall_repeat; lia);
      try (rewrite app_length; cbn [length]; rewrite repeat_length; lia);
      try (intros Hz; subst low; reflexivity); try discriminate.
  - destruct (low <? 4278190080) eqn:Elow.
    + (* plain flush: cache, then 0xff bytes *)
      cbn [orb] in Hsh. injection Hsh as Hst Hem. subst st' em.
      cbn [e_range e_low e_carry e_cache e_ffnum].
      apply N.ltb_lt in Elow. specialize (Hfl eq_refl Elow).
      assert (HX' : bytes_val (out ++ (cache + 0) mod 256 :: repeat 255 (N.to_nat ff)) + 1 = (X * 256 + cache + 1) * P).
      { unfold bytes_val. rewrite bv_from_app, bv_from_cons, bv_from_rep255, N2Nat.id.
        rewrite (N.mod_small (cache + 0) 256) by lia. fold (bytes_val out). fold X. fold P. lia. }
      set (X' := bytes_val (out ++ (cache + 0) mod 256 :: repeat 255 (N.to_nat ff))) in *.
      rewrite N.pow_0_r.
      set (Y := (X * 256 + cache + 1) * P) in *.
      repeat split; try lia;
        try (apply Forall_app; split; [exact Hout|]; constructor; [lia|]; apply Forall_repeat; lia);
        try (rewrite app_length; cbn [length]; rewrite repeat_length; lia);
        try (intros Hz; subst low; reflexivity); try discriminate.
    + (* top byte 0xff, no carry: one more pending 0xff *)
      cbn [orb] in Hsh. injection Hsh as Hst Hem. subst st' em.
      cbn [e_range e_low e_carry e_cache e_ffnum].
      apply N.ltb_ge in Elow. rewrite app_nil_r. fold X.
      rewrite N.pow_add_r, N.pow_1_r. fold P.
      repeat split; try lia; try exact Hout; try discriminate.
Qed.

(* ---------- the normalisation loops, encoder and decoder in lockstep ---------- *)

Lemma einv_with_range : forall st r out R, einv (with_range st r) out R = einv st out R.
Proof. reflexivity. Qed.
Lemma Vv_with_range : forall st r out, Vv (with_range st r) out = Vv st out.
Proof. reflexivity. Qed.
Lemma nsh_with_range : forall st r out, nsh (with_range st r) out = nsh st out.
Proof. reflexivity. Qed.

Lemma Dw_step : forall W n, Forall (fun x => x < 256) W -> (n + 5 < length W)%nat ->
  exists b, b < 256 /\ Dw W (S n) = Dw W n * 256 + b /\
            skipn (n + 5) W = b :: skipn (S n + 5) W.
Proof.
  intros W n HF Hn. destruct (step_lists W (n + 5) Hn) as (b & H1 & H2 & H3).
  exists b. split; [exact (H3 HF)|]. split.
  - unfold Dw. change (S n + 5)%nat with (S (n + 5)). rewrite H2. apply bytes_val_snoc.
  - exact H1.
Qed.

Definition dec_follows (W tail : list N) (st : rc_enc) (out : list N) (dst : rc_dec) (bs : list N) : Prop :=
  d_range dst = e_range st /\ d_code dst + Vv st out = Dw W (nsh st out) /\
  bs = skipn (nsh st out + 5) W ++ tail.

Lemma enc_normalize_S : forall fu st,
  enc_normalize (S fu) st =
  if e_range st <? 16777216 then
    let '(st1, out1) := shift_low (with_range st ((e_range st * 256) mod 4294967296)) in
    let '(st2, out2) := enc_normalize fu st1 in (st2, out1 ++ out2)
  else (st, []).
Proof. reflexivity. Qed.

Lemma dec_normalize_rc_S : forall fu st bs,
  dec_normalize_rc (S fu) st bs =
  if d_range st <? 16777216 then
    match bs with
    | [] => None
    | b :: r => dec_normalize_rc fu {| d_range := (d_range st * 256) mod 4294967296;
                                       d_code := (d_code st * 256) mod 4294967296 + b |} r
    end
  else Some (st, bs).
Proof. reflexivity. Qed.

Lemma norm_spec : forall fuel st out st' o,
  einv st out (e_range st) -> e_range st < 4294967296 ->
  enc_normalize fuel st = (st', o) ->
  einv st' (out ++ o) (e_range st') /\ e_range st' < 4294967296 /\
  (16777216 <= e_range st * 256 ^ N.of_nat fuel -> 16777216 <= e_range st') /\
  forall W, Forall (fun x => x < 256) W -> nest W st' (out ++ o) (e_range st') ->
    nest W st out (e_range st) /\
    forall tail dst bs, dec_follows W tail st out dst bs ->
      exists dst' bs', dec_normalize_rc fuel dst bs = Some (dst', bs') /\
                       dec_follows W tail st' (out ++ o) dst' bs'.
Proof.
  induction fuel as [|fu IH]; intros st out st' o Hinv Hrng Hn.
  - cbn [enc_normalize] in Hn. injection Hn as Hst Ho. subst st' o. rewrite app_nil_r.
    split; [exact Hinv|]. split; [exact Hrng|]. split.
    { change (N.of_nat 0) with 0. rewrite N.pow_0_r. lia. }
    intros W HW Hnest. split; [exact Hnest|].
    intros tail dst bs Hf. exists dst, bs. split; [reflexivity|exact Hf].
  - rewrite enc_normalize_S in Hn.
    destruct (e_range st <? 16777216) eqn:Elt.
    + apply N.ltb_lt in Elt.
      rewrite (N.mod_small (e_range st * 256)) in Hn by lia.
      destruct (shift_low (with_range st (e_range st * 256))) as [st1 o1] eqn:Esh.
      destruct (enc_normalize fu st1) as [st2 o2] eqn:En.
      injection Hn as Hst Ho. subst st' o.
      assert (HR1 : 1 <= e_range st) by (destruct Hinv as (_ & _ & _ & HR & _); exact HR).
      destruct (shift_spec (with_range st (e_range st * 256)) out (e_range st) (e_range st * 256) st1 o1)
        as (Hinv1 & HV1 & Hn1 & Hr1 & _); [exact Hinv|lia|lia| |exact Esh|].
      { cbn [with_range e_low e_carry]. intros _ Hl. lia. }
      rewrite Vv_with_range in HV1. rewrite nsh_with_range in Hn1.
      cbn [with_range e_range] in Hr1.
      rewrite <- Hr1 in Hinv1.
      destruct (IH st1 (out ++ o1) st2 o2 Hinv1 ltac:(lia) En) as (Hinv2 & Hrng2 & Htop & Hdec).
      rewrite <- app_assoc in Hinv2, Hdec.
      split; [exact Hinv2|]. split; [exact Hrng2|]. split.
      { intros Hge. apply Htop. rewrite Hr1.
        rewrite Nat2N.inj_succ, N.pow_succ_r' in Hge. lia. }
      intros W HW Hnest. destruct (Hdec W HW Hnest) as (Hnest1 & Hdec1).
      destruct Hnest1 as (HL1 & HD1a & HD1b). rewrite Hn1 in HL1, HD1a, HD1b. rewrite HV1, Hr1 in *.
      destruct (Dw_step W (nsh st out) HW ltac:(lia)) as (b & Hb & HDs & Hsk).
      split.
      { unfold nest. split; [lia|]. split; lia. }
      intros tail dst bs (Hdr & Hdc & Hbs).
      rewrite dec_normalize_rc_S. rewrite Hdr.
      replace (e_range st <? 16777216) with true by (symmetry; apply N.ltb_lt; exact Elt).
      rewrite Hbs, Hsk. cbn [app].
      apply Hdec1. unfold dec_follows. cbn [d_range d_code]. rewrite Hn1, HV1, Hr1.
      split; [rewrite N.mod_small by lia; reflexivity|]. split; [|reflexivity].
      rewrite N.mod_small by lia. lia.
    + injection Hn as Hst Ho. subst st' o. rewrite app_nil_r. apply N.ltb_ge in Elt.
      split; [exact Hinv|]. split; [exact Hrng|]. split; [intros _; exact Elt|].
      intros W HW Hnest. split; [exact Hnest|].
      intros tail dst bs Hf. exists dst, bs. split; [|exact Hf].
      rewrite dec_normalize_rc_S. destruct Hf as (Hdr & _). rewrite Hdr.
      replace (e_range st <? 16777216) with false by (symmetry; apply N.ltb_ge; exact Elt).
      reflexivity.
Qed.

(* ---------- range_encode ---------- *)

Definition enc_mid (st : rc_enc) (a b : N) : rc_enc :=
  {| e_range := b; e_low := (e_low st + a) mod 4294967296;
     e_carry := e_carry st || ((e_low st + a) mod 4294967296 <? e_low st);
     e_cache := e_cache st; e_ffnum := e_ffnum st |}.

Lemma rc_encode_eq : forall st acc f tot,
  rc_encode st acc f tot =
  if tot =? 0 then None
  else if (4294967296 <=? acc * (e_range st / tot)) || (4294967296 <=? e_range st / tot * f) then None
       else Some (enc_normalize 4 (enc_mid st (acc * (e_range st / tot)) (e_range st / tot * f))).
Proof. reflexivity. Qed.

(* the arithmetic of one coding step *)
Lemma step_arith : forall R tot acc f, 16777216 <= R -> 1 <= f -> acc + f <= tot -> tot <= 65535 ->
  let r := R / tot in 1 <= r /\ acc * r + r * f <= R /\ 1 <= r * f.
Proof.
  intros R tot acc f HR Hf Hsum Htot r.
  assert (Hr : tot * r <= R) by (apply N.mul_div_le; lia).
  assert (Hr1 : 1 <= r) by (apply N.div_le_lower_bound; lia).
  assert (Hm : (acc + f) * r <= tot * r) by (apply N.mul_le_mono_r; exact Hsum).
  assert (Hf1 : 1 * 1 <= r * f) by (apply N.mul_le_mono; assumption).
  split; [exact Hr1|]. split; lia.
Qed.

Lemma mid_spec : forall st out a b, enc_ok st out -> 1 <= b -> a + b <= e_range st ->
  einv (enc_mid st a b) out b /\ Vv (enc_mid st a b) out = Vv st out + a /\
  nsh (enc_mid st a b) out = nsh st out.
Proof.
  intros [rng low carry cache ff] out a b ((Hlow & Hcache & Hout & HR & HI2 & HI4) & Hr1 & Hr2) Hb Hab.
  unfold einv, enc_mid, Vv, Yv, Bv, nsh, b2n in *. cbn [e_range e_low e_carry e_cache e_ffnum] in *.
  assert (HP : 1 <= 256 ^ ff) by (pose proof (N.pow_nonzero 256 ff); lia).
  set (X := bytes_val out) in *. set (P := 256 ^ ff) in *.
  assert (HY : 1 <= (X * 256 + cache + 1) * P).
  { pose proof (N.mul_le_mono 1 (X * 256 + cache + 1) 1 P ltac:(lia) HP) as Hm. lia. }
  set (Y := (X * 256 + cache + 1) * P) in *.
  destruct carry; cbn [orb].
  - specialize (HI4 eq_refl). rewrite (N.mod_small (low + a)) by lia.
    repeat split; try lia; try exact Hout.
  - clear HI4. destruct ((low + a) mod 4294967296 <? low) eqn:Ew.
    + apply N.ltb_lt in Ew. repeat split; try lia; try exact Hout.
    + apply N.ltb_ge in Ew. repeat split; try lia; try exact Hout.
Qed.

Lemma encode_spec : forall st out acc f tot,
  enc_ok st out -> 1 <= f -> acc + f <= tot -> tot <= 65535 ->
  exists st' o, rc_encode st acc f tot = Some (st', o) /\ enc_ok st' (out ++ o) /\
    forall W, Forall (fun x => x < 256) W -> nest W st' (out ++ o) (e_range st') ->
      nest W st out (e_range st) /\
      forall tail dst bs, dec_follows W tail st out dst bs ->
        let r := d_range dst / tot in
        r <> 0 /\ acc <= d_code dst / r /\ d_code dst / r < acc + f /\
        acc * r < 4294967296 /\ acc * r <= d_code dst /\ r * f < 4294967296 /\
        exists dst' bs',
          dec_normalize_rc 4 {| d_range := r * f; d_code := d_code dst - acc * r |} bs = Some (dst', bs') /\
          dec_follows W tail st' (out ++ o) dst' bs'.
Proof.
  intros st out acc f tot Hok Hf Hsum Htot.
  pose proof Hok as (Hinv & Hr1 & Hr2).
  destruct (step_arith (e_range st) tot acc f Hr1 Hf Hsum Htot) as (Hr & Hab & Hb).
  set (r := e_range st / tot) in *.
  destruct (mid_spec st out (acc * r) (r * f) Hok Hb Hab) as (Hmi & Hmv & Hmn).
  rewrite rc_encode_eq. fold r.
  replace (tot =? 0) with false by (symmetry; apply N.eqb_neq; lia).
  replace (4294967296 <=? acc * r) with false by (symmetry; apply N.leb_gt; lia).
  replace (4294967296 <=? r * f) with false by (symmetry; apply N.leb_gt; lia).
  cbn [orb].
  destruct (enc_normalize 4 (enc_mid st (acc * r) (r * f))) as [st' o] eqn:En.
  exists st', o. split; [reflexivity|].
  destruct (norm_spec 4 (enc_mid st (acc * r) (r * f)) out st' o) as (Hinv' & Hrng' & Htop & Hdec);
    [exact Hmi|cbn [enc_mid e_range]; lia|exact En|].
  cbn [enc_mid e_range] in Htop. change (256 ^ N.of_nat 4) with 4294967296 in Htop.
  split; [unfold enc_ok; split; [exact Hinv'|split; [apply Htop; lia|exact Hrng']]|].
  intros W HW Hnest. destruct (Hdec W HW Hnest) as ((HL & HDa & HDb) & Hdec1).
  rewrite Hmn in HL, HDa, HDb. rewrite Hmv in HDa, HDb. cbn [enc_mid e_range] in HDb.
  split; [unfold nest; split; [exact HL|split; lia]|].
  intros tail dst bs (Hdr & Hdc & Hbs). rewrite Hdr. fold r.
  split; [lia|].
  split; [apply N.div_le_lower_bound; lia|].
  split; [apply N.div_lt_upper_bound; lia|].
  split; [lia|]. split; [lia|]. split; [lia|].
  apply Hdec1. unfold dec_follows. cbn [d_range d_code enc_mid e_range].
  rewrite Hmv, Hmn. split; [reflexivity|]. split; [lia|exact Hbs].
Qed.

(* ---------- range_encode_end ---------- *)

Lemma rc_encode_end_S : forall k st,
  rc_encode_end (S k) st = let '(st1, out) := shift_low st in out ++ rc_encode_end k st1.
Proof. reflexivity. Qed.

Lemma end_spec : forall k st out, einv st out 1 ->
  (e_low st * 256 ^ N.of_nat k) mod 4294967296 = 0 ->
  Forall (fun b => b < 256) (out ++ rc_encode_end (S k) st) /\
  length (out ++ rc_encode_end (S k) st) = (nsh st out + S k)%nat /\
  bytes_val (out ++ rc_encode_end (S k) st) * 256 * 4294967296 = 256 ^ N.of_nat (S k) * Vv st out.
Proof.
  induction k as [|k IH]; intros st out Hinv Hz.
  - change (N.of_nat 0) with 0 in Hz. rewrite N.pow_0_r in Hz.
    assert (Hl0 : e_low st = 0) by (destruct Hinv as (Hl & _); lia).
    rewrite rc_encode_end_S. destruct (shift_low st) as [st1 em] eqn:Esh.
    change (rc_encode_end 0 st1) with (@nil N). rewrite app_nil_r.
    destruct (shift_spec st out 1 1 st1 em Hinv ltac:(lia) ltac:(lia) ltac:(lia) Esh)
      as (Hinv1 & HV1 & Hn1 & _ & Hlow1 & Hclean).
    destruct (Hclean Hl0) as (Hc1 & Hf1 & Hcy1).
    split; [destruct Hinv1 as (_ & _ & HF & _); exact HF|].
    split.
    + unfold nsh in Hn1. rewrite Hf1 in Hn1. unfold nsh. lia.
    + change (256 ^ N.of_nat 1) with 256. rewrite <- HV1.
      unfold Vv, Yv, b2n. rewrite Hc1, Hf1, Hcy1, Hlow1, Hl0, N.pow_0_r. lia.
  - rewrite rc_encode_end_S. destruct (shift_low st) as [st1 em] eqn:Esh.
    destruct (shift_spec st out 1 1 st1 em Hinv ltac:(lia) ltac:(lia) ltac:(lia) Esh)
      as (Hinv1 & HV1 & Hn1 & _ & Hlow1 & _).
    rewrite app_assoc.
    destruct (IH st1 (out ++ em) Hinv1) as (HF & HL & HB).
    { rewrite Hlow1. rewrite N.mul_mod_idemp_l by lia.
      rewrite Nat2N.inj_succ, N.pow_succ_r' in Hz. rewrite <- Hz. f_equal. lia. }
    split; [exact HF|]. split; [lia|].
    rewrite HB, HV1. rewrite (Nat2N.inj_succ (S k)), (N.pow_succ_r' 256 (N.of_nat (S k))). lia.
Qed.

Lemma end_spec5 : forall st out, enc_ok st out ->
  Forall (fun b => b < 256) (out ++ rc_encode_end 5 st) /\
  nest (out ++ rc_encode_end 5 st) st out (e_range st).
Proof.
  intros st out (Hinv & Hr1 & Hr2).
  destruct (end_spec 4 st out) as (HF & HL & HB).
  - apply (einv_weaken st out (e_range st)); [exact Hinv|lia|lia].
  - change (256 ^ N.of_nat 4) with 4294967296. apply N.mod_mul. lia.
  - split; [exact HF|]. unfold nest, Dw. rewrite HL.
    rewrite firstn_all2 by lia.
    change (256 ^ N.of_nat 5) with 1099511627776 in HB.
    split; [lia|]. split; lia.
Qed.

Print Assumptions shift_spec.
Print Assumptions norm_spec.
Print Assumptions encode_spec.
Print Assumptions end_spec5.
