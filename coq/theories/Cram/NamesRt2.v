(* CRAM 3.1 name tokenizer (model: NV.Cram.Names), second part of the round trip:
     names_wf_streams_ok   the streams the encoder hands to the entropy coder are byte strings
                           shorter than 2^28 (the premise of NamesRt.names_roundtrip_partial)
     enc0_len              size of rans_nx16::encode(Flags::empty(), buf)
     names_encode_ok       the encoder answers
     names_roundtrip       decode (encode src) = src                                              *)
From Coq Require Import List NArith ZArith Lia Bool PeanoNat Arith.
From Coq Require Import ZifyBool ZifyNat ZifyN.
From NV Require Import Cram.Bytes Cram.Vlq Cram.IntProofs Cram.Nx16Xform Cram.Nx16O0 Cram.Nx16Full
  Cram.Nx16FullProofs Cram.Nx16Stripe Cram.Nx16StripeProofs Cram.Names Cram.NamesProofs
  Cram.NamesRt.
Import ListNotations.
Ltac Zify.zify_post_hook ::= Z.div_mod_to_equations.
Open Scope N_scope.
Arguments N.add : simpl never.
Arguments N.sub : simpl never.
Arguments N.mul : simpl never.
Arguments N.div : simpl never.
Arguments N.modulo : simpl never.
Arguments N.pow : simpl never.
Arguments N.ltb : simpl never.
Arguments N.leb : simpl never.
Arguments N.eqb : simpl never.
Arguments N.of_nat : simpl never.
Arguments N.to_nat : simpl never.

(* ------------------------------------------------------------------------------------------ *)
(* tokens the encoder builds: payload bytes and sizes                                           *)

Definition etok_ok (t : etoken) : Prop :=
  match t with
  | EString s => Forall byte s
  | EChar b => byte b
  | EPadded _ w => (w <= 255)%nat
  | EDelta _ d | EDelta0 _ d => d < 256
  | EDup d | EDiff d => N.of_nat d < 4294967296
  | _ => True
  end.

Lemma classify_ok raw : Forall byte raw ->
  etok_ok (classify raw) /\ (length (st_string (classify raw)) <= length raw + 1)%nat.
Proof.
  intros Hb. unfold classify. destruct (parse_digits0 raw) as [n|] eqn:E0.
  - unfold parse_digits0 in E0.
    destruct (starts_with_0 raw && (length raw <=? 255)%nat) eqn:Ec; [|discriminate E0].
    split; [cbn [etok_ok]; lia|cbn [st_string length]; lia].
  - destruct (parse_digits raw) as [n|]; [split; [exact I|cbn [st_string length]; lia]|].
    destruct raw as [|b [|b2 r]].
    + split; [constructor|cbn [st_string app length]; lia].
    + split; [exact (Forall_inv Hb)|cbn [st_string length]; lia].
    + split; [exact Hb|]. cbn [st_string]. rewrite app_length. cbn [length]. lia.
Qed.

Lemma enc_tok_ok raw praws ptoks : Forall byte raw ->
  etok_ok (enc_tok raw praws ptoks) /\
  (length (st_string (enc_tok raw praws ptoks)) <= length raw + 1)%nat.
Proof.
  intros Hb. unfold enc_tok, rel_tok.
  destruct praws as [|pr prs]; [apply classify_ok; exact Hb|].
  destruct ptoks as [|pt pts]; [apply classify_ok; exact Hb|].
  destruct (list_eqb raw pr); [split; [exact I|cbn [st_string length]; lia]|].
  destruct (parse_delta pt raw) as [[m d]|] eqn:Ed.
  - unfold parse_delta in Ed. destruct (starts_with_0 raw); [discriminate Ed|].
    destruct pt as [s|b|n w|dl|dl|n|n d0|n d0| |]; try discriminate Ed.
    all: destruct (parse_u32 raw) as [m'|]; [|discriminate Ed].
    all: destruct ((n <=? m') && (m' - n <=? 255)) eqn:Ec; [|discriminate Ed].
    all: injection Ed as Em Edd; subst m d.
    all: split; [cbn [etok_ok]; lia|cbn [st_string length]; lia].
  - destruct (parse_delta0 pr pt raw) as [[m d]|] eqn:Ed0; [|apply classify_ok; exact Hb].
    unfold parse_delta0 in Ed0.
    destruct pt as [s|b|n w|dl|dl|n|n d0|n d0| |]; try discriminate Ed0.
    all: destruct (Nat.eqb (length raw) (length pr)); [|discriminate Ed0].
    all: destruct (parse_u32 raw) as [m'|]; [|discriminate Ed0].
    all: destruct ((n <=? m') && (m' - n <=? 255)) eqn:Ec; [|discriminate Ed0].
    all: injection Ed0 as Em Edd; subst m d.
    all: split; [cbn [etok_ok]; lia|cbn [st_string length]; lia].
Qed.

Definition tok_bound (L : nat) (t : etoken) : Prop :=
  etok_ok t /\ (length (st_string t) <= L + 1)%nat.

Lemma build_tokens_ok L : forall raws praws ptoks,
  Forall (fun r => Forall byte r /\ (length r <= L)%nat) raws ->
  Forall (tok_bound L) (build_tokens raws praws ptoks).
Proof.
  induction raws as [|raw raws IH]; intros praws ptoks H.
  - cbn [build_tokens]. constructor; [|constructor]. split; [exact I|cbn [st_string length]; lia].
  - inversion H as [|x y (Hb & Hl) Hr]; subst. rewrite build_tokens_cons.
    constructor; [|apply IH; exact Hr].
    destruct (enc_tok_ok raw praws ptoks Hb) as (H1 & H2). split; [exact H1|lia].
Qed.

Lemma concat_bytes : forall l : list (list N), Forall byte (concat l) ->
  Forall (fun r => Forall byte r /\ (length r <= length (concat l))%nat) l.
Proof.
  induction l as [|a l IH]; cbn [concat]; intros H; [constructor|].
  apply Forall_app in H. destruct H as (Ha & Hl). rewrite app_length. constructor.
  - split; [exact Ha|lia].
  - eapply Forall_impl; [|exact (IH Hl)]. intros r (Hr1 & Hr2). split; [exact Hr1|lia].
Qed.

Lemma name_tokens_ok name praws ptoks : Forall byte name ->
  Forall (tok_bound (length name)) (build_tokens (tokenize name) praws ptoks).
Proof.
  intros Hb. apply build_tokens_ok.
  pose proof (concat_bytes (tokenize name)) as H. rewrite tokenize_concat in H. exact (H Hb).
Qed.

(* ------------------------------------------------------------------------------------------ *)
(* one column                                                                                   *)

Lemma byte_flat_map (f : etoken -> list N) : (forall t, etok_ok t -> Forall byte (f t)) ->
  forall c, Forall etok_ok c -> Forall byte (flat_map f c).
Proof.
  intros Hf. induction c as [|t c IH]; intros H; cbn [flat_map]; [constructor|].
  inversion H as [|x y Ht Hc]; subst. apply Forall_app. split; [apply Hf; exact Ht|apply IH; exact Hc].
Qed.

Lemma len_flat_map (f : etoken -> list N) k : (forall t, (length (f t) <= k)%nat) ->
  forall c, (length (flat_map f c) <= k * length c)%nat.
Proof.
  intros Hf. induction c as [|t c IH]; cbn [flat_map length]; [lia|].
  rewrite app_length. specialize (Hf t). lia.
Qed.

Lemma le32_bytes_byte n : Forall byte (le32_bytes n).
Proof. unfold le32_bytes. repeat constructor; unfold byte; lia. Qed.

Ltac st_unf := cbn [st_char st_digits0 st_dzlen st_dup st_diff st_digits st_delta st_delta0].
Ltac st_bytes :=
  let t := fresh "t" in let Ht := fresh "Ht" in
  intros t Ht; destruct t; st_unf;
  first [ apply Forall_nil
        | apply le32_bytes_byte
        | constructor; [first [exact Ht|cbn [etok_ok] in Ht; unfold byte; lia]|apply Forall_nil] ].
Ltac st_len :=
  let t := fresh "t" in
  intros t; destruct t; st_unf; cbn [le32_bytes length]; lia.

Lemma col_ok_of c :
  Forall etok_ok c -> 4 * N.of_nat (length c) < 268435456 ->
  N.of_nat (length (flat_map st_string c)) < 268435456 -> col_ok c.
Proof.
  intros Hok Hlen Hstr. unfold col_ok, col_streams.
  assert (Hty : Forall byte (map tok_type c)).
  { clear. induction c as [|t c IH]; cbn [map]; constructor; [|exact IH].
    unfold byte. destruct t; cbn [tok_type]; lia. }
  assert (Hs : forall f : etoken -> list N, (forall t, etok_ok t -> Forall byte (f t)) ->
               (forall t, (length (f t) <= 4)%nat) -> stream_ok (flat_map f c)).
  { intros f Hf1 Hf2. split; [apply byte_flat_map; assumption|].
    pose proof (len_flat_map f 4 Hf2 c) as Hl. lia. }
  constructor; [cbn [snd]; split; [exact Hty|rewrite map_length; lia]|].
  constructor.
  { cbn [snd]. split; [|exact Hstr]. apply byte_flat_map; [|exact Hok].
    intros t Ht. destruct t; cbn [st_string]; try apply Forall_nil.
    apply Forall_app. split; [exact Ht|constructor; [unfold byte; lia|constructor]]. }
  constructor; [cbn [snd]; apply Hs; [st_bytes|st_len]|].
  constructor; [cbn [snd]; apply Hs; [st_bytes|st_len]|].
  constructor; [cbn [snd]; apply Hs; [st_bytes|st_len]|].
  constructor; [cbn [snd]; apply Hs; [st_bytes|st_len]|].
  constructor; [cbn [snd]; apply Hs; [st_bytes|st_len]|].
  constructor; [cbn [snd]; apply Hs; [st_bytes|st_len]|].
  constructor; [cbn [snd]; apply Hs; [st_bytes|st_len]|].
  constructor; [cbn [snd]; apply Hs; [st_bytes|st_len]|].
  constructor.
Qed.

(* ------------------------------------------------------------------------------------------ *)
(* all the columns                                                                              *)

Fixpoint maxstr (l : list etoken) : nat :=
  match l with
  | [] => 0%nat
  | t :: r => Nat.max (length (st_string t)) (maxstr r)
  end.

Definition strsum (ll : list (list etoken)) : nat := list_sum (map maxstr ll).

Lemma list_sum_cons a l : list_sum (a :: l) = (a + list_sum l)%nat.
Proof. reflexivity. Qed.

Lemma list_sum_nil : list_sum [] = 0%nat.
Proof. reflexivity. Qed.

Lemma heads_facts : forall ll, Forall (Forall etok_ok) ll ->
  Forall etok_ok (heads ll) /\ Forall (Forall etok_ok) (tails ll) /\
  (length (heads ll) <= length ll)%nat /\ (length (tails ll) <= length ll)%nat /\
  (length (flat_map st_string (heads ll)) <= strsum ll)%nat /\ (strsum (tails ll) <= strsum ll)%nat.
Proof.
  induction ll as [|l ll IH]; intros H.
  - change (heads []) with (@nil etoken). change (tails []) with (@nil (list etoken)).
    split; [constructor|]. split; [constructor|]. unfold strsum. cbn [length flat_map map]. rewrite list_sum_nil. lia.
  - inversion H as [|x0 y0 Hl Hrest]; subst.
    destruct (IH Hrest) as (A & B & C & D & E & F). destruct l as [|x xs].
    + rewrite heads_nil_cons, tails_nil_cons. unfold strsum in *. cbn [map maxstr length]. rewrite ?list_sum_cons.
      split; [exact A|]. split; [exact B|]. lia.
    + rewrite heads_cons_cons, tails_cons_cons. inversion Hl as [|x1 y1 Hx Hxs]; subst.
      unfold strsum in *. cbn [map maxstr length flat_map]. rewrite ?list_sum_cons. rewrite app_length.
      split; [constructor; assumption|]. split; [constructor; assumption|]. lia.
Qed.

Lemma cols_facts : forall n ll, Forall (Forall etok_ok) ll ->
  Forall (fun c => Forall etok_ok c /\ (length c <= length ll)%nat /\
                   (length (flat_map st_string c) <= strsum ll)%nat) (cols n ll).
Proof.
  induction n as [|k IH]; intros ll H; cbn [cols]; [constructor|].
  destruct (heads_facts ll H) as (A & B & C & D & E & F).
  constructor; [split; [exact A|split; assumption]|].
  eapply Forall_impl; [|exact (IH (tails ll) B)]. intros c (c1 & c2 & c3).
  split; [exact c1|]. split; lia.
Qed.

Definition dshape (name : list N) (d : ediff) : Prop :=
  exists pr pt, d_toks d = build_tokens (tokenize name) pr pt.

Lemma build_fwd_shape : forall names i idx drev nd,
  build_fwd names i idx drev = Some nd -> Forall2 dshape names nd.
Proof.
  induction names as [|name names IH]; intros i idx drev nd H; cbn [build_fwd] in H.
  - injection H as H. subst nd. constructor.
  - destruct (idx_lookup name idx) as [j|].
    + destruct (Nat.eqb (i - j) 0); [discriminate H|].
      destruct (nth_error drev (i - j - 1)) as [prev|]; [|discriminate H]. cbv zeta in H.
      match type of H with context [build_fwd names ?a ?b ?c] =>
        destruct (build_fwd names a b c) as [nd'|] eqn:E end; [|discriminate H].
      injection H as H. subst nd. constructor; [|exact (IH _ _ _ _ E)].
      exists (d_raws prev), (d_toks prev). reflexivity.
    + destruct (Nat.eqb 1 0); [discriminate H|].
      destruct (nth_error drev (1 - 1)) as [prev|]; [|discriminate H]. cbv zeta in H.
      match type of H with context [build_fwd names ?a ?b ?c] =>
        destruct (build_fwd names a b c) as [nd'|] eqn:E end; [|discriminate H].
      injection H as H. subst nd. constructor; [|exact (IH _ _ _ _ E)].
      exists (d_raws prev), (d_toks prev). reflexivity.
Qed.

Lemma maxstr_le L : forall l, Forall (tok_bound L) l -> (maxstr l <= L + 1)%nat.
Proof.
  induction l as [|t l IH]; intros H; cbn [maxstr]; [lia|].
  inversion H as [|x y (_ & Ht) Hl]; subst. specialize (IH Hl). lia.
Qed.

Lemma ll_facts : forall names ds, Forall2 dshape names ds -> Forall (Forall byte) names ->
  Forall (Forall etok_ok) (map d_toks (filter nondup ds)) /\
  (strsum (map d_toks (filter nondup ds)) <= list_sum (map (fun n => length n + 1)%nat names))%nat.
Proof.
  intros names ds H. induction H as [|name d names ds (pr & pt & Hd) Hrest IH]; intros Hb.
  - split; [constructor|]. unfold strsum. cbn [filter map]. rewrite list_sum_nil. lia.
  - inversion Hb as [|x y Hn Hns]; subst. destruct (IH Hns) as (A & B).
    pose proof (name_tokens_ok name pr pt Hn) as Ht. rewrite <- Hd in Ht.
    cbn [filter map]. rewrite list_sum_cons. destruct (nondup d).
    + cbn [map]. split.
      * constructor; [|exact A]. eapply Forall_impl; [|exact Ht]. intros t (Ht1 & _). exact Ht1.
      * unfold strsum in *. cbn [map]. rewrite list_sum_cons. pose proof (maxstr_le _ _ Ht) as Hm. lia.
    + split; [exact A|]. lia.
Qed.

Lemma sum_join : forall names : list (list N),
  length (concat (map (fun n => n ++ [0]) names)) = list_sum (map (fun n => length n + 1)%nat names).
Proof.
  induction names as [|n names IH]; [reflexivity|]. cbn [map concat]. rewrite list_sum_cons.
  rewrite !app_length, IH. cbn [length]. lia.
Qed.

Lemma join_bytes : forall names : list (list N),
  Forall byte (concat (map (fun n => n ++ [0]) names)) -> Forall (Forall byte) names.
Proof.
  induction names as [|n names IH]; cbn [map concat]; intros H; [constructor|].
  apply Forall_app in H. destruct H as (H1 & H2). apply Forall_app in H1.
  constructor; [exact (proj1 H1)|exact (IH H2)].
Qed.

Lemma modes_no_string : forall ds, flat_map st_string (map mode_of ds) = [].
Proof.
  induction ds as [|d ds IH]; [reflexivity|]. cbn [map flat_map]. rewrite IH.
  unfold mode_of. destruct (d_dup d); reflexivity.
Qed.

Lemma build_fwd_delta : forall names i idx drev nd,
  build_fwd names i idx drev = Some nd ->
  Forall (fun d => (d_delta d <= i + length names)%nat) nd.
Proof.
  induction names as [|name names IH]; intros i idx drev nd H; cbn [build_fwd] in H.
  - injection H as H. subst nd. constructor.
  - destruct (idx_lookup name idx) as [j|].
    + destruct (Nat.eqb (i - j) 0); [discriminate H|].
      destruct (nth_error drev (i - j - 1)) as [prev|]; [|discriminate H]. cbv zeta in H.
      match type of H with context [build_fwd names ?a ?b ?c] =>
        destruct (build_fwd names a b c) as [nd'|] eqn:E end; [|discriminate H].
      injection H as H. subst nd. constructor; [cbn [d_delta length]; lia|].
      eapply Forall_impl; [|exact (IH _ _ _ _ E)]. intros d Hd. cbv beta in Hd. cbn [length]. lia.
    + destruct (Nat.eqb 1 0); [discriminate H|].
      destruct (nth_error drev (1 - 1)) as [prev|]; [|discriminate H]. cbv zeta in H.
      match type of H with context [build_fwd names ?a ?b ?c] =>
        destruct (build_fwd names a b c) as [nd'|] eqn:E end; [|discriminate H].
      injection H as H. subst nd. constructor; [cbn [d_delta length]; lia|].
      eapply Forall_impl; [|exact (IH _ _ _ _ E)]. intros d Hd. cbv beta in Hd. cbn [length]. lia.
Qed.

Definition col_good (c : list etoken) : Prop := col_ok c /\ Forall etok_ok c.

Lemma streams_facts : forall src, names_wf src ->
  forall diffs, enc_diffs (strip_last_nul src) = Some diffs ->
    col_good (map mode_of diffs) /\
    Forall col_good (cols (max_tokens diffs) (map d_toks (filter nondup diffs))).
Proof.
  intros src (Hne & Hlast & Hb & Hlen & Hcnt).
  pose proof (app_removelast_last 1 Hne) as Hsrc. rewrite Hlast in Hsrc.
  remember (removelast src) as body eqn:Ebody. clear Ebody. subst src.
  rewrite strip_last_nul_snoc in Hcnt |- *.
  unfold enc_diffs. intros diffs Hd.
  pose proof (split_nul_join body) as Hj.
  destruct (split_nul body) as [|n0 rest] eqn:Es; [exfalso; exact (split_nul_ne body Es)|].
  destruct (build_fwd rest 1 [] [build_first_diff n0]) as [nd|] eqn:Eb; [|discriminate Hd].
  injection Hd as Hd. subst diffs.
  assert (Hsh : Forall2 dshape (n0 :: rest) (build_first_diff n0 :: nd)).
  { constructor; [|exact (build_fwd_shape _ _ _ _ _ Eb)]. exists [], []. reflexivity. }
  assert (Hnb : Forall (Forall byte) (n0 :: rest)) by (apply join_bytes; rewrite Hj; exact Hb).
  pose proof (sum_join (n0 :: rest)) as Hsum. rewrite Hj in Hsum.
  destruct (ll_facts _ _ Hsh Hnb) as (Hall & Hstr).
  pose proof (build_fwd_length _ _ _ _ _ Eb) as Hnd.
  assert (Hdl : Forall (fun d => (d_delta d <= 1 + length rest)%nat) (build_first_diff n0 :: nd)).
  { constructor; [cbn [build_first_diff d_delta]; lia|exact (build_fwd_delta _ _ _ _ _ Eb)]. }
  assert (Hmo : Forall etok_ok (map mode_of (build_first_diff n0 :: nd))).
  { rewrite Forall_forall in Hdl |- *. intros t Ht. apply in_map_iff in Ht.
    destruct Ht as (d & Hd & Hin). subst t. specialize (Hdl d Hin). cbv beta in Hdl.
    cbn [length] in Hcnt. unfold mode_of. destruct (d_dup d); cbn [etok_ok]; lia. }
  split.
  - split; [|exact Hmo]. apply col_ok_of.
    + exact Hmo.
    + rewrite map_length. cbn [length] in Hcnt |- *. rewrite Hnd. exact Hcnt.
    + rewrite modes_no_string. cbn [length]. lia.
  - eapply Forall_impl; [|exact (cols_facts _ _ Hall)]. intros c (c1 & c2 & c3).
    rewrite map_length in c2.
    pose proof (filter_len_le nondup (build_first_diff n0 :: nd)) as Hfl.
    cbn [length] in Hfl, Hcnt. split; [|exact c1]. apply col_ok_of; [exact c1|lia|lia].
Qed.

(* (1) the premise of names_roundtrip_partial *)
Theorem names_wf_streams_ok : forall src, names_wf src -> streams_ok (strip_last_nul src).
Proof.
  intros src Hwf diffs Hd. destruct (streams_facts src Hwf diffs Hd) as ((H1 & _) & H2).
  split; [exact H1|]. eapply Forall_impl; [|exact H2]. intros c (Hc & _). exact Hc.
Qed.

Print Assumptions names_wf_streams_ok.

(* ------------------------------------------------------------------------------------------ *)
(* (2) the encoder answers                                                                      *)

(* rans_nx16::encode(Flags::empty(), buf): order 0, four states, size field, no PACK / RLE *)
Lemma enc0_len c e : nx_encode_s_byte 0 c = NeOk e -> (length e <= 6 * length c + 1815)%nat.
Proof.
  unfold nx_encode_s_byte, nx_encode_s.
  assert (Hf : flags_of_byte 0 = {| f_order := false; f_res := false; f_n32 := false; f_stripe := false;
                                    f_nosize := false; f_cat := false; f_rle := false; f_pack := false |})
    by (vm_compute; reflexivity).
  rewrite Hf. cbn [f_stripe]. unfold nx_encode_e, nx_pack_stage, nx_rle_stage.
  cbn [f_stripe f_pack f_rle f_cat f_order f_n32 f_nosize state_count force_cat].
  pose proof (write_uint7_len_le (N.of_nat (length c))) as Hu.
  destruct (length c <? 4)%nat eqn:E;
    cbn [f_stripe f_pack f_rle f_cat f_order f_n32 f_nosize state_count force_cat].
  - intros H; inversion H; subst. cbn [app length]. rewrite app_length. lia.
  - destruct (nx_o0_encode 4 c) as [body| | |] eqn:Eb; try discriminate.
    intros H; inversion H; subst. apply nx_o0_encode_len in Eb. cbn [app length].
    rewrite app_length. lia.
Qed.

Lemma encode_stream_ok h buf : stream_ok buf -> exists enc, encode_stream (h, buf) = ROk enc.
Proof.
  intros (Hb & Hl). unfold encode_stream. destruct buf as [|b bs]; [exists []; reflexivity|].
  destruct (names_entropy_roundtrip (b :: bs) Hb Hl) as (e & He & _). rewrite He. cbv zeta.
  pose proof (enc0_len _ _ He) as Hle.
  destruct (N.leb_spec u32_limit (N.of_nat (length e))) as [Hc|Hc]; [unfold u32_limit in Hc; lia|].
  eexists. reflexivity.
Qed.

Lemma encode_stream_list_ok : forall l, Forall (fun hb : N * list N => stream_ok (snd hb)) l ->
  exists e, encode_stream_list l = ROk e.
Proof.
  induction l as [|[h buf] l IH]; intros H; [exists []; reflexivity|].
  inversion H as [|x y Hx Hy]; subst. cbn [snd] in Hx.
  destruct (encode_stream_ok h buf Hx) as (e1 & H1). destruct (IH Hy) as (t & H2).
  cbn [encode_stream_list]. rewrite H1. cbn [nbind]. rewrite H2. cbn [nbind]. eexists. reflexivity.
Qed.

Lemma tok_ok_of t : etok_ok t -> tok_ok t = true.
Proof.
  destruct t; cbn [etok_ok tok_ok]; intros H; try reflexivity; unfold u32_limit; lia.
Qed.

Lemma encode_col_ok c : col_good c -> exists e, encode_col c = ROk e.
Proof.
  intros (Hc & Ht). unfold encode_col.
  assert (Hf : forallb tok_ok c = true).
  { apply forallb_forall. rewrite Forall_forall in Ht. intros t Hin. apply tok_ok_of. exact (Ht t Hin). }
  rewrite Hf. apply encode_stream_list_ok. exact Hc.
Qed.

Lemma encode_columns_ok : forall n ll, Forall col_good (cols n ll) ->
  exists e, encode_columns n ll = ROk e.
Proof.
  induction n as [|k IH]; intros ll H; [exists []; reflexivity|].
  cbn [cols] in H. inversion H as [|x y Hx Hy]; subst.
  destruct (encode_col_ok _ Hx) as (e1 & H1). destruct (IH _ Hy) as (t & H2).
  rewrite encode_columns_S, H1. cbn [nbind]. rewrite H2. cbn [nbind]. eexists. reflexivity.
Qed.

Lemma build_fwd_ok : forall names i idx drev,
  (forall nm j, idx_lookup nm idx = Some j -> (1 <= j < i)%nat) -> length drev = i -> (1 <= i)%nat ->
  exists nd, build_fwd names i idx drev = Some nd.
Proof.
  induction names as [|name names IH]; intros i idx drev Hidx Hlen Hi; [exists []; reflexivity|].
  cbn [build_fwd]. destruct (idx_lookup name idx) as [j|] eqn:Ef.
  - pose proof (Hidx name j Ef) as Hj.
    destruct (Nat.eqb_spec (i - j) 0) as [E|_]; [lia|].
    destruct (nth_error drev (i - j - 1)) as [prev|] eqn:En.
    2:{ apply nth_error_None in En. lia. }
    cbv zeta.
    match goal with |- context [build_fwd names (S i) idx (?d :: drev)] =>
      destruct (IH (S i) idx (d :: drev)) as (nd & Hnd) end.
    + intros nm j' Hl. specialize (Hidx nm j' Hl). lia.
    + cbn [length]. lia.
    + lia.
    + rewrite Hnd. eexists. reflexivity.
  - destruct (Nat.eqb_spec 1 0) as [E|_]; [lia|]. change (1 - 1)%nat with 0%nat.
    destruct (nth_error drev 0) as [prev|] eqn:En.
    2:{ apply nth_error_None in En. lia. }
    cbv zeta.
    match goal with |- context [build_fwd names (S i) ?ix (?d :: drev)] =>
      destruct (IH (S i) ix (d :: drev)) as (nd & Hnd) end.
    + intros nm j' Hl. cbn [idx_lookup] in Hl. destruct (list_eqb nm name).
      * injection Hl as Hl. lia.
      * specialize (Hidx nm j' Hl). lia.
    + cbn [length]. lia.
    + lia.
    + rewrite Hnd. eexists. reflexivity.
Qed.

(* (2) *)
Theorem names_encode_ok : forall src, names_wf src -> exists bytes, names_encode src = NmOk bytes.
Proof.
  intros src Hwf. pose proof (streams_facts src Hwf) as Hsf.
  destruct Hwf as (Hne & Hlast & Hb & Hlen & Hcnt).
  pose proof (app_removelast_last 1 Hne) as Hsrc. rewrite Hlast in Hsrc.
  remember (removelast src) as body eqn:Ebody. clear Ebody. subst src.
  rewrite strip_last_nul_snoc in Hsf, Hcnt.
  unfold names_encode, names_encode_x. rewrite strip_last_nul_snoc. cbv zeta.
  rewrite app_length in Hlen. cbn [length] in Hlen.
  destruct (N.leb_spec u32_limit (N.of_nat (length body))) as [Hc1|_];
    [unfold u32_limit in Hc1; lia|].
  destruct (N.leb_spec u32_limit (N.of_nat (length (split_nul body)))) as [Hc2|_];
    [unfold u32_limit in Hc2; lia|].
  unfold enc_diffs in Hsf.
  destruct (split_nul body) as [|n0 rest] eqn:Es; [exfalso; exact (split_nul_ne body Es)|].
  destruct (build_fwd_ok rest 1 [] [build_first_diff n0]) as (nd & Hnd);
    [intros nm j Hl; discriminate Hl|reflexivity|lia|].
  rewrite build_all_fwd, Hnd. rewrite Hnd in Hsf. specialize (Hsf _ eq_refl).
  destruct Hsf as (Hm & Hc).
  replace (rev_append (rev nd ++ [build_first_diff n0]) []) with (build_first_diff n0 :: nd).
  2:{ rewrite rev_append_rev, app_nil_r, rev_app_distr, rev_involutive. reflexivity. }
  destruct (encode_col_ok _ Hm) as (e0 & He0). destruct (encode_columns_ok _ _ Hc) as (e1 & He1).
  unfold mode_of in He0. unfold max_tokens, nondup in He1.
  rewrite He0. cbn [nbind]. rewrite He1. cbn [nbind]. eexists. reflexivity.
Qed.

(* (3) decode (encode src) = src *)
Theorem names_roundtrip : forall src, names_wf src ->
  exists bytes, names_encode src = NmOk bytes /\ names_decode bytes = NmOk src.
Proof.
  intros src Hwf. destruct (names_encode_ok src Hwf) as (bytes & He). exists bytes.
  split; [exact He|].
  exact (names_roundtrip_partial src bytes Hwf (names_wf_streams_ok src Hwf) He).
Qed.

Theorem names_roundtrip_full : names_roundtrip_full_statement.
Proof. exact names_roundtrip. Qed.

Print Assumptions enc0_len.
Print Assumptions names_encode_ok.
Print Assumptions names_roundtrip.
