(* CRAM name tokenizer codec (model: NV.Cram.Names):
   (1) the decoder model has no panicking path on any byte string: the only RPanic source of
       [names_decode_x] is a DPanic of the entropy decoders ([nx_decode_s] / [aac_decode_r]), which
       are applied to split_off pieces of the input, and those never panic on bytes;
   (2) the known defect: a '+'-prefixed numeric remainder in the 126th token loses its sign
       ([parse_u32] = lexical_core::parse::<u32> accepts one leading '+'). *)
From Coq Require Import List NArith Bool Arith Lia.
From Coq Require Import ZifyBool ZifyNat ZifyN.
From NV Require Import Cram.Bytes Cram.Vlq Cram.Rans4x8 Cram.Nx16Xform Cram.Nx16O0 Cram.Nx16Full
  Cram.Nx16Stripe Cram.Aac Cram.AacModes Cram.AacRle Cram.Names
  Cram.Nx16O0Total Cram.Nx16StripeProofs Cram.AacModesTotal.
Import ListNotations.
Open Scope N_scope.

Definition byteP : N -> Prop := fun b => b < 256.

(* ---------- nbind ---------- *)

Lemma nbind_not_panic {A B : Type} (r : nres A) (f : A -> nres B) :
  r <> RPanic -> (forall a, r = ROk a -> f a <> RPanic) -> nbind r f <> RPanic.
Proof.
  intros Hr Hf. destruct r as [a| | | |]; cbn [nbind]; try discriminate.
  - apply Hf. reflexivity.
  - exfalso. apply Hr. reflexivity.
Qed.

Lemma take_le32_rest (bs : list N) v r :
  take_le32 bs = Some (v, r) -> Forall byteP bs -> Forall byteP r.
Proof.
  unfold take_le32. intros H HP.
  destruct bs as [|b0 [|b1 [|b2 [|b3 t]]]]; try discriminate.
  inversion H; subst.
  exact (Forall_inv_tail (Forall_inv_tail (Forall_inv_tail (Forall_inv_tail HP)))).
Qed.

(* ---------- one iteration of decode_token_byte_streams, named ---------- *)

Definition dec_got (aac tok_dup : bool) (s1 : list N) (b1 : list treader)
    : nres (list N * bool * list N) :=
  if tok_dup then
    match s1 with
    | dup_pos :: dup_ty_byte :: s2 =>
      match type_of_byte dup_ty_byte with
      | None => RErr
      | Some dup_type =>
        let len := N.of_nat (length b1) in
        if len <=? dup_pos then RErr
        else
          match nth_error b1 (N.to_nat (len - 1 - dup_pos)) with
          | None => RErr
          | Some reader =>
            match r_get reader dup_type with
            | None => RErr
            | Some buf => ROk (buf, (dup_type =? 0) && r_imp reader, s2)
            end
          end
      end
    | _ => RErr
    end
  else
    match read_uint7 s1 with
    | U7Ok size s2 =>
      if N.of_nat (length s2) <? size then RErr
      else
        match split_off s2 (N.to_nat size) with
        | None => RErr
        | Some (cdata, s3) =>
          nbind (of_dres (if aac then aac_decode_r cdata 0 else nx_decode_s cdata 0))
                (fun buf => ROk (buf, false, s3))
        end
    | _ => RErr
    end.

Definition dec_step (f : nat) (aac : bool) (ty : N) (b1 : list treader)
    (x : list N * bool * list N) : nres (list treader) :=
  let '(buf, himp, s') := x in
  match b1 with
  | [] => RErr
  | last :: others =>
    match r_set last ty buf with
    | None => RErr
    | Some last' =>
      let last'' := if ty =? 0 then r_with_imp last' himp else last' in
      dec_streams f aac s' (last'' :: others)
    end
  end.

Definition dec_b1 (ttype ty : N) (brev : list treader) : list treader :=
  if N.testbit ttype 7 then
    (if ty =? 0 then r_empty else mkR [ty] true [] [] [] [] [] [] [] [] []) :: brev
  else brev.

Lemma dec_streams_S f aac ttype s1 brev :
  dec_streams (S f) aac (ttype :: s1) brev =
  match type_of_byte ttype with
  | None => RErr
  | Some ty =>
    nbind (dec_got aac (N.testbit ttype 6) s1 (dec_b1 ttype ty brev))
          (dec_step f aac ty (dec_b1 ttype ty brev))
  end.
Proof. reflexivity. Qed.

Lemma dec_streams_nil f aac brev : dec_streams (S f) aac [] brev = ROk (rev_append brev []).
Proof. reflexivity. Qed.

Lemma dec_streams_O aac src brev : dec_streams O aac src brev = RErr.
Proof. reflexivity. Qed.

Lemma of_dres_not_panic (r : nxd_result) : r <> DPanic -> of_dres r <> RPanic.
Proof.
  intros Hr. destruct r as [b| | |]; cbn [of_dres]; try discriminate.
  exfalso. apply Hr. reflexivity.
Qed.

Lemma entropy_not_panic (aac : bool) (cdata : list N) :
  Forall byteP cdata ->
  of_dres (if aac then aac_decode_r cdata 0 else nx_decode_s cdata 0) <> RPanic.
Proof.
  intros HP. apply of_dres_not_panic. destruct aac.
  - apply aac_decode_r_never_panics. exact HP.
  - apply nx_decode_s_never_panics. exact HP.
Qed.

(* the buffer read in one iteration: never a panic *)
Lemma dec_got_not_panic aac tok_dup s1 b1 :
  Forall byteP s1 -> dec_got aac tok_dup s1 b1 <> RPanic.
Proof.
  intros HP. unfold dec_got. destruct tok_dup.
  - destruct s1 as [|dp [|dt s2]]; try discriminate.
    destruct (type_of_byte dt) as [dty|]; [|discriminate].
    cbv zeta.
    destruct (N.of_nat (length b1) <=? dp); [discriminate|].
    destruct (nth_error b1 (N.to_nat (N.of_nat (length b1) - 1 - dp))) as [rd|]; [|discriminate].
    destruct (r_get rd dty) as [buf|]; discriminate.
  - destruct (read_uint7 s1) as [size s2| |] eqn:EU; try discriminate.
    pose proof (read_uint7_rest byteP s1 size s2 EU HP) as H2.
    destruct (N.of_nat (length s2) <? size); [discriminate|].
    destruct (split_off s2 (N.to_nat size)) as [[cdata s3]|] eqn:ES; [|discriminate].
    destruct (split_off_rest byteP s2 (N.to_nat size) cdata s3 ES H2) as [Hc H3].
    apply nbind_not_panic.
    + apply entropy_not_panic. exact Hc.
    + intros a Ha. discriminate.
Qed.

(* ... and what is left of src is still bytes *)
Lemma dec_got_rest aac tok_dup s1 b1 buf himp s' :
  dec_got aac tok_dup s1 b1 = ROk (buf, himp, s') -> Forall byteP s1 -> Forall byteP s'.
Proof.
  unfold dec_got. intros H HP. destruct tok_dup.
  - destruct s1 as [|dp [|dt s2]]; try discriminate.
    destruct (type_of_byte dt) as [dty|]; [|discriminate].
    cbv zeta in H.
    destruct (N.of_nat (length b1) <=? dp); [discriminate|].
    destruct (nth_error b1 (N.to_nat (N.of_nat (length b1) - 1 - dp))) as [rd|]; [|discriminate].
    destruct (r_get rd dty) as [bf|]; [|discriminate].
    inversion H; subst. exact (Forall_inv_tail (Forall_inv_tail HP)).
  - destruct (read_uint7 s1) as [size s2| |] eqn:EU; try discriminate.
    pose proof (read_uint7_rest byteP s1 size s2 EU HP) as H2.
    destruct (N.of_nat (length s2) <? size); [discriminate|].
    destruct (split_off s2 (N.to_nat size)) as [[cdata s3]|] eqn:ES; [|discriminate].
    destruct (split_off_rest byteP s2 (N.to_nat size) cdata s3 ES H2) as [Hc H3].
    destruct (of_dres (if aac then aac_decode_r cdata 0 else nx_decode_s cdata 0)) as [bf| | | |];
      cbn [nbind] in H; try discriminate.
    inversion H; subst. exact H3.
Qed.

Lemma dec_streams_not_panic : forall fuel aac src brev,
  Forall byteP src -> dec_streams fuel aac src brev <> RPanic.
Proof.
  induction fuel as [|f IH]; intros aac src brev HP.
  - rewrite dec_streams_O. discriminate.
  - destruct src as [|ttype s1].
    + rewrite dec_streams_nil. discriminate.
    + rewrite dec_streams_S.
      pose proof (Forall_inv_tail HP) as H1.
      destruct (type_of_byte ttype) as [ty|]; [|discriminate].
      apply nbind_not_panic.
      * apply dec_got_not_panic. exact H1.
      * intros [[buf himp] s'] Hg.
        pose proof (dec_got_rest _ _ _ _ _ _ _ Hg H1) as Hs.
        unfold dec_step.
        destruct (dec_b1 ttype ty brev) as [|last others]; [discriminate|].
        destruct (r_set last ty buf) as [last'|]; [|discriminate].
        cbv zeta. apply IH. exact Hs.
Qed.

Lemma names_decode_x_not_panic bs : Forall byteP bs -> names_decode_x bs <> RPanic.
Proof.
  intros HP. unfold names_decode_x.
  destruct (take_le32 bs) as [[v1 s1]|] eqn:E1; [|discriminate].
  pose proof (take_le32_rest bs v1 s1 E1 HP) as H1.
  destruct (take_le32 s1) as [[cnt s2]|] eqn:E2; [|discriminate].
  pose proof (take_le32_rest s1 cnt s2 E2 H1) as H2.
  destruct s2 as [|meth s3]; [discriminate|].
  apply nbind_not_panic.
  - apply dec_streams_not_panic. exact (Forall_inv_tail H2).
  - intros b Hb.
    destruct (names_loop match b with r0 :: _ => S (length (r_type r0)) | [] => 1%nat end
                         cnt 0 b []) as [out|]; discriminate.
Qed.

(* (1) name_tokenizer::decode never panics, whatever the bytes *)
Theorem names_decode_never_panics : forall bs,
  Forall (fun b => b < 256) bs -> names_decode bs <> NmPanic.
Proof.
  intros bs HP. unfold names_decode.
  pose proof (names_decode_x_not_panic bs HP) as Hx.
  destruct (names_decode_x bs) as [b| | | |]; try discriminate.
  exfalso. apply Hx. reflexivity.
Qed.

(* (2) the former defect input (known finding names-plus-sign-number-in-126th-token, repaired by
   /repo fc00545): 62 x "a." then "a+5": tokens 1..125 are "a" "." .. "a", the 126th token is the
   remainder "+5".  Before the repair parse_u32 accepted the '+', the token was written as DIGITS 5
   and decoded as "5"; now it is a STRING token and the name round trips. *)
Definition plus_name : list N := flat_map (fun _ => [97; 46]) (seq 0 62) ++ [97; 43; 53].
Definition plus_src : list N := plus_name ++ [0].

Example names_plus_sign_roundtrips :
  exists bytes, names_encode plus_src = NmOk bytes /\ names_decode bytes = NmOk plus_src.
Proof. eexists; split; [vm_compute; reflexivity|]. vm_compute. reflexivity. Qed.

Print Assumptions names_decode_never_panics.
Print Assumptions names_plus_sign_roundtrips.
