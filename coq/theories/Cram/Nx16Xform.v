(* rANS Nx16: the flag byte and the PURE TRANSFORMS in front of the entropy coder -- bit PACK, RLE,
   CAT -- as noodles wrote them (noodles-cram src/codecs/rans_nx16/{encode,decode}.rs,
   {encode,decode}/bit_pack.rs + bit_pack/context.rs, {encode,decode}/rle.rs + rle/context.rs,
   flags.rs), encoder AND noodles' own decoder, for whole streams whose entropy stage is bypassed
   (CAT set, or set by the encoder because fewer than N bytes are left).

   Not modelled: STRIPE (each sub-stream goes through the entropy coder), the order-0/1 entropy
   coders, and the decoder's branch for entropy-compressed RLE meta-data (never produced by the
   encoder); the model answers NxEntropy / DUnsupported there.

   Bytes are [N] < 256.  Shifts and masks are written as * / mod by powers of two; `a |= b` on
   disjoint bits is +. *)
From Coq Require Import List NArith Bool PeanoNat.
From NV Require Import Cram.Bytes Cram.Vlq Cram.Rans4x8.
Import ListNotations.
Open Scope N_scope.

(* ---------- flags.rs ---------- *)

Record nxflags := {
  f_order : bool;    (* 0x01 *)
  f_res : bool;      (* 0x02 reserved, kept by from_bits_truncate *)
  f_n32 : bool;      (* 0x04 *)
  f_stripe : bool;   (* 0x08 *)
  f_nosize : bool;   (* 0x10 *)
  f_cat : bool;      (* 0x20 *)
  f_rle : bool;      (* 0x40 *)
  f_pack : bool      (* 0x80 *)
}.

Definition bit (b : bool) (w : N) : N := if b then w else 0.

Definition byte_of_flags (f : nxflags) : N :=
  bit (f_order f) 1 + bit (f_res f) 2 + bit (f_n32 f) 4 + bit (f_stripe f) 8 +
  bit (f_nosize f) 16 + bit (f_cat f) 32 + bit (f_rle f) 64 + bit (f_pack f) 128.

Definition flags_of_byte (b : N) : nxflags :=
  {| f_order := N.odd b; f_res := N.odd (b / 2); f_n32 := N.odd (b / 4); f_stripe := N.odd (b / 8);
     f_nosize := N.odd (b / 16); f_cat := N.odd (b / 32); f_rle := N.odd (b / 64);
     f_pack := N.odd (b / 128) |}.

Definition state_count (f : nxflags) : nat := if f_n32 f then 32%nat else 4%nat.

(* the symbols 0..255 in increasing order *)
Definition all_syms : list N := map N.of_nat (seq 0 256).

(* position of [x] in [l] (length l if absent) *)
Fixpoint index_of (x : N) (l : list N) : N :=
  match l with
  | [] => 0
  | y :: r => if y =? x then 0 else 1 + index_of x r
  end.

(* ---------- bit packing ---------- *)

(* build_alphabet + the enumeration `alphabet.iter().enumerate().filter(|(_, a)| **a)`:
   the symbols that occur, in increasing order *)
Definition present (src : list N) : list N :=
  let t := fold_left (fun t b => upd t (N.to_nat b) 1) src zeros256 in
  filter (fun s => nth (N.to_nat s) t 0 =? 1) all_syms.

(* build_context: None = EmptyAlphabet | TooManySymbols (the encoder then drops the PACK flag) *)
Definition pack_build (src : list N) : option (list N) :=
  let syms := present src in
  if (length syms =? 0)%nat || (16 <? length syms)%nat then None else Some syms.

(* symbols per byte and the weight 2^shift of one symbol, by symbol count *)
Definition pack_geom (nsym : nat) : option (nat * N) :=
  if (nsym =? 0)%nat then None
  else if (nsym =? 1)%nat then Some (0%nat, 1)
  else if (nsym <=? 2)%nat then Some (8%nat, 2)
  else if (nsym <=? 4)%nat then Some (4%nat, 4)
  else if (nsym <=? 16)%nat then Some (2%nat, 16)
  else None.

(* one output byte: *d |= mapping_table[sym] << (shift * i) *)
Fixpoint pack_byte (syms : list N) (w : N) (chunk : list N) : N :=
  match chunk with
  | [] => 0
  | x :: r => index_of x syms + w * pack_byte syms w r
  end.

Fixpoint pack_go (fuel : nat) (syms : list N) (cs : nat) (w : N) (src : list N) : list N :=
  match fuel with
  | O => []
  | S fu =>
    match src with
    | [] => []
    | _ => pack_byte syms w (firstn cs src) :: pack_go fu syms cs w (skipn cs src)
    end
  end.

(* bit_pack::encode *)
Definition pack_encode (syms : list N) (src : list N) : list N :=
  match pack_geom (length syms) with
  | Some (O, _) => []                      (* one symbol: nothing is stored *)
  | Some (cs, w) => pack_go (length src) syms cs w src
  | None => []                              (* unreachable!() after build_context *)
  end.

(* bit_pack::write_context: symbol count, the symbols, the packed length *)
Definition pack_context_bytes (syms : list N) (packed_len : nat) : list N :=
  N.of_nat (length syms) :: syms ++ write_uint7 (N.of_nat packed_len).

Inductive nxd_result :=
| DOk (bytes : list N)
| DErr                (* any io::Error *)
| DPanic              (* a panic; since the decoder repairs 497e771 (CAT payload length) and 464651e
                         (bit-pack `get`) no path of the model produces it: nx_decode_never_panics *)
| DUnsupported.       (* STRIPE, entropy-coded data or meta-data: not modelled *)

(* unpack one byte into [m] symbols: *mapping_table.get(s & mask)?; s >>= shift.
   None = the value is not in the table (InvalidData) *)
Fixpoint unpack_byte (table : list N) (w : N) (s : N) (m : nat) : option (list N) :=
  match m with
  | O => Some []
  | S m' =>
    if N.of_nat (length table) <=? s mod w then None
    else match unpack_byte table w (s / w) m' with
         | None => None
         | Some r => Some (nth (N.to_nat (s mod w)) table 0 :: r)
         end
  end.

(* src.iter().zip(dst.chunks_mut(cs)): [n] = slots of dst still to fill; slots without a source
   byte keep their initial 0 *)
Fixpoint unpack_go (table : list N) (cs : nat) (w : N) (src : list N) (n : nat) : option (list N) :=
  match src with
  | [] => Some (repeat 0 n)
  | s :: r =>
    if (n =? 0)%nat then Some []
    else
      let m := Nat.min cs n in
      match unpack_byte table w s m with
      | None => None
      | Some a => match unpack_go table cs w r (n - m) with
                  | None => None
                  | Some b => Some (a ++ b)
                  end
      end
  end.

(* bit_pack::decode *)
Definition pack_decode (table : list N) (src : list N) (n : nat) : nxd_result :=
  match pack_geom (length table) with
  | Some (O, _) => DOk (repeat (nth 0 table 0) n)
  | Some (cs, w) => match unpack_go table cs w src n with Some o => DOk o | None => DErr end
  | None => DErr
  end.

(* ---------- run-length encoding ---------- *)

(* rle::build_context: alphabet[sym] += if sym == prev { 1 } else { -1 } over src.windows(2);
   kept as two counters, in the alphabet iff the sum is > 0.  Returns (eq, ne). *)
Fixpoint rle_scores (src : list N) (eq ne : list N) : list N * list N :=
  match src with
  | [] => (eq, ne)
  | a :: r =>
    match r with
    | [] => (eq, ne)
    | b :: _ =>
      if b =? a then rle_scores r (upd eq (N.to_nat b) (nth (N.to_nat b) eq 0 + 1)) ne
      else rle_scores r eq (upd ne (N.to_nat b) (nth (N.to_nat b) ne 0 + 1))
    end
  end.

(* the RLE alphabet in increasing order; None = EmptyAlphabet (the encoder drops the RLE flag) *)
Definition rle_build (src : list N) : option (list N) :=
  let '(eq, ne) := rle_scores src zeros256 zeros256 in
  let syms := filter (fun s => nth (N.to_nat s) ne 0 <? nth (N.to_nat s) eq 0) all_syms in
  if (length syms =? 0)%nat then None else Some syms.

Definition mem (x : N) (l : list N) : bool := existsb (N.eqb x) l.

(* while let Some(&&s) = iter.peek() && s == sym { len += 1; iter.next(); } *)
Fixpoint span_eq (sym : N) (l : list N) : N * list N :=
  match l with
  | [] => (0, [])
  | x :: r => if x =? sym then let '(n, t) := span_eq sym r in (n + 1, t) else (0, l)
  end.

(* rle::encode: (literals, run lengths appended to ctx.dst) *)
Fixpoint rle_enc (fuel : nat) (A : list N) (src : list N) : list N * list N :=
  match fuel with
  | O => ([], [])
  | S fu =>
    match src with
    | [] => ([], [])
    | sym :: r =>
      if mem sym A then
        let '(n, t) := span_eq sym r in
        let '(l, m) := rle_enc fu A t in (sym :: l, write_uint7 n ++ m)
      else
        let '(l, m) := rle_enc fu A r in (sym :: l, m)
    end
  end.

(* write_symbol_count + the symbols *)
Definition rle_alphabet_bytes (A : list N) : list N :=
  (if (256 <=? length A)%nat then 0 else N.of_nat (length A)) :: A.

(* rle::write_context: (meta length << 1) | 1, literal count, meta *)
Definition rle_context_bytes (meta : list N) (lit_len : nat) : list N :=
  write_uint7 (2 * N.of_nat (length meta) + 1) ++ write_uint7 (N.of_nat lit_len) ++ meta.

(* read_rle_alphabet: count (0 = 256), then the symbols *)
Definition rle_read_alphabet (meta : list N) : option (list N * list N) :=
  match meta with
  | [] => None
  | c :: r =>
    let n := if c =? 0 then 256%nat else N.to_nat c in
    if (length r <? n)%nat then None else Some (firstn n r, skipn n r)
  end.

(* rle::decode main loop; [n] = slots of dst left *)
Fixpoint rle_dec (fuel : nat) (A : list N) (lits meta : list N) (n : nat) : nxd_result :=
  match fuel with
  | O => DOk []
  | S fu =>
    if (n =? 0)%nat then DOk []
    else
      match lits with
      | [] => DErr
      | sym :: lr =>
        if mem sym A then
          match read_uint7 meta with
          | U7Ok len m' =>
            let k := Nat.min (N.to_nat len) (n - 1) in
            match rle_dec fu A lr m' (n - 1 - k) with
            | DOk o => DOk (sym :: repeat sym k ++ o)
            | e => e
            end
          | _ => DErr
          end
        else
          match rle_dec fu A lr meta (n - 1) with
          | DOk o => DOk (sym :: o)
          | e => e
          end
      end
  end.

Definition rle_decode (lits meta : list N) (n : nat) : nxd_result :=
  match rle_read_alphabet meta with
  | None => DErr
  | Some (A, m) => rle_dec n A lits m n
  end.

(* ---------- rans_nx16::encode, as far as the entropy coder is not needed ---------- *)

Inductive nx_result :=
| NxOk (bytes : list N)
| NxEntropy           (* the data goes to the order-0/1 entropy coder: not modelled *)
| NxStripe.           (* STRIPE: not modelled *)

Definition set_pack (f : nxflags) (b : bool) : nxflags :=
  {| f_order := f_order f; f_res := f_res f; f_n32 := f_n32 f; f_stripe := f_stripe f;
     f_nosize := f_nosize f; f_cat := f_cat f; f_rle := f_rle f; f_pack := b |}.
Definition set_rle (f : nxflags) (b : bool) : nxflags :=
  {| f_order := f_order f; f_res := f_res f; f_n32 := f_n32 f; f_stripe := f_stripe f;
     f_nosize := f_nosize f; f_cat := f_cat f; f_rle := b; f_pack := f_pack f |}.
Definition force_cat (f : nxflags) : nxflags :=
  {| f_order := false; f_res := f_res f; f_n32 := f_n32 f; f_stripe := f_stripe f;
     f_nosize := f_nosize f; f_cat := true; f_rle := f_rle f; f_pack := f_pack f |}.

(* the PACK stage: (flags, data, context bytes) *)
Definition nx_pack_stage (f : nxflags) (src : list N) : nxflags * list N * list N :=
  if f_pack f then
    match pack_build src with
    | Some syms => let p := pack_encode syms src in (f, p, pack_context_bytes syms (length p))
    | None => (set_pack f false, src, [])
    end
  else (f, src, []).

(* the RLE stage *)
Definition nx_rle_stage (f : nxflags) (src : list N) : nxflags * list N * list N :=
  if f_rle f then
    match rle_build src with
    | Some A =>
      let '(lits, runs) := rle_enc (length src) A src in
      (f, lits, rle_context_bytes (rle_alphabet_bytes A ++ runs) (length lits))
    | None => (set_rle f false, src, [])
    end
  else (f, src, []).

Definition nx_encode (f : nxflags) (src : list N) : nx_result :=
  if f_stripe f then NxStripe
  else
    let size := if f_nosize f then [] else write_uint7 (N.of_nat (length src)) in
    let '(f1, s1, h1) := nx_pack_stage f src in
    let '(f2, s2, h2) := nx_rle_stage f1 s1 in
    let f3 := if (length s2 <? state_count f2)%nat then force_cat f2 else f2 in
    if f_cat f3 then NxOk (byte_of_flags f3 :: size ++ h1 ++ h2 ++ s2) else NxEntropy.

(* ---------- rans_nx16::decode ---------- *)

Definition split_off (bs : list N) (n : nat) : option (list N * list N) :=
  if (length bs <? n)%nat then None else Some (firstn n bs, skipn n bs).

(* [usize] = the caller's uncompressed size, used when NO_SIZE is set *)
Definition nx_decode (bs : list N) (usize : N) : nxd_result :=
  match bs with
  | [] => DErr
  | fb :: r0 =>
    let f := flags_of_byte fb in
    match (if f_nosize f then U7Ok usize r0 else read_uint7 r0) with
    | U7Ok size0 r1 =>
      if f_stripe f then DUnsupported
      else
        (* bit_pack::read_context *)
        match (if f_pack f then
                 match r1 with
                 | [] => None
                 | c :: t =>
                   if c =? 0 then None
                   else match split_off t (N.to_nat c) with
                        | None => None
                        | Some (table, t1) =>
                          match read_uint7 t1 with
                          | U7Ok len t2 => Some (Some table, len, t2)
                          | _ => None
                          end
                        end
                 end
               else Some (None, size0, r1)) with
        | None => DErr
        | Some (pctx, size1, r2) =>
          (* rle::read_context *)
          match (if f_rle f then
                   match read_uint7 r2 with
                   | U7Ok n t =>
                     match read_uint7 t with
                     | U7Ok len t1 =>
                       if N.even n then Some (inr tt)
                       else match split_off t1 (N.to_nat (n / 2)) with
                            | None => None
                            | Some (meta, t2) => Some (inl (Some meta, len, t2))
                            end
                     | _ => None
                     end
                   | _ => None
                   end
                 else Some (inl (None, size1, r2))) with
          | None => DErr
          | Some (inr _) => DUnsupported
          | Some (inl (rctx, size2, r3)) =>
            if f_cat f then
              (* split_off(&mut src, uncompressed_size)?.to_vec(): UnexpectedEof when the payload
                 is shorter than declared; bytes after it are ignored *)
              match split_off r3 (N.to_nat size2) with
              | None => DErr
              | Some (payload, _) =>
                let after_rle :=
                  match rctx with
                  | Some meta => rle_decode payload meta (N.to_nat size1)
                  | None => DOk payload
                  end in
                match after_rle with
                | DOk d =>
                  match pctx with
                  | Some table => pack_decode table d (N.to_nat size0)
                  | None => DOk d
                  end
                | e => e
                end
              end
            else DUnsupported
          end
        end
    | _ => DErr
    end
  end.

Definition nx_encode_byte (fb : N) (src : list N) : nx_result := nx_encode (flags_of_byte fb) src.
