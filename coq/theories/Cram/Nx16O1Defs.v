(* rANS Nx16 order 1: the predicates shared by the proof files (NV.Cram.Nx16O1Proofs -- the
   interleaved loops, Nx16O1Count -- chunks, rows and the counted table, Nx16O1Table -- the
   serialised table, Nx16O1Full -- the whole stream). *)
From Coq Require Import List NArith Bool PeanoNat.
From NV Require Import Cram.Bytes Cram.Vlq Cram.Rans4x8 Cram.Rans4x8O1 Cram.Rans4x8O1Proofs
  Cram.Nx16O0 Cram.Nx16O1.
Import ListNotations.
Open Scope N_scope.

(* [ok1 F1 i j] (NV.Cram.Rans4x8O1Proofs): the pair (context i, symbol j) can be coded with F1:
   row i sums to at most 4096, j is inside it and has a non-zero frequency.
   [chain P k l]: every symbol of l satisfies P with its predecessor, the first one with k. *)

(* every position of every chunk can be coded in the context of the position before it (the first
   row in the contexts K), and the remainder in the context of the last row's last symbol *)
Fixpoint rows_ok (F1 : list (list N)) (K : list N) (rows : list (list N)) (rem : list N) : Prop :=
  match rows with
  | [] => chain (ok1 F1) (last K 0) rem
  | r :: rest => Forall2 (ok1 F1) K r /\ rows_ok F1 r rest rem
  end.

(* what the encoder's normalised table satisfies *)
Definition o1_table_ok (F1 : list (list N)) : Prop :=
  length F1 = 256%nat /\
  forall i, i < 256 -> length (row F1 i) = 256%nat /\ (sumN (row F1 i) = 4096 \/ row F1 i = zeros256).

(* non-zero frequencies only between symbols of the alphabet *)
Definition o1_support (A : list bool) (F1 : list (list N)) : Prop :=
  forall i j, 0 < nth (N.to_nat j) (row F1 i) 0 ->
    nth (N.to_nat i) A false = true /\ nth (N.to_nat j) A false = true.
