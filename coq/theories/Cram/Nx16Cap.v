(* rANS Nx16, the decoder of NV.Cram.{Nx16O1,Nx16Full,Nx16Stripe} made safe for HOSTILE size / count
   fields (see NV.Cram.Cap): the same functions, with
     - split_off sites guarded against the remaining input (split_off_n; the compressed sizes of the
       order-1 table, of the RLE meta-data, of the CAT payload and of the STRIPE sub-streams),
     - RLE run lengths clamped before the conversion (min_n_nat; `iter.by_ref().take(len)`),
     - every output size (`vec![0; n]`: entropy decoder output, order-1 table, RLE meta-data, RLE
       output, unpacked output, STRIPE total) guarded by [cap]: above it the answer is [Capped].
   NV.Cram.Nx16CapProofs: each function here equals its uncapped original unless it says Capped. *)
From Coq Require Import List NArith Bool PeanoNat.
From NV Require Import Cram.Bytes Cram.Vlq Cram.Rans4x8 Cram.Nx16Xform Cram.Nx16O0 Cram.Nx16O1
  Cram.Nx16Full Cram.Nx16Stripe Cram.Cap.
Import ListNotations.
Open Scope N_scope.

(* ---------- rle::decode ---------- *)

Fixpoint rle_dec_c (fuel : nat) (A : list N) (lits meta : list N) (n : nat) : nxd_result :=
  match fuel with
  | O => DOk []
  | S fu =>
    if (n =? 0)%nat then DOk []
    else
      match lits with
      | [] => DErr
      | sym :: lr =>
        if mem sym A then
          match read_uint7 meta with
          | U7Ok len m' =>
            let k := min_n_nat len (n - 1) in
            match rle_dec_c fu A lr m' (n - 1 - k) with
            | DOk o => DOk (sym :: repeat sym k ++ o)
            | e => e
            end
          | _ => DErr
          end
        else
          match rle_dec_c fu A lr meta (n - 1) with
          | DOk o => DOk (sym :: o)
          | e => e
          end
      end
  end.

Definition rle_decode_c (lits meta : list N) (n : nat) : nxd_result :=
  match rle_read_alphabet meta with
  | None => DErr
  | Some (A, m) => rle_dec_c n A lits m n
  end.

(* ---------- order_1::read_frequencies ---------- *)

Definition read_freqs1_c (cap : N) (bs : list N) : capped (res (N * list (list N) * list N)) :=
  match bs with
  | [] => Within RErr
  | n :: b0 =>
    let tot := 2 ^ (n / 16) in
    if N.odd n then
      match read_uint7 b0 with
      | U7Ok usz b1 =>
        match read_uint7 b1 with
        | U7Ok csz b2 =>
          match split_off_n b2 csz with
          | None => Within RErr
          | Some (buf, b3) =>
            with_cap cap usz (fun u =>
              Within
                match nxd0_decode buf u 4 with
                | ROk tbl =>
                  match rd_freqs1_inner tot tbl with
                  | Some (F1, _) => ROk (tot, F1, b3)
                  | None => RErr
                  end
                | RErr => RErr
                | RPanic => RPanic
                end)
          end
        | _ => Within RErr
        end
      | _ => Within RErr
      end
    else
      Within
        match rd_freqs1_inner tot b0 with
        | Some (F1, b1) => ROk (tot, F1, b1)
        | None => RErr
        end
  end.

(* order_1::decode into [len] bytes with [n] states; the table may be entropy-compressed *)
Definition nxd1_decode_c (cap : N) (bs : list N) (len : nat) (n : nat) : capped (res (list N)) :=
  match read_freqs1_c cap bs with
  | Capped => Capped
  | Within RErr => Within RErr
  | Within RPanic => Within RPanic
  | Within (ROk (tot, F1, b1)) =>
    Within
      (let C1 := map cumulative F1 in
       match rd_states n b1 with
       | None => RErr
       | Some (st, b2) =>
         if (n =? 0)%nat then RPanic
         else
           let q := Nat.div len n in
           match dec16_rows q tot F1 C1 (repeat 0 n) st b2 with
           | ROk (rows, K, St, b3) =>
             match dec16_tail (len - q * n) tot F1 C1 (last K 0) (last St 0) b3 with
             | ROk out => ROk (concat (cols_of n rows) ++ out)
             | e => e
             end
           | RErr => RErr
           | RPanic => RPanic
           end
       end)
  end.

(* ---------- rle::read_context ---------- *)

Definition rd_rle_ctx_c (cap : N) (nst : nat) (r2 : list N) : capped (res (list N * N * list N)) :=
  match read_uint7 r2 with
  | U7Ok n t =>
    match read_uint7 t with
    | U7Ok len t1 =>
      if N.even n then
        match read_uint7 t1 with
        | U7Ok csize t2 =>
          match split_off_n t2 csize with
          | None => Within RErr
          | Some (buf, t3) =>
            with_cap cap (n / 2) (fun m =>
              Within
                match nxd0_decode buf m nst with
                | ROk meta => ROk (meta, len, t3)
                | RErr => RErr
                | RPanic => RPanic
                end)
          end
        | _ => Within RErr
        end
      else
        Within
          match split_off_n t1 (n / 2) with
          | None => RErr
          | Some (meta, t2) => ROk (meta, len, t2)
          end
    | _ => Within RErr
    end
  | _ => Within RErr
  end.

(* ---------- rans_nx16::decode without STRIPE ---------- *)

Definition nx_decode_ec (cap : N) (bs : list N) (usize : N) : capped nxd_result :=
  match bs with
  | [] => Within DErr
  | fb :: r0 =>
    let f := flags_of_byte fb in
    match (if f_nosize f then U7Ok usize r0 else read_uint7 r0) with
    | U7Ok size0 r1 =>
      if f_stripe f then Within DUnsupported
      else
        match (if f_pack f then
                 match rd_pack_ctx r1 with
                 | Some (table, len, t) => Some (Some table, len, t)
                 | None => None
                 end
               else Some (None, size0, r1)) with
        | None => Within DErr
        | Some (pctx, size1, r2) =>
          match (if f_rle f then
                   match rd_rle_ctx_c cap (state_count f) r2 with
                   | Capped => Capped
                   | Within (ROk (meta, len, t)) => Within (ROk (Some meta, len, t))
                   | Within RErr => Within RErr
                   | Within RPanic => Within RPanic
                   end
                 else Within (ROk (None, size1, r2))) with
          | Capped => Capped
          | Within RErr => Within DErr
          | Within RPanic => Within DPanic
          | Within (ROk (rctx, size2, r3)) =>
            let data : capped nxd_result :=
              if f_cat f then
                Within
                  match split_off_n r3 size2 with
                  | None => DErr
                  | Some (payload, _) => DOk payload
                  end
              else
                with_cap cap size2 (fun n2 =>
                  match (if f_order f then nxd1_decode_c cap r3 n2 (state_count f)
                         else Within (nxd0_decode r3 n2 (state_count f))) with
                  | Capped => Capped
                  | Within (ROk d) => Within (DOk d)
                  | Within RErr => Within DErr
                  | Within RPanic => Within DPanic
                  end) in
            match data with
            | Within (DOk d) =>
              let after_rle : capped nxd_result :=
                match rctx with
                | Some meta => with_cap cap size1 (fun n1 => Within (rle_decode_c d meta n1))
                | None => Within (DOk d)
                end in
              match after_rle with
              | Within (DOk d2) =>
                match pctx with
                | Some table => with_cap cap size0 (fun n0 => Within (pack_decode table d2 n0))
                | None => Within (DOk d2)
                end
              | e => e
              end
            | e => e
            end
          end
        end
    | _ => Within DErr
    end
  end.

(* ---------- stripe::decode ---------- *)

Fixpoint dec_chunks_c (dec : list N -> N -> capped nxd_result) (csizes : list N) (usizes : list nat)
  (bs : list N) : capped (nxd_result * list (list N)) :=
  match csizes, usizes with
  | cz :: cr, uz :: ur =>
    match split_off_n bs cz with
    | None => Within (DErr, [])
    | Some (buf, b1) =>
      match dec buf (N.of_nat uz) with
      | Capped => Capped
      | Within (DOk chunk) =>
        if (length chunk =? uz)%nat then
          match dec_chunks_c dec cr ur b1 with
          | Capped => Capped
          | Within (DOk _, l) => Within (DOk [], chunk :: l)
          | Within bad => Within bad
          end
        else Within (DErr, [])
      | Within bad => Within (bad, [])
      end
    end
  | _, _ => Within (DOk [], [])
  end.

Definition stripe_decode_c (cap : N) (dec : list N -> N -> capped nxd_result) (bs : list N) (usize : N)
  : capped nxd_result :=
  match bs with
  | [] => Within DErr
  | c :: b0 =>
    if c =? 0 then Within DErr
    else
      let n := N.to_nat c in       (* a byte *)
      match rd_sizes n b0 with
      | None => Within DErr
      | Some (csizes, b1) =>
        with_cap cap usize (fun u =>
          match dec_chunks_c dec csizes (stripe_sizes u n) b1 with
          | Capped => Capped
          | Within (DOk _, chunks) => Within (DOk (interleave (S (length (concat chunks))) chunks))
          | Within (bad, _) => Within bad
          end)
      end
  end.

(* rans_nx16::decode, every flag byte *)
Fixpoint nx_decode_fc (cap : N) (fuel : nat) (bs : list N) (usize : N) : capped nxd_result :=
  match fuel with
  | O => Within DErr
  | S fu =>
    match bs with
    | [] => Within DErr
    | fb :: r0 =>
      let f := flags_of_byte fb in
      if f_stripe f then
        match (if f_nosize f then U7Ok usize r0 else read_uint7 r0) with
        | U7Ok size0 r1 => stripe_decode_c cap (nx_decode_fc cap fu) r1 size0
        | _ => Within DErr
        end
      else nx_decode_ec cap bs usize
    end
  end.

Definition nx_decode_sc (cap : N) (bs : list N) (usize : N) : capped nxd_result :=
  nx_decode_fc cap (S (length bs)) bs usize.

(* what the correspondence check runs *)
Definition nx_decode_s_capped (bs : list N) (usize : N) : capped nxd_result :=
  nx_decode_sc model_cap bs usize.
