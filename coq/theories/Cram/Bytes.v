(* Shared byte-string helpers for the CRAM integer codings (noodles-cram io/{reader,writer}/num).
   Bytes are [N] values < 256; a reader consumes a prefix of a [list N].

   Correspondence with the Rust shifts and masks (checked byte for byte by L2):
     x >> k      = x / 2^k            x & (2^k - 1) = x mod 2^k
     a | b       = a + b   when the set bits are disjoint (always the case below)
     (x as u8)   = x mod 256
     m.to_be_bytes()[j..] = be_bytes (8 - j) m   (big endian, most significant first) *)
From Coq Require Import List NArith.
Import ListNotations.
Open Scope N_scope.

(* the k low-order bytes of u, most significant first *)
Fixpoint be_bytes (k : nat) (u : N) : list N :=
  match k with
  | O => []
  | S k' => (u / 256 ^ N.of_nat k') mod 256 :: be_bytes k' u
  end.

(* read_exact of k bytes interpreted big endian on top of [acc]; None = UnexpectedEof *)
Fixpoint take_be (k : nat) (acc : N) (bs : list N) : option (N * list N) :=
  match k with
  | O => Some (acc, bs)
  | S k' => match bs with
            | [] => None
            | b :: r => take_be k' (acc * 256 + b) r
            end
  end.

(* little-endian u32 (rANS states, sizes) *)
Definition le32_bytes (u : N) : list N :=
  [u mod 256; (u / 256) mod 256; (u / 65536) mod 256; (u / 16777216) mod 256].

Definition take_le32 (bs : list N) : option (N * list N) :=
  match bs with
  | b0 :: b1 :: b2 :: b3 :: r => Some (b0 + 256 * b1 + 65536 * b2 + 16777216 * b3, r)
  | _ => None
  end.
