(* Round-trip theorems for ITF8 (all i32), LTF8 (all i64) and uint7 (all u32). *)
From Coq Require Import List NArith ZArith Lia.
From Coq Require Import ZifyBool ZifyNat ZifyN.
From NV Require Import Cram.Bytes Cram.Itf8 Cram.Ltf8 Cram.Vlq.
Import ListNotations.
Ltac Zify.zify_post_hook ::= Z.div_mod_to_equations.
Open Scope N_scope.
Arguments N.add : simpl never.
Arguments N.sub : simpl never.
Arguments N.mul : simpl never.
Arguments N.div : simpl never.
Arguments N.modulo : simpl never.
Arguments N.pow : simpl never.
Arguments N.ltb : simpl never.
Arguments N.eqb : simpl never.

(* ---------- big-endian bytes ---------- *)

Lemma pow256_pos k : 0 < 256 ^ N.of_nat k.
Proof. apply N.neq_0_lt_0. apply N.pow_nonzero. discriminate. Qed.

Lemma pow256_succ k : 256 ^ N.of_nat (S k) = 256 ^ N.of_nat k * 256.
Proof. rewrite Nat2N.inj_succ, N.pow_succ_r'. apply N.mul_comm. Qed.

Lemma take_be_be_bytes k : forall acc u rest,
  take_be k acc (be_bytes k u ++ rest) = Some (acc * 256 ^ N.of_nat k + u mod 256 ^ N.of_nat k, rest).
Proof.
  induction k as [|k IH]; intros acc u rest.
  - cbn [take_be be_bytes app]. change (256 ^ N.of_nat 0) with 1. rewrite N.mod_1_r. f_equal. f_equal. lia.
  - cbn [take_be be_bytes app]. rewrite IH. f_equal. f_equal.
    rewrite pow256_succ.
    pose proof (pow256_pos k) as Hp.
    rewrite (N.mod_mul_r u (256 ^ N.of_nat k) 256) by lia.
    set (p := 256 ^ N.of_nat k) in *. lia.
Qed.

Lemma be_bytes_length k u : length (be_bytes k u) = k.
Proof. induction k as [|k IH]; cbn [be_bytes length]; [reflexivity|]. now rewrite IH. Qed.

Lemma take_be_short k : forall acc bs, (length bs < k)%nat -> take_be k acc bs = None.
Proof.
  induction k as [|k IH]; intros acc bs Hl; [inversion Hl|].
  destruct bs as [|b r]; cbn [take_be]; [reflexivity|]. apply IH. cbn [length] in Hl. lia.
Qed.

(* ---------- i32 / i64 views ---------- *)

Lemma u32_of_i32_lt n : u32_of_i32 n < 4294967296.
Proof. unfold u32_of_i32. lia. Qed.

Lemma i32_of_u32_of_i32 n : (-2147483648 <= n < 2147483648)%Z -> i32_of_u32 (u32_of_i32 n) = n.
Proof. intros Hn. unfold i32_of_u32, u32_of_i32. destruct (_ <? _) eqn:E; lia. Qed.

Lemma u64_of_i64_lt n : u64_of_i64 n < two64.
Proof. unfold u64_of_i64, two64. lia. Qed.

Lemma i64_of_u64_of_i64 n :
  (-9223372036854775808 <= n < 9223372036854775808)%Z -> i64_of_u64 (u64_of_i64 n) = n.
Proof. intros Hn. unfold i64_of_u64, u64_of_i64, two64. destruct (_ <? _) eqn:E; lia. Qed.

(* ---------- ITF8 ---------- *)

Ltac first_byte_tests :=
  repeat match goal with
  | |- context [?a <? ?b] =>
      first [ replace (a <? b) with true by lia | replace (a <? b) with false by lia ]
  end.

Lemma itf8_dec_enc u rest : u < 4294967296 -> itf8_dec (itf8_enc u ++ rest) = Some (u, rest).
Proof.
  intros Hu. unfold itf8_enc.
  destruct (u <? 128) eqn:E1; [cbn [app itf8_dec]; rewrite E1; reflexivity|].
  destruct (u <? 16384) eqn:E2.
  { rewrite <- app_comm_cons. cbv beta iota delta [itf8_dec].
    rewrite take_be_be_bytes. change (256 ^ N.of_nat 1) with 256.
    first_byte_tests. f_equal. f_equal. lia. }
  destruct (u <? 2097152) eqn:E3.
  { rewrite <- app_comm_cons. cbv beta iota delta [itf8_dec].
    rewrite take_be_be_bytes. change (256 ^ N.of_nat 2) with 65536.
    first_byte_tests. f_equal. f_equal. lia. }
  destruct (u <? 268435456) eqn:E4.
  { rewrite <- app_comm_cons. cbv beta iota delta [itf8_dec].
    rewrite take_be_be_bytes. change (256 ^ N.of_nat 3) with 16777216.
    first_byte_tests. f_equal. f_equal. lia. }
  cbn [app itf8_dec take_be].
  first_byte_tests. f_equal. f_equal. lia.
Qed.

Theorem itf8_roundtrip n rest :
  (-2147483648 <= n < 2147483648)%Z -> read_itf8 (write_itf8 n ++ rest) = Some (n, rest).
Proof.
  intros Hn. unfold read_itf8, write_itf8.
  rewrite itf8_dec_enc by apply u32_of_i32_lt. now rewrite i32_of_u32_of_i32.
Qed.

Theorem itf8_length n : length (write_itf8 n) = itf8_size n.
Proof.
  unfold write_itf8, itf8_size, itf8_enc.
  repeat match goal with |- context [if ?c then _ else _] => destruct c end;
  cbn [length be_bytes]; reflexivity.
Qed.

(* the high nibble of the fifth byte never matters (reader leniency present in the code) *)
Lemma itf8_fifth_byte_high_nibble b0 b1 b2 b3 b4 h rest :
  240 <= b0 -> b4 < 16 -> h < 16 ->
  itf8_dec (b0 :: b1 :: b2 :: b3 :: (16 * h + b4) :: rest) = itf8_dec (b0 :: b1 :: b2 :: b3 :: b4 :: rest).
Proof.
  intros H0 H4 Hh. cbn [itf8_dec take_be]. first_byte_tests. f_equal. f_equal. lia.
Qed.

(* truncated input is UnexpectedEof, whatever the first byte *)
Lemma itf8_truncated n k :
  (-2147483648 <= n < 2147483648)%Z -> (k < length (write_itf8 n))%nat ->
  read_itf8 (firstn k (write_itf8 n)) = None.
Proof.
  intros Hn Hk. unfold read_itf8, write_itf8 in *. unfold itf8_enc in *.
  pose proof (u32_of_i32_lt n) as Hu. set (u := u32_of_i32 n) in *.
  destruct (u <? 128) eqn:E1.
  { cbn [length] in Hk. assert (k = 0)%nat as -> by lia. reflexivity. }
  destruct (u <? 16384) eqn:E2.
  { destruct k as [|k]; [reflexivity|]. cbn [firstn]. cbv beta iota delta [itf8_dec].
    first_byte_tests. rewrite take_be_short; [reflexivity|].
    rewrite firstn_length, be_bytes_length. cbn [length] in Hk. rewrite be_bytes_length in Hk. lia. }
  destruct (u <? 2097152) eqn:E3.
  { destruct k as [|k]; [reflexivity|]. cbn [firstn]. cbv beta iota delta [itf8_dec].
    first_byte_tests. rewrite take_be_short; [reflexivity|].
    rewrite firstn_length, be_bytes_length. cbn [length] in Hk. rewrite be_bytes_length in Hk. lia. }
  destruct (u <? 268435456) eqn:E4.
  { destruct k as [|k]; [reflexivity|]. cbn [firstn]. cbv beta iota delta [itf8_dec].
    first_byte_tests. rewrite take_be_short; [reflexivity|].
    rewrite firstn_length, be_bytes_length. cbn [length] in Hk. rewrite be_bytes_length in Hk. lia. }
  destruct k as [|k]; [reflexivity|]. cbn [firstn]. cbv beta iota delta [itf8_dec].
  first_byte_tests. rewrite take_be_short; [reflexivity|].
  rewrite firstn_length. cbn [length] in *. lia.
Qed.

(* ---------- LTF8 ---------- *)

Lemma with_prefix_be hi k u rest :
  with_prefix hi k (be_bytes k u ++ rest) = Some (hi * 256 ^ N.of_nat k + u mod 256 ^ N.of_nat k, rest).
Proof. unfold with_prefix. rewrite take_be_be_bytes. f_equal. Qed.

(* one first-byte class: the leading byte is P + u / D with u / D < w; the quotient and the
   remainder are abstracted before lia is called, so that only small linear facts remain *)
Ltac ltf8_class D w :=
  rewrite <- app_comm_cons; cbv beta iota delta [ltf8_dec]; rewrite !with_prefix_be;
  match goal with
  | |- context [256 ^ N.of_nat ?k] =>
      let v := eval vm_compute in (256 ^ N.of_nat k) in change (256 ^ N.of_nat k) with v
  end;
  match goal with
  | Hu : ?u < _ |- _ =>
    let Hh := fresh "Hh" in let Hdm := fresh "Hdm" in let Hl := fresh "Hl" in
    assert (Hh : u / D < w) by (apply N.div_lt_upper_bound; lia);
    pose proof (N.div_mod' u D) as Hdm;
    assert (Hl : u mod D < D) by (apply N.mod_lt; lia);
    set (h := u / D) in *; set (l := u mod D) in *;
    first_byte_tests; f_equal; f_equal; lia
  end.

Lemma ltf8_dec_enc u rest : u < two64 -> ltf8_dec (ltf8_enc u ++ rest) = Some (u, rest).
Proof.
  unfold two64. intros Hu. unfold ltf8_enc.
  change (2^7) with 128. change (2^14) with 16384. change (2^21) with 2097152.
  change (2^28) with 268435456. change (2^35) with 34359738368. change (2^42) with 4398046511104.
  change (2^49) with 562949953421312. change (2^56) with 72057594037927936.
  change (2^8) with 256. change (2^16) with 65536. change (2^24) with 16777216.
  change (2^32) with 4294967296. change (2^40) with 1099511627776. change (2^48) with 281474976710656.
  destruct (u <? 128) eqn:E1; [cbn [app ltf8_dec]; rewrite E1; reflexivity|].
  destruct (u <? 16384) eqn:E2; [clear Hu; assert (Hu : u < 16384) by lia; ltf8_class 256 64|].
  destruct (u <? 2097152) eqn:E3; [clear Hu; assert (Hu : u < 2097152) by lia; ltf8_class 65536 32|].
  destruct (u <? 268435456) eqn:E4; [clear Hu; assert (Hu : u < 268435456) by lia; ltf8_class 16777216 16|].
  destruct (u <? 34359738368) eqn:E5; [clear Hu; assert (Hu : u < 34359738368) by lia; ltf8_class 4294967296 8|].
  destruct (u <? 4398046511104) eqn:E6; [clear Hu; assert (Hu : u < 4398046511104) by lia; ltf8_class 1099511627776 4|].
  destruct (u <? 562949953421312) eqn:E7; [clear Hu; assert (Hu : u < 562949953421312) by lia; ltf8_class 281474976710656 2|].
  destruct (u <? 72057594037927936) eqn:E8.
  { clear Hu. assert (Hu : u < 72057594037927936) by lia.
    rewrite <- app_comm_cons. cbv beta iota delta [ltf8_dec]. rewrite !with_prefix_be.
    change (256 ^ N.of_nat 7) with 72057594037927936. rewrite (N.mod_small u) by exact Hu.
    first_byte_tests. reflexivity. }
  rewrite <- app_comm_cons. cbv beta iota delta [ltf8_dec]. rewrite !with_prefix_be.
  change (256 ^ N.of_nat 8) with 18446744073709551616. rewrite (N.mod_small u) by exact Hu.
  first_byte_tests. reflexivity.
Qed.

Theorem ltf8_roundtrip n rest :
  (-9223372036854775808 <= n < 9223372036854775808)%Z -> read_ltf8 (write_ltf8 n ++ rest) = Some (n, rest).
Proof.
  intros Hn. unfold read_ltf8, write_ltf8.
  rewrite ltf8_dec_enc by apply u64_of_i64_lt. now rewrite i64_of_u64_of_i64.
Qed.

Theorem ltf8_length n : length (write_ltf8 n) = ltf8_size n.
Proof.
  unfold write_ltf8, ltf8_size, ltf8_enc.
  repeat match goal with |- context [if ?c then _ else _] => destruct c end;
  cbn [length be_bytes]; reflexivity.
Qed.

(* ---------- uint7 ---------- *)

Fixpoint fits (fuel : nat) (m : N) : Prop :=
  match fuel with O => m = 0 | S f => fits f (m / 128) end.

Lemma uint7_go_read rest : forall fuel m acc, (fuel <= 4)%nat -> m < 4294967296 -> fits fuel m ->
  exists k, (k <= fuel)%nat /\
    read_uint7_go (uint7_go fuel m acc ++ rest) 0 0 = read_uint7_go (acc ++ rest) m k.
Proof.
  induction fuel as [|f IH]; intros m acc Hf Hm Hfit.
  - cbn [fits] in Hfit. subst m. exists 0%nat. split; [lia|reflexivity].
  - cbn [uint7_go]. destruct (m =? 0) eqn:E0.
    + assert (m = 0) as -> by lia. exists 0%nat. split; [lia|reflexivity].
    + cbn [fits] in Hfit.
      assert (Hq : m / 128 < 4294967296) by (apply N.div_lt_upper_bound; lia).
      destruct (IH (m / 128) ((m mod 128 + 128) :: acc) ltac:(lia) Hq Hfit) as [k [Hk Hr]].
      exists (S k). split; [lia|]. rewrite Hr. rewrite <- app_comm_cons. cbn [read_uint7_go].
      replace (Nat.ltb 5 (S k)) with false by (symmetry; apply Nat.ltb_ge; lia).
      pose proof (N.div_mod' m 128) as Hdm.
      assert (Hl : m mod 128 < 128) by (apply N.mod_lt; lia).
      set (q := m / 128) in *. set (d := m mod 128) in *.
      replace ((d + 128) mod 128) with d by lia.
      replace ((q * 128) mod 4294967296) with (q * 128) by (symmetry; apply N.mod_small; lia).
      replace (d + 128 <? 128) with false by lia.
      f_equal. lia.
Qed.

Lemma fits4 m : m < 33554432 -> fits 4 m.
Proof.
  intros Hm. cbn [fits].
  assert (H1 : m / 128 < 262144) by (apply N.div_lt_upper_bound; lia).
  assert (H2 : m / 128 / 128 < 2048) by (apply N.div_lt_upper_bound; lia).
  assert (H3 : m / 128 / 128 / 128 < 16) by (apply N.div_lt_upper_bound; lia).
  apply N.div_small. lia.
Qed.

Theorem uint7_roundtrip n rest : n < 4294967296 -> read_uint7 (write_uint7 n ++ rest) = U7Ok n rest.
Proof.
  intros Hn. unfold write_uint7, read_uint7.
  assert (Hq : n / 128 < 33554432) by (apply N.div_lt_upper_bound; lia).
  destruct (uint7_go_read rest 4 (n / 128) [n mod 128] ltac:(lia) ltac:(lia) (fits4 _ Hq)) as [k [Hk Hr]].
  rewrite Hr. cbn [app read_uint7_go].
  replace (Nat.ltb 5 (S k)) with false by (symmetry; apply Nat.ltb_ge; lia).
  pose proof (N.div_mod' n 128) as Hdm.
  assert (Hl : n mod 128 < 128) by (apply N.mod_lt; lia).
  set (q := n / 128) in *. set (d := n mod 128) in *.
  replace (d mod 128) with d by (symmetry; apply N.mod_small; lia).
  replace ((q * 128) mod 4294967296) with (q * 128) by (symmetry; apply N.mod_small; lia).
  replace (d <? 128) with true by lia.
  f_equal. lia.
Qed.

(* the writer's fuel (its 5-byte buffer) is never exhausted for a u32: the Rust index `i`
   cannot underflow *)
Lemma uint7_fuel_enough n : n < 4294967296 -> fits 4 (n / 128).
Proof. intros Hn. apply fits4. apply N.div_lt_upper_bound; lia. Qed.

Lemma uint7_go_length : forall fuel m acc,
  length (uint7_go fuel m acc) = (length acc + length (uint7_go fuel m []))%nat.
Proof.
  induction fuel as [|f IH]; intros m acc; cbn [uint7_go]; [cbn; lia|].
  destruct (m =? 0); [cbn; lia|].
  rewrite IH. rewrite (IH _ [_]). cbn [length]. lia.
Qed.

Theorem uint7_length n : n < 4294967296 -> length (write_uint7 n) = uint7_size n.
Proof.
  intros Hn. unfold write_uint7, uint7_size.
  change (2^7) with 128. change (2^14) with 16384. change (2^21) with 2097152. change (2^28) with 268435456.
  pose proof (N.div_mod' n 128) as Hd0. assert (Hl0 : n mod 128 < 128) by (apply N.mod_lt; lia).
  set (q1 := n / 128) in *. set (d0 := n mod 128) in *.
  cbn [uint7_go].
  destruct (q1 =? 0) eqn:Z1; [replace (n <? 128) with true by lia; reflexivity|].
  replace (n <? 128) with false by lia.
  pose proof (N.div_mod' q1 128) as Hd1. assert (Hl1 : q1 mod 128 < 128) by (apply N.mod_lt; lia).
  set (q2 := q1 / 128) in *. set (d1 := q1 mod 128) in *.
  destruct (q2 =? 0) eqn:Z2; [replace (n <? 16384) with true by lia; reflexivity|].
  replace (n <? 16384) with false by lia.
  pose proof (N.div_mod' q2 128) as Hd2. assert (Hl2 : q2 mod 128 < 128) by (apply N.mod_lt; lia).
  set (q3 := q2 / 128) in *. set (d2 := q2 mod 128) in *.
  destruct (q3 =? 0) eqn:Z3; [replace (n <? 2097152) with true by lia; reflexivity|].
  replace (n <? 2097152) with false by lia.
  pose proof (N.div_mod' q3 128) as Hd3. assert (Hl3 : q3 mod 128 < 128) by (apply N.mod_lt; lia).
  set (q4 := q3 / 128) in *. set (d3 := q3 mod 128) in *.
  destruct (q4 =? 0) eqn:Z4; [replace (n <? 268435456) with true by lia; reflexivity|].
  replace (n <? 268435456) with false by lia. reflexivity.
Qed.
