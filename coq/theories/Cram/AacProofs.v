(* CRAM 3.1 adaptive arithmetic coder, ORDER 0 (NV.Cram.Aac): decode (encode x) = x.

   The range-coder part (invariants, lockstep of the two normalisation loops, the end of the stream)
   is NV.Cram.AacRange; here: the adaptive model (the decoder's search finds the entry the encoder
   coded, both sides update the model the same way), the two order-0 loops, the symbol-count byte.

     aac_o0_encode_total   the encoder model never panics on a non-empty byte string
     aac_o0_roundtrip      aac_o0_decode (aac_o0_encode src ++ tail) (length src) = ROk src        *)
From Coq Require Import List NArith ZArith Lia Bool PeanoNat.
From Coq Require Import ZifyBool ZifyNat ZifyN.
From NV Require Import Cram.Bytes Cram.Vlq Cram.Rans4x8 Cram.Nx16Xform Cram.Nx16O0 Cram.Aac
  Cram.AacRange.
Import ListNotations.
Ltac Zify.zify_post_hook ::= Z.div_mod_to_equations.
Open Scope N_scope.
Arguments N.add : simpl never.
Arguments N.sub : simpl never.
Arguments N.mul : simpl never.
Arguments N.div : simpl never.
Arguments N.modulo : simpl never.
Arguments N.pow : simpl never.
Arguments N.ltb : simpl never.
Arguments N.leb : simpl never.
Arguments N.eqb : simpl never.

(* ---------- the table operations ---------- *)

Definition fpos (l : list (N * N)) : Prop := Forall (fun p => 1 <= snd p) l.

Lemma tt_cons : forall p l, tab_total (p :: l) = snd p + tab_total l.
Proof. reflexivity. Qed.

Lemma add16_length : forall l x, length (tab_add16 l x) = length l.
Proof.
  induction l as [|[s f] r IH]; intros x; [destruct x; reflexivity|].
  destruct x as [|x']; cbn [tab_add16 length]; [reflexivity|]. rewrite IH. reflexivity.
Qed.

Lemma add16_total : forall l x, (x < length l)%nat -> tab_total (tab_add16 l x) = tab_total l + 16.
Proof.
  induction l as [|[s f] r IH]; intros x Hx; cbn [length] in Hx; [lia|].
  destruct x as [|x']; cbn [tab_add16]; rewrite !tt_cons; cbn [snd]; [lia|].
  rewrite IH by lia. lia.
Qed.

Lemma add16_fst : forall l x, map fst (tab_add16 l x) = map fst l.
Proof.
  induction l as [|[s f] r IH]; intros x; [destruct x; reflexivity|].
  destruct x as [|x']; cbn [tab_add16 map fst]; [reflexivity|]. rewrite IH. reflexivity.
Qed.

Lemma add16_fpos : forall l x, fpos l -> fpos (tab_add16 l x).
Proof.
  induction l as [|[s f] r IH]; intros x HF; [destruct x; exact HF|].
  inversion HF as [|p q Hp Hq]; subst. cbn [snd] in Hp.
  destruct x as [|x']; cbn [tab_add16]; constructor; cbn [snd]; try lia; try assumption.
  apply IH. exact Hq.
Qed.

Lemma halve_length : forall l, length (tab_halve l) = length l.
Proof. intros l. unfold tab_halve. apply map_length. Qed.

Lemma halve_total : forall l, 2 * tab_total (tab_halve l) <= tab_total l + N.of_nat (length l).
Proof.
  induction l as [|p r IH].
  - change (tab_halve []) with (@nil (N * N)). cbn [length]. change (tab_total []) with 0. lia.
  - change (tab_halve (p :: r)) with ((fst p, snd p - snd p / 2) :: tab_halve r).
    rewrite !tt_cons. cbn [snd length]. lia.
Qed.

Lemma halve_fst : forall l, map fst (tab_halve l) = map fst l.
Proof.
  induction l as [|p r IH]; [reflexivity|].
  change (tab_halve (p :: r)) with ((fst p, snd p - snd p / 2) :: tab_halve r).
  cbn [map fst]. rewrite IH. reflexivity.
Qed.

Lemma halve_fpos : forall l, fpos l -> fpos (tab_halve l).
Proof.
  induction l as [|p r IH]; intros HF; [constructor|].
  inversion HF as [|p' q Hp Hq]; subst.
  change (tab_halve (p :: r)) with ((fst p, snd p - snd p / 2) :: tab_halve r).
  constructor; [cbn [snd]; lia|apply IH; exact Hq].
Qed.

Lemma swap_nil : forall x, tab_swap [] x = [].
Proof. intros x. destruct x as [|[|x]]; reflexivity. Qed.
Lemma swap_0 : forall l, tab_swap l 0 = l.
Proof. intros l. destruct l as [|a [|b r]]; reflexivity. Qed.
Lemma swap_1 : forall a b r, tab_swap (a :: b :: r) 1 = if snd a <? snd b then b :: a :: r else a :: b :: r.
Proof. reflexivity. Qed.
Lemma swap_SS : forall a r x, tab_swap (a :: r) (S (S x)) = a :: tab_swap r (S x).
Proof. intros a r x. destruct r as [|b r']; reflexivity. Qed.

Lemma swap_length : forall l x, length (tab_swap l x) = length l.
Proof.
  induction l as [|a r IH]; intros x; [rewrite swap_nil; reflexivity|].
  destruct x as [|[|x]].
  - rewrite swap_0. reflexivity.
  - destruct r as [|b r']; [reflexivity|]. rewrite swap_1. destruct (snd a <? snd b); reflexivity.
  - rewrite swap_SS. cbn [length]. rewrite IH. reflexivity.
Qed.

Lemma swap_total : forall l x, tab_total (tab_swap l x) = tab_total l.
Proof.
  induction l as [|a r IH]; intros x; [rewrite swap_nil; reflexivity|].
  destruct x as [|[|x]].
  - rewrite swap_0. reflexivity.
  - destruct r as [|b r']; [reflexivity|]. rewrite swap_1.
    destruct (snd a <? snd b); [|reflexivity]. rewrite !tt_cons. lia.
  - rewrite swap_SS. rewrite !tt_cons. rewrite IH. reflexivity.
Qed.

Lemma swap_fpos : forall l x, fpos l -> fpos (tab_swap l x).
Proof.
  induction l as [|a r IH]; intros x HF; [rewrite swap_nil; exact HF|].
  destruct x as [|[|x]].
  - rewrite swap_0. exact HF.
  - destruct r as [|b r']; [exact HF|]. rewrite swap_1.
    destruct (snd a <? snd b); [|exact HF].
    inversion HF as [|p q Hp Hq]; subst. inversion Hq as [|p' q' Hp' Hq']; subst.
    constructor; [exact Hp'|]. constructor; [exact Hp|exact Hq'].
  - rewrite swap_SS. inversion HF as [|p q Hp Hq]; subst. constructor; [exact Hp|]. apply IH. exact Hq.
Qed.

Lemma swap_in : forall l x s, In s (map fst l) -> In s (map fst (tab_swap l x)).
Proof.
  induction l as [|a r IH]; intros x s Hin; [rewrite swap_nil; exact Hin|].
  destruct x as [|[|x]].
  - rewrite swap_0. exact Hin.
  - destruct r as [|b r']; [exact Hin|]. rewrite swap_1.
    destruct (snd a <? snd b); [|exact Hin].
    cbn [map In] in *. tauto.
  - rewrite swap_SS. cbn [map In] in *. destruct Hin as [Hh|Ht]; [left; exact Hh|right; apply IH; exact Ht].
Qed.

(* ---------- the model ---------- *)

Definition mdl_ok (m : aac_model) : Prop :=
  (length (m_tab m) <= 256)%nat /\ tab_total (m_tab m) = m_tot m /\ m_tot m <= 65535 /\ fpos (m_tab m).

Lemma model_update_eq : forall m x,
  model_update m x =
  if 65519 <? m_tot m + 16
  then {| m_tab := tab_swap (tab_halve (tab_add16 (m_tab m) x)) x;
          m_tot := tab_total (tab_halve (tab_add16 (m_tab m) x)) |}
  else {| m_tab := tab_swap (tab_add16 (m_tab m) x) x; m_tot := m_tot m + 16 |}.
Proof. intros m x. unfold model_update. destruct (65519 <? m_tot m + 16); reflexivity. Qed.

Lemma model_update_ok : forall m x, mdl_ok m -> (x < length (m_tab m))%nat -> mdl_ok (model_update m x).
Proof.
  intros m x (HL & HT & HT2 & HP) Hx. rewrite model_update_eq. unfold mdl_ok.
  pose proof (add16_total _ _ Hx) as Ha.
  pose proof (add16_length (m_tab m) x) as Hal.
  destruct (65519 <? m_tot m + 16) eqn:E; cbn [m_tab m_tot].
  - rewrite swap_length, swap_total, halve_length, Hal.
    pose proof (halve_total (tab_add16 (m_tab m) x)) as Hh. rewrite Hal in Hh.
    split; [exact HL|]. split; [reflexivity|]. split; [lia|].
    apply swap_fpos, halve_fpos, add16_fpos. exact HP.
  - apply N.ltb_ge in E. rewrite swap_length, swap_total, Hal.
    split; [exact HL|]. split; [lia|]. split; [lia|].
    apply swap_fpos, add16_fpos. exact HP.
Qed.

Lemma model_update_in : forall m x s,
  In s (map fst (m_tab m)) -> In s (map fst (m_tab (model_update m x))).
Proof.
  intros m x s Hin. rewrite model_update_eq.
  destruct (65519 <? m_tot m + 16); cbn [m_tab]; apply swap_in.
  - rewrite halve_fst, add16_fst. exact Hin.
  - rewrite add16_fst. exact Hin.
Qed.

Lemma model_new_total : forall n s, tab_total (map (fun i => (N.of_nat i, 1)) (seq s n)) = N.of_nat n.
Proof.
  induction n as [|n IH]; intros s; [reflexivity|].
  cbn [seq map]. rewrite tt_cons, IH. cbn [snd]. lia.
Qed.

Lemma model_new_ok : forall n, (n <= 256)%nat -> mdl_ok (model_new n).
Proof.
  intros n Hn. unfold mdl_ok, model_new. cbn [m_tab m_tot].
  rewrite map_length, seq_length, model_new_total.
  split; [exact Hn|]. split; [reflexivity|]. split; [lia|].
  unfold fpos. apply Forall_forall. intros p Hp. apply in_map_iff in Hp.
  destruct Hp as (i & Hi & _). subst p. cbn [snd]. lia.
Qed.

Lemma model_new_in : forall n s, (N.to_nat s < n)%nat -> In s (map fst (m_tab (model_new n))).
Proof.
  intros n s Hs. unfold model_new. cbn [m_tab]. rewrite map_map. cbn [fst].
  apply in_map_iff. exists (N.to_nat s). split; [apply N2Nat.id|]. apply in_seq. lia.
Qed.

(* the encoder's search and the decoder's search meet *)
Lemma find_sym_spec : forall l sym x0 acc0, In sym (map fst l) -> fpos l ->
  exists x acc f, find_sym l sym x0 acc0 = Some (x, acc, f) /\ (x < x0 + length l)%nat /\
    1 <= f /\ acc + f <= acc0 + tab_total l /\ acc0 <= acc /\
    forall v, acc <= v -> v < acc + f -> find_freq l v x0 acc0 = Some (x, acc, f, sym).
Proof.
  induction l as [|[s f] r IH]; intros sym x0 acc0 Hin HF; [destruct Hin|].
  inversion HF as [|p q Hp Hq]; subst. cbn [snd] in Hp.
  cbn [find_sym find_freq length]. rewrite tt_cons. cbn [snd].
  destruct (s =? sym) eqn:Es.
  - apply N.eqb_eq in Es. subst s. exists x0, acc0, f.
    split; [reflexivity|]. split; [lia|]. split; [exact Hp|]. split; [lia|]. split; [lia|].
    intros v Hv1 Hv2. replace (acc0 + f <=? v) with false by (symmetry; apply N.leb_gt; lia).
    reflexivity.
  - apply N.eqb_neq in Es. cbn [map fst In] in Hin.
    destruct Hin as [Hh|Ht]; [contradiction|].
    destruct (IH sym (S x0) (acc0 + f) Ht Hq) as (x & acc & f' & Hfs & Hx & Hf' & Hsum & Hacc & Hff).
    exists x, acc, f'. split; [exact Hfs|]. split; [lia|]. split; [exact Hf'|]. split; [lia|].
    split; [lia|].
    intros v Hv1 Hv2. replace (acc0 + f <=? v) with true by (symmetry; apply N.leb_le; lia).
    apply Hff; assumption.
Qed.

Lemma model_decode_eq : forall m st bs,
  model_decode m st bs =
  if m_tot m =? 0 then RPanic
  else if d_range st / m_tot m =? 0 then RPanic
  else if m_tot m <=? d_code st / (d_range st / m_tot m) then RErr
  else match find_freq (m_tab m) (d_code st / (d_range st / m_tot m)) 0 0 with
       | None => RPanic
       | Some (x, acc, f, sym) =>
         if (4294967296 <=? acc * (d_range st / m_tot m)) || (d_code st <? acc * (d_range st / m_tot m))
            || (4294967296 <=? d_range st / m_tot m * f) then RPanic
         else match dec_normalize_rc 4 {| d_range := d_range st / m_tot m * f;
                                          d_code := d_code st - acc * (d_range st / m_tot m) |} bs with
              | None => RErr
              | Some (st', bs') => ROk (model_update m x, st', sym, bs')
              end
       end.
Proof. reflexivity. Qed.

(* ---------- the order-0 loops ---------- *)

Lemma loop_spec : forall src m st out,
  enc_ok st out -> mdl_ok m -> Forall (fun s => In s (map fst (m_tab m))) src ->
  exists rest, enc0_loop m st src = Some rest /\
    Forall (fun b => b < 256) (out ++ rest) /\ nest (out ++ rest) st out (e_range st) /\
    forall tail dst bs, dec_follows (out ++ rest) tail st out dst bs ->
      dec0_loop (length src) m dst bs = ROk src.
Proof.
  induction src as [|x src IH]; intros m st out Hok Hm Hsyms.
  - exists (rc_encode_end 5 st). split; [reflexivity|].
    destruct (end_spec5 st out Hok) as (HF & Hnest).
    split; [exact HF|]. split; [exact Hnest|]. intros tail dst bs _. reflexivity.
  - inversion Hsyms as [|x' src' Hin Hrest]; subst.
    pose proof Hm as (HL & HT & HT2 & HP).
    destruct (find_sym_spec (m_tab m) x 0 0 Hin HP) as (idx & acc & f & Hfs & Hidx & Hf & Hsum & _ & Hff).
    rewrite HT in Hsum.
    destruct (encode_spec st out acc f (m_tot m) Hok Hf ltac:(lia) HT2) as (st' & o & Henc & Hok' & Hdec).
    assert (Hm' : mdl_ok (model_update m idx)) by (apply model_update_ok; [exact Hm|lia]).
    assert (Hsyms' : Forall (fun s => In s (map fst (m_tab (model_update m idx)))) src).
    { eapply Forall_impl; [|exact Hrest]. intros s Hs. apply model_update_in. exact Hs. }
    destruct (IH (model_update m idx) st' (out ++ o) Hok' Hm' Hsyms') as (rest & Hloop & HF & Hnest & Hdl).
    exists (o ++ rest). split.
    { cbn [enc0_loop]. unfold model_encode. rewrite Hfs, Henc, Hloop. reflexivity. }
    rewrite app_assoc. split; [exact HF|].
    destruct (Hdec _ HF Hnest) as (Hnest0 & Hdec0).
    split; [exact Hnest0|].
    intros tail dst bs Hfol.
    destruct (Hdec0 tail dst bs Hfol) as (Hr & Hq1 & Hq2 & Ha & Hb & Hc & dst' & bs' & Hdn & Hfol').
    cbn [length dec0_loop]. rewrite model_decode_eq.
    replace (m_tot m =? 0) with false by (symmetry; apply N.eqb_neq; lia).
    replace (d_range dst / m_tot m =? 0) with false by (symmetry; apply N.eqb_neq; exact Hr).
    replace (m_tot m <=? d_code dst / (d_range dst / m_tot m)) with false by (symmetry; apply N.leb_gt; lia).
    rewrite (Hff _ Hq1 Hq2).
    replace (4294967296 <=? acc * (d_range dst / m_tot m)) with false by (symmetry; apply N.leb_gt; lia).
    replace (d_code dst <? acc * (d_range dst / m_tot m)) with false by (symmetry; apply N.ltb_ge; lia).
    replace (4294967296 <=? d_range dst / m_tot m * f) with false by (symmetry; apply N.leb_gt; lia).
    cbn [orb]. rewrite Hdn. rewrite (Hdl tail dst' bs' Hfol'). reflexivity.
Qed.

(* ---------- order_0::encode / order_0::decode ---------- *)

Lemma max_sym_ge : forall src s, In s src -> s <= max_sym src.
Proof.
  induction src as [|x r IH]; intros s Hin; [destruct Hin|].
  cbn [max_sym]. destruct Hin as [Hh|Ht]; [subst; lia|]. specialize (IH s Ht). lia.
Qed.

Lemma max_sym_lt : forall src, Forall (fun b => b < 256) src -> max_sym src < 256.
Proof.
  induction src as [|x r IH]; intros HF; cbn [max_sym]; [lia|].
  inversion HF as [|p q Hp Hq]; subst. specialize (IH Hq). lia.
Qed.

Theorem aac_o0_roundtrip : forall src tail,
  src <> [] -> Forall (fun b => b < 256) src ->
  exists body, aac_o0_encode src = Some body /\ aac_o0_decode (body ++ tail) (length src) = ROk src.
Proof.
  intros src tail _ Hbytes.
  pose proof (max_sym_lt src Hbytes) as Hmax.
  set (n := S (N.to_nat (max_sym src))).
  assert (Hn : (1 <= n <= 256)%nat) by (unfold n; lia).
  assert (Hsyms : Forall (fun s => In s (map fst (m_tab (model_new n)))) src).
  { apply Forall_forall. intros s Hs. apply model_new_in. pose proof (max_sym_ge src s Hs). unfold n. lia. }
  destruct (loop_spec src (model_new n) rc_enc_init [] enc_init_ok (model_new_ok n ltac:(lia)) Hsyms)
    as (rest & Hloop & HF & Hnest & Hdl).
  cbn [app] in HF, Hnest, Hdl.
  unfold aac_o0_encode. fold n. rewrite Hloop.
  eexists. split; [reflexivity|].
  destruct Hnest as (HL & HDa & HDb).
  change (nsh rc_enc_init []) with 0%nat in HL, HDa, HDb.
  change (Vv rc_enc_init []) with 0 in HDa, HDb.
  change (e_range rc_enc_init) with 4294967295 in HDb.
  destruct rest as [|b0 [|b1 [|b2 [|b3 [|b4 rest]]]]]; cbn [length] in HL; try lia.
  unfold Dw in HDb. cbn [Nat.add firstn] in HDb. unfold bytes_val, bv_from in HDb. cbn [fold_left] in HDb.
  assert (Hb : b0 < 256 /\ b1 < 256 /\ b2 < 256 /\ b3 < 256 /\ b4 < 256).
  { inversion HF as [|? ? H0 HF0]; subst. inversion HF0 as [|? ? H1 HF1]; subst.
    inversion HF1 as [|? ? H2 HF2]; subst. inversion HF2 as [|? ? H3 HF3]; subst.
    inversion HF3 as [|? ? H4 HF4]; subst. repeat split; assumption. }
  assert (Hb0 : b0 = 0) by lia.
  cbn [app]. unfold aac_o0_decode.
  assert (Hcnt : (if (if (n =? 256)%nat then 0 else N.of_nat n) =? 0 then 256%nat
                  else N.to_nat (if (n =? 256)%nat then 0 else N.of_nat n)) = n).
  { destruct (Nat.eqb_spec n 256) as [He|Hne].
    - change (0 =? 0) with true. cbv iota. symmetry. exact He.
    - replace (N.of_nat n =? 0) with false by (symmetry; apply N.eqb_neq; lia). apply Nat2N.id. }
  rewrite Hcnt. cbn [rc_dec_new].
  apply (Hdl tail). unfold dec_follows. cbn [d_range d_code].
  change (nsh rc_enc_init []) with 0%nat. change (Vv rc_enc_init []) with 0.
  split; [reflexivity|]. split; [|reflexivity].
  unfold Dw. cbn [Nat.add firstn]. unfold bytes_val, bv_from. cbn [fold_left]. lia.
Qed.

Theorem aac_o0_encode_total : forall src,
  src <> [] -> Forall (fun b => b < 256) src -> exists body, aac_o0_encode src = Some body.
Proof.
  intros src Hne Hb. destruct (aac_o0_roundtrip src [] Hne Hb) as (body & He & _).
  exists body. exact He.
Qed.

Print Assumptions aac_o0_roundtrip.
Print Assumptions aac_o0_encode_total.
