(* CRAM 3.1 adaptive arithmetic coder: the whole-stream theorems with the entropy-stage premises of
   NV.Cram.AacStripeProofs discharged. *)
From Coq Require Import List NArith Bool PeanoNat.
From NV Require Import Cram.Bytes Cram.Vlq Cram.Rans4x8 Cram.Nx16Xform Cram.Nx16O0 Cram.Nx16Full Cram.Nx16Stripe
  Cram.Aac Cram.AacModes Cram.AacRle Cram.AacModesProofs Cram.AacRange Cram.AacProofs Cram.AacModesRt
  Cram.AacRleRt Cram.AacStripeProofs.
Import ListNotations.
Open Scope N_scope.

Lemma aac_ent_ok_o1 : aac_ent_ok aac_o1_encode aac_o1_decode.
Proof. intros src Hne Hb. exact (aac_o1_roundtrip src Hne Hb). Qed.

(* EVERY flag byte without RLE and EXT -- or with STRIPE, where the other flags are ignored --,
   every byte string shorter than 2^28: aac::encode never panics and aac::decode returns the input:
   order 0 or 1, PACK applied or refused, CAT given or forced, size field or caller size, STRIPE *)
Theorem aac_all_roundtrip_norle f src :
  f_stripe f = true \/ (f_n32 f = false /\ f_rle f = false) ->
  Forall (fun b => b < 256) src -> N.of_nat (length src) < 268435456 ->
  exists bytes, aac_encode_r f src = AeOk bytes /\ aac_decode_r bytes (N.of_nat (length src)) = DOk src.
Proof.
  intros H Hb Hlen. apply aac_all_roundtrip_gen; try assumption.
  - intros _ _ _. exact aac_ent_ok_o1.
  - intros Hs Hr. destruct H as [H|[_ H]]; congruence.
  - destruct H as [H|[H _]]; [left|right]; exact H.
Qed.

Lemma aac_rle_ok_proved : aac_rle_ok.
Proof. intros o1 src Hne Hb Hl. exact (aac_rle_roundtrip o1 src Hne Hb Hl). Qed.

(* EVERY flag byte except EXT (bzip2): ORDER, STRIPE, NO_SIZE, CAT, RLE, PACK, reserved bit *)
Theorem aac_all_roundtrip f src :
  f_stripe f = true \/ f_n32 f = false ->
  Forall (fun b => b < 256) src -> N.of_nat (length src) < 268435456 ->
  exists bytes, aac_encode_r f src = AeOk bytes /\ aac_decode_r bytes (N.of_nat (length src)) = DOk src.
Proof.
  intros H Hb Hlen. apply aac_all_roundtrip_gen; try assumption.
  - intros _ _ _. exact aac_ent_ok_o1.
  - intros _ _. exact aac_rle_ok_proved.
Qed.
