(* CRAM 3.1 adaptive arithmetic coder: the round trip of NV.Cram.AacAll (every flag byte except EXT)
   for the CAPPED decoder of NV.Cram.AacCap: when the length of the data is at most the cap, the
   capped decoder answers Within (DOk src) -- it never says Capped on what the encoder writes. *)
From Coq Require Import List NArith ZArith Lia Bool PeanoNat Wf_nat.
From Coq Require Import ZifyBool ZifyNat ZifyN.
From NV Require Import Cram.Bytes Cram.Vlq Cram.IntProofs Cram.Rans4x8 Cram.Rans4x8Proofs
  Cram.Nx16Xform Cram.Nx16XformProofs Cram.Nx16O0 Cram.Nx16O0Total Cram.Nx16Full Cram.Nx16FullProofs
  Cram.Nx16Stripe Cram.Nx16StripeLists Cram.Nx16StripeProofs
  Cram.Aac Cram.AacModes Cram.AacRle Cram.AacModesProofs Cram.AacRange Cram.AacProofs Cram.AacModesRt
  Cram.AacRleRt Cram.AacStripeProofs Cram.AacAll
  Cram.Cap Cram.CapProofs Cram.Nx16Cap Cram.AacCap.
Import ListNotations.
Ltac Zify.zify_post_hook ::= Z.div_mod_to_equations.
Open Scope N_scope.
Arguments N.add : simpl never.
Arguments N.sub : simpl never.
Arguments N.mul : simpl never.
Arguments N.div : simpl never.
Arguments N.modulo : simpl never.
Arguments N.pow : simpl never.
Arguments N.ltb : simpl never.
Arguments N.leb : simpl never.
Arguments N.eqb : simpl never.

(* ---------- the RLE loop: clamping before the conversion is the same function ---------- *)

Lemma dec_rle_loop_c_eq : forall k o1 ms rs st prev bs,
  dec_rle_loop_c k o1 ms rs st prev bs = dec_rle_loop k o1 ms rs st prev bs.
Proof.
  induction k as [k IH] using lt_wf_ind. intros o1 ms rs st prev bs.
  destruct k as [|k']; [reflexivity|].
  cbn [dec_rle_loop_c dec_rle_loop].
  destruct (ctx_decode ms st (if o1 then prev else 0) bs) as [[[[ms' st1] sym] b1]| |]; try reflexivity.
  destruct (dec_run rs st1 b1 sym) as [[[[rs' st2] b2] len]| |]; try reflexivity.
  rewrite min_n_nat_eq. rewrite IH by lia. reflexivity.
Qed.

Lemma aac_rle_decode_c_eq o1 bs len : aac_rle_decode_c o1 bs len = aac_rle_decode o1 bs len.
Proof.
  unfold aac_rle_decode_c, aac_rle_decode. destruct bs as [|c r]; [reflexivity|].
  destruct (rc_dec_new r) as [[st r']|]; [|reflexivity]. apply dec_rle_loop_c_eq.
Qed.

(* ---------- unfolding equations ---------- *)

Lemma aac_decode_rfc_S cap fu fb r0 usize :
  aac_decode_rfc cap (S fu) (fb :: r0) usize =
  if f_stripe (flags_of_byte fb) then
    match (if f_nosize (flags_of_byte fb) then U7Ok usize r0 else read_uint7 r0) with
    | U7Ok size0 r1 => stripe_decode_c cap (aac_decode_rfc cap fu) r1 size0
    | _ => Within DErr
    end
  else aac_decode2_c cap (fb :: r0) usize.
Proof. reflexivity. Qed.

(* a NO_SIZE stream without PACK whose caller size is within the cap: the capped decoder is the
   uncapped one (the only size it converts is the caller's) *)
Lemma aac_decode2_c_nosize cap bs u :
  f_nosize (flags_of_byte (hd 0 bs)) = true -> f_pack (flags_of_byte (hd 0 bs)) = false ->
  N.of_nat u <= cap ->
  aac_decode2_c cap bs (N.of_nat u) = Within (aac_decode2 bs (N.of_nat u)).
Proof.
  intros Hn Hp Hu. destruct bs as [|fb r0]; [reflexivity|]. cbn [hd] in Hn, Hp.
  unfold aac_decode2_c, aac_decode2. rewrite Hn, Hp.
  destruct (f_stripe (flags_of_byte fb)); [reflexivity|].
  destruct (f_cat (flags_of_byte fb)).
  - rewrite split_off_n_eq. destruct (split_off r0 (N.to_nat (N.of_nat u))) as [[p r]|]; reflexivity.
  - destruct (f_n32 (flags_of_byte fb)); [reflexivity|].
    rewrite with_cap_nat by exact Hu. rewrite Nnat.Nat2N.id. rewrite aac_rle_decode_c_eq.
    destruct (if f_rle (flags_of_byte fb) then aac_rle_decode (f_order (flags_of_byte fb)) r0 u
              else if f_order (flags_of_byte fb) then aac_o1_decode r0 u else aac_o0_decode r0 u)
      as [d| |]; reflexivity.
Qed.

(* ---------- whole streams without STRIPE ---------- *)

Theorem aac_full2_roundtrip_c cap f src :
  f_stripe f = false -> f_n32 f = false ->
  Forall (fun b => b < 256) src -> N.of_nat (length src) < 4294967296 ->
  N.of_nat (length src) <= cap ->
  exists bytes, aac_encode2 f src = AeOk bytes /\
                aac_decode2_c cap bytes (N.of_nat (length src)) = Within (DOk src) /\
                f_stripe (flags_of_byte (hd 0 bytes)) = false /\ bytes <> [].
Proof.
  intros Hstripe Hext Hb Hlen Hcap. unfold aac_encode2. rewrite Hstripe.
  destruct (nx_pack_stage f src) as [[f1 s1] h1] eqn:E1.
  destruct (pack_stage_spec f src f1 s1 h1 E1 Hb Hlen)
    as [[Ho1 [_ [Hn1 [Hs1 [Hz1 Hc1]]]]] [Hr1 [Hb1 [Hl1 [pc [Hpc Hpd]]]]]].
  set (f2 := match s1 with
             | [] => {| f_order := f_order f1; f_res := f_res f1; f_n32 := f_n32 f1; f_stripe := f_stripe f1;
                        f_nosize := f_nosize f1; f_cat := true; f_rle := f_rle f1; f_pack := f_pack f1 |}
             | _ => f1
             end).
  assert (H2 : f_stripe f2 = false /\ f_nosize f2 = f_nosize f /\ f_pack f2 = f_pack f1 /\
               f_rle f2 = f_rle f /\ f_n32 f2 = false /\ f_order f2 = f_order f /\
               (f_cat f2 = false -> s1 <> [])).
  { unfold f2. destruct s1 as [|x r].
    - cbn [force_cat f_order f_res f_n32 f_stripe f_nosize f_cat f_rle f_pack state_count]. repeat split; try congruence; try discriminate.
    - repeat split; try congruence; try (intros _; discriminate). }
  destruct H2 as [S2 [N2 [P2 [R2 [X2 [O2 L2]]]]]]. clearbody f2.
  destruct (nx_flags_roundtrip f2) as [Hfb _].
  assert (Hhead : forall body,
    aac_decode2_c cap (byte_of_flags f2 :: (if f_nosize f then [] else write_uint7 (N.of_nat (length src)))
                 ++ h1 ++ body) (N.of_nat (length src)) =
    match (if f_cat f2 then
             Within
               match split_off_n body (N.of_nat (length s1)) with
               | None => DErr
               | Some (payload, _) => DOk payload
               end
           else
             with_cap cap (N.of_nat (length s1)) (fun n1 =>
               Within
                 match (if f_rle f2 then aac_rle_decode_c (f_order f2) body n1
                        else if f_order f2 then aac_o1_decode body n1
                        else aac_o0_decode body n1) with
                 | ROk d => DOk d
                 | RErr => DErr
                 | RPanic => DPanic
                 end)) with
    | Within (DOk d) =>
      match pc with
      | Some table => with_cap cap (N.of_nat (length src)) (fun n0 => Within (pack_decode table d n0))
      | None => Within (DOk d)
      end
    | e => e
    end).
  { intros body. cbn [aac_decode2_c]. rewrite Hfb.
    rewrite N2, S2, P2, X2.
    assert (Hsz : (if f_nosize f
                   then U7Ok (N.of_nat (length src))
                          ((if f_nosize f then [] else write_uint7 (N.of_nat (length src))) ++ h1 ++ body)
                   else read_uint7 ((if f_nosize f then [] else write_uint7 (N.of_nat (length src))) ++ h1 ++ body))
                  = U7Ok (N.of_nat (length src)) (h1 ++ body)).
    { destruct (f_nosize f); [reflexivity|]. apply uint7_roundtrip. lia. }
    rewrite Hsz. rewrite Hpc.
    match goal with |- match ?X with _ => _ end = _ => destruct X as [|[d| | |]] end; reflexivity. }
  assert (Hpk : forall d,
    match pc with
    | Some table => with_cap cap (N.of_nat (length src)) (fun n0 => Within (pack_decode table d n0))
    | None => Within (DOk d)
    end = Within match pc with Some table => pack_decode table d (length src) | None => DOk d end).
  { intros d. destruct pc as [table|]; [|reflexivity]. rewrite with_cap_nat by exact Hcap. reflexivity. }
  assert (Hcap1 : N.of_nat (length s1) <= cap) by lia.
  destruct (f_cat f2) eqn:Ecat.
  - eexists. split; [reflexivity|]. split; [|split; [cbn [hd]; rewrite Hfb; exact S2|discriminate]].
    rewrite Hhead. rewrite split_off_n_nat.
    rewrite <- (app_nil_r s1) at 1. rewrite split_off_app. rewrite Hpk, Hpd. reflexivity.
  - rewrite X2. specialize (L2 eq_refl).
    assert (Hl1' : N.of_nat (length s1) < 4294967296) by lia.
    assert (Hent : exists body,
               (if f_rle f2 then aac_rle_encode (f_order f2) s1
                else if f_order f2 then aac_o1_encode s1 else aac_o0_encode s1) = Some body /\
               (if f_rle f2 then aac_rle_decode (f_order f2) body (length s1)
                else if f_order f2 then aac_o1_decode body (length s1) else aac_o0_decode body (length s1))
               = ROk s1).
    { destruct (f_rle f2) eqn:Erle.
      - apply aac_rle_ok_proved; assumption.
      - destruct (f_order f2) eqn:Eord.
        + apply aac_ent_ok_o1; assumption.
        + apply aac_ent_ok_o0; assumption. }
    destruct Hent as [body [Henc Hdec]]. rewrite Henc. eexists. split; [reflexivity|].
    split; [|split; [cbn [hd]; rewrite Hfb; exact S2|discriminate]].
    rewrite Hhead. rewrite with_cap_nat by exact Hcap1. rewrite aac_rle_decode_c_eq.
    rewrite Hdec. rewrite Hpk, Hpd. reflexivity.
Qed.

(* ---------- STRIPE ---------- *)

(* the flag byte aac::encode(Flags::NO_SIZE, chunk) writes: NO_SIZE, no PACK *)
Lemma aac_nosize_chunk_flags c e : aac_encode1 nosize_flags c = AeOk e ->
  f_nosize (flags_of_byte (hd 0 e)) = true /\ f_pack (flags_of_byte (hd 0 e)) = false.
Proof.
  rewrite nosize_flags_eq. unfold aac_encode1, nx_pack_stage.
  cbn [f_stripe f_pack f_rle f_cat f_order f_n32 f_nosize].
  destruct c as [|x r]; cbn [f_stripe f_pack f_rle f_cat f_order f_n32 f_nosize orb].
  - intros H; injection H as H; subst e. vm_compute. split; reflexivity.
  - destruct (aac_o0_encode (x :: r)) as [body|] eqn:Eb; [|discriminate].
    intros H; injection H as H; subst e. vm_compute. split; reflexivity.
Qed.

Lemma aac_encode_chunks_spec_c cap : forall cs,
  Forall (fun c => Forall (fun b => b < 256) c /\ N.of_nat (length c) < 268435456 /\
                   N.of_nat (length c) <= cap) cs ->
  exists es, aac_encode_chunks cs = (AeOk [], es) /\ length es = length cs /\
             Forall (fun e => N.of_nat (length e) < 4294967296) es /\
             Forall2 (fun e c => aac_decode2_c cap e (N.of_nat (length c)) = Within (DOk c) /\
                                 f_stripe (flags_of_byte (hd 0 e)) = false /\ e <> []) es cs.
Proof.
  induction cs as [|c r IH]; intros Hc.
  - exists []. split; [reflexivity|]. split; [reflexivity|]. split; constructor.
  - inversion Hc as [|? ? [Hb [Hl Hcp]] Hr]; subst. destruct (IH Hr) as [es [He [Hlen [Hsz Hd]]]].
    destruct (aac_nosize_chunk c Hb Hl) as [e [Hen [Hel [Hrle Hde]]]].
    destruct (aac_nosize_chunk_flags c e Hen) as [Hns Hpk].
    exists (e :: es). split; [cbn [aac_encode_chunks]; rewrite Hen, He; reflexivity|].
    split; [cbn [length]; lia|]. split; [constructor; [lia|exact Hsz]|].
    constructor; [|exact Hd].
    destruct (aac_decode1_ok_nostripe e _ c Hde) as [fb [r0 [Heq Hs]]]. subst e.
    split; [|split; [exact Hs|discriminate]].
    rewrite aac_decode2_c_nosize by assumption.
    rewrite aac_decode2_eq1 by exact Hrle. rewrite Hde. reflexivity.
Qed.

Lemma aac_dec_chunks_spec_c cap fu : forall es cs rest,
  Forall2 (fun e c => aac_decode2_c cap e (N.of_nat (length c)) = Within (DOk c) /\
                      f_stripe (flags_of_byte (hd 0 e)) = false /\ e <> []) es cs ->
  dec_chunks_c (aac_decode_rfc cap (S fu)) (map (fun e => N.of_nat (length e)) es) (map (@length N) cs)
               (concat es ++ rest) = Within (DOk [], cs).
Proof.
  induction es as [|e r IH]; intros cs rest H; inversion H as [|? c ? cr [Hd [Hs Hne]] Hr]; subst; [reflexivity|].
  cbn [map concat dec_chunks_c]. rewrite split_off_n_nat. rewrite <- app_assoc. rewrite split_off_app.
  destruct e as [|fb r0]; [congruence|]. cbn [hd] in Hs.
  rewrite aac_decode_rfc_S, Hs, Hd. rewrite Nat.eqb_refl. rewrite (IH cr rest Hr). reflexivity.
Qed.

(* EVERY flag byte except EXT, every byte string shorter than 2^28 and within the cap *)
Theorem aac_all_roundtrip_c cap f src :
  f_stripe f = true \/ f_n32 f = false ->
  Forall (fun b => b < 256) src -> N.of_nat (length src) < 268435456 ->
  N.of_nat (length src) <= cap ->
  exists bytes, aac_encode_r f src = AeOk bytes /\
                aac_decode_rc cap bytes (N.of_nat (length src)) = Within (DOk src).
Proof.
  intros Hext Hb Hlen Hcap. unfold aac_encode_r. destruct (f_stripe f) eqn:Es.
  2:{ destruct Hext as [Hc|Hext]; [discriminate|].
      destruct (aac_full2_roundtrip_c cap f src Es Hext Hb ltac:(lia) Hcap) as [bytes [He [Hd [Hs Hne]]]].
      exists bytes. split; [exact He|]. unfold aac_decode_rc.
      destruct bytes as [|fb r0]; [congruence|]. cbn [hd] in Hs.
      rewrite aac_decode_rfc_S, Hs. exact Hd. }
  unfold aac_encode_s. rewrite Es.
  set (cs := stripe_split 4 src).
  pose proof (stripe_split_total 4 src ltac:(lia)) as Ht. fold cs in Ht.
  assert (Hcs : Forall (fun c => Forall (fun b => b < 256) c /\ N.of_nat (length c) < 268435456 /\
                                 N.of_nat (length c) <= cap) cs).
  { apply Forall_forall. intros c Hc.
    assert (Hle : (length c <= length (concat cs))%nat).
    { clear -Hc. induction cs as [|d r IH]; [destruct Hc|]. cbn [concat]. rewrite app_length.
      destruct Hc as [->|Hc]; [lia|]. specialize (IH Hc). lia. }
    split; [|lia].
    pose proof (stripe_split_bytes 4 src Hb) as H. rewrite Forall_forall in H. apply H. exact Hc. }
  destruct (aac_encode_chunks_spec_c cap cs Hcs) as [es [He [Hel [Hesz Hd]]]].
  rewrite He. eexists. split; [reflexivity|].
  assert (Hn4 : length es = 4%nat) by (rewrite Hel; unfold cs; apply stripe_split_length).
  unfold aac_decode_rc. rewrite aac_decode_rfc_S. destruct (nx_flags_roundtrip f) as [Hfb _]. rewrite Hfb, Es.
  assert (Hsz : (if f_nosize f
                 then U7Ok (N.of_nat (length src))
                        ((if f_nosize f then [] else write_uint7 (N.of_nat (length src))) ++
                         4 :: flat_map (fun e => write_uint7 (N.of_nat (length e))) es ++ concat es)
                 else read_uint7 ((if f_nosize f then [] else write_uint7 (N.of_nat (length src))) ++
                         4 :: flat_map (fun e => write_uint7 (N.of_nat (length e))) es ++ concat es))
                = U7Ok (N.of_nat (length src))
                       (4 :: flat_map (fun e => write_uint7 (N.of_nat (length e))) es ++ concat es)).
  { destruct (f_nosize f); [reflexivity|]. apply uint7_roundtrip. lia. }
  rewrite Hsz. unfold stripe_decode_c. change (4 =? 0) with false. cbv iota.
  change (N.to_nat 4) with 4%nat. rewrite <- Hn4.
  rewrite rd_sizes_write by exact Hesz. rewrite Hn4.
  rewrite with_cap_nat by exact Hcap.
  rewrite <- (stripe_split_sizes 4 src) by lia. fold cs.
  rewrite <- (app_nil_r (concat es)).
  cbn [length].
  match goal with |- context [dec_chunks_c (aac_decode_rfc cap (S ?fu))] =>
    rewrite (aac_dec_chunks_spec_c cap fu es cs [] Hd) end.
  f_equal. f_equal. apply interleave_stripe_split; [lia|]. lia.
Qed.

Print Assumptions aac_all_roundtrip_c.
