(* rANS Nx16, ORDER-1 ENTROPY CODER as noodles wrote it, encoder AND noodles' own decoder
   (noodles-cram src/codecs/rans_nx16/encode/order_1.rs, decode/order_1.rs):

     build_alphabet          NUL and every symbol of the input
     build_frequencies       the N chunk starts counted under the context NUL, then every adjacent
                             pair of the WHOLE input (src.windows(2))
     normalize_frequencies   order_0::normalize_frequencies (to 4096) on each of the 256 rows
     write_context           0xC0 (12 bits, not compressed), write_alphabet, then for every context of
                             the alphabet the frequencies of the alphabet's symbols as uint7, a zero
                             being followed by the number of further zeros
     split_chunks / encode   N chunks of len/N bytes, the remainder goes to the last state (its first
                             context is the last byte of the last chunk); remainder first (reverse),
                             then the positions back to front with the states used last to first,
                             then the chunk starts under NUL; states, reversed buffer
     read_frequencies        bits = n >> 4; the table verbatim or as an order-0 (4 states) stream;
                             each row scaled by order_0::normalize_frequencies(bits)
     decode                  position-major over the N chunks, dst[j * q + i]; remainder by the
                             last state

   The position-major traversal is modelled on ROWS: row i = the i-th byte of every chunk
   ([rows_of] / [cols_of] are the two directions of that transposition).  An order-1 table is a
   [list (list N)] of 256 rows of 256 entries. *)
From Coq Require Import List NArith Bool PeanoNat.
From NV Require Import Cram.Bytes Cram.Vlq Cram.Rans4x8 Cram.Rans4x8O1 Cram.Nx16O0.
Import ListNotations.
Open Scope N_scope.

(* ------------------------------------------------------------------------------------------ *)
(* chunks and rows                                                                              *)

(* src[..q*n].chunks(q) and what is left *)
Fixpoint split_chunks (n q : nat) (src : list N) : list (list N) * list N :=
  match n with
  | O => ([], src)
  | S n' => let '(cs, rem) := split_chunks n' q (skipn q src) in (firstn q src :: cs, rem)
  end.

(* row i = [chunk[i] for chunk in chunks], i < q *)
Fixpoint rows_of (q : nat) (cs : list (list N)) : list (list N) :=
  match q with
  | O => []
  | S q' => map (hd 0) cs :: rows_of q' (map (@tl N) cs)
  end.

Fixpoint zip_cons (r : list N) (cs : list (list N)) : list (list N) :=
  match r, cs with
  | x :: r', c :: cs' => (x :: c) :: zip_cons r' cs'
  | _, _ => []
  end.

(* the chunks back from the rows: dst[j * q + i] = rows[i][j] *)
Fixpoint cols_of (n : nat) (rows : list (list N)) : list (list N) :=
  match rows with
  | [] => repeat [] n
  | r :: rest => zip_cons r (cols_of n rest)
  end.

(* ------------------------------------------------------------------------------------------ *)
(* encoder                                                                                      *)

(* build_alphabet *)
Definition alphabet1 (src : list N) : list bool :=
  fold_left (fun A b => updb A (N.to_nat b) true) src (updb falses256 0 true).

(* build_frequencies: the chunk starts (= the first row) under NUL, then src.windows(2) *)
Definition raw_freqs1 (row0 src : list N) : list (list N) :=
  raw_windows src (fold_left (fun T x => bump T 0 x) row0 zeros_tab).

Fixpoint nx_normalize_rows (T : list (list N)) : option (list (list N)) :=
  match T with
  | [] => Some []
  | r :: t =>
    match nx_normalize r with
    | None => None
    | Some a => match nx_normalize_rows t with
                | None => None
                | Some b => Some (a :: b)
                end
    end
  end.

(* alphabet.iter().zip(fs).filter(|(b, _)| **b): the entries of a row for the alphabet's symbols *)
Fixpoint select (A : list bool) (fs : list N) : list N :=
  match A, fs with
  | a :: A', f :: fs' => if a then f :: select A' fs' else select A' fs'
  | _, _ => []
  end.

Fixpoint zero_run (l : list N) : nat :=
  match l with
  | [] => O
  | g :: r => if g =? 0 then S (zero_run r) else O
  end.

(* one context: uint7 f; after a zero the count of the zeros that follow, which are skipped *)
Fixpoint wr_row (fs : list N) (k : nat) : list N :=
  match fs with
  | [] => []
  | f :: r =>
    match k with
    | S k' => wr_row r k'
    | O =>
      if f =? 0 then
        let len := zero_run r in
        write_uint7 0 ++ N.of_nat len :: wr_row r len
      else write_uint7 f ++ wr_row r 0
    end
  end.

(* write_frequencies: the rows of the alphabet's contexts *)
Fixpoint wr_rows (A Asel : list bool) (F1 : list (list N)) : list N :=
  match Asel, F1 with
  | a :: A', fs :: F' => if a then wr_row (select A fs) 0 ++ wr_rows A A' F' else wr_rows A A' F'
  | _, _ => []
  end.

(* state_renormalize + state_step for the symbol [x] in the context [ctx] *)
Definition enc16_put (F1 C1 : list (list N)) (ctx x s : N) (stack : list N) : option (N * list N) :=
  let f := nth (N.to_nat x) (row F1 ctx) 0 in
  match enc_renorm16 3 s f stack with
  | None => None
  | Some (s1, stack1) => Some (enc_step s1 f (nth (N.to_nat x) (row C1 ctx) 0), stack1)
  end.

(* `for syms in remainder.windows(2).rev()` with the last state, remainder = ctx :: l *)
Fixpoint enc16_tail (F1 C1 : list (list N)) (ctx : N) (l : list N) : option (N * list N) :=
  match l with
  | [] => Some (NX_LOWER, [])
  | x :: r =>
    match enc16_tail F1 C1 x r with
    | None => None
    | Some (s, stack) => enc16_put F1 C1 ctx x s stack
    end
  end.

(* one position of all chunks: `for (state, chunk) in states.iter_mut().rev().zip(chunks.rev())`,
   the last state first -- the innermost recursion.  K = the contexts, S = the states. *)
Fixpoint enc16_row (F1 C1 : list (list N)) (K xs St : list N) (stack : list N)
  : option (list N * list N) :=
  match K, xs, St with
  | k :: K', x :: xs', s :: St' =>
    match enc16_row F1 C1 K' xs' St' stack with
    | None => None
    | Some (St'', st) =>
      match enc16_put F1 C1 k x s st with
      | None => None
      | Some (s', st') => Some (s' :: St'', st')
      end
    end
  | _, _, _ => Some ([], stack)
  end.

(* all positions, the last one first (innermost), then the remainder before everything else;
   [K] = the contexts of the first row in [rows] *)
Fixpoint enc16_rows (n : nat) (F1 C1 : list (list N)) (K : list N) (rows : list (list N)) (rem : list N)
  : option (list N * list N) :=
  match rows with
  | [] =>
    match enc16_tail F1 C1 (last K 0) rem with
    | None => None
    | Some (s, stack) => Some (repeat NX_LOWER (n - 1) ++ [s], stack)
    end
  | r :: rest =>
    match enc16_rows n F1 C1 r rest rem with
    | None => None
    | Some (St, stack) => enc16_row F1 C1 K r St stack
    end
  end.

(* build_context + write_context + encode of order_1; the caller guarantees n <= length src *)
Definition nx_o1_encode (n : nat) (src : list N) : enc_result :=
  let q := Nat.div (length src) n in
  if (q =? 0)%nat then EncPanic           (* chunks_exact(0) *)
  else
    let '(cs, rem) := split_chunks n q src in
    let rows := rows_of q cs in
    let A := alphabet1 src in
    match nx_normalize_rows (raw_freqs1 (hd [] rows) src) with
    | None => EncPanic
    | Some F1 =>
      let C1 := map cumulative F1 in
      match enc16_rows n F1 C1 (repeat 0 n) rows rem with
      | None => EncDiverges
      | Some (st, stack) =>
        EncOk (192 :: write_alphabet A ++ wr_rows A A F1 ++ flat_map le32_bytes st ++ stack)
      end
    end.

(* ------------------------------------------------------------------------------------------ *)
(* noodles' decoder                                                                             *)

(* one context of read_frequencies_inner: the alphabet's symbols get a uint7; after a zero a
   byte tells how many further symbols of the alphabet are skipped (they stay 0).
   [k] = symbols of the alphabet still to skip *)
Fixpoint rd_row (A : list bool) (bs : list N) (k : nat) : option (list N * list N) :=
  match A with
  | [] => Some ([], bs)
  | a :: r =>
    if a then
      match k with
      | S k' =>
        match rd_row r bs k' with
        | Some (fs, b) => Some (0 :: fs, b)
        | None => None
        end
      | O =>
        match read_uint7 bs with
        | U7Ok f b1 =>
          if f =? 0 then
            match b1 with
            | [] => None
            | n :: b2 =>
              match rd_row r b2 (N.to_nat n) with
              | Some (fs, b) => Some (0 :: fs, b)
              | None => None
              end
            end
          else
            match rd_row r b1 0 with
            | Some (fs, b) => Some (f :: fs, b)
            | None => None
            end
        | _ => None
        end
      end
    else
      match rd_row r bs k with
      | Some (fs, b) => Some (0 :: fs, b)
      | None => None
      end
  end.

(* the rows of the alphabet's contexts, each scaled to 2^bits; the other rows stay 0 *)
Fixpoint rd_rows (tot : N) (A Asel : list bool) (bs : list N) : option (list (list N) * list N) :=
  match Asel with
  | [] => Some ([], bs)
  | a :: r =>
    if a then
      match rd_row A bs 0 with
      | None => None
      | Some (fs, b1) =>
        match dec_normalize tot fs with
        | None => None
        | Some fs' =>
          match rd_rows tot A r b1 with
          | Some (F, b2) => Some (fs' :: F, b2)
          | None => None
          end
        end
      end
    else
      match rd_rows tot A r bs with
      | Some (F, b2) => Some (zeros256 :: F, b2)
      | None => None
      end
  end.

Definition rd_freqs1_inner (tot : N) (bs : list N) : option (list (list N) * list N) :=
  match read_alphabet bs with
  | None => None
  | Some (A, b1) => rd_rows tot A A b1
  end.

Definition split_off1 (bs : list N) (n : nat) : option (list N * list N) :=
  if (length bs <? n)%nat then None else Some (firstn n bs, skipn n bs).

(* read_frequencies: (tot = 1 << bits, table, rest) *)
Definition read_freqs1 (bs : list N) : res (N * list (list N) * list N) :=
  match bs with
  | [] => RErr
  | n :: b0 =>
    let tot := 2 ^ (n / 16) in
    if N.odd n then
      match read_uint7 b0 with
      | U7Ok usz b1 =>
        match read_uint7 b1 with
        | U7Ok csz b2 =>
          match split_off1 b2 (N.to_nat csz) with
          | None => RErr
          | Some (buf, b3) =>
            match nxd0_decode buf (N.to_nat usz) 4 with
            | ROk tbl =>
              match rd_freqs1_inner tot tbl with
              | Some (F1, _) => ROk (tot, F1, b3)
              | None => RErr
              end
            | RErr => RErr
            | RPanic => RPanic
            end
          end
        | _ => RErr
        end
      | _ => RErr
      end
    else
      match rd_freqs1_inner tot b0 with
      | Some (F1, b1) => ROk (tot, F1, b1)
      | None => RErr
      end
  end.

(* one position of all chunks: state j decodes in the context prev_syms[j] *)
Fixpoint dec16_row (tot : N) (F1 C1 : list (list N)) (K St : list N) (bs : list N)
  : res (list N * list N * list N) :=
  match K, St with
  | k :: K', s :: St' =>
    match dec_one tot (row F1 k) (row C1 k) s bs with
    | ROk (sym, s2, b1) =>
      match dec16_row tot F1 C1 K' St' b1 with
      | ROk (syms, St'', b2) => ROk (sym :: syms, s2 :: St'', b2)
      | RErr => RErr
      | RPanic => RPanic
      end
    | RErr => RErr
    | RPanic => RPanic
    end
  | _, _ => ROk ([], [], bs)
  end.

(* `for i in 0..chunk_size`: (rows, final contexts, final states, rest) *)
Fixpoint dec16_rows (q : nat) (tot : N) (F1 C1 : list (list N)) (K St : list N) (bs : list N)
  : res (list (list N) * list N * list N * list N) :=
  match q with
  | O => ROk ([], K, St, bs)
  | S q' =>
    match dec16_row tot F1 C1 K St bs with
    | ROk (syms, St', b1) =>
      match dec16_rows q' tot F1 C1 syms St' b1 with
      | ROk (rows, K', St'', b2) => ROk (syms :: rows, K', St'', b2)
      | RErr => RErr
      | RPanic => RPanic
      end
    | RErr => RErr
    | RPanic => RPanic
    end
  end.

(* the remainder, by the last state *)
Fixpoint dec16_tail (m : nat) (tot : N) (F1 C1 : list (list N)) (k s : N) (bs : list N)
  : res (list N) :=
  match m with
  | O => ROk []
  | S m' =>
    match dec_one tot (row F1 k) (row C1 k) s bs with
    | ROk (sym, s2, b1) =>
      match dec16_tail m' tot F1 C1 sym s2 b1 with
      | ROk out => ROk (sym :: out)
      | e => e
      end
    | RErr => RErr
    | RPanic => RPanic
    end
  end.

(* order_1::decode into a buffer of [len] bytes with [n] states (n = 4 | 32; n = 0 would divide by
   zero) *)
Definition nxd1_decode (bs : list N) (len : nat) (n : nat) : res (list N) :=
  match read_freqs1 bs with
  | RErr => RErr
  | RPanic => RPanic
  | ROk (tot, F1, b1) =>
    let C1 := map cumulative F1 in
    match rd_states n b1 with
    | None => RErr
    | Some (st, b2) =>
      if (n =? 0)%nat then RPanic
      else
        let q := Nat.div len n in
        match dec16_rows q tot F1 C1 (repeat 0 n) st b2 with
        | ROk (rows, K, St, b3) =>
          match dec16_tail (len - q * n) tot F1 C1 (last K 0) (last St 0) b3 with
          | ROk out => ROk (concat (cols_of n rows) ++ out)
          | e => e
          end
        | RErr => RErr
        | RPanic => RPanic
        end
    end
  end.
