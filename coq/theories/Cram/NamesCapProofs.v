(* The name tokenizer under hostile sizes: the capped decoder of NV.Cram.NamesCap (the entropy
   decoders of the token byte streams replaced by the capped ones) refines Names.names_decode.

     dec_streams_c_refines          decode_token_byte_streams, every fuel
     names_decode_xc_refines, names_decode_c_refines   the whole decoder
     names_decode_c_never_panics    no panic on any byte string, whatever the cap
     names_roundtrip_c_refines      on the encoder's stream: Capped or the source names          *)
From Coq Require Import List NArith Lia Bool PeanoNat.
From NV Require Import Cram.Bytes Cram.Vlq Cram.Nx16Xform Cram.Nx16Full Cram.Nx16Stripe Cram.AacRle
  Cram.Cap Cram.CapProofs Cram.Nx16Cap Cram.Nx16CapProofs Cram.AacCap Cram.AacCapProofs
  Cram.NamesTotal Cram.NamesRt Cram.NamesRt2 Cram.NamesCap Cram.Names.
Import ListNotations.
Open Scope N_scope.

(* a capped computation followed by a capped continuation *)
Lemma nbind_c_refines {A B : Type} (gc : capped (nres A)) (g : nres A)
    (kc : A -> capped (nres B)) (k : A -> nres B) :
  refines gc g -> (forall a, refines (kc a) (k a)) ->
  refines (match gc with Capped => Capped | Within g' => nbind_c g' kc end) (nbind g k).
Proof.
  intros [E|E] Hk; rewrite E; [apply refines_capped|].
  destruct g as [a| | | |]; cbn [nbind_c nbind]; [apply Hk| | | |]; apply refines_within.
Qed.

(* a capped computation followed by an uncapped continuation *)
Lemma within_nbind_refines {A B : Type} (gc : capped (nres A)) (g : nres A) (k : A -> nres B) :
  refines gc g ->
  refines (match gc with Capped => Capped | Within g' => Within (nbind g' k) end) (nbind g k).
Proof. intros [E|E]; rewrite E; [apply refines_capped|apply refines_within]. Qed.

(* the entropy decoder of one token byte stream *)
Lemma entropy_c_refines cap (aac : bool) cdata :
  refines (if aac then aac_decode_rc cap cdata 0 else nx_decode_sc cap cdata 0)
          (if aac then aac_decode_r cdata 0 else nx_decode_s cdata 0).
Proof. destruct aac; [apply aac_decode_rc_refines|apply nx_decode_sc_refines]. Qed.

(* decode_token_byte_streams *)
Lemma dec_streams_c_refines cap : forall fuel aac src brev,
  refines (dec_streams_c cap fuel aac src brev) (dec_streams fuel aac src brev).
Proof.
  induction fuel as [|fu IH]; intros aac src brev; [apply refines_within|].
  cbn [dec_streams_c dec_streams].
  destruct src as [|ttype s1]; [apply refines_within|].
  destruct (type_of_byte ttype) as [ty|]; [|apply refines_within].
  set (b1 := if N.testbit ttype 7 then _ else brev).
  apply nbind_c_refines.
  - destruct (N.testbit ttype 6); [apply refines_within|].
    destruct (read_uint7 s1) as [size s2| |]; try apply refines_within.
    destruct (N.of_nat (length s2) <? size); [apply refines_within|].
    destruct (split_off s2 (N.to_nat size)) as [[cdata s3]|]; [|apply refines_within].
    destruct (entropy_c_refines cap aac cdata) as [E|E]; rewrite E;
      [apply refines_capped|apply refines_within].
  - intros [[buf himp] s'].
    destruct b1 as [|last others]; [apply refines_within|].
    destruct (r_set last ty buf) as [last'|]; [|apply refines_within].
    apply IH.
Qed.

Lemma names_decode_xc_refines cap bs : refines (names_decode_xc cap bs) (names_decode_x bs).
Proof.
  unfold names_decode_xc, names_decode_x.
  destruct (take_le32 bs) as [[w0 s1]|]; [|apply refines_within].
  destruct (take_le32 s1) as [[name_count s2]|]; [|apply refines_within].
  destruct s2 as [|meth s3]; [apply refines_within|].
  apply within_nbind_refines. apply dec_streams_c_refines.
Qed.

(* name_tokenizer::decode: Capped, or exactly the answer of names_decode *)
Theorem names_decode_c_refines cap bs : refines (names_decode_c cap bs) (names_decode bs).
Proof.
  unfold names_decode_c, names_decode.
  destruct (names_decode_xc_refines cap bs) as [E|E]; rewrite E; [apply refines_capped|].
  destruct (names_decode_x bs) as [b| | | |]; apply refines_within.
Qed.

(* whatever the cap, the capped model never answers "panic" *)
Theorem names_decode_c_never_panics cap bs :
  Forall (fun b => b < 256) bs -> names_decode_c cap bs <> Within NmPanic.
Proof.
  intros HP E. destruct (names_decode_c_refines cap bs) as [R|R]; rewrite R in E.
  - discriminate E.
  - assert (E' : names_decode bs = NmPanic) by congruence.
    exact (names_decode_never_panics bs HP E').
Qed.

(* on the encoder's stream the capped decoder answers Capped or the source names *)
Theorem names_roundtrip_c_refines cap src :
  names_wf src ->
  exists bytes, names_encode src = NmOk bytes /\ refines (names_decode_c cap bytes) (NmOk src).
Proof.
  intros Hwf. destruct (names_roundtrip src Hwf) as (bytes & Henc & Hdec).
  exists bytes. split; [exact Henc|].
  rewrite <- Hdec. apply names_decode_c_refines.
Qed.

Print Assumptions names_decode_c_refines.
Print Assumptions names_decode_c_never_panics.
Print Assumptions names_roundtrip_c_refines.
