(* CRAM 3.1 name tokenizer, the decoder of NV.Cram.Names with the entropy decoders of its token byte
   streams replaced by the capped ones of NV.Cram.Nx16Cap / NV.Cram.AacCap (see NV.Cram.Cap).  The
   tokenizer's own size fields need no cap: the compressed size of a stream is compared with the
   remaining input before it is converted (already so in NV.Cram.Names), a duplicate position is a
   byte, a distance is checked against the number of names decoded so far.
   NV.Cram.NamesCapProofs: names_decode_c equals names_decode unless it says Capped. *)
From Coq Require Import List NArith Bool PeanoNat.
From NV Require Import Cram.Bytes Cram.Vlq Cram.Nx16Xform Cram.Nx16Stripe Cram.AacRle Cram.Cap
  Cram.Nx16Cap Cram.AacCap Cram.Names.
Import ListNotations.
Open Scope N_scope.

Definition nbind_c {A B : Type} (r : nres A) (f : A -> capped (nres B)) : capped (nres B) :=
  match r with
  | ROk a => f a
  | RErr => Within RErr
  | RPanic => Within RPanic
  | RUnsup => Within RUnsup
  | RDiverges => Within RDiverges
  end.

(* decode_token_byte_streams *)
Fixpoint dec_streams_c (cap : N) (fuel : nat) (aac : bool) (src : list N) (brev : list treader)
    : capped (nres (list treader)) :=
  match fuel with
  | O => Within RErr
  | S f =>
    match src with
    | [] => Within (ROk (rev_append brev []))
    | ttype :: s1 =>
      let tok_new := N.testbit ttype 7 in
      let tok_dup := N.testbit ttype 6 in
      match type_of_byte ttype with
      | None => Within RErr
      | Some ty =>
        let b1 :=
          if tok_new then
            (if ty =? 0 then r_empty
             else mkR [ty] true [] [] [] [] [] [] [] [] []) :: brev
          else brev in
        let got : capped (nres (list N * bool * list N)) :=
          if tok_dup then
            Within
              match s1 with
              | dup_pos :: dup_ty_byte :: s2 =>
                match type_of_byte dup_ty_byte with
                | None => RErr
                | Some dup_type =>
                  let len := N.of_nat (length b1) in
                  if len <=? dup_pos then RErr
                  else
                    match nth_error b1 (N.to_nat (len - 1 - dup_pos)) with
                    | None => RErr
                    | Some reader =>
                      match r_get reader dup_type with
                      | None => RErr
                      | Some buf => ROk (buf, (dup_type =? 0) && r_imp reader, s2)
                      end
                    end
                end
              | _ => RErr
              end
          else
            match read_uint7 s1 with
            | U7Ok size s2 =>
              if N.of_nat (length s2) <? size then Within RErr
              else
                match split_off s2 (N.to_nat size) with
                | None => Within RErr
                | Some (cdata, s3) =>
                  match (if aac then aac_decode_rc cap cdata 0 else nx_decode_sc cap cdata 0) with
                  | Capped => Capped
                  | Within d => Within (nbind (of_dres d) (fun buf => ROk (buf, false, s3)))
                  end
                end
            | _ => Within RErr
            end in
        match got with
        | Capped => Capped
        | Within g =>
          nbind_c g (fun '(buf, himp, s') =>
            match b1 with
            | [] => Within RErr
            | last :: others =>
              match r_set last ty buf with
              | None => Within RErr
              | Some last' =>
                let last'' := if ty =? 0 then r_with_imp last' himp else last' in
                dec_streams_c cap f aac s' (last'' :: others)
              end
            end)
        end
      end
    end
  end.

Definition names_decode_xc (cap : N) (bs : list N) : capped (nres (list N)) :=
  match take_le32 bs with
  | None => Within RErr
  | Some (_, s1) =>
    match take_le32 s1 with
    | None => Within RErr
    | Some (name_count, s2) =>
      match s2 with
      | [] => Within RErr
      | meth :: s3 =>
        match dec_streams_c cap (S (length s3)) (negb (meth =? 0)) s3 [] with
        | Capped => Capped
        | Within r =>
          Within (nbind r (fun b =>
            let fuel := match b with
                        | r0 :: _ => S (length (r_type r0))
                        | [] => 1%nat
                        end in
            match names_loop fuel name_count 0 b [] with
            | Some out => ROk out
            | None => RErr
            end))
        end
      end
    end
  end.

(* name_tokenizer::decode *)
Definition names_decode_c (cap : N) (bs : list N) : capped nm_result :=
  match names_decode_xc cap bs with
  | Capped => Capped
  | Within (ROk b) => Within (NmOk b)
  | Within RErr => Within NmErr
  | Within RPanic => Within NmPanic
  | Within RUnsup => Within NmErr
  | Within RDiverges => Within NmErr
  end.

Definition names_decode_capped (bs : list N) : capped nm_result := names_decode_c model_cap bs.

(* true: an arithmetic-coder stream outside the entropy-decoder model (EXT) *)
Definition names_decode_unsupported_c (cap : N) (bs : list N) : bool :=
  match names_decode_xc cap bs with
  | Within RUnsup => true
  | _ => false
  end.
