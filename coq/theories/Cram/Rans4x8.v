(* rANS 4x8 (CRAM 3.0 codec, CRAMcodecs section 2).

   Part 1 -- faithful model of the noodles ENCODER, order 0
     (noodles-cram src/codecs/rans_4x8/encode.rs, encode/order_0.rs, encode/header.rs):
     build_raw_frequencies, describe_frequencies, normalize_frequencies (u64 product, correction
     spread over the table), build_cumulative_frequencies, write_frequencies (run-length coding
     of consecutive symbols), state_renormalize, state_step,
     the 4-way interleave, reverse emission, header.
   Part 2 -- an INDEPENDENT DECODER written from the specification's pseudo-code
     (ReadFrequencies0/1, RansDecode0/1, RansGetCumulativeFreq, RansGetSymbolFromFreq,
     RansAdvanceStep, RansRenorm), orders 0 and 1.  It shares no code with part 1 except the
     ITF8 reader and byte helpers.

   Bytes, symbols, frequencies and states are [N]; tables are [list N] of length 256. *)
From Coq Require Import List NArith Bool.
From NV Require Import Cram.Bytes Cram.Itf8.
Import ListNotations.
Open Scope N_scope.

Definition LOWER_BOUND : N := 8388608.          (* L = 1 << 23 *)
Definition TWO32 : N := 4294967296.

Fixpoint sumN (l : list N) : N := match l with [] => 0 | x :: r => x + sumN r end.

Fixpoint upd (l : list N) (i : nat) (v : N) : list N :=
  match l, i with
  | [], _ => []
  | _ :: r, O => v :: r
  | x :: r, S i' => x :: upd r i' v
  end.

Definition zeros256 : list N := repeat 0 256.

(* ------------------------------------------------------------------------------------------ *)
(* Part 1: the encoder as noodles wrote it                                                      *)

(* build_raw_frequencies: frequencies[b] += 1 *)
Fixpoint raw_frequencies (src : list N) : list N :=
  match src with
  | [] => zeros256
  | b :: r => let t := raw_frequencies r in upd t (N.to_nat b) (nth (N.to_nat b) t 0 + 1)
  end.

(* describe_frequencies: `if f >= max { max = f; max_index = i }` (ties go to the LAST index), sum *)
Fixpoint describe_go (l : list N) (i : nat) (mx : N) (mi : nat) (sum : N) : nat * N :=
  match l with
  | [] => (mi, sum)
  | f :: r => if mx <=? f then describe_go r (S i) f i (sum + f)
              else describe_go r (S i) mx mi (sum + f)
  end.
Definition describe_frequencies (raw : list N) : nat * N := describe_go raw 0 0 0 0.

(* the correction when the scaled frequencies sum to more than 4095: the excess is taken from
   the most frequent symbol first and then from the symbols in order, never lowering a non-zero
   frequency below 1 (`excess.min(g.saturating_sub(1))`; [g - 1] on N saturates at 0) *)
Fixpoint take_excess (l : list N) (e : N) : list N * N :=
  match l with
  | [] => ([], e)
  | g :: r =>
    let n := N.min e (g - 1) in
    let '(r', e') := take_excess r (e - n) in
    ((g - n) :: r', e')
  end.

(* normalize_frequencies.  The product f * 4095 is computed in u64.  None = panic of an
   overflow-checked build when `sum += f` leaves u32 (an input of 2^32 bytes or more, which the
   header cannot describe either). *)
Definition normalize_frequencies (raw : list N) : option (list N) :=
  let '(mi, sum) := describe_frequencies raw in
  if TWO32 <=? sum then None
  else if sum =? 0 then Some zeros256
  else
    let nf := map (fun f => if f =? 0 then 0 else N.max ((f * 4095) / sum) 1) raw in
    let nsum := sumN nf in
    if nsum <? 4095 then Some (upd nf mi (nth mi nf 0 + (4095 - nsum)))
    else if 4095 <? nsum then
      let e := nsum - 4095 in
      let n0 := N.min e (nth mi nf 0 - 1) in
      Some (fst (take_excess (upd nf mi (nth mi nf 0 - n0)) (e - n0)))
    else Some nf.

(* build_cumulative_frequencies: C[0] = 0, C[i+1] = C[i] + F[i]  (256 entries) *)
Fixpoint cumulative_go (fs : list N) (acc : N) : list N :=
  match fs with
  | [] => []
  | f :: r => acc :: cumulative_go r (acc + f)
  end.
Definition cumulative (fs : list N) : list N := cumulative_go fs 0.

(* `frequencies[i..].iter().position(|&g| g == 0).unwrap_or(frequencies.len() - i)` *)
Fixpoint run_len (l : list N) : nat :=
  match l with
  | [] => O
  | g :: r => if g =? 0 then O else S (run_len r)
  end.

Definition itf8_of_freq (f : N) : list N := itf8_enc f.   (* write_itf8(i32::from(u16)) *)

(* write_frequencies.  [l] = the not yet visited (symbol, frequency) pairs, [prevf] = the
   frequency of the previous symbol (`frequencies[sym - 1]`), [k] = how many entries the inner
   `iter.by_ref().take(len)` loop still consumes. *)
Fixpoint write_frequencies_go (l : list (N * N)) (prevf : N) (k : nat) : list N :=
  match l with
  | [] => [0]
  | (sym, f) :: r =>
    match k with
    | S k' => itf8_of_freq f ++ write_frequencies_go r f k'
    | O =>
      if f =? 0 then write_frequencies_go r f 0
      else if (0 <? sym) && (0 <? prevf) then
        let len := run_len (map snd r) in
        sym :: N.of_nat len :: itf8_of_freq f ++ write_frequencies_go r f len
      else sym :: itf8_of_freq f ++ write_frequencies_go r f 0
    end
  end.

Fixpoint index_from (i : N) (l : list N) : list (N * N) :=
  match l with [] => [] | x :: r => (i, x) :: index_from (i + 1) r end.

Definition write_frequencies (fs : list N) : list N := write_frequencies_go (index_from 0 fs) 0 0.

(* state_renormalize: while s >= (L >> 4) * f { emit s & 0xff; s >>= 8 }.
   The emitted bytes are pushed on [stack] (the encoder reverses its buffer at the end, so the
   decoder reads the most recently emitted byte first).  None = the loop never ends (f = 0). *)
Fixpoint enc_renorm (fuel : nat) (s f : N) (stack : list N) : option (N * list N) :=
  match fuel with
  | O => None
  | S fu => if 524288 * f <=? s then enc_renorm fu (s / 256) f ((s mod 256) :: stack)
            else Some (s, stack)
  end.

(* state_step: (s / f << 12) + s % f + g *)
Definition enc_step (s f g : N) : N := (s / f) * 4096 + s mod f + g.

Definition rotr (st : list N) : list N :=       (* [a;b;c;d] -> [d;a;b;c] *)
  match rev st with [] => [] | x :: r => x :: rev r end.

(* the symbol loop `for (i, &sym) in src.iter().enumerate().rev()` with states[i % 4]:
   result = (states in the order used from the first symbol of [src] on, byte stack). *)
Fixpoint enc_symbols (F C : list N) (src : list N) : option (list N * list N) :=
  match src with
  | [] => Some ([LOWER_BOUND; LOWER_BOUND; LOWER_BOUND; LOWER_BOUND], [])
  | x :: r =>
    match enc_symbols F C r with
    | None => None
    | Some (st, stack) =>
      match rotr st with
      | [] => None
      | s :: others =>
        let f := nth (N.to_nat x) F 0 in
        match enc_renorm 5 s f stack with
        | None => None
        | Some (s1, stack1) => Some (enc_step s1 f (nth (N.to_nat x) C 0) :: others, stack1)
        end
      end
    end
  end.

(* The states are written in array order states[0..4]; [enc_symbols] returns them rotated so that
   the state of symbol 0 comes first, which is array order. *)

Inductive enc_result :=
| EncOk (bytes : list N)
| EncInvalidInput     (* io::ErrorKind::InvalidInput: order 1 refuses inputs shorter than 4 bytes *)
| EncPanic            (* arithmetic overflow panic (overflow-checked build) *)
| EncDiverges.        (* state_renormalize never terminates (frequency 0 for a present symbol) *)

Definition encode_o0 (src : list N) : enc_result :=
  match normalize_frequencies (raw_frequencies src) with
  | None => EncPanic
  | Some F =>
    let C := cumulative F in
    match enc_symbols F C src with
    | None => EncDiverges
    | Some (st, stack) =>
      let body := write_frequencies F ++ flat_map le32_bytes st ++ stack in
      EncOk (0 :: le32_bytes (N.of_nat (length body)) ++ le32_bytes (N.of_nat (length src)) ++ body)
    end
  end.

(* ------------------------------------------------------------------------------------------ *)
(* Part 2: independent decoder, from the specification's pseudo-code                            *)

(* RansGetSymbolFromFreq(C, f): the symbol s with C[s] <= f < C[s+1], C[s+1] = C[s] + F[s];
   walking F and subtracting is the same search.  Also returns C[s]. *)
Fixpoint spec_symbol (F : list N) (v : N) (s : N) (c : N) : N * N :=
  match F with
  | [] => (s, c)
  | f :: r => if v <? f then (s, c) else spec_symbol r (v - f) (s + 1) (c + f)
  end.

(* RansRenorm: while R < (1<<23): R = (R << 8) + ReadUint8() *)
Fixpoint spec_renorm (s : N) (bs : list N) : option (N * list N) :=
  if LOWER_BOUND <=? s then Some (s, bs)
  else match bs with
       | [] => None
       | b :: r => spec_renorm (s * 256 + b) r
       end.

(* RansAdvanceStep(R, c, f) = f * (R >> 12) + (R & 0xfff) - c *)
Definition spec_advance (s c f : N) : N := f * (s / 4096) + s mod 4096 - c.

(* one symbol with one state *)
Definition spec_decode_one (F : list N) (s : N) (bs : list N) : option (N * N * list N) :=
  let v := s mod 4096 in                       (* RansGetCumulativeFreq *)
  let '(sym, c) := spec_symbol F v 0 0 in
  match spec_renorm (spec_advance s c (nth (N.to_nat sym) F 0)) bs with
  | Some (s', bs') => Some (sym, s', bs')
  | None => None
  end.

(* ReadFrequencies0: sym, last_sym, rle as in the specification; one ITF8 per iteration, so
   [fuel] = number of input bytes + 1 is always enough (None = truncated / malformed). *)
Fixpoint spec_read_freqs0 (fuel : nat) (bs : list N) (sym last rle : N) (F : list N)
  : option (list N * list N) :=
  match fuel with
  | O => None
  | S fu =>
    match itf8_dec bs with
    | None => None
    | Some (f, bs1) =>
      let F1 := upd F (N.to_nat sym) f in
      if 0 <? rle then
        if 255 <=? sym then None
        else spec_read_freqs0 fu bs1 (sym + 1) (sym + 1) (rle - 1) F1
      else
        match bs1 with
        | [] => None
        | sym' :: bs2 =>
          if sym' =? last + 1 then
            match bs2 with
            | [] => None
            | rle' :: bs3 => spec_read_freqs0 fu bs3 sym' sym' rle' F1   (* sym' = last+1 > 0 *)
            end
          else if sym' =? 0 then Some (F1, bs2)
          else spec_read_freqs0 fu bs2 sym' sym' 0 F1
        end
    end
  end.

Definition spec_read_frequencies0_raw (bs : list N) : option (list N * list N) :=
  match bs with
  | [] => None
  | sym :: r => spec_read_freqs0 (S (length bs)) r sym sym 0 zeros256
  end.

(* The state carries the cumulative frequency in 12 bits, so a conforming table adds up to at most
   4096 (the encoder normalises to 4095).  A larger total is rejected when the table is read -- as
   the repaired noodles decoder does (8832bc0: validate_frequencies -> InvalidData, for order 1 on
   each context's table); with the total bounded RansAdvanceStep cannot leave 32 bits. *)
Definition spec_read_frequencies0 (bs : list N) : option (list N * list N) :=
  match spec_read_frequencies0_raw bs with
  | None => None
  | Some (F, r) => if 4096 <? sumN F then None else Some (F, r)
  end.

Definition take4_le32 (bs : list N) : option (list N * list N) :=
  match take_le32 bs with
  | Some (a, r1) =>
    match take_le32 r1 with
    | Some (b, r2) =>
      match take_le32 r2 with
      | Some (c, r3) =>
        match take_le32 r3 with
        | Some (d, r4) => Some ([a; b; c; d], r4)
        | None => None
        end
      | None => None
      end
    | None => None
    end
  | None => None
  end.

(* RansDecode0 main loop: output i is produced by state i mod 4; the state list is rotated
   instead of indexed. *)
Fixpoint spec_decode0_loop (n : nat) (F : list N) (st : list N) (bs : list N) : option (list N * list N) :=
  match n with
  | O => Some ([], bs)
  | S n' =>
    match st with
    | [] => None
    | s :: others =>
      match spec_decode_one F s bs with
      | None => None
      | Some (sym, s', bs') =>
        match spec_decode0_loop n' F (others ++ [s']) bs' with
        | None => None
        | Some (out, rest) => Some (sym :: out, rest)
        end
      end
    end
  end.

(* order 1: F is a list of 256 rows *)
Definition row (F1 : list (list N)) (ctx : N) : list N := nth (N.to_nat ctx) F1 zeros256.

Fixpoint upd_row (l : list (list N)) (i : nat) (v : list N) : list (list N) :=
  match l, i with
  | [], _ => []
  | _ :: r, O => v :: r
  | x :: r, S i' => x :: upd_row r i' v
  end.

Fixpoint spec_read_freqs1 (fuel : nat) (bs : list N) (sym last rle : N) (F1 : list (list N))
  : option (list (list N) * list N) :=
  match fuel with
  | O => None
  | S fu =>
    match spec_read_frequencies0 bs with
    | None => None
    | Some (fr, bs1) =>
      let F1' := upd_row F1 (N.to_nat sym) fr in
      if 0 <? rle then
        if 255 <=? sym then None
        else spec_read_freqs1 fu bs1 (sym + 1) (sym + 1) (rle - 1) F1'
      else
        match bs1 with
        | [] => None
        | sym' :: bs2 =>
          if sym' =? last + 1 then
            match bs2 with
            | [] => None
            | rle' :: bs3 => spec_read_freqs1 fu bs3 sym' sym' rle' F1'
            end
          else if sym' =? 0 then Some (F1', bs2)
          else spec_read_freqs1 fu bs2 sym' sym' 0 F1'
        end
    end
  end.

Definition spec_read_frequencies1 (bs : list N) : option (list (list N) * list N) :=
  match bs with
  | [] => None
  | sym :: r => spec_read_freqs1 (S (length bs)) r sym sym 0 (repeat zeros256 256)
  end.

Record o1_state := { o1_R : N; o1_L : N }.

Definition spec_o1_one (F1 : list (list N)) (st : o1_state) (bs : list N)
  : option (N * o1_state * list N) :=
  match spec_decode_one (row F1 (o1_L st)) (o1_R st) bs with
  | Some (sym, s', bs') => Some (sym, {| o1_R := s'; o1_L := sym |}, bs')
  | None => None
  end.

(* the four interleaved quarters: iteration i decodes out[i], out[q+i], out[2q+i], out[3q+i] *)
Fixpoint spec_decode1_main (q : nat) (F1 : list (list N)) (s0 s1 s2 s3 : o1_state) (bs : list N)
  : option (list N * list N * list N * list N * o1_state * list N) :=
  match q with
  | O => Some ([], [], [], [], s3, bs)
  | S q' =>
    match spec_o1_one F1 s0 bs with None => None | Some (y0, s0', b0) =>
    match spec_o1_one F1 s1 b0 with None => None | Some (y1, s1', b1) =>
    match spec_o1_one F1 s2 b1 with None => None | Some (y2, s2', b2) =>
    match spec_o1_one F1 s3 b2 with None => None | Some (y3, s3', b3) =>
    match spec_decode1_main q' F1 s0' s1' s2' s3' b3 with
    | None => None
    | Some (o0, o1, o2, o3, sl, rest) => Some (y0 :: o0, y1 :: o1, y2 :: o2, y3 :: o3, sl, rest)
    end end end end end
  end.

(* the remainder is decoded by the fourth state *)
Fixpoint spec_decode1_tail (n : nat) (F1 : list (list N)) (s : o1_state) (bs : list N)
  : option (list N * list N) :=
  match n with
  | O => Some ([], bs)
  | S n' =>
    match spec_o1_one F1 s bs with
    | None => None
    | Some (y, s', b') =>
      match spec_decode1_tail n' F1 s' b' with
      | None => None
      | Some (out, rest) => Some (y :: out, rest)
      end
    end
  end.

(* whole stream: order byte, compressed size, uncompressed size (both u32 LE), then the payload *)
Definition spec_decode (bs : list N) : option (list N) :=
  match bs with
  | [] => None
  | order :: r0 =>
    match take_le32 r0 with
    | None => None
    | Some (_, r1) =>
      match take_le32 r1 with
      | None => None
      | Some (n, r2) =>
        let len := N.to_nat n in
        (* nothing to decode: the specification is silent about the empty input, whose table is
           the lone terminator; no table is parsed *)
        if n =? 0 then Some []
        else if order =? 0 then
          match spec_read_frequencies0 r2 with
          | None => None
          | Some (F, r3) =>
            match take4_le32 r3 with
            | None => None
            | Some (st, r4) =>
              match spec_decode0_loop len F st r4 with
              | Some (out, _) => Some out
              | None => None
              end
            end
          end
        else if order =? 1 then
          match spec_read_frequencies1 r2 with
          | None => None
          | Some (F1, r3) =>
            match take4_le32 r3 with
            | Some ([a; b; c; d], r4) =>
              let q := Nat.div len 4 in
              let mk x := {| o1_R := x; o1_L := 0 |} in
              match spec_decode1_main q F1 (mk a) (mk b) (mk c) (mk d) r4 with
              | None => None
              | Some (o0, o1, o2, o3, sl, r5) =>
                match spec_decode1_tail (len - 4 * q) F1 sl r5 with
                | Some (tl, _) => Some (o0 ++ o1 ++ o2 ++ o3 ++ tl)
                | None => None
                end
              end
            | _ => None
            end
          end
        else None
      end
    end
  end.

Definition bytes_of_result (r : enc_result) : list N :=
  match r with EncOk b => b | _ => [] end.
