(* rANS 4x8 order 1, END TO END: for every byte string of at least 4 bytes (and fewer than
   2^32 - 4) the (model of the) noodles order-1 encoder terminates without panic and the
   independent specification decoder maps the emitted stream -- header, run-length coded table of
   context rows, four states, payload -- back to the input.

   What is needed beyond the payload core (Rans4x8O1Proofs) and the table round trip
   (Rans4x8O1Table): every (context, symbol) pair the encoder codes was counted by
   build_raw_frequencies (the four chunk starts under NUL, every adjacent pair of the input),
   no count or row sum leaves u32, and normalisation keeps every counted pair >= 1 with row sums
   <= 4096 (normalize_table, row by row). *)
From Coq Require Import List NArith ZArith Lia Bool.
From Coq Require Import ZifyBool ZifyNat ZifyN.
From NV Require Import Cram.Bytes Cram.Itf8 Cram.IntProofs Cram.Rans4x8 Cram.Rans4x8Proofs
  Cram.Rans4x8Table Cram.Rans4x8O1 Cram.Rans4x8O1Proofs Cram.Rans4x8O1Table.
Import ListNotations.
Ltac Zify.zify_post_hook ::= Z.div_mod_to_equations.
Open Scope N_scope.
Arguments N.add : simpl never.
Arguments N.sub : simpl never.
Arguments N.mul : simpl never.
Arguments N.div : simpl never.
Arguments N.modulo : simpl never.
Arguments N.pow : simpl never.
Arguments N.ltb : simpl never.
Arguments N.leb : simpl never.
Arguments N.eqb : simpl never.

(* ---------- 256 x 256 tables ---------- *)

Definition tabv (T : list (list N)) : Prop :=
  length T = 256%nat /\ Forall (fun r => length r = 256%nat) T.

Definition entry (T : list (list N)) (i j : N) : N := nth (N.to_nat j) (row T i) 0.

Definition total (T : list (list N)) : N := sumN (map sumN T).

Lemma upd_row_length : forall l i v, length (upd_row l i v) = length l.
Proof. induction l as [|x r IH]; intros [|i] v; cbn [upd_row length]; try reflexivity; now rewrite IH. Qed.

Lemma nth_upd_row_eq : forall l n v d, (n < length l)%nat -> nth n (upd_row l n v) d = v.
Proof.
  induction l as [|x r IH]; intros n v d Hn; [inversion Hn|].
  destruct n as [|n']; cbn [upd_row nth]; [reflexivity|]. apply IH. cbn [length] in Hn. lia.
Qed.

Lemma nth_upd_row_neq : forall l n m v d, n <> m -> nth m (upd_row l n v) d = nth m l d.
Proof.
  induction l as [|x r IH]; intros n m v d Hnm; [destruct n; reflexivity|].
  destruct n as [|n'], m as [|m']; cbn [upd_row nth]; try reflexivity; [congruence|].
  apply IH. congruence.
Qed.

Lemma Forall_upd_row (P : list N -> Prop) : forall l n v, Forall P l -> P v -> Forall P (upd_row l n v).
Proof.
  induction l as [|x r IH]; intros n v Hl Hv; [destruct n; constructor|].
  inversion Hl as [|? ? Hx Hr]; subst.
  destruct n as [|n']; cbn [upd_row]; constructor; try assumption. apply IH; assumption.
Qed.

Lemma zeros256_length : length zeros256 = 256%nat.
Proof. apply repeat_length. Qed.

Lemma row_length T i : tabv T -> length (row T i) = 256%nat.
Proof.
  intros [Hl Hr]. unfold row. destruct (Nat.lt_ge_cases (N.to_nat i) (length T)) as [Hin|Hout].
  - rewrite Forall_forall in Hr. apply Hr. apply nth_In. exact Hin.
  - rewrite nth_overflow by exact Hout. apply zeros256_length.
Qed.

Lemma tabv_zeros : tabv zeros_tab.
Proof.
  split; [apply repeat_length|]. rewrite Forall_forall. intros r Hr.
  apply repeat_spec in Hr. subst r. apply zeros256_length.
Qed.

Lemma tabv_bump T i j : tabv T -> tabv (bump T i j).
Proof.
  intros HT. pose proof (row_length T i HT) as Hrl. destruct HT as [Hl Hr]. unfold bump. split.
  - rewrite upd_row_length. exact Hl.
  - apply Forall_upd_row; [exact Hr|]. rewrite upd_length. exact Hrl.
Qed.

Lemma bump_entry_same T i j : tabv T -> i < 256 -> j < 256 -> entry (bump T i j) i j = entry T i j + 1.
Proof.
  intros HT Hi Hj. pose proof (row_length T i HT) as Hrl. destruct HT as [Hl Hr].
  unfold entry, bump. unfold row at 1. rewrite nth_upd_row_eq by lia.
  rewrite nth_upd_eq by lia. reflexivity.
Qed.

Lemma bump_entry_mono T i j i' j' : tabv T -> i < 256 -> j < 256 ->
  entry T i' j' <= entry (bump T i j) i' j'.
Proof.
  intros HT Hi Hj. pose proof (row_length T i HT) as Hrl. destruct HT as [Hl Hr].
  unfold entry, bump. unfold row at 2.
  destruct (Nat.eq_dec (N.to_nat i) (N.to_nat i')) as [Hii|Hii].
  - rewrite <- Hii. rewrite nth_upd_row_eq by lia.
    replace (row T i') with (row T i) by (unfold row; rewrite Hii; reflexivity).
    destruct (Nat.eq_dec (N.to_nat j) (N.to_nat j')) as [Hjj|Hjj].
    + rewrite <- Hjj. rewrite nth_upd_eq by lia. lia.
    + rewrite nth_upd_neq by exact Hjj. lia.
  - rewrite nth_upd_row_neq by exact Hii. unfold row. lia.
Qed.

Lemma total_upd_row : forall T n v, (n < length T)%nat ->
  total (upd_row T n v) + sumN (nth n T zeros256) = total T + sumN v.
Proof.
  unfold total. induction T as [|x r IH]; intros n v Hn; [inversion Hn|].
  destruct n as [|n']; cbn [upd_row map sumN nth]; [lia|].
  specialize (IH n' v ltac:(cbn [length] in Hn; lia)). lia.
Qed.

Lemma bump_total T i j : tabv T -> i < 256 -> j < 256 -> total (bump T i j) = total T + 1.
Proof.
  intros HT Hi Hj. pose proof (row_length T i HT) as Hrl. destruct HT as [Hl Hr]. unfold bump.
  pose proof (total_upd_row T (N.to_nat i)
                (upd (row T i) (N.to_nat j) (nth (N.to_nat j) (row T i) 0 + 1)) ltac:(lia)) as H1.
  pose proof (sumN_upd (row T i) (N.to_nat j) (nth (N.to_nat j) (row T i) 0 + 1) ltac:(lia)) as H2.
  fold (row T i) in H1. lia.
Qed.

Lemma row_le_total : forall T n, sumN (nth n T zeros256) <= total T.
Proof.
  unfold total. induction T as [|x r IH]; intros n.
  - destruct n; cbn [nth map sumN]; unfold zeros256; rewrite sumN_repeat0; lia.
  - destruct n as [|n']; cbn [nth map sumN]; [lia|]. specialize (IH n'). lia.
Qed.

Lemma total_zeros : total zeros_tab = 0.
Proof. vm_compute. reflexivity. Qed.

(* ---------- build_raw_frequencies ---------- *)

Lemma nth_byte src k : Forall (fun x => x < 256) src -> nth k src 0 < 256.
Proof.
  intros Hb. destruct (Nat.lt_ge_cases k (length src)) as [Hin|Hout].
  - rewrite Forall_forall in Hb. apply Hb. apply nth_In. exact Hin.
  - rewrite nth_overflow by exact Hout. lia.
Qed.

Lemma raw_windows_facts : forall src T, tabv T -> Forall (fun x => x < 256) src ->
  tabv (raw_windows src T) /\
  (forall i j, entry T i j <= entry (raw_windows src T) i j) /\
  total (raw_windows src T) <= total T + N.of_nat (length src).
Proof.
  induction src as [|a r IH]; intros T HT Hb.
  - cbn [raw_windows length]. split; [exact HT|]. split; intros; lia.
  - inversion Hb as [|? ? Ha Hr]; subst. destruct (IH T HT Hr) as [H1 [H2 H3]].
    cbn [raw_windows]. destruct r as [|b r'].
    + split; [exact HT|]. split; intros; cbn [length]; lia.
    + inversion Hr as [|? ? Hb' _]; subst. split; [apply tabv_bump; exact H1|]. split.
      * intros i j. pose proof (bump_entry_mono _ a b i j H1 Ha Hb'). specialize (H2 i j). lia.
      * rewrite bump_total by assumption. cbn [length] in *. lia.
Qed.

(* every adjacent pair of the input is counted *)
Lemma raw_windows_pos : forall p src T a b s, tabv T -> Forall (fun x => x < 256) src ->
  src = p ++ a :: b :: s -> 0 < entry (raw_windows src T) a b.
Proof.
  induction p as [|x p IH]; intros src T a b s HT Hb Hsrc; subst src.
  - cbn [app raw_windows]. inversion Hb as [|? ? Ha Hr]; subst. inversion Hr as [|? ? Hb' _]; subst.
    destruct (raw_windows_facts (b :: s) T HT Hr) as [H1 _].
    rewrite bump_entry_same by assumption. lia.
  - cbn [app]. inversion Hb as [|? ? Hx Hr]; subst.
    specialize (IH (p ++ a :: b :: s) T a b s HT Hr eq_refl).
    destruct (raw_windows_facts (p ++ a :: b :: s) T HT Hr) as [H1 _].
    cbn [raw_windows]. destruct (p ++ a :: b :: s) as [|y r'] eqn:E.
    + destruct p; discriminate E.
    + inversion Hr as [|? ? Hy _]; subst.
      pose proof (bump_entry_mono _ x y a b H1 Hx Hy). lia.
Qed.

Lemma raw_starts_facts src q : Forall (fun x => x < 256) src ->
  tabv (raw_starts src q) /\ total (raw_starts src q) = 4 /\
  0 < entry (raw_starts src q) 0 (nth 0 src 0) /\ 0 < entry (raw_starts src q) 0 (nth q src 0) /\
  0 < entry (raw_starts src q) 0 (nth (2 * q) src 0) /\ 0 < entry (raw_starts src q) 0 (nth (3 * q) src 0).
Proof.
  intros Hb. unfold raw_starts.
  pose proof (nth_byte src 0 Hb) as B0. pose proof (nth_byte src q Hb) as B1.
  pose proof (nth_byte src (2 * q) Hb) as B2. pose proof (nth_byte src (3 * q) Hb) as B3.
  set (x0 := nth 0 src 0) in *. set (x1 := nth q src 0) in *.
  set (x2 := nth (2 * q) src 0) in *. set (x3 := nth (3 * q) src 0) in *.
  assert (Z0 : 0 < 256) by lia.
  pose proof tabv_zeros as T0.
  pose proof (tabv_bump _ 0 x0 T0) as T1. pose proof (tabv_bump _ 0 x1 T1) as T2.
  pose proof (tabv_bump _ 0 x2 T2) as T3. pose proof (tabv_bump _ 0 x3 T3) as T4.
  split; [exact T4|]. split.
  { rewrite !bump_total by assumption. rewrite total_zeros. lia. }
  pose proof (bump_entry_same _ 0 x0 T0 Z0 B0) as E0.
  pose proof (bump_entry_same _ 0 x1 T1 Z0 B1) as E1.
  pose proof (bump_entry_same _ 0 x2 T2 Z0 B2) as E2.
  pose proof (bump_entry_same _ 0 x3 T3 Z0 B3) as E3.
  pose proof (bump_entry_mono _ 0 x1 0 x0 T1 Z0 B1) as M10.
  pose proof (bump_entry_mono _ 0 x2 0 x0 T2 Z0 B2) as M20.
  pose proof (bump_entry_mono _ 0 x3 0 x0 T3 Z0 B3) as M30.
  pose proof (bump_entry_mono _ 0 x2 0 x1 T2 Z0 B2) as M21.
  pose proof (bump_entry_mono _ 0 x3 0 x1 T3 Z0 B3) as M31.
  pose proof (bump_entry_mono _ 0 x3 0 x2 T3 Z0 B3) as M32.
  repeat split; lia.
Qed.

(* ---------- normalisation row by row ---------- *)

Lemma normalize_some raw : sumN raw < TWO32 -> exists F, normalize_frequencies raw = Some F.
Proof.
  intros Hs. unfold normalize_frequencies.
  pose proof (describe_sum raw) as Hd.
  destruct (describe_frequencies raw) as [mi sum]. cbn [snd] in Hd.
  replace (TWO32 <=? sum) with false by lia.
  destruct (sum =? 0); [eauto|]. destruct (_ <? 4095); [eauto|]. destruct (4095 <? _); eauto.
Qed.

Lemma normalize_rows_spec : forall T F1, normalize_rows T = Some F1 ->
  length F1 = length T /\
  forall n, (n < length T)%nat -> normalize_frequencies (nth n T zeros256) = Some (nth n F1 zeros256).
Proof.
  induction T as [|r t IH]; intros F1 H; cbn [normalize_rows] in H.
  - inversion H; subst. split; [reflexivity|]. intros n Hn. inversion Hn.
  - destruct (normalize_frequencies r) as [a|] eqn:Ea; [|discriminate].
    destruct (normalize_rows t) as [b|] eqn:Eb; [|discriminate]. inversion H; subst.
    destruct (IH b eq_refl) as [Hl Hn]. split; [cbn [length]; lia|].
    intros n Hlt. destruct n as [|n']; cbn [nth]; [exact Ea|]. apply Hn. cbn [length] in Hlt. lia.
Qed.

Lemma normalize_rows_some : forall T, (forall n, sumN (nth n T zeros256) < TWO32) ->
  exists F1, normalize_rows T = Some F1.
Proof.
  induction T as [|r t IH]; intros Hs; [exists []; reflexivity|].
  cbn [normalize_rows]. destruct (normalize_some r (Hs O)) as [a Ha]. rewrite Ha.
  destruct (IH (fun n => Hs (S n))) as [b Hb]. rewrite Hb. eauto.
Qed.

(* what the encoder's table satisfies *)
Lemma normalized_table T F1 : tabv T -> normalize_rows T = Some F1 ->
  length F1 = 256%nat /\ Forall rowv F1 /\
  (forall i, i < 256 -> length (row F1 i) = 256%nat /\ sumN (row F1 i) <= 4096 /\
     forall j, 0 < entry T i j -> 0 < entry F1 i j).
Proof.
  intros HT Hn. destruct (normalize_rows_spec T F1 Hn) as [Hl Hrows]. destruct HT as [HTl HTr].
  assert (Hrow : forall n, (n < 256)%nat ->
            length (nth n F1 zeros256) = 256%nat /\ sumN (nth n F1 zeros256) <= 4096 /\
            forall j, 0 < nth j (nth n T zeros256) 0 -> 0 < nth j (nth n F1 zeros256) 0).
  { intros n Hlt. specialize (Hrows n ltac:(lia)).
    apply normalize_table in Hrows; [exact Hrows|].
    rewrite Forall_forall in HTr. apply HTr. apply nth_In. lia. }
  split; [lia|]. split.
  - rewrite Forall_forall. intros fs Hin. apply In_nth with (d := zeros256) in Hin.
    destruct Hin as [n [Hlt Hfs]]. subst fs. destruct (Hrow n ltac:(lia)) as [H1 [H2 _]].
    split; [exact H1|exact H2].
  - intros i Hi. unfold entry, row. destruct (Hrow (N.to_nat i) ltac:(lia)) as [H1 [H2 H3]].
    split; [exact H1|]. split; [exact H2|]. intros j. apply H3.
Qed.

(* ---------- from counted pairs to codable chains ---------- *)

Lemma chain_of_adjacent (P : N -> N -> Prop) : forall seg k,
  (forall x r, seg = x :: r -> P k x) ->
  (forall p a b s, seg = p ++ a :: b :: s -> P a b) ->
  chain P k seg.
Proof.
  induction seg as [|x r IH]; intros k Hhd Hadj; cbn [chain]; [exact I|].
  split; [apply (Hhd x r eq_refl)|]. apply IH.
  - intros y r' Hr. subst r. apply (Hadj [] x y r'). reflexivity.
  - intros p a b s Hr. subst r. apply (Hadj (x :: p) a b s). reflexivity.
Qed.

Lemma nth0_cons_app (x : N) r tl : nth 0 ((x :: r) ++ tl) 0 = x.
Proof. reflexivity. Qed.

(* ---------- the whole order-1 stream ---------- *)

Theorem rans4x8_o1_short src : (length src < 4)%nat -> encode_o1 src = EncInvalidInput.
Proof.
  intros H. unfold encode_o1. replace (Nat.ltb (length src) 4) with true; [reflexivity|].
  symmetry. apply Nat.ltb_lt. exact H.
Qed.

Theorem rans4x8_o1_roundtrip : forall src,
  Forall (fun x => x < 256) src -> (4 <= length src)%nat -> N.of_nat (length src) + 4 < 4294967296 ->
  exists bytes, encode_o1 src = EncOk bytes /\ spec_decode bytes = Some src.
Proof.
  intros src Hbytes Hlen4 Hlen. unfold encode_o1.
  replace (Nat.ltb (length src) 4) with false by (symmetry; apply Nat.ltb_ge; exact Hlen4).
  set (q := Nat.div (length src) 4).
  assert (Hq : (1 <= q)%nat /\ (4 * q <= length src)%nat /\ (length src < 4 * q + 4)%nat).
  { unfold q. pose proof (Nat.div_mod (length src) 4 ltac:(lia)).
    pose proof (Nat.mod_upper_bound (length src) 4 ltac:(lia)).
    assert (1 <= length src / 4)%nat by (apply Nat.div_le_lower_bound; lia). lia. }
  destruct Hq as [Hq1 [Hq4 Hq5]].
  (* the split *)
  set (c0 := firstn q src). set (t0 := skipn q src).
  set (c1 := firstn q t0). set (t1 := skipn q t0).
  set (c2 := firstn q t1). set (t2 := skipn q t1).
  set (c3 := firstn q t2). set (rem := skipn q t2).
  assert (Lt0 : length t0 = (length src - q)%nat) by (unfold t0; apply skipn_length).
  assert (Lt1 : length t1 = (length src - q - q)%nat) by (unfold t1; rewrite skipn_length; lia).
  assert (Lt2 : length t2 = (length src - q - q - q)%nat) by (unfold t2; rewrite skipn_length; lia).
  assert (L0 : length c0 = q) by (unfold c0; rewrite firstn_length; lia).
  assert (L1 : length c1 = q) by (unfold c1; rewrite firstn_length; lia).
  assert (L2 : length c2 = q) by (unfold c2; rewrite firstn_length; lia).
  assert (L3 : length c3 = q) by (unfold c3; rewrite firstn_length; lia).
  assert (Lr : length rem = (length src - 4 * q)%nat) by (unfold rem; rewrite skipn_length; lia).
  assert (Hsplit : src = c0 ++ c1 ++ c2 ++ c3 ++ rem).
  { unfold c0, c1, c2, c3, rem. rewrite (firstn_skipn q t2). unfold t2.
    rewrite (firstn_skipn q t1). unfold t1. rewrite (firstn_skipn q t0). unfold t0.
    symmetry. apply firstn_skipn. }
  (* the raw table *)
  destruct (raw_starts_facts src q Hbytes) as [HS [HStot [P0 [P1 [P2 P3]]]]].
  unfold raw_frequencies1. fold q.
  set (S0 := raw_starts src q) in *.
  destruct (raw_windows_facts src S0 HS Hbytes) as [HR [HRmono HRtot]].
  set (R := raw_windows src S0) in *.
  destruct (normalize_rows_some R) as [F1 HF1].
  { intros n. pose proof (row_le_total R n). unfold TWO32. lia. }
  rewrite HF1.
  destruct (normalized_table R F1 HR HF1) as [HFl [HFv HFrow]].
  (* every counted pair can be coded *)
  assert (Hok : forall i j, i < 256 -> j < 256 -> 0 < entry R i j -> ok1 F1 i j).
  { intros i j Hi Hj Hp. destruct (HFrow i Hi) as [Hrl [Hrs Hrp]].
    split; [exact Hrs|]. split; [rewrite Hrl; lia|]. apply (Hrp j Hp). }
  assert (Hadj : forall p a b s, src = p ++ a :: b :: s -> ok1 F1 a b).
  { intros p a b s Hs.
    assert (Ha : a < 256 /\ b < 256).
    { rewrite Forall_forall in Hbytes. split; apply Hbytes; rewrite Hs; apply in_or_app; right;
      [left; reflexivity|right; left; reflexivity]. }
    apply Hok; try apply Ha. unfold R. apply (raw_windows_pos p src S0 a b s HS Hbytes Hs). }
  assert (Hstart : forall k, 0 < entry S0 0 (nth k src 0) -> ok1 F1 0 (nth k src 0)).
  { intros k Hp. apply Hok; [lia|apply nth_byte; exact Hbytes|]. specialize (HRmono 0 (nth k src 0)). lia. }
  (* the four chains *)
  assert (Hc0 : chain (ok1 F1) 0 c0).
  { apply chain_of_adjacent.
    - intros x r Hr. replace x with (nth 0 src 0); [apply Hstart; exact P0|].
      rewrite Hsplit, Hr. reflexivity.
    - intros p a b s Hs. apply (Hadj p a b (s ++ c1 ++ c2 ++ c3 ++ rem)).
      rewrite Hsplit at 1. rewrite Hs. rewrite <- app_assoc. reflexivity. }
  assert (Hc1 : chain (ok1 F1) 0 c1).
  { apply chain_of_adjacent.
    - intros x r Hr. replace x with (nth q src 0); [apply Hstart; exact P1|].
      rewrite Hsplit. rewrite app_nth2 by lia. rewrite L0, Nat.sub_diag, Hr. reflexivity.
    - intros p a b s Hs. apply (Hadj (c0 ++ p) a b (s ++ c2 ++ c3 ++ rem)).
      rewrite Hsplit at 1. rewrite Hs. rewrite <- !app_assoc. reflexivity. }
  assert (Hc2 : chain (ok1 F1) 0 c2).
  { apply chain_of_adjacent.
    - intros x r Hr. replace x with (nth (2 * q) src 0); [apply Hstart; exact P2|].
      rewrite Hsplit. rewrite app_nth2 by lia. rewrite app_nth2 by lia.
      replace (2 * q - length c0 - length c1)%nat with O by lia. rewrite Hr. reflexivity.
    - intros p a b s Hs. apply (Hadj (c0 ++ c1 ++ p) a b (s ++ c3 ++ rem)).
      rewrite Hsplit at 1. rewrite Hs. rewrite <- !app_assoc. reflexivity. }
  assert (Hc3 : chain (ok1 F1) 0 (c3 ++ rem)).
  { apply chain_of_adjacent.
    - intros x r Hr. replace x with (nth (3 * q) src 0); [apply Hstart; exact P3|].
      rewrite Hsplit. rewrite app_nth2 by lia. rewrite app_nth2 by lia. rewrite app_nth2 by lia.
      replace (3 * q - length c0 - length c1 - length c2)%nat with O by lia. rewrite Hr. reflexivity.
    - intros p a b s Hs. apply (Hadj (c0 ++ c1 ++ c2 ++ p) a b s).
      rewrite Hsplit at 1. rewrite Hs. rewrite <- !app_assoc. reflexivity. }
  (* the payload *)
  destruct (rans4x8_o1_core_roundtrip F1 c0 c1 c2 c3 rem 0 0 0 0
              ltac:(lia) ltac:(lia) ltac:(lia) Hc0 Hc1 Hc2 Hc3)
    as [s0 [s1 [s2 [s3 [stack [He [Hs0 [Hs1 [Hs2 [Hs3 Hdec]]]]]]]]]].
  rewrite He. eexists. split; [reflexivity|].
  (* decoding: header *)
  cbn [spec_decode].
  destruct (take_le32_any
              (N.of_nat (length (write_frequencies1 F1 ++ flat_map le32_bytes [s0; s1; s2; s3] ++ stack)))
              (le32_bytes (N.of_nat (length src)) ++
               write_frequencies1 F1 ++ flat_map le32_bytes [s0; s1; s2; s3] ++ stack)) as [v Hv].
  rewrite Hv. rewrite take_le32_le32 by lia.
  replace (N.of_nat (length src) =? 0) with false by lia.
  replace (1 =? 0) with false by reflexivity. replace (1 =? 1) with true by reflexivity.
  (* table *)
  rewrite freq_table1_roundtrip; [|exact HFl|exact HFv|].
  2:{ exists (row F1 0). split.
      - unfold row. apply nth_In. rewrite HFl. cbn. lia.
      - unfold in_alphabet. apply existsb_exists.
        destruct (Hstart O P0) as [_ [Hx Hp]].
        exists (nth (N.to_nat (nth 0 src 0)) (row F1 0) 0). split; [apply nth_In; exact Hx|]. lia. }
  rewrite take4_states
    by (apply Forall_cons; [exact Hs0|apply Forall_cons; [exact Hs1|apply Forall_cons; [exact Hs2|apply Forall_cons; [exact Hs3|apply Forall_nil]]]]).
  rewrite Nnat.Nat2N.id. fold q.
  destruct (Hdec []) as [sl [mid [Hm Ht]]]. rewrite app_nil_r in Hm.
  rewrite L0 in Hm. unfold mk1 in Hm. rewrite Hm.
  replace (length src - 4 * q)%nat with (length rem) by lia. rewrite Ht.
  rewrite <- Hsplit. reflexivity.
Qed.
