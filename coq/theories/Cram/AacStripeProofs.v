(* CRAM 3.1 adaptive arithmetic coder, whole streams for every flag byte except EXT: STRIPE (4
   NO_SIZE order-0 sub-streams, recursive decoder) and, for the STRIPE-free streams, order 0 / 1 and
   RLE behind PACK / CAT / size field. *)
From Coq Require Import List NArith ZArith Lia Bool PeanoNat.
From Coq Require Import ZifyBool ZifyNat ZifyN.
From NV Require Import Cram.Bytes Cram.Vlq Cram.IntProofs Cram.Rans4x8 Cram.Rans4x8Proofs
  Cram.Nx16Xform Cram.Nx16XformProofs Cram.Nx16O0 Cram.Nx16O0Total Cram.Nx16Full Cram.Nx16FullProofs
  Cram.Nx16Stripe Cram.Nx16StripeLists Cram.Nx16StripeProofs
  Cram.Aac Cram.AacModes Cram.AacRle Cram.AacModesProofs Cram.AacRange Cram.AacProofs Cram.AacModesRt.
Import ListNotations.
Ltac Zify.zify_post_hook ::= Z.div_mod_to_equations.
Open Scope N_scope.
Arguments N.add : simpl never.
Arguments N.sub : simpl never.
Arguments N.mul : simpl never.
Arguments N.div : simpl never.
Arguments N.modulo : simpl never.
Arguments N.pow : simpl never.
Arguments N.ltb : simpl never.
Arguments N.leb : simpl never.
Arguments N.eqb : simpl never.

Lemma aac_ent_ok_o0 : aac_ent_ok aac_o0_encode aac_o0_decode.
Proof.
  intros src Hne Hb. destruct (aac_o0_roundtrip src [] Hne Hb) as [body [He Hd]].
  exists body. split; [exact He|]. rewrite app_nil_r in Hd. exact Hd.
Qed.

(* ---------- whole streams with RLE (no STRIPE, no EXT) ---------- *)

Definition aac_rle_ok : Prop :=
  forall o1 src, src <> [] -> Forall (fun b => b < 256) src -> N.of_nat (length src) < 4294967296 ->
    exists body, aac_rle_encode o1 src = Some body /\ aac_rle_decode o1 body (length src) = ROk src.

Theorem aac_full2_roundtrip_gen f src :
  (f_order f = true -> f_rle f = false -> aac_ent_ok aac_o1_encode aac_o1_decode) ->
  (f_rle f = true -> aac_rle_ok) ->
  f_stripe f = false -> f_n32 f = false ->
  Forall (fun b => b < 256) src -> N.of_nat (length src) < 4294967296 ->
  exists bytes, aac_encode2 f src = AeOk bytes /\ aac_decode2 bytes (N.of_nat (length src)) = DOk src.
Proof.
  intros HO1 HRL Hstripe Hext Hb Hlen. unfold aac_encode2. rewrite Hstripe.
  destruct (nx_pack_stage f src) as [[f1 s1] h1] eqn:E1.
  destruct (pack_stage_spec f src f1 s1 h1 E1 Hb Hlen)
    as [[Ho1 [_ [Hn1 [Hs1 [Hz1 Hc1]]]]] [Hr1 [Hb1 [Hl1 [pc [Hpc Hpd]]]]]].
  set (f2 := match s1 with
             | [] => {| f_order := f_order f1; f_res := f_res f1; f_n32 := f_n32 f1; f_stripe := f_stripe f1;
                        f_nosize := f_nosize f1; f_cat := true; f_rle := f_rle f1; f_pack := f_pack f1 |}
             | _ => f1
             end).
  assert (H2 : f_stripe f2 = false /\ f_nosize f2 = f_nosize f /\ f_pack f2 = f_pack f1 /\
               f_rle f2 = f_rle f /\ f_n32 f2 = false /\ f_order f2 = f_order f /\
               (f_cat f2 = false -> s1 <> [])).
  { unfold f2. destruct s1 as [|x r].
    - cbn [force_cat f_order f_res f_n32 f_stripe f_nosize f_cat f_rle f_pack state_count]. repeat split; try congruence; try discriminate.
    - repeat split; try congruence; try (intros _; discriminate). }
  destruct H2 as [S2 [N2 [P2 [R2 [X2 [O2 L2]]]]]]. clearbody f2.
  assert (Hhead : forall body,
    aac_decode2 (byte_of_flags f2 :: (if f_nosize f then [] else write_uint7 (N.of_nat (length src)))
                 ++ h1 ++ body) (N.of_nat (length src)) =
    match (if f_cat f2 then
             match split_off body (N.to_nat (N.of_nat (length s1))) with
             | None => DErr
             | Some (payload, _) => DOk payload
             end
           else match (if f_rle f2 then aac_rle_decode (f_order f2) body (N.to_nat (N.of_nat (length s1)))
                       else if f_order f2 then aac_o1_decode body (N.to_nat (N.of_nat (length s1)))
                       else aac_o0_decode body (N.to_nat (N.of_nat (length s1)))) with
                | ROk d => DOk d
                | RErr => DErr
                | RPanic => DPanic
                end) with
    | DOk d =>
      match pc with
      | Some table => pack_decode table d (N.to_nat (N.of_nat (length src)))
      | None => DOk d
      end
    | DErr => DErr
    | DPanic => DPanic
    | DUnsupported => DUnsupported
    end).
  { intros body. cbn [aac_decode2]. destruct (nx_flags_roundtrip f2) as [Hfb _]. rewrite Hfb.
    rewrite N2, S2, P2, X2.
    assert (Hsz : (if f_nosize f
                   then U7Ok (N.of_nat (length src))
                          ((if f_nosize f then [] else write_uint7 (N.of_nat (length src))) ++ h1 ++ body)
                   else read_uint7 ((if f_nosize f then [] else write_uint7 (N.of_nat (length src))) ++ h1 ++ body))
                  = U7Ok (N.of_nat (length src)) (h1 ++ body)).
    { destruct (f_nosize f); [reflexivity|]. apply uint7_roundtrip. lia. }
    rewrite Hsz. rewrite Hpc.
    match goal with |- match ?X with _ => _ end = _ => destruct X as [d| | |] end; reflexivity. }
  destruct (f_cat f2) eqn:Ecat.
  - eexists. split; [reflexivity|]. rewrite Hhead. rewrite Nnat.Nat2N.id.
    rewrite <- (app_nil_r s1) at 1. rewrite split_off_app. rewrite Nnat.Nat2N.id. exact Hpd.
  - rewrite X2. specialize (L2 eq_refl).
    assert (Hl1' : N.of_nat (length s1) < 4294967296) by lia.
    assert (Hent : exists body,
               (if f_rle f2 then aac_rle_encode (f_order f2) s1
                else if f_order f2 then aac_o1_encode s1 else aac_o0_encode s1) = Some body /\
               (if f_rle f2 then aac_rle_decode (f_order f2) body (length s1)
                else if f_order f2 then aac_o1_decode body (length s1) else aac_o0_decode body (length s1))
               = ROk s1).
    { destruct (f_rle f2) eqn:Erle.
      - apply (HRL ltac:(congruence)); assumption.
      - destruct (f_order f2) eqn:Eord.
        + apply (HO1 ltac:(congruence) ltac:(congruence)); assumption.
        + apply aac_ent_ok_o0; assumption. }
    destruct Hent as [body [Henc Hdec]]. rewrite Henc. eexists. split; [reflexivity|].
    rewrite Hhead. rewrite !Nnat.Nat2N.id. rewrite Hdec. exact Hpd.
Qed.

(* ---------- STRIPE ---------- *)

Lemma aac_decode1_ok_nostripe bs u x : aac_decode1 bs u = DOk x ->
  exists fb r0, bs = fb :: r0 /\ f_stripe (flags_of_byte fb) = false.
Proof.
  unfold aac_decode1. destruct bs as [|fb r0]; [discriminate|]. intros H.
  exists fb, r0. split; [reflexivity|].
  destruct (if f_nosize (flags_of_byte fb) then U7Ok u r0 else read_uint7 r0) as [s r| |]; try discriminate.
  destruct (f_stripe (flags_of_byte fb)); [discriminate|reflexivity].
Qed.

Lemma aac_decode_rf_S fu fb r0 usize :
  aac_decode_rf (S fu) (fb :: r0) usize =
  if f_stripe (flags_of_byte fb) then
    match (if f_nosize (flags_of_byte fb) then U7Ok usize r0 else read_uint7 r0) with
    | U7Ok size0 r1 => stripe_decode (aac_decode_rf fu) r1 size0
    | _ => DErr
    end
  else aac_decode2 (fb :: r0) usize.
Proof. reflexivity. Qed.

(* on the NO_SIZE order-0 sub-streams aac_decode2 and aac_decode1 are the same function *)
Lemma aac_decode2_eq1 bs u : f_rle (flags_of_byte (hd 0 bs)) = false -> aac_decode2 bs u = aac_decode1 bs u.
Proof.
  intros Hr. destruct bs as [|fb r0]; [reflexivity|]. cbn [hd] in Hr.
  unfold aac_decode2, aac_decode1. rewrite Hr. cbn [orb]. rewrite orb_false_r. reflexivity.
Qed.

Lemma nosize_flags_eq : nosize_flags = {| f_order := false; f_res := false; f_n32 := false; f_stripe := false;
                                          f_nosize := true; f_cat := false; f_rle := false; f_pack := false |}.
Proof. vm_compute. reflexivity. Qed.

(* aac::encode(Flags::NO_SIZE, chunk): what it is, its length, and that it decodes *)
Lemma aac_nosize_chunk c :
  Forall (fun b => b < 256) c -> N.of_nat (length c) < 268435456 ->
  exists e, aac_encode1 nosize_flags c = AeOk e /\ (length e <= 4 * length c + 8)%nat /\
            f_rle (flags_of_byte (hd 0 e)) = false /\
            aac_decode1 e (N.of_nat (length c)) = DOk c.
Proof.
  intros Hb Hl.
  destruct (aac_full_roundtrip_gen nosize_flags c (fun _ => aac_ent_ok_o0)
              ltac:(rewrite nosize_flags_eq; discriminate) eq_refl eq_refl eq_refl Hb ltac:(lia)) as [e [He Hd]].
  exists e. split; [exact He|]. split; [|split; [|exact Hd]].
  - revert He. rewrite nosize_flags_eq. unfold aac_encode1, nx_pack_stage.
    cbn [f_stripe f_pack f_rle f_cat f_order f_n32 f_nosize].
    destruct c as [|x r]; cbn [f_stripe f_pack f_rle f_cat f_order f_n32 f_nosize orb].
    + intros H; inversion H; subst. cbn [app length]. lia.
    + destruct (aac_o0_encode (x :: r)) as [body|] eqn:Eb; [|discriminate].
      intros H; inversion H; subst. apply aac_o0_encode_len in Eb. cbn [app length] in *. lia.
  - revert He. rewrite nosize_flags_eq. unfold aac_encode1, nx_pack_stage.
    cbn [f_stripe f_pack f_rle f_cat f_order f_n32 f_nosize].
    destruct c as [|x r]; cbn [f_stripe f_pack f_rle f_cat f_order f_n32 f_nosize orb].
    + intros H; inversion H; subst. vm_compute. reflexivity.
    + destruct (aac_o0_encode (x :: r)) as [body|] eqn:Eb; [|discriminate].
      intros H; inversion H; subst. vm_compute. reflexivity.
Qed.

Lemma aac_encode_chunks_spec : forall cs,
  Forall (fun c => Forall (fun b => b < 256) c /\ N.of_nat (length c) < 268435456) cs ->
  exists es, aac_encode_chunks cs = (AeOk [], es) /\ length es = length cs /\
             Forall (fun e => N.of_nat (length e) < 4294967296) es /\
             Forall2 (fun e c => aac_decode2 e (N.of_nat (length c)) = DOk c /\
                                 f_stripe (flags_of_byte (hd 0 e)) = false /\ e <> []) es cs.
Proof.
  induction cs as [|c r IH]; intros Hc.
  - exists []. split; [reflexivity|]. split; [reflexivity|]. split; constructor.
  - inversion Hc as [|? ? [Hb Hl] Hr]; subst. destruct (IH Hr) as [es [He [Hlen [Hsz Hd]]]].
    destruct (aac_nosize_chunk c Hb Hl) as [e [Hen [Hel [Hrle Hde]]]].
    exists (e :: es). split; [cbn [aac_encode_chunks]; rewrite Hen, He; reflexivity|].
    split; [cbn [length]; lia|]. split; [constructor; [lia|exact Hsz]|].
    constructor; [|exact Hd].
    destruct (aac_decode1_ok_nostripe e _ c Hde) as [fb [r0 [Heq Hs]]]. subst e.
    split; [rewrite aac_decode2_eq1 by exact Hrle; exact Hde|]. split; [exact Hs|discriminate].
Qed.

Lemma aac_dec_chunks_spec fu : forall es cs rest,
  Forall2 (fun e c => aac_decode2 e (N.of_nat (length c)) = DOk c /\
                      f_stripe (flags_of_byte (hd 0 e)) = false /\ e <> []) es cs ->
  dec_chunks (aac_decode_rf (S fu)) (map (fun e => N.of_nat (length e)) es) (map (@length N) cs)
             (concat es ++ rest) = (DOk [], cs).
Proof.
  induction es as [|e r IH]; intros cs rest H; inversion H as [|? c ? cr [Hd [Hs Hne]] Hr]; subst; [reflexivity|].
  cbn [map concat dec_chunks]. rewrite Nnat.Nat2N.id. rewrite <- app_assoc. rewrite split_off_app.
  destruct e as [|fb r0]; [congruence|]. cbn [hd] in Hs.
  rewrite aac_decode_rf_S, Hs, Hd. rewrite Nat.eqb_refl. rewrite (IH cr rest Hr). reflexivity.
Qed.

(* EVERY flag byte except EXT, every byte string shorter than 2^28 *)
Theorem aac_all_roundtrip_gen f src :
  (f_stripe f = false -> f_order f = true -> f_rle f = false -> aac_ent_ok aac_o1_encode aac_o1_decode) ->
  (f_stripe f = false -> f_rle f = true -> aac_rle_ok) ->
  f_stripe f = true \/ f_n32 f = false ->
  Forall (fun b => b < 256) src -> N.of_nat (length src) < 268435456 ->
  exists bytes, aac_encode_r f src = AeOk bytes /\ aac_decode_r bytes (N.of_nat (length src)) = DOk src.
Proof.
  intros HO1 HRL Hext Hb Hlen. unfold aac_encode_r. destruct (f_stripe f) eqn:Es.
  2:{ destruct Hext as [Hc|Hext]; [discriminate|].
      destruct (aac_full2_roundtrip_gen f src (HO1 eq_refl) (HRL eq_refl) Es Hext Hb ltac:(lia)) as [bytes [He Hd]].
      exists bytes. split; [exact He|]. unfold aac_decode_r.
      assert (Hns : exists fb r0, bytes = fb :: r0 /\ f_stripe (flags_of_byte fb) = false).
      { revert Hd. unfold aac_decode2. destruct bytes as [|fb r0]; [discriminate|]. intros H.
        exists fb, r0. split; [reflexivity|].
        destruct (if f_nosize (flags_of_byte fb) then U7Ok (N.of_nat (length src)) r0 else read_uint7 r0)
          as [s r| |]; try discriminate.
        destruct (f_stripe (flags_of_byte fb)); [discriminate|reflexivity]. }
      destruct Hns as [fb [r0 [Heq Hs]]]. subst bytes. rewrite aac_decode_rf_S, Hs. exact Hd. }
  unfold aac_encode_s. rewrite Es.
  set (cs := stripe_split 4 src).
  assert (Hcs : Forall (fun c => Forall (fun b => b < 256) c /\ N.of_nat (length c) < 268435456) cs).
  { apply Forall_forall. intros c Hc. split.
    - pose proof (stripe_split_bytes 4 src Hb) as H. rewrite Forall_forall in H. apply H. exact Hc.
    - pose proof (stripe_split_total 4 src ltac:(lia)) as Ht. fold cs in Ht.
      assert (Hle : (length c <= length (concat cs))%nat).
      { clear -Hc. induction cs as [|d r IH]; [destruct Hc|]. cbn [concat]. rewrite app_length.
        destruct Hc as [->|Hc]; [lia|]. specialize (IH Hc). lia. }
      lia. }
  destruct (aac_encode_chunks_spec cs Hcs) as [es [He [Hel [Hesz Hd]]]].
  rewrite He. eexists. split; [reflexivity|].
  assert (Hn4 : length es = 4%nat) by (rewrite Hel; unfold cs; apply stripe_split_length).
  unfold aac_decode_r. rewrite aac_decode_rf_S. destruct (nx_flags_roundtrip f) as [Hfb _]. rewrite Hfb, Es.
  assert (Hsz : (if f_nosize f
                 then U7Ok (N.of_nat (length src))
                        ((if f_nosize f then [] else write_uint7 (N.of_nat (length src))) ++
                         4 :: flat_map (fun e => write_uint7 (N.of_nat (length e))) es ++ concat es)
                 else read_uint7 ((if f_nosize f then [] else write_uint7 (N.of_nat (length src))) ++
                         4 :: flat_map (fun e => write_uint7 (N.of_nat (length e))) es ++ concat es))
                = U7Ok (N.of_nat (length src))
                       (4 :: flat_map (fun e => write_uint7 (N.of_nat (length e))) es ++ concat es)).
  { destruct (f_nosize f); [reflexivity|]. apply uint7_roundtrip. lia. }
  rewrite Hsz. unfold stripe_decode. change (4 =? 0) with false. cbv iota.
  change (N.to_nat 4) with 4%nat. rewrite <- Hn4.
  rewrite rd_sizes_write by exact Hesz. rewrite Hn4, Nnat.Nat2N.id.
  rewrite <- (stripe_split_sizes 4 src) by lia. fold cs.
  rewrite <- (app_nil_r (concat es)).
  cbn [length].
  match goal with |- context [dec_chunks (aac_decode_rf (S ?fu))] => rewrite (aac_dec_chunks_spec fu es cs [] Hd) end.
  f_equal. apply interleave_stripe_split; [lia|].
  pose proof (stripe_split_total 4 src ltac:(lia)) as Ht. fold cs in Ht. lia.
Qed.
