(* rANS Nx16 with STRIPE: for EVERY flag byte the stream written by the model of rans_nx16::encode is
   mapped back to the input by the model of rans_nx16::decode, and the decoder model never panics. *)
From Coq Require Import List NArith ZArith Lia Bool PeanoNat.
From Coq Require Import ZifyBool ZifyNat ZifyN.
From NV Require Import Cram.Bytes Cram.Vlq Cram.IntProofs Cram.Rans4x8 Cram.Rans4x8Proofs
  Cram.Nx16Xform Cram.Nx16XformProofs Cram.Nx16O0 Cram.Nx16O0Total Cram.Nx16O1 Cram.Nx16O1Total
  Cram.Nx16Full Cram.Nx16FullProofs Cram.Nx16O1Full Cram.Nx16Stripe Cram.Nx16StripeLists.
Import ListNotations.
Ltac Zify.zify_post_hook ::= Z.div_mod_to_equations.
Open Scope N_scope.
Arguments N.add : simpl never.
Arguments N.sub : simpl never.
Arguments N.mul : simpl never.
Arguments N.div : simpl never.
Arguments N.modulo : simpl never.
Arguments N.pow : simpl never.
Arguments N.ltb : simpl never.
Arguments N.leb : simpl never.
Arguments N.eqb : simpl never.

(* ---------- the recursive decoder on STRIPE-free streams ---------- *)

Lemma nx_decode_e_ok_nostripe bs u x : nx_decode_e bs u = DOk x ->
  exists fb r0, bs = fb :: r0 /\ f_stripe (flags_of_byte fb) = false.
Proof.
  unfold nx_decode_e. destruct bs as [|fb r0]; [discriminate|]. intros H.
  exists fb, r0. split; [reflexivity|].
  destruct (if f_nosize (flags_of_byte fb) then U7Ok u r0 else read_uint7 r0) as [s r| |]; try discriminate.
  destruct (f_stripe (flags_of_byte fb)); [discriminate|reflexivity].
Qed.

Lemma nx_decode_f_nostripe fu bs u x : nx_decode_e bs u = DOk x -> nx_decode_f (S fu) bs u = DOk x.
Proof.
  intros H. destruct (nx_decode_e_ok_nostripe bs u x H) as [fb [r0 [Hb Hs]]]. subst bs.
  cbn [nx_decode_f]. rewrite Hs. exact H.
Qed.

(* ---------- a sub-stream is shorter than 2^32 ---------- *)

Lemma enc_renorm16_len : forall fuel s f stack s1 stack1,
  enc_renorm16 fuel s f stack = Some (s1, stack1) -> (length stack1 <= length stack + 2 * fuel)%nat.
Proof.
  induction fuel as [|fu IH]; intros s f stack s1 stack1 H; cbn [enc_renorm16] in H; [discriminate|].
  destruct (524288 * f <=? s).
  - apply IH in H. cbn [length] in H. lia.
  - inversion H; subst. lia.
Qed.

Lemma rotr_length (st : list N) : length (rotr st) = length st.
Proof.
  unfold rotr. destruct (rev st) as [|x r] eqn:E.
  - rewrite <- (rev_involutive st), E. reflexivity.
  - cbn [length]. rewrite rev_length. rewrite <- (rev_length st), E. reflexivity.
Qed.

Lemma nx_enc_symbols_len n F C : forall src st stack,
  nx_enc_symbols n F C src = Some (st, stack) ->
  length st = n /\ (length stack <= 6 * length src)%nat.
Proof.
  induction src as [|x r IH]; intros st stack H; cbn [nx_enc_symbols] in H.
  - inversion H; subst. split; [apply repeat_length|cbn [length]; lia].
  - destruct (nx_enc_symbols n F C r) as [[st0 stack0]|] eqn:E; [|discriminate].
    destruct (IH st0 stack0 eq_refl) as [H1 H2].
    pose proof (rotr_length st0) as Hr.
    destruct (rotr st0) as [|s others]; [discriminate|].
    destruct (enc_renorm16 3 s (nth (N.to_nat x) F 0) stack0) as [[s1 stack1]|] eqn:Er; [|discriminate].
    inversion H; subst. apply enc_renorm16_len in Er. cbn [length] in *. split; lia.
Qed.

Lemma write_alphabet_go_len : forall l i p k, (length (write_alphabet_go i l p k) <= 2 * length l + 1)%nat.
Proof.
  induction l as [|a r IH]; intros i p k; cbn [write_alphabet_go length]; [lia|].
  destruct k as [|k']; [|specialize (IH (S i) a k'); lia].
  destruct (negb a); [specialize (IH (S i) a O); lia|].
  destruct ((0 <? i)%nat && p); cbn [length].
  - match goal with |- context [write_alphabet_go (S i) r a ?len] => specialize (IH (S i) a len) end. lia.
  - specialize (IH (S i) a O). lia.
Qed.

Lemma write_freqs0_len : forall F, (length (write_freqs0 F) <= 5 * length F)%nat.
Proof.
  induction F as [|f r IH]; cbn [write_freqs0 flat_map length]; [lia|].
  fold (write_freqs0 r). rewrite app_length. destruct (0 <? f).
  - pose proof (write_uint7_len_le f). lia.
  - cbn [length]. lia.
Qed.

Lemma flat_map_le32_len : forall st, length (flat_map le32_bytes st) = (4 * length st)%nat.
Proof. induction st as [|s r IH]; cbn [flat_map length]; [reflexivity|]. rewrite app_length, IH. cbn [le32_bytes length]. lia. Qed.

Lemma nx_o0_encode_len n src body : nx_o0_encode n src = EncOk body ->
  (length body <= 6 * length src + 4 * n + 1793)%nat.
Proof.
  unfold nx_o0_encode. destruct (nx_normalize (raw_frequencies src)) as [F|] eqn:EF; [|discriminate].
  destruct (nx_enc_symbols n F (cumulative F) src) as [[st stack]|] eqn:Es; [|discriminate].
  intros H; inversion H; subst body.
  destruct (Nx16O0Proofs.nx_normalize_table _ F (raw_frequencies_length src) EF) as [HFl _].
  destruct (nx_enc_symbols_len n F _ src st stack Es) as [H1 H2].
  rewrite !app_length, flat_map_le32_len.
  pose proof (write_alphabet_go_len (alphabet_of F) 0 false 0) as Ha. fold (write_alphabet (alphabet_of F)) in Ha.
  unfold alphabet_of in Ha at 2. rewrite map_length in Ha.
  pose proof (write_freqs0_len F). lia.
Qed.

(* rans_nx16::encode(Flags::NO_SIZE, chunk): at most 6 bytes per input byte plus the tables *)
Lemma nosize_encode_len c e : nx_encode_e nosize_flags c = NeOk e ->
  (length e <= 6 * length c + 1810)%nat.
Proof.
  assert (Hf : nosize_flags = {| f_order := false; f_res := false; f_n32 := false; f_stripe := false;
                                 f_nosize := true; f_cat := false; f_rle := false; f_pack := false |})
    by (vm_compute; reflexivity).
  rewrite Hf. unfold nx_encode_e, nx_pack_stage, nx_rle_stage.
  cbn [f_stripe f_pack f_rle f_cat f_order f_n32 f_nosize state_count force_cat].
  destruct (length c <? 4)%nat eqn:E;
    cbn [f_stripe f_pack f_rle f_cat f_order f_n32 f_nosize state_count force_cat].
  - intros H; inversion H; subst. cbn [app length]. lia.
  - destruct (nx_o0_encode 4 c) as [body| | |] eqn:Eb; try discriminate.
    intros H; inversion H; subst. apply nx_o0_encode_len in Eb. cbn [app length]. lia.
Qed.

Lemma nx_decode_f_S fu fb r0 usize :
  nx_decode_f (S fu) (fb :: r0) usize =
  if f_stripe (flags_of_byte fb) then
    match (if f_nosize (flags_of_byte fb) then U7Ok usize r0 else read_uint7 r0) with
    | U7Ok size0 r1 => stripe_decode (nx_decode_f fu) r1 size0
    | _ => DErr
    end
  else nx_decode_e (fb :: r0) usize.
Proof. reflexivity. Qed.

(* ---------- sizes and sub-streams ---------- *)

Lemma rd_sizes_write : forall (es : list (list N)) rest,
  Forall (fun e => N.of_nat (length e) < 4294967296) es ->
  rd_sizes (length es) (flat_map (fun e => write_uint7 (N.of_nat (length e))) es ++ rest)
  = Some (map (fun e => N.of_nat (length e)) es, rest).
Proof.
  induction es as [|e r IH]; intros rest Hs; [reflexivity|].
  inversion Hs as [|? ? He Hr]; subst.
  cbn [length rd_sizes flat_map map]. rewrite <- app_assoc. rewrite uint7_roundtrip by exact He.
  rewrite IH by exact Hr. reflexivity.
Qed.

(* what encode_chunks returns when every chunk round trips *)
Lemma encode_chunks_spec : forall cs,
  Forall (fun c => Forall (fun b => b < 256) c /\ N.of_nat (length c) < 268435456) cs ->
  exists es, encode_chunks cs = (NeOk [], es) /\ length es = length cs /\
             Forall (fun e => N.of_nat (length e) < 4294967296) es /\
             Forall2 (fun e c => nx_decode_e e (N.of_nat (length c)) = DOk c) es cs.
Proof.
  induction cs as [|c r IH]; intros Hc.
  - exists []. split; [reflexivity|]. split; [reflexivity|]. split; constructor.
  - inversion Hc as [|? ? [Hb Hl] Hr]; subst. destruct (IH Hr) as [es [He [Hlen [Hsz Hd]]]].
    destruct (nx_full_roundtrip_o0 nosize_flags c eq_refl eq_refl Hb Hl) as [e [Hen Hde]].
    pose proof (nosize_encode_len c e Hen) as Hel.
    exists (e :: es). split; [cbn [encode_chunks]; rewrite Hen, He; reflexivity|].
    split; [cbn [length]; lia|]. split; constructor; try assumption. lia.
Qed.

Lemma dec_chunks_spec fu : forall es cs rest,
  Forall2 (fun e c => nx_decode_e e (N.of_nat (length c)) = DOk c) es cs ->
  dec_chunks (nx_decode_f (S fu)) (map (fun e => N.of_nat (length e)) es) (map (@length N) cs)
             (concat es ++ rest) = (DOk [], cs).
Proof.
  induction es as [|e r IH]; intros cs rest H; inversion H as [|? c ? cr Hd Hr]; subst; [reflexivity|].
  cbn [map concat dec_chunks]. rewrite Nnat.Nat2N.id. rewrite <- app_assoc. rewrite split_off_app.
  rewrite (nx_decode_f_nostripe fu e _ c Hd). rewrite Nat.eqb_refl. rewrite (IH cr rest Hr). reflexivity.
Qed.

(* ---------- the whole stream, every flag byte ---------- *)

(* For EVERY flag byte (STRIPE, ORDER, N32, NO_SIZE, CAT, RLE, PACK, reserved bit) and every byte
   string shorter than 2^28: the model of rans_nx16::encode never panics or diverges and the model
   of rans_nx16::decode returns the input from the emitted stream. *)
Theorem nx_stripe_roundtrip f src :
  Forall (fun b => b < 256) src -> N.of_nat (length src) < 268435456 ->
  exists bytes, nx_encode_s f src = NeOk bytes /\ nx_decode_s bytes (N.of_nat (length src)) = DOk src.
Proof.
  intros Hb Hlen. unfold nx_encode_s. destruct (f_stripe f) eqn:Es.
  2:{ destruct (nx_full_roundtrip f src Es Hb Hlen) as [bytes [He Hd]].
      exists bytes. split; [exact He|]. unfold nx_decode_s. apply nx_decode_f_nostripe. exact Hd. }
  set (cs := stripe_split 4 src).
  assert (Hcs : Forall (fun c => Forall (fun b => b < 256) c /\ N.of_nat (length c) < 268435456) cs).
  { apply Forall_forall. intros c Hc. split.
    - pose proof (stripe_split_bytes 4 src Hb) as H. rewrite Forall_forall in H. apply H. exact Hc.
    - pose proof (stripe_split_total 4 src ltac:(lia)) as Ht. fold cs in Ht.
      assert (Hle : (length c <= length (concat cs))%nat).
      { clear -Hc. induction cs as [|d r IH]; [destruct Hc|]. cbn [concat]. rewrite app_length.
        destruct Hc as [->|Hc]; [lia|]. specialize (IH Hc). lia. }
      lia. }
  destruct (encode_chunks_spec cs Hcs) as [es [He [Hel [Hesz Hd]]]].
  rewrite He. eexists. split; [reflexivity|].
  assert (Hn4 : length es = 4%nat) by (rewrite Hel; unfold cs; apply stripe_split_length).
  unfold nx_decode_s. rewrite nx_decode_f_S. destruct (nx_flags_roundtrip f) as [Hfb _]. rewrite Hfb, Es.
  assert (Hsz : (if f_nosize f
                 then U7Ok (N.of_nat (length src))
                        ((if f_nosize f then [] else write_uint7 (N.of_nat (length src))) ++
                         4 :: flat_map (fun e => write_uint7 (N.of_nat (length e))) es ++ concat es)
                 else read_uint7 ((if f_nosize f then [] else write_uint7 (N.of_nat (length src))) ++
                         4 :: flat_map (fun e => write_uint7 (N.of_nat (length e))) es ++ concat es))
                = U7Ok (N.of_nat (length src))
                       (4 :: flat_map (fun e => write_uint7 (N.of_nat (length e))) es ++ concat es)).
  { destruct (f_nosize f); [reflexivity|]. apply uint7_roundtrip. lia. }
  rewrite Hsz. unfold stripe_decode. change (4 =? 0) with false. cbv iota.
  change (N.to_nat 4) with 4%nat. rewrite <- Hn4.
  rewrite rd_sizes_write by exact Hesz. rewrite Hn4, Nnat.Nat2N.id.
  rewrite <- (stripe_split_sizes 4 src) by lia. fold cs.
  rewrite <- (app_nil_r (concat es)).
  cbn [length].
  match goal with |- context [dec_chunks (nx_decode_f (S ?fu))] => rewrite (dec_chunks_spec fu es cs [] Hd) end.
  f_equal. apply interleave_stripe_split; [lia|].
  pose proof (stripe_split_total 4 src ltac:(lia)) as Ht. fold cs in Ht. lia.
Qed.

(* ---------- the decoder never panics ---------- *)

Lemma rd_sizes_rest (P : N -> Prop) : forall n bs l r, rd_sizes n bs = Some (l, r) -> Forall P bs -> Forall P r.
Proof.
  induction n as [|n IH]; intros bs l r H HP; cbn [rd_sizes] in H; [inversion H; subst; exact HP|].
  destruct (read_uint7 bs) as [v b1| |] eqn:E; try discriminate.
  destruct (rd_sizes n b1) as [[l' b2]|] eqn:E2; [|discriminate]. inversion H; subst.
  eapply IH; [exact E2|]. eapply read_uint7_rest; [exact E|exact HP].
Qed.

Lemma dec_chunks_never_panics (dec : list N -> N -> nxd_result) :
  (forall bs u, Forall (fun b => b < 256) bs -> dec bs u <> DPanic) ->
  forall cz uz bs, Forall (fun b => b < 256) bs -> fst (dec_chunks dec cz uz bs) <> DPanic.
Proof.
  intros Hdec. induction cz as [|c cr IH]; intros uz bs HP; cbn [dec_chunks]; [discriminate|].
  destruct uz as [|u ur]; [discriminate|].
  destruct (split_off bs (N.to_nat c)) as [[buf b1]|] eqn:ES; [|discriminate].
  destruct (split_off_rest _ _ _ _ _ ES HP) as [Hbuf Hb1].
  destruct (dec buf (N.of_nat u)) as [chunk| | |] eqn:ED; try discriminate.
  - destruct (length chunk =? u)%nat; [|discriminate].
    specialize (IH ur b1 Hb1). destruct (dec_chunks dec cr ur b1) as [[d| | |] l]; cbn [fst] in *; congruence.
  - exfalso. exact (Hdec buf _ Hbuf ED).
Qed.

Lemma nx_decode_f_never_panics : forall fuel bs usize,
  Forall (fun b => b < 256) bs -> nx_decode_f fuel bs usize <> DPanic.
Proof.
  induction fuel as [|fu IH]; intros bs usize HP; cbn [nx_decode_f]; [discriminate|].
  destruct bs as [|fb r0]; [discriminate|].
  destruct (f_stripe (flags_of_byte fb)); [|apply nx_decode_e_never_panics; exact HP].
  pose proof (Forall_inv_tail HP) as Hr0.
  destruct (if f_nosize (flags_of_byte fb) then U7Ok usize r0 else read_uint7 r0) as [size0 r1| |] eqn:E;
    try discriminate.
  assert (Hr1 : Forall (fun b => b < 256) r1).
  { destruct (f_nosize (flags_of_byte fb)); [inversion E; subst; exact Hr0|].
    eapply read_uint7_rest; [exact E|exact Hr0]. }
  unfold stripe_decode. destruct r1 as [|c b0]; [discriminate|].
  destruct (c =? 0); [discriminate|].
  destruct (rd_sizes (N.to_nat c) b0) as [[csizes b1]|] eqn:ER; [|discriminate].
  pose proof (rd_sizes_rest _ _ _ _ _ ER (Forall_inv_tail Hr1)) as Hb1.
  pose proof (dec_chunks_never_panics (nx_decode_f fu) (fun bs u H => IH bs u H)
                csizes (stripe_sizes (N.to_nat size0) (N.to_nat c)) b1 Hb1) as Hd.
  destruct (dec_chunks (nx_decode_f fu) csizes (stripe_sizes (N.to_nat size0) (N.to_nat c)) b1)
    as [[d| | |] l]; cbn [fst] in Hd; congruence.
Qed.

(* for EVERY byte string and caller size the model of rans_nx16::decode -- STRIPE with nested
   sub-streams, PACK / RLE contexts, CAT, order 0 and order 1 -- has no panicking path *)
Theorem nx_decode_s_never_panics bs usize :
  Forall (fun b => b < 256) bs -> nx_decode_s bs usize <> DPanic.
Proof. apply nx_decode_f_never_panics. Qed.
