(* rANS Nx16 order 1: the serialised frequency table.  What the encoder's write_context emits
   (0xC0 = 12 bits, not compressed; the alphabet; for every context of the alphabet the frequencies
   of the alphabet's symbols as uint7, a zero being followed by a byte counting the further zeros,
   which are skipped) is read back by the model of noodles' read_frequencies as the same 256x256
   table. *)
From Coq Require Import List NArith ZArith Lia Bool PeanoNat.
From Coq Require Import ZifyBool ZifyNat ZifyN.
From NV Require Import Cram.Bytes Cram.Vlq Cram.IntProofs Cram.Rans4x8 Cram.Rans4x8Proofs
  Cram.Rans4x8O1 Cram.Rans4x8O1Proofs Cram.Nx16O0 Cram.Nx16O0Proofs Cram.Nx16O0Table
  Cram.Nx16O1 Cram.Nx16O1Defs.
Import ListNotations.
Ltac Zify.zify_post_hook ::= Z.div_mod_to_equations.
Open Scope N_scope.
Arguments N.add : simpl never.
Arguments N.sub : simpl never.
Arguments N.mul : simpl never.
Arguments N.div : simpl never.
Arguments N.modulo : simpl never.
Arguments N.pow : simpl never.
Arguments N.ltb : simpl never.
Arguments N.leb : simpl never.
Arguments N.eqb : simpl never.

(* ---------- list helpers ---------- *)

Lemma Forall2_of_nth {X Y} (P : X -> Y -> Prop) (dx : X) (dy : Y) : forall (l1 : list X) (l2 : list Y),
  length l1 = length l2 ->
  (forall j, (j < length l1)%nat -> P (nth j l1 dx) (nth j l2 dy)) ->
  Forall2 P l1 l2.
Proof.
  induction l1 as [|x l1 IH]; intros [|y l2] Hl Hn; cbn [length] in Hl; try discriminate.
  - constructor.
  - constructor.
    + apply (Hn O). cbn [length]. lia.
    + apply IH; [lia|]. intros j Hj. apply (Hn (S j)). cbn [length]. lia.
Qed.

Lemma all_zero_repeat : forall l : list N, (forall j, nth j l 0 = 0) -> l = repeat 0 (length l).
Proof.
  induction l as [|x l IH]; intros Hz; [reflexivity|].
  cbn [length repeat]. f_equal.
  - exact (Hz O).
  - apply IH. intros j. exact (Hz (S j)).
Qed.

(* ---------- one row ---------- *)

(* outside the alphabet the row is 0 *)
Definition row_supp (a : bool) (f : N) : Prop := a = false -> f = 0.

Lemma write_uint7_0 : write_uint7 0 = [0].
Proof. reflexivity. Qed.

(* the reader, with [k] symbols of the alphabet still to skip, reads what the writer emits with
   [k] entries still to skip -- which are zeros *)
Lemma rd_row_wr : forall A fs k tail,
  Forall2 row_supp A fs ->
  Forall (fun f => f < 4294967296) fs ->
  (k <= zero_run (select A fs))%nat ->
  rd_row A (wr_row (select A fs) k ++ tail) k = Some (fs, tail).
Proof.
  induction A as [|a A IH]; intros fs k tail Hs Hf Hk.
  - inversion Hs; subst. reflexivity.
  - inversion Hs as [|? f ? fs' Hsa Hs']; subst.
    inversion Hf as [|? ? Hf0 Hf']; subst.
    cbn [select] in Hk |- *. destruct a.
    + cbn [zero_run] in Hk. cbn [wr_row rd_row]. destruct k as [|k'].
      * destruct (f =? 0) eqn:Ez.
        -- assert (Hf00 : f = 0) by lia. subst f.
           rewrite <- app_assoc. rewrite uint7_roundtrip by lia.
           change (0 =? 0) with true. cbn [app]. rewrite Nnat.Nat2N.id.
           rewrite IH; [reflexivity|exact Hs'|exact Hf'|lia].
        -- rewrite <- app_assoc. rewrite uint7_roundtrip by exact Hf0. rewrite Ez.
           rewrite IH; [reflexivity|exact Hs'|exact Hf'|lia].
      * destruct (f =? 0) eqn:Ez; [|lia].
        assert (Hf00 : f = 0) by lia. subst f.
        rewrite IH; [reflexivity|exact Hs'|exact Hf'|lia].
    + cbn [rd_row]. rewrite (Hsa eq_refl).
      rewrite IH; [reflexivity|exact Hs'|exact Hf'|exact Hk].
Qed.

(* ---------- all rows ---------- *)

Definition rows_cond (A : list bool) (a : bool) (fs : list N) : Prop :=
  if a then Forall2 row_supp A fs /\ Forall (fun f => f < 4294967296) fs /\
            dec_normalize 4096 fs = Some fs
  else fs = zeros256.

Lemma rd_rows_wr : forall A Asel Fs rest,
  Forall2 (rows_cond A) Asel Fs ->
  rd_rows 4096 A Asel (wr_rows A Asel Fs ++ rest) = Some (Fs, rest).
Proof.
  intros A. induction Asel as [|a Asel IH]; intros Fs rest HF.
  - inversion HF; subst. reflexivity.
  - inversion HF as [|? fs ? Fs' Hc HF']; subst.
    cbn [wr_rows rd_rows]. destruct a; cbn [rows_cond] in Hc.
    + destruct Hc as [Hs [Hf Hn]].
      rewrite <- app_assoc. rewrite rd_row_wr; [|exact Hs|exact Hf|lia].
      rewrite Hn. rewrite IH by exact HF'. reflexivity.
    + rewrite IH by exact HF'. subst fs. reflexivity.
Qed.

(* ---------- the table ---------- *)

Lemma dec_normalize_zeros : dec_normalize 4096 zeros256 = Some zeros256.
Proof. vm_compute. reflexivity. Qed.

Lemma sumN_zeros256 : sumN zeros256 = 0.
Proof. unfold zeros256. apply sumN_repeat0. Qed.

Lemma row_of_nat F1 j : row F1 (N.of_nat j) = nth j F1 zeros256.
Proof. unfold row. rewrite Nnat.Nat2N.id. reflexivity. Qed.

Lemma o1_rows_cond A F1 :
  length A = 256%nat -> o1_table_ok F1 -> o1_support A F1 -> Forall2 (rows_cond A) A F1.
Proof.
  intros HA [HFl Hrow] Hsup.
  apply (Forall2_of_nth (rows_cond A) false zeros256); [lia|].
  intros i Hi. rewrite <- row_of_nat.
  assert (Hi' : N.of_nat i < 256) by lia.
  destruct (Hrow _ Hi') as [Hrl Hsum].
  set (r := row F1 (N.of_nat i)) in *.
  destruct (nth i A false) eqn:Ea; cbn [rows_cond].
  - split; [|split].
    + apply (Forall2_of_nth row_supp false 0); [lia|].
      intros j Hj. unfold row_supp. intros Haj.
      destruct (N.eq_dec (nth j r 0) 0) as [Hz|Hnz]; [exact Hz|exfalso].
      assert (Hpos : 0 < nth (N.to_nat (N.of_nat j)) r 0) by (rewrite Nnat.Nat2N.id; lia).
      destruct (Hsup _ _ Hpos) as [_ Htj]. rewrite Nnat.Nat2N.id in Htj. congruence.
    + assert (Hle : sumN r <= 4096).
      { destruct Hsum as [Hs|Hs]; [lia|]. rewrite Hs, sumN_zeros256. lia. }
      eapply Forall_impl; [|apply (Forall_le_sum r 4096 Hle)]. cbn beta. intros a Ha. lia.
    + destruct Hsum as [Hs|Hs]; [apply dec_normalize_exact; exact Hs|].
      rewrite Hs. apply dec_normalize_zeros.
  - assert (Hz : forall j, nth j r 0 = 0).
    { intros j. destruct (N.eq_dec (nth j r 0) 0) as [Hz|Hnz]; [exact Hz|exfalso].
      assert (Hpos : 0 < nth (N.to_nat (N.of_nat j)) r 0) by (rewrite Nnat.Nat2N.id; lia).
      destruct (Hsup _ _ Hpos) as [Hti _]. rewrite Nnat.Nat2N.id in Hti. congruence. }
    rewrite (all_zero_repeat r Hz). rewrite Hrl. reflexivity.
Qed.

(* The order-1 frequency table as the encoder writes it is read back by the decoder's reader as
   the same table (and 12 bits). *)
Theorem o1_table_roundtrip A F1 rest :
  length A = 256%nat -> nth 0 A false = true ->
  o1_table_ok F1 -> o1_support A F1 ->
  read_freqs1 (192 :: write_alphabet A ++ wr_rows A A F1 ++ rest) = ROk (4096, F1, rest).
Proof.
  intros HA H0 Hok Hsup. unfold read_freqs1.
  change (N.odd 192) with false. change (2 ^ (192 / 16)) with 4096. cbv iota.
  unfold rd_freqs1_inner.
  rewrite alphabet_roundtrip; [|exact HA|].
  2:{ rewrite <- H0. apply nth_In. lia. }
  rewrite rd_rows_wr by (apply o1_rows_cond; assumption).
  reflexivity.
Qed.

Print Assumptions o1_table_roundtrip.
