(* rANS 4x8 order 1, payload: whatever the four interleaved states of the (model of the) noodles
   encoder emit for the four quarters and the remainder is decoded back by the specification's
   RansDecode1 (NV.Cram.Rans4x8 part 2), for every 256x256 table that gives each (context, symbol)
   pair that is coded a non-zero frequency and whose rows sum to at most 4096. *)
From Coq Require Import List NArith ZArith Lia Bool.
From Coq Require Import ZifyBool ZifyNat ZifyN.
From NV Require Import Cram.Bytes Cram.Itf8 Cram.Rans4x8 Cram.Rans4x8Proofs Cram.Rans4x8O1.
Import ListNotations.
Ltac Zify.zify_post_hook ::= Z.div_mod_to_equations.
Open Scope N_scope.
Arguments N.add : simpl never.
Arguments N.sub : simpl never.
Arguments N.mul : simpl never.
Arguments N.div : simpl never.
Arguments N.modulo : simpl never.
Arguments N.pow : simpl never.
Arguments N.ltb : simpl never.
Arguments N.leb : simpl never.
Arguments N.eqb : simpl never.

(* the pair (context i, symbol j) can be coded with the table F1 *)
Definition ok1 (F1 : list (list N)) (i j : N) : Prop :=
  sumN (row F1 i) <= 4096 /\ (N.to_nat j < length (row F1 i))%nat /\ 0 < nth (N.to_nat j) (row F1 i) 0.

(* every symbol of [l] can be coded in the context of its predecessor, the first one in [k] *)
Fixpoint chain (P : N -> N -> Prop) (k : N) (l : list N) : Prop :=
  match l with
  | [] => True
  | x :: r => P k x /\ chain P x r
  end.

Lemma cumulative_zeros256 : cumulative zeros256 = zeros256.
Proof. vm_compute. reflexivity. Qed.

Lemma row_map_cumulative F1 i : row (map cumulative F1) i = cumulative (row F1 i).
Proof.
  unfold row. rewrite <- cumulative_zeros256 at 1. apply map_nth.
Qed.

Definition mk1 (s ctx : N) : o1_state := {| o1_R := s; o1_L := ctx |}.

(* one symbol: renormalise + step, undone by one RansDecode1 step of the same state *)
Lemma enc1_put_spec F1 ctx x s stack :
  ok1 F1 ctx x -> state_ok s ->
  exists s' em,
    enc1_put F1 (map cumulative F1) ctx x s stack = Some (s', em ++ stack) /\ state_ok s' /\
    forall rest, spec_o1_one F1 (mk1 s' ctx) (em ++ rest) = Some (x, mk1 s x, rest).
Proof.
  intros [Hsum [Hx Hf]] Hs. unfold enc1_put.
  set (F := row F1 ctx) in *. set (f := nth (N.to_nat x) F 0) in *.
  assert (Hf4096 : f <= 4096).
  { pose proof (sum_firstn_nth_le F _ Hx) as H. fold f in H. lia. }
  destruct (enc_renorm_terminates s f stack Hf ltac:(unfold state_ok in Hs; lia)) as [s1 [stack1 Hr]].
  destruct (rans_renorm_inverse s f stack s1 stack1 Hs Hf4096 Hr) as [em [Hst [Hrd Hb]]].
  rewrite Hr. rewrite row_map_cumulative. fold F.
  exists (enc_step s1 f (nth (N.to_nat x) (cumulative F) 0)), em.
  split; [rewrite Hst; reflexivity|]. split.
  - unfold state_ok. rewrite cumulative_nth by exact Hx.
    apply rans_step_range; try lia.
    pose proof (sum_firstn_nth_le F _ Hx) as H. fold f in H. lia.
  - intros rest. unfold spec_o1_one, mk1. cbn [o1_R o1_L]. fold F.
    unfold f. rewrite (spec_decode_one_enc F x s1 em s rest Hsum Hx Hf Hb Hrd). reflexivity.
Qed.

(* the remainder, coded by the fourth state *)
Lemma enc1_tail_spec F1 : forall l ctx,
  chain (ok1 F1) ctx l ->
  exists s stack,
    enc1_tail F1 (map cumulative F1) ctx l = Some (s, stack) /\ state_ok s /\
    forall rest, spec_decode1_tail (length l) F1 (mk1 s ctx) (stack ++ rest) = Some (l, rest).
Proof.
  induction l as [|x r IH]; intros ctx Hc.
  - exists LOWER_BOUND, []. split; [reflexivity|]. split; [unfold state_ok, LOWER_BOUND; lia|].
    intros rest. reflexivity.
  - destruct Hc as [Hk Hc]. destruct (IH x Hc) as [s [stack [He [Hs Hd]]]].
    destruct (enc1_put_spec F1 ctx x s stack Hk Hs) as [s' [em [Hp [Hs' Hone]]]].
    exists s', (em ++ stack). split; [cbn [enc1_tail]; rewrite He; exact Hp|]. split; [exact Hs'|].
    intros rest. cbn [length spec_decode1_tail]. rewrite <- app_assoc. rewrite Hone.
    rewrite Hd. reflexivity.
Qed.

(* the four quarters and the remainder *)
Theorem rans4x8_o1_core_roundtrip F1 : forall c0 c1 c2 c3 rem k0 k1 k2 k3,
  length c1 = length c0 -> length c2 = length c0 -> length c3 = length c0 ->
  chain (ok1 F1) k0 c0 -> chain (ok1 F1) k1 c1 -> chain (ok1 F1) k2 c2 ->
  chain (ok1 F1) k3 (c3 ++ rem) ->
  exists s0 s1 s2 s3 stack,
    enc1_main F1 (map cumulative F1) k0 k1 k2 k3 c0 c1 c2 c3 rem = Some (s0, s1, s2, s3, stack) /\
    state_ok s0 /\ state_ok s1 /\ state_ok s2 /\ state_ok s3 /\
    forall rest, exists sl mid,
      spec_decode1_main (length c0) F1 (mk1 s0 k0) (mk1 s1 k1) (mk1 s2 k2) (mk1 s3 k3) (stack ++ rest)
        = Some (c0, c1, c2, c3, sl, mid) /\
      spec_decode1_tail (length rem) F1 sl mid = Some (rem, rest).
Proof.
  induction c0 as [|x0 r0 IH]; intros c1 c2 c3 rem k0 k1 k2 k3 H1 H2 H3 Hc0 Hc1 Hc2 Hc3.
  - destruct c1; [|discriminate H1]. destruct c2; [|discriminate H2]. destruct c3; [|discriminate H3].
    cbn [app] in Hc3. destruct (enc1_tail_spec F1 rem k3 Hc3) as [s [stack [He [Hs Hd]]]].
    exists LOWER_BOUND, LOWER_BOUND, LOWER_BOUND, s, stack.
    assert (HL : state_ok LOWER_BOUND) by (unfold state_ok, LOWER_BOUND; lia).
    split; [cbn [enc1_main]; rewrite He; reflexivity|]. repeat (split; [assumption|]).
    intros rest. exists (mk1 s k3), (stack ++ rest). split; [reflexivity|]. apply Hd.
  - destruct c1 as [|x1 r1]; [discriminate H1|]. destruct c2 as [|x2 r2]; [discriminate H2|].
    destruct c3 as [|x3 r3]; [discriminate H3|].
    cbn [length] in H1, H2, H3. cbn [app] in Hc3.
    destruct Hc0 as [Hk0 Hc0]. destruct Hc1 as [Hk1 Hc1]. destruct Hc2 as [Hk2 Hc2]. destruct Hc3 as [Hk3 Hc3].
    destruct (IH r1 r2 r3 rem x0 x1 x2 x3 ltac:(lia) ltac:(lia) ltac:(lia) Hc0 Hc1 Hc2 Hc3)
      as [s0 [s1 [s2 [s3 [st [He [Hs0 [Hs1 [Hs2 [Hs3 Hd]]]]]]]]]].
    destruct (enc1_put_spec F1 k3 x3 s3 st Hk3 Hs3) as [s3' [em3 [Hp3 [Hs3' Hone3]]]].
    destruct (enc1_put_spec F1 k2 x2 s2 (em3 ++ st) Hk2 Hs2) as [s2' [em2 [Hp2 [Hs2' Hone2]]]].
    destruct (enc1_put_spec F1 k1 x1 s1 (em2 ++ em3 ++ st) Hk1 Hs1) as [s1' [em1 [Hp1 [Hs1' Hone1]]]].
    destruct (enc1_put_spec F1 k0 x0 s0 (em1 ++ em2 ++ em3 ++ st) Hk0 Hs0) as [s0' [em0 [Hp0 [Hs0' Hone0]]]].
    exists s0', s1', s2', s3', (em0 ++ em1 ++ em2 ++ em3 ++ st).
    split.
    { cbn [enc1_main]. rewrite He, Hp3, Hp2, Hp1, Hp0. reflexivity. }
    repeat (split; [assumption|]).
    intros rest. destruct (Hd rest) as [sl [mid [Hm Ht]]].
    exists sl, mid. split; [|exact Ht].
    cbn [length spec_decode1_main]. rewrite <- !app_assoc.
    rewrite Hone0, Hone1, Hone2, Hone3. rewrite Hm. reflexivity.
Qed.
