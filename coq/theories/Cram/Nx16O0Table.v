(* rANS Nx16 order 0: the alphabet and frequency-table writer is inverted by noodles' reader, and
   the WHOLE order-0 stream (alphabet, frequencies, N states, payload) written by the model of
   noodles' encoder is decoded back to the input by the model of noodles' decoder. *)
From Coq Require Import List NArith ZArith Lia Bool PeanoNat.
From Coq Require Import ZifyBool ZifyNat ZifyN.
From NV Require Import Cram.Bytes Cram.Vlq Cram.IntProofs Cram.Rans4x8 Cram.Rans4x8Proofs
  Cram.Rans4x8Table Cram.Nx16O0 Cram.Nx16O0Proofs.
Import ListNotations.
Ltac Zify.zify_post_hook ::= Z.div_mod_to_equations.
Open Scope N_scope.
Arguments N.add : simpl never.
Arguments N.sub : simpl never.
Arguments N.mul : simpl never.
Arguments N.div : simpl never.
Arguments N.modulo : simpl never.
Arguments N.pow : simpl never.
Arguments N.ltb : simpl never.
Arguments N.leb : simpl never.
Arguments N.eqb : simpl never.

(* ---------- list helpers ---------- *)

Lemma updb_app_here : forall (pre : list bool) x tl v,
  updb (pre ++ x :: tl) (length pre) v = pre ++ v :: tl.
Proof. induction pre as [|a p IH]; intros x tl v; cbn [app length updb]; [reflexivity|now rewrite IH]. Qed.

Lemma updb_length : forall l i v, length (updb l i v) = length l.
Proof. induction l as [|x r IH]; intros [|i] v; cbn [updb length]; try reflexivity; now rewrite IH. Qed.

Lemma set_range_length : forall n A s, length (set_range A s n) = length A.
Proof. induction n as [|n IH]; intros A s; cbn [set_range]; [reflexivity|]. rewrite IH. apply updb_length. Qed.

Lemma set_range_spec : forall n pre l, (n <= length l)%nat ->
  set_range (pre ++ l) (length pre) n = pre ++ repeat true n ++ skipn n l.
Proof.
  induction n as [|n IH]; intros pre l Hn; cbn [set_range repeat skipn app]; [reflexivity|].
  destruct l as [|x l']; [cbn [length] in Hn; lia|].
  rewrite updb_app_here.
  replace (pre ++ true :: l') with ((pre ++ [true]) ++ l') by (rewrite <- app_assoc; reflexivity).
  replace (S (length pre)) with (length (pre ++ [true])) by (rewrite app_length; cbn [length]; lia).
  rewrite IH by (cbn [length] in Hn; lia). rewrite <- app_assoc. reflexivity.
Qed.

Lemma skipn_repeat {T} (x : T) : forall n k, skipn n (repeat x k) = repeat x (k - n).
Proof.
  induction n as [|n IH]; intros k; [rewrite Nat.sub_0_r; reflexivity|].
  destruct k as [|k]; [reflexivity|]. cbn [repeat skipn]. rewrite IH. reflexivity.
Qed.

Lemma pos_false_some : forall r n, pos_false r = Some n -> exists r2, r = repeat true n ++ false :: r2.
Proof.
  induction r as [|b r IH]; intros n H; cbn [pos_false] in H; [discriminate|].
  destruct b.
  - destruct (pos_false r) as [k|] eqn:E; cbn [option_map] in H; [|discriminate].
    inversion H; subst n. destruct (IH k eq_refl) as [r2 Hr2]. exists r2.
    cbn [repeat app]. f_equal. exact Hr2.
  - inversion H; subst n. exists r. reflexivity.
Qed.

Lemma pos_false_none : forall r, pos_false r = None -> r = repeat true (length r).
Proof.
  induction r as [|b r IH]; intros H; cbn [pos_false] in H; [reflexivity|].
  destruct b; [|discriminate].
  destruct (pos_false r) as [k|] eqn:E; cbn [option_map] in H; [discriminate|].
  cbn [length repeat]. f_equal. apply IH. reflexivity.
Qed.

(* ---------- write_alphabet ---------- *)

Lemma write_go_skip : forall n i l2,
  write_alphabet_go i (repeat true n ++ l2) true n = write_alphabet_go (i + n) l2 true 0.
Proof.
  induction n as [|n IH]; intros i l2; cbn [repeat app].
  - rewrite Nat.add_0_r. reflexivity.
  - cbn [write_alphabet_go]. rewrite IH. f_equal. lia.
Qed.

Lemma write_go_skip_false : forall m i l2,
  write_alphabet_go i (repeat false m ++ l2) false 0 = write_alphabet_go (i + m) l2 false 0.
Proof.
  induction m as [|m IH]; intros i l2; cbn [repeat app].
  - rewrite Nat.add_0_r. reflexivity.
  - cbn [write_alphabet_go negb]. rewrite IH. f_equal. lia.
Qed.

Lemma write_go_nonempty : forall l i p k, (1 <= length (write_alphabet_go i l p k))%nat.
Proof.
  induction l as [|a r IH]; intros i p k; cbn [write_alphabet_go]; [cbn [length]; lia|].
  destruct k as [|k']; [|apply IH].
  destruct (negb a); [apply IH|].
  destruct ((0 <? i)%nat && p); cbn [length]; lia.
Qed.

(* the reader, started after the symbol [pv] was read and every table entry below [length done]
   is final, reads what the writer emits for the remaining entries [l] *)
Lemma rd_alpha_write : forall n l done p pv tail fuel,
  (length l <= n)%nat ->
  (length done + length l <= 256)%nat -> (0 < length done)%nat ->
  pv < N.of_nat (length done) -> (p = true <-> pv = N.of_nat (length done) - 1) ->
  (length (write_alphabet_go (length done) l p 0) <= fuel)%nat ->
  rd_alpha_go fuel (write_alphabet_go (length done) l p 0 ++ tail) pv (done ++ repeat false (length l))
  = Some (done ++ l, tail).
Proof.
  induction n as [|n IH]; intros l done p pv tail fuel Hn H256 Hd Hpv Hp Hfuel.
  - destruct l; [|cbn [length] in Hn; lia]. cbn [write_alphabet_go length] in *.
    destruct fuel as [|fu]; [lia|]. cbn [rd_alpha_go app repeat]. reflexivity.
  - destruct l as [|a r].
    { cbn [write_alphabet_go length] in *.
      destruct fuel as [|fu]; [lia|]. cbn [rd_alpha_go app repeat]. reflexivity. }
    cbn [length] in Hn, H256.
    assert (Hlen1 : length (done ++ [a]) = S (length done)) by (rewrite app_length; cbn [length]; lia).
    destruct a.
    + (* a symbol of the alphabet *)
      cbn [write_alphabet_go negb] in *.
      replace (0 <? length done)%nat with true in * by (symmetry; apply Nat.ltb_lt; exact Hd).
      cbn [andb] in *.
      assert (Hs0 : N.of_nat (length done) =? 0 = false) by lia.
      destruct p.
      * (* the previous symbol is in the alphabet: a run length follows *)
        assert (Hpv' : pv = N.of_nat (length done) - 1) by (apply Hp; reflexivity).
        destruct (pos_false r) as [k|] eqn:Epf.
        -- destruct (pos_false_some r k Epf) as [r2 Hr2]. subst r.
           rewrite write_go_skip in *. cbn [app length] in Hfuel |- *.
           rewrite app_length, repeat_length in Hn, H256. cbn [length] in Hn, H256.
           destruct fuel as [|fu]; [lia|]. cbn [rd_alpha_go]. rewrite Hs0.
           replace (N.of_nat (length done) - 1 =? pv) with true by lia.
           replace (256 <=? N.of_nat (length done) + N.of_nat k) with false by lia.
           rewrite !Nnat.Nat2N.id.
           rewrite app_length, repeat_length. cbn [length].
           rewrite set_range_spec by (rewrite repeat_length; lia).
           rewrite skipn_repeat.
           replace (S (k + S (length r2)) - S k)%nat with (length (false :: r2)) by (cbn [length]; lia).
           set (done' := done ++ repeat true (S k)).
           assert (Hlen' : length done' = (S (length done) + k)%nat).
           { unfold done'. rewrite app_length, repeat_length. lia. }
           replace (done ++ repeat true (S k) ++ repeat false (length (false :: r2)))
             with (done' ++ repeat false (length (false :: r2)))
             by (unfold done'; rewrite <- app_assoc; reflexivity).
           replace (done ++ true :: repeat true k ++ false :: r2) with (done' ++ false :: r2)
             by (unfold done'; rewrite <- app_assoc; reflexivity).
           rewrite <- Hlen'. rewrite <- Hlen' in Hfuel.
           apply IH; try (cbn [length]; lia); try (split; intros _; [lia|reflexivity]).
        -- pose proof (pos_false_none r Epf) as Hr.
           cbn [app length] in Hfuel |- *.
           destruct fuel as [|fu]; [lia|]. cbn [rd_alpha_go]. rewrite Hs0.
           replace (N.of_nat (length done) - 1 =? pv) with true by lia.
           replace (256 <=? N.of_nat (length done) + N.of_nat 0) with false by lia.
           rewrite !Nnat.Nat2N.id. cbn [set_range repeat]. rewrite updb_app_here.
           replace (done ++ true :: repeat false (length r)) with ((done ++ [true]) ++ repeat false (length r))
             by (rewrite <- app_assoc; reflexivity).
           replace (done ++ true :: r) with ((done ++ [true]) ++ r) by (rewrite <- app_assoc; reflexivity).
           rewrite <- Hlen1. rewrite <- Hlen1 in Hfuel.
           apply IH; try lia; try (split; intros _; [lia|reflexivity]).
      * (* the previous symbol is not in the alphabet: the symbol alone *)
        assert (Hpv' : pv <> N.of_nat (length done) - 1) by (intro Hc; apply Hp in Hc; discriminate).
        cbn [app length] in Hfuel |- *.
        destruct fuel as [|fu]; [lia|]. cbn [rd_alpha_go]. rewrite Hs0.
        replace (N.of_nat (length done) - 1 =? pv) with false by lia.
        rewrite !Nnat.Nat2N.id. cbn [repeat]. rewrite updb_app_here.
        replace (done ++ true :: repeat false (length r)) with ((done ++ [true]) ++ repeat false (length r))
          by (rewrite <- app_assoc; reflexivity).
        replace (done ++ true :: r) with ((done ++ [true]) ++ r) by (rewrite <- app_assoc; reflexivity).
        rewrite <- Hlen1. rewrite <- Hlen1 in Hfuel.
        apply IH; try lia; try (split; intros _; [lia|reflexivity]).
    + (* not in the alphabet: nothing is written *)
      cbn [write_alphabet_go negb] in *. cbn [length repeat].
      replace (done ++ false :: repeat false (length r)) with ((done ++ [false]) ++ repeat false (length r))
        by (rewrite <- app_assoc; reflexivity).
      replace (done ++ false :: r) with ((done ++ [false]) ++ r) by (rewrite <- app_assoc; reflexivity).
      rewrite <- Hlen1. rewrite <- Hlen1 in Hfuel.
      apply IH; try lia; try (split; [discriminate|lia]).
Qed.

Lemma split_first_true : forall A, In true A -> exists m r, A = repeat false m ++ true :: r.
Proof.
  induction A as [|a A IH]; intros Hin; [destruct Hin|].
  destruct a.
  - exists O, A. reflexivity.
  - destruct Hin as [Hc|Hin]; [discriminate|]. destruct (IH Hin) as [m [r Hr]].
    exists (S m), r. cbn [repeat app]. f_equal. exact Hr.
Qed.

(* read_alphabet inverts write_alphabet for every non-empty alphabet *)
Theorem alphabet_roundtrip A tail :
  length A = 256%nat -> In true A -> read_alphabet (write_alphabet A ++ tail) = Some (A, tail).
Proof.
  intros Hl Hin. destruct (split_first_true A Hin) as [m [r HA]]. subst A.
  rewrite app_length, repeat_length in Hl. cbn [length] in Hl.
  unfold write_alphabet. rewrite write_go_skip_false. cbn [Nat.add].
  cbn [write_alphabet_go negb]. rewrite andb_false_r. cbn [app].
  unfold read_alphabet. rewrite Nnat.Nat2N.id.
  unfold falses256. replace 256%nat with (m + S (length r))%nat by lia.
  rewrite repeat_app. cbn [repeat].
  assert (Hu : updb (repeat false m ++ false :: repeat false (length r)) m true
               = repeat false m ++ true :: repeat false (length r)).
  { pose proof (updb_app_here (repeat false m) false (repeat false (length r)) true) as H.
    rewrite repeat_length in H. exact H. }
  rewrite Hu.
  set (done := repeat false m ++ [true]).
  assert (Hlen : length done = S m) by (unfold done; rewrite app_length, repeat_length; cbn [length]; lia).
  replace (repeat false m ++ true :: repeat false (length r)) with (done ++ repeat false (length r))
    by (unfold done; rewrite <- app_assoc; reflexivity).
  replace (repeat false m ++ true :: r) with (done ++ r) by (unfold done; rewrite <- app_assoc; reflexivity).
  rewrite <- Hlen.
  apply (rd_alpha_write (length r)); try lia.
  cbn [length]. rewrite app_length. lia.
Qed.

(* ---------- frequencies ---------- *)

Lemma rd_freqs_write : forall F tail, Forall (fun f => f < 4294967296) F ->
  rd_freqs (alphabet_of F) (write_freqs0 F ++ tail) = Some (F, tail).
Proof.
  induction F as [|f r IH]; intros tail Hf; [reflexivity|].
  inversion Hf as [|? ? Hf0 Hfr]; subst.
  cbn [alphabet_of map write_freqs0 flat_map rd_freqs]. fold (alphabet_of r). fold (write_freqs0 r).
  destruct (0 <? f) eqn:E.
  - rewrite <- app_assoc. rewrite uint7_roundtrip by exact Hf0. rewrite IH by exact Hfr. reflexivity.
  - cbn [app]. rewrite IH by exact Hfr. f_equal. f_equal. f_equal. lia.
Qed.

Lemma dec_normalize_exact F : sumN F = 4096 -> dec_normalize 4096 F = Some F.
Proof.
  intros H. unfold dec_normalize. rewrite H. reflexivity.
Qed.

Lemma rd_states_write : forall st rest, Forall (fun s => s < 4294967296) st ->
  rd_states (length st) (flat_map le32_bytes st ++ rest) = Some (st, rest).
Proof.
  induction st as [|s r IH]; intros rest Hs; [reflexivity|].
  inversion Hs as [|? ? Hs0 Hsr]; subst.
  cbn [length rd_states flat_map]. rewrite <- app_assoc.
  rewrite take_le32_le32 by exact Hs0. rewrite IH by exact Hsr. reflexivity.
Qed.

Lemma nth_In_lt (F : list N) i : 0 < nth i F 0 -> (i < length F)%nat.
Proof.
  intros H. destruct (Nat.lt_ge_cases i (length F)) as [Hlt|Hge]; [exact Hlt|].
  rewrite nth_overflow in H by exact Hge. lia.
Qed.

Lemma alphabet_of_in F i : 0 < nth i F 0 -> In true (alphabet_of F).
Proof.
  intros H. pose proof (nth_In_lt F i H) as Hi. unfold alphabet_of.
  apply in_map_iff. exists (nth i F 0). split; [lia|]. apply nth_In. exact Hi.
Qed.

Lemma Forall_le_sum : forall F b, sumN F <= b -> Forall (fun f => f <= b) F.
Proof.
  induction F as [|f r IH]; intros b Hb; constructor; cbn [sumN] in Hb; [lia|]. apply IH. lia.
Qed.

(* ---------- the whole order-0 stream ---------- *)

(* For EVERY non-empty byte string shorter than 2^32 and every state count n > 0 (noodles uses 4
   and 32): the model of noodles' order-0 encoder terminates without panic, and the model of
   noodles' decoder maps alphabet ++ frequencies ++ states ++ payload back to the input. *)
Theorem nx_o0_roundtrip n src tail :
  (0 < n)%nat -> src <> [] ->
  Forall (fun b => b < 256) src -> N.of_nat (length src) < 4294967296 ->
  exists body, nx_o0_encode n src = EncOk body /\
               nxd0_decode (body ++ tail) (length src) n = ROk src.
Proof.
  intros Hn Hne Hb Hlen. unfold nx_o0_encode.
  pose proof (raw_frequencies_length src) as Hrl.
  pose proof (sumN_raw_frequencies src Hb) as Hrs.
  destruct (nx_normalize (raw_frequencies src)) as [F|] eqn:EF.
  2:{ exfalso. unfold nx_normalize in EF. pose proof (describe_sum (raw_frequencies src)) as Hd.
      destruct (describe_frequencies (raw_frequencies src)) as [mi sum]. cbn [snd] in Hd.
      unfold TWO32 in EF. replace (4294967296 <=? sum) with false in EF by lia.
      destruct (sum =? 0); [discriminate|].
      destruct (_ <? 4096); [discriminate|]. destruct (4096 <? _); discriminate. }
  destruct (nx_normalize_table _ F Hrl EF) as [HFl [HFs HFp]].
  assert (Hpos : 0 < sumN (raw_frequencies src)).
  { rewrite Hrs. destruct src; [congruence|]. cbn [length]. lia. }
  specialize (HFs Hpos).
  assert (Htab : table_ok F src).
  { split; [lia|]. intros x Hx. pose proof Hb as Hb'. rewrite Forall_forall in Hb'. specialize (Hb' x Hx).
    split; [rewrite HFl; lia|]. apply HFp. apply raw_frequencies_pos; [exact Hb|exact Hx]. }
  destruct (nx_o0_core_roundtrip n Hn src F Htab) as [st [stack [He [Hstl [Hok Hdec]]]]].
  rewrite He. eexists. split; [reflexivity|].
  unfold nxd0_decode, read_freqs0. rewrite <- !app_assoc.
  assert (Hin : In true (alphabet_of F)).
  { destruct src as [|x r]; [congruence|]. destruct Htab as [_ Hsym].
    destruct (Hsym x (or_introl eq_refl)) as [_ Hx]. exact (alphabet_of_in F _ Hx). }
  rewrite alphabet_roundtrip; [|unfold alphabet_of; rewrite map_length; exact HFl|exact Hin].
  rewrite rd_freqs_write.
  2:{ eapply Forall_impl; [|apply (Forall_le_sum F 4096); lia]. cbn beta. intros a Ha. lia. }
  rewrite dec_normalize_exact by exact HFs.
  rewrite <- Hstl. rewrite rd_states_write.
  2:{ eapply Forall_impl; [|exact Hok]. cbn beta. intros a [_ Ha]. lia. }
  apply Hdec.
Qed.
