(* HOSTILE STREAMS, shared definitions.  The decoder models of NV.Cram.{Nx16Full,Nx16Stripe,AacRle,
   Fqz,Names} convert every size / count field with N.to_nat.  That is exact but, after extraction,
   a unary numeral: a declared size of 2^32 makes the OCaml model build 2^32 constructors.  The
   `capped' decoder models (NV.Cram.Nx16Cap, AacCap, FqzCap, NamesCap) differ from them in two ways
   only:

   (i)  split_off-type sites (the real code slices the remaining input, `src.split_off(..len)`,
        UnexpectedEof when it is shorter) compare the declared size with the remaining input
        BEFORE converting: [split_off_n].  This is the same function (split_off_n_eq in
        NV.Cram.CapProofs), so nothing is lost.
   (ii) output-size sites (the real code allocates `vec![0; size]` and fills it) are guarded by a
        cap: a size above [cap] makes the model answer [Capped] -- "outside the model", not an
        error of the decoder.  Below the cap the capped model IS the uncapped one (the refinement
        theorems *_refines of the *CapProofs files); the extraction instantiates cap = 2^22, the
        generators keep every hostile size <= 2^20. *)
From Coq Require Import List NArith PeanoNat.
From NV Require Import Cram.Nx16Xform.
Import ListNotations.
Open Scope N_scope.

Inductive capped (A : Type) :=
| Capped                (* a declared output size above the cap: outside the model *)
| Within (a : A).
Arguments Capped {A}.
Arguments Within {A} a.

(* an output-size conversion: [k] gets the size as a nat only when it is at most [cap] *)
Definition with_cap {A : Type} (cap n : N) (k : nat -> capped A) : capped A :=
  if cap <? n then Capped else k (N.to_nat n).

(* split_off with the size still an N: short input = None (UnexpectedEof) without converting *)
Definition split_off_n (bs : list N) (n : N) : option (list N * list N) :=
  if N.of_nat (length bs) <? n then None else split_off bs (N.to_nat n).

(* min(len, k) with len : N hostile and k : nat small *)
Definition min_n_nat (len : N) (k : nat) : nat := N.to_nat (N.min len (N.of_nat k)).

(* the cap the extracted decoders run with *)
Definition model_cap : N := 4194304.
